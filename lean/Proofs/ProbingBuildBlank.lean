import Proofs.ProbingBuildGen
/-! Lines that need one hallucinated blank bigram (trigram whose two-word suffix is absent): closed form of the
builder's phases and the semantic step. -/
namespace KV.ProbingBuild
open KV.Arpa KV.Table KV.Score KV.ProbingLM

/-- `FindLower` for a trigram whose bigram suffix is absent: the blank is appended to the bigram table -/
theorem findLower_blank3 (combine : Nat → Word → Nat) (x y z : Word) (s : St) (M : Nat → Option Nat) (o' : Ord)
    (hfoi : (s.mid.getD 0 default).findOrInsert (hashOf combine [x, y]) blankW = .ok (false, (s.mid.getD 0 default).pay.length, o')) :
    findLower combine [x, y, z] 1 s [] =
      .ok (setMid s 0 o', [.mid 0 (s.mid.getD 0 default).pay.length, .uni x]) := by
  simp only [findLower, List.take, hfoi, bind, Except.bind, List.nil_append, Bool.false_eq_true, if_false, setMid,
    List.headD, List.cons_append]

/-- `AdjustLower` for that chain (blank bigram based on the unigram) -/
theorem adjustLower_blank3 (combine : Nat → Word → Nat) (ar : Rat) (x y z : Word) (L : Nat) (s : St) :
    adjustLower combine false ar [x, y, z] 3 [.mid 0 L, .uni x] s =
      .ok ((((s.modify (.uni y) setExtension).modify (.mid 0 L)
              (fun w => setProb w (-(s.get (.uni x)).mag + ((s.modify (.uni y) setExtension).get (.uni y)).backoff))).modify
            (.mid 0 L) clr).modify (.uni x) clr) := by
  simp only [adjustLower, List.getLastD, List.getLast?, List.length_cons, List.length_nil, List.dropLast, List.reverse_cons,
    List.reverse_nil, List.nil_append, List.getD_cons_succ, List.getD_cons_zero, setRest, Bool.false_eq_true, if_false,
    bind, Except.bind, fillBlanks, markChain, markExtends, pure, Except.pure]
  rfl

end KV.ProbingBuild

namespace KV.ProbingBuild
open KV.Arpa KV.Table KV.Score KV.ProbingLM

structure InvG (combine : Nat → Word → Nat) (a : Arpa) (u0 : List W) (N : Nat) (caps : Nat → Nat) (S : List Key) (s : St) : Prop where
  midlen : s.mid.length = N - 2
  uni : UniG u0 S s.uni
  tabs : ∀ m, 2 ≤ m → m ≤ N → ∃ M, OrdG combine a S m (caps m) (tbl N s m) M

theorem endsInK_false_len (S : List Key) (g : Key) (h : ∀ k ∈ S, k.length ≤ g.length) : endsInK S g = false := by
  unfold endsInK
  rw [List.any_eq_false]
  intro k hk
  have := h k hk
  have hne : (k.length == g.length + 1) = false := by simp; omega
  simp [hne]

theorem startsWithK_false_len (S : List Key) (g : Key) (h : ∀ k ∈ S, k.length ≤ g.length) : startsWithK S g = false := by
  unfold startsWithK
  rw [List.any_eq_false]
  intro k hk
  have := h k hk
  have hne : (k.length == g.length + 1) = false := by simp; omega
  simp [hne]

theorem wantW_real_new (a : Arpa) (S : List Key) (g : Key) (e : Entry) (hr : a.gram g = some e)
    (h : ∀ k ∈ S, k.length ≤ g.length) : wantW a (S ++ [g]) g = lineW e := by
  have h' : ∀ k ∈ S ++ [g], k.length ≤ g.length := by
    intro k hk
    rcases List.mem_append.mp hk with hk | hk
    · exact h k hk
    · simp at hk; subst hk; exact Nat.le_refl _
  simp [wantW, baseW, hr, endsInK_false_len _ g h', startsWithK_false_len _ g h', lineW]

/-- the insertion of the line itself into the table of its order (any kind of line) -/
theorem invG_insert_line (combine : Nat → Word → Nat) (a : Arpa) (N : Nat) (caps : Nat → Nat) (S : List Key) (s : St)
    (hml : s.mid.length = N - 2) (g : Key) (e : Entry) (hn2 : 2 ≤ g.length) (hnN : g.length ≤ N)
    (Mn : Nat → Option Nat) (semn : OrdG combine a S g.length (caps g.length) (tbl N s g.length) Mn)
    (hreal : a.gram g = some e) (hasc : ∀ k ∈ S, k.length ≤ g.length)
    (hfresh : ∀ k ∈ keysOf S g.length, hashOf combine k ≠ hashOf combine g)
    (hcap : (keysOf S g.length).length + 1 < caps g.length) :
    ∃ s1 M', insPhase combine N s g e = .ok s1 ∧ s1.uni = s.uni ∧ s1.mid.length = N - 2 ∧
      OrdG combine a (S ++ [g]) g.length (caps g.length) (tbl N s1 g.length) M' ∧
      ∀ m, m ≠ g.length → 2 ≤ m → tbl N s1 m = tbl N s m := by
  have hMk := semn.find_fresh g hfresh
  obtain ⟨o', hins, oi', hpay', hN', hent'⟩ := ord_insert semn.inv (hashOf combine g) (lineW e) hMk
    (by rw [semn.ent, semn.cap]; exact hcap)
  obtain ⟨s1, hph, hu1, hml1, ht1, hto⟩ := insPhase_ok combine N s g e o' hn2 hnN hml hins
  refine ⟨s1, KV.Probing.upd Mn (hashOf combine g) (tbl N s g.length).pay.length, hph, hu1, hml1, ?_, hto⟩
  rw [ht1]
  exact ordG_append semn g rfl hfresh o' oi' (by rw [hpay', wantW_real_new a S g e hreal hasc]) hN' hent'

end KV.ProbingBuild

namespace KV.ProbingBuild
open KV.Arpa KV.Table KV.Score KV.ProbingLM

/-- a line whose immediate suffix is already stored (no blank needed) -/
theorem invG_step_closed (combine : Nat → Word → Nat) (a : Arpa) (u0 : List W) (hu : UniOK u0) (N : Nat) (caps : Nat → Nat)
    (S : List Key) (s : St) (inv : InvG combine a u0 N caps S s) (g : Key) (e : Entry)
    (hn2 : 2 ≤ g.length) (hnN : g.length ≤ N) (hreal : a.gram g = some e)
    (hasc : ∀ k ∈ S, k.length ≤ g.length)
    (hfresh : ∀ k ∈ keysOf S g.length, hashOf combine k ≠ hashOf combine g)
    (hcap : (keysOf S g.length).length + 1 < caps g.length)
    (hbi : g.length = 2 → ∃ x y, g = [x, y] ∧ x < u0.length ∧ y < u0.length)
    (hsuf : 3 ≤ g.length → g.take (g.length - 1) ∈ S)
    (hctx : 3 ≤ g.length → g.drop 1 ∈ S) :
    ∃ s', addLine combine false N s g e = .ok s' ∧ InvG combine a u0 N caps (S ++ [g]) s' := by
  obtain ⟨Mn, semn⟩ := inv.tabs g.length hn2 hnN
  obtain ⟨s1, M', hph, hu1, hml1, semn', hto⟩ := invG_insert_line combine a N caps S s inv.midlen g e hn2 hnN Mn semn hreal hasc hfresh hcap
  rw [addLine_phases, hph]
  simp only [bind, Except.bind]
  by_cases h2 : g.length = 2
  · obtain ⟨x, y, hg, hx, hy⟩ := hbi h2
    subst hg
    simp only [List.length_cons, List.length_nil, Nat.reduceAdd, Nat.sub_self]
    rw [findLower_bigram]
    simp only [adjustLower_single, activate_bigram]
    refine ⟨_, rfl, ⟨hml1, ?_, ?_⟩⟩
    · have := uniG_mark hu inv.uni x y hx hy
      rw [← hu1] at this
      exact this
    · intro m hm2 hmN
      show ∃ M, OrdG combine a _ m (caps m) (tbl N s1 m) M
      by_cases hm : m = 2
      · subst hm; exact ⟨M', semn'⟩
      · rw [hto m (by simpa using hm) hm2]
        obtain ⟨M, sem⟩ := inv.tabs m hm2 hmN
        exact ⟨M, ordG_frame sem _ (by simp; omega) (by simp; omega)⟩
  · have h3 : 3 ≤ g.length := by omega
    obtain ⟨k, hk⟩ : ∃ k, g.length = k + 3 := ⟨g.length - 3, by omega⟩
    obtain ⟨Mp, semp⟩ := inv.tabs (g.length - 1) (by omega) (by omega)
    obtain ⟨js, hjs, hsufe, hkey1'⟩ := semp.find_mem _ (hsuf h3) (by rw [List.length_take]; omega)
    obtain ⟨ic, hic, hctxe, hkey2⟩ := semp.find_mem _ (hctx h3) (by rw [List.length_drop])
    have hne : ¬ g.length - 1 = N := by omega
    have hidx : g.length - 1 - 2 = k := by omega
    have htp1 : s1.mid.getD k default = tbl N s (g.length - 1) := by
      have := hto (g.length - 1) (by omega) (by omega)
      unfold tbl at this
      simp only [hne, if_false] at this
      rw [hidx] at this
      rw [this]
      unfold tbl; simp only [hne, if_false]
      rw [hidx]
    have hkl : k < s1.mid.length := by rw [hml1]; omega
    have oi : OrdInv (s1.mid.getD k default) Mp := by rw [htp1]; exact semp.inv
    have hkey1 : Mp (hashOf combine (g.take (k + 2))) = some js := by
      have hh : g.length - 1 = k + 2 := by omega
      rw [hh] at hkey1'; exact hkey1'
    have hfl : g.length - 2 = k + 1 := by omega
    have hmp := markPhase3 combine g k s1 Mp js ic (lineW e).rest hkl oi hkey1 hkey2
    simp only [bind, Except.bind] at hmp
    rw [hfl, hk]
    rw [hmp]
    refine ⟨_, rfl, ⟨by simp [setMid, hml1], ?_, ?_⟩⟩
    · show UniG u0 _ s1.uni
      rw [hu1]
      exact uniG_frame inv.uni g h2
    · intro m hm2 hmN
      rw [tbl_setMid _ _ _ _ _ hkl]
      by_cases hm : m = g.length - 1
      · have hc : m ≠ N ∧ m - 2 = k := by omega
        simp only [hc, and_self, if_true, ne_eq, not_false_eq_true]
        have := ordG_mark semp g (by omega) js hjs hsufe ic hic hctxe
        rw [hm]
        refine ⟨Mp, ?_⟩
        rw [htp1]
        exact this
      · have hc : ¬ (m ≠ N ∧ m - 2 = k) := by omega
        simp only [hc, if_false]
        by_cases hmn : m = g.length
        · subst hmn
          exact ⟨M', semn'⟩
        · rw [hto m hmn hm2]
          obtain ⟨M, sem⟩ := inv.tabs m hm2 hmN
          exact ⟨M, ordG_frame sem g (fun h => hmn h.symm) (by omega)⟩

end KV.ProbingBuild

namespace KV.ProbingBuild
open KV.Arpa KV.Table KV.Score KV.ProbingLM

theorem clr_setExtension (u : W) : clr (setExtension u) = setExtension (clr u) := by
  unfold clr setExtension
  by_cases h : u.backoff = 0 <;> simp [h]

theorem uniG_congr {u0 : List W} {S : List Key} {uni uni' : List W} (h : UniG u0 S uni) (hl : uni'.length = uni.length)
    (hp : ∀ w, uni'.getD w default = uni.getD w default) : UniG u0 S uni' :=
  ⟨by rw [hl]; exact h.len, fun w => by rw [hp w]; exact h.val w⟩

/-- a trigram line whose bigram suffix is not stored: one blank bigram based on the unigram -/
theorem invG_step_blank3 (combine : Nat → Word → Nat) (a : Arpa) (u0 : List W) (hu : UniOK u0) (N : Nat) (caps : Nat → Nat)
    (S : List Key) (s : St) (inv : InvG combine a u0 N caps S s) (x y z : Word) (e : Entry)
    (hN : 3 ≤ N) (hreal : a.gram [x, y, z] = some e) (hblank : a.gram [x, y] = none)
    (hasc : ∀ k ∈ S, k.length ≤ 3)
    (hfresh3 : ∀ k ∈ keysOf S 3, hashOf combine k ≠ hashOf combine [x, y, z])
    (hfresh2 : ∀ k ∈ keysOf S 2, hashOf combine k ≠ hashOf combine [x, y])
    (hcap3 : (keysOf S 3).length + 1 < caps 3) (hcap2 : (keysOf S 2).length + 1 < caps 2)
    (hE : endsInK S [x, y] = false) (hSW : startsWithK S [x, y] = false)
    (hctx : [y, z] ∈ S) (hx : x < u0.length) (hy : y < u0.length)
    (hval : (-(u0.getD x default).mag + (u0.getD y default).backoff).abs = (score a [y] x).abs) :
    ∃ s', addLine combine false N s [x, y, z] e = .ok s' ∧ InvG combine a u0 N caps (S ++ [[x, y]] ++ [[x, y, z]]) s' := by
  obtain ⟨M3, sem3⟩ := inv.tabs 3 (by omega) hN
  obtain ⟨M2, sem2⟩ := inv.tabs 2 (by omega) (by omega)
  have sem3' := ordG_frame sem3 [x, y] (by simp) (by simp)
  have hk3 : keysOf (S ++ [[x, y]]) 3 = keysOf S 3 := keysOf_append_other S [x, y] 3 (by simp)
  obtain ⟨s1, M3', hph, hu1, hml1, semn', hto⟩ := invG_insert_line combine a N caps (S ++ [[x, y]]) s inv.midlen [x, y, z] e
    (by simp) (by simpa using hN) M3 sem3' hreal
    (by intro k hk; rcases List.mem_append.mp hk with h | h
        · exact hasc k h
        · simp at h; subst h; simp)
    (by simp only [List.length_cons, List.length_nil, Nat.reduceAdd, hk3]; exact hfresh3)
    (by simp only [List.length_cons, List.length_nil, Nat.reduceAdd, hk3]; exact hcap3)
  simp only [List.length_cons, List.length_nil, Nat.reduceAdd] at semn' hto
  -- the bigram table
  have ht2 : tbl N s1 2 = s1.mid.getD 0 default := by
    unfold tbl; have : ¬ 2 = N := by omega
    simp [this]
  have ht2s : s1.mid.getD 0 default = tbl N s 2 := by rw [← ht2]; exact hto 2 (by omega) (by omega)
  have h0l : 0 < s1.mid.length := by rw [hml1]; omega
  rw [← ht2s] at sem2
  have hM2 := sem2.find_fresh [x, y] hfresh2
  obtain ⟨o2', hfoi, oi2', hpay2', hN2', hent2'⟩ := ord_findOrInsert_new sem2.inv (hashOf combine [x, y]) blankW hM2
    (by rw [sem2.ent, sem2.cap]; exact hcap2)
  obtain ⟨ic1, hic1, hctxe, hkeyc⟩ := sem2.find_mem [y, z] hctx (by simp)
  have hLlen : (s1.mid.getD 0 default).pay.length = (keysOf S 2).length := sem2.plen
  rw [addLine_phases, hph]
  simp only [bind, Except.bind, List.length_cons, List.length_nil, Nat.reduceAdd]
  rw [findLower_blank3 combine x y z s1 M2 o2' hfoi]
  simp only
  rw [adjustLower_blank3]
  -- the state before `activate`
  have hs3 : ∃ s3 : St, s3 = ((((setMid s1 0 o2').modify (.uni y) setExtension).modify (.mid 0 (s1.mid.getD 0 default).pay.length)
      (fun w => setProb w (-((setMid s1 0 o2').get (.uni x)).mag +
        (((setMid s1 0 o2').modify (.uni y) setExtension).get (.uni y)).backoff))).modify
      (.mid 0 (s1.mid.getD 0 default).pay.length) clr).modify (.uni x) clr := ⟨_, rfl⟩
  obtain ⟨s3, hs3⟩ := hs3
  rw [← hs3]
  have hyl : y < s1.uni.length := by rw [hu1, inv.uni.len]; exact hy
  have hxl : x < s1.uni.length := by rw [hu1, inv.uni.len]; exact hx
  have h3mid : ∃ P2 : List W, s3.mid = s1.mid.set 0 (withPay o2' P2) ∧ P2.length = o2'.pay.length ∧
      (∀ j, P2.getD j default =
        if j = (s1.mid.getD 0 default).pay.length then
          clr (setProb blankW (-(s1.uni.getD x default).mag + (setExtension (s1.uni.getD y default)).backoff))
        else o2'.pay.getD j default) := by
    refine ⟨(o2'.pay.set (s1.mid.getD 0 default).pay.length
        (setProb (o2'.pay.getD (s1.mid.getD 0 default).pay.length default)
          (-(s1.uni.getD x default).mag + (setExtension (s1.uni.getD y default)).backoff))).set (s1.mid.getD 0 default).pay.length
        (clr ((o2'.pay.set (s1.mid.getD 0 default).pay.length
          (setProb (o2'.pay.getD (s1.mid.getD 0 default).pay.length default)
            (-(s1.uni.getD x default).mag + (setExtension (s1.uni.getD y default)).backoff))).getD (s1.mid.getD 0 default).pay.length default)),
      ?_, by simp, ?_⟩
    · rw [hs3]
      simp only [St.modify, St.get, setMid, getD_set, List.length_set, h0l, hyl, and_self, if_true, set_set_same, withPay]
    · intro j
      simp only [getD_set, List.length_set, hpay2', List.length_append, List.length_cons, List.length_nil, hyl, and_self, if_true]
      by_cases hj : j = (s1.mid.getD 0 default).pay.length
      · subst hj
        have hlt : (s1.mid.getD 0 default).pay.length < (s1.mid.getD 0 default).pay.length + 1 := by omega
        simp only [hlt, and_self, if_true]
        rw [List.getD_eq_getElem?_getD, List.getElem?_append_right (Nat.le_refl _)]
        simp
      · have hj' := hj
        simp only [List.getD_eq_getElem?_getD] at hj'
        simp [hj']
  obtain ⟨P2, h3mid, hP2len, hP2⟩ := h3mid
  have h3uni : s3.uni = (s1.uni.set y (setExtension (s1.uni.getD y default))).set x
      (clr ((s1.uni.set y (setExtension (s1.uni.getD y default))).getD x default)) := by
    rw [hs3]; simp only [St.modify, St.get, setMid]
  have h3long : s3.longest = s1.longest := by rw [hs3]; rfl
  have h3len : s3.mid.length = N - 2 := by rw [h3mid]; simp [hml1]
  have h3get : s3.mid.getD 0 default = withPay o2' P2 := by rw [h3mid, getD_set]; simp [h0l]
  have oi3 : OrdInv (s3.mid.getD 0 default) (KV.Probing.upd M2 (hashOf combine [x, y]) (s1.mid.getD 0 default).pay.length) := by
    rw [h3get]
    exact ⟨oi2'.inv, oi2'.abs, fun k i hk => by show i < P2.length; rw [hP2len]; exact oi2'.idx k i hk⟩
  have hkeyc' : KV.Probing.upd M2 (hashOf combine [x, y]) (s1.mid.getD 0 default).pay.length (hashOf combine ([x, y, z].drop 1)) = some ic1 := by
    have hne : hashOf combine [y, z] ≠ hashOf combine [x, y] := hfresh2 _ (by rw [← hctxe]; exact List.getElem_mem hic1)
    show KV.Probing.upd M2 _ _ (hashOf combine [y, z]) = some ic1
    unfold KV.Probing.upd; simp [hne, hkeyc]
  have hact := activate_found combine [x, y, z] 0 s3 _ ic1 oi3 hkeyc'
  simp only [Nat.zero_add] at hact
  simp only [hact]
  refine ⟨_, rfl, ⟨by simp [St.modify, h3len], ?_, ?_⟩⟩
  · -- unigram array
    show UniG u0 _ s3.uni
    rw [h3uni]
    have hm := uniG_mark hu inv.uni x y hx hy
    rw [← hu1] at hm
    have hc : UniG u0 (S ++ [[x, y]]) ((s1.uni.set y (setExtension (s1.uni.getD y default))).set x
        (clr ((s1.uni.set y (setExtension (s1.uni.getD y default))).getD x default))) := by
      apply uniG_congr hm (by simp [markPay])
      intro w
      simp only [markPay, getD_set, List.length_set, hxl, hyl, and_self, if_true]
      by_cases hwx : w = x
      · subst hwx
        by_cases hwy : w = y
        · subst hwy; simp only [and_self, if_true, hxl]; exact clr_setExtension _
        · simp [hwy, hxl]
      · by_cases hwy : w = y
        · subst hwy; simp [hwx, hyl]
        · simp [hwx, hwy]
    exact uniG_frame hc [x, y, z] (by simp)
  · intro m hm2 hmN
    have htm : tbl N (s3.modify (.mid 0 ic1) setExtension) m =
        if m = 2 then withPay o2' (P2.set ic1 (setExtension (P2.getD ic1 default))) else tbl N s1 m := by
      unfold tbl
      by_cases hmN' : m = N
      · have : ¬ m = 2 := by omega
        simp only [hmN', if_true, St.modify, h3long]
        simp [show ¬ N = 2 by omega]
      · simp only [hmN', if_false, St.modify, h3get, getD_set, h3len]
        by_cases hm : m = 2
        · subst hm
          have : 0 < N - 2 := by omega
          simp [this, withPay]
        · have : ¬ (m - 2 = 0 ∧ 0 < N - 2) := by omega
          simp only [this, if_false, hm]
          rw [h3mid, getD_set]
          have : ¬ (m - 2 = 0 ∧ 0 < s1.mid.length) := by omega
          simp [this]
    rw [htm]
    by_cases hm : m = 2
    · subst hm
      simp only [if_true]
      -- logical steps: append the blank, then mark by the trigram
      have hB : (s1.mid.getD 0 default).pay ++ [wantW a (S ++ [[x, y]]) [x, y]] =
          (withPay o2' ((s1.mid.getD 0 default).pay ++ [wantW a (S ++ [[x, y]]) [x, y]])).pay := rfl
      have semA := ordG_append sem2 [x, y] (by simp) hfresh2
        (withPay o2' ((s1.mid.getD 0 default).pay ++ [wantW a (S ++ [[x, y]]) [x, y]]))
        ⟨oi2'.inv, oi2'.abs, fun k i hk => by
          show i < ((s1.mid.getD 0 default).pay ++ [_]).length
          have := oi2'.idx k i hk; rw [hpay2'] at this; simpa using this⟩
        rfl hN2' hent2'
      have hk2 : keysOf (S ++ [[x, y]]) 2 = keysOf S 2 ++ [[x, y]] := keysOf_append_same S [x, y] 2 (by simp)
      have hLk : (s1.mid.getD 0 default).pay.length < (keysOf (S ++ [[x, y]]) 2).length := by rw [hk2, hLlen]; simp
      have hic1' : ic1 < (keysOf (S ++ [[x, y]]) 2).length := by rw [hk2]; simp; omega
      have semB := ordG_mark semA [x, y, z] (by simp) (s1.mid.getD 0 default).pay.length hLk
        (by simp only [hk2]; rw [List.getElem_append_right (by rw [hLlen]; exact Nat.le_refl _)]; simp [hLlen])
        ic1 hic1' (by simp only [hk2]; rw [List.getElem_append_left hic1]; simpa using hctxe)
      refine ⟨KV.Probing.upd M2 (hashOf combine [x, y]) (s1.mid.getD 0 default).pay.length, ?_⟩
      have := ordG_congr semB (P2.set ic1 (setExtension (P2.getD ic1 default))) (by simp [withPay, markPay, hP2len, hpay2']) ?_
      · simpa [withPay] using this
      · intro j
        have hicL : ic1 < (s1.mid.getD 0 default).pay.length := by rw [hLlen]; exact hic1
        have hBval : wantW a (S ++ [[x, y]]) [x, y] =
            { mag := (score a [y] x).abs, neg := true, backoff := 0, xr := false, rest := 0 } := by
          simp [wantW, baseW, hblank, endsInK_append, startsWithK_append, hE, hSW]
        have hvx := inv.uni.val x
        have hvy := inv.uni.val y
        have hu1x : (s1.uni.getD x default).mag = (u0.getD x default).mag := by rw [hu1, hvx]; rfl
        have hu1y : (setExtension (s1.uni.getD y default)).backoff = (u0.getD y default).backoff := by
          have : (s1.uni.getD y default).backoff = (u0.getD y default).backoff := by rw [hu1, hvy]; rfl
          unfold setExtension; split <;> simpa using this
        have hnew : clr (setProb blankW (-(s1.uni.getD x default).mag + (setExtension (s1.uni.getD y default)).backoff)) =
            clr (wantW a (S ++ [[x, y]]) [x, y]) := by
          rw [hBval, hu1x, hu1y]
          simp only [clr, setProb, blankW, hval]
        simp only [withPay, markPay, getD_set, List.length_set, List.length_append, List.length_cons, List.length_nil, hP2len, hpay2', hP2, hnew]
        generalize hLL : (s1.mid.getD 0 default).pay.length = LL at *
        generalize hPP : (s1.mid.getD 0 default).pay = PP at *
        by_cases hjL : j = LL
        · subst hjL
          have hne : ¬ j = ic1 := by omega
          have hlt : j < j + 1 := by omega
          simp only [hne, false_and, if_false, if_true, hlt, and_self]
          have : (PP ++ [wantW a (S ++ [[x, y]]) [x, y]]).getD j default = wantW a (S ++ [[x, y]]) [x, y] := by
            rw [List.getD_eq_getElem?_getD, List.getElem?_append_right (by omega)]
            simp [hLL]
          rw [this]
        · by_cases hji : j = ic1
          · subst hji
            have hlt : j < LL + 1 := by omega
            simp only [hlt, and_self, if_true, hjL, if_false, false_and]
            have e1 : (PP ++ [blankW]).getD j default = PP.getD j default := by
              rw [List.getD_eq_getElem?_getD, List.getD_eq_getElem?_getD, List.getElem?_append_left (by omega)]
            have e2 : (PP ++ [wantW a (S ++ [[x, y]]) [x, y]]).getD j default = PP.getD j default := by
              rw [List.getD_eq_getElem?_getD, List.getD_eq_getElem?_getD, List.getElem?_append_left (by omega)]
            rw [e1, e2]
          · simp only [hji, hjL, false_and, if_false]
            by_cases hjlt : j < LL
            · rw [List.getD_eq_getElem?_getD, List.getD_eq_getElem?_getD, List.getElem?_append_left (by omega),
                List.getElem?_append_left (by omega)]
            · rw [List.getD_eq_getElem?_getD, List.getD_eq_getElem?_getD, List.getElem?_eq_none (by simp; omega),
                List.getElem?_eq_none (by simp; omega)]
    · simp only [hm, if_false]
      by_cases hm3 : m = 3
      · subst hm3; exact ⟨M3', semn'⟩
      · rw [hto m hm3 hm2]
        obtain ⟨M, sem⟩ := inv.tabs m hm2 hmN
        exact ⟨M, ordG_frame (ordG_frame sem [x, y] (by simp; omega) (by simp; omega)) [x, y, z] (by simp; omega) (by simp; omega)⟩

end KV.ProbingBuild
