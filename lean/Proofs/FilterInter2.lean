import Proofs.FilterInter
/-!
Completeness of `FirstIntersectionSorted`'s restart loop and of `AllIntersection` on strictly
increasing ranges: the lowest common value is found; every common value is reported exactly once,
in increasing order.  Posting lists are strictly increasing.
-/
namespace KV.Filter

abbrev Inc (l : List Nat) : Prop := l.Pairwise (· < ·)

theorem Inc.suffix {l m : List Nat} (h : Inc m) (hs : l <:+ m) : Inc l := h.sublist hs.sublist

theorem Inc.head_le {x : Nat} {l : List Nat} (h : Inc (x :: l)) {c : Nat} (hc : c ∈ x :: l) : x ≤ c := by
  rcases List.mem_cons.mp hc with rfl | hc
  · exact Nat.le_refl _
  · exact Nat.le_of_lt ((List.pairwise_cons.mp h).1 c hc)

theorem Inc.tail_gt {x : Nat} {l : List Nat} (h : Inc (x :: l)) {c : Nat} (hc : c ∈ l) : x < c :=
  (List.pairwise_cons.mp h).1 c hc

/-- `lower_bound` keeps every element that is not below the bound -/
theorem mem_lowerBound {h c : Nat} : ∀ {l : List Nat}, c ∈ l → ¬ c < h → c ∈ lowerBound h l
  | [], hc, _ => by cases hc
  | y :: l, hc, hn => by
    unfold lowerBound
    simp only [List.dropWhile_cons]
    split
    · rename_i hy
      rcases List.mem_cons.mp hc with rfl | hc
      · exact absurd (by simpa using hy) hn
      · exact mem_lowerBound (l := l) hc hn
    · exact hc

/-- an element of the original range that is at least the head of a suffix lies in the suffix -/
theorem mem_suffix_of_ge {l m : List Nat} {x c : Nat} (hm : Inc m) (hs : (x :: l) <:+ m) (hc : c ∈ m) (hx : x ≤ c) :
    c ∈ x :: l := by
  obtain ⟨pre, rfl⟩ := hs
  rcases List.mem_append.mp hc with hp | hq
  · have := (List.pairwise_append.mp hm).2.2 c hp x List.mem_cons_self
    omega
  · exact hq

def AllInc (sets : List (List Nat)) : Prop := ∀ s ∈ sets, Inc s
def Common (c : Nat) (sets : List (List Nat)) : Prop := ∀ s ∈ sets, c ∈ s

theorem Suf.allInc : ∀ {r sets : List (List Nat)}, Suf r sets → AllInc sets → AllInc r
  | [], [], _, _ => by intro s hs; cases hs
  | a :: r, b :: sets, ⟨h1, h2⟩, hi => by
    intro s hs
    rcases List.mem_cons.mp hs with rfl | hs
    · exact (hi b List.mem_cons_self).suffix h1
    · exact Suf.allInc h2 (fun t ht => hi t (List.mem_cons_of_mem _ ht)) s hs
  | [], _ :: _, h, _ => h.elim
  | _ :: _, [], h, _ => h.elim

/-- one pass with a bound below a common value: never exhausted; a restart keeps the value -/
theorem pass_complete {h c : Nat} : ∀ {sets : List (List Nat)}, AllInc sets → Common c sets → h ≤ c →
    (pass h sets ≠ .exhausted) ∧
    (∀ r, pass h sets = .same r → Common c r) ∧
    (∀ h' r, pass h sets = .higher h' r → h < h' ∧ h' ≤ c ∧ Common c r)
  | [], _, _, _ => by
    refine ⟨by simp [pass], ?_, by simp [pass]⟩
    intro r e; simp only [pass] at e; injection e with e; subst e; intro s hs; cases hs
  | s :: rest, hi, hc, hle => by
    have hcs : c ∈ lowerBound h s := mem_lowerBound (hc s List.mem_cons_self) (by omega)
    have ihr := pass_complete (h := h) (c := c) (sets := rest) (fun t ht => hi t (List.mem_cons_of_mem _ ht))
      (fun t ht => hc t (List.mem_cons_of_mem _ ht)) hle
    cases hlb : lowerBound h s with
    | nil => rw [hlb] at hcs; cases hcs
    | cons x s' =>
      rw [hlb] at hcs
      have hinc : Inc (x :: s') := (hi s List.mem_cons_self).suffix (by rw [← hlb]; exact lowerBound_suffix h s)
      by_cases hx : h < x
      · have e : pass h (s :: rest) = .higher x ((x :: s') :: rest) := by simp only [pass, hlb, hx, if_true]
        rw [e]
        refine ⟨(by intro hh; cases hh), (by intro r hh; cases hh), ?_⟩
        intro h' r e
        injection e with e1 e2; subst e1; subst e2
        refine ⟨hx, hinc.head_le hcs, ?_⟩
        intro t ht
        rcases List.mem_cons.mp ht with rfl | ht
        · exact hcs
        · exact hc t (List.mem_cons_of_mem _ ht)
      · obtain ⟨i1, i2, i3⟩ := ihr
        cases hp : pass h rest with
        | exhausted => exact absurd hp i1
        | same r' =>
          have e : pass h (s :: rest) = .same ((x :: s') :: r') := by simp only [pass, hlb, hx, if_false, hp]
          rw [e]
          refine ⟨(by intro hh; cases hh), ?_, (by intro h' r hh; cases hh)⟩
          intro r e; injection e with e; subst e
          intro t ht
          rcases List.mem_cons.mp ht with rfl | ht
          · exact hcs
          · exact i2 r' hp t ht
        | higher h'' r' =>
          have e : pass h (s :: rest) = .higher h'' ((x :: s') :: r') := by simp only [pass, hlb, hx, if_false, hp]
          rw [e]
          refine ⟨(by intro hh; cases hh), (by intro r hh; cases hh), ?_⟩
          intro h' r e
          injection e with e1 e2; subst e1; subst e2
          obtain ⟨j1, j2, j3⟩ := i3 _ _ hp
          refine ⟨j1, j2, ?_⟩
          intro t ht
          rcases List.mem_cons.mp ht with rfl | ht
          · exact hcs
          · exact j3 t ht

/-- **the restart loop finds a value when one exists**, and it is not above any common value -/
theorem firstInterFuel_complete : ∀ (fuel h c : Nat) (sets : List (List Nat)), AllInc sets → Common c sets → h ≤ c →
    c - h < fuel → ∃ m r, firstInterFuel fuel h sets = some (some (m, r)) ∧ m ≤ c
  | 0, _, _, _, _, _, _, hf => by omega
  | fuel+1, h, c, sets, hi, hc, hle, hf => by
    obtain ⟨p1, p2, p3⟩ := pass_complete hi hc hle
    simp only [firstInterFuel]
    cases hp : pass h sets with
    | exhausted => exact absurd hp p1
    | same r => exact ⟨h, r, rfl, hle⟩
    | higher h' r =>
      obtain ⟨q1, q2, q3⟩ := p3 _ _ hp
      exact firstInterFuel_complete fuel h' c r ((pass_higher hp).allInc hi) q3 q2 (by omega)

theorem le_maxElem {sets : List (List Nat)} {s : List Nat} {c : Nat} (hs : s ∈ sets) (hc : c ∈ s) : c ≤ maxElem sets := by
  have hm : c ∈ sets.flatten := List.mem_flatten.mpr ⟨s, hs, hc⟩
  unfold maxElem
  generalize sets.flatten = l at hm
  induction l with
  | nil => cases hm
  | cons y l ih =>
    simp only [List.foldr_cons]
    rcases List.mem_cons.mp hm with rfl | hm
    · exact Nat.le_max_left _ _
    · exact Nat.le_trans (ih hm) (Nat.le_max_right _ _)

/-- `FirstIntersectionSorted` on non-empty input with a common value: succeeds, returns a value
not above it, with every advanced range headed by the result -/
theorem firstInterSets_complete {sets : List (List Nat)} (hne : sets ≠ []) (hi : AllInc sets) {c : Nat}
    (hc : Common c sets) : ∃ m r, firstInterSets sets = some (m, r) ∧ m ≤ c := by
  cases sets with
  | nil => exact absurd rfl hne
  | cons s0 rest =>
    cases s0 with
    | nil => exact absurd (hc [] List.mem_cons_self) (by simp)
    | cons x s =>
      have hxc : x ≤ c := (hi _ List.mem_cons_self).head_le (hc _ List.mem_cons_self)
      have hcm : c ≤ maxElem ((x :: s) :: rest) := le_maxElem List.mem_cons_self (hc _ List.mem_cons_self)
      obtain ⟨m, r, e, hm⟩ := firstInterFuel_complete (maxElem ((x :: s) :: rest) + 1) x c _ hi hc hxc (by omega)
      refine ⟨m, r, ?_, hm⟩
      simp only [firstInterSets, e]

theorem firstInterSets_common {sets r : List (List Nat)} {m : Nat} (e : firstInterSets sets = some (m, r)) :
    Common m sets := by
  obtain ⟨h1, h2⟩ := firstInterSets_sound e
  apply h1.mem_all
  intro s hs
  obtain ⟨t, rfl⟩ := h2 s hs
  exact List.mem_cons_self

/-- **`FirstIntersection` finds a value iff the ranges have a common value** (any order) -/
theorem firstInter_isSome_iff {sets : List (List Nat)} (hne : sets ≠ []) (hi : AllInc sets) :
    (firstInter sets).isSome = true ↔ ∃ c, Common c sets := by
  constructor
  · intro h
    cases hf : firstInter sets with
    | none => rw [hf] at h; cases h
    | some m => exact ⟨m, firstInter_mem hf⟩
  · rintro ⟨c, hc⟩
    obtain ⟨m, r, e, _⟩ := firstInterSets_complete hne hi hc
    simp [firstInter, e]

/-! ### AllIntersection -/

theorem totalLen_cons (s : List Nat) (rest : List (List Nat)) : totalLen (s :: rest) = s.length + totalLen rest := by
  simp [totalLen]

theorem Suf.totalLen_le : ∀ {r sets : List (List Nat)}, Suf r sets → totalLen r ≤ totalLen sets
  | [], [], _ => Nat.le_refl _
  | a :: r, b :: sets, ⟨h1, h2⟩ => by
    have := Suf.totalLen_le h2
    have := h1.length_le
    simp only [totalLen_cons]; omega
  | [], _ :: _, h => h.elim
  | _ :: _, [], h => h.elim

/-- a common value above the heads stays common after the first range drops its head -/
theorem common_advance {sets r : List (List Nat)} {m c : Nat} {y : Nat} {s : List Nat} {rest : List (List Nat)}
    (hi : AllInc sets) (hsuf : Suf r sets) (hheads : ∀ t ∈ r, ∃ u, t = m :: u) (hr : r = (y :: s) :: rest)
    (hc : Common c sets) (hmc : m < c) : Common c (s :: rest) := by
  have key : ∀ {r sets : List (List Nat)}, Suf r sets → AllInc sets → Common c sets → (∀ t ∈ r, ∃ u, t = m :: u) →
      Common c r := by
    intro r sets
    induction r generalizing sets with
    | nil => intro _ _ _ _ t ht; cases ht
    | cons a r ih =>
      cases sets with
      | nil => intro h; exact h.elim
      | cons b sets =>
        intro ⟨h1, h2⟩ hi hc hh t ht
        rcases List.mem_cons.mp ht with rfl | ht
        · obtain ⟨u, rfl⟩ := hh _ List.mem_cons_self
          exact mem_suffix_of_ge (hi b List.mem_cons_self) h1 (hc b List.mem_cons_self) (by omega)
        · exact ih h2 (fun t ht => hi t (List.mem_cons_of_mem _ ht)) (fun t ht => hc t (List.mem_cons_of_mem _ ht))
            (fun t ht => hh t (List.mem_cons_of_mem _ ht)) t ht
  have hcr := key hsuf hi hc hheads
  subst hr
  intro t ht
  rcases List.mem_cons.mp ht with rfl | ht
  · have h0 := hcr _ List.mem_cons_self
    obtain ⟨u, hu⟩ := hheads _ List.mem_cons_self
    injection hu with hy _
    rcases List.mem_cons.mp h0 with h0 | h0
    · omega
    · exact h0
  · exact hcr t (List.mem_cons_of_mem _ ht)

theorem allInterFuel_spec : ∀ (fuel : Nat) (sets : List (List Nat)), sets ≠ [] → AllInc sets → totalLen sets < fuel →
    (∀ c, Common c sets → c ∈ allInterFuel fuel sets) ∧ Inc (allInterFuel fuel sets)
  | 0, _, _, _, hf => by omega
  | fuel+1, sets, hne, hi, hf => by
    simp only [allInterFuel]
    cases hfs : firstInterSets sets with
    | none =>
      refine ⟨?_, List.Pairwise.nil⟩
      intro c hc
      obtain ⟨m, r, e, _⟩ := firstInterSets_complete hne hi hc
      rw [hfs] at e; cases e
    | some p =>
      obtain ⟨m, r⟩ := p
      obtain ⟨hsuf, hheads⟩ := firstInterSets_sound hfs
      have hmcommon := firstInterSets_common hfs
      have hri : AllInc r := hsuf.allInc hi
      simp only
      cases r with
      | nil =>
        -- impossible: `sets ≠ []`
        cases sets with
        | nil => exact absurd rfl hne
        | cons _ _ => exact hsuf.elim
      | cons r0 rest =>
        obtain ⟨u, hu⟩ := hheads r0 List.mem_cons_self
        subst hu
        simp only
        have hlen : totalLen (u :: rest) < fuel := by
          have := hsuf.totalLen_le
          simp only [totalLen_cons, List.length_cons] at this ⊢; omega
        have hi' : AllInc (u :: rest) := by
          intro t ht
          rcases List.mem_cons.mp ht with rfl | ht
          · exact (List.pairwise_cons.mp (hri _ List.mem_cons_self)).2
          · exact hri t (List.mem_cons_of_mem _ ht)
        obtain ⟨ih1, ih2⟩ := allInterFuel_spec fuel (u :: rest) (by simp) hi' hlen
        refine ⟨?_, ?_⟩
        · intro c hc
          have hmc : m ≤ c := by
            obtain ⟨m', r', e', hle⟩ := firstInterSets_complete hne hi hc
            rw [hfs] at e'; injection e' with e'; injection e' with e1 _; omega
          rcases Nat.lt_or_ge m c with hlt | hge
          · exact List.mem_cons_of_mem _ (ih1 c (common_advance hi hsuf hheads rfl hc hlt))
          · have : c = m := by omega
            subst this; exact List.mem_cons_self
        · apply List.pairwise_cons.mpr
          refine ⟨?_, ih2⟩
          intro c hc
          have hcu : c ∈ u := allInterFuel_mem fuel (u :: rest) c hc u List.mem_cons_self
          exact (hri _ List.mem_cons_self).tail_gt hcu

/-- **`AllIntersection` reports exactly the common values, each once, in increasing order** -/
theorem allInter_spec {sets : List (List Nat)} (hne : sets ≠ []) (hi : AllInc sets) :
    (∀ c, c ∈ allInter sets ↔ Common c sets) ∧ Inc (allInter sets) := by
  obtain ⟨h1, h2⟩ := allInterFuel_spec (totalLen sets + 1) sets hne hi (by omega)
  exact ⟨fun c => ⟨fun hc => allInterFuel_mem _ _ c hc, h1 c⟩, h2⟩

theorem Inc.count_le_one {l : List Nat} (h : Inc l) (k : Nat) : l.count k ≤ 1 := by
  induction l with
  | nil => simp
  | cons x l ih =>
    have := ih (List.pairwise_cons.mp h).2
    simp only [List.count_cons]
    split
    · rename_i hx
      have hxk : x = k := by simpa using hx
      have : l.count k = 0 := by
        apply List.count_eq_zero.mpr
        intro hk
        have := (List.pairwise_cons.mp h).1 k hk
        omega
      omega
    · omega

/-! ### posting lists are strictly increasing; `sets_` gathered for an n-gram -/

theorem postingFrom_inc (w : Bytes) : ∀ (sents : List (List Bytes)) (i : Nat),
    Inc (postingFrom w i sents) ∧ ∀ c ∈ postingFrom w i sents, i ≤ c
  | [], i => ⟨List.Pairwise.nil, by intro c hc; cases hc⟩
  | s :: ss, i => by
    obtain ⟨h1, h2⟩ := postingFrom_inc w ss (i+1)
    simp only [postingFrom]
    split
    · refine ⟨List.pairwise_cons.mpr ⟨fun c hc => by have := h2 c hc; omega, h1⟩, ?_⟩
      intro c hc
      rcases List.mem_cons.mp hc with rfl | hc
      · exact Nat.le_refl _
      · have := h2 c hc; omega
    · exact ⟨h1, fun c hc => by have := h2 c hc; omega⟩

theorem posting_inc {sents : List (List Bytes)} {w : Bytes} {p : List Nat} (hp : posting sents w = some p) : Inc p := by
  unfold posting at hp
  split at hp
  · cases hp
  · injection hp with hp; subst hp; exact (postingFrom_inc w sents 0).1

theorem gatherSets_inc (sents : List (List Bytes)) : ∀ (ws : List Bytes) (sets : List (List Nat)),
    gatherSets sents ws = some sets → AllInc sets
  | [], sets, e => by simp [gatherSets] at e; subst e; intro s hs; cases hs
  | w0 :: ws, sets, e => by
    simp only [gatherSets] at e
    split at e
    · exact gatherSets_inc sents ws sets e
    · cases hp : posting sents w0 with
      | none => rw [hp] at e; cases e
      | some p =>
        rw [hp] at e
        cases hg : gatherSets sents ws with
        | none => rw [hg] at e; cases e
        | some rest =>
          rw [hg] at e
          simp only [Option.map_some, Option.some.injEq] at e
          subst e
          intro s hs
          rcases List.mem_cons.mp hs with rfl | hs
          · exact posting_inc hp
          · exact gatherSets_inc sents ws rest hg s hs

/-- if sentence `c` contains every non-tag word, every such word has a posting list containing `c` -/
theorem gatherSets_complete (sents : List (List Bytes)) (c : Nat) : ∀ (ws : List Bytes),
    (∀ w ∈ ws.filter (fun w => !isTag w), ∃ sent : List Bytes, sents[c]? = some sent ∧ w ∈ sent) →
    ∃ sets, gatherSets sents ws = some sets ∧ Common c sets ∧ (sets = [] ↔ ws.filter (fun w => !isTag w) = [])
  | [], _ => ⟨[], rfl, (fun s hs => by cases hs), (by simp)⟩
  | w0 :: ws, h => by
    by_cases ht : isTag w0 = true
    · have h' : ∀ w ∈ ws.filter (fun w => !isTag w), ∃ sent : List Bytes, sents[c]? = some sent ∧ w ∈ sent := by
        intro w hw; apply h; simp only [List.filter_cons, ht, Bool.not_true]; simpa using hw
      obtain ⟨sets, e, hc, hn⟩ := gatherSets_complete sents c ws h'
      refine ⟨sets, by simp only [gatherSets, if_pos ht]; exact e, hc, ?_⟩
      simp only [List.filter_cons, ht, Bool.not_true]; simpa using hn
    · have ht' : isTag w0 = false := by simpa using ht
      have h0 : ∃ sent : List Bytes, sents[c]? = some sent ∧ w0 ∈ sent := by
        apply h; simp [List.filter_cons, ht']
      have h' : ∀ w ∈ ws.filter (fun w => !isTag w), ∃ sent : List Bytes, sents[c]? = some sent ∧ w ∈ sent := by
        intro w hw; apply h; simp only [List.filter_cons, ht', Bool.not_false, if_true]
        exact List.mem_cons_of_mem _ hw
      obtain ⟨sets, e, hc, _⟩ := gatherSets_complete sents c ws h'
      cases hp : posting sents w0 with
      | none =>
        exfalso
        unfold posting at hp
        obtain ⟨sent, hs1, hs2⟩ := h0
        have : c ∈ postingFrom w0 0 sents := (mem_postingFrom w0 sents 0 c).mpr ⟨c, sent, by omega, hs1, by simpa using hs2⟩
        split at hp
        · rename_i hnil; rw [hnil] at this; cases this
        · cases hp
      | some p =>
        refine ⟨p :: sets, by simp only [gatherSets, if_neg ht, hp, e, Option.map_some], ?_, ?_⟩
        · intro s hs
          rcases List.mem_cons.mp hs with rfl | hs
          · exact (mem_posting hp c).mpr h0
          · exact hc s hs
        · simp [List.filter_cons, ht']

theorem gatherSets_nil_iff (sents : List (List Bytes)) : ∀ (ws : List Bytes) (sets : List (List Nat)),
    gatherSets sents ws = some sets → (sets = [] ↔ ws.filter (fun w => !isTag w) = [])
  | [], sets, e => by simp [gatherSets] at e; subst e; simp
  | w0 :: ws, sets, e => by
    simp only [gatherSets] at e
    by_cases ht : isTag w0 = true
    · rw [if_pos ht] at e
      have := gatherSets_nil_iff sents ws sets e
      simp only [List.filter_cons, ht, Bool.not_true]; simpa using this
    · rw [if_neg ht] at e
      have ht' : isTag w0 = false := by simpa using ht
      cases hp : posting sents w0 with
      | none => rw [hp] at e; cases e
      | some p =>
        rw [hp] at e
        cases hg : gatherSets sents ws with
        | none => rw [hg] at e; cases e
        | some rest =>
          rw [hg] at e
          simp only [Option.map_some, Option.some.injEq] at e
          subst e
          simp [List.filter_cons, ht']

theorem sortBySize_ne_nil {l : List (List Nat)} (h : l ≠ []) : sortBySize l ≠ [] := by
  cases l with
  | nil => exact absurd rfl h
  | cons s r =>
    intro hn
    have : s ∈ sortBySize (s :: r) := (mem_sortBySize s _).mpr List.mem_cons_self
    rw [hn] at this; cases this

theorem sortBySize_allInc {l : List (List Nat)} (h : AllInc l) : AllInc (sortBySize l) :=
  fun s hs => h s ((mem_sortBySize s l).mp hs)

theorem sortBySize_common {l : List (List Nat)} {c : Nat} : Common c (sortBySize l) ↔ Common c l :=
  ⟨fun h s hs => h s ((mem_sortBySize s l).mpr hs), fun h s hs => h s ((mem_sortBySize s l).mp hs)⟩

end KV.Filter
