import Model.Vocab
import Proofs.ProbingAutoP2Run
/-!
`GrowableVocab`: the ids are the positions of first occurrence, whatever the initial size of the
`AutoProbing` table and hence whatever its doubling history.
-/
namespace KV.Vocab
open KV.Probing

/-- the map a list of distinct keys (in order of first occurrence) stands for -/
def mapOf (seen : List Nat) : Nat → Option Nat := fun k => if k ∈ seen then some (seen.idxOf k) else none

theorem Abs_congr (t : Table) (M M' : Nat → Option Nat) (h : ∀ k, M k = M' k) (abs : Abs t M) : Abs t M' := by
  intro k v; rw [← h k]; exact abs k v

theorem mapOf_append (seen : List Nat) (k : Nat) (hk : k ∉ seen) :
    ∀ x, upd (mapOf seen) k seen.length x = mapOf (seen ++ [k]) x := by
  intro x
  unfold upd mapOf
  by_cases hx : x = k
  · subst hx
    simp [List.idxOf_append, hk]
  · by_cases hm : x ∈ seen
    · simp [hx, hm, List.idxOf_append]
    · simp [hx, hm]

/-- the table state represents the list of distinct keys seen so far -/
structure GRep (a : Auto) (seen : List Nat) : Prop where
  ref : ARef id thetaReal a (mapOf seen)
  pow : Pow2 a.t.N
  cnt : a.t.entries = seen.length

/-- one `GrowableVocab::FindOrInsert` -/
theorem gFindOrInsert_spec (a : Auto) (seen : List Nat) (k : Nat) (r : GRep a seen)
    (hmax : (specStep seen k).2.length < kWordIndexMax) :
    ∃ a', gFindOrInsert a k = .ok ((specStep seen k).1, a') ∧ GRep a' (specStep seen k).2 := by
  obtain ⟨⟨ai, abs⟩, hp, hcnt⟩ := r
  obtain ⟨hfound, hnew⟩ := auto_findOrInsert_spec id thetaReal thetaReal_ok a (mapOf seen) k a.t.entries ai abs
  unfold gFindOrInsert
  rw [auto_findOrInsertP2_eq id thetaReal a k a.t.entries hp]
  by_cases hm : k ∈ seen
  · have hM : mapOf seen k = some (seen.idxOf k) := by simp [mapOf, hm]
    obtain ⟨p, a', hf, ai', abs', _, hE⟩ := hfound _ hM
    have hpow := auto_findOrInsert_pow2 id thetaReal a a' k a.t.entries p _ true hp hf
    refine ⟨a', ?_, ⟨ai', ?_⟩, hpow, ?_⟩
    · simp [hf, specStep]
    · simpa [specStep, hm] using abs'
    · simp [specStep, hm]; omega
  · have hM : mapOf seen k = none := by simp [mapOf, hm]
    obtain ⟨p, a', hf, ai', abs', _, hE⟩ := hnew hM
    have hpow := auto_findOrInsert_pow2 id thetaReal a a' k a.t.entries p _ false hp hf
    have hlen : (specStep seen k).2.length = seen.length + 1 := by simp [specStep, hm]
    have hnot : ¬ (a'.t.entries ≥ kWordIndexMax) := by omega
    refine ⟨a', ?_, ⟨ai', ?_⟩, hpow, ?_⟩
    · rw [hf]
      simp [hnot, specStep, List.idxOf_eq_length hm, hcnt]
    · have : (specStep seen k).2 = seen ++ [k] := by simp [specStep, hm]
      rw [this]
      exact Abs_congr a'.t _ _ (by rw [hcnt]; exact mapOf_append seen k hm) abs'
    · omega

theorem specStep_length_le (seen : List Nat) (k : Nat) : seen.length ≤ (specStep seen k).2.length := by
  unfold specStep; split <;> simp

theorem specLine_length_le : ∀ (l : List Nat) (seen : List Nat), seen.length ≤ (specLine seen l).2.length := by
  intro l
  induction l with
  | nil => intro seen; exact Nat.le_refl _
  | cons k ks ih =>
    intro seen
    exact Nat.le_trans (specStep_length_le seen k) (ih _)

theorem specLines_length_le : ∀ (ls : List (List Nat)) (seen : List Nat), seen.length ≤ (specLines seen ls).2.length := by
  intro ls
  induction ls with
  | nil => intro seen; exact Nat.le_refl _
  | cons l ls ih =>
    intro seen
    exact Nat.le_trans (specLine_length_le l seen) (ih _)

theorem gEncodeLine_spec : ∀ (l : List Nat) (a : Auto) (seen : List Nat), GRep a seen →
    (specLine seen l).2.length < kWordIndexMax →
    ∃ a', gEncodeLine a l = .ok ((specLine seen l).1, a') ∧ GRep a' (specLine seen l).2 := by
  intro l
  induction l with
  | nil => intro a seen r _; exact ⟨a, rfl, r⟩
  | cons k ks ih =>
    intro a seen r hmax
    have h1 : (specStep seen k).2.length < kWordIndexMax :=
      Nat.lt_of_le_of_lt (specLine_length_le ks _) hmax
    obtain ⟨a1, hf, r1⟩ := gFindOrInsert_spec a seen k r h1
    obtain ⟨a2, he, r2⟩ := ih a1 _ r1 hmax
    exact ⟨a2, by simp [gEncodeLine, hf, he, specLine], r2⟩

theorem gEncodeLines_spec : ∀ (ls : List (List Nat)) (a : Auto) (seen : List Nat), GRep a seen →
    (specLines seen ls).2.length < kWordIndexMax →
    ∃ a', gEncodeLines a ls = .ok ((specLines seen ls).1, a') ∧ GRep a' (specLines seen ls).2 := by
  intro ls
  induction ls with
  | nil => intro a seen r _; exact ⟨a, rfl, r⟩
  | cons l ls ih =>
    intro a seen r hmax
    have h1 : (specLine seen l).2.length < kWordIndexMax :=
      Nat.lt_of_le_of_lt (specLines_length_le ls _) hmax
    obtain ⟨a1, hf, r1⟩ := gEncodeLine_spec l a seen r h1
    obtain ⟨a2, he, r2⟩ := ih a1 _ r1 hmax
    exact ⟨a2, by simp [gEncodeLines, hf, he, specLines], r2⟩

theorem specials_steps (sp : Specials) (hd : sp.unk ≠ sp.bos ∧ sp.unk ≠ sp.eos ∧ sp.bos ≠ sp.eos) :
    specStep ([] : List Nat) sp.unk = (0, [sp.unk]) ∧ specStep [sp.unk] sp.bos = (1, [sp.unk, sp.bos]) ∧
    specStep [sp.unk, sp.bos] sp.eos = (2, [sp.unk, sp.bos, sp.eos]) ∧
    specStep [sp.unk, sp.bos, sp.eos] sp.eos = (2, [sp.unk, sp.bos, sp.eos]) := by
  obtain ⟨hub, hue, hbe⟩ := hd
  have b1 : (sp.unk == sp.bos) = false := by simp [hub]
  have b2 : (sp.unk == sp.eos) = false := by simp [hue]
  have b3 : (sp.bos == sp.eos) = false := by simp [hbe]
  refine ⟨by simp [specStep], ?_, ?_, ?_⟩
  · simp [specStep, List.idxOf_cons, b1, Ne.symm hub]
  · simp [specStep, List.idxOf_cons, b2, b3, Ne.symm hue, Ne.symm hbe]
  · simp [specStep, List.idxOf_cons, b2, b3]

/-- the constructor forces `<unk>`, `<s>`, `</s>` to 0, 1, 2 (for any empty table) -/
theorem gNewFrom_spec (sp : Specials) (a0 : Auto) (r0 : GRep a0 [])
    (hd : sp.unk ≠ sp.bos ∧ sp.unk ≠ sp.eos ∧ sp.bos ≠ sp.eos) :
    ∃ a, gNewFrom sp a0 = .ok a ∧ GRep a [sp.unk, sp.bos, sp.eos] := by
  obtain ⟨e1, e2, e3, _⟩ := specials_steps sp hd
  have k1 : (1 : Nat) < kWordIndexMax := by decide
  have k2 : (2 : Nat) < kWordIndexMax := by decide
  have k3 : (3 : Nat) < kWordIndexMax := by decide
  obtain ⟨a1, f1, r1⟩ := gFindOrInsert_spec a0 [] sp.unk r0 (by rw [e1]; exact k1)
  rw [e1] at f1 r1
  obtain ⟨a2, f2, r2⟩ := gFindOrInsert_spec a1 _ sp.bos r1 (by rw [e2]; exact k2)
  rw [e2] at f2 r2
  obtain ⟨a3, f3, r3⟩ := gFindOrInsert_spec a2 _ sp.eos r2 (by rw [e3]; exact k3)
  rw [e3] at f3 r3
  exact ⟨a3, by simp only [gNewFrom, f1, f2, f3], r3⟩

theorem gTable_rep (x : Nat) (h1 : 1 ≤ x) (h2 : x ≤ 2^63) : GRep (gTable x) [] := by
  obtain ⟨j, hj, _, _⟩ := roundBuckets_spec x h1 h2
  have hpos : 0 < roundBuckets x := by rw [hj]; exact Nat.two_pow_pos j
  have e : mapOf [] = fun _ => none := by funext k; simp [mapOf]
  exact ⟨by rw [e]; exact auto_init id thetaReal (roundBuckets x) hpos, ⟨j, hj⟩, rfl⟩

theorem gEncodeFrom_spec (sp : Specials) (a : Auto) (r : GRep a [sp.unk, sp.bos, sp.eos])
    (hd : sp.unk ≠ sp.bos ∧ sp.unk ≠ sp.eos ∧ sp.bos ≠ sp.eos) (text : List (List Nat))
    (hmax : (specEncode sp.unk sp.bos sp.eos text).2 < kWordIndexMax) :
    gEncodeFrom sp a text = .ok (specEncode sp.unk sp.bos sp.eos text) := by
  obtain ⟨_, _, _, e4⟩ := specials_steps sp hd
  have k3 : (3 : Nat) < kWordIndexMax := by decide
  obtain ⟨a1, f1, r1⟩ := gFindOrInsert_spec a _ sp.eos r (by rw [e4]; exact k3)
  rw [e4] at f1 r1
  obtain ⟨a2, he, r2⟩ := gEncodeLines_spec text a1 _ r1 hmax
  simp only [gEncodeFrom, f1, he, specEncode, r2.cnt]

/-- **ids of a token stream do not depend on the initial table size** (hash level) -/
theorem growableEncode_spec (sp : Specials) (x : Nat) (h1 : 1 ≤ x) (h2 : x ≤ 2^63)
    (hd : sp.unk ≠ sp.bos ∧ sp.unk ≠ sp.eos ∧ sp.bos ≠ sp.eos) (text : List (List Nat))
    (hmax : (specEncode sp.unk sp.bos sp.eos text).2 < kWordIndexMax) :
    growableEncode sp x text = .ok (specEncode sp.unk sp.bos sp.eos text) := by
  obtain ⟨a, hn, r⟩ := gNewFrom_spec sp (gTable x) (gTable_rep x h1 h2) hd
  unfold growableEncode gNew
  rw [hn]
  exact gEncodeFrom_spec sp a r hd text hmax

end KV.Vocab
