import Model.FilterCtl
/-!
`MultipleOutputBuffer` with `last_` cleared at the start of a use: `CallFilter` followed by
`Flush` makes exactly the calls of the sequential filter on the lines of the batch.
-/
namespace KV.FilterCtl
open KV.Filter (Verdict)
variable {α : Type}

theorem events_cons (a : Annot α) (r : List (Annot α)) (l : Option Addr) :
    (OutBuf.events ⟨a :: r, l⟩) = (OutBuf.events ⟨r, l⟩) ++ a.events := by
  simp [OutBuf.events, List.flatMap_append]

theorem events_last (r : List (Annot α)) (l l' : Option Addr) :
    (OutBuf.events ⟨r, l⟩) = (OutBuf.events ⟨r, l'⟩) := rfl

/-- further systems for the line that `last_` points to go to `back()` -/
theorem addKs_same (a : Addr) (x : α) (ks sys : List Nat) (r : List (Annot α)) (u : Bool) :
    addKs a x ks (⟨⟨sys, x⟩ :: r, some a⟩, u) = (⟨⟨sys ++ ks, x⟩ :: r, some a⟩, u) := by
  induction ks generalizing sys u with
  | nil => simp [addKs]
  | cons k ks ih =>
    simp only [addKs, OutBuf.addSingle, if_true, Bool.or_false]
    rw [ih]
    simp

/-- a line whose address differs from `last_` opens a new entry that collects all its systems -/
theorem addKs_fresh (a : Addr) (x : α) (k : Nat) (ks : List Nat) (b : OutBuf α) (u : Bool)
    (h : b.last ≠ some a) :
    addKs a x (k :: ks) (b, u) = (⟨⟨k :: ks, x⟩ :: b.rev, some a⟩, u) := by
  simp only [addKs, OutBuf.addSingle, if_neg h, Bool.or_false]
  rw [addKs_same]
  simp

/-- state of the buffer while lines `0 … i-1` of batch `id` have been filtered -/
structure BufOk (id i : Nat) (st : OutBuf α × Bool) : Prop where
  noUb : st.2 = false
  last : st.1.last = none ∨ ∃ j len, j < i ∧ st.1.last = some (id, j, len)

theorem addItem_ok (cfg : Cfg α) (id i : Nat) (x : α) (st : OutBuf α × Bool) (h : BufOk id i st) :
    BufOk id (i+1) (addItem cfg id i x st) ∧
    (addItem cfg id i x st).1.events = st.1.events ++ itemEvents cfg.f x := by
  obtain ⟨b, u⟩ := st
  obtain ⟨hu, hl⟩ := h
  simp only at hu hl
  subst hu
  unfold addItem itemEvents
  cases hf : cfg.f x with
  | all =>
    simp only [OutBuf.addAll]
    refine ⟨⟨rfl, ?_⟩, ?_⟩
    · rcases hl with hl | ⟨j, len, hj, hl⟩
      · exact Or.inl hl
      · exact Or.inr ⟨j, len, by omega, hl⟩
    · obtain ⟨r, l⟩ := b
      simp [OutBuf.events, Annot.events]
  | only ks =>
    cases ks with
    | nil =>
      simp only [addKs]
      refine ⟨⟨rfl, ?_⟩, by simp⟩
      rcases hl with hl | ⟨j, len, hj, hl⟩
      · exact Or.inl hl
      · exact Or.inr ⟨j, len, by omega, hl⟩
    | cons k ks =>
      have hne : b.last ≠ some (id, i, cfg.len x) := by
        rcases hl with hl | ⟨j, len, hj, hl⟩
        · rw [hl]; simp
        · rw [hl]; intro h; injection h with h; injection h with _ h; injection h with h _; omega
      dsimp only
      rw [addKs_fresh _ _ _ _ _ _ hne]
      refine ⟨⟨rfl, Or.inr ⟨i, cfg.len x, by omega, rfl⟩⟩, ?_⟩
      obtain ⟨r, l⟩ := b
      simp [OutBuf.events, Annot.events]

theorem callFilterFrom_ok (cfg : Cfg α) (id : Nat) (xs : List α) (i : Nat) (st : OutBuf α × Bool)
    (h : BufOk id i st) :
    (callFilterFrom cfg id i xs st).2 = false ∧
    (callFilterFrom cfg id i xs st).1.events = st.1.events ++ xs.flatMap (itemEvents cfg.f) := by
  induction xs generalizing i st with
  | nil => simp [callFilterFrom, h.noUb]
  | cons x xs ih =>
    obtain ⟨h1, h2⟩ := addItem_ok cfg id i x st h
    obtain ⟨g1, g2⟩ := ih (i+1) _ h1
    simp only [callFilterFrom]
    refine ⟨g1, ?_⟩
    rw [g2, h2]
    simp [List.flatMap_cons, List.append_assoc]

/-- **`CallFilter` on a batch whose buffer is empty with `last_` cleared** -/
theorem callFilter_clean (cfg : Cfg α) (b : Batch α) (hb : b.out = {}) :
    (callFilter cfg b).2 = false ∧
    (callFilter cfg b).1.out.events = b.input.flatMap (itemEvents cfg.f) ∧
    (callFilter cfg b).1.seq = b.seq ∧ (callFilter cfg b).1.input = b.input ∧ (callFilter cfg b).1.id = b.id := by
  have h := callFilterFrom_ok cfg b.id b.input 0 (b.out, false) ⟨rfl, Or.inl (by rw [hb])⟩
  refine ⟨h.1, ?_, rfl, rfl, rfl⟩
  simp only [callFilter]
  rw [h.2, hb]
  simp [OutBuf.events]

theorem flushed_fixed (v : Variant) (hv : v = Variant.fixed) (o : OutBuf α) : o.flushed v = {} := by
  subst hv; simp [OutBuf.flushed, Variant.fixed]

end KV.FilterCtl
