import Proofs.ChainSys
import Proofs.ChainPoolSysLive
/-! Liveness of the Chain running on step-level queues. Core Lean only. -/
namespace KV.Sys
open KV.Chain (Item Stage LPC MPC Chain fifoPush fifoPop upd exitLoop)

theorem awaitQuiet_chain (c0 : Chain) : AwaitQuiet (chainProg c0) := by
  intro t l p pred k lp hact hpred
  have hcases : (pred = stageFinished) ∨ (pred = mainNotFill) := by
    cases t with
    | zero =>
      cases l with
      | main pc d =>
        cases pc with
        | fill n => cases n <;> simp [chainProg] at hact
        | join i => simp [chainProg] at hact; exact Or.inl hact.2.1.symm
        | drain n => simp [chainProg] at hact
        | aborted => simp [chainProg] at hact
        | finished => simp [chainProg] at hact
      | stage s => simp [chainProg] at hact
    | succ i =>
      cases l with
      | main pc d => simp [chainProg] at hact
      | stage s =>
        simp only [chainProg] at hact
        by_cases hi : i ≤ c0.m
        · simp only [hi, if_true] at hact
          cases hpc : s.pc <;> simp [hpc] at hact
          exact Or.inr hact.2.1.symm
        · simp [hi] at hact
  rcases hcases with rfl | rfl
  · cases lp with
    | main pc d => simp [stageFinished] at hpred
    | stage s =>
      simp only [stageFinished, beq_iff_eq] at hpred
      cases p with
      | zero => simp [chainProg]
      | succ j =>
        simp only [chainProg]
        by_cases hj : j ≤ c0.m <;> simp [hj, hpred]
  · cases lp with
    | stage s => simp [mainNotFill] at hpred
    | main pc d =>
      cases pc <;> simp [mainNotFill] at hpred
      cases p <;> simp [chainProg]

/-- conversely to `chain_astep`: whatever the `Chain` model can do, the atomic client system can do (in states where
a stage that has not started coexists only with a user thread that is filling or joining, and joins are 1-based:
both hold in reachable states) -/
theorem chain_astep_enabled {c0 : Chain} {a : AState CLoc} {t : Nat} (hwf : CWF a)
    (H1 : ∀ i, i ≤ c0.m → ((toChain c0 a).st i).pc = .start → (∀ k, (toChain c0 a).main ≠ .fill k) →
        ∃ j, (toChain c0 a).main = .join j)
    (H2 : ∀ i, (toChain c0 a).main = .join i → 1 ≤ i)
    (hs : (toChain c0 a).step t ≠ none) : astep (chainProg c0) a t ≠ none := by
  unfold astep
  cases t with
  | zero =>
    have ht : 0 < (chainProg c0).nthreads := by simp [chainProg]
    rw [if_pos ht]
    obtain ⟨pc, d, hl⟩ := hwf.1
    have hmainv : (toChain c0 a).main = pc := by simp [toChain, hl, mainOf]
    simp only [Chain.step, Chain.mainStep, hmainv] at hs
    cases pc with
    | fill k =>
      cases k with
      | zero => simp [hl, chainProg]
      | succ k =>
        simp only at hs
        have hlt : (a.q 0).length < c0.b := by
          apply Classical.byContradiction
          intro e
          apply hs
          have : ¬ ((toChain c0 a).q 0).length < (toChain c0 a).b := by simpa [toChain] using e
          simp [fifoPush, this]
        simp [hl, chainProg, fifoPush, hlt]
    | join i =>
      simp only at hs
      have hi := H2 i hmainv
      obtain ⟨j, rfl⟩ : ∃ j, i = j + 1 := ⟨i - 1, by omega⟩
      obtain ⟨s, e⟩ := hwf.2 j
      have hst : (toChain c0 a).st (j + 1 - 1) = s := by simp [toChain, e, stageOf]
      rw [hst] at hs
      have hf : stageFinished (a.loc (j + 1)) = true := by
        rw [e]; simp only [stageFinished, beq_iff_eq]
        cases hp : s.pc <;> simp [hp] at hs ⊢
      simp [hl, chainProg, hf]
    | drain k =>
      simp only at hs
      cases hq0 : a.q 0 with
      | nil =>
        have : (toChain c0 a).q 0 = [] := by simp [toChain, hq0]
        simp [this, fifoPop] at hs
      | cons n rest => simp [hl, chainProg, fifoPop, hq0]
    | aborted => simp at hs
    | finished => simp at hs
  | succ i =>
    simp only [Chain.step] at hs
    have hi : i ≤ c0.m := by
      apply Classical.byContradiction
      intro e
      have : ¬ i ≤ (toChain c0 a).m := e
      simp [this] at hs
    have him : i ≤ (toChain c0 a).m := hi
    rw [if_pos him] at hs
    have ht : i + 1 < (chainProg c0).nthreads := by simp [chainProg]; omega
    rw [if_pos ht]
    obtain ⟨s, hl⟩ := hwf.2 i
    have hst : (toChain c0 a).st i = s := by simp [toChain, hl, stageOf]
    simp only [Chain.stageStep, hst] at hs
    cases hpc : s.pc with
    | start =>
      simp only [hpc] at hs
      have hnf : ∀ k, (toChain c0 a).main ≠ .fill k := by
        intro k e; simp [e] at hs
      obtain ⟨j, hj⟩ := H1 i hi (by rw [hst]; exact hpc) hnf
      obtain ⟨pc, d, hl0⟩ := hwf.1
      have : pc = .join j := by
        have : (toChain c0 a).main = pc := by simp [toChain, hl0, mainOf]
        rw [this] at hj; exact hj
      subst this
      simp [hl, chainProg, hi, hpc, hl0, mainNotFill]
    | init =>
      simp only [hpc] at hs
      cases hq0 : a.q i with
      | nil =>
        have : (toChain c0 a).q i = [] := by simp [toChain, hq0]
        simp [this, fifoPop] at hs
      | cons n rest => simp [hl, chainProg, hi, hpc, fifoPop, hq0]
    | incConsume =>
      simp only [hpc] at hs
      cases hq0 : a.q i with
      | nil =>
        have : (toChain c0 a).q i = [] := by simp [toChain, hq0]
        simp [this, fifoPop] at hs
      | cons n rest => simp [hl, chainProg, hi, hpc, fifoPop, hq0]
    | incProduce =>
      simp only [hpc] at hs
      have hlt : (a.q (c0.outQ i)).length < c0.b := by
        apply Classical.byContradiction
        intro e
        apply hs
        have : ¬ ((toChain c0 a).q ((toChain c0 a).outQ i)).length < (toChain c0 a).b := by
          show ¬ ((a.q (c0.outQ i)).map dec).length < c0.b
          simpa using e
        simp [fifoPush, this]
      simp [hl, chainProg, hi, hpc, fifoPush, hlt]
    | incPoison =>
      simp only [hpc] at hs
      have hlt : (a.q (c0.outQ i)).length < c0.b := by
        apply Classical.byContradiction
        intro e
        apply hs
        have : ¬ ((toChain c0 a).q ((toChain c0 a).outQ i)).length < (toChain c0 a).b := by
          show ¬ ((a.q (c0.outQ i)).map dec).length < c0.b
          simpa using e
        simp [fifoPush, this]
      simp [hl, chainProg, hi, hpc, fifoPush, hlt]
    | poisonCall =>
      simp only [hpc] at hs
      have hlt : (a.q (c0.outQ i)).length < c0.b := by
        apply Classical.byContradiction
        intro e
        apply hs
        have : ¬ ((toChain c0 a).q ((toChain c0 a).outQ i)).length < (toChain c0 a).b := by
          show ¬ ((a.q (c0.outQ i)).map dec).length < c0.b
          simpa using e
        simp [fifoPush, this]
      simp [hl, chainProg, hi, hpc, fifoPush, hlt]
    | dtor =>
      simp only [hpc] at hs
      have hlt : (a.q (c0.outQ i)).length < c0.b := by
        apply Classical.byContradiction
        intro e
        apply hs
        have : ¬ ((toChain c0 a).q ((toChain c0 a).outQ i)).length < (toChain c0 a).b := by
          show ¬ ((a.q (c0.outQ i)).map dec).length < c0.b
          simpa using e
        simp [fifoPush, this]
      simp [hl, chainProg, hi, hpc, fifoPush, hlt]
    | finished => simp [hpc] at hs

/-- the default stage functions of `Chain.init` -/
@[reducible] def dfltStageFn : KV.Chain.StageFn := ⟨fun i _ v => KV.Chain.xform (i + 1) v⟩

/-- the invariant of the atomic chain system used for the liveness transport -/
def ChainOK (b m : Nat) (data : List Nat) (a : AState CLoc) : Prop :=
  CWF a ∧ Chain.Reach (Chain.init b m data) (toChain (Chain.init b m data) a)

theorem chainOK_step {b m : Nat} {data : List Nat} {a a' : AState CLoc} {t : Nat}
    (h : ChainOK b m data a) (hs : astep (chainProg (Chain.init b m data)) a t = some a') :
    ChainOK b m data a' := by
  obtain ⟨h1, h2⟩ := chain_astep h.1 hs
  exact ⟨h2, .step h.2 h1⟩

theorem chainOK_rinv {b m : Nat} {data : List Nat} {a : AState CLoc} (hb : 0 < b) (hm : 1 ≤ m)
    (h : ChainOK b m data a) :
    @KV.Chain.RInv dfltStageFn b m data (toChain (Chain.init b m data) a) :=
  @KV.Chain.rinv_reach dfltStageFn b m data _ hb hm h.2

theorem chainOK_dec {b m : Nat} {data : List Nat} (hb : 0 < b) (hm : 1 ≤ m) {a a' : AState CLoc} {t : Nat}
    (h : ChainOK b m data a) (hs : astep (chainProg (Chain.init b m data)) a t = some a') :
    KV.Chain.chainMeasure b m data (toChain (Chain.init b m data) a')
      < KV.Chain.chainMeasure b m data (toChain (Chain.init b m data) a) :=
  @KV.Chain.chain_measure_step dfltStageFn b m data _ (chainOK_rinv hb hm h) t _ (chain_astep h.1 hs).1

/-- deadlock freedom of the chain on step-level queues, from any state satisfying the invariants -/
theorem chain_no_deadlock_of {b m : Nat} {data : List Nat} (hb : 0 < b) (hm : 1 ≤ m)
    {c : CState CLoc} (h : CInv (chainProg (Chain.init b m data)) c)
    (hml : ModeLt (chainProg (Chain.init b m data)) c) (hok : ChainOK b m data (abs c))
    (hnd : (toChain (Chain.init b m data) (abs c)).main ≠ .finished
      ∨ ∃ i, i ≤ m ∧ ((toChain (Chain.init b m data) (abs c)).st i).pc ≠ .finished) :
    ∃ t, cstep (chainProg (Chain.init b m data)) c t ≠ none := by
  letI := dfltStageFn
  have hinv := chainOK_rinv hb hm hok
  obtain ⟨tid, htid⟩ := @KV.Chain.chain_no_deadlock_inv dfltStageFn b m data _ hinv hnd
  have hmain := hinv.mainok
  have H1 : ∀ i, i ≤ (Chain.init b m data).m →
      ((toChain (Chain.init b m data) (abs c)).st i).pc = .start →
      (∀ k, (toChain (Chain.init b m data) (abs c)).main ≠ .fill k) →
      ∃ j, (toChain (Chain.init b m data) (abs c)).main = .join j := by
    intro i hi hst hnf
    have hi' : i ≤ m := hi
    unfold KV.Chain.MainOK at hmain
    cases hmn : (toChain (Chain.init b m data) (abs c)).main with
    | fill k => exact absurd hmn (hnf k)
    | join j => exact ⟨j, rfl⟩
    | drain k => rw [hmn] at hmain; have := hmain.1 i hi'; rw [hst] at this; cases this
    | finished => rw [hmn] at hmain; have := hmain.1 i hi'; rw [hst] at this; cases this
    | aborted => rw [hmn] at hmain; exact hmain.elim
  have H2 : ∀ i, (toChain (Chain.init b m data) (abs c)).main = .join i → 1 ≤ i := by
    intro i e
    unfold KV.Chain.MainOK at hmain
    rw [e] at hmain
    exact hmain.1
  exact steplevel_no_deadlock h hml (awaitQuiet_chain _) ⟨tid, chain_astep_enabled hok.1 H1 H2 htid⟩

end KV.Sys
