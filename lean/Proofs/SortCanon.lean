import Proofs.SortExt
/-! C16: with a key-total order and an adding combiner the combined output is canonical
(one record per key, carrying the key's total), hence independent of blocks / plan / ties. -/
namespace KV.Sort
open List

variable {α κ : Type}

/-- the hypotheses on (order, key, value, combiner) under which the result is canonical -/
structure Counting (lt : α → α → Bool) (key : α → κ) (val : α → Nat) (comb : α → α → Option α) : Prop where
  sw : StrictWeak lt
  keyEq : ∀ a b, (lt a b = false ∧ lt b a = false) ↔ key a = key b
  inj : ∀ a b, key a = key b → val a = val b → a = b
  add : ∀ a b c, comb a b = some c → key a = key b ∧ key c = key a ∧ val c = val a + val b
  complete : ∀ a b, key a = key b → (comb a b).isSome = true

variable {lt : α → α → Bool} {key : α → κ} {val : α → Nat} {comb : α → α → Option α}

theorem Counting.keeps (C : Counting lt key val comb) : CombKeeps lt comb := by
  intro a b c h
  have := (C.add a b c h).2.1
  exact (C.keyEq a c).mpr this.symm

theorem Counting.combComplete (C : Counting lt key val comb) : CombComplete lt comb :=
  fun a b h1 h2 => C.complete a b ((C.keyEq a b).mp ⟨h1, h2⟩)

/-- total value of key `k` -/
def tot [DecidableEq κ] (key : α → κ) (val : α → Nat) (k : κ) (l : List α) : Nat :=
  (l.map (fun a => if key a = k then val a else 0)).sum

/-- same key sets -/
def SameKeys (key : α → κ) (l₁ l₂ : List α) : Prop :=
  (∀ x ∈ l₁, ∃ z ∈ l₂, key z = key x) ∧ (∀ z ∈ l₂, ∃ x ∈ l₁, key x = key z)

theorem SameKeys.refl (key : α → κ) (l : List α) : SameKeys key l l :=
  ⟨fun x hx => ⟨x, hx, rfl⟩, fun x hx => ⟨x, hx, rfl⟩⟩

theorem SameKeys.trans {l₁ l₂ l₃ : List α} (h1 : SameKeys key l₁ l₂) (h2 : SameKeys key l₂ l₃) : SameKeys key l₁ l₃ := by
  constructor
  · intro x hx
    obtain ⟨y, hy, e1⟩ := h1.1 x hx
    obtain ⟨z, hz, e2⟩ := h2.1 y hy
    exact ⟨z, hz, e2.trans e1⟩
  · intro z hz
    obtain ⟨y, hy, e1⟩ := h2.2 z hz
    obtain ⟨x, hx, e2⟩ := h1.2 y hy
    exact ⟨x, hx, e2.trans e1⟩

theorem SameKeys.symm {l₁ l₂ : List α} (h : SameKeys key l₁ l₂) : SameKeys key l₂ l₁ := ⟨h.2, h.1⟩

theorem SameKeys.of_perm {l₁ l₂ : List α} (h : l₁ ~ l₂) : SameKeys key l₁ l₂ :=
  ⟨fun x hx => ⟨x, h.subset hx, rfl⟩, fun x hx => ⟨x, h.symm.subset hx, rfl⟩⟩

theorem SameKeys.append {a₁ a₂ b₁ b₂ : List α} (h1 : SameKeys key a₁ a₂) (h2 : SameKeys key b₁ b₂) :
    SameKeys key (a₁ ++ b₁) (a₂ ++ b₂) := by
  constructor
  · intro x hx
    rcases mem_append.mp hx with hx | hx
    · obtain ⟨z, hz, e⟩ := h1.1 x hx; exact ⟨z, mem_append_left _ hz, e⟩
    · obtain ⟨z, hz, e⟩ := h2.1 x hx; exact ⟨z, mem_append_right _ hz, e⟩
  · intro x hx
    rcases mem_append.mp hx with hx | hx
    · obtain ⟨z, hz, e⟩ := h1.2 x hx; exact ⟨z, mem_append_left _ hz, e⟩
    · obtain ⟨z, hz, e⟩ := h2.2 x hx; exact ⟨z, mem_append_right _ hz, e⟩

theorem combineGo_sameKeys (C : Counting lt key val comb) :
    ∀ (ys : List α) (cur : α), SameKeys key (cur :: ys) (combineGo comb cur ys) := by
  intro ys
  induction ys with
  | nil => intro cur; simpa [combineGo] using SameKeys.refl key [cur]
  | cons y ys ih =>
    intro cur
    simp only [combineGo]
    cases hcy : comb cur y with
    | some c =>
      simp only
      obtain ⟨k1, k2, _⟩ := C.add cur y c hcy
      have ih' := ih c
      constructor
      · intro x hx
        simp only [mem_cons] at hx
        rcases hx with rfl | rfl | hx
        · obtain ⟨z, hz, e⟩ := ih'.1 c (by simp); exact ⟨z, hz, e.trans k2⟩
        · obtain ⟨z, hz, e⟩ := ih'.1 c (by simp); exact ⟨z, hz, e.trans (k2.trans k1)⟩
        · exact ih'.1 x (by simp [hx])
      · intro z hz
        obtain ⟨x, hx, e⟩ := ih'.2 z hz
        simp only [mem_cons] at hx
        rcases hx with rfl | hx
        · exact ⟨cur, by simp, k2.symm.trans e⟩
        · exact ⟨x, by simp [hx], e⟩
    | none =>
      simp only
      have : SameKeys key ([cur] ++ (y :: ys)) ([cur] ++ combineGo comb y ys) :=
        (SameKeys.refl key [cur]).append (ih y)
      simpa using this

theorem combineAdj_sameKeys (C : Counting lt key val comb) (l : List α) : SameKeys key l (combineAdj comb l) := by
  cases l with
  | nil => exact SameKeys.refl key []
  | cons x xs => exact combineGo_sameKeys C xs x

variable [DecidableEq κ]

theorem Counting.additive (C : Counting lt key val comb) (k : κ) :
    ∀ a b c, comb a b = some c →
      (if key c = k then val c else 0) = (if key a = k then val a else 0) + (if key b = k then val b else 0) := by
  intro a b c h
  obtain ⟨k1, k2, k3⟩ := C.add a b c h
  rw [k2, ← k1, k3]
  by_cases hk : key a = k <;> simp [hk]

theorem tot_zero (key : α → κ) (val : α → Nat) (k : κ) : ∀ (l : List α), (∀ z ∈ l, key z ≠ k) → tot key val k l = 0
  | [], _ => rfl
  | y :: ys, h => by
    have := tot_zero key val k ys (fun z hz => h z (by simp [hz]))
    simp only [tot, map_cons, sum_cons] at this ⊢
    simp [h y (by simp), this]

theorem tot_unique (key : α → κ) (val : α → Nat) : ∀ (l : List α), l.Pairwise (fun a b => key a ≠ key b) →
    ∀ x ∈ l, tot key val (key x) l = val x
  | [], _, x, hx => by simp at hx
  | y :: ys, hp, x, hx => by
    obtain ⟨hy, hys⟩ := pairwise_cons.mp hp
    simp only [mem_cons] at hx
    rcases hx with rfl | hx
    · have := tot_zero key val (key x) ys (fun z hz => (hy z hz).symm)
      simp only [tot, map_cons, sum_cons] at this ⊢
      simp [this]
    · have ih := tot_unique key val ys hys x hx
      simp only [tot, map_cons, sum_cons] at ih ⊢
      simp [hy x hx, ih]

/-- what "the combined result" means: strictly increasing, the same keys as the input, and each
key's total -/
structure Canon (lt : α → α → Bool) (key : α → κ) (val : α → Nat) (input out : List α) : Prop where
  strict : out.Pairwise (fun a b => lt a b = true)
  keys : SameKeys key input out
  totals : ∀ k, tot key val k out = tot key val k input

theorem strict_keys_ne (C : Counting lt key val comb) {l : List α} (h : l.Pairwise (fun a b => lt a b = true)) :
    l.Pairwise (fun a b => key a ≠ key b) :=
  h.imp (fun {a b} hab hk => by
    have := ((C.keyEq a b).mpr hk).1
    rw [hab] at this; cases this)

theorem tot_perm (key : α → κ) (val : α → Nat) (k : κ) {l₁ l₂ : List α} (h : l₁ ~ l₂) :
    tot key val k l₁ = tot key val k l₂ := (h.map _).sum_nat

/-- **the canonical result is unique** -/
theorem Canon.unique (C : Counting lt key val comb) {in₁ in₂ out₁ out₂ : List α}
    (h1 : Canon lt key val in₁ out₁) (h2 : Canon lt key val in₂ out₂) (hp : in₁ ~ in₂) : out₁ = out₂ := by
  have sub : ∀ {i₁ i₂ o₁ o₂ : List α}, Canon lt key val i₁ o₁ → Canon lt key val i₂ o₂ → i₁ ~ i₂ →
      ∀ x ∈ o₁, x ∈ o₂ := by
    intro i₁ i₂ o₁ o₂ c1 c2 hp x hx
    obtain ⟨y, hy, e1⟩ := c1.keys.2 x hx
    obtain ⟨z, hz, e2⟩ := c2.keys.1 y (hp.subset hy)
    have hkz : key z = key x := e2.trans e1
    have t1 := tot_unique key val o₁ (strict_keys_ne C c1.strict) x hx
    have t2 := tot_unique key val o₂ (strict_keys_ne C c2.strict) z hz
    rw [hkz, c2.totals, ← tot_perm key val (key x) hp, ← c1.totals, t1] at t2
    rw [C.inj x z hkz.symm t2]
    exact hz
  have nd : ∀ {o : List α}, o.Pairwise (fun a b => lt a b = true) → o.Nodup := by
    intro o ho
    exact ho.imp (fun {a b} hab he => by subst he; rw [C.sw.irrefl] at hab; cases hab)
  have hperm : out₁ ~ out₂ :=
    (perm_ext_iff_of_nodup (nd h1.strict) (nd h2.strict)).mpr
      (fun a => ⟨sub h1 h2 hp a, sub h2 h1 hp.symm a⟩)
  refine Perm.eq_of_pairwise (le := fun a b => lt a b = true) ?_ h1.strict h2.strict hperm
  intro a b _ _ hab hba
  have := C.sw.asymm a b hab
  rw [hba] at this; cases this

/-! ### the sort produces the canonical result -/

theorem mergeGroup_sameKeys (C : Counting lt key val comb) (pick) (g : List (List α)) :
    SameKeys key g.flatten (mergeGroup lt comb pick g) :=
  (SameKeys.of_perm (kmerge_perm C.sw pick g).symm).trans (combineAdj_sameKeys C _)

theorem flatten_map_sameKeys {f : List (List α) → List α} :
    ∀ (gs : List (List (List α))), (∀ g ∈ gs, SameKeys key g.flatten (f g)) →
      SameKeys key gs.flatten.flatten (gs.map f).flatten
  | [], _ => by simpa using SameKeys.refl key ([] : List α)
  | g :: gs, hf => by
    simp only [map_cons, flatten_cons, flatten_append]
    exact (hf g (by simp)).append (flatten_map_sameKeys gs (fun g' hg' => hf g' (by simp [hg'])))

theorem pass_sameKeys (C : Counting lt key val comb) (pick) (sizes)
    {runs runs' : List (List α)} (hp : pass lt comb pick sizes runs = some runs') :
    SameKeys key runs.flatten runs'.flatten := by
  rcases pass_cases lt comb pick sizes runs with ⟨_, he⟩ | ⟨_, he⟩
  · rw [he] at hp; cases hp
    rw [flatten_nonempties]; exact SameKeys.refl key _
  · rw [he] at hp; cases hp
    rw [flatten_nonempties]
    have := flatten_map_sameKeys (key := key) (f := mergeGroup lt comb pick) (splitGroups sizes runs)
      (fun g _ => mergeGroup_sameKeys C pick g)
    rwa [splitGroups_flatten] at this

theorem finalMerge_sameKeys (C : Counting lt key val comb) (pick) (runs : List (List α)) :
    SameKeys key runs.flatten (finalMerge lt comb pick runs) := by
  match runs with
  | [] => simpa [finalMerge] using SameKeys.refl key ([] : List α)
  | [r] => simpa [finalMerge] using SameKeys.refl key r
  | r1 :: r2 :: rs => exact mergeGroup_sameKeys C pick _

/-- the invariant that makes the final output strictly increasing: every run strictly increasing,
or still at least two runs to merge -/
def StrictOrMany (lt : α → α → Bool) (runs : List (List α)) : Prop :=
  AllSorted lt runs ∧ (2 ≤ runs.length ∨ AllStrict lt runs)

theorem pass_strictOrMany (C : Counting lt key val comb) (pick) (sizes)
    {runs runs' : List (List α)} (hr : StrictOrMany lt runs) (hp : pass lt comb pick sizes runs = some runs') :
    StrictOrMany lt runs' := by
  refine ⟨pass_sorted C.sw C.keeps pick sizes hr.1 hp, Or.inr ?_⟩
  rcases pass_cases lt comb pick sizes runs with ⟨hle, he⟩ | ⟨_, he⟩
  · rw [he] at hp; cases hp
    rcases hr.2 with h2 | hs
    · omega
    · exact fun r hr' => hs r (mem_nonempties.mp hr').1
  · rw [he] at hp; cases hp
    intro r hr'
    obtain ⟨g, hg, rfl⟩ := mem_map.mp (mem_nonempties.mp hr').1
    exact mergeGroup_strict C.sw C.keeps C.combComplete pick g (groups_sorted hr.1 g hg)

theorem finalMerge_strict' (C : Counting lt key val comb) (pick) {runs : List (List α)} (hr : StrictOrMany lt runs) :
    Pairwise (fun a b => lt a b = true) (finalMerge lt comb pick runs) := by
  match runs, hr with
  | [], _ => simp [finalMerge]
  | [r], ⟨_, h2⟩ =>
    rcases h2 with h2 | hs
    · simp at h2
    · exact hs r (by simp)
  | r1 :: r2 :: rs, ⟨hs, _⟩ => exact mergeGroup_strict C.sw C.keeps C.combComplete pick _ hs

end KV.Sort
