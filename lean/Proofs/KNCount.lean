import Model.KNCount
/-!
Lemmas about the `Writer` model (`Model/KNCount.lean`), core Lean only.

1. `corpusCount_eq_fold`: the blocks depend on the corpus only through the list of n-gram
   occurrences `KV.KN.occurrences N corpus`, written one by one (`writeB`).
2. invariants of `writeB` by induction over the occurrence list: per-gram totals, key set, distinct
   n-grams per block, positive counts, block sizes.
3. `combineSorted (mergeSort gramLe recs)` is determined by the key set and the per-gram totals of
   `recs` (`combine_sort_ext`).
-/
namespace KV.KN.Count
open KV.KN

/-! ## 0. `total` -/

@[simp] theorem total_nil (g : Gram) : total g [] = 0 := rfl

@[simp] theorem total_cons (g : Gram) (e : Rec) (l : List Rec) :
    total g (e :: l) = (if e.1 = g then e.2 else 0) + total g l := by
  simp [total]

@[simp] theorem total_append (g : Gram) (l₁ l₂ : List Rec) : total g (l₁ ++ l₂) = total g l₁ + total g l₂ := by
  simp [total, List.sum_append]

theorem total_perm {g : Gram} {l₁ l₂ : List Rec} (h : l₁.Perm l₂) : total g l₁ = total g l₂ :=
  (h.map _).sum_nat

theorem total_flatten (g : Gram) (L : List (List Rec)) : total g L.flatten = (L.map (total g)).sum := by
  induction L with
  | nil => rfl
  | cons a L ih => simp [ih]

theorem total_eq_zero_of_not_mem {g : Gram} {l : List Rec} (h : g ∉ l.map (·.1)) : total g l = 0 := by
  induction l with
  | nil => rfl
  | cons e l ih =>
    simp only [List.map_cons, List.mem_cons, not_or] at h
    have h1 : ¬ e.1 = g := fun h' => h.1 h'.symm
    simp [h1, ih h.2]

theorem le_total_of_mem {e : Rec} {l : List Rec} (h : e ∈ l) : e.2 ≤ total e.1 l := by
  induction l with
  | nil => cases h
  | cons a l ih =>
    rcases List.mem_cons.1 h with rfl | h
    · simp
    · have := ih h
      simp only [total_cons]; omega

/-! ## 1. `incr` -/

theorem incr_eq_none {g : Gram} {l : List Rec} : incr g l = none ↔ g ∉ l.map (·.1) := by
  induction l with
  | nil => simp [incr]
  | cons e l ih =>
    obtain ⟨h, c⟩ := e
    by_cases hg : h = g
    · simp [incr, hg]
    · have hg' : ¬ g = h := fun h' => hg h'.symm
      simp [incr, hg, hg', ih]

theorem incr_some {g : Gram} {l l' : List Rec} (h : incr g l = some l') :
    l'.map (·.1) = l.map (·.1) ∧ (∀ k, total k l' = total k l + (if g = k then 1 else 0)) ∧
    ((∀ e ∈ l, 0 < e.2) → ∀ e ∈ l', 0 < e.2) ∧ l'.length = l.length := by
  induction l generalizing l' with
  | nil => simp [incr] at h
  | cons e l ih =>
    obtain ⟨a, c⟩ := e
    by_cases hg : a = g
    · simp only [incr, hg, if_true, Option.some.injEq] at h
      subst h; subst hg
      refine ⟨by simp, ?_, ?_, by simp⟩
      · intro k; by_cases hk : a = k <;> simp [hk] <;> omega
      · intro hp e he
        rcases List.mem_cons.1 he with rfl | he
        · exact Nat.succ_pos _
        · exact hp e (List.mem_cons_of_mem _ he)
    · simp only [incr, hg, if_false] at h
      cases hr : incr g l with
      | none => simp [hr] at h
      | some t =>
        simp only [hr, Option.map_some, Option.some.injEq] at h
        subst h
        obtain ⟨i1, i2, i3, i4⟩ := ih hr
        refine ⟨by simp [i1], ?_, ?_, by simp [i4]⟩
        · intro k; simp only [total_cons, i2 k]; omega
        · intro hp e he
          rcases List.mem_cons.1 he with rfl | he
          · exact hp _ (List.mem_cons_self ..)
          · exact i3 (fun e he => hp e (List.mem_cons_of_mem _ he)) e he

/-! ## 2. The writer as a fold over the n-gram occurrences -/

/-- the part of the state the output depends on -/
structure Blk where
  done : List (List Rec)
  pre : List Rec
  cur : List Rec
deriving DecidableEq, Repr

def blk (st : St) : Blk := ⟨st.done, st.pre, st.cur⟩

/-- `Append` seen from the block: the completed n-gram `g` is looked up / written -/
def writeB (cap : Nat) (b : Blk) (g : Gram) : Blk :=
  match incr g b.cur with
  | some cur' => { b with cur := cur' }
  | none =>
    if b.pre.length + (b.cur ++ [(g, 1)]).length = cap then ⟨(b.pre ++ (b.cur ++ [(g, 1)])) :: b.done, [], []⟩
    else { b with cur := b.cur ++ [(g, 1)] }

def finishB (b : Blk) : List (List Rec) := ((b.pre ++ b.cur) :: b.done).reverse

/-- the n-grams completed by appending `ws` to a slot holding the context `ctx` -/
def grams (N : Nat) : List Word → List Word → List Gram
  | _, [] => []
  | ctx, w :: ws => (w :: ctx) :: grams N (carry N (w :: ctx)) ws

theorem blk_append (N cap : Nat) (st : St) (w : Word) :
    blk (append N cap st w) = writeB cap (blk st) (w :: st.ctx) ∧
    (append N cap st w).ctx = carry N (w :: st.ctx) := by
  simp only [append, writeB, blk]
  cases h : incr (w :: st.ctx) st.cur with
  | some c => simp
  | none =>
    simp only
    split <;> simp_all

theorem blk_foldl_append (N cap : Nat) (ws : List Word) (st : St) :
    blk (ws.foldl (append N cap) st) = (grams N st.ctx ws).foldl (writeB cap) (blk st) := by
  induction ws generalizing st with
  | nil => rfl
  | cons w ws ih =>
    simp only [List.foldl_cons, grams]
    rw [ih, (blk_append N cap st w).1, (blk_append N cap st w).2]

theorem windows_short {n : Nat} {l : List Word} (h : l.length < n) : windows n l = [] := by
  cases l with
  | nil => rfl
  | cons a t => simp only [windows]; rw [if_neg]; omega

theorem windows_long {n : Nat} {l : List Word} (h : n ≤ l.length) (hn : 1 ≤ n) :
    windows n l = (l.take n).reverse :: windows n l.tail := by
  cases l with
  | nil => simp at h; omega
  | cons a t => simp only [windows]; rw [if_pos h]; rfl

theorem grams_eq_windows {N : Nat} (hN : 1 ≤ N) (ws ctx : List Word) (hc : ctx.length = N - 1) :
    grams N ctx ws = windows N (ctx.reverse ++ ws) := by
  induction ws generalizing ctx with
  | nil => rw [grams, windows_short]; simp; omega
  | cons w ws ih =>
    have e1 : ctx.reverse ++ w :: ws = (ctx.reverse ++ [w]) ++ ws := by simp
    have hl : (ctx.reverse ++ [w]).length = N := by simp; omega
    rw [grams, e1, windows_long (by simp; omega) hN, List.take_left' hl]
    have e2 : (ctx.reverse ++ [w]).reverse = w :: ctx := by simp
    have e3 : (carry N (w :: ctx)).reverse = (ctx.reverse ++ [w]).tail := by
      have : ctx.reverse ++ [w] = (w :: ctx).reverse := by simp
      rw [this, List.tail_reverse, List.dropLast_eq_take]
      simp only [carry, List.length_cons]
      rw [hc]; congr 2
    have e4 : (ctx.reverse ++ [w] ++ ws).tail = (ctx.reverse ++ [w]).tail ++ ws := by
      cases h : ctx.reverse ++ [w] with
      | nil => simp at h
      | cons a t => rfl
    rw [e2, e4, ← e3, ih]
    simp only [carry, List.length_take, List.length_cons]; omega

theorem blk_runLine {N : Nat} (hN : 1 ≤ N) (cap : Nat) (st : St) (line : List Word) :
    blk (runLine N cap st line) = (windows N (paddedN N line)).foldl (writeB cap) (blk st) := by
  have : runLine N cap st line = (line ++ [eos]).foldl (append N cap) (startSentence N st) := by
    simp [runLine, List.foldl_append]
  rw [this, blk_foldl_append, grams_eq_windows hN]
  · simp [startSentence, paddedN, blk]
  · simp [startSentence]

theorem blk_foldl_runLine {N : Nat} (hN : 1 ≤ N) (cap : Nat) (corpus : List (List Word)) (st : St) :
    blk (corpus.foldl (runLine N cap) st) = (occurrences N corpus).foldl (writeB cap) (blk st) := by
  induction corpus generalizing st with
  | nil => rfl
  | cons s corpus ih =>
    simp only [List.foldl_cons, occurrences, List.flatMap_cons, List.foldl_append]
    rw [ih, blk_runLine hN]
    rfl

/-- **the blocks depend on the corpus only through the list of order-`N` occurrences** -/
theorem corpusCount_eq_fold {N : Nat} (hN : 1 ≤ N) (cap : Nat) (corpus : List (List Word)) :
    corpusCount N cap corpus = finishB ((occurrences N corpus).foldl (writeB cap) (blk (init N cap))) := by
  rw [← blk_foldl_runLine hN]
  rfl

/-! ## 3. Invariants of `writeB` -/

/-- per-gram total over everything written so far -/
def totB (g : Gram) (b : Blk) : Nat := (b.done.map (total g)).sum + total g b.pre + total g b.cur

theorem total_finishB (g : Gram) (b : Blk) : total g (finishB b).flatten = totB g b := by
  simp only [finishB, total_flatten, List.map_reverse, List.sum_reverse, List.map_cons, List.sum_cons,
    total_append, totB]
  omega

theorem totB_writeB (cap : Nat) (b : Blk) (g k : Gram) :
    totB k (writeB cap b g) = totB k b + (if g = k then 1 else 0) := by
  unfold writeB
  cases h : incr g b.cur with
  | some c => simp only [totB, (incr_some h).2.1 k]; omega
  | none =>
    simp only
    split <;> simp [totB] <;> omega

theorem totB_foldl (cap : Nat) (gs : List Gram) (b : Blk) (k : Gram) :
    totB k (gs.foldl (writeB cap) b) = totB k b + gs.count k := by
  induction gs generalizing b with
  | nil => simp
  | cons g gs ih =>
    rw [List.foldl_cons, ih, totB_writeB, List.count_cons]
    by_cases h : g = k <;> simp [h] <;> omega

/-- the n-grams present in some slot -/
def keyB (k : Gram) (b : Blk) : Prop := (∃ d ∈ b.done, k ∈ d.map (·.1)) ∨ k ∈ b.pre.map (·.1) ∨ k ∈ b.cur.map (·.1)

theorem mem_finishB (k : Gram) (b : Blk) : k ∈ (finishB b).flatten.map (·.1) ↔ keyB k b := by
  simp only [finishB, keyB, List.mem_map, List.mem_flatten, List.mem_reverse, List.mem_cons]
  constructor
  · rintro ⟨e, ⟨l, hl | hl, he⟩, rfl⟩
    · subst hl
      rcases List.mem_append.1 he with he | he
      · exact Or.inr (Or.inl ⟨e, he, rfl⟩)
      · exact Or.inr (Or.inr ⟨e, he, rfl⟩)
    · exact Or.inl ⟨l, hl, e, he, rfl⟩
  · rintro (⟨d, hd, e, he, rfl⟩ | ⟨e, he, rfl⟩ | ⟨e, he, rfl⟩)
    · exact ⟨e, ⟨d, Or.inr hd, he⟩, rfl⟩
    · exact ⟨e, ⟨_, Or.inl rfl, List.mem_append_left _ he⟩, rfl⟩
    · exact ⟨e, ⟨_, Or.inl rfl, List.mem_append_right _ he⟩, rfl⟩

theorem keyB_writeB (cap : Nat) (b : Blk) (g k : Gram) : keyB k (writeB cap b g) ↔ keyB k b ∨ k = g := by
  unfold writeB
  cases h : incr g b.cur with
  | some c =>
    have hm : g ∈ b.cur.map (·.1) := by
      apply Classical.byContradiction; intro hn; rw [incr_eq_none.2 hn] at h; cases h
    simp only [keyB, (incr_some h).1]
    constructor
    · exact Or.inl
    · rintro (h | rfl)
      · exact h
      · exact Or.inr (Or.inr hm)
  | none =>
    simp only
    split
    · simp only [keyB, List.mem_cons, List.map_append, List.mem_append, List.map_cons, List.map_nil,
        List.not_mem_nil, or_false, exists_eq_or_imp]
      constructor
      · rintro ((h | h | h) | h)
        · exact Or.inl (Or.inr (Or.inl h))
        · exact Or.inl (Or.inr (Or.inr h))
        · exact Or.inr h
        · exact Or.inl (Or.inl h)
      · rintro ((h | h | h) | h)
        · exact Or.inr h
        · exact Or.inl (Or.inl h)
        · exact Or.inl (Or.inr (Or.inl h))
        · exact Or.inl (Or.inr (Or.inr h))
    · simp only [keyB, List.map_append, List.mem_append, List.map_cons, List.map_nil, List.mem_cons,
        List.not_mem_nil, or_false]
      constructor
      · rintro (h | h | h | h)
        · exact Or.inl (Or.inl h)
        · exact Or.inl (Or.inr (Or.inl h))
        · exact Or.inl (Or.inr (Or.inr h))
        · exact Or.inr h
      · rintro ((h | h | h) | h)
        · exact Or.inl h
        · exact Or.inr (Or.inl h)
        · exact Or.inr (Or.inr (Or.inl h))
        · exact Or.inr (Or.inr (Or.inr h))

theorem keyB_foldl (cap : Nat) (gs : List Gram) (b : Blk) (k : Gram) :
    keyB k (gs.foldl (writeB cap) b) ↔ keyB k b ∨ k ∈ gs := by
  induction gs generalizing b with
  | nil => simp
  | cons g gs ih =>
    rw [List.foldl_cons, ih, keyB_writeB, List.mem_cons, or_assoc]

/-- a block of an order ≥ 2 writer: distinct n-grams, positive counts -/
def GoodBlock (d : List Rec) : Prop := (d.map (·.1)).Nodup ∧ ∀ e ∈ d, 0 < e.2

/-- invariant of the writer when no `AddUnigramWord` slot exists (order ≥ 2) -/
def Good (b : Blk) : Prop := b.pre = [] ∧ GoodBlock b.cur ∧ ∀ d ∈ b.done, GoodBlock d

theorem good_writeB (cap : Nat) (b : Blk) (g : Gram) (hb : Good b) : Good (writeB cap b g) := by
  obtain ⟨hp, ⟨hnd, hpos⟩, hd⟩ := hb
  unfold writeB
  cases h : incr g b.cur with
  | some c =>
    obtain ⟨i1, _, i3, _⟩ := incr_some h
    exact ⟨hp, ⟨by rw [i1]; exact hnd, i3 hpos⟩, hd⟩
  | none =>
    have hn := incr_eq_none.1 h
    have hnew : GoodBlock (b.cur ++ [(g, 1)]) := by
      refine ⟨?_, ?_⟩
      · rw [List.map_append, List.nodup_append]
        refine ⟨hnd, by simp, ?_⟩
        intro a ha c hc
        simp only [List.map_cons, List.map_nil, List.mem_singleton] at hc
        subst hc; intro hac; subst hac; exact hn ha
      · intro e he
        rcases List.mem_append.1 he with he | he
        · exact hpos e he
        · simp only [List.mem_singleton] at he; subst he; exact Nat.one_pos
    simp only
    split
    · refine ⟨rfl, ⟨by simp, by simp⟩, ?_⟩
      intro d hd'
      rcases List.mem_cons.1 hd' with rfl | hd'
      · rw [hp]; simpa using hnew
      · exact hd d hd'
    · exact ⟨hp, hnew, hd⟩

theorem good_foldl (cap : Nat) (gs : List Gram) (b : Blk) (hb : Good b) : Good (gs.foldl (writeB cap) b) := by
  induction gs generalizing b with
  | nil => exact hb
  | cons g gs ih => exact ih _ (good_writeB cap b g hb)

/-- block sizes: every finished block is full, the current one is not -/
def Sized (cap : Nat) (b : Blk) : Prop := b.pre.length + b.cur.length < cap ∧ ∀ d ∈ b.done, d.length = cap

theorem sized_writeB (cap : Nat) (b : Blk) (g : Gram) (hb : Sized cap b) : Sized cap (writeB cap b g) := by
  obtain ⟨h1, h2⟩ := hb
  unfold writeB
  cases h : incr g b.cur with
  | some c => exact ⟨by simp only [(incr_some h).2.2.2]; exact h1, h2⟩
  | none =>
    simp only
    split
    · rename_i hc
      refine ⟨by simp; omega, ?_⟩
      intro d hd
      rcases List.mem_cons.1 hd with rfl | hd
      · simp only [List.length_append] at hc ⊢; exact hc
      · exact h2 d hd
    · rename_i hc
      refine ⟨?_, h2⟩
      simp only [List.length_append, List.length_cons, List.length_nil] at hc ⊢; omega

theorem sized_foldl (cap : Nat) (gs : List Gram) (b : Blk) (hb : Sized cap b) : Sized cap (gs.foldl (writeB cap) b) := by
  induction gs generalizing b with
  | nil => exact hb
  | cons g gs ih => exact ih _ (sized_writeB cap b g hb)

/-! ## 4. `AddUnigramWord` and the initial state -/

theorem totB_addUnigramWord (cap : Nat) (st : St) (w : Word) (k : Gram) :
    totB k (blk (addUnigramWord cap st w)) = totB k (blk st) := by
  unfold addUnigramWord
  simp only
  split <;> simp [totB, blk] <;> omega

theorem keyB_addUnigramWord (cap : Nat) (st : St) (w : Word) (k : Gram) :
    keyB k (blk (addUnigramWord cap st w)) ↔ keyB k (blk st) ∨ k = [w] := by
  unfold addUnigramWord
  simp only
  split
  · simp only [keyB, blk, List.mem_cons, List.map_append, List.mem_append, List.map_cons, List.map_nil,
      List.not_mem_nil, or_false, exists_eq_or_imp]
    grind
  · simp only [keyB, blk, List.map_append, List.mem_append, List.map_cons, List.map_nil, List.mem_cons,
      List.not_mem_nil, or_false]
    grind

theorem sized_addUnigramWord (cap : Nat) (st : St) (w : Word) (h : Sized cap (blk st)) :
    Sized cap (blk (addUnigramWord cap st w)) := by
  obtain ⟨h1, h2⟩ := h
  unfold addUnigramWord
  simp only
  split
  · rename_i hc
    refine ⟨by simp [blk]; omega, ?_⟩
    intro d hd
    simp only [blk] at hd h2
    rcases List.mem_cons.1 hd with rfl | hd
    · simp only [List.length_append] at hc ⊢; exact hc
    · exact h2 d hd
  · rename_i hc
    refine ⟨?_, h2⟩
    simp only [blk, List.length_append, List.length_cons, List.length_nil] at hc h1 ⊢; omega

theorem totB_init (N cap : Nat) (k : Gram) : totB k (blk (init N cap)) = 0 := by
  unfold init
  split
  · rw [totB_addUnigramWord, totB_addUnigramWord]; rfl
  · rfl

theorem keyB_init_ge2 {N : Nat} (hN : 2 ≤ N) (cap : Nat) (k : Gram) : ¬ keyB k (blk (init N cap)) := by
  unfold init
  rw [if_neg (by omega)]
  simp [keyB, blk]

theorem keyB_init_one (cap : Nat) (k : Gram) : keyB k (blk (init 1 cap)) ↔ k = [unk] ∨ k = [bos] := by
  unfold init
  rw [if_pos rfl, keyB_addUnigramWord, keyB_addUnigramWord]
  simp [keyB, blk]

theorem good_init_ge2 {N : Nat} (hN : 2 ≤ N) (cap : Nat) : Good (blk (init N cap)) := by
  unfold init
  rw [if_neg (by omega)]
  exact ⟨rfl, ⟨by simp [blk], by simp [blk]⟩, by simp [blk]⟩

theorem sized_init (N : Nat) {cap : Nat} (hc : 1 ≤ cap) : Sized cap (blk (init N cap)) := by
  have h0 : Sized cap (blk {}) := ⟨by simp [blk]; omega, by simp [blk]⟩
  unfold init
  split
  · exact sized_addUnigramWord _ _ _ (sized_addUnigramWord _ _ _ h0)
  · exact h0

/-! ## 5. `combineSorted ∘ mergeSort` is determined by key set and totals -/

theorem combineSorted_cons (g : Gram) (c : Nat) (t : List Rec) :
    combineSorted ((g, c) :: t) =
      match combineSorted t with
      | (h, d) :: r => if g = h then (h, c + d) :: r else (g, c) :: (h, d) :: r
      | [] => [(g, c)] := by
  conv => lhs; rw [combineSorted]
  cases combineSorted t with
  | nil => rfl
  | cons f r => obtain ⟨h, d⟩ := f; rfl

theorem combineSorted_total (l : List Rec) (k : Gram) : total k (combineSorted l) = total k l := by
  induction l with
  | nil => rfl
  | cons e t ih =>
    obtain ⟨g, c⟩ := e
    rw [combineSorted_cons]
    cases hr : combineSorted t with
    | nil => rw [hr] at ih; simp [← ih]
    | cons f r =>
      obtain ⟨h, d⟩ := f
      rw [hr] at ih
      simp only [total_cons] at ih ⊢
      by_cases hgh : g = h
      · subst hgh; simp only [if_true, total_cons]
        by_cases hk : g = k <;> simp [hk] at ih ⊢ <;> omega
      · simp only [hgh, if_false, total_cons]; omega

theorem combineSorted_keys (l : List Rec) (k : Gram) : k ∈ (combineSorted l).map (·.1) ↔ k ∈ l.map (·.1) := by
  induction l with
  | nil => simp [combineSorted]
  | cons e t ih =>
    obtain ⟨g, c⟩ := e
    rw [combineSorted_cons]
    cases hr : combineSorted t with
    | nil => rw [hr] at ih; simp at ih; simp; intro x hx; exact absurd hx (ih x)
    | cons f r =>
      obtain ⟨h, d⟩ := f
      rw [hr] at ih
      simp only [List.map_cons, List.mem_cons] at ih ⊢
      by_cases hgh : g = h
      · subst hgh; simp only [if_true, List.map_cons, List.mem_cons]
        rw [← ih]; constructor
        · intro h; exact Or.inr h
        · rintro (h | h)
          · exact Or.inl h
          · exact h
      · simp only [hgh, if_false, List.map_cons, List.mem_cons, ← ih]

instance : Std.IsLinearOrder (List Nat) := inferInstance
instance : Std.LawfulOrderLT (List Nat) := inferInstance

theorem gram_lt_of_le_of_ne {a b : Gram} (h : a ≤ b) (hne : a ≠ b) : a < b := by
  apply Classical.byContradiction; intro hn
  exact hne (List.le_antisymm h (List.not_lt.1 hn))

/-- on a sorted list, `CombineCounts` leaves strictly increasing n-grams -/
theorem combineSorted_sorted (l : List Rec) (hs : l.Pairwise (fun a b => a.1 ≤ b.1)) :
    (combineSorted l).Pairwise (fun a b => a.1 < b.1) := by
  induction l with
  | nil => simp [combineSorted]
  | cons e t ih =>
    obtain ⟨g, c⟩ := e
    rw [List.pairwise_cons] at hs
    have ih := ih hs.2
    have hle : ∀ k, k ∈ (combineSorted t).map (·.1) → g ≤ k := by
      intro k hk
      rw [combineSorted_keys] at hk
      obtain ⟨e, he, rfl⟩ := List.mem_map.1 hk
      exact hs.1 e he
    rw [combineSorted_cons]
    cases hr : combineSorted t with
    | nil => simp
    | cons f r =>
      obtain ⟨h, d⟩ := f
      rw [hr] at ih hle
      rw [List.pairwise_cons] at ih
      by_cases hgh : g = h
      · subst hgh; simp only [if_true]
        exact List.pairwise_cons.2 ⟨ih.1, ih.2⟩
      · simp only [hgh, if_false]
        have hlt : g < h := gram_lt_of_le_of_ne (hle h (by simp)) hgh
        refine List.pairwise_cons.2 ⟨?_, List.pairwise_cons.2 ih⟩
        intro e he
        rcases List.mem_cons.1 he with rfl | he
        · exact hlt
        · exact List.lt_trans hlt (ih.1 e he)

theorem nodup_eq_map_total (l : List Rec) (h : (l.map (·.1)).Nodup) :
    l = (l.map (·.1)).map fun k => (k, total k l) := by
  induction l with
  | nil => rfl
  | cons e t ih =>
    rw [List.map_cons, List.nodup_cons] at h
    have e0 : total e.1 t = 0 := total_eq_zero_of_not_mem h.1
    simp only [List.map_cons, total_cons, if_true, e0, Nat.add_zero]
    congr 1
    conv => lhs; rw [ih h.2]
    apply List.map_congr_left
    intro k hk
    have : ¬ e.1 = k := fun hek => h.1 (hek ▸ hk)
    simp [this]

/-- two record lists with strictly increasing n-grams, the same n-grams and the same totals are equal -/
theorem strict_ext {a b : List Rec} (ha : a.Pairwise (fun x y => x.1 < y.1)) (hb : b.Pairwise (fun x y => x.1 < y.1))
    (hk : ∀ k, k ∈ a.map (·.1) ↔ k ∈ b.map (·.1)) (ht : ∀ k, total k a = total k b) : a = b := by
  have pa : (a.map (·.1)).Pairwise (· < ·) := List.pairwise_map.2 ha
  have pb : (b.map (·.1)).Pairwise (· < ·) := List.pairwise_map.2 hb
  have na : (a.map (·.1)).Nodup := pa.imp (fun h e => by subst e; exact List.lt_irrefl _ h)
  have nb : (b.map (·.1)).Nodup := pb.imp (fun h e => by subst e; exact List.lt_irrefl _ h)
  have hp : (a.map (·.1)).Perm (b.map (·.1)) := (List.perm_ext_iff_of_nodup na nb).2 hk
  have hkeys : a.map (·.1) = b.map (·.1) :=
    List.Perm.eq_of_pairwise (fun x y _ _ h1 h2 => absurd h2 (List.lt_asymm h1)) pa pb hp
  rw [nodup_eq_map_total a na, nodup_eq_map_total b nb, hkeys]
  apply List.map_congr_left
  intro k _
  rw [ht k]

theorem gramLe_trans (a b c : Rec) (h1 : gramLe a b = true) (h2 : gramLe b c = true) : gramLe a c = true := by
  simp only [gramLe, decide_eq_true_eq] at *
  exact List.le_trans h1 h2

theorem gramLe_total (a b : Rec) : (gramLe a b || gramLe b a) = true := by
  simp only [gramLe, Bool.or_eq_true, decide_eq_true_eq]
  exact List.le_total _ _

theorem sort_sorted (l : List Rec) : (l.mergeSort gramLe).Pairwise (fun a b => a.1 ≤ b.1) :=
  (List.pairwise_mergeSort gramLe_trans gramLe_total l).imp (fun h => by simpa [gramLe] using h)

/-- what the sort + `CombineCounts` stage delivers: strictly increasing n-grams, the n-grams of the
input, and per n-gram the total count -/
theorem combine_sort_spec (l : List Rec) :
    (combineSorted (l.mergeSort gramLe)).Pairwise (fun a b => a.1 < b.1) ∧
    (∀ k, k ∈ (combineSorted (l.mergeSort gramLe)).map (·.1) ↔ k ∈ l.map (·.1)) ∧
    (∀ k, total k (combineSorted (l.mergeSort gramLe)) = total k l) := by
  refine ⟨combineSorted_sorted _ (sort_sorted l), ?_, ?_⟩
  · intro k
    rw [combineSorted_keys]
    exact ((List.mergeSort_perm l gramLe).map _).mem_iff
  · intro k
    rw [combineSorted_total]
    exact total_perm (List.mergeSort_perm l gramLe)

/-- **the sorted, combined table is determined by the key set and the per-n-gram totals of the
records** — in particular it does not depend on how the occurrences were split into blocks -/
theorem combine_sort_ext {r₁ r₂ : List Rec} (hk : ∀ k, k ∈ r₁.map (·.1) ↔ k ∈ r₂.map (·.1))
    (ht : ∀ k, total k r₁ = total k r₂) :
    combineSorted (r₁.mergeSort gramLe) = combineSorted (r₂.mergeSort gramLe) := by
  obtain ⟨s1, k1, t1⟩ := combine_sort_spec r₁
  obtain ⟨s2, k2, t2⟩ := combine_sort_spec r₂
  exact strict_ext s1 s2 (fun k => by rw [k1, k2, hk]) (fun k => by rw [t1, t2, ht])

/-! ## 6. The blocks against the block-free specification `countFull` / `countFull1` -/

theorem total_map_one (k : Gram) (gs : List Gram) : total k (gs.map fun g => (g, 1)) = gs.count k := by
  induction gs with
  | nil => rfl
  | cons g gs ih =>
    simp only [List.map_cons, total_cons, ih, List.count_cons]
    by_cases h : g = k <;> simp [h] <;> omega

theorem keys_map_one (k : Gram) (gs : List Gram) : k ∈ (gs.map fun g => (g, 1)).map (·.1) ↔ k ∈ gs := by
  simp

theorem total_corpusCount {N : Nat} (hN : 1 ≤ N) (cap : Nat) (corpus : List (List Word)) (g : Gram) :
    total g (corpusCount N cap corpus).flatten = (occurrences N corpus).count g := by
  rw [corpusCount_eq_fold hN, total_finishB, totB_foldl, totB_init, Nat.zero_add]

theorem keys_corpusCount {N : Nat} (hN : 1 ≤ N) (cap : Nat) (corpus : List (List Word)) (g : Gram) :
    g ∈ (corpusCount N cap corpus).flatten.map (·.1) ↔ keyB g (blk (init N cap)) ∨ g ∈ occurrences N corpus := by
  rw [corpusCount_eq_fold hN, mem_finishB, keyB_foldl]

theorem windows_one (l : List Word) : windows 1 l = l.map fun w => [w] := by
  induction l with
  | nil => rfl
  | cons a t ih => simp [windows, ih]

theorem mem_occurrences_one {g : Gram} {corpus : List (List Word)} (h : g ∈ occurrences 1 corpus) :
    ∃ w, g = [w] ∧ (w = eos ∨ ∃ s ∈ corpus, w ∈ s) := by
  simp only [occurrences, List.mem_flatMap, windows_one, paddedN, List.mem_map] at h
  obtain ⟨s, hs, w, hw, rfl⟩ := h
  refine ⟨w, rfl, ?_⟩
  simp only [Nat.sub_self, List.replicate_zero, List.nil_append, List.mem_append, List.mem_singleton] at hw
  rcases hw with hw | hw
  · exact Or.inr ⟨s, hs, hw⟩
  · exact Or.inl hw

theorem sortCombine_ge2 {N : Nat} (hN : 2 ≤ N) (cap : Nat) (corpus : List (List Word)) :
    combineSorted ((corpusCount N cap corpus).flatten.mergeSort gramLe) = countFull N corpus := by
  unfold countFull
  apply combine_sort_ext
  · intro k
    rw [keys_corpusCount (by omega), keys_map_one]
    constructor
    · rintro (h | h)
      · exact absurd h (keyB_init_ge2 hN cap k)
      · exact h
    · exact Or.inr
  · intro k
    rw [total_corpusCount (by omega), total_map_one]

theorem sortCombine_one (cap : Nat) (corpus : List (List Word)) (hw : ∀ s ∈ corpus, ∀ w ∈ s, 2 ≤ w) :
    combineSorted ((corpusCount 1 cap corpus).flatten.mergeSort gramLe) = countFull1 corpus := by
  obtain ⟨s1, k1, t1⟩ := combine_sort_spec (corpusCount 1 cap corpus).flatten
  obtain ⟨s2, k2, t2⟩ := combine_sort_spec ((occurrences 1 corpus).map fun g => (g, 1))
  have hgt : ∀ e ∈ countFull 1 corpus, [bos] < e.1 := by
    intro e he
    have : e.1 ∈ occurrences 1 corpus := by
      rw [← keys_map_one, ← k2]; exact List.mem_map_of_mem he
    obtain ⟨w, hg, hw'⟩ := mem_occurrences_one this
    have h2 : 2 ≤ w := by
      rcases hw' with rfl | ⟨s, hs, hws⟩
      · exact Nat.le_refl _
      · exact hw s hs w hws
    rw [hg]
    have : bos < w := h2
    exact List.Lex.rel this
  apply strict_ext s1
  · unfold countFull1
    refine List.pairwise_cons.2 ⟨?_, List.pairwise_cons.2 ⟨hgt, s2⟩⟩
    intro e he
    rcases List.mem_cons.1 he with rfl | he
    · decide
    · exact List.lt_trans (by decide) (hgt e he)
  · intro k
    rw [k1, keys_corpusCount (Nat.le_refl _), keyB_init_one]
    unfold countFull1
    simp only [List.map_cons, List.mem_cons]
    have := k2 k
    rw [keys_map_one] at this
    unfold countFull
    rw [this, or_assoc]
  · intro k
    rw [t1, total_corpusCount (Nat.le_refl _)]
    unfold countFull1
    simp only [total_cons]
    have := t2 k
    rw [total_map_one] at this
    unfold countFull
    rw [this]
    split <;> split <;> omega

theorem blocks_good {N : Nat} (hN : 2 ≤ N) (cap : Nat) (corpus : List (List Word)) :
    ∀ d ∈ corpusCount N cap corpus, GoodBlock d := by
  rw [corpusCount_eq_fold (by omega)]
  obtain ⟨hp, hc, hd⟩ := good_foldl cap (occurrences N corpus) _ (good_init_ge2 hN cap)
  intro d hd'
  simp only [finishB, List.mem_reverse, List.mem_cons] at hd'
  rcases hd' with rfl | hd'
  · rw [hp]; exact hc
  · exact hd d hd'

theorem blocks_sized (N : Nat) {cap : Nat} (hN : 1 ≤ N) (hc : 1 ≤ cap) (corpus : List (List Word)) :
    ∃ full last, corpusCount N cap corpus = full ++ [last] ∧ (∀ d ∈ full, d.length = cap) ∧ last.length < cap := by
  rw [corpusCount_eq_fold hN]
  obtain ⟨h1, h2⟩ := sized_foldl cap (occurrences N corpus) _ (sized_init N hc)
  refine ⟨_, _, by simp only [finishB, List.reverse_cons]; rfl, ?_, by simpa using h1⟩
  intro d hd
  exact h2 d (List.mem_reverse.1 hd)

end KV.KN.Count
