import Proofs.LeftRevealB
/-! Two-sided revelation: `RevealBefore` and `RevealAfter` calls interleaved in any order on the same fragment
(the protocol of `lm/partial_test.cc`): invariant `PT` and its preservation by either kind of call. -/
namespace KV.Left
open KV.Arpa KV.Table KV.State KV.Score

variable {a : Arpa} {T : Table}

/-- invariant after `kb` words of the preceding right state (`bw = B.reverse`) and `ka` pointers of the following left
state have been revealed to `M`; `M ++ A.take ka` are the words incorporated so far -/
structure PT (a : Arpa) (T : Table) (R : Ptr → Rat) (M A : List Word) (pM : Rat) (bw : List Word) (kb ka Lk : Nat)
    (left : LeftSt) (right : State) (acc : Rat) : Prop where
  ka_le : ka ≤ A.length
  ptrs : left.pointers = (List.range Lk).map (fun i => pre (M ++ A.take ka) i ++ bw.take kb)
  xl : ∀ i, i < Lk → T.xl (pre (M ++ A.take ka) i ++ bw.take kb) = true
  Lk_le : Lk ≤ (M ++ A.take ka).length
  bound : Lk + kb ≤ a.order - 1
  score : pM + psum R A [] ka + acc = psum R (M ++ A.take ka) (bw.take kb) Lk +
    specSeq a (gm1 (M ++ A.take ka) Lk ++ bw.take kb) ((M ++ A.take ka).drop Lk)
  nu_le : right.length ≤ M.length + kb
  words : right.words.take right.length = (M.reverse ++ bw).take right.length
  hN : ka + 1 + right.length ≤ a.order
  back : right.backoff.take right.length =
    (List.range right.length).map (fun j => a.boW (gm1 A ka ++ (M.reverse ++ bw).take (j+1)))
  open_ : left.full = false → Lk = (M ++ A.take ka).length ∧ right.length = M.length + kb
  closed : left.full = true → ClosedP T (M ++ A.take ka) (bw.take kb) Lk ∧
    ∀ kk, right.length < kk → kk ≤ (M.reverse ++ bw).length → ¬ live a (gm1 A ka ++ (M.reverse ++ bw).take kk)

theorem psum_zero (R : Ptr → Rat) (F Q : List Word) : psum R F Q 0 = 0 := rfl

theorem PT.init (H : Hyp a T) (R : Ptr → Rat) {M : List Word} {Lm : Nat} {cM : Chart} {pM : Rat} (GM : FragC a T R M Lm cM pM)
    (A bw : List Word) : PT a T R M A pM bw 0 0 Lm cM.left cM.right 0 := by
  have sf := GM.right_for
  have hN2 := H.wf.order_ge
  have hM : M ++ A.take 0 = M := by simp
  refine ⟨Nat.zero_le _, by rw [hM, GM.ptrs]; simp, fun i hi => by rw [hM]; simpa using GM.ptr_xl i hi, by rw [hM]; exact GM.L_le,
    by have := GM.L_lt; omega, ?_, by have := sf.len_le_h; simpa using this, ?_, by have := sf.len_le_N; omega, ?_, ?_, ?_⟩
  · rw [hM, GM.prob_eq]; simp only [List.take_zero, List.append_nil, psum_nil, psum_zero, gm1]; grind
  · rw [sf.words]
    have : cM.right.length ≤ M.reverse.length := sf.len_le_h
    rw [List.take_append_of_le_length this]
  · rw [sf.backoff]
    apply List.map_congr_left
    intro j hj
    have hj' : j < cM.right.length := by simpa using hj
    have : cM.right.length ≤ M.reverse.length := sf.len_le_h
    rw [List.take_append_of_le_length (by omega)]
    simp [gm1]
  · intro hf
    obtain ⟨h1, h2⟩ := GM.open_ hf
    rw [hM]; exact ⟨h1, by omega⟩
  · intro hf
    rw [hM]
    refine ⟨?_, ?_⟩
    · rcases GM.closed hf with ⟨h1, h2⟩ | ⟨h1, _, j, hj1, hj2, h3⟩ | ⟨h1, h2⟩
      · left; exact ⟨h1, by simpa using h2⟩
      · right; left; exact ⟨h1, j, hj1, by simpa using hj2, by simpa using h3⟩
      · right; right; exact ⟨h1, by simpa using h2⟩
    · intro kk hk1 hk2
      have hcl := closed_dead H (GM.closed hf) GM.L_le
      by_cases hle : kk ≤ M.reverse.length
      · rw [List.take_append_of_le_length hle]
        simpa [gm1] using sf.dead kk hk1 hle
      · have e : kk = M.reverse.length + (kk - M.reverse.length) := by omega
        rw [e, take_append_len]
        simp only [gm1, List.take_zero, List.reverse_nil, List.nil_append]
        simp only [List.length_append] at hk2
        exact hcl _ (take_ne_nil (by omega) (by omega))

/-- closure relative to `P` survives incorporating one more word -/
theorem ClosedP.append_word (H : Hyp a T) {F P : List Word} {Lk : Nat} (hc : ClosedP T F P Lk) (w : Word) :
    ClosedP T (F ++ [w]) P Lk := by
  have hp : Lk = F.length → pre (F ++ [w]) Lk = w :: F.reverse := by
    intro h1; rw [h1]; exact pre_full F w
  rcases hc with ⟨h1, h2⟩ | ⟨h1, j, hj1, hj2, h3⟩ | ⟨h1, h2⟩
  · left
    exact ⟨by simp; omega, by rw [pre_append F [w] h1]; exact h2⟩
  · left
    refine ⟨by simp; omega, ?_⟩
    intro y
    have hne : (F.reverse ++ P).take j ≠ [] := take_ne_nil hj1 (by simpa using hj2)
    have hnone : T.lookup (w :: (F.reverse ++ P).take j) = none := by
      apply Classical.byContradiction; intro hc
      have := H.marks _ w hne hc
      rw [h3] at this; cases this
    have h4 := lookup_none_take H.ok w (F.reverse ++ P) j (F.reverse ++ P).length (by simpa using hj2) hnone
    rw [List.take_of_length_le (Nat.le_refl _)] at h4
    rw [hp h1]
    have := lookup_none_extend H.ok [y] (w :: (F.reverse ++ P)) (by simp) h4
    simpa only [List.cons_append, List.append_assoc] using this
  · left
    refine ⟨by simp; omega, ?_⟩
    intro y
    rw [hp h1]
    apply Classical.byContradiction; intro hne
    have := H.ok.len_le _ hne
    simp only [List.length_cons, List.length_append, List.length_reverse, List.length_nil] at this
    have := H.ok.order_ge
    omega


/-- everything that contains a closed fragment (relative to `P`) plus older words is dead -/
theorem closedP_dead (H : Hyp a T) {F P : List Word} {L : Nat} (hc : ClosedP T F P L) (c : List Word) (hcne : c ≠ []) :
    ¬ live a (F.reverse ++ P ++ c) := by
  rcases hc with ⟨h1, h2⟩ | ⟨h1, j, hj1, hj2, h3⟩ | ⟨h1, h2⟩
  · have hne : pre F L ++ P ≠ [] := by rw [pre_cons_P F P L h1]; simp
    have := H.dead_of_no_ext hne h2 (F.drop (L+1)).reverse c hcne
    rw [← List.append_assoc, ← List.append_assoc, ← gm1_succ F L h1, ← rev_split] at this
    exact this
  · have hne : (F.reverse ++ P).take j ≠ [] := take_ne_nil hj1 (by simpa using hj2)
    have := H.dead_of_not_xr hne h3 ((F.reverse ++ P).drop j ++ c)
    rwa [← List.append_assoc, List.take_append_drop] at this
  · intro hl
    obtain ⟨e, he, hor⟩ := hl
    have hlen := H.wf.len_le _ (by rw [he]; exact Option.some_ne_none _ : a.gram (F.reverse ++ P ++ c) ≠ none)
    have hcl : 1 ≤ c.length := by
      cases c with
      | nil => exact absurd rfl hcne
      | cons x c' => simp
    simp only [List.length_append, List.length_reverse] at hlen
    rw [H.tf.order_eq] at h2
    have hN := H.wf.order_ge
    have hlen' : (F.reverse ++ P ++ c).length = a.order := by simp; omega
    rcases hor with hb | ⟨x, hx⟩
    · exact hb (H.wf.top_bo _ e he hlen')
    · have := H.wf.len_le _ hx
      simp only [List.length_cons] at this
      omega

theorem revealBefore_full (R : Ptr → Rat) (reveal : State) (seen : Nat) (left : LeftSt) (right : State) (hf : left.full = true) :
    (revealBefore T R reveal seen false left right).2.2 = right ∧ (revealBefore T R reveal seen false left right).2.1.full = true := by
  unfold revealBefore
  simp [hf]

theorem take_succ_getElem' (l : List Word) (n : Nat) (h : n < l.length) : l.take (n+1) = l.take n ++ [l[n]] :=
  List.take_succ_eq_append_getElem h

/-- **one `RevealBefore` call in the two-sided protocol** -/
theorem revealBefore_stepT (H : Hyp a T) (R : Ptr → Rat) {B M A : List Word} {Lb : Nat} {cB : Chart} {pB pM : Rat}
    (GB : FragC a T R B Lb cB pB) {kb ka Lk : Nat} {left : LeftSt} {right : State} {acc : Rat}
    (I : PT a T R M A pM B.reverse kb ka Lk left right acc) (hk : kb < cB.right.length) :
    ∃ Lk', PT a T R M A pM B.reverse (kb+1) ka Lk'
      (revealBefore T R { cB.right with length := kb + 1 } kb false left right).2.1
      (revealBefore T R { cB.right with length := kb + 1 } kb false left right).2.2
      (acc + (revealBefore T R { cB.right with length := kb + 1 } kb false left right).1) := by
  have hord : T.order = a.order := H.tf.order_eq
  have hN2 := H.wf.order_ge
  have sfB := GB.right_for
  have hnb : cB.right.length ≤ B.reverse.length := sfB.len_le_h
  have hnbN : cB.right.length ≤ a.order - 1 := sfB.len_le_N
  have hkal : (A.take ka).length = ka := by rw [List.length_take]; have := I.ka_le; omega
  by_cases hfull : left.full = true
  · -- the left state is complete: exactly the one-sided step for the fragment `M ++ A.take ka`; the residual right
    -- state is not touched
    have IB : PB a T R (M ++ A.take ka) (pM + psum R A [] ka) B.reverse kb Lk left right acc :=
      ⟨I.ptrs, I.xl, I.Lk_le, I.bound, I.score, (fun hc => by rw [hfull] at hc; cases hc), fun hc => (I.closed hc).1⟩
    obtain ⟨Lk', IB'⟩ := revealBefore_step H R GB IB hk
    obtain ⟨hr, hfl⟩ := revealBefore_full (T := T) R { cB.right with length := kb + 1 } kb left right hfull
    refine ⟨Lk', ⟨I.ka_le, IB'.ptrs, IB'.xl, IB'.Lk_le, IB'.bound, IB'.score, by rw [hr]; have := I.nu_le; omega, by rw [hr]; exact I.words,
      by rw [hr]; exact I.hN, by rw [hr]; exact I.back, (fun hc => by rw [hfl] at hc; cases hc),
      fun hc => ⟨IB'.closed hc, by rw [hr]; exact (I.closed hfull).2⟩⟩⟩
  · have hopen : left.full = false := by simpa using hfull
    obtain ⟨o1, o2⟩ := I.open_ hopen
    generalize hbw : B.reverse = bw at I sfB hnb ⊢
    have hkb : kb < bw.length := by omega
    have hP' : bw.take (kb+1) = bw.take kb ++ [bw[kb]] := take_succ_snoc bw kb hkb
    have hPl : (bw.take kb).length = kb := by rw [List.length_take]; omega
    have hwords : cB.right.words.take (kb+1) = bw.take (kb+1) := by
      have e : cB.right.words.take (kb+1) = (cB.right.words.take cB.right.length).take (kb+1) := by
        rw [List.take_take, Nat.min_eq_left (by omega)]
      rw [e, sfB.words, List.take_take, Nat.min_eq_left (by omega)]
    have hbacks : (cB.right.backoff.take (kb+1)).drop kb = [a.boW (bw.take (kb+1))] := by
      have e : cB.right.backoff.take (kb+1) = (cB.right.backoff.take cB.right.length).take (kb+1) := by
        rw [List.take_take, Nat.min_eq_left (by omega)]
      rw [e, sfB.backoff, ← List.map_take, List.take_range, Nat.min_eq_left (by omega), List.range_succ, List.map_append,
        List.drop_append_of_le_length (by simp), List.drop_of_length_le (by simp)]
      rfl
    generalize hx : bw[kb] = x at hP'
    have hadd : (({ cB.right with length := kb + 1 } : State).words.take (kb+1)).drop kb = [x] := by
      show (cB.right.words.take (kb+1)).drop kb = [x]
      rw [hwords, hP', List.drop_append_of_le_length (by omega), List.drop_of_length_le (by omega)]
      rfl
    have hbo : (({ cB.right with length := kb + 1 } : State).backoff.take (kb+1)).drop kb = [a.boW (bw.take (kb+1))] := hbacks
    have hFl : (M ++ A.take ka).length = M.length + ka := by rw [List.length_append, hkal]
    have hFrev : (M ++ A.take ka).reverse = gm1 A ka ++ M.reverse := by rw [List.reverse_append]; rfl
    have C : LoopCtx a T (M ++ A.take ka) (bw.take kb) [x] Lk 1 := ⟨I.Lk_le, I.xl, by rw [hPl]; exact I.bound, by simp⟩
    have I0 : InvL a (M ++ A.take ka) (bw.take kb) [x] 1 0 { nextUse := 1, backIn := [a.boW (bw.take (kb+1))].take 1 } := by
      refine ⟨Nat.le_refl _, by rw [hPl]; show 0 + kb + 1 + 1 ≤ a.order; omega, ?_, fun kk h1 h2 => by
        have h1' : 1 < kk := h1
        simp at h2; omega⟩
      show ([a.boW (bw.take (kb+1))].take 1).take 1 = _
      simp [gm1, hP']
    obtain ⟨Lw, s1, s2, s3, s4, s5, s6, s7, s8, s9⟩ :=
      extendLoop_sem H R C kb 0 (by rw [hPl]; simp) (Nat.zero_le _) [a.boW (bw.take (kb+1))] I0 true (fun _ => by simp)
    have hptrs0 : left.pointers = ((List.range Lk).map (fun i => pre (M ++ A.take ka) i ++ (bw.take kb))).drop 0 := by rw [I.ptrs]; rfl
    unfold revealBefore
    dsimp only
    rw [hadd, hbo, hptrs0]
    simp only [Bool.not_false]
    have htk : ([x] : List Word).take 1 = [x] := rfl
    rw [htk] at s4 s7 s8 s9
    generalize extendLoop T R kb [x] [a.boW (bw.take (kb+1))] (((List.range Lk).map (fun i => pre (M ++ A.take ka) i ++ (bw.take kb))).drop 0) true = v
      at s4 s7 s8 s9 ⊢
    simp only [hopen, Bool.false_eq_true, if_false]
    have hext : ∀ i, pre (M ++ A.take ka) i ++ (bw.take kb) ++ [x] = pre (M ++ A.take ka) i ++ bw.take (kb+1) := by intro i; rw [hP', List.append_assoc]
    have hwritten : v.written = (List.range Lw).map (fun i => pre (M ++ A.take ka) i ++ bw.take (kb+1)) := by
      rw [s4]; simp only [List.drop_zero]
      apply List.map_congr_left; intro i _; exact hext i
    have hxl' : ∀ i, i < Lw → T.xl (pre (M ++ A.take ka) i ++ bw.take (kb+1)) = true := by
      intro i hi; rw [← hext i]; exact s5 i (Nat.zero_le _) hi
    have hbound' : Lw + (kb+1) ≤ a.order - 1 := by
      by_cases hpos : 0 < Lw
      · have := s6 hpos; rw [hPl] at this; simp only [List.length_singleton] at this; omega
      · omega
    have hLwF : Lw ≤ (M ++ A.take ka).length := by have := I.Lk_le; omega
    have hnu1 : v.nextUse ≤ 1 := s7.nu_le
    have hLkdrop : ∀ ctx, specSeq a ctx ((M ++ A.take ka).drop Lk) = 0 := by
      intro ctx; rw [o1, List.drop_eq_nil_of_le (Nat.le_refl _)]; rfl
    -- the score bookkeeping (nothing comes after the old left state: everything was in it)
    have hscore : pM + psum R A [] ka + (acc + v.adjust) =
        psum R (M ++ A.take ka) (bw.take (kb+1)) Lw + specSeq a (gm1 (M ++ A.take ka) Lw ++ bw.take (kb+1)) ((M ++ A.take ka).drop Lw) := by
      have hsp := specSeq_drop_split (a := a) (M ++ A.take ka) (bw.take (kb+1)) (Lk - Lw) Lw (by have := I.Lk_le; omega)
      have e1 : Lw + (Lk - Lw) = Lk := by omega
      rw [e1, hLkdrop] at hsp
      rw [hsp, s8]
      have hps : psum R (M ++ A.take ka) (bw.take kb) Lk = dsum (fun i => R (pre (M ++ A.take ka) i ++ (bw.take kb))) 0 Lw + dsum (fun i => R (pre (M ++ A.take ka) i ++ (bw.take kb))) Lw (Lk - Lw) := by
        unfold psum
        have := dsum_add (fun i => R (pre (M ++ A.take ka) i ++ (bw.take kb))) Lw (Lk - Lw) 0
        rw [e1, Nat.zero_add] at this
        exact this
      have ho : dsum (openTerm R (M ++ A.take ka) (bw.take kb) [x]) 0 (Lw - 0) = psum R (M ++ A.take ka) (bw.take (kb+1)) Lw - dsum (fun i => R (pre (M ++ A.take ka) i ++ (bw.take kb))) 0 Lw := by
        unfold psum
        rw [Nat.sub_zero, ← dsum_sub]
        apply dsum_congr
        intro j _ _
        simp only [openTerm, hext]
      have hd : dsum (doneTerm a R (M ++ A.take ka) (bw.take kb) [x]) Lw (Lk - Lw) =
          dsum (fun i => score a (gm1 (M ++ A.take ka) i ++ bw.take (kb+1)) ((M ++ A.take ka).getD i 0)) Lw (Lk - Lw) - dsum (fun i => R (pre (M ++ A.take ka) i ++ (bw.take kb))) Lw (Lk - Lw) := by
        rw [← dsum_sub]
        apply dsum_congr
        intro j _ _
        simp only [doneTerm, hP', List.append_assoc]
      rw [ho, hd]
      have hsc' := I.score
      rw [hps, hLkdrop] at hsc'
      grind
    -- the residual right state
    have hlenR : (M.reverse ++ bw).length = M.length + bw.length := by simp
    have hgetx : (M.reverse ++ bw).take (M.length + kb + 1) = (M.reverse ++ bw).take (M.length + kb) ++ [x] := by
      have e1 : M.length + kb + 1 = M.reverse.length + (kb + 1) := by simp; omega
      have e2 : M.length + kb = M.reverse.length + kb := by simp
      rw [e1, take_append_len, e2, take_append_len, hP', List.append_assoc]
    have hwords' : (right.words.take right.length ++ [x].take v.nextUse).take (right.length + v.nextUse) =
        (M.reverse ++ bw).take (right.length + v.nextUse) := by
      rw [I.words, o2]
      have hl0 : ((M.reverse ++ bw).take (M.length + kb)).length = M.length + kb := by
        rw [List.length_take, hlenR]; omega
      by_cases hn : v.nextUse = 1
      · rw [hn, hgetx]
        exact List.take_of_length_le (by simp only [List.length_append, hl0]; simp)
      · have hn0 : v.nextUse = 0 := by omega
        rw [hn0]; simp only [List.take_zero, List.append_nil, Nat.add_zero]
        exact List.take_of_length_le (by omega)
    have hgF : gm1 (M ++ A.take ka) Lk = (M ++ A.take ka).reverse := by unfold gm1; rw [o1, List.take_of_length_le (Nat.le_refl _)]
    have hback' : (right.backoff.take right.length ++ v.backIn.take v.nextUse).take (right.length + v.nextUse) =
        (List.range (right.length + v.nextUse)).map (fun j => a.boW (gm1 A ka ++ (M.reverse ++ bw).take (j+1))) := by
      rw [I.back, o2]
      by_cases hn : v.nextUse = 1
      · have hb1 : v.backIn.take 1 = [a.boW (gm1 A ka ++ (M.reverse ++ bw).take (M.length + kb + 1))] := by
          have := s7.back
          rw [hn, hgF, hFrev] at this
          rw [this]
          simp only [List.range_one, List.map_cons, List.map_nil, List.take_succ_cons, List.take_zero]
          rw [hgetx]
          have e2 : M.length + kb = M.reverse.length + kb := by simp
          rw [e2, take_append_len]
          simp only [List.append_assoc]
        rw [hn, hb1, List.take_of_length_le (by simp), List.range_succ, List.map_append]
        rfl
      · have hn0 : v.nextUse = 0 := by omega
        rw [hn0]; simp only [List.take_zero, List.append_nil, Nat.add_zero]
        exact List.take_of_length_le (by simp)
    have hN' : ka + 1 + (right.length + v.nextUse) ≤ a.order := by
      have := s7.hN; rw [hPl, o1, hFl] at this; rw [o2]; omega
    refine ⟨Lw, ⟨I.ka_le, hwritten, hxl', hLwF, hbound', hscore, by show right.length + v.nextUse ≤ _; omega,
      hwords', hN', hback', ?_, ?_⟩⟩
    · intro hc
      have hc' : ((v.makeFull || v.written.length == T.order - 1) || (right.length + v.nextUse) == T.order - 1) = false := hc
      simp only [Bool.or_eq_false_iff] at hc'
      obtain ⟨⟨hc1, _⟩, _⟩ := hc'
      rcases s9 with ⟨_, m2⟩ | ⟨m1, _⟩
      · obtain ⟨m3, m4⟩ := m2 rfl
        exact ⟨by omega, by show right.length + v.nextUse = _; rw [m4, o2]; omega⟩
      · rw [m1] at hc1; cases hc1
    · intro hc
      have hc' : ((v.makeFull || v.written.length == T.order - 1) || (right.length + v.nextUse) == T.order - 1) = true := hc
      have hcl : ClosedP T (M ++ A.take ka) (bw.take (kb+1)) Lw := by
        rw [hP']
        rcases s9 with ⟨m1, m2⟩ | ⟨_, _, m3⟩
        · obtain ⟨m3, m4⟩ := m2 rfl
          right; right
          refine ⟨by omega, ?_⟩
          rw [m1, hwritten] at hc'
          simp only [Bool.false_or, Bool.or_eq_true, beq_iff_eq, List.length_map, List.length_range] at hc'
          simp only [List.length_append, hPl, List.length_singleton]
          rcases hc' with hc' | hc'
          · rw [hord] at hc'; omega
          · rw [m4, o2, hord] at hc'
            rw [hord]; omega
        · exact closedP_of_cn H (M ++ A.take ka) (bw.take kb) x Lw hLwF m3.toCN
      refine ⟨hcl, ?_⟩
      intro kk hk1 hk2
      have hk1' : right.length + v.nextUse < kk := hk1
      rw [o2] at hk1'
      rw [hlenR] at hk2
      by_cases hkk : kk = M.length + kb + 1
      · -- the word just revealed: dead by the loop invariant
        have hn0 : v.nextUse = 0 := by omega
        have := s7.dead 1 (by omega) (by simp)
        rw [hgF, hFrev] at this
        rw [hkk, hgetx]
        have e2 : M.length + kb = M.reverse.length + kb := by simp
        rw [e2, take_append_len]
        simpa only [List.append_assoc, htk] using this
      · -- older words: dead by the closure
        have e : kk = M.reverse.length + (kb + 1 + (kk - (M.length + kb + 1))) := by simp; omega
        rw [e, take_append_len, List.take_add, ← List.append_assoc, ← List.append_assoc, ← hFrev]
        apply closedP_dead H hcl
        apply take_ne_nil (by omega)
        simp only [List.length_drop]; omega


/-- contexts that are dead beyond `nu` words of `h`: the score only depends on the first `nu` words -/
theorem score_cut (H : Hyp a T) (w : Word) (X h : List Word) (nu m : Nat) (hm : nu ≤ m)
    (hd : ∀ kk, nu < kk → kk ≤ h.length → ¬ live a (X ++ h.take kk)) :
    score a (X ++ h.take m) w = score a (X ++ h) w := by
  have e : X ++ h = (X ++ h.take m) ++ h.drop m := by rw [List.append_assoc, List.take_append_drop]
  rw [e]
  symm
  apply score_dead H
  intro k hk1 hk2
  have : X ++ h.take m ++ (h.drop m).take k = X ++ h.take (m + k) := by
    rw [List.append_assoc, ← List.take_add]
  rw [this]
  simp only [List.length_drop] at hk2
  exact hd _ (by omega) (by omega)

theorem F_succ (M A : List Word) (ka : Nat) (hka : ka < A.length) : M ++ A.take (ka+1) = (M ++ A.take ka) ++ [A[ka]] := by
  rw [List.take_succ_eq_append_getElem hka, List.append_assoc]

theorem psum_append (R : Ptr → Rat) (F l Q : List Word) (L : Nat) (hL : L ≤ F.length) : psum R (F ++ l) Q L = psum R F Q L := by
  unfold psum
  apply dsum_congr
  intro j _ hj
  rw [pre_append F l (by omega)]

theorem gm1_append (F l : List Word) (L : Nat) (hL : L ≤ F.length) : gm1 (F ++ l) L = gm1 F L := by
  unfold gm1
  rw [List.take_append_of_le_length hL]

/-- closure witness of the write loop for pointer `ka` of `A`, as closure of `M ++ A.take (ka+1)` -/
theorem closedP_of_cnA (H : Hyp a T) (M A P : List Word) (ka Lw : Nat) (hka : ka < A.length) (h1 : ka ≤ Lw) (h2 : Lw ≤ ka + 1)
    (hcn : CNL T A [] (M.reverse ++ P) (ka+1) Lw) : ClosedP T (M ++ A.take (ka+1)) P (M.length + Lw) := by
  have hkal : (A.take (ka+1)).length = ka + 1 := by rw [List.length_take]; omega
  have hFl : (M ++ A.take (ka+1)).length = M.length + (ka + 1) := by rw [List.length_append, hkal]
  have hpreA : ∀ i, i ≤ ka → pre (A.take (ka+1)) i = pre A i := by
    intro i hi; unfold pre; rw [List.take_take, Nat.min_eq_left (by omega)]
  have hpre : ∀ i, i ≤ ka → pre (M ++ A.take (ka+1)) (M.length + i) = pre A i ++ M.reverse := by
    intro i hi
    rw [pre_concat M (A.take (ka+1)) i (by omega), hpreA i hi]
  rcases hcn with ⟨c0, c1, c2⟩ | ⟨c1, c2⟩
  · -- an n-gram that cannot be extended
    have hLw : Lw ≤ ka := by omega
    left
    refine ⟨by rw [hFl]; omega, ?_⟩
    intro y
    rw [hpre Lw hLw]
    have := c2 y
    simpa only [List.append_nil, List.append_assoc] using this
  · simp only [List.append_nil] at c2
    by_cases hlt : Lw ≤ ka
    · -- the previous pointer does not extend right: nothing containing the next word exists
      left
      refine ⟨by rw [hFl]; omega, ?_⟩
      intro y
      rw [hpre Lw hlt, pre_eq_cons A Lw (by omega)]
      have hgm : gm1 A Lw = pre A (Lw - 1) := by
        cases Lw with
        | zero => omega
        | succ n => simp [gm1_succ A n (by omega)]
      rw [hgm]
      have hne : pre A (Lw-1) ++ (M.reverse ++ P) ≠ [] := by
        rw [pre_eq_cons A (Lw-1) (by omega)]; simp
      have hnone : T.lookup (A[Lw] :: (pre A (Lw-1) ++ (M.reverse ++ P))) = none := by
        apply Classical.byContradiction; intro hc
        have := H.marks _ A[Lw] hne hc
        rw [c2] at this; cases this
      have := lookup_none_extend H.ok [y] _ (by simp) hnone
      simpa only [List.cons_append, List.append_assoc] using this
    · right; left
      have hLwe : Lw = ka + 1 := by omega
      refine ⟨by rw [hFl]; omega, (M ++ A.take (ka+1)).length + P.length, by rw [hFl]; omega, by rw [hFl]; omega, ?_⟩
      rw [List.take_of_length_le (by simp; omega), List.reverse_append]
      have : pre A (Lw - 1) = (A.take (ka+1)).reverse := by
        rw [hLwe]; rfl
      rw [this] at c2
      simpa only [List.append_assoc] using c2


/-- **one `RevealAfter` call in the two-sided protocol** -/
theorem revealAfter_stepT (H : Hyp a T) (R : Ptr → Rat) {M A : List Word} {La : Nat} {cA : Chart} {pA pM : Rat}
    (GA : FragC a T R A La cA pA) {bw : List Word} {kb ka Lk : Nat} {left : LeftSt} {right : State} {acc : Rat}
    (hkb : kb ≤ bw.length)
    (I : PT a T R M A pM bw kb ka Lk left right acc) (hk : ka < La) :
    ∃ Lk', PT a T R M A pM bw kb (ka+1) Lk'
      (revealAfter T R left right { pointers := cA.left.pointers.take (ka+1), full := false } ka).2.1
      (revealAfter T R left right { pointers := cA.left.pointers.take (ka+1), full := false } ka).2.2
      (acc + (revealAfter T R left right { pointers := cA.left.pointers.take (ka+1), full := false } ka).1) := by
  have hord : T.order = a.order := H.tf.order_eq
  have hN2 := H.wf.order_ge
  have hLa := GA.L_le
  have hkaA : ka < A.length := by omega
  have hkal : (A.take ka).length = ka := by rw [List.length_take]; omega
  have hFl : (M ++ A.take ka).length = M.length + ka := by rw [List.length_append, hkal]
  have hFrev : (M ++ A.take ka).reverse = gm1 A ka ++ M.reverse := by rw [List.reverse_append]; rfl
  have hFs := F_succ M A ka hkaA
  have hPl : (bw.take kb).length = kb := by rw [List.length_take]; omega
  let hR := M.reverse ++ bw
  have hRl : hR.length = M.length + bw.length := by simp [hR]
  let nu := right.length
  have hnuR : nu ≤ hR.length := by have := I.nu_le; omega
  have hps : ({ pointers := cA.left.pointers.take (ka+1), full := false } : LeftSt).pointers.drop ka =
      ((List.range (ka+1)).map (fun i => pre A i ++ [])).drop ka := by
    show (cA.left.pointers.take (ka+1)).drop ka = _
    rw [GA.ptrs, ← List.map_take, List.take_range, Nat.min_eq_left (by omega)]
    simp
  -- transport of the fragment facts to `M ++ A.take (ka+1)`
  have hpreF : ∀ i, i < (M ++ A.take ka).length → pre (M ++ A.take (ka+1)) i = pre (M ++ A.take ka) i := by
    intro i hi; rw [hFs, pre_append _ _ hi]
  have hptrsF : ∀ L, L ≤ (M ++ A.take ka).length →
      (List.range L).map (fun i => pre (M ++ A.take ka) i ++ bw.take kb) = (List.range L).map (fun i => pre (M ++ A.take (ka+1)) i ++ bw.take kb) := by
    intro L hL
    apply List.map_congr_left
    intro i hi
    have : i < L := by simpa using hi
    rw [hpreF i (by omega)]
  have hpsumA : psum R A [] (ka+1) = psum R A [] ka + R (pre A ka) := by
    unfold psum; rw [dsum_snoc]; simp
  -- the new word scored after everything incorporated so far, given the revealed before-words
  have hscoreDone : ∀ sc : Rat, sc = score a ((M ++ A.take ka).reverse ++ bw.take kb) A[ka] →
      psum R (M ++ A.take ka) (bw.take kb) Lk + specSeq a (gm1 (M ++ A.take ka) Lk ++ bw.take kb) ((M ++ A.take ka).drop Lk) + sc =
      psum R (M ++ A.take (ka+1)) (bw.take kb) Lk +
        specSeq a (gm1 (M ++ A.take (ka+1)) Lk ++ bw.take kb) ((M ++ A.take (ka+1)).drop Lk) := by
    intro sc hsc
    rw [hFs, psum_append R _ _ _ Lk I.Lk_le, gm1_append _ _ Lk I.Lk_le, List.drop_append_of_le_length I.Lk_le, specSeq_append]
    simp only [specSeq]
    have : ((M ++ A.take ka).drop Lk).reverse ++ (gm1 (M ++ A.take ka) Lk ++ bw.take kb) = (M ++ A.take ka).reverse ++ bw.take kb := by
      rw [← List.append_assoc]; congr 1
      unfold gm1; rw [← List.reverse_append, List.take_append_drop]
    rw [this, hsc]; grind
  have hcur : hR.take (M.length + kb) = M.reverse ++ bw.take kb := by
    have e : M.length + kb = M.reverse.length + kb := by simp
    rw [e, take_append_len]
  by_cases hfull : left.full = true
  · -- complete already: the pointer is finalised with what the residual right state still offers
    obtain ⟨hcl, hdeadR⟩ := I.closed hfull
    have C : LoopCtx a T A [] hR (ka+1) nu :=
      ⟨by omega, fun i hi => by simpa using GA.ptr_xl i (by omega), by have := GA.L_lt; simp; omega, hnuR⟩
    have I0 : InvL a A [] hR nu ka { nextUse := nu, backIn := (right.backoff.take right.length).take nu } := by
      refine ⟨Nat.le_refl _, by have := I.hN; show ka + 0 + 1 + nu ≤ a.order; omega, ?_, ?_⟩
      · show ((right.backoff.take right.length).take nu).take nu = _
        rw [List.take_take, Nat.min_self, List.take_take, Nat.min_self, I.back]
        simp only [List.append_nil]
        rfl
      · intro kk h1 h2; simpa using hdeadR kk h1 h2
    have hw : (!left.full) = false := by simp [hfull]
    obtain ⟨Lw, s1, s2, s3, s4, s5, s6, s7, s8, s9⟩ :=
      extendLoop_sem H R C ka ka (by simp) (by omega) (right.backoff.take right.length) I0 (!left.full) (fun hc => by rw [hw] at hc; cases hc)
    have hLw : Lw = ka := s3 hw
    unfold revealAfter
    dsimp only
    rw [I.words, hps]
    generalize extendLoop T R ka (hR.take nu) (right.backoff.take right.length)
      (((List.range (ka+1)).map (fun i => pre A i ++ [])).drop ka) (!left.full) = v at s4 s7 s8 s9
    simp only [Bool.false_eq_true, if_false, hfull, if_true]
    have hnu' : v.nextUse ≤ nu := s7.nu_le
    have hdone : v.adjust = score a (gm1 A ka ++ hR) A[ka] - R (pre A ka) := by
      rw [s8, hLw, Nat.sub_self]
      have e1 : ka + 1 - ka = 1 := by omega
      rw [e1]; simp only [dsum, doneTerm, List.append_nil]
      rw [getD_getElem _ _ hkaA]; grind
    have hsc : v.adjust + R (pre A ka) = score a ((M ++ A.take ka).reverse ++ bw.take kb) A[ka] := by
      rw [hdone, hFrev, List.append_assoc, ← hcur]
      have := score_cut H A[ka] (gm1 A ka) hR nu (M.length + kb) I.nu_le (fun kk h1 h2 => hdeadR kk h1 h2)
      rw [this]; grind
    refine ⟨Lk, ⟨by omega, by rw [I.ptrs]; exact hptrsF Lk I.Lk_le, fun i hi => by rw [hpreF i (by have := I.Lk_le; omega)]; exact I.xl i hi,
      by rw [hFs]; simp; have := I.Lk_le; omega, I.bound, ?_, by show v.nextUse ≤ _; have := I.nu_le; omega, ?_,
      by have := s7.hN; simpa using this, ?_, (fun hc => by rw [hfull] at hc; cases hc), fun _ => ⟨?_, ?_⟩⟩⟩
    · rw [hpsumA, ← hscoreDone _ hsc]
      have := I.score
      grind
    · show ((hR.take nu).take v.nextUse).take v.nextUse = hR.take v.nextUse
      rw [List.take_take, Nat.min_self, List.take_take, Nat.min_eq_left hnu']
    · show (v.backIn.take v.nextUse).take v.nextUse = _
      rw [List.take_take, Nat.min_self, s7.back]
      simp only [List.append_nil]
      rfl
    · rw [hFs]; exact hcl.append_word H A[ka]
    · intro kk h1 h2; simpa using s7.dead kk h1 h2
  · have hopen : left.full = false := by simpa using hfull
    obtain ⟨o1, o2⟩ := I.open_ hopen
    have hw : (!left.full) = true := by simp [hopen]
    -- in open mode everything revealed so far is offered: the history is `M.reverse ++ bw.take kb`
    let hc := M.reverse ++ bw.take kb
    have hcl : hc.length = M.length + kb := by simp [hc, hPl]
    have hnuc : nu = hc.length := by rw [hcl]; exact o2
    have hctake : ∀ j, j ≤ M.length + kb → hR.take j = hc.take j := by
      intro j hj
      show hR.take j = (M.reverse ++ bw.take kb).take j
      rw [← hcur, List.take_take, Nat.min_eq_left hj]
    have C : LoopCtx a T A [] hc (ka+1) nu :=
      ⟨by omega, fun i hi => by simpa using GA.ptr_xl i (by omega), by have := GA.L_lt; simp; omega, by omega⟩
    have I0 : InvL a A [] hc nu ka { nextUse := nu, backIn := (right.backoff.take right.length).take nu } := by
      refine ⟨Nat.le_refl _, by have := I.hN; show ka + 0 + 1 + nu ≤ a.order; omega, ?_, fun kk h1 h2 => by
        have h1' : nu < kk := h1
        omega⟩
      show ((right.backoff.take right.length).take nu).take nu = _
      rw [List.take_take, Nat.min_self, List.take_take, Nat.min_self, I.back]
      apply List.map_congr_left
      intro j hj
      have hj' : j < nu := by simpa using hj
      rw [hctake (j+1) (by omega)]; simp
    obtain ⟨Lw, s1, s2, s3, s4, s5, s6, s7, s8, s9⟩ :=
      extendLoop_sem H R C ka ka (by simp) (by omega) (right.backoff.take right.length) I0 (!left.full) (fun _ => hnuc)
    unfold revealAfter
    dsimp only
    rw [I.words, hps, hctake nu (by omega)]
    generalize extendLoop T R ka (hc.take nu) (right.backoff.take right.length)
      (((List.range (ka+1)).map (fun i => pre A i ++ [])).drop ka) (!left.full) = v at s4 s7 s8 s9
    simp only [Bool.false_eq_true, if_false, hopen]
    have hnu' : v.nextUse ≤ nu := s7.nu_le
    have hLwk : Lw = ka ∨ Lw = ka + 1 := by omega
    have hext : pre A ka ++ hc = pre (M ++ A.take (ka+1)) (M.length + ka) ++ bw.take kb := by
      have hpreA : pre (A.take (ka+1)) ka = pre A ka := by unfold pre; rw [List.take_take, Nat.min_self]
      rw [pre_concat M (A.take (ka+1)) ka (by rw [List.length_take]; omega), hpreA, List.append_assoc]
    have hwords' : ((hc.take nu).take v.nextUse).take v.nextUse = hR.take v.nextUse := by
      rw [List.take_take, Nat.min_self, List.take_take, Nat.min_eq_left hnu', hctake v.nextUse (by omega)]
    have hback' : (v.backIn.take v.nextUse).take v.nextUse =
        (List.range v.nextUse).map (fun j => a.boW (gm1 A (ka+1) ++ hR.take (j+1))) := by
      rw [List.take_take, Nat.min_self, s7.back]
      apply List.map_congr_left
      intro j hj
      have hj' : j < v.nextUse := by simpa using hj
      rw [hctake (j+1) (by omega)]; simp
    have hN' : ka + 1 + 1 + v.nextUse ≤ a.order := by have := s7.hN; simpa using this
    -- the new left state
    have hptrs' : left.pointers ++ v.written = (List.range (M.length + Lw)).map (fun i => pre (M ++ A.take (ka+1)) i ++ bw.take kb) := by
      rw [I.ptrs, o1, hFl, hptrsF (M.length + ka) (by omega), s4]
      rcases hLwk with h | h
      · rw [h, List.drop_eq_nil_of_le (by simp)]; simp
      · rw [h]
        have e : M.length + (ka + 1) = (M.length + ka) + 1 := by omega
        have hw1 : ((List.range (ka+1)).drop ka) = [ka] := by
          rw [List.range_succ, List.drop_append_of_le_length (by simp), List.drop_eq_nil_of_le (by simp)]
          rfl
        rw [hw1, e, List.range_succ, List.map_append]
        simp only [List.map_cons, List.map_nil, List.append_nil]
        rw [hext]
    have hxl' : ∀ i, i < M.length + Lw → T.xl (pre (M ++ A.take (ka+1)) i ++ bw.take kb) = true := by
      intro i hi
      by_cases hlt : i < M.length + ka
      · rw [hpreF i (by omega)]; exact I.xl i (by omega)
      · have hi' : i = M.length + ka := by omega
        have hLw' : Lw = ka + 1 := by omega
        have := s5 ka (Nat.le_refl _) (by omega)
        rw [hi', ← hext]; simpa using this
    have hbound' : M.length + Lw + kb ≤ a.order - 1 := by
      rcases hLwk with h | h
      · rw [h]; have := I.bound; omega
      · have := s6 (by omega); rw [hcl] at this; simp only [List.length_nil, Nat.add_zero] at this; omega
    have hscore' : pM + psum R A [] (ka+1) + (acc + v.adjust) =
        psum R (M ++ A.take (ka+1)) (bw.take kb) (M.length + Lw) +
          specSeq a (gm1 (M ++ A.take (ka+1)) (M.length + Lw) ++ bw.take kb) ((M ++ A.take (ka+1)).drop (M.length + Lw)) := by
      have hsc := I.score
      rw [o1, hFl] at hsc
      rcases hLwk with h | h
      · -- finalised
        have hdone : v.adjust + R (pre A ka) = score a ((M ++ A.take ka).reverse ++ bw.take kb) A[ka] := by
          rw [s8, h, Nat.sub_self]
          have e1 : ka + 1 - ka = 1 := by omega
          rw [e1]; simp only [dsum, doneTerm, List.append_nil]
          rw [getD_getElem _ _ hkaA, hFrev, List.append_assoc]; grind
        have := hscoreDone _ hdone
        rw [o1, hFl] at this
        rw [h, hpsumA, ← this]; grind
      · -- pushed
        have hopenT : v.adjust + R (pre A ka) = R (pre A ka ++ hc) := by
          rw [s8, h]
          have e1 : ka + 1 - ka = 1 := by omega
          rw [e1, Nat.sub_self]; simp only [dsum, openTerm, List.append_nil]; grind
        have e : M.length + (ka + 1) = (M.length + ka) + 1 := by omega
        have hdropnil : (M ++ A.take (ka+1)).drop (M.length + ka + 1) = [] :=
          List.drop_eq_nil_of_le (by rw [List.length_append, List.length_take]; omega)
        have hdropnil0 : (M ++ A.take ka).drop (M.length + ka) = [] := List.drop_eq_nil_of_le (by rw [hFl]; omega)
        rw [hdropnil0] at hsc
        rw [h, e, hdropnil, hpsumA]
        unfold psum at hsc ⊢
        rw [dsum_snoc, ← hext]
        have hpc : dsum (fun i => R (pre (M ++ A.take (ka+1)) i ++ bw.take kb)) 0 (M.length + ka) =
            dsum (fun i => R (pre (M ++ A.take ka) i ++ bw.take kb)) 0 (M.length + ka) := by
          apply dsum_congr
          intro j _ hj
          rw [hpreF j (by omega)]
        rw [hpc]
        simp only [specSeq] at hsc ⊢
        grind
    refine ⟨M.length + Lw, ⟨by omega, hptrs', hxl', by rw [hFs]; simp [hFl]; omega, hbound', hscore',
      by show v.nextUse ≤ _; omega, hwords', hN', hback', ?_, ?_⟩⟩
    · intro hcc
      have hc' : ((v.makeFull || v.nextUse == T.order - 1) || (left.pointers ++ v.written).length == T.order - 1) = false := hcc
      simp only [Bool.or_eq_false_iff] at hc'
      obtain ⟨⟨hc1, _⟩, _⟩ := hc'
      rcases s9 with ⟨_, m2⟩ | ⟨m1, _⟩
      · obtain ⟨m3, m4⟩ := m2 hw
        exact ⟨by rw [hFs]; simp [hFl]; omega, by show v.nextUse = _; rw [m4]; exact o2⟩
      · rw [m1] at hc1; cases hc1
    · intro hcc
      have hc' : ((v.makeFull || v.nextUse == T.order - 1) || (left.pointers ++ v.written).length == T.order - 1) = true := hcc
      have hclosed : ClosedP T (M ++ A.take (ka+1)) (bw.take kb) (M.length + Lw) := by
        rcases s9 with ⟨m1, m2⟩ | ⟨_, _, m3⟩
        · obtain ⟨m3, m4⟩ := m2 hw
          right; right
          refine ⟨by rw [hFs]; simp [hFl]; omega, ?_⟩
          rw [m1] at hc'
          simp only [Bool.false_or, Bool.or_eq_true, beq_iff_eq] at hc'
          rcases hc' with hc' | hc'
          · rw [m4, hord] at hc'; omega
          · rw [hptrs'] at hc'
            simp only [List.length_map, List.length_range] at hc'
            rw [hPl, hc']
            rw [hord] at hc' ⊢
            omega
        · exact closedP_of_cnA H M A (bw.take kb) ka Lw hkaA (by omega) (by omega) m3
      refine ⟨hclosed, ?_⟩
      intro kk hk1 hk2
      have hk1' : v.nextUse < kk := hk1
      by_cases hle : kk ≤ M.length + kb
      · have := s7.dead kk hk1' (by omega)
        rw [hctake kk hle]; simpa using this
      · have e : kk = M.reverse.length + (kb + (kk - (M.length + kb))) := by simp; omega
        have hg : gm1 A (ka+1) = (A.take (ka+1)).reverse := rfl
        show ¬ live a (gm1 A (ka+1) ++ (M.reverse ++ bw).take kk)
        rw [e, take_append_len, List.take_add, hg, ← List.append_assoc, ← List.append_assoc, ← List.reverse_append]
        apply closedP_dead H hclosed
        apply take_ne_nil (by omega)
        simp only [List.length_drop]; rw [hRl] at hk2; omega


/-- the part of the one-sided invariant that the final `reveal_full` call and the assembly need -/
structure PBw (a : Arpa) (T : Table) (R : Ptr → Rat) (F : List Word) (pF : Rat) (bw : List Word) (k Lk : Nat)
    (left : LeftSt) (acc : Rat) : Prop where
  ptrs : left.pointers = (List.range Lk).map (fun i => pre F i ++ bw.take k)
  xl : ∀ i, i < Lk → T.xl (pre F i ++ bw.take k) = true
  Lk_le : Lk ≤ F.length
  bound : Lk + k ≤ a.order - 1
  score : pF + acc = psum R F (bw.take k) Lk + specSeq a (gm1 F Lk ++ bw.take k) (F.drop Lk)
  open_w : left.full = false → Lk = F.length
  closed : left.full = true → ClosedP T F (bw.take k) Lk

theorem ClosedP.append_words (H : Hyp a T) {P : List Word} {Lk : Nat} :
    ∀ (l F : List Word), ClosedP T F P Lk → ClosedP T (F ++ l) P Lk := by
  intro l
  induction l with
  | nil => intro F h; simpa using h
  | cons w l ih =>
    intro F h
    have := ih (F ++ [w]) (h.append_word H w)
    simpa using this

/-- the final `RevealAfter` call, computed: nothing is extended, the back-offs still in the residual right state are charged -/
theorem revealAfter_final (R : Ptr → Rat) (l : LeftSt) (r : State) (ptrs : List Ptr) (La : Nat) (hp : ptrs.length = La)
    (hal : (r.words.take r.length).length = r.length) :
    (revealAfter T R l r { pointers := ptrs, full := true } La).1 = (r.backoff.take r.length).sum ∧
    (revealAfter T R l r { pointers := ptrs, full := true } La).2.1.pointers = l.pointers ∧
    (revealAfter T R l r { pointers := ptrs, full := true } La).2.1.full = true := by
  have hps : ptrs.drop La = [] := List.drop_eq_nil_of_le (by omega)
  have hv : ∀ w, extendLoop T R La (r.words.take r.length) (r.backoff.take r.length) [] w =
      { adjust := 0 + unRest T R [] (0 + La + 1), nextUse := r.length, backIn := (r.backoff.take r.length).take r.length } := by
    intro w
    unfold extendLoop
    cases w <;> simp [extendLoopWrite, extendLoopUse, hal]
  unfold revealAfter
  dsimp only
  rw [hps, hv]
  simp only [unRest, List.map_nil, List.sum_nil, List.take_take, Nat.min_self]
  cases hl : l.full <;> simp <;> grind

/-- **the final `RevealAfter` call** (`after.full`) and the passage to the fragment `M ++ A` -/
theorem finalA (H : Hyp a T) (R : Ptr → Rat) {M A : List Word} {La : Nat} {cA : Chart} {pA pM : Rat}
    (GA : FragC a T R A La cA pA) {bw : List Word} {kb Lk : Nat} {l : LeftSt} {r : State} {acc : Rat}
    (hkb : kb ≤ bw.length) (hBdead : ∀ k, kb < k → k ≤ bw.length → ¬ live a (bw.take k))
    (I : PT a T R M A pM bw kb La Lk l r acc) :
    PBw a T R (M ++ A) (pM + pA) bw kb Lk
      (if cA.left.full then (revealAfter T R l r { pointers := cA.left.pointers, full := true } La).2.1 else l)
      (if cA.left.full then acc + (revealAfter T R l r { pointers := cA.left.pointers, full := true } La).1 else acc) := by
  have hord : T.order = a.order := H.tf.order_eq
  have hN2 := H.wf.order_ge
  have hLa := GA.L_le
  have hkal : (A.take La).length = La := by rw [List.length_take]; omega
  have hFl : (M ++ A.take La).length = M.length + La := by rw [List.length_append, hkal]
  have hFrev : (M ++ A.take La).reverse = gm1 A La ++ M.reverse := by rw [List.reverse_append]; rfl
  have hsplitF : M ++ A = (M ++ A.take La) ++ A.drop La := by rw [List.append_assoc, List.take_append_drop]
  have hPl : (bw.take kb).length = kb := by rw [List.length_take]; omega
  have hpA : pA = psum R A [] La + specSeq a (gm1 A La) (A.drop La) := by rw [GA.prob_eq, psum_nil]; rfl
  have hpreF : ∀ i, i < (M ++ A.take La).length → pre (M ++ A) i = pre (M ++ A.take La) i := by
    intro i hi; rw [hsplitF, pre_append _ _ hi]
  have hptrsF : (List.range Lk).map (fun i => pre (M ++ A.take La) i ++ bw.take kb) = (List.range Lk).map (fun i => pre (M ++ A) i ++ bw.take kb) := by
    apply List.map_congr_left
    intro i hi
    have : i < Lk := by simpa using hi
    rw [hpreF i (by have := I.Lk_le; omega)]
  have hxlF : ∀ i, i < Lk → T.xl (pre (M ++ A) i ++ bw.take kb) = true := by
    intro i hi; rw [hpreF i (by have := I.Lk_le; omega)]; exact I.xl i hi
  have hLkF : Lk ≤ (M ++ A).length := by have := I.Lk_le; rw [hsplitF]; simp; omega
  -- the score of `M ++ A` from the score of the incorporated part plus the tail of `A`
  have hscoreF : ∀ tail : Rat, tail = specSeq a ((M ++ A.take La).reverse ++ bw.take kb) (A.drop La) →
      psum R (M ++ A.take La) (bw.take kb) Lk + specSeq a (gm1 (M ++ A.take La) Lk ++ bw.take kb) ((M ++ A.take La).drop Lk) + tail =
      psum R (M ++ A) (bw.take kb) Lk + specSeq a (gm1 (M ++ A) Lk ++ bw.take kb) ((M ++ A).drop Lk) := by
    intro tail ht
    rw [hsplitF, psum_append R _ _ _ Lk I.Lk_le, gm1_append _ _ Lk I.Lk_le, List.drop_append_of_le_length I.Lk_le, specSeq_append]
    have : ((M ++ A.take La).drop Lk).reverse ++ (gm1 (M ++ A.take La) Lk ++ bw.take kb) = (M ++ A.take La).reverse ++ bw.take kb := by
      rw [← List.append_assoc]; congr 1
      unfold gm1; rw [← List.reverse_append, List.take_append_drop]
    rw [this, ht]; grind
  by_cases hfA : cA.left.full = true
  · simp only [hfA, if_true]
    have hal : (r.words.take r.length).length = r.length := by
      rw [I.words, List.length_take]
      have := I.nu_le
      simp only [List.length_append, List.length_reverse]; omega
    have hlenA : cA.left.pointers.length = La := by rw [GA.ptrs]; simp
    obtain ⟨f1, f2, f3⟩ := revealAfter_final (T := T) R l r cA.left.pointers La hlenA hal
    let hR := M.reverse ++ bw
    have hRl : hR.length = M.length + bw.length := by simp [hR]
    have hnuR : r.length ≤ hR.length := by have := I.nu_le; omega
    -- dead beyond what the residual right state holds
    have hD : ∀ kk, r.length < kk → kk ≤ hR.length → ¬ live a (gm1 A La ++ hR.take kk) := by
      intro kk h1 h2
      by_cases hl : l.full = true
      · exact (I.closed hl).2 kk h1 h2
      · obtain ⟨_, o2⟩ := I.open_ (by simpa using hl)
        have e : kk = M.reverse.length + (kk - M.length) := by simp; omega
        show ¬ live a (gm1 A La ++ (M.reverse ++ bw).take kk)
        rw [e, take_append_len, ← List.append_assoc]
        have hk' : kb < kk - M.length := by omega
        have hne : bw.take (kk - M.length) ≠ [] := take_ne_nil (by omega) (by omega)
        exact H.dead_cons _ _ hne (hBdead _ hk' (by omega))
    have hadj : (r.backoff.take r.length).sum = rsum (fun j => a.boW (gm1 A La ++ hR.take (j+1))) 0 r.length := by
      rw [I.back, sum_range_map]
    -- dropping the before-words that were never offered
    have hcutR : ∀ ws, specSeq a (gm1 A La ++ hR) ws = specSeq a ((M ++ A.take La).reverse ++ bw.take kb) ws := by
      intro ws
      have e : gm1 A La ++ hR = ((M ++ A.take La).reverse ++ bw.take kb) ++ bw.drop kb := by
        rw [hFrev]; simp only [hR, List.append_assoc, List.take_append_drop]
      rw [e]
      apply specSeq_dead H
      intro k hk1 hk2
      have : (M ++ A.take La).reverse ++ bw.take kb ++ (bw.drop kb).take k = (M ++ A.take La).reverse ++ bw.take (kb + k) := by
        rw [List.append_assoc, ← List.take_add]
      rw [this]
      simp only [List.length_drop] at hk2
      have hne : bw.take (kb + k) ≠ [] := take_ne_nil (by omega) (by omega)
      exact H.dead_cons _ _ hne (hBdead _ (by omega) (by omega))
    have htail : specSeq a (gm1 A La) (A.drop La) + (r.backoff.take r.length).sum =
        specSeq a ((M ++ A.take La).reverse ++ bw.take kb) (A.drop La) := by
      rw [← hcutR, hadj]
      rcases GA.closed hfA with ⟨h1, h2⟩ | ⟨h1, _, j, hj1, hj2, h3⟩ | ⟨h1, h2⟩
      · exact (tail_a H A hR La r.length h1 (by have := I.hN; omega) hnuR h2 hD).symm
      · rw [h1, List.drop_eq_nil_of_le (Nat.le_refl _)]
        simp only [specSeq]
        have hz : rsum (fun j => a.boW (gm1 A A.length ++ hR.take (j+1))) 0 r.length = 0 := by
          apply rsum_zero
          intro i _ hi
          apply boW_zero_of_dead
          have hg : gm1 A A.length = A.reverse := by unfold gm1; rw [List.take_of_length_le (Nat.le_refl _)]
          rw [hg]
          exact closed_dead H (GA.closed hfA) hLa _ (take_ne_nil (by omega) (by omega))
        rw [hz]; grind
      · rw [h1, List.drop_eq_nil_of_le (Nat.le_refl _)]
        simp only [specSeq]
        have hz : rsum (fun j => a.boW (gm1 A A.length ++ hR.take (j+1))) 0 r.length = 0 := by
          apply rsum_zero
          intro i _ hi
          apply boW_zero_of_dead
          have hg : gm1 A A.length = A.reverse := by unfold gm1; rw [List.take_of_length_le (Nat.le_refl _)]
          rw [hg]
          exact closed_dead H (GA.closed hfA) hLa _ (take_ne_nil (by omega) (by omega))
        rw [hz]; grind
    refine ⟨by rw [f2, I.ptrs]; exact hptrsF, hxlF, hLkF, I.bound, ?_, (fun hc => by rw [f3] at hc; cases hc), fun _ => ?_⟩
    · rw [f1, ← hscoreF _ htail, hpA]
      have := I.score
      grind
    · by_cases hl : l.full = true
      · have := (I.closed hl).1
        rw [hsplitF]
        exact ClosedP.append_words H _ _ this
      · obtain ⟨o1, o2⟩ := I.open_ (by simpa using hl)
        rcases GA.closed hfA with ⟨h1, h2⟩ | ⟨h1, _, j, hj1, hj2, h3⟩ | ⟨h1, h2⟩
        · left
          refine ⟨by rw [o1, hFl]; simp; omega, ?_⟩
          intro y
          rw [o1, hFl, pre_concat M A La h1]
          cases hws : M.reverse ++ bw.take kb ++ [y] with
          | nil => simp at hws
          | cons z rest =>
            have : pre A La ++ M.reverse ++ bw.take kb ++ [y] = (pre A La ++ [z]) ++ rest := by
              have e : pre A La ++ M.reverse ++ bw.take kb ++ [y] = pre A La ++ (M.reverse ++ bw.take kb ++ [y]) := by
                simp only [List.append_assoc]
              rw [e, hws]; simp
            rw [this]
            exact lookup_none_extend H.ok _ _ (by simp) (h2 z)
        · right; left
          have hAt : A.take La = A := by rw [h1]; exact List.take_of_length_le (Nat.le_refl _)
          refine ⟨by rw [o1, hAt], j, hj1, by simp; omega, ?_⟩
          rw [List.reverse_append, List.append_assoc, List.take_append_of_le_length (by simpa using hj2)]; exact h3
        · right; right
          have hAt : A.take La = A := by rw [h1]; exact List.take_of_length_le (Nat.le_refl _)
          refine ⟨by rw [o1, hAt], ?_⟩
          have := I.bound
          rw [o1, hFl, h2] at this
          rw [o1, hFl, h2, hPl, hord]
          rw [hord] at this
          omega
  · have hfA' : cA.left.full = false := by simpa using hfA
    simp only [hfA', Bool.false_eq_true, if_false]
    obtain ⟨h1, _⟩ := GA.open_ hfA'
    have hAt : A.take La = A := by rw [h1]; exact List.take_of_length_le (Nat.le_refl _)
    have hAd : A.drop La = [] := by rw [h1]; exact List.drop_eq_nil_of_le (Nat.le_refl _)
    have hp : pA = psum R A [] La := by rw [hpA, hAd]; simp only [specSeq]; grind
    refine ⟨by rw [I.ptrs, hAt], fun i hi => by have := I.xl i hi; rwa [hAt] at this, by have := I.Lk_le; rwa [hAt] at this, I.bound, ?_,
      fun hc => by have := (I.open_ hc).1; rwa [hAt] at this, fun hc => by have := (I.closed hc).1; rwa [hAt] at this⟩
    have := I.score
    rw [hAt] at this
    rw [hp, ← this]


/-- **the final `RevealBefore` call** (`reveal_full`, if the preceding fragment's left state is full) and the assembly of
the canonical description of `B ++ F` -/
theorem finish_before (H : Hyp a T) (R : Ptr → Rat) {B F : List Word} {Lb : Nat} {cB : Chart} {pB pF : Rat}
    (GB : FragC a T R B Lb cB pB) {Lk : Nat} {l : LeftSt} {acc : Rat} (r : State)
    (I : PBw a T R F pF B.reverse cB.right.length Lk l acc) :
    ∃ L' c', c'.left.pointers = cB.left.pointers ++
        (if cB.left.full then (revealBefore T R cB.right cB.right.length true l r).2.1 else l).pointers ∧
      FragC a T R (B ++ F) L' c' (pB + pF +
        (if cB.left.full then acc + (revealBefore T R cB.right cB.right.length true l r).1 else acc)) := by
  have hord : T.order = a.order := H.tf.order_eq
  have hN2 := H.wf.order_ge
  have sfB := GB.right_for
  have hrev : (B ++ F).reverse = F.reverse ++ B.reverse := List.reverse_append
  have hnb : cB.right.length ≤ B.reverse.length := sfB.len_le_h
  by_cases hfB : cB.left.full = true
  · -- `reveal_full`: everything still pending is finalised
    simp only [hfB, if_true]
    let P := B.reverse.take cB.right.length
    have hPl : P.length = cB.right.length := by simp only [P, List.length_take]; omega
    have C : LoopCtx a T F P [] Lk 0 := ⟨I.Lk_le, I.xl, by rw [hPl]; exact I.bound, Nat.le_refl _⟩
    have I0 : InvL a F P [] 0 0 { nextUse := 0, backIn := ([] : List Rat).take 0 } := by
      refine ⟨Nat.le_refl _, by rw [hPl]; show 0 + cB.right.length + 1 + 0 ≤ a.order; have := sfB.len_le_N; omega, by simp,
        fun kk h1 h2 => by simp at h2; omega⟩
    obtain ⟨Lw, s1, s2, s3, s4, s5, s6, s7, s8, s9⟩ :=
      extendLoop_sem H R C cB.right.length 0 (by rw [hPl]; simp) (Nat.zero_le _) [] I0 false (fun hc => by cases hc)
    have hLw : Lw = 0 := s3 rfl
    have hadd : (cB.right.words.take cB.right.length).drop cB.right.length = [] :=
      List.drop_eq_nil_of_le (by simp; exact Nat.min_le_left _ _)
    have hbo : (cB.right.backoff.take cB.right.length).drop cB.right.length = [] :=
      List.drop_eq_nil_of_le (by simp; exact Nat.min_le_left _ _)
    have hptrs0 : l.pointers = ((List.range Lk).map (fun i => pre F i ++ P)).drop 0 := by rw [I.ptrs]; rfl
    have hres : (revealBefore T R cB.right cB.right.length true l r).2.1.pointers = [] ∧
        (revealBefore T R cB.right cB.right.length true l r).1 =
          (extendLoop T R cB.right.length [] [] (((List.range Lk).map (fun i => pre F i ++ P)).drop 0) false).adjust +
            ((extendLoop T R cB.right.length [] [] (((List.range Lk).map (fun i => pre F i ++ P)).drop 0) false).backIn.take
              (extendLoop T R cB.right.length [] [] (((List.range Lk).map (fun i => pre F i ++ P)).drop 0) false).nextUse).sum * (if l.full then 1 else 0) := by
      unfold revealBefore
      dsimp only
      rw [hadd, hbo, hptrs0]
      cases hl : l.full <;> simp <;> grind
    have htk : ([] : List Word).take 0 = [] := rfl
    rw [htk] at s7 s8
    have hnu0 : (extendLoop T R cB.right.length [] [] (((List.range Lk).map (fun i => pre F i ++ P)).drop 0) false).nextUse = 0 := by
      have := s7.nu_le; omega
    have hadj : (revealBefore T R cB.right cB.right.length true l r).1 = dsum (doneTerm a R F P []) 0 Lk := by
      rw [hres.2, s8, hLw, hnu0]
      simp [dsum] <;> grind
    -- the total
    have hsplit := specSeq_drop_split (a := a) F P Lk 0 (by have := I.Lk_le; omega)
    simp only [Nat.zero_add, List.drop_zero] at hsplit
    have hg0 : gm1 F 0 = [] := by simp [gm1]
    rw [hg0, List.nil_append] at hsplit
    have hd : dsum (doneTerm a R F P []) 0 Lk =
        dsum (fun i => score a (gm1 F i ++ P) (F.getD i 0)) 0 Lk - psum R F P Lk := by
      unfold psum
      rw [← dsum_sub]
      apply dsum_congr
      intro j _ _
      simp only [doneTerm, List.append_nil]
    have htot : pF + (acc + (revealBefore T R cB.right cB.right.length true l r).1) = specSeq a B.reverse F := by
      have hsc : pF + acc = psum R F P Lk + specSeq a (gm1 F Lk ++ P) (F.drop Lk) := I.score
      have hdead : specSeq a (P ++ B.reverse.drop cB.right.length) F = specSeq a P F := by
        apply specSeq_dead H
        intro kk hk1 hk2
        have : P ++ (B.reverse.drop cB.right.length).take kk = B.reverse.take (cB.right.length + kk) := by
          simp only [P]; rw [List.take_add]
        rw [this]
        simp only [List.length_drop] at hk2
        exact sfB.dead _ (by omega) (by omega)
      have hPB : P ++ B.reverse.drop cB.right.length = B.reverse := List.take_append_drop _ _
      rw [hPB] at hdead
      rw [hdead, hsplit, hadj, hd]
      grind
    obtain ⟨sR, hsR1, hsR2⟩ := stateFor_exists H (B ++ F).reverse
    refine ⟨Lb, { left := cB.left, right := sR }, by rw [hres.1]; simp, ⟨hsR1, hsR2, by simp; have := GB.L_le; omega, GB.L_lt, ?_, ?_, ?_,
      (fun hc => by rw [hfB] at hc; cases hc), fun _ => (GB.closed hfB).append H F⟩⟩
    · show cB.left.pointers = _
      rw [GB.ptrs]
      apply List.map_congr_left
      intro i hi
      have : i < Lb := by simpa using hi
      rw [pre_append B F (by have := GB.L_le; omega)]
    · intro i hi; rw [pre_append B F (by have := GB.L_le; omega)]; exact GB.ptr_xl i hi
    · have : pB + pF + (acc + (revealBefore T R cB.right cB.right.length true l r).1) = pB + specSeq a B.reverse F := by
        rw [← htot]; grind
      show pB + pF + (acc + (revealBefore T R cB.right cB.right.length true l r).1) = _
      rw [this, GB.prob_eq, restSum_append R B F Lb GB.L_le, List.take_append_of_le_length GB.L_le,
        List.drop_append_of_le_length GB.L_le, specSeq_append]
      have : (B.drop Lb).reverse ++ (B.take Lb).reverse = B.reverse := by
        rw [← List.reverse_append, List.take_append_drop]
      rw [this]; grind
  · -- the preceding fragment is open: all its words were revealed
    have hfB' : cB.left.full = false := by simpa using hfB
    simp only [hfB', Bool.false_eq_true, if_false]
    obtain ⟨hLb, hnbB⟩ := GB.open_ hfB'
    have hP : B.reverse.take cB.right.length = B.reverse := List.take_of_length_le (by rw [hnbB]; simp)
    have hpB : pB = restSum R B B.length := by
      rw [GB.prob_eq, hLb, List.drop_eq_nil_of_le (Nat.le_refl _)]; simp only [specSeq]; grind
    have hbound : B.length + Lk ≤ a.order - 1 := by have := I.bound; omega
    -- the right state of the description
    have hright : ∃ sR, StateFor a (B ++ F).reverse sR ∧ NormS sR ∧ (l.full = false → sR.length = (B ++ F).length) := by
      by_cases hl : l.full = true
      · obtain ⟨sR, h1, h2⟩ := stateFor_exists H (B ++ F).reverse
        exact ⟨sR, h1, h2, fun hc => by rw [hl] at hc; cases hc⟩
      · have o1 := I.open_w (by simpa using hl)
        -- everything is in the left state: the fragment is short enough for a right state holding all its words
        have hlen : (B ++ F).reverse.length ≤ a.order - 1 := by simp; have := I.bound; omega
        refine ⟨{ length := (B ++ F).reverse.length, words := (B ++ F).reverse,
                  backoff := (List.range (B ++ F).reverse.length).map (fun j => a.boW ((B ++ F).reverse.take (j+1))) },
          ⟨Nat.le_refl _, hlen, by simp, by show List.take _ _ = _; rw [List.take_of_length_le (by simp)], fun kk h1 h2 => by
            have h1' : (B ++ F).reverse.length < kk := h1
            omega⟩, ⟨rfl, by simp⟩, fun _ => by simp; omega⟩
    obtain ⟨sR, hsR1, hsR2, hsR3⟩ := hright
    refine ⟨B.length + Lk, { left := { pointers := cB.left.pointers ++ l.pointers, full := l.full }, right := sR }, rfl,
      ⟨hsR1, hsR2, by simp; have := I.Lk_le; omega, hbound, ?_, ?_, ?_, ?_, ?_⟩⟩
    · show cB.left.pointers ++ l.pointers = _
      rw [GB.ptrs, hLb, I.ptrs, hP]
      exact ptrs_concat B F Lk I.Lk_le
    · intro i hi
      by_cases hlt : i < B.length
      · rw [pre_append B F hlt]; exact GB.ptr_xl i (by omega)
      · obtain ⟨i', rfl⟩ : ∃ i', i = B.length + i' := ⟨i - B.length, by omega⟩
        rw [pre_concat B F i' (by have := I.Lk_le; omega)]
        have := I.xl i' (by omega)
        rwa [hP] at this
    · have hsc : pF + acc = psum R F B.reverse Lk + specSeq a (gm1 F Lk ++ B.reverse) (F.drop Lk) := by
        have := I.score; rwa [hP] at this
      rw [restSum_concat R B F Lk I.Lk_le, take_append_len, List.reverse_append, hSum_eq_psum]
      have : (B ++ F).drop (B.length + Lk) = F.drop Lk := by rw [List.drop_append]; simp
      rw [this, hpB]
      unfold gm1 at hsc
      grind
    · intro hc
      exact ⟨by have := I.open_w hc; simp; omega, hsR3 hc⟩
    · intro hc
      have hcl := I.closed hc
      rw [hP] at hcl
      rcases hcl with ⟨h1, h2⟩ | ⟨h1, j, hj1, hj2, h3⟩ | ⟨h1, h2⟩
      · left
        exact ⟨by simp; omega, by rw [pre_concat B F Lk h1]; exact h2⟩
      · right; left
        refine ⟨by simp; omega, by simp only [List.length_reverse] at hj2; omega, j, hj1, by simp only [List.length_reverse] at hj2; simp; omega, ?_⟩
        rw [hrev]; exact h3
      · right; right
        simp only [List.length_reverse] at h2
        exact ⟨by simp; omega, by omega⟩



theorem revealSteps_inv (H : Hyp a T) (R : Ptr → Rat) {B M A : List Word} {Lb La : Nat} {cB cA : Chart} {pB pA pM : Rat}
    (GB : FragC a T R B Lb cB pB) (GA : FragC a T R A La cA pA) :
    ∀ (steps : List Bool) (kb ka Lk : Nat) (l : LeftSt) (r : State) (acc : Rat),
      kb ≤ cB.right.length → ka ≤ La → PT a T R M A pM B.reverse kb ka Lk l r acc →
      ∃ Lk', (revealSteps T R cB cA steps (kb, ka, l, r, acc)).1 ≤ cB.right.length ∧
        (revealSteps T R cB cA steps (kb, ka, l, r, acc)).2.1 ≤ La ∧
        PT a T R M A pM B.reverse (revealSteps T R cB cA steps (kb, ka, l, r, acc)).1
          (revealSteps T R cB cA steps (kb, ka, l, r, acc)).2.1 Lk'
          (revealSteps T R cB cA steps (kb, ka, l, r, acc)).2.2.1
          (revealSteps T R cB cA steps (kb, ka, l, r, acc)).2.2.2.1
          (revealSteps T R cB cA steps (kb, ka, l, r, acc)).2.2.2.2 := by
  have hlenA : cA.left.length = La := by simp [LeftSt.length, GA.ptrs]
  have hnb : cB.right.length ≤ B.reverse.length := GB.right_for.len_le_h
  intro steps
  induction steps with
  | nil => intro kb ka Lk l r acc h1 h2 I; exact ⟨Lk, h1, h2, I⟩
  | cons b rest ih =>
    intro kb ka Lk l r acc h1 h2 I
    cases b with
    | true =>
      simp only [revealSteps]
      by_cases hk : kb < cB.right.length
      · simp only [hk, if_true]
        obtain ⟨Lk', I'⟩ := revealBefore_stepT H R GB I hk
        exact ih (kb+1) ka Lk' _ _ _ (by omega) h2 I'
      · simp only [hk, if_false]
        exact ih kb ka Lk l r acc h1 h2 I
    | false =>
      simp only [revealSteps, hlenA]
      by_cases hk : ka < La
      · simp only [hk, if_true]
        obtain ⟨Lk', I'⟩ := revealAfter_stepT H R GA (by omega) I hk
        exact ih kb (ka+1) Lk' _ _ _ h1 (by omega) I'
      · simp only [hk, if_false]
        exact ih kb ka Lk l r acc h1 h2 I

/-- **the two-sided protocol**: `RevealBefore` and `RevealAfter` calls interleaved in any order (`steps`) until both sides
are completely revealed, followed by the two final calls: the accumulated adjustment is the score of the whole minus
the scores of the three parts, and the left pointers are those of the whole beyond the preceding fragment's. -/
theorem revealBoth_frag (H : Hyp a T) (R : Ptr → Rat) {B M A : List Word} {Lb Lm La : Nat} {cB cM cA : Chart} {pB pM pA : Rat}
    (GB : FragC a T R B Lb cB pB) (GM : FragC a T R M Lm cM pM) (GA : FragC a T R A La cA pA) (steps : List Bool)
    (hall : (revealSteps T R cB cA steps (0, 0, cM.left, cM.right, 0)).1 = cB.right.length ∧
            (revealSteps T R cB cA steps (0, 0, cM.left, cM.right, 0)).2.1 = cA.left.length) :
    ∃ L' c', c'.left.pointers = cB.left.pointers ++ (revealBoth T R cB cM cA steps).1.pointers ∧
      FragC a T R (B ++ (M ++ A)) L' c' (pB + (pM + pA) + (revealBoth T R cB cM cA steps).2.2) := by
  have hlenA : cA.left.length = La := by simp [LeftSt.length, GA.ptrs]
  have sfB := GB.right_for
  have hnb : cB.right.length ≤ B.reverse.length := sfB.len_le_h
  obtain ⟨Lk, _, _, I⟩ := revealSteps_inv H R GB GA (M := M) (pM := pM) steps 0 0 Lm cM.left cM.right 0 (Nat.zero_le _) (Nat.zero_le _)
    (PT.init H R GM A B.reverse)
  obtain ⟨hb, ha⟩ := hall
  unfold revealBoth
  generalize revealSteps T R cB cA steps (0, 0, cM.left, cM.right, 0) = st at I hb ha
  obtain ⟨kb, ka, l, r, acc⟩ := st
  simp only at I hb ha
  subst hb
  rw [hlenA] at ha
  subst ha
  have IA := finalA H R GA hnb (fun k h1 h2 => sfB.dead k h1 h2) I
  rw [hlenA]
  by_cases hfA : cA.left.full = true
  · simp only [hfA, if_true] at IA ⊢
    have fb := finish_before H R GB (revealAfter T R l r { pointers := cA.left.pointers, full := true } ka).2.2 IA
    by_cases hfB : cB.left.full = true
    · simp only [hfB, if_true] at fb ⊢; exact fb
    · have hfB' : cB.left.full = false := by simpa using hfB
      simp only [hfB', Bool.false_eq_true, if_false] at fb ⊢; exact fb
  · have hfA' : cA.left.full = false := by simpa using hfA
    simp only [hfA', Bool.false_eq_true, if_false] at IA ⊢
    have fb := finish_before H R GB r IA
    by_cases hfB : cB.left.full = true
    · simp only [hfB, if_true] at fb ⊢; exact fb
    · have hfB' : cB.left.full = false := by simpa using hfB
      simp only [hfB', Bool.false_eq_true, if_false] at fb ⊢; exact fb

end KV.Left
