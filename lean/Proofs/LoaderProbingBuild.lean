import Model.LoaderArpa
import Proofs.ProbingBuildClosed
/-! Simulation between builder `lm`'s fold-level model of lm/search_hashed.cc (`KV.ProbingBuild`, real probing tables) and the
loader model's probing verdict (`KV.LoaderArpa.probingRun`, a list of keys): the tables of `ProbingBuild` hold exactly the keys
of the loader model, so capacity and missing-context errors arise at the same lines.  Core only. -/
namespace KV.LoaderPB
open KV.Arpa KV.ProbingBuild KV.Probing KV.ProbingLM

abbrev Key := List Word

/-- number of keys of length `m` -/
def cnt (keys : List Key) (m : Nat) : Nat := (keys.filter (fun g => g.length == m)).length

theorem cnt_cons_same (k : Key) (keys : List Key) (m : Nat) (h : k.length = m) : cnt (k :: keys) m = cnt keys m + 1 := by
  simp [cnt, List.filter_cons, h]

theorem cnt_cons_other (k : Key) (keys : List Key) (m : Nat) (h : k.length ≠ m) : cnt (k :: keys) m = cnt keys m := by
  simp [cnt, List.filter_cons, h]

theorem cnt_append (a b : List Key) (m : Nat) : cnt (a ++ b) m = cnt a m + cnt b m := by
  simp [cnt, List.filter_append]

/-- the loader model's `findLower` only adds keys in front -/
theorem findLower_suffix (g : Key) : ∀ (j : Nat) (keys : List Key), ∃ pre, KV.LoaderArpa.findLower g j keys = pre ++ keys := by
  intro j
  induction j with
  | zero => intro keys; exact ⟨[], by simp [KV.LoaderArpa.findLower]⟩
  | succ j ih =>
    intro keys
    unfold KV.LoaderArpa.findLower
    split
    · exact ⟨[], rfl⟩
    · split
      · exact ⟨[], rfl⟩
      · obtain ⟨pre, hp⟩ := ih (g.take (j + 1) :: keys)
        exact ⟨pre ++ [g.take (j + 1)], by rw [hp]; simp⟩

theorem probingStep_suffix (order : Nat) (st : List Key × Bool) (g : Key) :
    ∃ pre, (KV.LoaderArpa.probingStep order st g).1 = pre ++ st.1 := by
  unfold KV.LoaderArpa.probingStep
  simp only
  split
  · obtain ⟨pre, hp⟩ := findLower_suffix g (g.length - 1) (g :: st.1)
    exact ⟨pre ++ [g], by rw [hp]; simp⟩
  · exact findLower_suffix g (g.length - 1) st.1

theorem fold_suffix (order : Nat) : ∀ (gs : List Key) (st : List Key × Bool),
    ∃ pre, (gs.foldl (KV.LoaderArpa.probingStep order) st).1 = pre ++ st.1 := by
  intro gs
  induction gs with
  | nil => intro st; exact ⟨[], rfl⟩
  | cons g gs ih =>
    intro st
    simp only [List.foldl_cons]
    obtain ⟨p1, h1⟩ := probingStep_suffix order st g
    obtain ⟨p2, h2⟩ := ih (KV.LoaderArpa.probingStep order st g)
    exact ⟨p2 ++ p1, by rw [h2, h1]; simp⟩

/-- the tables of `ProbingBuild`'s state hold exactly `keys` (orders 2 … N−1) and `tops` (order N), with the entry counters and
capacities the loader model computes with -/
def keysAt (N : Nat) (keys tops : List Key) (m : Nat) : List Key := if m = N then tops else keys

structure TabInv (combine : Nat → Word → Nat) (N : Nat) (caps : Nat → Nat) (keys tops : List Key) (s : St) : Prop where
  midlen : s.mid.length = N - 2
  tabs : ∀ m, 2 ≤ m → m ≤ N → ∃ M, OrdInv (tbl N s m) M ∧
    (∀ k : Key, k.length = m → (M (hashOf combine k) = none ↔ k ∉ keysAt N keys tops m)) ∧
    (tbl N s m).t.entries = cnt (keysAt N keys tops m) m ∧ (tbl N s m).t.N = caps m
  /-- no table is full: `entries_ < buckets_` (what `++entries_ >= buckets_` maintains) -/
  below : ∀ m, 2 ≤ m → m ≤ N → (tbl N s m).t.entries < (tbl N s m).t.N

/-- `FindLower` in lockstep: either both insert the same blanks, or `ProbingBuild` raises `ProbingSizeException` at an order whose
key count in the loader model reaches the capacity -/
theorem findLower_sim (combine : Nat → Word → Nat) (inj : ∀ k1 k2 : Key, hashOf combine k1 = hashOf combine k2 → k1 = k2)
    (N : Nat) (caps : Nat → Nat) (tops : List Key) (g : Key) :
    ∀ (f : Nat) (s : St) (between : List Ref) (keys : List Key), f + 1 < N → f + 1 < g.length → TabInv combine N caps keys tops s →
      (∃ s' b', KV.ProbingBuild.findLower combine g f s between = .ok (s', b') ∧
          TabInv combine N caps (KV.LoaderArpa.findLower g (f + 1) keys) tops s' ∧ s'.uni = s.uni) ∨
      (KV.ProbingBuild.findLower combine g f s between = .error .probingSize ∧
          ∃ m, 2 ≤ m ∧ m < N ∧ caps m ≤ cnt (KV.LoaderArpa.findLower g (f + 1) keys) m) := by
  intro f
  induction f with
  | zero =>
    intro s between keys _ _ inv
    left
    refine ⟨s, between ++ [.uni (g.headD 0)], by simp [KV.ProbingBuild.findLower], ?_, rfl⟩
    have : KV.LoaderArpa.findLower g 1 keys = keys := by simp [KV.LoaderArpa.findLower]
    rw [this]; exact inv
  | succ f ih =>
    intro s between keys hN hg inv
    have hm2 : 2 ≤ f + 2 := by omega
    have hmN : f + 2 ≤ N := by omega
    have hne : f + 2 ≠ N := by omega
    obtain ⟨M, oi, hmem, hent, hcap⟩ := inv.tabs (f + 2) hm2 hmN
    have htbl : tbl N s (f + 2) = s.mid.getD f default := by simp [tbl, hne]
    rw [htbl] at oi hent hcap
    have hkl : (g.take (f + 2)).length = f + 2 := by simp; omega
    have hka : keysAt N keys tops (f + 2) = keys := by simp [keysAt, hne]
    have hfl : f < s.mid.length := by rw [inv.midlen]; omega
    have mine : KV.LoaderArpa.findLower g (f + 1 + 1) keys =
        if keys.contains (g.take (f + 2)) then keys else KV.LoaderArpa.findLower g (f + 1) (g.take (f + 2) :: keys) := by
      conv => lhs; unfold KV.LoaderArpa.findLower
      have : ¬ (f + 1 + 1 < 2) := by omega
      simp only [this, ↓reduceIte]
    by_cases hin : g.take (f + 2) ∈ keys
    · -- already there: no blank
      have hM : M (hashOf combine (g.take (f + 2))) ≠ none := by
        intro hn; exact ((hmem _ hkl).mp hn) (by rw [hka]; exact hin)
      obtain ⟨i, hi⟩ := Option.ne_none_iff_exists'.mp hM
      left
      have hset : ({ s with mid := s.mid.set f (s.mid.getD f default) } : St) = s := by
        cases s
        simp only [St.mk.injEq, and_true, true_and]
        apply List.ext_getElem (by simp)
        intro n h1 h2
        by_cases hnf : f = n
        · subst hnf; simp [List.getD_eq_getElem?_getD, List.getElem?_eq_getElem h2]
        · simp [List.getElem_set, hnf]
      refine ⟨s, between ++ [.mid f i], ?_, ?_, rfl⟩
      · simp only [KV.ProbingBuild.findLower, ord_findOrInsert_found oi _ blankW i hi, bind, Except.bind, if_true, hset]
      · rw [mine]; simp [hin]; exact inv
    · have hM : M (hashOf combine (g.take (f + 2))) = none := (hmem _ hkl).mpr (by rw [hka]; exact hin)
      have hsuf := findLower_suffix g (f + 1) (g.take (f + 2) :: keys)
      by_cases hc : (s.mid.getD f default).t.entries + 1 < (s.mid.getD f default).t.N
      · obtain ⟨o', hfoi, oi', hpay, hN', he'⟩ := ord_findOrInsert_new oi _ blankW hM hc
        -- the state after the insertion represents `g.take (f+2) :: keys`
        have inv' : TabInv combine N caps (g.take (f + 2) :: keys) tops (setMid s f o') := by
          refine ⟨by simp [setMid, inv.midlen], ?_, ?_⟩
          rotate_left
          · intro m h2 hN2
            rw [tbl_setMid _ _ _ _ _ hfl]
            by_cases hmf : m ≠ N ∧ m - 2 = f
            · rw [if_pos hmf, he', hN']; exact hc
            · rw [if_neg hmf]; exact inv.below m h2 hN2
          intro m h2 hN2
          rw [tbl_setMid _ _ _ _ _ hfl]
          by_cases hmf : m ≠ N ∧ m - 2 = f
          · have hmeq : m = f + 2 := by omega
            rw [if_pos hmf]
            subst hmeq
            refine ⟨_, oi', ?_, ?_, ?_⟩
            · intro k hk
              have hka' : keysAt N (g.take (f + 2) :: keys) tops (f + 2) = g.take (f + 2) :: keys := by simp [keysAt, hne]
              rw [hka']
              unfold upd
              by_cases hh : hashOf combine k = hashOf combine (g.take (f + 2))
              · have := inj _ _ hh
                simp [hh, this]
              · have hkne : k ≠ g.take (f + 2) := fun h => hh (by rw [h])
                simp only [hh, ↓reduceIte, List.mem_cons, hkne, false_or]
                have := hmem k hk
                rw [hka] at this
                exact this
            · have hka' : keysAt N (g.take (f + 2) :: keys) tops (f + 2) = g.take (f + 2) :: keys := by simp [keysAt, hne]
              rw [hka', cnt_cons_same _ _ _ hkl, he', hent, hka]
            · rw [hN', hcap]
          · rw [if_neg hmf]
            obtain ⟨M2, oi2, hmem2, hent2, hcap2⟩ := inv.tabs m h2 hN2
            refine ⟨M2, oi2, ?_, ?_, hcap2⟩
            · intro k hk
              rw [hmem2 k hk]
              by_cases hmN : m = N
              · simp [keysAt, hmN]
              · have hkne : k ≠ g.take (f + 2) := by
                  intro h; rw [h, hkl] at hk; omega
                simp [keysAt, hmN, hkne]
            · rw [hent2]
              by_cases hmN : m = N
              · simp [keysAt, hmN]
              · simp only [keysAt, hmN, ↓reduceIte]
                rw [cnt_cons_other]
                rw [hkl]; omega
        rcases ih (setMid s f o') (between ++ [.mid f (s.mid.getD f default).pay.length]) (g.take (f + 2) :: keys)
            (by omega) (by omega) inv' with ⟨s', b', hok, hinv, huni⟩ | ⟨herr, m, hm⟩
        · left
          refine ⟨s', b', ?_, ?_, by rw [huni]; rfl⟩
          · simp only [KV.ProbingBuild.findLower, hfoi, bind, Except.bind, Bool.false_eq_true, if_false]
            exact hok
          · rw [mine]; simp [hin]; exact hinv
        · right
          refine ⟨?_, m, ?_⟩
          · simp only [KV.ProbingBuild.findLower, hfoi, bind, Except.bind, Bool.false_eq_true, if_false]
            exact herr
          · rw [mine]; simp [hin]; exact hm
      · right
        have hfull := ord_findOrInsert_full oi _ blankW hM (by omega)
        refine ⟨by simp only [KV.ProbingBuild.findLower, hfull, bind, Except.bind], f + 2, hm2, by omega, ?_⟩
        rw [mine]
        simp only [List.contains_eq_mem, hin, decide_false, Bool.false_eq_true, ↓reduceIte]
        obtain ⟨pre, hp⟩ := hsuf
        rw [hp, cnt_append, cnt_cons_same _ _ _ hkl, ← hka, ← hent, ← hcap]
        omega

/-- `ActivateLowerMiddle` against the loader model's context test: for an n-gram of order n ≥ 3 (n ≤ N), `ProbingBuild.activate`
raises `FormatLoadException` exactly when the context is not among the loader model's keys -/
theorem activate_sim (combine : Nat → Word → Nat) (N : Nat) (caps : Nat → Nat) (keys tops : List Key) (s : St) (g : Key)
    (inv : TabInv combine N caps keys tops s) (h3 : 3 ≤ g.length) (hN : g.length ≤ N) :
    (KV.ProbingBuild.activate combine g g.length s = .error .format ↔ g.tail ∉ keys) ∧
    (g.tail ∈ keys → ∃ s', KV.ProbingBuild.activate combine g g.length s = .ok s') := by
  have hm2 : 2 ≤ g.length - 1 := by omega
  have hmN : g.length - 1 ≤ N := by omega
  have hne : g.length - 1 ≠ N := by omega
  obtain ⟨M, oi, hmem, _, _⟩ := inv.tabs (g.length - 1) hm2 hmN
  have htbl : tbl N s (g.length - 1) = s.mid.getD (g.length - 3) default := by
    simp only [tbl, hne, ↓reduceIte]
    congr 1
  rw [htbl] at oi
  have hka : keysAt N keys tops (g.length - 1) = keys := by simp [keysAt, hne]
  have htl : g.tail.length = g.length - 1 := by simp
  have hd : g.drop 1 = g.tail := List.drop_one
  have key := hmem g.tail htl
  rw [hka] at key
  constructor
  · rw [activate_format_iff combine g g.length (by omega) s M oi, hd]
    exact key
  · intro hin
    have : M (hashOf combine g.tail) ≠ none := fun hn => (key.mp hn) hin
    obtain ⟨i, hi⟩ := Option.ne_none_iff_exists'.mp this
    have hb : (g.length == 2) = false := by simp; omega
    refine ⟨s.modify (.mid (g.length - 3) i) setExtension, ?_⟩
    simp only [KV.ProbingBuild.activate, hb, Bool.false_eq_true, if_false, ord_find oi, hd, hi, bind, Except.bind]

/-- `store.Insert` of a fresh line against the loader model's capacity test: `ProbingSizeException` exactly when the key count
of that order, with the new line, reaches the bucket count; otherwise the tables represent the extended key list -/
theorem insert_sim (combine : Nat → Word → Nat) (inj : ∀ k1 k2 : Key, hashOf combine k1 = hashOf combine k2 → k1 = k2)
    (N : Nat) (caps : Nat → Nat) (keys tops : List Key) (s : St) (g : Key) (e : KV.Arpa.Entry)
    (inv : TabInv combine N caps keys tops s) (h2 : 2 ≤ g.length) (hN : g.length ≤ N)
    (fresh : g ∉ keysAt N keys tops g.length) :
    (insPhase combine N s g e = .error .probingSize ↔ caps g.length ≤ cnt (keysAt N keys tops g.length) g.length + 1) ∧
    (cnt (keysAt N keys tops g.length) g.length + 1 < caps g.length →
      ∃ s1, insPhase combine N s g e = .ok s1 ∧ s1.uni = s.uni ∧
        TabInv combine N caps (if g.length = N then keys else g :: keys) (if g.length = N then g :: tops else tops) s1) := by
  obtain ⟨M, oi, hmem, hent, hcap⟩ := inv.tabs g.length h2 hN
  have hM : M (hashOf combine g) = none := (hmem g rfl).mpr fresh
  have hins_eq : insPhase combine N s g e = ((tbl N s g.length).insert (hashOf combine g) (lineW e)).map
      (fun o => if g.length = N then setLongest s o else setMid s (g.length - 2) o) := by
    unfold insPhase tbl
    by_cases hgN : g.length = N
    · simp [hgN]
    · have : (g.length == N) = false := by simpa using hgN
      simp [hgN, this]
  constructor
  · constructor
    · intro herr
      by_cases hc : (tbl N s g.length).t.entries + 1 < (tbl N s g.length).t.N
      · obtain ⟨o', hok, _⟩ := ord_insert oi (hashOf combine g) (lineW e) hM hc
        rw [hins_eq, hok] at herr
        simp [Except.map] at herr
      · rw [hent, hcap] at hc; omega
    · intro hc
      have := ord_insert_full oi (hashOf combine g) (lineW e) (by rw [hent, hcap]; omega)
      rw [hins_eq, this]; rfl
  · intro hc
    obtain ⟨o', hok, oi', hpay, hN', he'⟩ := ord_insert oi (hashOf combine g) (lineW e) hM (by rw [hent, hcap]; exact hc)
    obtain ⟨s1, h1, huni, hml, htb, hoth⟩ := insPhase_ok combine N s g e o' h2 hN inv.midlen hok
    refine ⟨s1, h1, huni, hml, ?_, ?_⟩
    rotate_left
    · intro m hm2 hmN
      by_cases hmg : m = g.length
      · subst hmg
        rw [htb, he', hN', hent, hcap]; exact hc
      · rw [hoth m hmg hm2]; exact inv.below m hm2 hmN
    intro m hm2 hmN
    by_cases hmg : m = g.length
    · subst hmg
      rw [htb]
      refine ⟨_, oi', ?_, ?_, by rw [hN', hcap]⟩
      · intro k hk
        have hkeys : keysAt N (if g.length = N then keys else g :: keys) (if g.length = N then g :: tops else tops) g.length
            = g :: keysAt N keys tops g.length := by
          unfold keysAt; by_cases hgN : g.length = N <;> simp [hgN]
        rw [hkeys]
        unfold upd
        by_cases hh : hashOf combine k = hashOf combine g
        · have := inj _ _ hh
          simp [hh, this]
        · have hkne : k ≠ g := fun h => hh (by rw [h])
          simp only [hh, ↓reduceIte, List.mem_cons, hkne, false_or]
          exact hmem k hk
      · have hkeys : keysAt N (if g.length = N then keys else g :: keys) (if g.length = N then g :: tops else tops) g.length
            = g :: keysAt N keys tops g.length := by
          unfold keysAt; by_cases hgN : g.length = N <;> simp [hgN]
        rw [hkeys, cnt_cons_same _ _ _ rfl, he', hent]
    · rw [hoth m hmg hm2]
      obtain ⟨M2, oi2, hmem2, hent2, hcap2⟩ := inv.tabs m hm2 hmN
      have hkk : ∀ k : Key, k.length = m →
          (k ∈ keysAt N (if g.length = N then keys else g :: keys) (if g.length = N then g :: tops else tops) m ↔ k ∈ keysAt N keys tops m) := by
        intro k hk
        have hkg : k ≠ g := by intro h; rw [h] at hk; exact hmg hk.symm
        unfold keysAt
        by_cases hgN : g.length = N <;> by_cases hmN2 : m = N <;> simp [hgN, hmN2, hkg]
      refine ⟨M2, oi2, ?_, ?_, hcap2⟩
      · intro k hk
        rw [hmem2 k hk, hkk k hk]
      · rw [hent2]
        unfold keysAt
        by_cases hgN : g.length = N <;> by_cases hmN2 : m = N
        · exact absurd (hmN2.trans hgN.symm) hmg
        · simp [hgN, hmN2]
        · simp only [hgN, hmN2, ↓reduceIte]
        · simp only [hgN, hmN2, ↓reduceIte]
          rw [cnt_cons_other]; exact fun h => hmg h.symm

end KV.LoaderPB
