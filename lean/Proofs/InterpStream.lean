import Proofs.Interp
/-!
Refinement of pass 2 (C13): the stream recursion `sameCtx` / `extendCtx` (the code's
`Recurse::SameContext` / `ExtendContext` over one `ContextOrder`-sorted stream per order) computes,
for streams of the grouped shape `levels`, exactly the structural recursion `specSame`, consumes
every record, and `specSame` with `X = explicit` started from `Zinc` writes `pOut` / `boSame`.
Purely structural: no arithmetic on `F` is used for the refinement itself.
-/
namespace KV.Interp

section Zip
variable {α : Type}

theorem zipWith_append_assoc : ∀ (A B R : List (List α)),
    List.zipWith (· ++ ·) (List.zipWith (· ++ ·) A B) R =
      List.zipWith (· ++ ·) A (List.zipWith (· ++ ·) B R)
  | [], _, _ => by simp
  | _ :: _, [], _ => by simp
  | _ :: _, _ :: _, [] => by simp
  | a :: A, b :: B, r :: R => by
    simp only [List.zipWith_cons_cons, List.append_assoc]
    rw [zipWith_append_assoc A B R]

theorem zipWith_replicate_nil : ∀ (n : Nat) (R : List (List α)), R.length ≤ n →
    List.zipWith (· ++ ·) (List.replicate n ([] : List α)) R = R
  | _, [], _ => by simp
  | 0, _ :: _, h => by simp at h
  | n + 1, r :: R, h => by
    rw [List.replicate_succ, List.zipWith_cons_cons, List.nil_append,
      zipWith_replicate_nil n R (by simpa using h)]

/-- every record of every stream satisfies `P` -/
def AllRecs (P : α → Prop) (ss : List (List α)) : Prop := ∀ l ∈ ss, ∀ r ∈ l, P r

/-- the head record (if any) of every stream satisfies `P` -/
def HeadsOK (P : α → Prop) (ss : List (List α)) : Prop := ∀ l ∈ ss, ∀ r, l.head? = some r → P r

theorem allRecs_zipWith (P : α → Prop) : ∀ (A B : List (List α)), AllRecs P A → AllRecs P B →
    AllRecs P (List.zipWith (· ++ ·) A B)
  | [], _, _, _ => by simp [AllRecs]
  | _ :: _, [], _, _ => by simp [AllRecs]
  | a :: A, b :: B, hA, hB => by
    intro l hl r hr
    rw [List.zipWith_cons_cons, List.mem_cons] at hl
    rcases hl with rfl | hl
    · rcases List.mem_append.1 hr with h | h
      · exact hA a List.mem_cons_self r h
      · exact hB b List.mem_cons_self r h
    · exact allRecs_zipWith P A B (fun l hl => hA l (List.mem_cons_of_mem _ hl))
        (fun l hl => hB l (List.mem_cons_of_mem _ hl)) l hl r hr

theorem headsOK_zipWith (P : α → Prop) : ∀ (A B : List (List α)), AllRecs P A → HeadsOK P B →
    HeadsOK P (List.zipWith (· ++ ·) A B)
  | [], _, _, _ => by simp [HeadsOK]
  | _ :: _, [], _, _ => by simp [HeadsOK]
  | a :: A, b :: B, hA, hB => by
    intro l hl r hr
    rw [List.zipWith_cons_cons, List.mem_cons] at hl
    rcases hl with rfl | hl
    · cases a with
      | nil => exact hB b List.mem_cons_self r (by simpa using hr)
      | cons a0 a' =>
        have : a0 = r := by simpa using hr
        exact this ▸ hA (a0 :: a') List.mem_cons_self a0 List.mem_cons_self
    · exact headsOK_zipWith P A B (fun l hl => hA l (List.mem_cons_of_mem _ hl))
        (fun l hl => hB l (List.mem_cons_of_mem _ hl)) l hl r hr

theorem allRecs_replicate_nil (P : α → Prop) (n : Nat) : AllRecs P (List.replicate n ([] : List α)) := by
  intro l hl r hr
  rw [(List.mem_replicate.1 hl).2] at hr
  simp at hr

theorem allRecs_mono {P Q : α → Prop} (h : ∀ r, P r → Q r) {ss : List (List α)} (hs : AllRecs P ss) :
    AllRecs Q ss := fun l hl r hr => h r (hs l hl r hr)

theorem headsOK_mono {P Q : α → Prop} (h : ∀ r, P r → Q r) {ss : List (List α)} (hs : HeadsOK P ss) :
    HeadsOK Q ss := fun l hl r hr => h r (hs l hl r hr)

theorem takeWhile_append_of_head (p : α → Bool) : ∀ (A B : List α), (∀ a ∈ A, p a = true) →
    (∀ r, B.head? = some r → p r = false) →
    (A ++ B).takeWhile p = A ∧ (A ++ B).dropWhile p = B
  | [], B, _, hB => by
    cases B with
    | nil => simp
    | cons b B' =>
      have := hB b rfl
      simp [this]
  | a :: A, B, hA, hB => by
    have ha := hA a List.mem_cons_self
    have ih := takeWhile_append_of_head p A B (fun x hx => hA x (List.mem_cons_of_mem _ hx)) hB
    simp [ha, ih.1, ih.2]

end Zip

section Stream
variable {W : Type} [DecidableEq W]
variable {I Evt : Type} (step : List W → I → List W → I) (emit : List W → I → List W → List Evt)
variable (X Y : List W → List W)

/-- the records of context `c` itself -/
def own (c : List W) : List (Rec W) := (X c).map (fun x => (c, x))

theorem levels_zero (c : List W) : levels X Y 0 c = [own X c] := rfl

theorem levels_succ (d : Nat) (c : List W) :
    levels X Y (d + 1) c = own X c :: levelsE X Y d (Y c) c := rfl

theorem levelsE_nil (d : Nat) (c : List W) : levelsE X Y d [] c = List.replicate (d + 1) [] := rfl

theorem levelsE_cons (d : Nat) (y : W) (ys : List W) (c : List W) :
    levelsE X Y d (y :: ys) c =
      List.zipWith (· ++ ·) (levels X Y d (y :: c)) (levelsE X Y d ys c) := rfl

theorem length_levels : ∀ (d : Nat) (c : List W), (levels X Y d c).length = d + 1
  | 0, _ => rfl
  | d + 1, c => by
    have hE : ∀ ys : List W, (levelsE X Y d ys c).length = d + 1 := by
      intro ys
      induction ys with
      | nil => simp [levelsE_nil]
      | cons y ys ih => rw [levelsE_cons, List.length_zipWith, length_levels d (y :: c), ih]; simp
    rw [levels_succ, List.length_cons, hE]

theorem length_levelsE (d : Nat) (ys : List W) (c : List W) : (levelsE X Y d ys c).length = d + 1 := by
  induction ys with
  | nil => simp [levelsE_nil]
  | cons y ys ih => rw [levelsE_cons, List.length_zipWith, length_levels, ih]; simp

/-- every record in the subtree of `c` has `c` as context suffix -/
theorem allRecs_levels : ∀ (d : Nat) (c : List W),
    AllRecs (fun r : Rec W => c <:+ r.1) (levels X Y d c)
  | 0, c => by
    intro l hl r hr
    rw [levels_zero, List.mem_singleton] at hl
    subst hl
    unfold own at hr
    obtain ⟨x, _, rfl⟩ := List.mem_map.1 hr
    exact List.suffix_refl c
  | d + 1, c => by
    intro l hl r hr
    rw [levels_succ, List.mem_cons] at hl
    rcases hl with rfl | hl
    · unfold own at hr
      obtain ⟨x, _, rfl⟩ := List.mem_map.1 hr
      exact List.suffix_refl c
    · have hE : ∀ ys : List W, AllRecs (fun r : Rec W => c <:+ r.1) (levelsE X Y d ys c) := by
        intro ys
        induction ys with
        | nil => rw [levelsE_nil]; exact allRecs_replicate_nil _ _
        | cons y ys ih =>
          rw [levelsE_cons]
          apply allRecs_zipWith _ _ _ _ ih
          exact allRecs_mono (fun r h => List.IsSuffix.trans (List.suffix_cons y c) h)
            (allRecs_levels d (y :: c))
      exact hE (Y c) l hl r hr

/-- every record below the contexts `y :: c`, `y ∈ ys`, has one of them as context suffix -/
theorem allRecs_levelsE (d : Nat) (c : List W) : ∀ ys : List W,
    AllRecs (fun r : Rec W => ∃ y ∈ ys, (y :: c) <:+ r.1) (levelsE X Y d ys c)
  | [] => by rw [levelsE_nil]; exact allRecs_replicate_nil _ _
  | y :: ys => by
    rw [levelsE_cons]
    apply allRecs_zipWith
    · exact allRecs_mono (fun r h => ⟨y, List.mem_cons_self, h⟩) (allRecs_levels X Y d (y :: c))
    · exact allRecs_mono (fun r ⟨y', hy', h⟩ => ⟨y', List.mem_cons_of_mem _ hy', h⟩)
        (allRecs_levelsE d c ys)

theorem suffix_cons_inj {y y' : W} {c l : List W} (h1 : (y :: c) <:+ l) (h2 : (y' :: c) <:+ l) :
    y = y' := by
  have h12 : (y :: c) <:+ (y' :: c) := List.suffix_of_suffix_length_le h1 h2 (by simp)
  have := List.IsSuffix.eq_of_length h12 (by simp)
  exact (List.cons.inj this).1

/-- the tree below `c` is well formed `d` levels deep: distinct left extensions, each with at least
one record of its own -/
def Good : Nat → List W → Prop
  | 0, _ => True
  | d + 1, c => (Y c).Nodup ∧ ∀ y ∈ Y c, X (y :: c) ≠ [] ∧ Good d (y :: c)

/-- fuel that suffices for `sameCtx` on the subtree of `c` -/
def needS : Nat → List W → Nat
  | 0, _ => 1
  | d + 1, c => 1 + ((Y c).map (fun y => 1 + needS d (y :: c))).sum

/-- fuel that suffices for `extendCtx` over the contexts `y :: c`, `y ∈ ys` -/
def needE (d : Nat) (ys : List W) (c : List W) : Nat :=
  (ys.map (fun y => 1 + needS Y d (y :: c))).sum

theorem extendCtx_nil (fuel : Nat) (m : List W) (z : I) :
    extendCtxG step emit fuel ([] : List (List (Rec W))) m z = ([], []) := by
  cases fuel <;> simp [extendCtxG]

/-- the part of `sameCtx` that concerns its own stream -/
theorem sameCtx_own (n : Nat) (r0 : List (Rec W)) (ss : List (List (Rec W))) (c : List W) (zl : I)
    (h0 : ∀ r, r0.head? = some r → ¬ c <:+ r.1) :
    sameCtxG step emit (n + 1) ((own X c ++ r0) :: ss) c zl =
      (r0 :: (extendCtxG step emit n ss c (step c zl (X c))).1,
        emit c zl (X c) ++ (extendCtxG step emit n ss c (step c zl (X c))).2) := by
  have hp := takeWhile_append_of_head (fun r : Rec W => decide (r.1 = c)) (own X c) r0
    (by
      intro a ha
      unfold own at ha
      obtain ⟨x, _, rfl⟩ := List.mem_map.1 ha
      simp)
    (by
      intro r hr
      have := h0 r hr
      have hne : r.1 ≠ c := fun h => this (h ▸ List.suffix_refl _)
      simp [hne])
  have hmap : (own X c).map (·.2) = X c := by
    unfold own
    rw [List.map_map]
    conv_rhs => rw [← List.map_id (X c)]
    apply List.map_congr_left
    intro x _
    rfl
  rw [sameCtxG]
  simp only [hp.1, hp.2, hmap]

theorem specSameG_zero (c : List W) (zl : I) :
    specSameG step emit X Y 0 c zl = emit c zl (X c) := rfl

theorem specSameG_succ (d : Nat) (c : List W) (zl : I) :
    specSameG step emit X Y (d + 1) c zl =
      emit c zl (X c) ++ (Y c).flatMap (fun y => specSameG step emit X Y d (y :: c) (step c zl (X c))) := rfl

/-- statement of the refinement for subtrees `d` levels deep -/
def SameSpec (d : Nat) : Prop :=
  ∀ (c : List W) (zl : I) (rests : List (List (Rec W))) (fuel : Nat),
    rests.length = d + 1 → needS Y d c ≤ fuel → Good X Y d c →
    HeadsOK (fun r : Rec W => ¬ c <:+ r.1) rests →
    sameCtxG step emit fuel (List.zipWith (· ++ ·) (levels X Y d c) rests) c zl =
      (rests, specSameG step emit X Y d c zl)

/-- **refinement, the sibling loop** of `ExtendContext`, given the refinement for the subtrees -/
theorem extendCtx_spec (d : Nat) (hS : SameSpec step emit X Y d) :
    ∀ (ys : List W) (c : List W) (z : I) (rests : List (List (Rec W)))
      (fuel : Nat), rests.length = d + 1 → needE Y d ys c ≤ fuel →
      (∀ y ∈ ys, X (y :: c) ≠ [] ∧ Good X Y d (y :: c)) → ys.Nodup →
      HeadsOK (fun r : Rec W => ¬ c <:+ r.1) rests →
      extendCtxG step emit fuel (List.zipWith (· ++ ·) (levelsE X Y d ys c) rests) c z =
        (rests, ys.flatMap (fun y => specSameG step emit X Y d (y :: c) z))
  | [], c, z, rests, fuel, hlen, _, _, _, hheads => by
    rw [levelsE_nil, zipWith_replicate_nil _ _ (by omega)]
    match rests, hlen with
    | r0 :: rs, _ =>
      cases fuel with
      | zero => simp [extendCtxG]
      | succ n =>
        cases r0 with
        | nil => simp [extendCtxG]
        | cons r s =>
          have hno := hheads (r :: s) List.mem_cons_self r rfl
          have hne : r.1.tail ≠ c := fun h => hno (h ▸ List.tail_suffix r.1)
          simp [extendCtxG, hne]
  | y :: ys, c, z, rests, fuel, hlen, hfuel, hgood, hnd, hheads => by
    have hy := hgood y List.mem_cons_self
    have hnd' := List.nodup_cons.1 hnd
    -- regroup: the subtree of `y :: c` first, then the remaining siblings and the rest
    rw [levelsE_cons, zipWith_append_assoc]
    set R' := List.zipWith (· ++ ·) (levelsE X Y d ys c) rests with hR'
    have hR'len : R'.length = d + 1 := by
      rw [hR', List.length_zipWith, length_levelsE, hlen]; simp
    have hR'heads : HeadsOK (fun r : Rec W => ¬ (y :: c) <:+ r.1) R' := by
      rw [hR']
      apply headsOK_zipWith
      · refine allRecs_mono (fun r h => ?_) (allRecs_levelsE X Y d c ys)
        obtain ⟨y', hy', hsuf⟩ := h
        intro hcon
        exact hnd'.1 (suffix_cons_inj hcon hsuf ▸ hy')
      · exact headsOK_mono (fun r h hcon => h (List.IsSuffix.trans (List.suffix_cons y c) hcon)) hheads
    obtain ⟨n, rfl⟩ : ∃ n, fuel = n + 1 := ⟨fuel - 1, by simp [needE] at hfuel; omega⟩
    have hn1 : needS Y d (y :: c) ≤ n := by simp [needE] at hfuel; omega
    have hn2 : needE Y d ys c ≤ n := by simp only [needE, List.map_cons, List.sum_cons] at hfuel ⊢; omega
    -- expose the first record: `own (y :: c)` is not empty
    obtain ⟨x0, xs, hX⟩ : ∃ x0 xs, X (y :: c) = x0 :: xs := by
      cases h : X (y :: c) with
      | nil => exact absurd h hy.1
      | cons x0 xs => exact ⟨x0, xs, rfl⟩
    obtain ⟨L', hL'⟩ : ∃ L', levels X Y d (y :: c) = own X (y :: c) :: L' := by
      cases d with
      | zero => exact ⟨[], rfl⟩
      | succ d' => exact ⟨_, levels_succ X Y d' (y :: c)⟩
    obtain ⟨r0', Rs', hRs'⟩ : ∃ r0' Rs', R' = r0' :: Rs' := by
      cases h : R' with
      | nil => rw [h] at hR'len; simp at hR'len
      | cons a b => exact ⟨a, b, rfl⟩
    have hS' := hS (y :: c) z R' n hR'len hn1 hy.2 hR'heads
    have hEx := extendCtx_spec d hS ys c z rests n hlen hn2
      (fun y' hy' => hgood y' (List.mem_cons_of_mem _ hy')) hnd'.2 hheads
    have hshape : List.zipWith (· ++ ·) (levels X Y d (y :: c)) R' =
        (((y :: c, x0) :: (xs.map (fun x => (y :: c, x)) ++ r0')) :: List.zipWith (· ++ ·) L' Rs') := by
      rw [hL', hRs', List.zipWith_cons_cons]
      simp [own, hX]
    rw [hshape, extendCtxG]
    simp only [List.tail_cons, if_true]
    have hEx' : extendCtxG step emit n R' c z =
        (rests, ys.flatMap (fun y => specSameG step emit X Y d (y :: c) z)) := hEx
    rw [← hshape, hS']
    simp only [hEx', List.flatMap_cons]


/-- **refinement, one subtree**: on streams that start with the grouped records of the subtree of
`c`, followed by anything whose heads do not belong to that subtree, `SameContext` consumes exactly
the subtree and writes what the structural recursion writes. -/
theorem sameCtx_spec : ∀ d : Nat, SameSpec step emit X Y d
  | 0 => by
    intro c zl rests fuel hlen hfuel _ hheads
    match rests, hlen with
    | [r0], _ =>
      obtain ⟨n, rfl⟩ : ∃ n, fuel = n + 1 := ⟨fuel - 1, by simp [needS] at hfuel; omega⟩
      rw [levels_zero, List.zipWith_cons_cons, List.zipWith_nil_left,
        sameCtx_own step emit X n r0 [] c zl (hheads r0 List.mem_cons_self), extendCtx_nil]
      simp [specSameG]
  | d + 1 => by
    intro c zl rests fuel hlen hfuel hgood hheads
    match rests, hlen with
    | r0 :: rs, hlen =>
      have hrs : rs.length = d + 1 := by simpa using hlen
      obtain ⟨n, rfl⟩ : ∃ n, fuel = n + 1 := ⟨fuel - 1, by simp [needS] at hfuel; omega⟩
      have hn : needE Y d (Y c) c ≤ n := by simp only [needS] at hfuel; unfold needE; omega
      rw [levels_succ, List.zipWith_cons_cons,
        sameCtx_own step emit X n r0 _ c zl (hheads r0 List.mem_cons_self)]
      have hE := extendCtx_spec step emit X Y d (sameCtx_spec d) (Y c) c (step c zl (X c)) rs n hrs hn
        hgood.2 hgood.1 (fun l hl => hheads l (List.mem_cons_of_mem _ hl))
      rw [hE]
      simp [specSameG]

end Stream

section Values
variable {W : Type} [DecidableEq W] {F : Type} [Field F]
variable (E : ℚ → F) (cs : Comps W) (V : List W) (X Y : List W → List W)

theorem zipWith_replicate_nil_right {α : Type} : ∀ (n : Nat) (A : List (List α)), A.length ≤ n →
    List.zipWith (· ++ ·) A (List.replicate n ([] : List α)) = A
  | _, [], _ => by simp
  | 0, _ :: _, h => by simp at h
  | n + 1, a :: A, h => by
    rw [List.replicate_succ, List.zipWith_cons_cons, List.append_nil,
      zipWith_replicate_nil_right n A (by simpa using h)]

/-- the order in which a context's words are summed does not matter -/
theorem zStep_perm (c : List W) (zl : F) {xs ys : List W} (h : xs.Perm ys) :
    zStep E cs c zl xs = zStep E cs c zl ys := by
  unfold zStep
  rw [(h.map _).sum_eq]

/-- with `z_lower = Z(c')` and the words of the context, one `SameContext` step yields `Z(y :: c')` -/
theorem zStep_eq_Zinc (y : W) (c : List W) {xs : List W} (h : xs.Perm (explicit cs (y :: c))) :
    zStep E cs (y :: c) (Zinc E cs V c) xs = Zinc E cs V (y :: c) := by
  rw [zStep_perm E cs (y :: c) _ h]
  rfl

/-- what pass 2 has to write below context `c`, in terms of the functional model -/
def specOut : Nat → List W → List (Ev W F)
  | 0, c => (X c).map (fun x => Ev.prob c x (pOut E cs V c x)) ++ [Ev.bo c (boSame E cs V c)]
  | d + 1, c =>
    (X c).map (fun x => Ev.prob c x (pOut E cs V c x)) ++ [Ev.bo c (boSame E cs V c)] ++
      (Y c).flatMap (fun y => specOut d (y :: c))

theorem sameEvents_eq (y : W) (c : List W) (h : (X (y :: c)).Perm (explicit cs (y :: c))) :
    sameEvents E cs (y :: c) (Zinc E cs V c) (X (y :: c)) =
      (X (y :: c)).map (fun x => Ev.prob (y :: c) x (pOut E cs V (y :: c) x)) ++
        [Ev.bo (y :: c) (boSame E cs V (y :: c))] := by
  unfold sameEvents
  rw [zStep_eq_Zinc E cs V y c h]
  rfl

/-- the structural recursion started with `z_lower = Zinc c'` writes the values of the functional
model (`pOut`, `boSame`) for every context of the subtree -/
theorem specSame_eq_specOut (hX : ∀ c, (X c).Perm (explicit cs c)) : ∀ (d : Nat) (y : W) (c : List W),
    specSame E cs X Y d (y :: c) (Zinc E cs V c) = specOut E cs V X Y d (y :: c)
  | 0, y, c => by
    show specSameG (zStep E cs) (sameEvents E cs) X Y 0 (y :: c) (Zinc E cs V c) = _
    rw [specSameG_zero, specOut, sameEvents_eq E cs V X y c (hX _)]
  | d + 1, y, c => by
    show specSameG (zStep E cs) (sameEvents E cs) X Y (d + 1) (y :: c) (Zinc E cs V c) = _
    rw [specSameG_succ, specOut, sameEvents_eq E cs V X y c (hX _), zStep_eq_Zinc E cs V y c (hX _)]
    congr 1
    apply List.flatMap_congr
    intro y' _
    exact specSame_eq_specOut hX d y' (y :: c)

/-- **Pass 2 refines the functional model.**  On streams of the grouped (`ContextOrder`) shape,
started like `Thread::Run` does (`ExtendContext(∅, log Z(∅))`), the stream recursion consumes every
record of every order and writes exactly `pOut` for every record and `boSame` for every context,
in stream order. -/
theorem pass2_refines (hX : ∀ c, (X c).Perm (explicit cs c)) (D : Nat) (fuel : Nat)
    (hfuel : needE Y D (Y []) [] ≤ fuel)
    (hgood : ∀ y ∈ Y [], X [y] ≠ [] ∧ Good X Y D [y]) (hnd : (Y []).Nodup) :
    extendCtx E cs fuel (levelsE X Y D (Y []) []) [] (Zinc E cs V []) =
      (List.replicate (D + 1) [], (Y []).flatMap (fun y => specOut E cs V X Y D [y])) := by
  have h := extendCtx_spec (zStep E cs) (sameEvents E cs) X Y D (sameCtx_spec (zStep E cs) (sameEvents E cs) X Y D) (Y []) [] (Zinc E cs V [])
    (List.replicate (D + 1) []) fuel (by simp) hfuel hgood hnd
    (by intro l hl r hr; rw [(List.mem_replicate.1 hl).2] at hr; simp at hr)
  rw [zipWith_replicate_nil_right _ _ (by rw [length_levelsE])] at h
  show extendCtxG (zStep E cs) (sameEvents E cs) fuel (levelsE X Y D (Y []) []) [] (Zinc E cs V []) = _
  rw [h]
  congr 1
  apply List.flatMap_congr
  intro y _
  exact specSame_eq_specOut E cs V X Y hX D y []

end Values

end KV.Interp
