import Proofs.FilePieceShift
/-! ReadCompressed member chaining: reads of any sizes yield the concatenation of the members. -/
namespace KV.FilePiece

theorem chunk_eq_zero_iff (orc : Nat → Nat) (i req avail : Nat) :
    chunk orc i req avail = 0 ↔ (avail = 0 ∨ req = 0) := by
  unfold chunk
  split
  · simp_all
  · rename_i h
    constructor
    · intro hc; omega
    · intro hc; exact absurd hc h

/-- The contract of one `ReadCompressed::Read(to, a)`: it hands out a prefix of the plain bytes
still owed, at most `a` of them, and returns 0 only if nothing was requested or nothing is left. -/
theorem rcRead_contract (orc : Nat → Nat) : ∀ (ch : Chain) (i a : Nat),
    (rcRead orc ch i a).1 ++ (rcRead orc ch i a).2.flatten = ch.flatten ∧
    (rcRead orc ch i a).1.length ≤ a ∧
    ((rcRead orc ch i a).1 = [] ↔ (a = 0 ∨ ch.flatten = [])) := by
  intro ch
  induction ch with
  | nil => intro i a; simp [rcRead]
  | cons m ms ih =>
    intro i a
    cases m with
    | nil => simpa [rcRead] using ih i a
    | cons c r =>
      simp only [rcRead]
      generalize hn : chunk orc i a (r.length + 1) = n
      have hle := chunk_le orc i a (r.length + 1)
      have hz := chunk_eq_zero_iff orc i a (r.length + 1)
      rw [hn] at hle hz
      refine ⟨?_, ?_, ?_⟩
      · simp only [List.flatten_cons]
        rw [← List.append_assoc, List.take_append_drop]
      · simp only [List.length_take, List.length_cons]; omega
      · constructor
        · intro h
          have := congrArg List.length h
          simp only [List.length_take, List.length_cons, List.length_nil] at this
          left
          have : n = 0 := by omega
          have := hz.mp this
          omega
        · intro h
          rcases h with h | h
          · have : n = 0 := hz.mpr (Or.inr h)
            subst this; rfl
          · simp at h

theorem rcRead_at_end (orc : Nat → Nat) (ch : Chain) (i a : Nat) (h : ch.flatten = []) :
    (rcRead orc ch i a).1 = [] ∧ (rcRead orc ch i a).2.flatten = [] := by
  obtain ⟨h1, _, h3⟩ := rcRead_contract orc ch i a
  have e1 := h3.mpr (Or.inr h)
  rw [e1, h] at h1
  exact ⟨e1, by simpa using h1⟩

/-- the link to the FilePiece model: a `Read` behaves like `chunk` over the concatenated plain bytes -/
theorem rcRead_is_chunk (orc : Nat → Nat) (ch : Chain) (i a : Nat) :
    ∃ n, (rcRead orc ch i a).1 = ch.flatten.take n ∧ (rcRead orc ch i a).2.flatten = ch.flatten.drop n ∧
      n ≤ min a ch.flatten.length ∧ (n = 0 ↔ (a = 0 ∨ ch.flatten = [])) := by
  obtain ⟨h1, h2, h3⟩ := rcRead_contract orc ch i a
  refine ⟨(rcRead orc ch i a).1.length, ?_, ?_, ?_, ?_⟩
  · rw [← h1]; simp
  · rw [← h1]; simp
  · have := congrArg List.length h1
    simp only [List.length_append] at this
    omega
  · rw [← h3]
    exact List.length_eq_zero_iff

theorem rcReadAll_eq (orc amt : Nat → Nat) (hamt : ∀ i, 0 < amt i) :
    ∀ (f : Nat) (ch : Chain) (i : Nat), ch.flatten.length < f → rcReadAll orc amt f ch i = ch.flatten := by
  intro f
  induction f with
  | zero => intro ch i h; omega
  | succ f ih =>
    intro ch i hf
    simp only [rcReadAll]
    obtain ⟨h1, h2, h3⟩ := rcRead_contract orc ch i (amt i)
    cases hr : rcRead orc ch i (amt i) with
    | mk out ch' =>
      rw [hr] at h1 h2 h3
      cases out with
      | nil =>
        dsimp only
        have := h3.mp rfl
        have hpos := hamt i
        rcases this with h | h
        · omega
        · exact h.symm
      | cons b bs =>
        dsimp only at h1 ⊢
        have hl := congrArg List.length h1
        simp only [List.length_append, List.length_cons] at hl
        rw [ih ch' _ (by omega)]
        exact h1

theorem decodeChain_flatten (dec : List Byte → Option (List Byte × List Byte)) :
    ∀ (f : Nat) (raw : List Byte) (ch : Chain), decodeChain dec f raw = some ch →
      (raw = [] ∧ ch = []) ∨ (∃ plain rest ch', dec raw = some (plain, rest) ∧ ch = plain :: ch' ∧
        decodeChain dec (f - 1) rest = some ch') := by
  intro f raw ch h
  cases f with
  | zero => simp [decodeChain] at h
  | succ f =>
    simp only [decodeChain] at h
    by_cases he : raw.isEmpty
    · simp [he] at h
      left; exact ⟨by simpa using he, h⟩
    · simp only [he, Bool.false_eq_true, ↓reduceIte] at h
      cases hd : dec raw with
      | none => simp [hd] at h
      | some pr =>
        obtain ⟨plain, rest⟩ := pr
        simp only [hd, Option.map_eq_some_iff] at h
        obtain ⟨ch', h1, h2⟩ := h
        right; exact ⟨plain, rest, ch', rfl, h2.symm, by simpa using h1⟩

end KV.FilePiece
