import Proofs.TrieBuildClosed
/-! The trie builder on models that need blanks: the exact set of blanks of the `BlankManager` pass, their values and marks,
and the equality of the built bit table with `Table.build a`. -/
set_option maxRecDepth 4000
namespace KV.TrieBuild
open KV.Arpa KV.Table KV.TrieLM KV.Score

/-- keys with a common prefix are contiguous in the visit order -/
theorem prefix_between : ∀ (k a x b : List Nat), k <+: a → k <+: b → keyLt x a = false → keyLt b x = false → k <+: x
  | [], _, _, _, _, _, _, _ => List.nil_prefix
  | c :: k, a, x, b, ha, hb, h1, h2 => by
    obtain ⟨a', rfl⟩ : ∃ a', a = c :: a' := by
      obtain ⟨t, ht⟩ := ha; exact ⟨k ++ t, by rw [← ht]; rfl⟩
    obtain ⟨b', rfl⟩ : ∃ b', b = c :: b' := by
      obtain ⟨t, ht⟩ := hb; exact ⟨k ++ t, by rw [← ht]; rfl⟩
    have ha' : k <+: a' := by obtain ⟨t, ht⟩ := ha; exact ⟨t, by simpa using ht⟩
    have hb' : k <+: b' := by obtain ⟨t, ht⟩ := hb; exact ⟨t, by simpa using ht⟩
    cases x with
    | nil => simp [keyLt] at h1
    | cons y x' =>
      unfold keyLt at h1 h2
      by_cases e1 : y < c
      · simp [e1] at h1
      · by_cases e2 : c < y
        · simp [e2] at h2
        · have e : y = c := by omega
          subst e
          simp only [Nat.lt_irrefl, if_false] at h1 h2
          obtain ⟨t, ht⟩ := prefix_between k a' x' b' ha' hb' h1 h2
          exact ⟨t, by rw [← ht]; rfl⟩

theorem commonPrefix_ge_of_prefix : ∀ (k p g : List Nat), k <+: p → k <+: g → k.length ≤ commonPrefix p g
  | [], _, _, _, _ => Nat.zero_le _
  | c :: k, p, g, hp, hg => by
    obtain ⟨p', rfl⟩ : ∃ p', p = c :: p' := by
      obtain ⟨t, ht⟩ := hp; exact ⟨k ++ t, by rw [← ht]; rfl⟩
    obtain ⟨g', rfl⟩ : ∃ g', g = c :: g' := by
      obtain ⟨t, ht⟩ := hg; exact ⟨k ++ t, by rw [← ht]; rfl⟩
    have hp' : k <+: p' := by obtain ⟨t, ht⟩ := hp; exact ⟨t, by simpa using ht⟩
    have hg' : k <+: g' := by obtain ⟨t, ht⟩ := hg; exact ⟨t, by simpa using ht⟩
    simp only [commonPrefix, if_true, List.length_cons]
    have := commonPrefix_ge_of_prefix k p' g' hp' hg'
    omega

/-- the keys of the blanks one `Visit` adds -/
theorem visit_blank_keys (st st' : VisitState) (g : Gram) (h : visit st g = .ok st') :
    st'.blanks.map (·.key) = st.blanks.map (·.key) ++
      (List.range' (commonPrefix st.been (g.key.take (g.key.length - 1)) + 1)
        (g.key.length - (commonPrefix st.been (g.key.take (g.key.length - 1)) + 1))).map (fun n => g.key.take n) := by
  unfold visit at h
  dsimp only at h
  split at h
  · rename_i hc
    cases h
    rw [hc]
    have : g.key.length - (g.key.length - 1 + 1) = 0 := by omega
    simp [this]
  · split at h
    · cases h
    · split at h
      · cases h
      · cases h
        simp [List.map_append, Function.comp]

theorem take_eq_of_le_common : ∀ (p q : List Nat) (n : Nat), n ≤ commonPrefix p q → p.take n = q.take n
  | _, _, 0, _ => by simp
  | [], q, n+1, h => by cases q <;> simp [commonPrefix] at h
  | _ :: _, [], n+1, h => by simp [commonPrefix] at h
  | a :: p, b :: q, n+1, h => by
    simp only [commonPrefix] at h
    by_cases e : a = b
    · subst e
      simp only [if_true] at h
      simp [take_eq_of_le_common p q n (by omega)]
    · simp [e] at h

/-- the full invariant of the pass after the keys `pre` -/
structure Full (L pre : List Gram) (st : VisitState) : Prop where
  inv : Inv L st ((pre.getLast?.map (·.key)).getD [])
  sound : ∀ b ∈ st.blanks, ∃ g ∈ pre, BlankOK L g b
  complete : ∀ g ∈ pre, ∀ n, 2 ≤ n → n < g.key.length → realOf L (g.key.take n) = none →
    ∃ b ∈ st.blanks, b.key = g.key.take n
  nodup : (st.blanks.map (·.key)).Nodup

theorem last_le (pre : List Gram) (hk : KeysLt pre) (hne : pre ≠ []) (g0 : Gram) (hg0 : g0 ∈ pre) :
    keyLt (pre.getLast hne).key g0.key = false := by
  have hsplit : pre = pre.dropLast ++ [pre.getLast hne] := (List.dropLast_concat_getLast hne).symm
  rw [hsplit] at hg0
  rcases List.mem_append.mp hg0 with h | h
  · have hp : (pre.dropLast ++ [pre.getLast hne]).Pairwise (fun a b => keyLt a.key b.key = true) := by
      rw [← hsplit]; exact hk
    have := (List.pairwise_append.mp hp).2.2 g0 h (pre.getLast hne) (by simp)
    exact keyLt_asymm _ _ this
  · simp at h; rw [h]; exact keyLt_irrefl _

theorem full_step (pre post : List Gram) (g : Gram) (st st' : VisitState)
    (hk : KeysLt (pre ++ g :: post)) (hlen : 1 ≤ g.key.length)
    (hf : Full (pre ++ g :: post) pre st) (hv : visit st g = .ok st') :
    Full (pre ++ g :: post) (pre ++ [g]) st' := by
  have hstep := visit_step pre post g st hk hlen hf.inv
  rw [hv] at hstep
  obtain ⟨hinv', nb, hnb, hok⟩ := hstep
  have hkeys := visit_blank_keys st st' g hv
  have hbeen : st.been = (pre.getLast?.map (·.key)).getD [] := hf.inv.been
  generalize hcur : commonPrefix st.been (g.key.take (g.key.length - 1)) = cur at hkeys
  have hcur_eq : cur = min (commonPrefix st.been g.key) (g.key.length - 1) := by rw [← hcur, commonPrefix_take]
  have hp := List.pairwise_append.mp hk
  have hpre : KeysLt pre := hp.1
  have hgL : g ∈ pre ++ g :: post := by simp
  have hgreal : realOf (pre ++ g :: post) g.key = some g := realOf_of_mem hk g hgL
  -- membership of a new key
  have hnew : ∀ n, cur < n → n < g.key.length → ∃ b ∈ st'.blanks, b.key = g.key.take n := by
    intro n h1 h2
    have : g.key.take n ∈ st'.blanks.map (·.key) := by
      rw [hkeys]; apply List.mem_append_right
      simp only [List.mem_map, List.mem_range'_1]
      exact ⟨n, ⟨by omega, by omega⟩, rfl⟩
    simp only [List.mem_map] at this
    obtain ⟨b, hb, hbk⟩ := this
    exact ⟨b, hb, hbk⟩
  refine ⟨by simpa using hinv', ?_, ?_, ?_⟩
  · -- sound
    intro b hb
    rw [hnb] at hb
    rcases List.mem_append.mp hb with h | h
    · obtain ⟨g0, hg0, hb0⟩ := hf.sound b h
      exact ⟨g0, by simp [hg0], hb0⟩
    · exact ⟨g, by simp, hok b h⟩
  · -- complete
    intro g0 hg0 n hn2 hnl hnr
    rcases List.mem_append.mp hg0 with h | h
    · obtain ⟨b, hb, hbk⟩ := hf.complete g0 h n hn2 hnl hnr
      exact ⟨b, by rw [hnb]; exact List.mem_append_left _ hb, hbk⟩
    · simp at h; subst h
      by_cases hle : n ≤ cur
      · -- shared with the previous key
        have hcp : n ≤ commonPrefix st.been g0.key := by rw [hcur_eq] at hle; omega
        have heq := take_eq_of_le_common st.been g0.key n hcp
        cases hpl : pre.getLast? with
        | none =>
          rw [hpl] at hbeen; simp at hbeen
          rw [hbeen] at hcp; simp [commonPrefix] at hcp; omega
        | some pg =>
          rw [hpl] at hbeen; simp at hbeen
          rw [hbeen] at hcp heq
          have hpgm : pg ∈ pre := List.mem_of_getLast? hpl
          have h1 := (commonPrefix_le pg.key g0.key).1
          have hnlt : n < pg.key.length := by
            by_cases he : n = pg.key.length
            · exfalso
              rw [← heq, he, List.take_length] at hnr
              have := realOf_of_mem hk pg (List.mem_append_left _ hpgm)
              rw [this] at hnr; cases hnr
            · omega
          rw [← heq] at hnr
          obtain ⟨b, hb, hbk⟩ := hf.complete pg hpgm n hn2 hnlt hnr
          exact ⟨b, by rw [hnb]; exact List.mem_append_left _ hb, by rw [hbk, heq]⟩
      · exact hnew n (by omega) hnl
  · -- nodup
    rw [hkeys]
    rw [List.nodup_append]
    refine ⟨hf.nodup, ?_, ?_⟩
    · show List.Pairwise (· ≠ ·) _
      rw [List.pairwise_map]
      refine List.Pairwise.imp_of_mem ?_ (List.nodup_range' (step := 1))
      intro x y hx hy hxy he
      have hx' := List.mem_range'_1.mp hx
      have hy' := List.mem_range'_1.mp hy
      have := congrArg List.length he
      simp only [List.length_take] at this
      omega
    · intro k hk1 k' hk2 hkk
      subst hkk
      -- k is the key of an old blank and a new prefix of g
      simp only [List.mem_map] at hk1
      obtain ⟨b, hb, rfl⟩ := hk1
      simp only [List.mem_map, List.mem_range'_1] at hk2
      obtain ⟨n, ⟨hn1, hn2⟩, hbk⟩ := hk2
      obtain ⟨g0, hg0, hb0⟩ := hf.sound b hb
      obtain ⟨m, hm2, hml, hbm⟩ := hb0.isPrefix
      have hne : pre ≠ [] := by intro e; rw [e] at hg0; simp at hg0
      have hlast : pre.getLast? = some (pre.getLast hne) := List.getLast?_eq_some_getLast hne
      rw [hlast] at hbeen; simp at hbeen
      have hx1 : keyLt (pre.getLast hne).key g0.key = false := last_le pre hpre hne g0 hg0
      have hx2 : keyLt g.key (pre.getLast hne).key = false :=
        keyLt_asymm _ _ (hp.2.2 _ (List.getLast_mem hne) g (by simp))
      have hpa : b.key <+: g0.key := by rw [hbm]; exact List.take_prefix _ _
      have hpb : b.key <+: g.key := by rw [← hbk]; exact List.take_prefix _ _
      have hpx := prefix_between b.key g0.key (pre.getLast hne).key g.key hpa hpb hx1 hx2
      have hge := commonPrefix_ge_of_prefix b.key (pre.getLast hne).key g.key hpx hpb
      have hbl : b.key.length = n := by rw [← hbk, List.length_take]; omega
      rw [hbeen] at hcur_eq
      omega


theorem run_full : ∀ (post pre : List Gram) (st : VisitState), KeysLt (pre ++ post) →
    (∀ g ∈ pre ++ post, 1 ≤ g.key.length) →
    (∀ g ∈ pre ++ post, realOf (pre ++ post) (g.key.take 1) ≠ none) →
    Full (pre ++ post) pre st →
    ∃ st', post.foldlM visit st = .ok st' ∧ Full (pre ++ post) (pre ++ post) st' := by
  intro post
  induction post with
  | nil => intro pre st _ _ _ hf; exact ⟨st, rfl, by simpa using hf⟩
  | cons g rest ih =>
    intro pre st hk hne huni hf
    have hstep := visit_step pre rest g st hk (hne g (by simp)) hf.inv
    rw [List.foldlM_cons]
    cases hv : visit st g with
    | error e =>
      rw [hv] at hstep
      exact absurd hstep.2.2 (huni g (by simp))
    | ok st' =>
      have hf' := full_step pre rest g st st' hk (hne g (by simp)) hf hv
      have e : pre ++ g :: rest = (pre ++ [g]) ++ rest := by simp
      have := ih (pre ++ [g]) st' (by rw [← e]; exact hk) (by rw [← e]; exact hne) (by rw [← e]; exact huni)
        (by rw [← e]; exact hf')
      rw [← e] at this
      exact this

/-- **the blanks of the whole pass, exactly**: on a strictly increasing visit order in which every key's newest word has a
unigram, `BlankManager` succeeds; the blanks it creates are exactly the non-real proper prefixes (length ≥ 2) of the visited
keys, each once, each based on the longest real proper prefix below it. -/
theorem visit_full (L : List Gram) (hk : KeysLt L) (hne : ∀ g ∈ L, 1 ≤ g.key.length)
    (huni : ∀ g ∈ L, realOf L (g.key.take 1) ≠ none) :
    ∃ st, visitAll L = .ok st ∧ Full L L st := by
  have := run_full L [] {} (by simpa using hk) (by simpa using hne) (by simpa using huni)
    ⟨⟨rfl, fun i hi => by simp at hi⟩, by simp, by simp, by simp⟩
  simpa [visitAll] using this


/-- a well-formed model (not necessarily suffix-closed) with a value encoding; `fadd` adds exactly on the values that occur and
every blank's sum keeps its value through the non-positive 31-bit encoding (proper model: blank scores ≤ 0) -/
structure ArpaEncW (fval : Nat → Rat) (a : Arpa) (bound : Nat) (P B : List Word → Nat) : Prop where
  wf : WellFormed a
  nodup : (a.entries.map (·.1)).Nodup
  words : ∀ p ∈ a.entries, ∀ w ∈ p.1, w < bound
  unigrams : ∀ w, w < bound → a.gram [w] ≠ none
  /-- the probability bits the builder reads decode to the ARPA value — except for a hallucinated `<unk>` -/
  pval : ∀ g e, a.gram g = some e → ¬(a.unkHallucinated = true ∧ g = [0]) →
    P g < 2^32 ∧ fval (if g.length = 1 then P g else P g % 2^31 + 2^31) = e.prob ∧ fval (P g) = e.prob
  bval : ∀ g e, a.gram g = some e → B g < 2^32 ∧ fval (B g) = e.backoff ∧
    (B g = minusZero ↔ (e.backoff = 0 ∧ ¬(a.unkHallucinated = true ∧ g = [0])))
  /-- a hallucinated `<unk>` is the zeroed slot 0 of the unigram file while the builder runs (`unkSlot`) -/
  unk0 : a.unkHallucinated = true → P [0] = 0 ∧ B [0] = plusZero
  zero : fval plusZero = 0 ∧ fval minusZero = 0

/-- the `<unk>` fix-up `GenericModel::InitializeFromARPA` applies after the builder (`fixUnk`): `U` = bits of
`unknown_missing_logprob`; and the class the theorems exclude: when `<unk>` is hallucinated no blank has `<unk>` as its newest
word (`basis`; on that class the code computes the blank from the zeroed slot — known finding
`blank-based-on-hallucinated-unk`, witness `C03TrieBuild.unk_class_deviates`). -/
structure UnkOK (fval : Nat → Rat) (a : Arpa) (U : Nat) : Prop where
  bits : U < 2^32
  val : a.unkHallucinated = true → ∃ e, a.gram [0] = some e ∧ fval U = e.prob ∧ e.backoff = 0
  basis : a.unkHallucinated = true → ∀ w ctx, a.gram (w :: ctx) = none → extendsLeft a (w :: ctx) = true → w ≠ 0

def unkOf (a : Arpa) (U : Nat) : Option Nat := if a.unkHallucinated then some U else none

variable {fval : Nat → Rat} {a : Arpa} {bound : Nat} {P B : List Word → Nat}

theorem w_keysLt (enc : ArpaEncW fval a bound P B) : KeysLt (visitOrder (gramsOf a P B)) := by
  have hnd : ((gramsOf a P B).map (·.key)).Nodup := by
    have : (gramsOf a P B).map (·.key) = a.entries.map (·.1) := by simp [gramsOf, Function.comp]
    rw [this]; exact enc.nodup
  exact visitOrder_keysLt _ (hasDuplicate_false_of_nodup _ (nodup_visitOrder _ hnd))

theorem w_mem_real (enc : ArpaEncW fval a bound P B) (g : Gram) (hg : g ∈ visitOrder (gramsOf a P B)) :
    a.gram g.key ≠ none ∧ g.prob = P g.key ∧ g.backoff = B g.key := by
  have := (mem_visitOrder _ g).mp hg
  simp only [gramsOf, List.mem_map] at this
  obtain ⟨p, hp, rfl⟩ := this
  have := (gram_iff_mem enc.nodup p.1 p.2).mpr hp
  exact ⟨by simp [this], rfl, rfl⟩

theorem w_mem_of_real (enc : ArpaEncW fval a bound P B) (k : List Word) (e : Entry) (h : a.gram k = some e) :
    (⟨k, P k, B k⟩ : Gram) ∈ visitOrder (gramsOf a P B) := by
  rw [mem_visitOrder]; simp only [gramsOf, List.mem_map]
  exact ⟨(k, e), (gram_iff_mem enc.nodup k e).mp h, rfl⟩

theorem w_realOf (enc : ArpaEncW fval a bound P B) (k : List Word) :
    realOf (visitOrder (gramsOf a P B)) k = (a.gram k).map (fun _ => (⟨k, P k, B k⟩ : Gram)) := by
  cases hg : a.gram k with
  | some e =>
    have := realOf_of_mem (w_keysLt enc) _ (w_mem_of_real enc k e hg)
    simpa using this
  | none =>
    cases hr : realOf (visitOrder (gramsOf a P B)) k with
    | none => rfl
    | some r =>
      obtain ⟨hm, hk⟩ := realOf_mem _ _ _ hr
      have := (w_mem_real enc r hm).1
      rw [hk, hg] at this; exact absurd rfl this

theorem w_nonempty (enc : ArpaEncW fval a bound P B) (g : Gram) (hg : g ∈ visitOrder (gramsOf a P B)) : 1 ≤ g.key.length := by
  have := enc.wf.len_pos g.key (w_mem_real enc g hg).1
  cases hgk : g.key with
  | nil => exact absurd hgk this
  | cons _ _ => simp

/-- the pass succeeds on every well-formed model whose vocabulary is listed in the unigrams -/
theorem w_visit (enc : ArpaEncW fval a bound P B) :
    ∃ st, visitAll (visitOrder (gramsOf a P B)) = .ok st ∧ Full (visitOrder (gramsOf a P B)) (visitOrder (gramsOf a P B)) st := by
  apply visit_full _ (w_keysLt enc) (w_nonempty enc)
  intro g hg
  have hlen := w_nonempty enc g hg
  obtain ⟨hreal, _, _⟩ := w_mem_real enc g hg
  cases hk : g.key with
  | nil => rw [hk] at hlen; simp at hlen
  | cons w rest =>
    simp only [List.take_succ_cons, List.take_zero]
    have hw : w < bound := by
      cases hge : a.gram g.key with
      | none => exact absurd hge hreal
      | some e => exact enc.words (g.key, e) ((gram_iff_mem enc.nodup _ _).mp hge) w (by rw [hk]; simp)
    rw [w_realOf enc [w]]
    cases hu : a.gram [w] with
    | none => exact absurd hu (enc.unigrams w hw)
    | some _ => simp


variable {fval : Nat → Rat} {a : Arpa} {bound : Nat} {P B : List Word → Nat}

def msgsOf (blanks : List Blank) : List (List Word) := blanks.flatMap messageKeys

/-- marked back-off bits of a real entry in the presence of blanks -/
def markedBG (order : Nat) (sorted : List Gram) (blanks : List Blank) (g : List Word) (b : Nat) : Nat :=
  if g.length = order then 0
  else if b = minusZero ∧ ((ctxsOf sorted).contains g ∨ (msgsOf blanks).contains g) then plusZero else b

/-- the bit table of the builder: real entries in visit order with their marks, then the blanks with their summed probability
and their message mark -/
def genTable (fadd : Nat → Nat → Nat) (order : Nat) (sorted : List Gram) (blanks : List Blank) : BT :=
  sorted.map (fun g => (g.key, (g.prob, markedBG order sorted blanks g.key g.backoff))) ++
  blanks.map (fun b => (b.key, (blankProb fadd sorted b, if (msgsOf blanks).contains b.key then plusZero else minusZero)))

theorem buildTable_general (fadd : Nat → Nat → Nat) (enc : ArpaEncW fval a bound P B) :
    ∃ st b, visitAll (visitOrder (gramsOf a P B)) = .ok st ∧
      Full (visitOrder (gramsOf a P B)) (visitOrder (gramsOf a P B)) st ∧
      buildTable fadd a.order (gramsOf a P B) = .ok b ∧
      b.table = genTable fadd a.order (visitOrder (gramsOf a P B)) st.blanks ∧ b.blanks = st.blanks := by
  obtain ⟨st, hst, hfull⟩ := w_visit enc
  have hnd : ((gramsOf a P B).map (·.key)).Nodup := by
    have : (gramsOf a P B).map (·.key) = a.entries.map (·.1) := by simp [gramsOf, Function.comp]
    rw [this]; exact enc.nodup
  have hdup := hasDuplicate_false_of_nodup _ (nodup_visitOrder _ hnd)
  have hctx : (visitOrder (gramsOf a P B)).any
      (fun g => decide (g.key.length ≥ 2) && (realOf (visitOrder (gramsOf a P B)) (g.key.drop 1)).isNone) = false := by
    rw [List.any_eq_false]
    intro g hg
    simp only [Bool.and_eq_true, decide_eq_true_eq, not_and, Option.isNone_iff_eq_none]
    intro hl
    have hr := (w_mem_real enc g hg).1
    cases hk : g.key with
    | nil => rw [hk] at hl; simp at hl
    | cons x rest =>
      rw [hk] at hr hl
      have hrest : rest ≠ [] := by intro e; rw [e] at hl; simp at hl
      have := enc.wf.ctx_present x rest hrest hr
      simp only [List.drop_succ_cons, List.drop_zero]
      rw [w_realOf enc rest]
      cases hg2 : a.gram rest with
      | none => exact absurd hg2 this
      | some _ => simp
  unfold buildTable
  simp only [hdup, Bool.false_eq_true, if_false, hst, hctx]
  exact ⟨st, _, rfl, hfull, rfl, rfl, rfl⟩


/-- `g` is a blank of the model: not an n-gram, but a proper reversed prefix (length ≥ 2) of one -/
def IsBlankKey (a : Arpa) (g : List Word) : Prop :=
  a.gram g = none ∧ ∃ p, a.gram p ≠ none ∧ ∃ n, 2 ≤ n ∧ n < p.length ∧ g = p.take n

theorem w_realOf_none (enc : ArpaEncW fval a bound P B) (k : List Word) :
    realOf (visitOrder (gramsOf a P B)) k = none ↔ a.gram k = none := by
  rw [w_realOf enc k]; cases a.gram k <;> simp

theorem blank_iff (enc : ArpaEncW fval a bound P B) (st : VisitState)
    (hf : Full (visitOrder (gramsOf a P B)) (visitOrder (gramsOf a P B)) st) (g : List Word) :
    (∃ b ∈ st.blanks, b.key = g) ↔ IsBlankKey a g := by
  constructor
  · rintro ⟨b, hb, rfl⟩
    obtain ⟨gm, hgm, hok⟩ := hf.sound b hb
    obtain ⟨n, hn2, hnl, hbk⟩ := hok.isPrefix
    exact ⟨(w_realOf_none enc _).mp hok.notReal, gm.key, (w_mem_real enc gm hgm).1, n, hn2, hnl, hbk⟩
  · rintro ⟨hnr, p, hp, n, hn2, hnl, rfl⟩
    cases hge : a.gram p with
    | none => exact absurd hge hp
    | some e =>
      have hm := w_mem_of_real enc p e hge
      exact hf.complete _ hm n hn2 hnl ((w_realOf_none enc _).mpr hnr)

theorem genTable_keys (fadd : Nat → Nat → Nat) (order : Nat) (sorted : List Gram) (blanks : List Blank) :
    (genTable fadd order sorted blanks).map (·.1) = sorted.map (·.key) ++ blanks.map (·.key) := by
  simp only [genTable, List.map_append, List.map_map]
  rfl

theorem genTable_nodup (fadd : Nat → Nat → Nat) (enc : ArpaEncW fval a bound P B) (st : VisitState)
    (hf : Full (visitOrder (gramsOf a P B)) (visitOrder (gramsOf a P B)) st) :
    ((genTable fadd a.order (visitOrder (gramsOf a P B)) st.blanks).map (·.1)).Nodup := by
  rw [genTable_keys, List.nodup_append]
  have hnd : ((gramsOf a P B).map (·.key)).Nodup := by
    have : (gramsOf a P B).map (·.key) = a.entries.map (·.1) := by simp [gramsOf, Function.comp]
    rw [this]; exact enc.nodup
  refine ⟨nodup_visitOrder _ hnd, hf.nodup, ?_⟩
  intro k hk1 k' hk2 hkk
  subst hkk
  simp only [List.mem_map] at hk1 hk2
  obtain ⟨r, hr, rfl⟩ := hk1
  obtain ⟨b, hb, hbk⟩ := hk2
  have := ((blank_iff enc st hf r.key).mp ⟨b, hb, hbk⟩).1
  exact (w_mem_real enc r hr).1 this

theorem genTable_isKey (fadd : Nat → Nat → Nat) (enc : ArpaEncW fval a bound P B) (st : VisitState)
    (hf : Full (visitOrder (gramsOf a P B)) (visitOrder (gramsOf a P B)) st) (g : List Word) :
    IsKey (genTable fadd a.order (visitOrder (gramsOf a P B)) st.blanks) g ↔ (a.gram g ≠ none ∨ IsBlankKey a g) := by
  constructor
  · rintro ⟨p, hp, rfl⟩
    simp only [genTable, List.mem_append, List.mem_map] at hp
    rcases hp with ⟨r, hr, rfl⟩ | ⟨b, hb, rfl⟩
    · left; exact (w_mem_real enc r hr).1
    · right; exact (blank_iff enc st hf _).mp ⟨b, hb, rfl⟩
  · rintro (h | h)
    · cases hge : a.gram g with
      | none => exact absurd hge h
      | some e =>
        refine ⟨(g, (P g, markedBG a.order (visitOrder (gramsOf a P B)) st.blanks g (B g))), ?_, rfl⟩
        simp only [genTable, List.mem_append, List.mem_map]
        exact Or.inl ⟨_, w_mem_of_real enc g e hge, rfl⟩
    · obtain ⟨b, hb, hbk⟩ := (blank_iff enc st hf g).mpr h
      refine ⟨(b.key, (blankProb fadd (visitOrder (gramsOf a P B)) b,
        if (msgsOf st.blanks).contains b.key then plusZero else minusZero)), ?_, hbk⟩
      simp only [genTable, List.mem_append, List.mem_map]
      exact Or.inr ⟨b, hb, rfl⟩

theorem genTable_lookup_real (fadd : Nat → Nat → Nat) (enc : ArpaEncW fval a bound P B) (st : VisitState)
    (hf : Full (visitOrder (gramsOf a P B)) (visitOrder (gramsOf a P B)) st) (g : List Word) (e : Entry) (hg : a.gram g = some e) :
    (genTable fadd a.order (visitOrder (gramsOf a P B)) st.blanks).lookup g
      = some (P g, markedBG a.order (visitOrder (gramsOf a P B)) st.blanks g (B g)) := by
  apply lookup_of_mem_nodup _ _ _ (genTable_nodup fadd enc st hf)
  simp only [genTable, List.mem_append, List.mem_map]
  exact Or.inl ⟨_, w_mem_of_real enc g e hg, rfl⟩

theorem genTable_lookup_blank (fadd : Nat → Nat → Nat) (enc : ArpaEncW fval a bound P B) (st : VisitState)
    (hf : Full (visitOrder (gramsOf a P B)) (visitOrder (gramsOf a P B)) st) (b : Blank) (hb : b ∈ st.blanks) :
    (genTable fadd a.order (visitOrder (gramsOf a P B)) st.blanks).lookup b.key
      = some (blankProb fadd (visitOrder (gramsOf a P B)) b, if (msgsOf st.blanks).contains b.key then plusZero else minusZero) := by
  apply lookup_of_mem_nodup _ _ _ (genTable_nodup fadd enc st hf)
  simp only [genTable, List.mem_append, List.mem_map]
  exact Or.inr ⟨b, hb, rfl⟩


/-- unrolling of the back-off recursion between the longest matching n-gram (`j` words) and `j + m` words -/
theorem scoreAt_unroll (a : Arpa) (ctx : List Word) (w : Word) (j : Nat) (hj : 1 ≤ j) (e0 : Entry)
    (hreal : a.gram (w :: ctx.take (j - 1)) = some e0) :
    ∀ m, (∀ c, j ≤ c → c < j + m → a.gram (w :: ctx.take c) = none) →
      scoreAt a ctx w (j - 1 + m) = e0.prob + ((List.range' j m).map (fun c => a.boW (ctx.take c))).sum := by
  intro m
  induction m with
  | zero =>
    intro _
    simp only [Nat.add_zero, List.range'_zero, List.map_nil, List.sum_nil, Rat.add_zero]
    cases hj1 : j - 1 with
    | zero =>
      rw [hj1] at hreal
      simp only [scoreAt, Arpa.uniProb]
      simp only [List.take_zero] at hreal
      rw [hreal]
    | succ c =>
      rw [hj1] at hreal
      simp only [scoreAt, hreal]
  | succ m ih =>
    intro hnone
    have h1 : j - 1 + (m + 1) = (j - 1 + m) + 1 := by omega
    have h2 : j - 1 + m + 1 = j + m := by omega
    rw [h1]
    simp only [scoreAt]
    rw [h2, hnone (j + m) (by omega) (by omega)]
    simp only
    rw [ih (fun c hc1 hc2 => hnone c hc1 (by omega)), List.range'_concat, List.map_append, List.sum_append]
    simp only [List.map_cons, List.map_nil, List.sum_cons, List.sum_nil, Nat.one_mul, Rat.add_zero]
    rw [Rat.add_comm (a.boW _), Rat.add_assoc]


theorem msgValue_eq_boW (enc : ArpaEncW fval a bound P B) (k : List Word) :
    msgValue fval (visitOrder (gramsOf a P B)) k = a.boW k := by
  unfold msgValue Arpa.boW
  rw [w_realOf enc k]
  cases hg : a.gram k with
  | none => rfl
  | some e => simp only [Option.map_some]; exact (enc.bval k e hg).2.1

/-- **value of a blank = the ARPA back-off recursion** (under an exact shared addition) -/
theorem blank_score (enc : ArpaEncW fval a bound P B) (fadd : Nat → Nat → Nat) (st : VisitState)
    (hf : Full (visitOrder (gramsOf a P B)) (visitOrder (gramsOf a P B)) st) (b : Blank) (hb : b ∈ st.blanks)
    (hval : fval (blankProb fadd (visitOrder (gramsOf a P B)) b)
      = fval b.basis + ((messageKeys b).map (msgValue fval (visitOrder (gramsOf a P B)))).sum)
    (w : Word) (ctx : List Word) (hk : b.key = w :: ctx) (hunk : a.unkHallucinated = true → w ≠ 0) :
    fval (blankProb fadd (visitOrder (gramsOf a P B)) b) = score a ctx w := by
  obtain ⟨gm, hgm, hok⟩ := hf.sound b hb
  obtain ⟨n, hn2, hnl, hbk⟩ := hok.isPrefix
  have hlen : b.key.length = n := by rw [hbk, List.length_take]; omega
  have hctxl : ctx.length = n - 1 := by rw [hk] at hlen; simp at hlen; omega
  obtain ⟨hj1, hjn⟩ := hok.based
  rw [hlen] at hjn
  have htake : ∀ t, t ≤ n → gm.key.take t = (w :: ctx).take t := by
    intro t ht
    rw [← hk, hbk, List.take_take]; congr 1; omega
  -- the basis
  obtain ⟨r, hr, hrp⟩ := hok.basis
  rw [htake b.basedOn (by omega)] at hr
  have hshape : (w :: ctx).take b.basedOn = w :: ctx.take (b.basedOn - 1) := by
    cases hbo : b.basedOn with
    | zero => omega
    | succ t => simp
  rw [hshape, w_realOf enc] at hr
  cases hge : a.gram (w :: ctx.take (b.basedOn - 1)) with
  | none => rw [hge] at hr; cases hr
  | some e0 =>
    rw [hge] at hr
    simp only [Option.map_some, Option.some.injEq] at hr
    have hbasis : fval b.basis = e0.prob := by
      rw [← hrp, ← hr]
      refine (enc.pval _ e0 hge ?_).2.2
      rintro ⟨hu, heq⟩
      exact hunk hu (List.cons.inj heq).1
    -- the longer prefixes are not real
    have hnone : ∀ c, b.basedOn ≤ c → c < b.basedOn + (n - b.basedOn) → a.gram (w :: ctx.take c) = none := by
      intro c h1 h2
      have := hok.longest (c + 1) (by omega) (by omega)
      rw [htake (c + 1) (by omega)] at this
      simp only [List.take_succ_cons] at this
      exact (w_realOf_none enc _).mp this
    have hun := scoreAt_unroll a ctx w b.basedOn hj1 e0 hge (n - b.basedOn) hnone
    have hidx : b.basedOn - 1 + (n - b.basedOn) = n - 1 := by omega
    rw [hidx] at hun
    have hord : n - 1 ≤ a.order - 1 := by
      have := enc.wf.len_le gm.key (w_mem_real enc gm hgm).1
      omega
    unfold score
    rw [hctxl, Nat.min_eq_left hord, hun, hval, hbasis]
    congr 1
    unfold messageKeys
    rw [hlen, List.map_map]
    congr 1
    apply List.map_congr_left
    intro i _
    simp only [Function.comp, hk, List.drop_succ_cons, List.drop_zero]
    exact msgValue_eq_boW enc _


theorem mem_msgsOf (blanks : List Blank) (g : List Word) :
    g ∈ msgsOf blanks ↔ ∃ b ∈ blanks, ∃ i, b.basedOn ≤ i ∧ i < b.key.length ∧ g = (b.key.drop 1).take i := by
  simp only [msgsOf, List.mem_flatMap, messageKeys, List.mem_map, List.mem_range'_1]
  constructor
  · rintro ⟨b, hb, i, ⟨h1, h2⟩, rfl⟩
    exact ⟨b, hb, i, h1, by omega, rfl⟩
  · rintro ⟨b, hb, i, h1, h2, rfl⟩
    exact ⟨b, hb, i, ⟨h1, by omega⟩, rfl⟩

theorem mem_ctxs (sorted : List Gram) (g : List Word) :
    g ∈ ctxsOf sorted ↔ ∃ r ∈ sorted, 2 ≤ r.key.length ∧ r.key.drop 1 = g := by
  simp only [ctxsOf, List.mem_filterMap]
  constructor
  · rintro ⟨r, hr, h⟩
    split at h
    · rename_i hl; exact ⟨r, hr, hl, Option.some.inj h⟩
    · cases h
  · rintro ⟨r, hr, hl, rfl⟩
    exact ⟨r, hr, by rw [if_pos hl]⟩

/-- **marks**: a key is the context of a real next-order entry or the addressee of a blank's message iff it is a context in
the sense of `Table.build` (some table entry, real or blank, has it as context) -/
theorem marks_iff_isContext (enc : ArpaEncW fval a bound P B) (st : VisitState)
    (hf : Full (visitOrder (gramsOf a P B)) (visitOrder (gramsOf a P B)) st) (g : List Word) (hg : g ≠ []) :
    (g ∈ ctxsOf (visitOrder (gramsOf a P B)) ∨ g ∈ msgsOf st.blanks) ↔ isContext a g = true := by
  have hgl : 1 ≤ g.length := by cases g with | nil => exact absurd rfl hg | cons _ _ => simp
  unfold isContext
  rw [List.any_eq_true]
  constructor
  · rintro (h | h)
    · obtain ⟨r, hr, hl, rfl⟩ := (mem_ctxs _ _).mp h
      obtain ⟨hreal, _, _⟩ := w_mem_real enc r hr
      cases hge : a.gram r.key with
      | none => exact absurd hge hreal
      | some e =>
        refine ⟨(r.key, e), (gram_iff_mem enc.nodup _ _).mp hge, ?_⟩
        simp only [Bool.and_eq_true, decide_eq_true_eq, List.isPrefixOf_iff_prefix, List.length_drop]
        exact ⟨by omega, by rw [← List.drop_one]; exact List.prefix_refl _⟩
    · obtain ⟨b, hb, i, hi1, hi2, rfl⟩ := (mem_msgsOf _ _).mp h
      obtain ⟨gm, hgm, hok⟩ := hf.sound b hb
      obtain ⟨n, hn2, hnl, hbk⟩ := hok.isPrefix
      have hbl : b.key.length = n := by rw [hbk, List.length_take]; omega
      obtain ⟨hreal, _, _⟩ := w_mem_real enc gm hgm
      cases hge : a.gram gm.key with
      | none => exact absurd hge hreal
      | some e =>
        refine ⟨(gm.key, e), (gram_iff_mem enc.nodup _ _).mp hge, ?_⟩
        have e1 : (b.key.drop 1).take i = (gm.key.drop 1).take i := by
          rw [hbk, List.drop_take, List.take_take]; congr 1; omega
        simp only [Bool.and_eq_true, decide_eq_true_eq, List.isPrefixOf_iff_prefix, e1, List.length_take, List.length_drop]
        exact ⟨by omega, by rw [← List.drop_one]; exact List.take_prefix _ _⟩
  · rintro ⟨p, hp, hc⟩
    simp only [Bool.and_eq_true, decide_eq_true_eq, List.isPrefixOf_iff_prefix] at hc
    obtain ⟨hlt, hpre⟩ := hc
    have hpg : a.gram p.1 = some p.2 := (gram_iff_mem enc.nodup p.1 p.2).mpr hp
    -- q = first word of p followed by g
    have hq : (p.1.take (g.length + 1)).drop 1 = g := by
      rw [List.drop_take]
      simp only [Nat.add_sub_cancel]
      rw [List.drop_one]
      exact (List.prefix_iff_eq_take.mp hpre).symm
    by_cases hreal : a.gram (p.1.take (g.length + 1)) = none
    · -- a blank: it sends a message to g
      right
      have hlt2 : g.length + 1 < p.1.length := by
        by_cases he : g.length + 1 = p.1.length
        · rw [he, List.take_length, hpg] at hreal; cases hreal
        · omega
      obtain ⟨b, hb, hbk⟩ := (blank_iff enc st hf _).mpr
        ⟨hreal, p.1, by rw [hpg]; simp, g.length + 1, by omega, hlt2, rfl⟩
      obtain ⟨gm, hgm, hok⟩ := hf.sound b hb
      have hbl : b.key.length = g.length + 1 := by rw [hbk, List.length_take]; omega
      rw [mem_msgsOf]
      refine ⟨b, hb, g.length, by have := hok.based.2; omega, by omega, ?_⟩
      rw [hbk, hq]
      exact (List.take_length).symm
    · left
      cases hge : a.gram (p.1.take (g.length + 1)) with
      | none => exact absurd hge hreal
      | some e =>
        rw [mem_ctxs]
        exact ⟨_, w_mem_of_real enc _ e hge, by simp only [List.length_take]; omega, hq⟩


theorem gen_children_extendsLeft (fadd : Nat → Nat → Nat) (enc : ArpaEncW fval a bound P B) (st : VisitState)
    (hf : Full (visitOrder (gramsOf a P B)) (visitOrder (gramsOf a P B)) st) (g : List Word) (hg : g ≠ []) :
    (!(childrenOf (genTable fadd a.order (visitOrder (gramsOf a P B)) st.blanks) g).isEmpty) = extendsLeft a g := by
  have hgl : 1 ≤ g.length := by cases g with | nil => exact absurd rfl hg | cons _ _ => simp
  apply Bool.eq_iff_iff.mpr
  rw [extendsLeft_iff]
  constructor
  · intro h
    cases hc : childrenOf (genTable fadd a.order (visitOrder (gramsOf a P B)) st.blanks) g with
    | nil => rw [hc] at h; simp at h
    | cons w ws =>
      have hw : w ∈ childrenOf (genTable fadd a.order (visitOrder (gramsOf a P B)) st.blanks) g := by rw [hc]; simp
      rcases (genTable_isKey fadd enc st hf _).mp ((mem_childrenOf _ g w).mp hw) with h1 | h1
      · exact ⟨g ++ [w], h1, by simp, List.prefix_append _ _⟩
      · obtain ⟨_, p, hp, n, hn2, hnl, hk⟩ := h1
        refine ⟨p, hp, ?_, ?_⟩
        · have := congrArg List.length hk; simp [List.length_take] at this; omega
        · have : g <+: g ++ [w] := List.prefix_append _ _
          rw [hk] at this
          exact List.IsPrefix.trans this (List.take_prefix _ _)
  · rintro ⟨p, hp, hl, ⟨ys, rfl⟩⟩
    cases ys with
    | nil => simp at hl
    | cons w ys =>
      have hk : IsKey (genTable fadd a.order (visitOrder (gramsOf a P B)) st.blanks) (g ++ [w]) := by
        rw [genTable_isKey fadd enc st hf]
        by_cases hr : a.gram (g ++ [w]) = none
        · right
          have hys : ys ≠ [] := by
            intro e; rw [e] at hp; simp at hp; exact hp hr
          refine ⟨hr, g ++ w :: ys, hp, g.length + 1, by omega, ?_, ?_⟩
          · simp; cases ys with | nil => exact absurd rfl hys | cons _ _ => simp
          · have : g ++ w :: ys = (g ++ [w]) ++ ys := by simp
            rw [this, List.take_left' (by simp)]
        · left; exact hr
      have : w ∈ childrenOf (genTable fadd a.order (visitOrder (gramsOf a P B)) st.blanks) g := (mem_childrenOf _ g w).mpr hk
      cases hc : childrenOf (genTable fadd a.order (visitOrder (gramsOf a P B)) st.blanks) g with
      | nil => rw [hc] at this; simp at this
      | cons _ _ => simp

/-- a blank key has a child (the next longer prefix of the n-gram it comes from) -/
theorem blank_extendsLeft (a : Arpa) (g : List Word) (h : IsBlankKey a g) : extendsLeft a g = true := by
  obtain ⟨_, p, hp, n, _, hnl, rfl⟩ := h
  rw [extendsLeft_iff]
  exact ⟨p, hp, by rw [List.length_take]; omega, List.take_prefix _ _⟩


end KV.TrieBuild

namespace KV.TrieLM
open KV.Arpa KV.Table KV.Score

/-- two tables with the same keys and, per key, the same observable entry (probability, back-off, both extension marks);
the ghost flag `blank` may differ -/
def TableAgree (T1 T2 : Table) : Prop :=
  T1.order = T2.order ∧ ∀ g, match T1.lookup g, T2.lookup g with
    | some t1, some t2 => Score.toFound t1 = Score.toFound t2
    | none, none => True
    | _, _ => False

theorem TableAgree.ne_none {T1 T2 : Table} (h : TableAgree T1 T2) (g : List Word) : T2.lookup g ≠ none → T1.lookup g ≠ none := by
  have := h.2 g
  cases h1 : T1.lookup g <;> cases h2 : T2.lookup g <;> simp [h1, h2] at this ⊢

theorem TableAgree.some {T1 T2 : Table} (h : TableAgree T1 T2) (g : List Word) (t1 : TEntry) (h1 : T1.lookup g = some t1) :
    ∃ t2, T2.lookup g = some t2 ∧ Score.toFound t1 = Score.toFound t2 := by
  have := h.2 g
  cases h2 : T2.lookup g with
  | none => simp [h1, h2] at this
  | some t2 => simp only [h1, h2] at this; exact ⟨t2, rfl, this⟩

theorem toFound_prob {t1 t2 : TEntry} (h : Score.toFound t1 = Score.toFound t2) : t1.prob = t2.prob := by
  have := congrArg Found.prob h; simpa [Score.toFound] using this

/-- `Represents` only looks at the observable part of the table -/
theorem Represents.transfer {fval : Nat → Rat} {M : Trie} {T1 T2 : Table} {rng : List Word → Node}
    (rep : Represents fval M T1 rng) (h : TableAgree T1 T2) : Represents fval M T2 rng := by
  refine ⟨by rw [rep.order, h.1], ?_, ?_, ?_, ?_, ?_, rep.long_bound, ?_, ?_, ?_⟩
  · intro w hw
    obtain ⟨t, ht, hf, hr⟩ := rep.uni w hw
    obtain ⟨t2, ht2, he⟩ := h.some _ t ht
    exact ⟨t2, ht2, by rw [hf, he], hr⟩
  · intro om2 hom; exact rep.mid_bound om2 (by rw [h.1]; exact hom)
  · intro g om2 hg hl hom; exact rep.mid_sorted g om2 (h.ne_none g hg) hl (by rw [h.1]; exact hom)
  · intro g om2 i hg hl hom h1 h2
    obtain ⟨t, ht, hf, hr⟩ := rep.mid_rec g om2 i (h.ne_none g hg) hl (by rw [h.1]; exact hom) h1 h2
    obtain ⟨t2, ht2, he⟩ := h.some _ t ht
    exact ⟨t2, ht2, by rw [hf, he], hr⟩
  · intro g om2 w hg hl hom hgw
    exact rep.mid_all g om2 w (h.ne_none g hg) hl (by rw [h.1]; exact hom) (h.ne_none _ hgw)
  · intro g hg h1 hl; exact rep.long_sorted g (h.ne_none g hg) h1 (by rw [h.1]; exact hl)
  · intro g i hg h1 hl hb he
    obtain ⟨t, ht, hp⟩ := rep.long_rec g i (h.ne_none g hg) h1 (by rw [h.1]; exact hl) hb he
    obtain ⟨t2, ht2, he2⟩ := h.some _ t ht
    exact ⟨t2, ht2, by rw [hp]; exact toFound_prob he2⟩
  · intro g w hg h1 hl hgw
    exact rep.long_all g w (h.ne_none g hg) h1 (by rw [h.1]; exact hl) (h.ne_none _ hgw)


end KV.TrieLM

namespace KV.TrieBuild
open KV.Arpa KV.Table KV.TrieLM KV.Score
variable {fval : Nat → Rat} {a : Arpa} {bound : Nat} {P B : List Word → Nat}

/-- a non-real key that extends left is a blank key (unigrams are all real) -/
theorem blankKey_of_extendsLeft (enc : ArpaEncW fval a bound P B) (g : List Word) (hg : g ≠ []) (hnr : a.gram g = none)
    (hx : extendsLeft a g = true) : IsBlankKey a g := by
  obtain ⟨p, hp, hl, hpre⟩ := (extendsLeft_iff a g).mp hx
  have hgt : g = p.take g.length := List.prefix_iff_eq_take.mp hpre
  refine ⟨hnr, p, hp, g.length, ?_, hl, hgt⟩
  cases g with
  | nil => exact absurd rfl hg
  | cons w rest =>
    cases rest with
    | cons _ _ => simp
    | nil =>
      exfalso
      cases hge : a.gram p with
      | none => exact absurd hge hp
      | some e =>
        have hw : w ∈ p := by
          obtain ⟨t, ht⟩ := hpre; rw [← ht]; simp
        have := enc.unigrams w (enc.words (p, e) ((gram_iff_mem enc.nodup _ _).mp hge) w hw)
        exact this hnr

theorem blank_len (enc : ArpaEncW fval a bound P B) (g : List Word) (h : IsBlankKey a g) : 2 ≤ g.length ∧ g.length < a.order := by
  obtain ⟨_, p, hp, n, hn2, hnl, rfl⟩ := h
  have := enc.wf.len_le p hp
  rw [List.length_take]; omega

theorem blank_not_ctx (enc : ArpaEncW fval a bound P B) (g : List Word) (h : IsBlankKey a g) :
    g ∉ ctxsOf (visitOrder (gramsOf a P B)) := by
  intro hc
  obtain ⟨r, hr, hl, hd⟩ := (mem_ctxs _ _).mp hc
  obtain ⟨hreal, _, _⟩ := w_mem_real enc r hr
  cases hk : r.key with
  | nil => rw [hk] at hl; simp at hl
  | cons x rest =>
    rw [hk] at hreal hd hl
    simp only [List.drop_succ_cons, List.drop_zero] at hd
    have hrest : rest ≠ [] := by intro e; rw [e] at hl; simp at hl
    have := enc.wf.ctx_present x rest hrest hreal
    rw [hd] at this
    exact this h.1


theorem found_ext (p1 p2 b1 b2 : Rat) (l1 l2 r1 r2 k1 k2 : Bool) (hp : p1 = p2) (hb : b1 = b2) (hl : l1 = l2) (hr : r1 = r2) :
    Score.toFound ⟨p1, b1, l1, r1, k1⟩ = Score.toFound ⟨p2, b2, l2, r2, k2⟩ := by
  subst hp; subst hb; subst hl; subst hr; rfl

/-! ### the `<unk>` fix-up keeps the keys and changes only the record of `[0]` -/

theorem fixUnk_keys (u : Option Nat) (T : BT) : (fixUnk u T).map (·.1) = T.map (·.1) := by
  cases u with
  | none => rfl
  | some u =>
    simp only [fixUnk, List.map_map]
    apply List.map_congr_left
    intro p _
    simp only [Function.comp]
    split <;> rfl

theorem isKey_fixUnk (u : Option Nat) (T : BT) (g : List Nat) : IsKey (fixUnk u T) g ↔ IsKey T g := by
  have h : ∀ T' : BT, IsKey T' g ↔ g ∈ T'.map (·.1) := by
    intro T'; simp only [IsKey, List.mem_map]
  rw [h, h, fixUnk_keys]

theorem childrenOf_fixUnk (u : Option Nat) (T : BT) (g : List Nat) : childrenOf (fixUnk u T) g = childrenOf T g := by
  cases u with
  | none => rfl
  | some u =>
    unfold childrenOf fixUnk
    congr 1
    rw [List.filterMap_map]
    congr 1
    funext p
    simp only [Function.comp]
    split <;> rfl

theorem entryOf_fixUnk (u : Option Nat) (T : BT) (order : Nat) (g : List Nat) :
    entryOf fval (fixUnk u T) order g = entryOf fval T order g := by
  funext v
  unfold entryOf
  rw [childrenOf_fixUnk]

theorem lookup_fixUnk_some (u : Nat) (T : BT) (g : List Nat) :
    (fixUnk (some u) T).lookup g = if g = [0] then (T.lookup g).map (fun _ => (u, plusZero)) else T.lookup g := by
  induction T with
  | nil => simp [fixUnk, List.lookup]
  | cons p ps ih =>
    obtain ⟨k, v⟩ := p
    have ih' : (List.map (fun e : List Nat × (Nat × Nat) => if e.1 = [0] then (e.1, (u, plusZero)) else e) ps).lookup g
        = if g = [0] then (ps.lookup g).map (fun _ => (u, plusZero)) else ps.lookup g := ih
    by_cases hk : g = k
    · subst hk
      by_cases h0 : g = [0]
      · simp [fixUnk, List.lookup, h0]
      · simp [fixUnk, List.lookup, h0]
    · have hb : (g == k) = false := by simpa using hk
      by_cases h0 : k = [0]
      · simp only [fixUnk, List.map_cons, h0, if_true, List.lookup] at ih' ⊢
        rw [h0] at hb
        simp only [hb]
        exact ih'
      · simp only [fixUnk, List.map_cons, h0, if_false, List.lookup, hb] at ih' ⊢
        exact ih'

theorem lookup_fixUnk_ne (u : Option Nat) (T : BT) (g : List Nat) (h : u = none ∨ g ≠ [0]) :
    (fixUnk u T).lookup g = T.lookup g := by
  cases u with
  | none => rfl
  | some u =>
    rw [lookup_fixUnk_some]
    rcases h with h | h
    · cases h
    · simp [h]

theorem fixUnk_btok (u : Option Nat) (T : BT) (bound order : Nat) (ok : BTOK T bound order) : BTOK (fixUnk u T) bound order := by
  have hmem : ∀ p ∈ fixUnk u T, ∃ q ∈ T, q.1 = p.1 := by
    intro p hp
    have : p.1 ∈ (fixUnk u T).map (·.1) := List.mem_map.mpr ⟨p, hp, rfl⟩
    rw [fixUnk_keys] at this
    obtain ⟨q, hq, he⟩ := List.mem_map.mp this
    exact ⟨q, hq, he⟩
  refine ⟨ok.order2, by rw [fixUnk_keys]; exact ok.nodup, ?_, ?_, ?_, ?_⟩
  · intro p hp; obtain ⟨q, hq, he⟩ := hmem p hp; rw [← he]; exact ok.len q hq
  · intro p hp; obtain ⟨q, hq, he⟩ := hmem p hp; rw [← he]; exact ok.words q hq
  · intro w hw; rw [isKey_fixUnk]; exact ok.unigrams w hw
  · intro p hp h2
    obtain ⟨q, hq, he⟩ := hmem p hp
    rw [isKey_fixUnk, ← he]; rw [← he] at h2
    exact ok.parent q hq h2

theorem fixUnk_vals (u : Option Nat) (T : BT) (hu : ∀ x, u = some x → x < 2^32) (hv : ValsOK T) : ValsOK (fixUnk u T) := by
  cases u with
  | none => exact hv
  | some x =>
    intro p hp
    simp only [fixUnk, List.mem_map] at hp
    obtain ⟨q, hq, rfl⟩ := hp
    split
    · exact ⟨hu x rfl, (by decide : plusZero < 2^32)⟩
    · exact hv q hq

/-- **the builder's bit table agrees with `Table.build a`** on every key: real entries and blanks, values and marks -/
theorem gen_table_agree (fadd : Nat → Nat → Nat) (enc : ArpaEncW fval a bound P B) (st : VisitState)
    (hf : Full (visitOrder (gramsOf a P B)) (visitOrder (gramsOf a P B)) st)
    (hval : ∀ b ∈ st.blanks, fval (blankProb fadd (visitOrder (gramsOf a P B)) b)
      = fval b.basis + ((messageKeys b).map (msgValue fval (visitOrder (gramsOf a P B)))).sum)
    (hsign : ∀ b ∈ st.blanks, fval (blankProb fadd (visitOrder (gramsOf a P B)) b % 2^31 + 2^31)
      = fval (blankProb fadd (visitOrder (gramsOf a P B)) b))
    (U : Nat) (uk : UnkOK fval a U) :
    TableAgree (tableOf (ftOf fval (fixUnk (unkOf a U) (genTable fadd a.order (visitOrder (gramsOf a P B)) st.blanks)) a.order)
      a.order) (Table.build a) := by
  refine ⟨rfl, ?_⟩
  intro g
  rw [lookup_ftOf, entryOf_fixUnk]
  by_cases hug : a.unkHallucinated = true ∧ g = [0]
  · -- the record the fix-up wrote
    obtain ⟨hu, rfl⟩ := hug
    obtain ⟨e, hge, hUv, hb0⟩ := uk.val hu
    have hun : unkOf a U = some U := by simp [unkOf, hu]
    rw [hun, lookup_fixUnk_some, if_pos rfl, genTable_lookup_real fadd enc st hf _ e hge]
    have hel := gen_children_extendsLeft fadd enc st hf [0] (by simp)
    have ho : (1 : Nat) ≠ a.order := by have := enc.wf.order_ge; omega
    simp only [Table.build, hge, Option.map_some]
    unfold entryOf
    apply found_ext
    · simpa using hUv
    · simp [ho, hb0, enc.zero.1]
    · simp only [List.length_singleton, ho, if_false]; exact hel
    · simp [ho, hu, plusZero, noExtensionBits]
  rw [lookup_fixUnk_ne _ _ _ (by
    by_cases hu : a.unkHallucinated = true
    · right; intro h0; exact hug ⟨hu, h0⟩
    · left; simp [unkOf, hu])]
  cases g with
  | nil =>
    have h1 : (genTable fadd a.order (visitOrder (gramsOf a P B)) st.blanks).lookup [] = none := by
      cases hl : (genTable fadd a.order (visitOrder (gramsOf a P B)) st.blanks).lookup [] with
      | none => rfl
      | some v =>
        exfalso
        rcases (genTable_isKey fadd enc st hf []).mp ((lookup_ne_none_iff _ _).mp (by rw [hl]; simp)) with h | h
        · exact enc.wf.len_pos [] h rfl
        · have := (blank_len enc [] h).1; simp at this
    rw [h1]; simp [Table.build]
  | cons w ctx =>
    cases hg : a.gram (w :: ctx) with
    | some e =>
      rw [genTable_lookup_real fadd enc st hf _ e hg]
      obtain ⟨hP, hPv, _⟩ := enc.pval _ e hg hug
      obtain ⟨hB, hBv, hBz⟩ := enc.bval _ e hg
      simp only [Table.build, hg, Option.map_some]
      unfold entryOf markedBG
      by_cases hl : (w :: ctx).length = a.order
      · have hbo := enc.wf.top_bo _ e hg hl
        have hunk : ((w :: ctx) == [0]) = false := by
          cases ctx with
          | nil => have := enc.wf.order_ge; simp at hl; omega
          | cons c cs => simp
        apply found_ext
        · exact hPv
        · simp [hl, hbo]
        · simp [hl, top_no_extendsLeft enc.wf _ hl]
        · simp [hl, hbo, top_no_isContext enc.wf _ hl, hunk]
      · have hmk := marks_iff_isContext enc st hf (w :: ctx) (by simp)
        have hel := gen_children_extendsLeft fadd enc st hf (w :: ctx) (by simp)
        apply found_ext
        · exact hPv
        · simp only [hl, if_false]
          split
          · rename_i hm
            rw [enc.zero.1, (hBz.mp hm.1).1]
          · exact hBv
        · simp only [hl, if_false]; exact hel
        · simp only [hl, if_false]
          apply Bool.eq_iff_iff.mpr
          simp only [List.contains_iff_mem] at *
          simp only [bne_iff_ne, ne_eq, Bool.or_eq_true, Bool.and_eq_true, beq_iff_eq]
          constructor
          · intro hnz
            by_cases hm : B (w :: ctx) = minusZero ∧
                (w :: ctx ∈ ctxsOf (visitOrder (gramsOf a P B)) ∨ w :: ctx ∈ msgsOf st.blanks)
            · left; right; exact hmk.mp hm.2
            · rw [if_neg hm] at hnz
              have : ¬ (e.backoff = 0 ∧ ¬(a.unkHallucinated = true ∧ w :: ctx = [0])) := fun h => hnz (hBz.mpr h)
              by_cases hb0 : e.backoff = 0
              · right
                by_cases hu : a.unkHallucinated = true ∧ w :: ctx = [0]
                · exact hu
                · exact absurd ⟨hb0, hu⟩ this
              · left; left; exact hb0
          · intro h
            by_cases hm : B (w :: ctx) = minusZero ∧
                (w :: ctx ∈ ctxsOf (visitOrder (gramsOf a P B)) ∨ w :: ctx ∈ msgsOf st.blanks)
            · rw [if_pos hm]; decide
            · rw [if_neg hm]
              intro hz
              have hz' := hBz.mp hz
              rcases h with (h | h) | h
              · exact h hz'.1
              · exact hm ⟨hz, hmk.mpr h⟩
              · exact hz'.2 h
    | none =>
      by_cases hx : extendsLeft a (w :: ctx) = true
      · -- a blank
        have hbk := blankKey_of_extendsLeft enc (w :: ctx) (by simp) hg hx
        obtain ⟨b, hb, hkey⟩ := (blank_iff enc st hf _).mpr hbk
        have hlook := genTable_lookup_blank fadd enc st hf b hb
        rw [hkey] at hlook
        rw [hlook]
        obtain ⟨hl2, hlo⟩ := blank_len enc _ hbk
        simp only [Table.build, hg, hx, if_true, Option.map_some]
        unfold entryOf
        have hne1 : (w :: ctx).length ≠ 1 := by omega
        have hneo : (w :: ctx).length ≠ a.order := by omega
        have hmk := marks_iff_isContext enc st hf (w :: ctx) (by simp)
        have hnc := blank_not_ctx enc _ hbk
        apply found_ext
        · simp only [hne1, if_false]
          rw [hsign b hb]; exact blank_score enc fadd st hf b hb (hval b hb) w ctx hkey (fun hu => uk.basis hu w ctx hg hx)
        · simp only [hneo, if_false]
          split
          · exact enc.zero.1
          · exact enc.zero.2
        · simp only [hneo, if_false]
          rw [gen_children_extendsLeft fadd enc st hf (w :: ctx) (by simp), hx]
        · simp only [hneo, if_false, Bool.not_false, Bool.and_true]
          apply Bool.eq_iff_iff.mpr
          simp only [List.contains_iff_mem, bne_iff_ne, ne_eq]
          constructor
          · intro hnz
            by_cases hm : w :: ctx ∈ msgsOf st.blanks
            · exact hmk.mp (Or.inr hm)
            · rw [if_neg hm] at hnz; exact absurd rfl hnz
          · intro h
            rcases hmk.mpr h with h1 | h1
            · exact absurd h1 hnc
            · rw [if_pos h1]; decide
      · have hx' : extendsLeft a (w :: ctx) = false := by simpa using hx
        have h1 : (genTable fadd a.order (visitOrder (gramsOf a P B)) st.blanks).lookup (w :: ctx) = none := by
          cases hl : (genTable fadd a.order (visitOrder (gramsOf a P B)) st.blanks).lookup (w :: ctx) with
          | none => rfl
          | some v =>
            exfalso
            rcases (genTable_isKey fadd enc st hf _).mp ((lookup_ne_none_iff _ _).mp (by rw [hl]; simp)) with h | h
            · exact h hg
            · rw [blank_extendsLeft a _ h] at hx'; cases hx'
        rw [h1]; simp [Table.build, hg, hx']


/-- every non-empty reversed prefix of an n-gram is an n-gram or a blank key -/
theorem take_key (enc : ArpaEncW fval a bound P B) (p : List Word) (e : Entry) (hp : a.gram p = some e) (t : Nat)
    (ht1 : 1 ≤ t) (ht : t ≤ p.length) : a.gram (p.take t) ≠ none ∨ IsBlankKey a (p.take t) := by
  by_cases hr : a.gram (p.take t) = none
  · right
    have hne : t ≠ p.length := by intro e2; rw [e2, List.take_length, hp] at hr; cases hr
    have ht2 : 2 ≤ t := by
      by_cases h1 : t = 1
      · exfalso
        subst h1
        cases p with
        | nil => simp at ht
        | cons w rest =>
          simp only [List.take_succ_cons, List.take_zero] at hr
          have := enc.unigrams w (enc.words (w :: rest, e) ((gram_iff_mem enc.nodup _ _).mp hp) w (by simp))
          exact this hr
      · omega
    exact ⟨hr, p, by rw [hp]; simp, t, ht2, by omega, rfl⟩
  · left; exact hr

theorem genTable_btok (fadd : Nat → Nat → Nat) (enc : ArpaEncW fval a bound P B) (st : VisitState)
    (hf : Full (visitOrder (gramsOf a P B)) (visitOrder (gramsOf a P B)) st) :
    BTOK (genTable fadd a.order (visitOrder (gramsOf a P B)) st.blanks) bound a.order := by
  have hkey : ∀ p ∈ genTable fadd a.order (visitOrder (gramsOf a P B)) st.blanks,
      a.gram p.1 ≠ none ∨ IsBlankKey a p.1 := fun p hp => (genTable_isKey fadd enc st hf p.1).mp ⟨p, hp, rfl⟩
  refine ⟨enc.wf.order_ge, genTable_nodup fadd enc st hf, ?_, ?_, ?_, ?_⟩
  · intro p hp
    rcases hkey p hp with h | h
    · have h1 := enc.wf.len_pos p.1 h
      refine ⟨?_, enc.wf.len_le p.1 h⟩
      cases hk : p.1 with
      | nil => exact absurd hk h1
      | cons _ _ => simp
    · have := blank_len enc _ h; omega
  · intro p hp w hw
    rcases hkey p hp with h | h
    · cases hge : a.gram p.1 with
      | none => exact absurd hge h
      | some e => exact enc.words (p.1, e) ((gram_iff_mem enc.nodup _ _).mp hge) w hw
    · obtain ⟨_, q, hq, n, _, _, hk⟩ := h
      cases hge : a.gram q with
      | none => exact absurd hge hq
      | some e =>
        rw [hk] at hw
        exact enc.words (q, e) ((gram_iff_mem enc.nodup _ _).mp hge) w (List.mem_of_mem_take hw)
  · intro w hw
    exact (genTable_isKey fadd enc st hf [w]).mpr (Or.inl (enc.unigrams w hw))
  · intro p hp h2
    rw [genTable_isKey fadd enc st hf]
    have hdl : p.1.dropLast = p.1.take (p.1.length - 1) := List.dropLast_eq_take
    rcases hkey p hp with h | h
    · cases hge : a.gram p.1 with
      | none => exact absurd hge h
      | some e => rw [hdl]; exact take_key enc p.1 e hge _ (by omega) (by omega)
    · obtain ⟨_, q, hq, n, hn2, hnl, hk⟩ := h
      cases hge : a.gram q with
      | none => exact absurd hge hq
      | some e =>
        have hl : p.1.length = n := by rw [hk, List.length_take]; omega
        rw [hdl, hl, hk, List.take_take]
        have : min (n - 1) n = n - 1 := by omega
        rw [this]
        exact take_key enc q e hge _ (by omega) (by omega)

theorem genTable_vals (fadd : Nat → Nat → Nat) (enc : ArpaEncW fval a bound P B) (st : VisitState)
    (hbits : ∀ b ∈ st.blanks, blankProb fadd (visitOrder (gramsOf a P B)) b < 2^32) :
    ValsOK (genTable fadd a.order (visitOrder (gramsOf a P B)) st.blanks) := by
  intro p hp
  simp only [genTable, List.mem_append, List.mem_map] at hp
  rcases hp with ⟨r, hr, rfl⟩ | ⟨b, hb, rfl⟩
  · obtain ⟨hreal, hp1, hb1⟩ := w_mem_real enc r hr
    cases hge : a.gram r.key with
    | none => exact absurd hge hreal
    | some e =>
      refine ⟨?_, ?_⟩
      · simp only [hp1]
        by_cases hu : a.unkHallucinated = true ∧ r.key = [0]
        · rw [hu.2, (enc.unk0 hu.1).1]; decide
        · exact (enc.pval _ e hge hu).1
      simp only [markedBG, hb1]
      have hB := (enc.bval _ e hge).1
      split
      · decide
      · split
        · decide
        · exact hB
  · refine ⟨hbits b hb, ?_⟩
    simp only
    split <;> decide


end KV.TrieBuild
