import Proofs.ProbingBuildBlank
/-! The set of stored keys along the fold: which blanks a line adds, and the invariants of the stored-key set
(prefix-closed, context-closed, contains every processed line, only keys of `Table.build a`). -/
namespace KV.ProbingBuild
open KV.Arpa KV.Table KV.Score KV.ProbingLM

/-- the suffixes of `p` (lengths `j`, `j-1`, … ≥ 2) that are not stored yet, lowest order first: the blanks
`FindLower` inserts -/
def missing (S : List Key) (p : Key) : Nat → List Key
  | 0 => []
  | 1 => []
  | j+2 => if p.take (j+2) ∈ S then [] else missing S p (j+1) ++ [p.take (j+2)]

def addLineKeys (S : List Key) (p : Key) : List Key := S ++ missing S p (p.length - 1) ++ [p]

/-- keys of `Table.build a`: n-grams of the model and their proper reversed prefixes -/
def IsKey (a : Arpa) (k : Key) : Prop := k ≠ [] ∧ (a.gram k ≠ none ∨ extendsLeft a k = true)

theorem isKey_take (a : Arpa) (k : Key) (hk : IsKey a k) (j : Nat) (hj : 1 ≤ j) (hjl : j ≤ k.length) : IsKey a (k.take j) := by
  refine ⟨by intro h; have := congrArg List.length h; simp only [List.length_take, List.length_nil] at this; omega, ?_⟩
  by_cases he : j = k.length
  · subst he; rw [List.take_length]; exact hk.2
  · right
    rw [extendsLeft_iff]
    rcases hk.2 with hr | hx
    · exact ⟨k, hr, by rw [List.length_take]; omega, List.take_prefix _ _⟩
    · obtain ⟨p, hp, hl, hpre⟩ := (extendsLeft_iff _ _).mp hx
      exact ⟨p, hp, by rw [List.length_take]; omega, List.IsPrefix.trans (List.take_prefix _ _) hpre⟩

structure SInv (a : Arpa) (S : List Key) : Prop where
  len2 : ∀ k ∈ S, 2 ≤ k.length
  keys : ∀ k ∈ S, IsKey a k
  pc : ∀ k ∈ S, 3 ≤ k.length → k.take (k.length - 1) ∈ S
  cs : ∀ k ∈ S, 3 ≤ k.length → k.drop 1 ∈ S

/-- prefix-closure gives every prefix of length ≥ 2 -/
theorem SInv.take_mem {a : Arpa} {S : List Key} (h : SInv a S) (k : Key) (hk : k ∈ S) :
    ∀ d j, j + d = k.length → 2 ≤ j → k.take j ∈ S := by
  intro d
  induction d generalizing k with
  | zero => intro j hj _; have : j = k.length := by omega
            subst this; rw [List.take_length]; exact hk
  | succ d ih =>
    intro j hj h2
    have h3 : 3 ≤ k.length := by omega
    have := ih (k.take (k.length - 1)) (h.pc k hk h3) j (by rw [List.length_take]; omega) h2
    rw [List.take_take] at this
    have hm : min j (k.length - 1) = j := by omega
    rw [hm] at this; exact this

theorem missing_mem (S : List Key) (p : Key) : ∀ j k, k ∈ missing S p j → ∃ i, 2 ≤ i ∧ i ≤ j ∧ k = p.take i ∧ k ∉ S := by
  intro j
  induction j using Nat.strongRecOn with
  | _ j ih =>
    intro k hk
    match j, hk with
    | 0, hk => simp [missing] at hk
    | 1, hk => simp [missing] at hk
    | j+2, hk =>
      simp only [missing] at hk
      split at hk
      · simp at hk
      · rename_i hns
        rcases List.mem_append.mp hk with h | h
        · obtain ⟨i, h1, h2, h3, h4⟩ := ih (j+1) (by omega) k h
          exact ⟨i, h1, by omega, h3, h4⟩
        · simp at h; subst h; exact ⟨j+2, by omega, Nat.le_refl _, rfl, hns⟩

/-- with a prefix-closed `S`: if `p.take i ∉ S` for some `i ≤ j`, then everything between is missing too, i.e.
`missing` collects exactly the non-stored suffixes down to the first stored one -/
theorem mem_missing_of_not_mem {a : Arpa} {S : List Key} (h : SInv a S) (p : Key) :
    ∀ j, j ≤ p.length → ∀ i, 2 ≤ i → i ≤ j → p.take i ∉ S → p.take i ∈ missing S p j := by
  intro j
  induction j using Nat.strongRecOn with
  | _ j ih =>
    intro hjl i h2 hij hns
    match j, hjl, hij with
    | 0, _, hij => omega
    | 1, _, hij => omega
    | j+2, hjl, hij =>
      simp only [missing]
      by_cases hs : p.take (j+2) ∈ S
      · exfalso
        have := h.take_mem _ hs (j + 2 - i) i (by rw [List.length_take]; omega) h2
        rw [List.take_take] at this
        have hm : min i (j+2) = i := by omega
        rw [hm] at this; exact hns this
      · simp only [hs, if_false]
        by_cases he : i = j + 2
        · subst he; simp
        · exact List.mem_append_left _ (ih (j+1) (by omega) (by omega) i h2 (by omega) hns)

end KV.ProbingBuild

namespace KV.ProbingBuild
open KV.Arpa KV.Table KV.Score KV.ProbingLM

theorem take_drop_one (p : Key) (i : Nat) (hi : 1 ≤ i) : (p.take i).drop 1 = (p.drop 1).take (i - 1) := by
  rw [List.drop_take]

theorem mem_addLineKeys (S : List Key) (p k : Key) :
    k ∈ addLineKeys S p ↔ k ∈ S ∨ k ∈ missing S p (p.length - 1) ∨ k = p := by
  simp [addLineKeys, or_assoc]

/-- the stored-key invariants survive a line (its context being stored already) -/
theorem sInv_addLine {a : Arpa} {S : List Key} (h : SInv a S) (p : Key) (hreal : a.gram p ≠ none) (h2 : 2 ≤ p.length)
    (hctx : 3 ≤ p.length → p.drop 1 ∈ S) : SInv a (addLineKeys S p) := by
  have hkp : IsKey a p := ⟨by intro hn; rw [hn] at h2; simp at h2, Or.inl hreal⟩
  have htake : ∀ i, 2 ≤ i → i ≤ p.length → p.take i ∈ addLineKeys S p := by
    intro i hi2 hil
    rw [mem_addLineKeys]
    by_cases he : i = p.length
    · subst he; right; right; exact List.take_length
    · by_cases hs : p.take i ∈ S
      · exact Or.inl hs
      · exact Or.inr (Or.inl (mem_missing_of_not_mem h p (p.length - 1) (by omega) i hi2 (by omega) hs))
  refine ⟨?_, ?_, ?_, ?_⟩
  · intro k hk
    rcases (mem_addLineKeys S p k).mp hk with hk | hk | hk
    · exact h.len2 k hk
    · obtain ⟨i, h1, h3, h4, _⟩ := missing_mem S p _ k hk
      rw [h4, List.length_take]; omega
    · subst hk; exact h2
  · intro k hk
    rcases (mem_addLineKeys S p k).mp hk with hk | hk | hk
    · exact h.keys k hk
    · obtain ⟨i, h1, h3, h4, _⟩ := missing_mem S p _ k hk
      rw [h4]; exact isKey_take a p hkp i (by omega) (by omega)
    · subst hk; exact hkp
  · intro k hk h3
    rcases (mem_addLineKeys S p k).mp hk with hk | hk | hk
    · exact (mem_addLineKeys S p _).mpr (Or.inl (h.pc k hk h3))
    · obtain ⟨i, h1, h3', h4, _⟩ := missing_mem S p _ k hk
      have hkl : k.length = i := by rw [h4, List.length_take]; omega
      rw [hkl] at h3 ⊢
      rw [h4, List.take_take]
      have hm : min (i - 1) i = i - 1 := by omega
      rw [hm]
      exact htake (i - 1) (by omega) (by omega)
    · subst hk; exact htake (k.length - 1) (by omega) (by omega)
  · intro k hk h3
    rcases (mem_addLineKeys S p k).mp hk with hk | hk | hk
    · exact (mem_addLineKeys S p _).mpr (Or.inl (h.cs k hk h3))
    · obtain ⟨i, h1, h3', h4, _⟩ := missing_mem S p _ k hk
      have hkl : k.length = i := by rw [h4, List.length_take]; omega
      rw [hkl] at h3
      rw [h4, take_drop_one p i (by omega)]
      have hc := hctx (by omega)
      have := h.take_mem _ hc (p.length - 1 - (i - 1)) (i - 1) (by rw [List.length_drop]; omega) (by omega)
      exact (mem_addLineKeys S p _).mpr (Or.inl this)
    · subst hk; exact (mem_addLineKeys S k _).mpr (Or.inl (hctx h3))

end KV.ProbingBuild
