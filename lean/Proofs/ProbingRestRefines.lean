import Model.Left
import Proofs.ProbingRefines
/-! The probing structure with separate rest costs (`HashedSearch<RestValue>`) refines `KV.Left.restSearch T R`, the
search over the abstract table whose `Rest()` returns `R` — the search C08's theorems are stated for. -/
namespace KV.ProbingLM
open KV.Arpa KV.Table KV.Score KV.State KV.Left

variable (combine : Nat → Word → Nat)

/-- as `Represents`, the payloads carrying `rest = R g` -/
structure RepresentsR (P : PLM) (T : Table) (R : List Word → Rat) (Mmid : Nat → Nat → Option Nat) (Mlong : Nat → Option Nat) : Prop where
  order : P.order = T.order
  uni : ∀ w, P.uni w = ((restSearch T R).lookupUnigram w).1
  mid_inv : ∀ om2, KV.Probing.Inv id (P.middle om2) ∧ KV.Probing.Abs (P.middle om2) (Mmid om2)
  long_inv : KV.Probing.Inv id P.longest ∧ KV.Probing.Abs P.longest Mlong
  mid_stored : ∀ om2 g t, g.length = om2 + 2 → om2 + 2 < T.order → T.lookup g = some t →
    ∃ v, Mmid om2 (hashOf combine g) = some v ∧ P.payload om2 v = { toFound t with rest := R g }
  mid_only : ∀ om2 k v, Mmid om2 k = some v → ∃ g, g.length = om2 + 2 ∧ hashOf combine g = k ∧ T.lookup g ≠ none
  long_stored : ∀ g t, g.length = T.order → T.lookup g = some t → ∃ v, Mlong (hashOf combine g) = some v ∧ P.longestProb v = t.prob
  long_only : ∀ k v, Mlong k = some v → ∃ g, g.length = T.order ∧ hashOf combine g = k ∧ T.lookup g ≠ none

theorem probing_simR (P : PLM) (T : Table) (R : List Word → Rat) (Mmid : Nat → Nat → Option Nat) (Mlong : Nat → Option Nat)
    (rep : RepresentsR combine P T R Mmid Mlong) (inj : HashInjective combine T) (hN : 2 ≤ T.order) :
    Sim (search combine P) (restSearch T R) (fun d n g => g.length = d ∧ n = hashOf combine g ∧ g ≠ []) := by
  refine ⟨rep.order, ?_, ?_, ?_⟩
  · intro w
    exact ⟨rep.uni w, rfl, rfl, by simp [restSearch]⟩
  · intro om2 w n g hom ⟨hl, hn, hg⟩
    have hk : combine n w = hashOf combine (g ++ [w]) := by rw [hn, hashOf_append combine g hg]
    have hlen : (g ++ [w]).length = om2 + 2 := by simp [hl]
    have hom' : om2 + 2 < T.order := by rw [← rep.order]; exact hom
    have hfind := KV.C20.find_correct id (P.middle om2) (Mmid om2) (rep.mid_inv om2).1 (rep.mid_inv om2).2 (combine n w)
    have hres : (match KV.Probing.find id (P.middle om2) (combine n w) with
        | some (some v) => some (P.payload om2 v)
        | _ => none) = foundOf T R (g ++ [w]) := by
      rw [hfind, hk]
      unfold foundOf
      cases hl' : T.lookup (g ++ [w]) with
      | some t =>
        obtain ⟨v, hv, hp⟩ := rep.mid_stored om2 _ t hlen hom' hl'
        simp [hv, hp]
      | none =>
        cases hm : Mmid om2 (hashOf combine (g ++ [w])) with
        | none => simp
        | some v =>
          obtain ⟨g', hg'l, hg'h, hg'n⟩ := rep.mid_only om2 _ v hm
          have := inj (g ++ [w]) g' (by rw [hlen, hg'l]) hg'n hg'h.symm
          rw [← this, hl'] at hg'n
          exact absurd rfl hg'n
    refine ⟨?_, ?_⟩
    · simp only [search, restSearch]; exact hres
    · intro _
      exact ⟨hlen, by simp only [search]; exact hk, by simp [restSearch]⟩
  · intro w n g ⟨hl, hn, hg⟩
    have hk : combine n w = hashOf combine (g ++ [w]) := by rw [hn, hashOf_append combine g hg]
    have hlen : (g ++ [w]).length = T.order := by
      simp [hl]; have : (search combine P).order = P.order := rfl
      rw [this, rep.order]; omega
    have hfind := KV.C20.find_correct id P.longest Mlong rep.long_inv.1 rep.long_inv.2 (combine n w)
    simp only [search, restSearch]
    rw [hfind, hk]
    cases hl' : T.lookup (g ++ [w]) with
    | some t =>
      obtain ⟨v, hv, hp⟩ := rep.long_stored _ t hlen hl'
      simp [hv, hp]
    | none =>
      cases hm : Mlong (hashOf combine (g ++ [w])) with
      | none => simp
      | some v =>
        obtain ⟨g', hg'l, hg'h, hg'n⟩ := rep.long_only _ v hm
        have := inj (g ++ [w]) g' (by rw [hlen, hg'l]) hg'n hg'h.symm
        rw [← this, hl'] at hg'n
        exact absurd rfl hg'n

end KV.ProbingLM
