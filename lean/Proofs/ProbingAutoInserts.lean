import Proofs.ProbingInserts
import Proofs.ProbingAutoP2Run
/-!
Headline corollary for the growing table: any number of distinct keys, any initial size.
-/
namespace KV.Probing

theorem runMap_inserts : ∀ (kvs : List (Nat × Nat)) (M : Nat → Option Nat),
    (∀ e, e ∈ kvs → M e.1 = none) → kvs.Pairwise (fun a b => a.1 ≠ b.1) →
    ∃ M', runMap M (insertsOf kvs) = some (kvs.map (fun _ => Out.done), M') ∧
      (∀ k v, M' k = some v ↔ M k = some v ∨ (k, v) ∈ kvs) := by
  intro kvs
  induction kvs with
  | nil =>
    intro M _ _
    exact ⟨M, rfl, by intro k v; simp⟩
  | cons e rest ih =>
    intro M hfresh hpw
    obtain ⟨k, v⟩ := e
    rw [List.pairwise_cons] at hpw
    obtain ⟨hk, hpw'⟩ := hpw
    have hMk : M k = none := hfresh (k, v) (List.mem_cons_self ..)
    have hstep : stepMap M (Op.insert k v) = some (Out.done, upd M k v) := by
      simp [stepMap, hMk]
    have hfresh' : ∀ e, e ∈ rest → (upd M k v) e.1 = none := by
      intro e he
      have hne : e.1 ≠ k := fun h => hk e he h.symm
      simp [upd, hne]
      exact hfresh e (List.mem_cons_of_mem _ he)
    obtain ⟨M', hrun, hM⟩ := ih (upd M k v) hfresh' hpw'
    refine ⟨M', ?_, ?_⟩
    · show runMap M (Op.insert k v :: insertsOf rest) = _
      simp only [runMap, hstep]
      rw [show insertsOf rest = List.map (fun e => Op.insert e.1 e.2) rest from rfl] at hrun
      simp only [insertsOf, hrun, List.map_cons]
    · intro k' v'
      rw [hM k' v', List.mem_cons]
      unfold upd
      by_cases hkk : k' = k
      · subst hkk
        simp [hMk]
        constructor
        · rintro (h | h)
          · left; exact h.symm
          · right; exact h
        · rintro (h | h)
          · left; exact h.symm
          · right; exact h
      · simp [hkk]

/-- **`AutoProbing` (as compiled: `Power2Mod` backend, `RoundBuckets(x)` initial buckets, the code's
threshold): after inserting any list of distinct keys, of any length, every inserted key is found
with its value and every other key is absent** -/
theorem auto_inserted_found (h : Nat → Nat) (x : Nat) (h1 : 1 ≤ x) (h2 : x ≤ 2^63) (kvs : List (Nat × Nat))
    (hd : kvs.Pairwise (fun a b => a.1 ≠ b.1)) :
    ∃ a, runAP2 h thetaReal { t := emptyTable (roundBuckets x), thr := thetaReal (roundBuckets x) } (insertsOf kvs)
        = some (kvs.map (fun _ => Out.done), a) ∧
      (∀ k v, (k, v) ∈ kvs → a.find h k = some (some v)) ∧
      (∀ k, (∀ v, (k, v) ∉ kvs) → a.find h k = some none) := by
  obtain ⟨M', hrun, hM⟩ := runMap_inserts kvs (fun _ => none) (fun _ _ => rfl) hd
  obtain ⟨j, hj, _, _⟩ := roundBuckets_spec x h1 h2
  have hpos : 0 < roundBuckets x := by rw [hj]; exact Nat.two_pow_pos j
  obtain ⟨a, ha, ref, _⟩ := runAP2_refines h thetaReal thetaReal_ok (insertsOf kvs) _ _ _ M'
    (auto_init h thetaReal _ hpos) ⟨j, hj⟩ hrun
  refine ⟨a, ha, ?_, ?_⟩
  · intro k v hkv
    show find h a.t k = _
    rw [find_correct' h a.t M' ref.ai.inv ref.abs k, (hM k v).2 (Or.inr hkv)]
  · intro k hk
    show find h a.t k = _
    rw [find_correct' h a.t M' ref.ai.inv ref.abs k]
    cases hMk : M' k with
    | none => rfl
    | some v =>
      rcases (hM k v).1 hMk with h1 | h1
      · cases h1
      · exact absurd h1 (hk v)

/-- the `UncheckedInsert` loop diverges exactly on a completely full table -/
theorem firstEmpty_none_full (s : Slots) (N : Nat) : ∀ fuel i, i < N → firstEmpty s N fuel i = none →
    ∀ x, x < N → dist N i x < fuel → s x ≠ none := by
  intro fuel
  induction fuel with
  | zero => intro i _ _ x _ h; omega
  | succ f ih =>
    intro i hi h x hx hdx
    cases hsi : s i with
    | none => simp [firstEmptyWith, hsi] at h
    | some en =>
      simp [firstEmptyWith, hsi] at h
      by_cases hix : i = x
      · subst hix; rw [hsi]; simp
      · have := dist_next N i x hi hx hix
        exact ih (next N i) (next_lt N i hi) h x hx (by omega)

theorem firstEmpty_diverges_iff' (s : Slots) (N i : Nat) (hi : i < N) :
    firstEmpty s N N i = none ↔ ∀ x, x < N → s x ≠ none := by
  constructor
  · intro h x hx
    exact firstEmpty_none_full s N N i hi h x hx (dist_lt N i x hi hx)
  · intro hall
    cases hfe : firstEmpty s N N i with
    | none => rfl
    | some q =>
      exfalso
      -- the returned bucket is empty and below N
      have : ∀ fuel i q, i < N → firstEmpty s N fuel i = some q → q < N ∧ s q = none := by
        intro fuel
        induction fuel with
        | zero => intro i q _ h; simp [firstEmptyWith] at h
        | succ f ih =>
          intro i q hi h
          cases hsi : s i with
          | none => simp [firstEmptyWith, hsi] at h; subst h; exact ⟨hi, hsi⟩
          | some en =>
            simp [firstEmptyWith, hsi] at h
            exact ih (next N i) q (next_lt N i hi) h
      obtain ⟨hq, hqs⟩ := this N i q hi hfe
      exact hall q hq hqs

end KV.Probing
