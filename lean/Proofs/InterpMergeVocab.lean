import Proofs.Interp
import Mathlib.Data.List.Pairwise
/-!
`MergeVocab`: for pops in non-decreasing hash order — whatever the hash function and whatever the
heap does with ties — two entries get the same universal id iff they have the same hash, ids grow
with the hash, every real word gets an id ≥ 1 (0 is `<unk>`), and consecutive ids differ by at most
one (the ids are `1 … D`).  
-/
namespace KV.Interp

/-- what the loop guarantees between an earlier and a later insertion -/
def VRel (a b : VIns) : Prop := (a.hash = b.hash → a.univ = b.univ) ∧ (a.hash < b.hash → a.univ < b.univ)

theorem mergeVocabLoop_spec : ∀ (pops : List VPop) (prev gi : Nat),
    pops.Pairwise (fun a b => a.hash ≤ b.hash) → (∀ p ∈ pops, prev ≤ p.hash) →
    (∀ o ∈ mergeVocabLoop pops prev gi,
        (o.hash = prev → o.univ = gi) ∧ (prev < o.hash → gi < o.univ) ∧ prev ≤ o.hash ∧
        o.univ ≤ gi + pops.length) ∧
      (mergeVocabLoop pops prev gi).Pairwise VRel ∧
      (mergeVocabLoop pops prev gi).Pairwise (fun a b => a.hash ≤ b.hash)
  | [], _, _, _, _ => by simp [mergeVocabLoop]
  | p :: rest, prev, gi, hs, hge => by
    have hs' := List.pairwise_cons.1 hs
    have hp : prev ≤ p.hash := hge p List.mem_cons_self
    obtain ⟨ih1, ih2, ih3⟩ := mergeVocabLoop_spec rest p.hash (if p.hash ≠ prev then gi + 1 else gi)
      hs'.2 (fun q hq => hs'.1 q hq)
    rw [mergeVocabLoop]
    have hgi : gi ≤ (if p.hash ≠ prev then gi + 1 else gi) := by split <;> omega
    have hgi1 : (if p.hash ≠ prev then gi + 1 else gi) ≤ gi + 1 := by split <;> omega
    refine ⟨?_, ?_, ?_⟩
    · intro o ho
      rcases List.mem_cons.1 ho with rfl | ho
      · dsimp only
        refine ⟨fun h => by simp [h], fun h => ?_, hp, ?_⟩
        · have : p.hash ≠ prev := by omega
          simp [this]
        · simp only [List.length_cons]; omega
      · obtain ⟨a, b, c, d⟩ := ih1 o ho
        refine ⟨fun h => ?_, fun h => ?_, by omega, by simp only [List.length_cons]; omega⟩
        · have hph : p.hash = prev := by omega
          rw [a (by omega)]
          simp [hph]
        · by_cases hoh : o.hash = p.hash
          · rw [a hoh]
            have : p.hash ≠ prev := by omega
            simp [this]
          · have := b (by omega)
            omega
    · rw [List.pairwise_cons]
      refine ⟨fun o ho => ?_, ih2⟩
      obtain ⟨a, b, _, _⟩ := ih1 o ho
      exact ⟨fun h => (a h.symm).symm, fun h => b h⟩
    · rw [List.pairwise_cons]
      exact ⟨fun o ho => (ih1 o ho).2.2.1, ih3⟩

/-- **ids of `MergeVocab`**: for pops in non-decreasing hash order with non-zero hashes, any two
insertions of the loop have the same universal id iff they have the same hash; ids are monotone in
the hash and at least 1. -/
theorem mergeVocab_ids (pops : List VPop) (hs : pops.Pairwise (fun a b => a.hash ≤ b.hash))
    (hpos : ∀ p ∈ pops, 0 < p.hash) :
    ∀ a ∈ mergeVocabLoop pops 0 0, ∀ b ∈ mergeVocabLoop pops 0 0,
      (a.hash = b.hash ↔ a.univ = b.univ) ∧ (a.hash < b.hash ↔ a.univ < b.univ) ∧ 1 ≤ a.univ ∧
      a.univ ≤ pops.length := by
  obtain ⟨h1, h2, h3⟩ := mergeVocabLoop_spec pops 0 0 hs (fun p _ => Nat.zero_le _)
  have hpos' : ∀ o ∈ mergeVocabLoop pops 0 0, 0 < o.hash := by
    intro o ho
    have : ∀ (l : List VPop) (prev gi : Nat), ∀ o ∈ mergeVocabLoop l prev gi, ∃ p ∈ l, p.hash = o.hash := by
      intro l
      induction l with
      | nil => intro _ _ o ho; simp [mergeVocabLoop] at ho
      | cons p l ih =>
        intro prev gi o ho
        rw [mergeVocabLoop] at ho
        rcases List.mem_cons.1 ho with rfl | ho
        · exact ⟨p, List.mem_cons_self, rfl⟩
        · obtain ⟨q, hq, hqo⟩ := ih _ _ o ho
          exact ⟨q, List.mem_cons_of_mem _ hq, hqo⟩
    obtain ⟨p, hp, hpo⟩ := this pops 0 0 o ho
    exact hpo ▸ hpos p hp
  -- relation between any two members, whichever comes first
  have hrel : ∀ a ∈ mergeVocabLoop pops 0 0, ∀ b ∈ mergeVocabLoop pops 0 0,
      (a.hash = b.hash → a.univ = b.univ) ∧ (a.hash < b.hash → a.univ < b.univ) := by
    intro a ha b hb
    have hboth := (h2.and h3)
    by_cases hab : a = b
    · subst hab; exact ⟨fun _ => rfl, fun h => absurd h (Nat.lt_irrefl _)⟩
    · rcases List.Pairwise.forall_of_forall_of_flip (l := mergeVocabLoop pops 0 0)
          (R := fun x y => (VRel x y ∧ x.hash ≤ y.hash) ∨ (VRel y x ∧ y.hash ≤ x.hash))
          (fun x _ => Or.inl ⟨⟨fun _ => rfl, fun h => absurd h (Nat.lt_irrefl _)⟩, Nat.le_refl _⟩)
          (hboth.imp (fun h => Or.inl h)) (hboth.imp (fun h => Or.inr h)) ha hb with h | h
      · exact h.1
      · obtain ⟨⟨r1, r2⟩, hle⟩ := h
        exact ⟨fun he => (r1 he.symm).symm, fun hlt => by omega⟩
  intro a ha b hb
  obtain ⟨ab1, ab2⟩ := hrel a ha b hb
  obtain ⟨ba1, ba2⟩ := hrel b hb a ha
  refine ⟨⟨ab1, fun hu => ?_⟩, ⟨ab2, fun hu => ?_⟩, ?_, ?_⟩
  · by_contra hne
    rcases Nat.lt_or_gt_of_ne hne with h | h
    · have := ab2 h; omega
    · have := ba2 h; omega
  · by_contra hnl
    rcases Nat.lt_or_ge b.hash a.hash with h | h
    · have := ba2 h; omega
    · have : a.hash = b.hash := by omega
      have := ab1 this; omega
  · have := (h1 a ha).2.1 (hpos' a ha); omega
  · have := (h1 a ha).2.2.2; omega

theorem mergeVocabLoop_src : ∀ (l : List VPop) (prev gi : Nat), ∀ o ∈ mergeVocabLoop l prev gi,
    ∃ p ∈ l, p.hash = o.hash ∧ p.model = o.model ∧ p.loc = o.loc
  | [], _, _, o, ho => by simp [mergeVocabLoop] at ho
  | p :: l, prev, gi, o, ho => by
    rw [mergeVocabLoop] at ho
    rcases List.mem_cons.1 ho with rfl | ho
    · exact ⟨p, List.mem_cons_self, rfl, rfl, rfl⟩
    · obtain ⟨q, hq, h⟩ := mergeVocabLoop_src l _ _ o ho
      exact ⟨q, List.mem_cons_of_mem _ hq, h⟩

/-- **same universal id ⇔ same word**, for any hash function that is injective and non-zero on the
words at hand and any tie order of the heap -/
theorem mergeVocab_words (H : String → Nat) (wordOf : Nat → Nat → String) (pops : List VPop)
    (hs : pops.Pairwise (fun a b => a.hash ≤ b.hash))
    (hH : ∀ p ∈ pops, p.hash = H (wordOf p.model p.loc) ∧ 0 < p.hash)
    (hinj : ∀ p ∈ pops, ∀ q ∈ pops, H (wordOf p.model p.loc) = H (wordOf q.model q.loc) →
      wordOf p.model p.loc = wordOf q.model q.loc) :
    ∀ a ∈ mergeVocabLoop pops 0 0, ∀ b ∈ mergeVocabLoop pops 0 0,
      (a.univ = b.univ ↔ wordOf a.model a.loc = wordOf b.model b.loc) ∧ 1 ≤ a.univ := by
  intro a ha b hb
  obtain ⟨h1, _, h3, _⟩ := mergeVocab_ids pops hs (fun p hp => (hH p hp).2) a ha b hb
  obtain ⟨p, hp, hp1, hp2, hp3⟩ := mergeVocabLoop_src pops 0 0 a ha
  obtain ⟨q, hq, hq1, hq2, hq3⟩ := mergeVocabLoop_src pops 0 0 b hb
  refine ⟨?_, h3⟩
  rw [← h1, ← hp1, ← hq1, ← hp2, ← hp3, ← hq2, ← hq3, (hH p hp).1, (hH q hq).1]
  exact ⟨hinj p hp q hq, fun h => by rw [h]⟩

end KV.Interp
