import Model.Binary
/-! Helper lemmas for C04: little-endian bytes, header writer / parser round trip. -/
namespace KV.Binary
open KV.Gen.C04 KV.Bits
theorem length_leBytes (w v : Nat) : (leBytes w v).length = w := by
  induction w generalizing v with
  | zero => rfl
  | succ n ih => simp [leBytes, ih]

theorem ofLe_leBytes (w v : Nat) (h : v < 256^w) : ofLe (leBytes w v) = v := by
  induction w generalizing v with
  | zero => simp at h; simp [leBytes, ofLe, h]
  | succ n ih =>
    simp only [leBytes, ofLe]
    have : v / 256 < 256^n := by
      rw [Nat.div_lt_iff_lt_mul (by decide)]; rw [Nat.pow_succ] at h; exact h
    rw [ih _ this]; omega

/-- the field `b` that sits after a prefix of known length -/
theorem field_at {α} (a b c : List α) (n w : Nat) (hn : a.length = n) (hw : b.length = w) :
    ((a ++ (b ++ c)).drop n).take w = b := by
  subst hn; subst hw; simp

structure FixedWF (f : Fixed) : Prop where
  order : f.order < 256
  mult : f.multBits < 2^32
  ty : f.modelType < 2^32
  ver : f.searchVersion < 2^32

theorem length_fixedBytes (f : Fixed) : (fixedBytes f).length = sizeofFixed := by
  simp [fixedBytes, length_leBytes, zeros, sizeofFixed, offMultiplier, sizeofModelType, offSearchVersion, offHasVocab, sizeofSearchVersion]

theorem readFixed_fixedBytes (f : Fixed) (h : FixedWF f) (tail : List Nat) :
    readFixed (fixedBytes f ++ tail) = some f := by
  unfold readFixed
  have hl : ¬ (fixedBytes f ++ tail).length < sizeofFixed := by
    simp [length_fixedBytes]
  rw [if_neg hl]
  have e1 : ((fixedBytes f ++ tail).drop offOrder).take 1 = leBytes 1 f.order := by
    have := field_at ([] : List Nat) (leBytes 1 f.order) (zeros (offMultiplier - 1) ++ leBytes 4 f.multBits
      ++ leBytes sizeofModelType f.modelType ++ leBytes 1 (if f.hasVocab then 1 else 0) ++ zeros (offSearchVersion - offHasVocab - 1)
      ++ leBytes sizeofSearchVersion f.searchVersion ++ tail) 0 1 rfl (length_leBytes _ _)
    simpa [fixedBytes, offOrder, List.append_assoc] using this
  have e2 : ((fixedBytes f ++ tail).drop offMultiplier).take 4 = leBytes 4 f.multBits := by
    have := field_at (leBytes 1 f.order ++ zeros (offMultiplier - 1)) (leBytes 4 f.multBits)
      (leBytes sizeofModelType f.modelType ++ leBytes 1 (if f.hasVocab then 1 else 0) ++ zeros (offSearchVersion - offHasVocab - 1)
      ++ leBytes sizeofSearchVersion f.searchVersion ++ tail) offMultiplier 4 (by simp [length_leBytes, zeros, offMultiplier]) (length_leBytes _ _)
    simpa [fixedBytes, List.append_assoc] using this
  have e3 : ((fixedBytes f ++ tail).drop offModelType).take sizeofModelType = leBytes sizeofModelType f.modelType := by
    have := field_at (leBytes 1 f.order ++ zeros (offMultiplier - 1) ++ leBytes 4 f.multBits) (leBytes sizeofModelType f.modelType)
      (leBytes 1 (if f.hasVocab then 1 else 0) ++ zeros (offSearchVersion - offHasVocab - 1)
      ++ leBytes sizeofSearchVersion f.searchVersion ++ tail) offModelType sizeofModelType (by simp [length_leBytes, zeros, offMultiplier, offModelType]) (length_leBytes _ _)
    simpa [fixedBytes, List.append_assoc] using this
  have e4 : ((fixedBytes f ++ tail).drop offHasVocab).take 1 = leBytes 1 (if f.hasVocab then 1 else 0) := by
    have := field_at (leBytes 1 f.order ++ zeros (offMultiplier - 1) ++ leBytes 4 f.multBits ++ leBytes sizeofModelType f.modelType)
      (leBytes 1 (if f.hasVocab then 1 else 0)) (zeros (offSearchVersion - offHasVocab - 1)
      ++ leBytes sizeofSearchVersion f.searchVersion ++ tail) offHasVocab 1 (by simp [length_leBytes, zeros, offMultiplier, offHasVocab, sizeofModelType]) (length_leBytes _ _)
    simpa [fixedBytes, List.append_assoc] using this
  have e5 : ((fixedBytes f ++ tail).drop offSearchVersion).take sizeofSearchVersion = leBytes sizeofSearchVersion f.searchVersion := by
    have := field_at (leBytes 1 f.order ++ zeros (offMultiplier - 1) ++ leBytes 4 f.multBits ++ leBytes sizeofModelType f.modelType
      ++ leBytes 1 (if f.hasVocab then 1 else 0) ++ zeros (offSearchVersion - offHasVocab - 1))
      (leBytes sizeofSearchVersion f.searchVersion) tail offSearchVersion sizeofSearchVersion
      (by simp [length_leBytes, zeros, offMultiplier, offHasVocab, sizeofModelType, offSearchVersion]) (length_leBytes _ _)
    simpa [fixedBytes, List.append_assoc] using this
  rw [e1, e2, e3, e4, e5]
  rw [ofLe_leBytes 1 f.order (by simpa using h.order), ofLe_leBytes 4 f.multBits (by simpa using h.mult),
      ofLe_leBytes sizeofModelType f.modelType (by simpa [sizeofModelType] using h.ty),
      ofLe_leBytes sizeofSearchVersion f.searchVersion (by simpa [sizeofSearchVersion] using h.ver)]
  cases f with
  | mk o m t hv v =>
    cases hv <;> simp [leBytes, ofLe]


theorem readCounts_countsBytes (cs : List Nat) (h : ∀ c ∈ cs, c < 2^64) (tail : List Nat) :
    readCounts cs.length (countsBytes cs ++ tail) = some cs := by
  induction cs with
  | nil => simp [readCounts]
  | cons c cs ih =>
    have hc : c < 256^8 := by have := h c (by simp); omega
    have e : countsBytes (c :: cs) ++ tail = leBytes 8 c ++ (countsBytes cs ++ tail) := by
      simp [countsBytes, List.append_assoc]
    rw [e]
    simp only [List.length_cons, readCounts]
    have hl : ¬ (leBytes 8 c ++ (countsBytes cs ++ tail)).length < 8 := by simp [length_leBytes]
    rw [if_neg hl]
    have hd : (leBytes 8 c ++ (countsBytes cs ++ tail)).drop 8 = countsBytes cs ++ tail := by
      rw [List.drop_left' (length_leBytes 8 c)]
    have ht : (leBytes 8 c ++ (countsBytes cs ++ tail)).take 8 = leBytes 8 c := by
      rw [List.take_left' (length_leBytes 8 c)]
    rw [hd, ht, ih (fun x hx => h x (by simp [hx])), ofLe_leBytes 8 c hc]

structure ParamsWF (p : Params) : Prop where
  fixed : FixedWF p.fixed
  len : p.counts.length = p.fixed.order
  counts : ∀ c ∈ p.counts, c < 2^64
  mult : floatNotGeOne p.fixed.multBits = false

theorem sanity_eq_ref : sanityBytes = sanityRef := by decide
theorem sanity_length : sanityBytes.length = sizeofSanity := by decide

theorem recognize_headerBytes (p : Params) (h : ParamsWF p) (rest : List Nat) :
    recognize (headerBytes p ++ rest) = .binary p := by
  have e : headerBytes p ++ rest = sanityBytes ++ (fixedBytes p.fixed ++ (countsBytes p.counts ++
      (zeros (totalHeaderSize p.counts.length - (sanityBytes ++ fixedBytes p.fixed ++ countsBytes p.counts).length) ++ rest))) := by
    simp [headerBytes, List.append_assoc]
  rw [e]
  generalize (zeros (totalHeaderSize p.counts.length - (sanityBytes ++ fixedBytes p.fixed ++ countsBytes p.counts).length) ++ rest) = tail
  unfold recognize
  have hlen : ¬ (sanityBytes ++ (fixedBytes p.fixed ++ (countsBytes p.counts ++ tail))).length ≤ sizeofSanity := by
    simp [sanity_length, length_fixedBytes, sizeofFixed]; omega
  rw [if_neg hlen, List.take_left' sanity_length, if_pos sanity_eq_ref, List.drop_left' sanity_length,
    readFixed_fixedBytes _ h.fixed]
  simp only [h.mult]
  have hd : (sanityBytes ++ (fixedBytes p.fixed ++ (countsBytes p.counts ++ tail))).drop (sizeofSanity + sizeofFixed)
      = countsBytes p.counts ++ tail := by
    rw [← List.append_assoc]
    exact List.drop_left' (by simp [sanity_length, length_fixedBytes])
  rw [hd, ← h.len, readCounts_countsBytes _ h.counts]
  simp

theorem align8_ge (a : Nat) : a ≤ align8 a := by unfold align8; omega
theorem align8_mod (a : Nat) : align8 a % 8 = 0 := by unfold align8; omega
theorem align8_lt (a : Nat) (h : 1 ≤ a) : align8 a < a + 8 := by unfold align8; omega

theorem totalHeaderSize_ge (order : Nat) : sizeofSanity + sizeofFixed + sizeofCount * order ≤ totalHeaderSize order :=
  align8_ge _

theorem recognize_incomplete (order : Nat) (rest : List Nat) :
    recognize (incompleteHeader order ++ rest) = .errFormat := by
  have hge := totalHeaderSize_ge order
  have e : incompleteHeader order ++ rest = magicIncomplete ++ (zeros (totalHeaderSize order - magicIncomplete.length) ++ rest) := by
    simp [incompleteHeader, List.append_assoc]
  rw [e]
  generalize hz : zeros (totalHeaderSize order - magicIncomplete.length) ++ rest = tail
  have hzl : totalHeaderSize order - magicIncomplete.length ≤ tail.length := by
    rw [← hz]; simp [zeros]
  have hml : magicIncomplete.length = 45 := by decide
  unfold recognize
  have h1 : ¬ (magicIncomplete ++ tail).length ≤ sizeofSanity := by
    simp [sizeofSanity, sizeofFixed] at *; omega
  rw [if_neg h1]
  have h2 : ¬ (magicIncomplete ++ tail).take sizeofSanity = sanityRef := by
    intro hc
    have := congrArg (List.take 45) hc
    rw [List.take_take] at this
    have h45 : min 45 sizeofSanity = 45 := by decide
    rw [h45, List.take_left' hml] at this
    revert this; decide
  rw [if_neg h2]
  have h3 : magicIncomplete.isPrefixOf (magicIncomplete ++ tail) = true := by
    rw [List.isPrefixOf_iff_prefix]; exact List.prefix_append _ _
  rw [if_pos h3]

/-- the six model classes have six different type numbers, all below the number of model names -/
theorem typeNum_ofNum (k : Kind) : Kind.ofNum k.typeNum = some k := by
  cases k with
  | probing r => cases r <;> decide
  | trie q a => cases q <;> cases a <;> decide

theorem typeNum_lt (k : Kind) : k.typeNum < numModelNames := by
  cases k with
  | probing r => cases r <;> decide
  | trie q a => cases q <;> cases a <;> decide


theorem map_pred_range' (f : Nat → Nat) (k : Nat) : ∀ s, (List.range' (s+1) k).map (fun n => f (n - 1)) = (List.range' s k).map f := by
  induction k with
  | zero => intro s; simp
  | succ k ih => intro s; simp [List.range'_succ, ih]

theorem hashedMiddleLoop_fst (rest : Bool) (cfg : Config) (counts : List Nat) (ns : List Nat) :
    ∀ start acc, (hashedMiddleLoop rest cfg counts ns start acc).1
      = start + (ns.map (fun n => probingTableSize (hashedMiddleEntry rest) cfg.multBits (cnt counts (n - 1)))).sum := by
  induction ns with
  | nil => intro start acc; simp [hashedMiddleLoop]
  | cons n ns ih => intro start acc; simp only [hashedMiddleLoop, ih, List.map_cons, List.sum_cons]; omega

theorem hashed_size_eq_setup (rest : Bool) (cfg : Config) (counts : List Nat) (start : Nat) :
    (hashedSetup rest cfg counts start).stop = start + hashedSize rest cfg counts := by
  unfold hashedSetup hashedSize
  dsimp only
  rw [hashedMiddleLoop_fst]
  have := map_pred_range' (fun n => probingTableSize (hashedMiddleEntry rest) cfg.multBits (cnt counts n)) (counts.length - 2) 1
  rw [this]; omega

theorem trieMiddleLoop_fst (quant array : Bool) (cfg : Config) (counts : List Nat) (is : List Nat) :
    ∀ start acc, (trieMiddleLoop quant array cfg counts is start acc).1
      = start + (is.map (fun i => middleSize array cfg (middleBits quant cfg) (cnt counts (i - 1)) (cnt counts 0) (cnt counts i))).sum := by
  induction is with
  | nil => intro start acc; simp [trieMiddleLoop]
  | cons n ns ih => intro start acc; simp only [trieMiddleLoop, ih, List.map_cons, List.sum_cons]; omega

theorem map_pred_range'2 (f : Nat → Nat → Nat) (k : Nat) : ∀ s, (List.range' (s+1) k).map (fun n => f (n - 1) n) = (List.range' s k).map (fun n => f n (n+1)) := by
  induction k with
  | zero => intro s; simp
  | succ k ih => intro s; simp [List.range'_succ, ih]

theorem trie_size_eq_setup (quant array : Bool) (cfg : Config) (counts : List Nat) (start : Nat) :
    (trieSetup quant array cfg counts start).stop = start + trieSize quant array cfg counts := by
  unfold trieSetup trieSize
  dsimp only
  rw [trieMiddleLoop_fst]
  have := map_pred_range'2 (fun a b => middleSize array cfg (middleBits quant cfg) (cnt counts a) (cnt counts 0) (cnt counts b)) (counts.length - 2) 1
  rw [this]; omega

theorem search_size_eq_setup (k : Kind) (cfg : Config) (counts : List Nat) (start : Nat) :
    searchSetupEnd k cfg counts start = start + searchSize k cfg counts := by
  cases k with
  | probing r => exact hashed_size_eq_setup r cfg counts start
  | trie q a => exact trie_size_eq_setup q a cfg counts start


/-- regions `(start, size)` tile `[s, e)` in the given order, without gaps or overlaps -/
def Consecutive : Nat → List (Nat × Nat) → Nat → Prop
  | s, [], e => s = e
  | s, (a, n) :: r, e => a = s ∧ Consecutive (s + n) r e

theorem Consecutive_append {s m e : Nat} {l1 l2 : List (Nat × Nat)} :
    Consecutive s l1 m → Consecutive m l2 e → Consecutive s (l1 ++ l2) e := by
  induction l1 generalizing s with
  | nil => intro h1 h2; simp [Consecutive] at h1; subst h1; simpa using h2
  | cons x l ih =>
    obtain ⟨a, n⟩ := x
    intro h1 h2
    simp only [Consecutive, List.cons_append] at h1 ⊢
    exact ⟨h1.1, ih h1.2 h2⟩

theorem Consecutive_single (s n : Nat) : Consecutive s [(s, n)] (s + n) := by simp [Consecutive]

/-- byte regions of a hashed search as laid out by `SetupMemory` -/
def hashedRegionList (rest : Bool) (counts : List Nat) (r : HashedRegions) : List (Nat × Nat) :=
  [(r.unigram, hashedUnigramSize rest (cnt counts 0))]
    ++ r.middles.map (fun m => (m.1, m.2 * hashedMiddleEntry rest))
    ++ [(r.longest.1, r.longest.2 * sizeofProbEntry)]

theorem hashedMiddleLoop_consecutive (rest : Bool) (cfg : Config) (counts : List Nat) (ns : List Nat) :
    ∀ s0 start acc, Consecutive s0 (acc.reverse.map (fun m => (m.1, m.2 * hashedMiddleEntry rest))) start →
      Consecutive s0 ((hashedMiddleLoop rest cfg counts ns start acc).2.map (fun m => (m.1, m.2 * hashedMiddleEntry rest)))
        (hashedMiddleLoop rest cfg counts ns start acc).1 := by
  induction ns with
  | nil => intro s0 start acc h; simpa [hashedMiddleLoop] using h
  | cons n ns ih =>
    intro s0 start acc h
    simp only [hashedMiddleLoop]
    apply ih
    simp only [List.reverse_cons, List.map_append, List.map_cons, List.map_nil]
    exact Consecutive_append h (by simpa [probingTableSize] using Consecutive_single start _)

theorem hashed_regions_consecutive (rest : Bool) (cfg : Config) (counts : List Nat) (start : Nat) :
    Consecutive start (hashedRegionList rest counts (hashedSetup rest cfg counts start))
      (start + hashedSize rest cfg counts) := by
  rw [← hashed_size_eq_setup]
  unfold hashedRegionList hashedSetup
  dsimp only
  apply Consecutive_append
  · apply Consecutive_append (Consecutive_single _ _)
    exact hashedMiddleLoop_consecutive rest cfg counts _ _ _ [] (by simp [Consecutive])
  · simpa [probingTableSize] using Consecutive_single _ _

/-- byte regions of a trie search as laid out by `SetupMemory`: quantiser block, unigrams, per middle order the
Bhiksha block then the bit-packed records, longest order -/
def trieRegionList (quant : Bool) (cfg : Config) (counts : List Nat) (r : TrieRegions) : List (Nat × Nat) :=
  [(r.quant, quantSize quant counts.length cfg), (r.unigram, trieUnigramSize (cnt counts 0))]
    ++ r.middles.flatMap (fun m => [(m.start, m.bhikshaBytes), (m.packed, m.packedBytes)])
    ++ [(r.longest.1, longestSize (longestBits quant cfg) (cnt counts (counts.length - 1)) (cnt counts 0))]

theorem trieMiddleLoop_consecutive (quant array : Bool) (cfg : Config) (counts : List Nat) (is : List Nat) :
    ∀ s0 start acc, Consecutive s0 (acc.reverse.flatMap (fun m => [(m.start, m.bhikshaBytes), (m.packed, m.packedBytes)])) start →
      Consecutive s0 ((trieMiddleLoop quant array cfg counts is start acc).2.flatMap (fun m => [(m.start, m.bhikshaBytes), (m.packed, m.packedBytes)]))
        (trieMiddleLoop quant array cfg counts is start acc).1 := by
  induction is with
  | nil => intro s0 start acc h; simpa [trieMiddleLoop] using h
  | cons n ns ih =>
    intro s0 start acc h
    simp only [trieMiddleLoop]
    apply ih
    simp only [List.reverse_cons, List.flatMap_append, List.flatMap_cons, List.flatMap_nil, List.append_nil]
    refine Consecutive_append h ?_
    simp [Consecutive, mkMiddle, middleSize]; omega

theorem trie_regions_consecutive (quant array : Bool) (cfg : Config) (counts : List Nat) (start : Nat) :
    Consecutive start (trieRegionList quant cfg counts (trieSetup quant array cfg counts start))
      (start + trieSize quant array cfg counts) := by
  rw [← trie_size_eq_setup]
  unfold trieRegionList trieSetup
  dsimp only
  apply Consecutive_append
  · apply Consecutive_append (m := start + quantSize quant counts.length cfg + trieUnigramSize (cnt counts 0))
    · simp [Consecutive]
    · exact trieMiddleLoop_consecutive quant array cfg counts _ _ _ [] (by simp [Consecutive])
  · exact Consecutive_single _ _


theorem alignTo8_ge (a : Nat) : a ≤ alignTo8 a := by unfold alignTo8; split <;> omega
theorem alignTo8_lt (a : Nat) : alignTo8 a < a + 8 := by unfold alignTo8; split <;> omega
theorem alignTo8_mod (a : Nat) : alignTo8 a % 8 = 0 := by unfold alignTo8; split <;> omega

/-- the ArrayBhiksha offset table (8-byte header word, then `count` aligned 64-bit entries) lies inside its block for
every alignment of the block start: the `+ 7` in `ArrayBhiksha::Size` is enough. -/
theorem array_table_fits (cfg : Config) (qb entries maxVocab maxNext start : Nat) :
    let m := mkMiddle true cfg qb entries maxVocab maxNext start
    m.start + sizeofUint64 ≤ m.offBegin ∧ m.offBegin % 8 = 0 ∧ m.offEnd ≤ m.packed
      ∧ m.offEnd = m.offBegin + sizeofUint64 * arrayCount (entries + 1) maxNext cfg.bhikshaBits := by
  have h1 := alignTo8_ge start
  have h2 := alignTo8_lt start
  have h3 := alignTo8_mod start
  simp [mkMiddle, bhikshaSize, sizeofUint64, arrayBhikshaSlack]
  omega

theorem sortedVocabSize_mod (n : Nat) : sortedVocabSize n % 8 = 0 := by
  simp [sortedVocabSize, sizeofUint64]

theorem totalHeaderSize_mod (o : Nat) : totalHeaderSize o % 8 = 0 := align8_mod _

/-- the trie search structure starts 8-aligned in the file (so `AlignTo8` on addresses of a page-aligned mapping or of a
separately allocated aligned search block agrees with `AlignTo8` on file offsets, and the unigram `uint64` fields are aligned) -/
theorem trie_search_aligned (q a : Bool) (cfg : Config) (arpa fixed : List Nat) (sawUnk iv : Bool) (sl : Nat) :
    (writeLayout (.trie q a) cfg arpa fixed sawUnk iv sl).search % 8 = 0 := by
  have h1 := totalHeaderSize_mod arpa.length
  have h2 := sortedVocabSize_mod (cnt arpa 0)
  simp only [writeLayout, vocabSize, Kind.isTrie, unkPadding, if_true]
  cases sawUnk <;> simp [sizeofUint64] <;> omega

theorem load_eq_write (k : Kind) (cfg : Config) (arpa fixed : List Nat) (sawUnk iv : Bool) (sl : Nat)
    (hlen : fixed.length = arpa.length)
    (h0 : k.isTrie = true → cnt fixed 0 = cnt arpa 0 + (if sawUnk then 0 else 1)) :
    let w := writeLayout k cfg arpa fixed sawUnk iv sl
    let l := loadLayout k cfg w.storedCounts
    l.header = w.header ∧ l.vocabSize = w.vocab + w.pad ∧ l.search = w.search ∧ l.mapped = w.strings := by
  cases k with
  | probing r =>
    simp [writeLayout, loadLayout, storedCounts, Kind.isTrie, unkPadding, modelSize, vocabSize]
    omega
  | trie q a =>
    have h0' := h0 rfl
    simp only [writeLayout, loadLayout, storedCounts, Kind.isTrie, unkPadding, modelSize, vocabSize, if_true, hlen, h0',
      sortedVocabSize, sizeofUint64]
    cases sawUnk <;> simp <;> omega


/-- two configurations agree on everything the layout of a `TrieSearch<quant, array>` of `len` orders reads -/
def CfgAgree (q a : Bool) (len : Nat) (c1 c2 : Config) : Prop :=
  (q = true → c1.probBits = c2.probBits ∧ c1.backoffBits = c2.backoffBits) ∧
  (a = true → len > 2 → c1.bhikshaBits = c2.bhikshaBits)

theorem quantSize_congr {q a : Bool} {len : Nat} {c1 c2 : Config} (h : CfgAgree q a len c1 c2) (o : Nat) :
    quantSize q o c1 = quantSize q o c2 := by
  cases q with
  | false => simp [quantSize]
  | true => obtain ⟨h1, h2⟩ := h.1 rfl; simp [quantSize, h1, h2]

theorem middleBits_congr {q a : Bool} {len : Nat} {c1 c2 : Config} (h : CfgAgree q a len c1 c2) :
    middleBits q c1 = middleBits q c2 := by
  cases q with
  | false => simp [middleBits]
  | true => obtain ⟨h1, h2⟩ := h.1 rfl; simp [middleBits, h1, h2]

theorem longestBits_congr {q a : Bool} {len : Nat} {c1 c2 : Config} (h : CfgAgree q a len c1 c2) :
    longestBits q c1 = longestBits q c2 := by
  cases q with
  | false => simp [longestBits]
  | true => obtain ⟨h1, _⟩ := h.1 rfl; simp [longestBits, h1]

theorem quantTableLoop_congr {c1 c2 : Config} (h1 : c1.probBits = c2.probBits) (h2 : c1.backoffBits = c2.backoffBits) (n : Nat) :
    ∀ s acc, quantTableLoop c1 n s acc = quantTableLoop c2 n s acc := by
  induction n with
  | zero => intro s acc; simp [quantTableLoop]
  | succ n ih => intro s acc; simp [quantTableLoop, h1, h2, ih]

theorem quantTables_congr {q a : Bool} {len : Nat} {c1 c2 : Config} (h : CfgAgree q a len c1 c2) (o s : Nat) :
    quantTables q o c1 s = quantTables q o c2 s := by
  cases q with
  | false => simp [quantTables]
  | true => obtain ⟨h1, h2⟩ := h.1 rfl; simp [quantTables, quantTableLoop_congr h1 h2]

theorem mkMiddle_congr {a : Bool} {c1 c2 : Config} (h : a = true → c1.bhikshaBits = c2.bhikshaBits) (qb e mv mn s : Nat) :
    mkMiddle a c1 qb e mv mn s = mkMiddle a c2 qb e mv mn s := by
  cases a with
  | false => simp [mkMiddle, inlineBits, bhikshaSize]
  | true => simp [mkMiddle, h rfl]

theorem middleSize_congr {a : Bool} {c1 c2 : Config} (h : a = true → c1.bhikshaBits = c2.bhikshaBits) (qb e mv mn : Nat) :
    middleSize a c1 qb e mv mn = middleSize a c2 qb e mv mn := by
  cases a with
  | false => simp [middleSize, inlineBits, bhikshaSize]
  | true => simp [middleSize, h rfl]

theorem trieMiddleLoop_congr {q a : Bool} {c1 c2 : Config} (hm : middleBits q c1 = middleBits q c2)
    (h : a = true → c1.bhikshaBits = c2.bhikshaBits) (counts : List Nat) (is : List Nat) :
    ∀ s acc, trieMiddleLoop q a c1 counts is s acc = trieMiddleLoop q a c2 counts is s acc := by
  induction is with
  | nil => intro s acc; simp [trieMiddleLoop]
  | cons i is ih =>
    intro s acc
    simp only [trieMiddleLoop, hm, middleSize_congr h, mkMiddle_congr h, ih]

theorem trieSetup_congr {q a : Bool} {counts : List Nat} {c1 c2 : Config} (h : CfgAgree q a counts.length c1 c2) (s : Nat) :
    trieSetup q a c1 counts s = trieSetup q a c2 counts s := by
  unfold trieSetup
  dsimp only
  rw [quantSize_congr h, quantTables_congr h, longestBits_congr h]
  by_cases hl : counts.length > 2
  · rw [trieMiddleLoop_congr (middleBits_congr h) (fun ha => h.2 ha hl)]
  · have : counts.length - 2 = 0 := by omega
    simp [this, trieMiddleLoop]

theorem trieSize_congr {q a : Bool} {counts : List Nat} {c1 c2 : Config} (h : CfgAgree q a counts.length c1 c2) :
    trieSize q a c1 counts = trieSize q a c2 counts := by
  have h1 := trie_size_eq_setup q a c1 counts 0
  have h2 := trie_size_eq_setup q a c2 counts 0
  rw [trieSetup_congr h] at h1
  omega

theorem trieMiddleLoop_snd_acc (q a : Bool) (cfg : Config) (counts : List Nat) (is : List Nat) :
    ∀ s acc, (trieMiddleLoop q a cfg counts is s acc).2 = acc.reverse ++ (trieMiddleLoop q a cfg counts is s []).2 := by
  induction is with
  | nil => intro s acc; simp [trieMiddleLoop]
  | cons i is ih =>
    intro s acc
    simp only [trieMiddleLoop]
    rw [ih _ (_ :: acc), ih _ [_]]
    simp

/-- first middle region of a trie with more than two orders: where `Bhiksha::UpdateConfigFromBinary` must read -/
theorem trieSetup_first_middle (q a : Bool) (cfg : Config) (counts : List Nat) (s : Nat) (hl : counts.length > 2) :
    ∃ m ms, (trieSetup q a cfg counts s).middles = m :: ms ∧
      m.start = s + quantSize q counts.length cfg + trieUnigramSize (cnt counts 0) := by
  unfold trieSetup
  dsimp only
  obtain ⟨k, hk⟩ : ∃ k, counts.length - 2 = k + 1 := ⟨counts.length - 3, by omega⟩
  rw [hk, List.range'_succ]
  simp only [trieMiddleLoop]
  rw [trieMiddleLoop_snd_acc]
  exact ⟨_, _, rfl, rfl⟩

/-- `UpdateConfigFromBinary` re-reads exactly the parameters that `FinishedLoading` stored: for a file whose bytes at the
positions of `storedParamBytes` are the written ones, a loader starting from any configuration `cfg0` ends with a
configuration that agrees with the builder's on everything the layout depends on. -/
theorem stored_params_read_aux (q a : Bool) (cfg cfg0 : Config) (stored : List Nat) (rd : Nat → Nat)
    (hp : cfg.probBits < 256) (hb : cfg.backoffBits < 256) (hh : cfg.bhikshaBits < 256)
    (hrd : ∀ p ∈ storedParamBytes (.trie q a) cfg stored
        (totalHeaderSize stored.length + vocabSize (.trie q a) cfg (cnt stored 0)), rd p.1 = p.2) :
    ∃ cfg', updateConfigFromBinary (.trie q a) rd stored cfg0 = .ok cfg' ∧ CfgAgree q a stored.length cfg' cfg := by
  have hv : ∀ c : Config, vocabSize (.trie q a) c (cnt stored 0) = sortedVocabSize (cnt stored 0) := by
    intro c; simp [vocabSize, Kind.isTrie]
  simp only [hv] at hrd
  unfold updateConfigFromBinary
  simp only [hv]
  generalize hoff : totalHeaderSize stored.length + sortedVocabSize (cnt stored 0) = off at hrd ⊢
  -- the quantiser header
  have hq : q = true → rd off = separatelyQuantizeVersion ∧ rd (off + 1) = cfg.probBits ∧ rd (off + 2) = cfg.backoffBits := by
    intro hq
    subst hq
    have e : (trieSetup true a cfg stored off).quant = off := rfl
    refine ⟨?_, ?_, ?_⟩
    · have := hrd (off, separatelyQuantizeVersion) (by simp [storedParamBytes, e]); simpa using this
    · have := hrd (off + 1, cfg.probBits % 256) (by simp [storedParamBytes, e]); simp at this; omega
    · have := hrd (off + 2, cfg.backoffBits % 256) (by simp [storedParamBytes, e]); simp at this; omega
  -- the Bhiksha header of the first middle
  have hbk : a = true → stored.length > 2 →
      rd (off + quantSize q stored.length cfg + trieUnigramSize (cnt stored 0)) = arrayBhikshaVersion ∧
      rd (off + quantSize q stored.length cfg + trieUnigramSize (cnt stored 0) + 1) = cfg.bhikshaBits := by
    intro ha hl
    subst ha
    obtain ⟨m, ms, hm, hs⟩ := trieSetup_first_middle q true cfg stored off hl
    refine ⟨?_, ?_⟩
    · have := hrd (m.start, arrayBhikshaVersion) (by simp [storedParamBytes, hm]); rw [← hs]; simpa using this
    · have := hrd (m.start + 1, cfg.bhikshaBits % 256) (by simp [storedParamBytes, hm]); rw [← hs]; simp at this; omega
  cases q with
  | true =>
    obtain ⟨h1, h2, h3⟩ := hq rfl
    simp only [if_true, h1, ne_eq, not_true_eq_false, if_false]
    by_cases hc : a = true ∧ stored.length > 2
    · obtain ⟨hb1, hb2⟩ := hbk hc.1 hc.2
      have eqs : quantSize true stored.length { cfg0 with probBits := rd (off + 1), backoffBits := rd (off + 2) }
          = quantSize true stored.length cfg := by simp [quantSize, h2, h3]
      rw [if_pos hc, eqs, hb1]
      simp only [not_true_eq_false, if_false]
      exact ⟨_, rfl, ⟨fun _ => ⟨h2, h3⟩, fun _ _ => hb2⟩⟩
    · rw [if_neg hc]
      exact ⟨_, rfl, ⟨fun _ => ⟨h2, h3⟩, fun ha hl => absurd ⟨ha, hl⟩ hc⟩⟩
  | false =>
    simp only [Bool.false_eq_true, if_false]
    by_cases hc : a = true ∧ stored.length > 2
    · obtain ⟨hb1, hb2⟩ := hbk hc.1 hc.2
      have eqs : quantSize false stored.length cfg0 = quantSize false stored.length cfg := by simp [quantSize]
      rw [if_pos hc, eqs, hb1]
      simp only [ne_eq, not_true_eq_false, if_false]
      exact ⟨_, rfl, ⟨fun h => absurd h (by simp), fun _ _ => hb2⟩⟩
    · rw [if_neg hc]
      exact ⟨_, rfl, ⟨fun h => absurd h (by simp), fun ha hl => absurd ⟨ha, hl⟩ hc⟩⟩

theorem rne24_id (n : Nat) (h : n < 2^24) : rne24 n = n := by
  unfold rne24 bitLen
  have : Nat.log2 n + (if n = 0 then 0 else 1) ≤ 24 := by
    by_cases h0 : n = 0
    · simp [h0]
    · have := (Nat.log2_lt h0).2 h
      simp [h0]; omega
  simp [this]

end KV.Binary
