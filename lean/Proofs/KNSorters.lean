import Model.KNSorters
import Proofs.KNInterp2
import Proofs.KNC07Discharge
/-!
Any correct sorts inside the pipeline give `estimateFrom` (`estimateFromWith_eq`), for the
table of every corpus (`estimateFromWith_eq_corpus`, `estimateFromWith_eq_corpus1`).

`SortsOK` asks of each sort exactly "the output is a permutation of the input and is sorted":
what C16 proves for the external sort without combiner, for every block structure, merge plan
and tie-break policy (`KV.C16.extSort_sorted` + `KV.C16.extSort_perm`, and for the plan the code
computes `KV.C16.codeSort_sorted_perm`).  Stability is not needed: the records of one order have
pairwise distinct n-grams, on which `ContextOrder` and `SuffixOrder` are antisymmetric, so the
sorted permutation is unique.
-/
namespace KV.KN.Interp

open KV.KN KV.KN.Norm KV.KN.Spec KV.KN.Adjust

/-- both sorts return a sorted permutation of their input -/
def SortsOK (S : Sorters) : Prop :=
  (∀ l, (S.ctx l).Perm l ∧ (S.ctx l).Pairwise (fun a b => ctxLe a b = true)) ∧
  (∀ l, (S.suf l).Perm l ∧ (S.suf l).Pairwise (fun a b => uninterpLe a b = true))

theorem stdSorters_ok : SortsOK stdSorters :=
  ⟨fun l => ⟨List.mergeSort_perm l _, List.pairwise_mergeSort ctxLe_trans ctxLe_total l⟩,
   fun l => ⟨List.mergeSort_perm l _, List.pairwise_mergeSort uninterpLe_trans uninterpLe_total l⟩⟩

/-! ## 1. Uniqueness of the sorted permutation -/

theorem eq_of_key_nodup {α κ : Type} (key : α → κ) : ∀ (l : List α), (l.map key).Nodup →
    ∀ a ∈ l, ∀ b ∈ l, key a = key b → a = b
  | [], _, a, ha, _, _, _ => by cases ha
  | x :: t, hnd, a, ha, b, hb, hk => by
    rw [List.map_cons, List.nodup_cons] at hnd
    rcases List.mem_cons.mp ha with rfl | ha' <;> rcases List.mem_cons.mp hb with rfl | hb'
    · rfl
    · exact absurd (hk ▸ List.mem_map.mpr ⟨b, hb', rfl⟩) hnd.1
    · exact absurd (hk ▸ List.mem_map.mpr ⟨a, ha', rfl⟩) hnd.1
    · exact eq_of_key_nodup key t hnd.2 a ha' b hb' hk

/-- two sorted permutations of a list with pairwise distinct keys are equal, when the order is
antisymmetric up to the key on the members of the list -/
theorem sorted_perm_unique {α κ : Type} (le : α → α → Bool) (key : α → κ) {l l₁ l₂ : List α}
    (hanti : ∀ a ∈ l, ∀ b ∈ l, le a b = true → le b a = true → key a = key b)
    (hnd : (l.map key).Nodup) (h1 : l₁.Perm l) (h2 : l₂.Perm l)
    (s1 : l₁.Pairwise fun a b => le a b = true) (s2 : l₂.Pairwise fun a b => le a b = true) :
    l₁ = l₂ := by
  apply List.Perm.eq_of_pairwise (le := fun a b => le a b = true) _ s1 s2 (h1.trans h2.symm)
  intro a b ha hb hab hba
  have ha' := h1.mem_iff.mp ha
  have hb' := h2.mem_iff.mp hb
  exact eq_of_key_nodup key l hnd a ha' b hb' (hanti a ha' b hb' hab hba)

/-- `ContextOrder` is antisymmetric on non-empty n-grams -/
theorem ctxLe_antisymm {a b : Emit} (ha : a.gram ≠ []) (hb : b.gram ≠ [])
    (h1 : ctxLe a b = true) (h2 : ctxLe b a = true) : a.gram = b.gram := by
  unfold ctxLe at h1 h2
  simp only [Bool.or_eq_true, decide_eq_true_eq, Bool.and_eq_true, beq_iff_eq] at h1 h2
  have ht : a.gram.tail = b.gram.tail ∧ a.gram.headD 0 = b.gram.headD 0 := by
    rcases h1 with h1 | h1 <;> rcases h2 with h2 | h2
    · exact absurd (glt_trans h1 h2) (List.lt_irrefl _)
    · exact absurd (h2.1 ▸ h1) (List.lt_irrefl _)
    · exact absurd (h1.1 ▸ h2) (List.lt_irrefl _)
    · exact ⟨h1.1, Nat.le_antisymm h1.2 h2.2⟩
  cases hga : a.gram with
  | nil => exact absurd hga ha
  | cons x s =>
    cases hgb : b.gram with
    | nil => exact absurd hgb hb
    | cons y t =>
      rw [hga, hgb] at ht
      simp only [List.tail_cons, List.headD_cons] at ht
      rw [ht.1, ht.2]

theorem uninterpLe_antisymm {a b : Uninterp} (h1 : uninterpLe a b = true) (h2 : uninterpLe b a = true) :
    a.gram = b.gram :=
  gle_antisymm (of_decide_eq_true h1) (of_decide_eq_true h2)

/-- any correct context sort is `mergeSort ctxLe` on records with distinct non-empty n-grams -/
theorem ctx_sort_eq {S : Sorters} (hS : SortsOK S) {es : List Emit}
    (hnd : (es.map (·.gram)).Nodup) (hne : ∀ e ∈ es, e.gram ≠ []) :
    S.ctx es = es.mergeSort ctxLe :=
  sorted_perm_unique ctxLe (·.gram)
    (fun a ha b hb => ctxLe_antisymm (hne a ha) (hne b hb)) hnd
    (hS.1 es).1 (List.mergeSort_perm es _) (hS.1 es).2
    (List.pairwise_mergeSort ctxLe_trans ctxLe_total es)

/-- any correct suffix sort is `mergeSort uninterpLe` on records with distinct n-grams -/
theorem suf_sort_eq {S : Sorters} (hS : SortsOK S) {us : List Uninterp}
    (hnd : (us.map (·.gram)).Nodup) : S.suf us = us.mergeSort uninterpLe :=
  sorted_perm_unique uninterpLe (·.gram)
    (fun _ _ _ _ => uninterpLe_antisymm) hnd
    (hS.2 us).1 (List.mergeSort_perm us _) (hS.2 us).2
    (List.pairwise_mergeSort uninterpLe_trans uninterpLe_total us)

/-! ## 2. `initialOrderWith`, `estimateFromWith` -/

theorem mergeRight_grams (d : Disc) (run : List Emit) :
    (mergeRight d run).map (·.gram) = run.map (·.gram) := by
  unfold mergeRight; rw [List.map_map]; rfl

theorem mergeRightUnigram_grams (iu : Bool) (d : Disc) (run : List Emit) :
    (mergeRightUnigram iu d run).map (·.gram) = run.map (·.gram) := by
  unfold mergeRightUnigram
  rw [List.map_map]
  apply List.map_congr_left
  intro e _
  simp only [Function.comp]
  split <;> [rfl; (split <;> rfl)]

theorem flatMap_grams {F : List Emit → List Uninterp}
    (hF : ∀ r, (F r).map (·.gram) = r.map (·.gram)) (rs : List (List Emit)) :
    (rs.flatMap F).map (·.gram) = rs.flatten.map (·.gram) := by
  induction rs with
  | nil => rfl
  | cons a t ih => rw [List.flatMap_cons, List.flatten_cons, List.map_append, List.map_append, hF, ih]

/-- **one order**: any correct sorts give `initialOrder` -/
theorem initialOrderWith_eq {S : Sorters} (hS : SortsOK S) (interpUni : Bool) (n : Nat) (d : Disc)
    {es : List Emit} (hnd : (es.map (·.gram)).Nodup) (hne : ∀ e ∈ es, e.gram ≠ []) :
    initialOrderWith S interpUni n d es = initialOrder interpUni n d es := by
  unfold initialOrderWith initialOrder
  rw [ctx_sort_eq hS hnd hne]
  simp only
  congr 1
  apply suf_sort_eq hS
  have hsorted : ((es.mergeSort ctxLe).map (·.gram)).Nodup :=
    ((List.mergeSort_perm es ctxLe).map _).nodup_iff.mpr hnd
  have hus : ((if (n == 1) = true then
        (ctxRuns (es.mergeSort ctxLe)).flatMap (mergeRightUnigram interpUni d)
      else (ctxRuns (es.mergeSort ctxLe)).flatMap (mergeRight d)).map (·.gram))
      = (es.mergeSort ctxLe).map (·.gram) := by
    split
    · rw [flatMap_grams (mergeRightUnigram_grams interpUni d), ctxRuns_flatten]
    · rw [flatMap_grams (mergeRight_grams d), ctxRuns_flatten]
  exact ((List.filter_sublist.map _).nodup (hus ▸ hsorted))

/-- the records of every order have pairwise distinct, non-empty n-grams -/
def StreamsOK (streams : List (List Emit)) : Prop :=
  ∀ es ∈ streams, (es.map (·.gram)).Nodup ∧ ∀ e ∈ es, e.gram ≠ []

theorem stage3With_eq {S : Nat → Sorters} (hS : ∀ n, SortsOK (S n)) (interpUni : Bool)
    {streams : List (List Emit)} (hst : StreamsOK streams) (discs : List (Disc × Bool)) :
    stage3With S interpUni streams discs = stage3With (fun _ => stdSorters) interpUni streams discs := by
  unfold stage3With
  apply List.map_congr_left
  rintro ⟨⟨es, d⟩, i⟩ hx
  have h1 : (es, d) ∈ streams.zip discs := by
    have := List.mem_map_of_mem (f := Prod.fst) hx
    rwa [List.zipIdx_map_fst] at this
  obtain ⟨hnd, hne⟩ := hst es (List.of_mem_zip h1).1
  simp only
  rw [initialOrderWith_eq (hS (i + 1)) interpUni (i + 1) d.1 hnd hne, initialOrderWith_std]

/-- **the pipeline**: any correct sorts, possibly different for every order, give `estimateFrom`,
as soon as the records that leave `AdjustCounts` have distinct non-empty n-grams per order -/
theorem estimateFromWith_eq (S : Nat → Sorters) (hS : ∀ n, SortsOK (S n)) (cfg : Cfg) (pv : Bool)
    (fallback : Option Disc) (full : List (Gram × Nat)) (hst : StreamsOK (adjust cfg full).streams) :
    estimateFromWith S cfg pv fallback full = estimateFrom cfg pv fallback full := by
  rw [← estimateFromWith_std]
  unfold estimateFromWith
  simp only [stage3With_eq hS cfg.interpUni hst]

/-! ## 3. The streams of a well-formed table / of a corpus -/

theorem ksOf_nodup_full {cfg : Cfg} {full : Table} (hF : FullWF cfg.order full) (n : Nat) :
    (ksOf cfg full n).Nodup := by
  unfold ksOf
  split
  · have hnot : ∀ w, (w = unk ∨ w = bos) → [w] ∉ keys 1 full := by
      intro w hwb hmem
      obtain ⟨e, he, _, h3⟩ := Norm.mem_keys.mp hmem
      have := head_of_take_one h3
      rcases hwb with rfl | rfl
      · exact (hF.headOK e he).2 this
      · exact (hF.headOK e he).1 this
    rw [List.nodup_cons, List.nodup_cons]
    refine ⟨?_, hnot bos (Or.inr rfl), Norm.nodup_dedup _⟩
    intro hmem
    rcases List.mem_cons.mp hmem with h | h
    · exact absurd h (by decide)
    · exact hnot unk (Or.inl rfl) h
  · split
    · exact (fullWF_nodup hF).filter _
    · exact Norm.nodup_dedup _

theorem ksOf_ne_nil {cfg : Cfg} {full : Table} (h2 : 2 ≤ cfg.order) (hF : FullWF cfg.order full)
    (n : Nat) (hn : 1 ≤ n) : ∀ k ∈ ksOf cfg full n, k ≠ [] := by
  have hrow : ∀ e ∈ full, ∀ m, 1 ≤ m → e.1.take m ≠ [] := by
    intro e he m hm h0
    have := congrArg List.length h0
    rw [List.length_take, hF.len e he] at this
    simp at this; omega
  intro k hk
  unfold ksOf at hk
  split at hk
  · simp only [List.mem_cons] at hk
    rcases hk with rfl | rfl | hk
    · simp
    · simp
    · obtain ⟨e, he, _, rfl⟩ := Norm.mem_keys.mp hk
      exact hrow e he 1 (Nat.le_refl 1)
  · split at hk
    · obtain ⟨e, he, rfl⟩ := List.mem_map.mp (List.mem_filter.mp hk).1
      intro h0
      have := hF.len e he
      rw [h0] at this; simp at this; omega
    · obtain ⟨e, he, _, rfl⟩ := Norm.mem_keys.mp hk
      exact hrow e he n hn

/-- the records `AdjustCounts` hands on (order ≥ 2) have distinct non-empty n-grams per order -/
theorem streamsOK_full (cfg : Cfg) (full : Table) (h2 : 2 ≤ cfg.order) (hF : FullWF cfg.order full)
    (hk : cfg.keepSpecials = true) : StreamsOK (adjust cfg full).streams := by
  rw [adjust_streams cfg full h2 hF hk]
  unfold specRecords
  rw [if_neg (by omega)]
  intro es hes
  obtain ⟨i, _, rfl⟩ := List.mem_map.mp hes
  refine ⟨by rw [ents_grams]; exact ksOf_nodup_full hF _, ?_⟩
  intro e he
  have : e.gram ∈ ksOf cfg full (i + 1) := by
    rw [← ents_grams]; exact List.mem_map.mpr ⟨e, he, rfl⟩
  exact ksOf_ne_nil h2 hF (i + 1) (by omega) _ this

/-- **every corpus, order ≥ 2**: the internal sorts may be any correct sorts -/
theorem estimateFromWith_eq_corpus (S : Nat → Sorters) (hS : ∀ n, SortsOK (S n)) (cfg : Cfg)
    (pv : Bool) (fallback : Option Disc) (corpus : List (List Word)) (h2 : 2 ≤ cfg.order)
    (hw : ∀ s ∈ corpus, ∀ w ∈ s, 3 ≤ w) (hk : cfg.keepSpecials = true) :
    estimateFromWith S cfg pv fallback (countFull cfg.order corpus)
      = estimateFrom cfg pv fallback (countFull cfg.order corpus) :=
  estimateFromWith_eq S hS cfg pv fallback _
    (streamsOK_full cfg _ h2 (fullWF_countFull cfg.order corpus h2 hw) hk)

/-- the unigram stream of a corpus -/
theorem streamsOK_corpus1 (cfg : Cfg) (corpus : List (List Word)) (h1 : cfg.order = 1)
    (hw : ∀ s ∈ corpus, ∀ w ∈ s, 3 ≤ w) : StreamsOK (adjust cfg (countFull1 corpus)).streams := by
  unfold adjust
  rw [if_pos (by omega)]
  intro es hes
  simp only [List.mem_singleton] at hes
  subst hes
  have hg : (adjustUnigramOnly cfg (countFull1 corpus)).map (·.gram) = (countFull1 corpus).map (·.1) := by
    unfold adjustUnigramOnly; rw [List.map_map]; rfl
  have hrow : ∀ e ∈ countFull 1 corpus, e.1.length = 1 ∧ e.1.head? ≠ some bos ∧ e.1.head? ≠ some unk := by
    intro e he
    obtain ⟨s, hs, i, hi, hg⟩ := row_occ he
    rw [hg]
    exact ⟨win_len hi, win_head (hw s hs) hi (Nat.le_refl 1)⟩
  constructor
  · rw [hg]
    unfold countFull1
    rw [List.map_cons, List.map_cons, List.nodup_cons, List.nodup_cons]
    refine ⟨?_, ?_, countFull_nodup 1 corpus⟩
    · intro hmem
      rcases List.mem_cons.mp hmem with h | h
      · exact absurd h (by decide)
      · obtain ⟨e, he, heq⟩ := List.mem_map.mp h
        exact (hrow e he).2.2 (by rw [heq]; rfl)
    · intro h
      obtain ⟨e, he, heq⟩ := List.mem_map.mp h
      exact (hrow e he).2.1 (by rw [heq]; rfl)
  · intro e he
    have : e.gram ∈ (countFull1 corpus).map (·.1) := by
      rw [← hg]; exact List.mem_map.mpr ⟨e, he, rfl⟩
    unfold countFull1 at this
    simp only [List.map_cons, List.mem_cons] at this
    rcases this with h | h | h
    · rw [h]; simp
    · rw [h]; simp
    · obtain ⟨r, hr, heq⟩ := List.mem_map.mp h
      intro h0
      have := (hrow r hr).1
      rw [heq, h0] at this; simp at this

/-- **every corpus, order 1** -/
theorem estimateFromWith_eq_corpus1 (S : Nat → Sorters) (hS : ∀ n, SortsOK (S n)) (cfg : Cfg)
    (pv : Bool) (fallback : Option Disc) (corpus : List (List Word)) (h1 : cfg.order = 1)
    (hw : ∀ s ∈ corpus, ∀ w ∈ s, 3 ≤ w) :
    estimateFromWith S cfg pv fallback (countFull1 corpus)
      = estimateFrom cfg pv fallback (countFull1 corpus) :=
  estimateFromWith_eq S hS cfg pv fallback _ (streamsOK_corpus1 cfg corpus h1 hw)

end KV.KN.Interp

/-! ## 4. C07: the later external sorts may be any correct sorts -/
namespace KV.C07
open KV.KN KV.KN.Count KV.KN.Interp

theorem three_le_of_not_special {w : Nat} (h : isSpecial w = false) : 3 ≤ w := by
  simp only [isSpecial, unk, bos, eos, Bool.or_eq_false_iff, beq_eq_false_iff_ne] at h
  have h0 : w ≠ 0 := h.1.1
  have h1 : w ≠ 1 := h.1.2
  have h2 : w ≠ 2 := h.2
  omega

/-- `lmplz_eq_spec_core` with the stages after the first sort given as `estimateFromWith` over
arbitrary correct sorts (which may depend on the memory configuration, the schedule and the
order); `estimateFromWith = estimateFrom` is only needed — and only true in general — for the
table of the corpus -/
theorem lmplz_eq_spec_core2 {Mem Sched Text Out : Type} (I : Impl Mem Sched Text Out)
    (render : Except Err Model → Out) (ids : Text → List (List Word)) (opts : Opts) (hN : 1 ≤ opts.cfg.order)
    (text : Text)
    (h_vocab : ∀ m, I.encode m text = ids text)
    (h_ids : ∀ s ∈ ids text, ∀ w ∈ s, isSpecial w = false)
    (h_sort : ∀ m s, I.sortCombine m s (corpusCount opts.cfg.order (I.cap m) (ids text)) =
      combineSorted ((corpusCount opts.cfg.order (I.cap m) (ids text)).flatten.mergeSort gramLe))
    (sorters : Mem → Sched → Nat → Sorters)
    (h_stages : ∀ m s full, I.post m s opts full =
      render (estimateFromWith (sorters m s) opts.cfg opts.pruneVocab opts.fallback full))
    (h_sorters : ∀ m s n, SortsOK (sorters m s n))
    (hk : opts.cfg.keepSpecials = true)
    (m : Mem) (s : Sched) :
    lmplzOut I m s opts text = lmplzSpec render ids opts text := by
  have hw3 : ∀ l ∈ ids text, ∀ w ∈ l, 3 ≤ w := fun l hl w hw => three_le_of_not_special (h_ids l hl w hw)
  unfold lmplzOut lmplzSpec estimate
  rw [h_stages, h_vocab, h_sort]
  by_cases h1 : opts.cfg.order ≤ 1
  · have e1 : opts.cfg.order = 1 := by omega
    rw [if_pos h1, e1, sortCombine_one _ _ (fun l hl w hw => Nat.le_of_succ_le (hw3 l hl w hw)),
      estimateFromWith_eq_corpus1 _ (h_sorters m s) _ _ _ _ e1 hw3]
  · rw [if_neg h1, sortCombine_ge2 (by omega),
      estimateFromWith_eq_corpus _ (h_sorters m s) _ _ _ _ (by omega) hw3 hk]

section final2
open KV.Vocab
variable {W : Type} [DecidableEq W]

/-- `lmplz_eq_spec_discharged` with `h_chainImpl` narrowed: the stages after the first sort are
the stream functions of C05 composed with *any* correct context / suffix sorts -/
theorem lmplz_eq_spec_discharged2 {Mem Sched Out : Type}
    (I : Impl Mem Sched (List (List W)) Out) (render : Except Err Model → Out) (opts : Opts)
    (hN : 1 ≤ opts.cfg.order) (text : List (List W))
    (hash : W → Nat) (unk bos eos : W) (unkCapHash : Nat) (xOf : Mem → Nat)
    (hx : ∀ m, 1 ≤ xOf m ∧ xOf m ≤ 2^63)
    (h_enc : ∀ m t, I.encode m t = growableIds hash unk bos eos unkCapHash (xOf m) t)
    (hsp : unk ≠ bos ∧ unk ≠ eos ∧ bos ≠ eos)
    (hinj : InjOn hash ([unk, bos, eos] ++ text.flatten))
    (hnz : ∀ w, w ∈ [unk, bos, eos] ++ text.flatten → hash w ≠ 0)
    (hmax : (specEncode unk bos eos text).2 < kWordIndexMax)
    (h_sortImpl : ∀ m s blocks, ∃ pick plan,
      KV.Sort.extSort KV.Sort.suffixLt KV.Sort.combineCounts pick (toBlocks blocks) plan =
        some ((I.sortCombine m s blocks).map toRec))
    (sorters : Mem → Sched → Nat → Sorters)
    (h_stages : ∀ m s full, I.post m s opts full =
      render (estimateFromWith (sorters m s) opts.cfg opts.pruneVocab opts.fallback full))
    (h_sorters : ∀ m s n, SortsOK (sorters m s n))
    (hk : opts.cfg.keepSpecials = true)
    (m : Mem) (s : Sched) :
    lmplzOut I m s opts text = lmplzSpec render (firstOccurrenceIds unk bos eos) opts text := by
  have hids := firstOccurrenceIds_not_special unk bos eos text
  apply lmplz_eq_spec_core2 I render (firstOccurrenceIds unk bos eos) opts hN text
    (fun m => by rw [h_enc]; exact vocab_ids_indep' hash unk bos eos unkCapHash xOf hx text hsp hinj hnz hmax m)
    hids ?_ sorters h_stages h_sorters hk m s
  intro m s
  obtain ⟨pick, plan, hp⟩ := h_sortImpl m s (corpusCount opts.cfg.order (I.cap m) (firstOccurrenceIds unk bos eos text))
  have hnd := blocks_nodup_pf hN (I.cap m) (firstOccurrenceIds unk bos eos text)
    (fun l hl w hw => two_le_of_not_special (hids l hl w hw))
  rw [sort_hyp_discharged_pf _ hnd pick plan] at hp
  have := congrArg (List.map ofRec) (Option.some.inj hp)
  rw [map_ofRec_toRec, map_ofRec_toRec] at this
  exact this.symm

/-- **C07 with `h_chainImpl` narrowed**: any two memory configurations and any two schedules give
the same output, when the stages after the first sort compute the composition of C05's stage
functions with context / suffix sorts that are *any* correct sorts (`SortsOK`: sorted permutation
— C16 `extSort_sorted` + `extSort_perm`, `codeSort_sorted_perm` — they may differ with the
memory configuration, the schedule and the order).  What is still assumed about the later
stages: `h_stages` (the threads over the chains compute that composition; `render` arbitrary)
and the repaired flag `keepSpecials`. -/
theorem lmplz_indep_discharged2 {Mem Sched Out : Type}
    (I : Impl Mem Sched (List (List W)) Out) (render : Except Err Model → Out) (opts : Opts)
    (hN : 1 ≤ opts.cfg.order) (text : List (List W))
    (hash : W → Nat) (unk bos eos : W) (unkCapHash : Nat) (xOf : Mem → Nat)
    (hx : ∀ m, 1 ≤ xOf m ∧ xOf m ≤ 2^63)
    (h_enc : ∀ m t, I.encode m t = growableIds hash unk bos eos unkCapHash (xOf m) t)
    (hsp : unk ≠ bos ∧ unk ≠ eos ∧ bos ≠ eos)
    (hinj : InjOn hash ([unk, bos, eos] ++ text.flatten))
    (hnz : ∀ w, w ∈ [unk, bos, eos] ++ text.flatten → hash w ≠ 0)
    (hmax : (specEncode unk bos eos text).2 < kWordIndexMax)
    (h_sortImpl : ∀ m s blocks, ∃ pick plan,
      KV.Sort.extSort KV.Sort.suffixLt KV.Sort.combineCounts pick (toBlocks blocks) plan =
        some ((I.sortCombine m s blocks).map toRec))
    (sorters : Mem → Sched → Nat → Sorters)
    (h_stages : ∀ m s full, I.post m s opts full =
      render (estimateFromWith (sorters m s) opts.cfg opts.pruneVocab opts.fallback full))
    (h_sorters : ∀ m s n, SortsOK (sorters m s n))
    (hk : opts.cfg.keepSpecials = true)
    (m₁ m₂ : Mem) (s₁ s₂ : Sched) :
    lmplzOut I m₁ s₁ opts text = lmplzOut I m₂ s₂ opts text := by
  rw [lmplz_eq_spec_discharged2 I render opts hN text hash unk bos eos unkCapHash xOf hx h_enc hsp hinj hnz hmax
        h_sortImpl sorters h_stages h_sorters hk m₁ s₁,
      lmplz_eq_spec_discharged2 I render opts hN text hash unk bos eos unkCapHash xOf hx h_enc hsp hinj hnz hmax
        h_sortImpl sorters h_stages h_sorters hk m₂ s₂]

/-! ### non-vacuity: a schedule-dependent, non-stable sort in the later stages -/

/-- sort the reversed input (a correct sort that breaks ties the other way round) -/
def revSorters : Sorters where
  ctx := fun l => l.reverse.mergeSort ctxLe
  suf := fun l => l.reverse.mergeSort uninterpLe

theorem revSorters_ok : SortsOK revSorters :=
  ⟨fun l => ⟨(List.mergeSort_perm _ _).trans (List.reverse_perm l),
      List.pairwise_mergeSort ctxLe_trans ctxLe_total _⟩,
   fun l => ⟨(List.mergeSort_perm _ _).trans (List.reverse_perm l),
      List.pairwise_mergeSort uninterpLe_trans uninterpLe_total _⟩⟩

/-- as `exImplD`, but the schedule (a `Bool`) and the order decide which sort the later stages use -/
def exImplD2 : Impl (Nat × List (List Nat) × Nat) Bool (List (List Nat)) (Except Err Model) where
  cap := fun m => m.1
  encode := fun m t => KV.Vocab.growableIds (· + 1) 0 1 2 999 (m.1 % 1000 + 1) t
  sortCombine := fun m _ blocks =>
    ((KV.Sort.extSort KV.Sort.suffixLt KV.Sort.combineCounts (fun _ _ _ => m.2.2) (toBlocks blocks) m.2.1).getD []).map ofRec
  post := fun m s o full =>
    estimateFromWith (fun n => if s && (n + m.1) % 2 == 0 then revSorters else stdSorters)
      o.cfg o.pruneVocab o.fallback full

example (opts : Opts) (hN : 1 ≤ opts.cfg.order) (hk : opts.cfg.keepSpecials = true) :
    lmplzOut exImplD2 (1, [[2, 2, 1], [2, 1]], 1) true opts [[5, 9, 5, 9], [5, 9]] =
      lmplzOut exImplD2 (100, [], 0) false opts [[5, 9, 5, 9], [5, 9]] :=
  lmplz_indep_discharged2 exImplD2 id opts hN [[5, 9, 5, 9], [5, 9]] (· + 1) 0 1 2 999 (fun m => m.1 % 1000 + 1)
    (fun m => by omega) (fun _ _ => rfl) (by decide) (fun a _ b _ e => by simpa using e) (fun w _ => by simp)
    (by decide) (fun m _ blocks => ⟨_, _, sortImpl_of_extSort (fun _ _ _ => m.2.2) m.2.1 blocks⟩)
    (fun m s n => if s && (n + m.1) % 2 == 0 then revSorters else stdSorters)
    (fun _ _ _ => rfl) (fun m s n => by split <;> [exact revSorters_ok; exact stdSorters_ok]) hk _ _ _ _

end final2
end KV.C07
