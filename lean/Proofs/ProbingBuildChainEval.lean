import Proofs.ProbingBuildChainStep
/-! Key-level evaluation of `chainWant`: the fill updates, the marks, the context mark; the algebra of marks. -/
namespace KV.ProbingBuild
open KV.Arpa KV.Table KV.Score KV.ProbingLM

/-- clearing the sign (`c`) and setting the extension bit (`x`) -/
def markW (w : W) (c x : Bool) : W := { w with neg := w.neg && !c, xr := w.xr || x }
def XrOK (w : W) : Prop := w.backoff ≠ 0 → w.xr = true

theorem markW_ff (w : W) : markW w false false = w := by cases w; simp [markW]
theorem markW_markW (w : W) (c x c' x' : Bool) : markW (markW w c x) c' x' = markW w (c || c') (x || x') := by
  cases w; simp only [markW]
  rename_i mag neg backoff xr rest
  cases neg <;> cases c <;> cases c' <;> cases xr <;> cases x <;> cases x' <;> rfl
theorem clr_eq (w : W) : clr w = markW w true false := by cases w; simp [clr, markW]
theorem setExtension_eq (w : W) (h : XrOK w) : setExtension w = markW w false true := by
  unfold setExtension
  by_cases hb : w.backoff = 0
  · rw [if_pos hb]; cases w; simp [markW]
  · rw [if_neg hb]
    have := h hb
    cases w; simp only [markW] at this ⊢; simp [this]
theorem xrOK_markW (w : W) (c x : Bool) (h : XrOK w) : XrOK (markW w c x) := by
  intro hb
  have := h hb
  simp only [markW] at this ⊢; simp [this]
theorem setExtension_backoff (w : W) : (setExtension w).backoff = w.backoff := by
  unfold setExtension; split <;> rfl
theorem wantW_eq_markW (a : Arpa) (S : List Key) (k : Key) :
    wantW a S k = markW (baseW a k) (endsInK S k) (startsWithK S k) := rfl
theorem expU_eq_markW (S : List Key) (w : Word) (u : W) : expU S w u = markW u (endsInK S [w]) (startsWithK S [w]) := rfl
theorem clr_clr (w : W) : clr (clr w) = clr w := rfl

/-! ### the fill updates at one key -/

theorem fill_other (want : Key → W) (p k : Key) : ∀ (c β : Nat) (prob : Rat) (want0 : Key → W),
    (∀ i, i < c → k ≠ (p.drop 1).take (β + i)) → (∀ i, i < c → k ≠ p.take (β + 1 + i)) →
    applyUpd want0 (fillUs want p c β prob) k = want0 k := by
  intro c
  induction c with
  | zero => intro β prob want0 _ _; rfl
  | succ c ih =>
    intro β prob want0 h1 h2
    simp only [fillUs, applyUpd]
    rw [ih (β + 1) _ _ (fun i hi => by have := h1 (i + 1) (by omega); rw [show β + 1 + i = β + (i + 1) by omega]; exact this)
      (fun i hi => by have := h2 (i + 1) (by omega); rw [show β + 1 + 1 + i = β + 1 + (i + 1) by omega]; exact this)]
    have e1 := h1 0 (by omega)
    have e2 := h2 0 (by omega)
    simp only [Nat.add_zero] at e1 e2
    simp only [updW, e1, e2, if_false]

theorem fill_ctx (want : Key → W) (p k : Key) : ∀ (c β : Nat) (prob : Rat) (want0 : Key → W) (i : Nat),
    i < c → k = (p.drop 1).take (β + i) → β + c ≤ p.length →
    (∀ j, j < c → k ≠ p.take (β + 1 + j)) →
    applyUpd want0 (fillUs want p c β prob) k = setExtension (want0 k) := by
  intro c
  induction c with
  | zero => intro β prob want0 i hi; omega
  | succ c ih =>
    intro β prob want0 i hi hk hlen hnb
    have hkl : k.length = β + i := by rw [hk, List.length_take, List.length_drop]; omega
    have e2 := hnb 0 (by omega)
    simp only [Nat.add_zero] at e2
    simp only [fillUs, applyUpd]
    cases i with
    | zero =>
      simp only [Nat.add_zero] at hk
      rw [fill_other want p k c (β + 1) _ _
        (fun j hj he => by
          have := congrArg List.length he
          rw [hkl, List.length_take, List.length_drop] at this; omega)
        (fun j hj => by have := hnb (j + 1) (by omega); rw [show β + 1 + 1 + j = β + 1 + (j + 1) by omega]; exact this)]
      simp only [updW, e2, if_false, ← hk, if_true]
    | succ i =>
      have e1 : k ≠ (p.drop 1).take β := by
        intro he
        have := congrArg List.length he
        rw [hkl, List.length_take, List.length_drop] at this; omega
      rw [ih (β + 1) _ _ i (by omega) (by rw [hk]; congr 1; omega) (by omega)
        (fun j hj => by have := hnb (j + 1) (by omega); rw [show β + 1 + 1 + j = β + 1 + (j + 1) by omega]; exact this)]
      simp only [updW, e1, e2, if_false]

/-- the probability stored into the blank of order `β+i` -/
def vAt (want : Key → W) (p : Key) : Nat → Nat → Rat → Rat
  | 0, _, prob => prob
  | i+1, β, prob => vAt want p i (β + 1) (prob + (setExtension (want ((p.drop 1).take β))).backoff)

theorem fill_blank (want : Key → W) (p k : Key) : ∀ (c β : Nat) (prob : Rat) (want0 : Key → W) (i : Nat),
    i < c → k = p.take (β + 1 + i) → β + c ≤ p.length →
    (∀ j, j < c → k ≠ (p.drop 1).take (β + j)) →
    applyUpd want0 (fillUs want p c β prob) k = setProb (want0 k) (vAt want p (i + 1) β prob) := by
  intro c
  induction c with
  | zero => intro β prob want0 i hi; omega
  | succ c ih =>
    intro β prob want0 i hi hk hlen hnc
    have hkl : k.length = β + 1 + i := by rw [hk, List.length_take]; omega
    have e1 := hnc 0 (by omega)
    simp only [Nat.add_zero] at e1
    simp only [fillUs, applyUpd]
    cases i with
    | zero =>
      simp only [Nat.add_zero] at hk
      rw [fill_other want p k c (β + 1) _ _
        (fun j hj => by have := hnc (j + 1) (by omega); rw [show β + 1 + j = β + (j + 1) by omega]; exact this)
        (fun j hj he => by
          have := congrArg List.length he
          rw [hkl, List.length_take] at this; omega)]
      simp only [updW, e1, if_false, ← hk, if_true, vAt]
    | succ i =>
      have e2 : k ≠ p.take (β + 1) := by
        intro he
        have := congrArg List.length he
        rw [hkl, List.length_take] at this; omega
      rw [ih (β + 1) _ _ i (by omega) (by rw [hk]; congr 1; omega) (by omega)
        (fun j hj => by have := hnc (j + 1) (by omega); rw [show β + 1 + j = β + (j + 1) by omega]; exact this)]
      simp only [updW, e1, e2, if_false, vAt]

theorem marks_eval (keys : List Key) : ∀ (want0 : Key → W) (k : Key),
    applyUpd want0 (keys.map fun k => (k, clr)) k = if k ∈ keys then clr (want0 k) else want0 k := by
  induction keys with
  | nil => intro want0 k; simp [applyUpd]
  | cons k0 ks ih =>
    intro want0 k
    simp only [List.map_cons, applyUpd]
    rw [ih]
    by_cases hk : k = k0
    · subst hk
      simp [updW, clr_clr]
    · simp [updW, hk]

theorem chainWant_eval (want1 : Key → W) (p : Key) (b L : Nat) (k : Key) :
    chainWant want1 p b L k =
      if k = p.drop 1 then
        setExtension (if k ∈ chainKeys p b L then clr (applyUpd want1 (fillUs want1 p L b (-(want1 (p.take b)).mag)) k)
          else applyUpd want1 (fillUs want1 p L b (-(want1 (p.take b)).mag)) k)
      else (if k ∈ chainKeys p b L then clr (applyUpd want1 (fillUs want1 p L b (-(want1 (p.take b)).mag)) k)
          else applyUpd want1 (fillUs want1 p L b (-(want1 (p.take b)).mag)) k) := by
  unfold chainWant updW
  rw [marks_eval, marks_eval]
  by_cases hk : k = p.drop 1
  · subst hk; simp
  · rw [if_neg hk, if_neg hk]

theorem mem_chainKeys (p : Key) (b L : Nat) (k : Key) : k ∈ chainKeys p b L ↔ ∃ j, b ≤ j ∧ j ≤ b + L ∧ k = p.take j := by
  unfold chainKeys
  simp only [List.mem_map, List.mem_range]
  constructor
  · rintro ⟨i, hi, he⟩
    exact ⟨b + L - i, by omega, by omega, he.symm⟩
  · rintro ⟨j, h1, h2, he⟩
    exact ⟨b + L - j, by omega, by rw [he]; congr 1; omega⟩

end KV.ProbingBuild
