import Proofs.LeftNT3
/-! `NonTerminal` onto an *open* fragment (all words still in the left state): the pointer loop in open mode,
its transition to done mode, and the code after the loop. -/
namespace KV.Left
open KV.Arpa KV.Table KV.State KV.Score

variable {a : Arpa} {T : Table}

/-- the code of `NonTerminal` after the two pointer loops (`left.hh:129-148`) -/
def ntTail (c : Chart) (st : StepOut) : RS :=
  if st.exit then st.rs else
  let rs := st.rs
  if c.left.full then
    { rs with prob := rs.prob + (st.back.take st.nextUse).sum, leftDone := true, out := { rs.out with right := c.right } }
  else if c.right.length < c.left.length then
    { rs with out := { rs.out with right := c.right } }
  else
    { rs with out := { rs.out with right :=
        { length := c.right.length + st.nextUse,
          words := c.right.words.take c.right.length ++ rs.out.right.words.take st.nextUse,
          backoff := c.right.backoff.take c.right.length ++ st.back.take st.nextUse } } }

theorem nonTerminal_loop (R : Ptr → Rat) (rs : RS) (c : Chart) (p : Rat)
    (h1 : (c.left.length == 0) = false) (h2 : (rs.out.right.length == 0) = false) :
    nonTerminal T R rs c p = ntTail c (extendAll T R c c.left.length 1
      { rs := { rs with prob := rs.prob + p }, nextUse := rs.out.right.length,
        back := rs.out.right.backoff.take rs.out.right.length, exit := false }) := by
  unfold nonTerminal ntTail
  simp only [h1, h2, Bool.false_eq_true, if_false]

/-- the code after the loop, when the loop did not exit early -/
theorem nt_tail (H : Hyp a T) (R : Ptr → Rat) {ws2 : List Word} {L2 : Nat} {c : Chart} {p2 : Rat}
    (G : FragC a T R ws2 L2 c p2) {h : List Word} {s0 : State} (sf : StateFor a h s0) (nm : NormS s0)
    {st' : StepOut} (I : InvA a ws2 h s0 L2 st') :
    (ntTail c st').out.left = st'.rs.out.left ∧
    (ntTail c st').leftDone = (st'.rs.leftDone || c.left.full) ∧
    StateFor a (ws2.reverse ++ h) (ntTail c st').out.right ∧ NormS (ntTail c st').out.right ∧
    (ntTail c st').prob = st'.rs.prob + remaining a R ws2 L2 h L2 ∧
    (c.left.full = false → (ntTail c st').out.right.length = ws2.length + st'.nextUse) := by
  have hord : T.order = a.order := H.tf.order_eq
  have hL := G.L_le
  have hlen : c.left.length = L2 := by simp [LeftSt.length, G.ptrs]
  have hnuh : st'.nextUse ≤ h.length := by have := I.nu_le; have := sf.len_le_h; omega
  unfold ntTail
  simp only [I.noexit, Bool.false_eq_true, if_false, hlen]
  by_cases hf : c.left.full = true
  · simp only [hf, if_true, Bool.or_true]
    have hdeadC : ∀ k, 1 ≤ k → k ≤ h.length → ¬ live a (ws2.reverse ++ h.take k) :=
      fun k hk1 hk2 => closed_dead H (G.closed hf) hL (h.take k) (take_ne_nil hk1 hk2)
    refine ⟨(by first | rfl | trivial), (by first | rfl | trivial), stateFor_extend G.right_for h hdeadC, G.right_norm, ?_,
      fun hc => by cases hc⟩
    show st'.rs.prob + (st'.back.take st'.nextUse).sum = _
    rw [I.back, sum_range_map]
    congr 1
    unfold remaining
    rcases G.closed hf with ⟨h1, h2⟩ | ⟨h1, _, k, hk1, hk2, h3⟩ | ⟨h1, h2⟩
    · have ht := tail_a H ws2 h L2 st'.nextUse h1 (by have := I.hN; omega) hnuh h2 I.dead
      rw [ht]; grind
    · have hz0 : rsum (fun j => a.boW (gm1 ws2 L2 ++ h.take (j+1))) 0 st'.nextUse = 0 := by
        apply rsum_zero
        intro j _ hj
        apply boW_zero_of_dead
        have hg : gm1 ws2 L2 = ws2.reverse := by unfold gm1; rw [h1, List.take_of_length_le (Nat.le_refl _)]
        rw [hg]
        exact closed_dead H (G.closed hf) hL _ (take_ne_nil (by omega) (by omega))
      rw [hz0, h1, List.drop_eq_nil_of_le (Nat.le_refl _)]
      simp only [specSeq]; grind
    · have hnu0 : st'.nextUse = 0 := by have := I.hN; rw [hord] at h2; omega
      rw [hnu0, h1, List.drop_eq_nil_of_le (Nat.le_refl _)]
      simp only [specSeq, rsum]; grind
  · have hf' : c.left.full = false := by simpa using hf
    simp only [hf', Bool.false_eq_true, if_false, Bool.or_false]
    obtain ⟨h1, h2⟩ := G.open_ hf'
    have hlt : ¬ (c.right.length < L2) := by omega
    simp only [hlt, if_false]
    have hg : gm1 ws2 L2 = ws2.reverse := by unfold gm1; rw [h1, List.take_of_length_le (Nat.le_refl _)]
    have hw1 : c.right.words.take c.right.length = ws2.reverse := by
      rw [G.right_for.words, h2, List.take_of_length_le (by simp)]
    have hw2 : st'.rs.out.right.words.take st'.nextUse = h.take st'.nextUse := by
      rw [I.right]; exact state_words_take sf nm I.nu_le
    have hb2 := I.back
    rw [hg] at hb2
    have hbl : (st'.back.take st'.nextUse).length = st'.nextUse := by rw [hb2]; simp
    have hcb : (c.right.backoff.take c.right.length).length = c.right.length := by
      rw [List.length_take, G.right_norm.2]; omega
    have hrem : remaining a R ws2 L2 h L2 = 0 := by
      unfold remaining
      rw [h1, List.drop_eq_nil_of_le (Nat.le_refl _)]
      simp only [specSeq]; grind
    refine ⟨(by first | rfl | trivial), (by first | rfl | trivial), ?_, ?_, by rw [hrem]; show st'.rs.prob = _; grind,
      fun _ => by show c.right.length + st'.nextUse = _; omega⟩
    · show StateFor a (ws2.reverse ++ h)
        { length := c.right.length + st'.nextUse,
          words := c.right.words.take c.right.length ++ st'.rs.out.right.words.take st'.nextUse,
          backoff := c.right.backoff.take c.right.length ++ st'.back.take st'.nextUse }
      rw [hw1, hw2]
      refine ⟨by simp; omega, by show c.right.length + st'.nextUse ≤ a.order - 1; have := I.hN; omega, ?_, ?_, ?_⟩
      · show (ws2.reverse ++ h.take st'.nextUse).take (c.right.length + st'.nextUse) = _
        rw [h2]
        have e1 : ws2.length = ws2.reverse.length := by simp
        rw [e1, take_append_len, take_append_len, List.take_take, Nat.min_self]
      · show (c.right.backoff.take c.right.length ++ st'.back.take st'.nextUse).take (c.right.length + st'.nextUse) = _
        rw [List.take_of_length_le (by simp only [List.length_append, hbl, hcb]; omega), range_add_map,
          G.right_for.backoff, hb2]
        congr 1
        · apply List.map_congr_left
          intro j hj
          have : j < c.right.length := by simpa using hj
          rw [List.take_append_of_le_length (by simp; omega)]
        · apply List.map_congr_left
          intro j _
          have e1 : c.right.length + j + 1 = ws2.reverse.length + (j + 1) := by simp; omega
          rw [e1, take_append_len]
      · intro k hk1 hk2
        have hk1' : c.right.length + st'.nextUse < k := hk1
        simp only [List.length_append, List.length_reverse] at hk2
        have e1 : k = ws2.reverse.length + (k - ws2.length) := by simp; omega
        rw [e1, take_append_len, ← hg]
        exact I.dead _ (by omega) (by omega)
    · constructor
      · show (c.right.words.take c.right.length ++ st'.rs.out.right.words.take st'.nextUse).length = _
        rw [hw1, hw2]; simp; omega
      · show (c.right.backoff.take c.right.length ++ st'.back.take st'.nextUse).length = _
        simp only [List.length_append, hbl, hcb]

/-! ### open mode -/

/-- Σ_{i'<i} R(w²_0 … w²_i' preceded by the whole history) -/
def hSum (R : Ptr → Rat) (ws2 h : List Word) : Nat → Rat
  | 0 => 0
  | i+1 => hSum R ws2 h i + R (pre ws2 i ++ h)

/-- loop invariant in open mode: every pointer so far was extended by the whole history and pushed -/
structure InvB (a : Arpa) (T : Table) (R : Ptr → Rat) (ws2 h : List Word) (s0 : State) (P0 : List Ptr) (base : Rat)
    (i : Nat) (st : StepOut) : Prop extends InvA a ws2 h s0 i st where
  open_ : st.rs.leftDone = false
  nu_eq : st.nextUse = s0.length
  ptrs : st.rs.out.left.pointers = P0 ++ (List.range i).map (fun i' => pre ws2 i' ++ h)
  prob : st.rs.prob = base + hSum R ws2 h i - restSum R ws2 i
  xl : ∀ i', i' < i → T.xl (pre ws2 i' ++ h) = true

/-- the loop left open mode after pushing `Lp` pointers -/
structure ClosedOut (a : Arpa) (T : Table) (R : Ptr → Rat) (ws2 h : List Word) (s0 : State) (P0 : List Ptr) (base : Rat)
    (L2 : Nat) (c : Chart) (st' : StepOut) (Lp : Nat) : Prop where
  Lp_le : Lp ≤ L2
  bound : Lp + s0.length ≤ a.order - 1
  done : st'.rs.leftDone = true
  ptrs : st'.rs.out.left.pointers = P0 ++ (List.range Lp).map (fun i' => pre ws2 i' ++ h)
  xl : ∀ i', i' < Lp → T.xl (pre ws2 i' ++ h) = true
  cn : (Lp < ws2.length ∧ ∀ x, T.lookup (pre ws2 Lp ++ h ++ [x]) = none) ∨ (0 < Lp ∧ T.xr (pre ws2 (Lp-1) ++ h) = false)
  fin : (st'.exit = true ∧ st'.rs.out.right = c.right ∧ (∀ k, 1 ≤ k → k ≤ h.length → ¬ live a (ws2.reverse ++ h.take k)) ∧
          st'.rs.prob = base + hSum R ws2 h Lp - restSum R ws2 Lp + remaining a R ws2 L2 h Lp) ∨
        (st'.exit = false ∧ InvA a ws2 h s0 L2 st' ∧
          st'.rs.prob + remaining a R ws2 L2 h L2 = base + hSum R ws2 h Lp - restSum R ws2 Lp + remaining a R ws2 L2 h Lp)

theorem loopB (H : Hyp a T) (R : Ptr → Rat) {ws2 : List Word} {L2 : Nat} {c : Chart} {p2 : Rat}
    (G : FragC a T R ws2 L2 c p2) {h : List Word} {s0 : State} (sf : StateFor a h s0) (nm : NormS s0)
    (hall : s0.length = h.length) (P0 : List Ptr) (base : Rat) :
    ∀ (fuel i : Nat) (st : StepOut), i + fuel = L2 → InvB a T R ws2 h s0 P0 base i st →
      ((extendAll T R c fuel (i+1) st).exit = false ∧ InvB a T R ws2 h s0 P0 base L2 (extendAll T R c fuel (i+1) st)) ∨
      ∃ Lp, ClosedOut a T R ws2 h s0 P0 base L2 c (extendAll T R c fuel (i+1) st) Lp := by
  intro fuel
  induction fuel with
  | zero =>
    intro i st hf I
    have : i = L2 := by omega
    subst this
    exact Or.inl ⟨I.noexit, I⟩
  | succ fuel ih =>
    intro i st hf I
    have hi : i < L2 := by omega
    have hL := G.L_le
    have hiw : i < ws2.length := by omega
    have hord : T.order = a.order := H.tf.order_eq
    obtain ⟨c0, hs, hdef⟩ := rsExtendLeft_step H R G sf nm I.toInvA hi hiw
    have hunf : extendAll T R c (fuel+1) (i+1) st = extendAll T R c fuel (i+1+1) (rsExtendLeft T R st.rs c st.nextUse (i+1) st.back) := by
      simp [extendAll, I.noexit]
    rw [hunf, hdef]
    generalize hret : extendLeft T R (h.take st.nextUse) st.back (pre ws2 i) (i+1) = ret at hs
    have hpc := pre_eq_cons ws2 i hiw
    have hgl := gm1_length ws2 i (by omega)
    have hnu : st.nextUse = h.length := by rw [I.nu_eq, hall]
    have htakeall : ∀ k, h.length ≤ k → h.take k = h := fun k hk => List.take_of_length_le hk
    have hprob : ret.prob = score a (gm1 ws2 i ++ h) ws2[i] - R (pre ws2 i) := by
      have := hs.prob; rw [← hpc] at this; rw [← this]; grind
    have hrem := remaining_step (a := a) R ws2 L2 h i hi hL
    have hnext : ∀ rs', rs'.out.right = s0 →
        InvA a ws2 h s0 (i+1) { rs := rs', nextUse := ret.nextUse, back := ret.backoffOut, exit := false } := by
      intro rs' hr
      refine ⟨hr, ?_, ?_, ?_, ?_, rfl⟩
      · have := hs.nu_le.1; have := hs.c0_le; have := I.nu_le; show ret.nextUse ≤ _; omega
      · have := hs.nu_le.2; rw [hgl, hord] at this
        have := H.wf.order_ge
        show i + 1 + 1 + ret.nextUse ≤ a.order; omega
      · show ret.backoffOut.take ret.nextUse = _
        rw [hs.back, gm1_succ ws2 i hiw, hpc]
      · show ∀ k, ret.nextUse < k → _
        rw [gm1_succ ws2 i hiw, hpc]; exact hs.dead
    have hdead1 : ret.nextUse = 0 → ∀ k, 1 ≤ k → k ≤ h.length → ¬ live a (ws2.reverse ++ h.take k) := by
      intro hz k hk1 hk2
      rw [rev_split ws2 (i+1), List.append_assoc]
      have hne' : gm1 ws2 (i+1) ++ h.take k ≠ [] := by have := take_ne_nil hk1 hk2; simp [this]
      apply H.dead_cons _ _ hne'
      rw [gm1_succ ws2 i hiw, hpc]
      exact hs.dead k (by omega) hk2
    have hunrest : ret.nextUse = 0 → unRest T R (c.left.pointers.drop (i+1)) (i+1+1) = remaining a R ws2 L2 h (i+1) := by
      intro hz
      rw [G.ptrs]
      apply unrest_remaining H R ws2 L2 h hL G.L_lt G.ptr_xl (L2 - (i+1)) (i+1) rfl (by omega)
      intro k hk1 hk2
      rw [gm1_succ ws2 i hiw, hpc]
      exact hs.dead k (by omega) hk2
    have hrange : (List.range (i+1)).map (fun i' => pre ws2 i' ++ h) = (List.range i).map (fun i' => pre ws2 i' ++ h) ++ [pre ws2 i ++ h] := by
      rw [List.range_succ, List.map_append]; rfl
    by_cases hind : ret.independentLeft = true
    · -- the extended n-gram is independent of further context: left state complete with `i` new pointers
      have hpr : processRet st.rs ret = { st.rs with prob := st.rs.prob + ret.prob, leftDone := true } := by
        simp [processRet, I.open_, hind]
      have hcn : ∀ x, T.lookup (pre ws2 i ++ h ++ [x]) = none := by
        intro x
        have hi' := hs.indep
        rw [hind, hgl] at hi'
        have hi' := hi'.symm
        simp only [Bool.or_eq_true, decide_eq_true_eq, Bool.not_eq_true'] at hi'
        apply Classical.byContradiction; intro hne
        have hle := H.ok.len_le _ hne
        rw [hpc] at hle
        simp only [List.length_append, List.length_cons, hgl, List.length_nil] at hle
        have hc0 := hs.c0_le
        have hstop : c0 < h.length → T.lookup (pre ws2 i ++ h ++ [x]) = none := by
          intro hlt
          have := hs.stop (by omega) (by rw [hgl]; omega)
          have e : pre ws2 i ++ h ++ [x] = (ws2[i] :: gm1 ws2 i ++ h.take (c0+1)) ++ (h.drop (c0+1) ++ [x]) := by
            rw [hpc]
            simp only [List.cons_append, List.append_assoc]
            rw [← List.append_assoc (h.take (c0+1)), List.take_append_drop]
          rw [e]
          exact lookup_none_extend H.ok _ _ (by simp) this
        rcases hi' with (h1 | h1) | h1
        · by_cases hlt : c0 < h.length
          · exact hne (hstop hlt)
          · omega
        · exact hne (hstop (by omega))
        · by_cases hlt : c0 < h.length
          · exact hne (hstop hlt)
          · rw [htakeall c0 (by omega), ← hpc] at h1
            have hfd := hs.found
            rw [htakeall c0 (by omega), ← hpc] at hfd
            obtain ⟨t, ht⟩ := Option.ne_none_iff_exists'.mp hfd
            have hxl : t.extendsLeft = false := by simpa [Table.xl, ht] using h1
            have := H.ok.xl_sound _ x t ht hxl
            exact hne this
      simp only [hpr]
      have hb1 : i + s0.length ≤ a.order - 1 := by have := I.hN; rw [I.nu_eq] at this; omega
      have hX : st.rs.prob + ret.prob + remaining a R ws2 L2 h (i+1) =
          base + hSum R ws2 h i - restSum R ws2 i + remaining a R ws2 L2 h i := by
        rw [I.prob, hrem, hprob]; grind
      by_cases hne : (ret.nextUse != s0.length) = true
      · simp only [hne, if_true]
        by_cases hz : (ret.nextUse == 0) = true
        · simp only [hz, if_true]
          rw [extendAll_exit R c fuel _ _ rfl]
          have hz' : ret.nextUse = 0 := by simpa using hz
          refine Or.inr ⟨i, ⟨by omega, hb1, rfl, I.ptrs, I.xl, Or.inl ⟨hiw, hcn⟩, Or.inl ⟨rfl, rfl, hdead1 hz', ?_⟩⟩⟩
          show st.rs.prob + ret.prob + unRest T R (c.left.pointers.drop (i+1)) (i+1+1) = _
          rw [hunrest hz', hX]
        · simp only [hz, Bool.false_eq_true, if_false]
          have I' := hnext { st.rs with prob := st.rs.prob + ret.prob, leftDone := true } I.right
          obtain ⟨h1, h2, h3⟩ := loopA H R G sf nm fuel (i+1) _ (by omega) I' rfl
          refine Or.inr ⟨i, ⟨by omega, hb1, h1, by rw [h2]; exact I.ptrs, I.xl, Or.inl ⟨hiw, hcn⟩, ?_⟩⟩
          rcases h3 with ⟨e1, e2, e3, e4⟩ | ⟨e1, e2, e3⟩
          · exact Or.inl ⟨e1, e2, e3, by rw [e4]; exact hX⟩
          · exact Or.inr ⟨e1, e2, by rw [e3]; exact hX⟩
      · simp only [hne, Bool.false_eq_true, if_false]
        have I' := hnext { st.rs with prob := st.rs.prob + ret.prob, leftDone := true } I.right
        obtain ⟨h1, h2, h3⟩ := loopA H R G sf nm fuel (i+1) _ (by omega) I' rfl
        refine Or.inr ⟨i, ⟨by omega, hb1, h1, by rw [h2]; exact I.ptrs, I.xl, Or.inl ⟨hiw, hcn⟩, ?_⟩⟩
        rcases h3 with ⟨e1, e2, e3, e4⟩ | ⟨e1, e2, e3⟩
        · exact Or.inl ⟨e1, e2, e3, by rw [e4]; exact hX⟩
        · exact Or.inr ⟨e1, e2, by rw [e3]; exact hX⟩
    · -- the whole history matched and the n-gram extends left: push the pointer
      have hind' : ret.independentLeft = false := by simpa using hind
      have hi' := hs.indep
      rw [hind', hgl] at hi'
      have hi' := hi'.symm
      simp only [Bool.or_eq_false_iff, decide_eq_false_iff_not, Bool.not_eq_false'] at hi'
      obtain ⟨⟨hi1, hi2⟩, hi3⟩ := hi'
      have hc0 : c0 = h.length := by have := hs.c0_le; omega
      have hlenN : i + 1 + h.length < T.order := by have := hs.len_le; rw [hgl] at this; omega
      rw [hc0, htakeall _ (Nat.le_refl _), ← hpc] at hi3
      have hptr := hs.ptr (by rw [hgl]; omega)
      rw [hc0, htakeall _ (Nat.le_refl _), ← hpc] at hptr
      have hrest := hs.rest (by rw [hgl]; omega)
      rw [hc0, htakeall _ (Nat.le_refl _), ← hpc] at hrest
      have hrest' : ret.rest = R (pre ws2 i ++ h) - R (pre ws2 i) := by rw [← hrest]; grind
      have hpr : processRet st.rs ret =
          { st.rs with out := { st.rs.out with left := { st.rs.out.left with pointers := st.rs.out.left.pointers ++ [pre ws2 i ++ h] } },
                       prob := st.rs.prob + ret.rest } := by
        simp [processRet, I.open_, hind', hptr]
      have hptrs' : st.rs.out.left.pointers ++ [pre ws2 i ++ h] = P0 ++ (List.range (i+1)).map (fun i' => pre ws2 i' ++ h) := by
        rw [I.ptrs, hrange, List.append_assoc]
      have hxl' : ∀ i', i' < i + 1 → T.xl (pre ws2 i' ++ h) = true := by
        intro i' hi'
        by_cases hlt : i' < i
        · exact I.xl i' hlt
        · have : i' = i := by omega
          subst this; exact hi3
      have hprob' : st.rs.prob + ret.rest = base + hSum R ws2 h (i+1) - restSum R ws2 (i+1) := by
        rw [I.prob, hrest']; simp only [hSum, restSum]; grind
      simp only [hpr]
      by_cases hne : (ret.nextUse != s0.length) = true
      · -- … but it does not extend right: complete with `i+1` new pointers
        simp only [hne, if_true]
        have hnen : ret.nextUse ≠ h.length := by rw [← hall]; simpa using hne
        have hb2 : i + 1 + s0.length ≤ a.order - 1 := by rw [hall, ← hord]; omega
        have hxr : T.xr (pre ws2 i ++ h) = false := by
          have := hs.unmarked h.length (by have := hs.nu_le.1; omega) (by omega) (by rw [hgl]; omega)
          rwa [htakeall _ (Nat.le_refl _), ← hpc] at this
        have hcn : (i + 1 < ws2.length ∧ ∀ x, T.lookup (pre ws2 (i+1) ++ h ++ [x]) = none) ∨
            (0 < i + 1 ∧ T.xr (pre ws2 (i + 1 - 1) ++ h) = false) := Or.inr ⟨by omega, by simpa using hxr⟩
        have hX : st.rs.prob + ret.rest + remaining a R ws2 L2 h (i+1) =
            base + hSum R ws2 h (i+1) - restSum R ws2 (i+1) + remaining a R ws2 L2 h (i+1) := by rw [hprob']
        by_cases hz : (ret.nextUse == 0) = true
        · simp only [hz, if_true]
          rw [extendAll_exit R c fuel _ _ rfl]
          have hz' : ret.nextUse = 0 := by simpa using hz
          refine Or.inr ⟨i+1, ⟨by omega, hb2, rfl, hptrs', hxl', hcn, Or.inl ⟨rfl, rfl, hdead1 hz', ?_⟩⟩⟩
          show st.rs.prob + ret.rest + unRest T R (c.left.pointers.drop (i+1)) (i+1+1) = _
          rw [hunrest hz', hX]
        · simp only [hz, Bool.false_eq_true, if_false]
          have I' := hnext { st.rs with out := { st.rs.out with left := { st.rs.out.left with pointers := st.rs.out.left.pointers ++ [pre ws2 i ++ h] } },
                                        prob := st.rs.prob + ret.rest, leftDone := true } I.right
          obtain ⟨h1, h2, h3⟩ := loopA H R G sf nm fuel (i+1) _ (by omega) I' rfl
          refine Or.inr ⟨i+1, ⟨by omega, hb2, h1, by rw [h2]; exact hptrs', hxl', hcn, ?_⟩⟩
          rcases h3 with ⟨e1, e2, e3, e4⟩ | ⟨e1, e2, e3⟩
          · exact Or.inl ⟨e1, e2, e3, by rw [e4]; exact hX⟩
          · exact Or.inr ⟨e1, e2, by rw [e3]; exact hX⟩
      · -- still open
        simp only [hne, Bool.false_eq_true, if_false]
        have hnu' : ret.nextUse = s0.length := by simpa using hne
        have I' := hnext { st.rs with out := { st.rs.out with left := { st.rs.out.left with pointers := st.rs.out.left.pointers ++ [pre ws2 i ++ h] } },
                                      prob := st.rs.prob + ret.rest } I.right
        exact ih (i+1) _ (by omega) ⟨I', I.open_, hnu', hptrs', hprob', hxl'⟩

end KV.Left
