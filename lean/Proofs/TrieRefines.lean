import Model.TrieLM
import Proofs.SearchSim
import Proofs.Search
import Properties.C20
/-! `trie_refines`: the bit-packed trie search over a `Nat` memory refines the abstract table search.

`SimOn` is `Sim` (Proofs/SearchSim.lean) restricted to valid words (`new_word < Bound()` is a documented precondition of
the code: the unigram array is indexed without a check), with the same conclusion for valid states and words. -/
namespace KV.Score
open KV.Arpa KV.Table KV.State

structure SimOn (V : Word → Prop) {ν₁ ν₂ : Type} (S₁ : Search ν₁) (S₂ : Search ν₂) (R : Nat → ν₁ → ν₂ → Prop) : Prop where
  order : S₁.order = S₂.order
  uni : ∀ w, V w → (S₁.lookupUnigram w).1 = (S₂.lookupUnigram w).1 ∧ R 1 (S₁.lookupUnigram w).2 (S₂.lookupUnigram w).2
  mid : ∀ om2 w n₁ n₂, V w → om2 + 2 < S₁.order → R (om2 + 1) n₁ n₂ →
    (S₁.lookupMiddle om2 w n₁).1 = (S₂.lookupMiddle om2 w n₂).1 ∧
    ((S₁.lookupMiddle om2 w n₁).1 ≠ none → R (om2 + 2) (S₁.lookupMiddle om2 w n₁).2 (S₂.lookupMiddle om2 w n₂).2)
  long : ∀ w n₁ n₂, V w → R (S₁.order - 1) n₁ n₂ → S₁.lookupLongest w n₁ = S₂.lookupLongest w n₂

theorem resume_simOn (V : Word → Prop) {ν₁ ν₂ : Type} (S₁ : Search ν₁) (S₂ : Search ν₂) (R : Nat → ν₁ → ν₂ → Prop)
    (sim : SimOn V S₁ S₂ R) (hN : 2 ≤ S₁.order) :
    ∀ (hist : List Word) (om2 : Nat) (n₁ : ν₁) (n₂ : ν₂) (a₁ : Acc ν₁) (a₂ : Acc ν₂), (∀ x ∈ hist, V x) →
      om2 + 2 ≤ S₁.order → R (om2 + 1) n₁ n₂ → AccEq a₁ a₂ →
      AccEq (resumeScore S₁ hist om2 n₁ a₁) (resumeScore S₂ hist om2 n₂ a₂) := by
  intro hist
  induction hist with
  | nil => intro om2 n₁ n₂ a₁ a₂ _ _ _ h; simpa [resumeScore] using h
  | cons x rest ih =>
    intro om2 n₁ n₂ a₁ a₂ hV hom hR h
    have hx : V x := hV x (by simp)
    have hrest : ∀ y ∈ rest, V y := fun y hy => hV y (by simp [hy])
    obtain ⟨hp, hr, hl, hi, hb, hn⟩ := h
    unfold resumeScore
    rw [← hi]
    by_cases hil : a₁.ret.independentLeft = true
    · simp only [hil, if_true]; exact ⟨hp, hr, hl, hi, hb, hn⟩
    · simp only [hil, Bool.false_eq_true, if_false]
      rw [← sim.order]
      by_cases hlong : om2 = S₁.order - 2
      · have hb' : (om2 == S₁.order - 2) = true := by simpa using hlong
        simp only [hb', if_true]
        have hd : om2 + 1 = S₁.order - 1 := by omega
        rw [hd] at hR
        rw [← sim.long x n₁ n₂ hx hR]
        cases S₁.lookupLongest x n₁ with
        | none => exact ⟨hp, hr, hl, rfl, hb, hn⟩
        | some p => exact ⟨rfl, rfl, rfl, rfl, hb, hn⟩
      · have hb' : (om2 == S₁.order - 2) = false := by simpa using hlong
        simp only [hb', Bool.false_eq_true, if_false]
        obtain ⟨hm, hRn⟩ := sim.mid om2 x n₁ n₂ hx (by omega) hR
        rcases h1 : S₁.lookupMiddle om2 x n₁ with ⟨r₁, m₁⟩
        rcases h2 : S₂.lookupMiddle om2 x n₂ with ⟨r₂, m₂⟩
        rw [h1, h2] at hm hRn
        simp only at hm hRn
        subst hm
        cases r₁ with
        | none => exact ⟨hp, hr, hl, rfl, hb, hn⟩
        | some m =>
          simp only
          apply ih (om2 + 1) m₁ m₂ _ _ hrest (by omega) (hRn (by simp))
          exact ⟨rfl, rfl, rfl, rfl, by rw [hb], by rw [hn]⟩

theorem fullScore_simOn (V : Word → Prop) {ν₁ ν₂ : Type} (S₁ : Search ν₁) (S₂ : Search ν₂) (R : Nat → ν₁ → ν₂ → Prop)
    (sim : SimOn V S₁ S₂ R) (hN : 2 ≤ S₁.order) (s : State) (w : Word) (hw : V w) (hs : ∀ x ∈ s.words.take s.length, V x) :
    (fullScore S₁ s w).1.prob = (fullScore S₂ s w).1.prob ∧
    (fullScore S₁ s w).1.ngramLength = (fullScore S₂ s w).1.ngramLength ∧
    (fullScore S₁ s w).1.independentLeft = (fullScore S₂ s w).1.independentLeft ∧
    (fullScore S₁ s w).1.rest = (fullScore S₂ s w).1.rest ∧
    (fullScore S₁ s w).2 = (fullScore S₂ s w).2 := by
  obtain ⟨hu, hR⟩ := sim.uni w hw
  rcases h1 : S₁.lookupUnigram w with ⟨u₁, n₁⟩
  rcases h2 : S₂.lookupUnigram w with ⟨u₂, n₂⟩
  rw [h1, h2] at hu hR
  simp only at hu hR
  subst hu
  have := resume_simOn V S₁ S₂ R sim hN (s.words.take s.length) 0 n₁ n₂
    { ret := { prob := u₁.prob, rest := u₁.rest, ngramLength := 1, independentLeft := u₁.independentLeft, extendLeft := n₁ },
      backoffOut := [u₁.backoff], nextUse := if u₁.extendsRight then 1 else 0 }
    { ret := { prob := u₁.prob, rest := u₁.rest, ngramLength := 1, independentLeft := u₁.independentLeft, extendLeft := n₂ },
      backoffOut := [u₁.backoff], nextUse := if u₁.extendsRight then 1 else 0 }
    hs (by omega) hR ⟨rfl, rfl, rfl, rfl, rfl, rfl⟩
  obtain ⟨hp, hr, hl, hi, hb, hn⟩ := this
  simp only [fullScore, scoreExceptBackoff, h1, h2]
  refine ⟨by rw [hp, hl], hl, hi, hr, ?_⟩
  rw [hb, hn]

end KV.Score

namespace KV.TrieLM
open KV.Arpa KV.Table KV.Score KV.State KV.Search

/-- the key array of a bit-packed order in the position convention of `bfind` -/
def keyPos (mem base wordBits totalBits : Nat) : Nat → Nat := fun pos => wordAt mem base wordBits totalBits (pos - 1)

/-- How a trie memory represents a table.  `rng g` (ghost) is the child range of the reversed n-gram `g`: the indices, in
the array of the next order, of the records `g ++ [w]`.  Every entry of the table (real n-gram or blank) is reached by the
chain `rng [w₁]`, `rng [w₁,w₂]`, …; within a child range the word fields are sorted (what `FindBitPacked` needs), every
record of the range is an entry of the table with these values and this child range, and every entry has a record. -/
structure Represents (fval : Nat → Rat) (M : Trie) (T : Table) (rng : List Word → Node) : Prop where
  order : M.order = T.order
  uni : ∀ w, w < M.bound → ∃ t, T.lookup [w] = some t ∧ toFound fval (unigramRec M w) = Score.toFound t ∧
    (unigramRec M w).range = rng [w]
  mid_bound : ∀ om2, om2 + 2 < T.order → M.bound ≤ (M.middle om2).maxVocab + 1
  mid_sorted : ∀ g om2, T.lookup g ≠ none → g.length = om2 + 1 → om2 + 2 < T.order →
    SortedIn (keyPos M.mem (M.middle om2).base (M.middle om2).wordBits (M.middle om2).totalBits) (rng g).1 ((rng g).2 + 1)
  mid_rec : ∀ g om2 i, T.lookup g ≠ none → g.length = om2 + 1 → om2 + 2 < T.order → (rng g).1 ≤ i → i < (rng g).2 →
    ∃ t, T.lookup (g ++ [wordAt M.mem (M.middle om2).base (M.middle om2).wordBits (M.middle om2).totalBits i]) = some t ∧
      toFound fval (middleRec M om2 i) = Score.toFound t ∧
      (middleRec M om2 i).range = rng (g ++ [wordAt M.mem (M.middle om2).base (M.middle om2).wordBits (M.middle om2).totalBits i])
  mid_all : ∀ g om2 w, T.lookup g ≠ none → g.length = om2 + 1 → om2 + 2 < T.order → T.lookup (g ++ [w]) ≠ none →
    ∃ i, (rng g).1 ≤ i ∧ i < (rng g).2 ∧ wordAt M.mem (M.middle om2).base (M.middle om2).wordBits (M.middle om2).totalBits i = w
  long_bound : M.bound ≤ M.longest.maxVocab + 1
  long_sorted : ∀ g, T.lookup g ≠ none → 1 ≤ g.length → g.length + 1 = T.order →
    SortedIn (keyPos M.mem M.longest.base M.longest.wordBits M.longest.totalBits) (rng g).1 ((rng g).2 + 1)
  long_rec : ∀ g i, T.lookup g ≠ none → 1 ≤ g.length → g.length + 1 = T.order → (rng g).1 ≤ i → i < (rng g).2 →
    ∃ t, T.lookup (g ++ [wordAt M.mem M.longest.base M.longest.wordBits M.longest.totalBits i]) = some t ∧
      fval (longestProbBits M i) = t.prob
  long_all : ∀ g w, T.lookup g ≠ none → 1 ≤ g.length → g.length + 1 = T.order → T.lookup (g ++ [w]) ≠ none →
    ∃ i, (rng g).1 ≤ i ∧ i < (rng g).2 ∧ wordAt M.mem M.longest.base M.longest.wordBits M.longest.totalBits i = w

/-- `FindBitPacked` on a sorted child range: the index of a record with the key, iff there is one -/
theorem findBitPacked_spec (mem base wordBits totalBits maxVocab key : Nat) (r : Node)
    (hs : SortedIn (keyPos mem base wordBits totalBits) r.1 (r.2 + 1)) (hk : key ≤ maxVocab) :
    (∀ i, findBitPacked mem base wordBits totalBits maxVocab key r = some i →
        r.1 ≤ i ∧ i < r.2 ∧ wordAt mem base wordBits totalBits i = key) ∧
    ((∃ i, r.1 ≤ i ∧ i < r.2 ∧ wordAt mem base wordBits totalBits i = key) →
        (findBitPacked mem base wordBits totalBits maxVocab key r).isSome) := by
  have h := KV.C20.bounded_find_correct (keyPos mem base wordBits totalBits) pivot32 pivot32_ok key
    (r.2 + 1 - r.1) r.1 0 (r.2 + 1) maxVocab hs (Nat.zero_le _) hk (by omega)
  constructor
  · intro i hi
    unfold findBitPacked at hi
    rw [Option.map_eq_some_iff] at hi
    obtain ⟨p, hp, hpi⟩ := hi
    obtain ⟨ha, hlo, hhi⟩ := h.2 p hp
    subst hpi
    refine ⟨by omega, by omega, ha⟩
  · rintro ⟨i, h1, h2, h3⟩
    have : (bfind (keyPos mem base wordBits totalBits) pivot32 key (r.2 + 1 - r.1) r.1 0 (r.2 + 1) maxVocab).isSome :=
      h.1.mpr ⟨i + 1, by omega, by omega, by simpa [keyPos] using h3⟩
    unfold findBitPacked
    rw [Option.isSome_map]
    exact this

theorem trie_sim (fval : Nat → Rat) (M : Trie) (T : Table) (rng : List Word → Node) (rep : Represents fval M T rng)
    (hN : 2 ≤ T.order) :
    SimOn (fun w => w < M.bound) (search fval M) (tableSearch T)
      (fun d n g => g.length = d ∧ T.lookup g ≠ none ∧ n = rng g) := by
  refine ⟨rep.order, ?_, ?_, ?_⟩
  · intro w hw
    obtain ⟨t, ht, hf, hr⟩ := rep.uni w hw
    refine ⟨?_, rfl, ?_, ?_⟩
    · simp only [search, tableSearch, ht]; exact hf
    · simp [tableSearch, ht]
    · simp only [search, tableSearch]; exact hr
  · intro om2 w n g hw hom ⟨hl, hg, hn⟩
    have hom' : om2 + 2 < T.order := by rw [← rep.order]; exact hom
    subst hn
    have hsort := rep.mid_sorted g om2 hg hl hom'
    have hk : w ≤ (M.middle om2).maxVocab := Nat.le_of_lt_succ (Nat.lt_of_lt_of_le hw (rep.mid_bound om2 hom'))
    obtain ⟨hsound, hcomplete⟩ := findBitPacked_spec M.mem (M.middle om2).base (M.middle om2).wordBits (M.middle om2).totalBits
      (M.middle om2).maxVocab w (rng g) hsort hk
    simp only [search, tableSearch, middleFind]
    cases hf : findBitPacked M.mem (M.middle om2).base (M.middle om2).wordBits (M.middle om2).totalBits (M.middle om2).maxVocab w (rng g) with
    | none =>
      cases ht : T.lookup (g ++ [w]) with
      | none => simp
      | some t =>
        have := hcomplete (rep.mid_all g om2 w hg hl hom' (by simp [ht]))
        rw [hf] at this; cases this
    | some i =>
      obtain ⟨h1, h2, h3⟩ := hsound i hf
      obtain ⟨t, ht, hfound, hrange⟩ := rep.mid_rec g om2 i hg hl hom' h1 h2
      rw [h3] at ht hrange
      refine ⟨by simp [ht, hfound], fun _ => ⟨by simp [hl], by simp [ht], hrange⟩⟩
  · intro w n g hw ⟨hl, hg, hn⟩
    subst hn
    have hord : (search fval M).order = T.order := rep.order
    have hl' : g.length + 1 = T.order := by rw [hord] at hl; omega
    have h1g : 1 ≤ g.length := by omega
    have hsort := rep.long_sorted g hg h1g hl'
    have hk : w ≤ M.longest.maxVocab := Nat.le_of_lt_succ (Nat.lt_of_lt_of_le hw rep.long_bound)
    obtain ⟨hsound, hcomplete⟩ := findBitPacked_spec M.mem M.longest.base M.longest.wordBits M.longest.totalBits
      M.longest.maxVocab w (rng g) hsort hk
    simp only [search, tableSearch, longestFind]
    cases hf : findBitPacked M.mem M.longest.base M.longest.wordBits M.longest.totalBits M.longest.maxVocab w (rng g) with
    | none =>
      cases ht : T.lookup (g ++ [w]) with
      | none => simp
      | some t =>
        have := hcomplete (rep.long_all g w hg h1g hl' (by simp [ht]))
        rw [hf] at this; cases this
    | some i =>
      obtain ⟨h1, h2, h3⟩ := hsound i hf
      obtain ⟨t, ht, hp⟩ := rep.long_rec g i hg h1g hl' h1 h2
      rw [h3] at ht
      simp [ht, hp]

end KV.TrieLM
