import Proofs.TrieReads
import Proofs.TrieShape
import Proofs.BinaryBhiksha
import Model.TrieG
/-! `Reads` for the memory `ofTableG` writes (all four trie classes): ArrayBhiksha offsets read back through
`Bhiksha.array_roundtrip`, quantised records read back as the centre their code points to. -/
set_option maxRecDepth 4000
namespace KV.TrieLM
open KV.Bits KV.Score KV.Search KV.Binary

instance : Inhabited MiddleRegion := ⟨⟨0, 0, 0, 0, 0, 0, 0, 0, 0, 0⟩⟩

def setupG (bt : BT) (bound order start : Nat) (q : Option QSpec) (array : Bool) (bh : Nat) : TrieRegions :=
  trieSetup q.isSome array (cfgG q bh) (countsOf bt bound order) start

def midG (bt : BT) (bound order start : Nat) (q : Option QSpec) (array : Bool) (bh : Nat) (om2 : Nat) : MiddleRegion :=
  (setupG bt bound order start q array bh).middles.getD om2 default

/-- `Quant::MiddleBits` / `LongestBits` -/
def QB (q : Option QSpec) : Nat := match q with | none => 63 | some qs => qs.backoffBits + qs.probBits
def LB (q : Option QSpec) : Nat := match q with | none => 31 | some qs => qs.probBits
def VA (q : Option QSpec) : Nat := match q with | none => 31 | some qs => qs.backoffBits
def VB (q : Option QSpec) : Nat := match q with | none => 32 | some qs => qs.probBits

theorem va_vb (q : Option QSpec) : VA q + VB q = QB q := by cases q <;> rfl

/-- layout facts of `Binary.trieSetup` the read-back needs (bit widths, no `uint8` wrap, table sizes, regions in file order) -/
structure ShapeG (bt : BT) (bound order start : Nat) (q : Option QSpec) (array : Bool) (bh : Nat) : Prop where
  nmid : (setupG bt bound order start q array bh).middles.length = order - 2
  mid : ∀ om2, om2 + 2 < order →
    (midG bt bound order start q array bh om2).wordBits = requiredBits bound ∧
    (midG bt bound order start q array bh om2).quantBits = QB q ∧
    (midG bt bound order start q array bh om2).totalBits = requiredBits bound + QB q + (midG bt bound order start q array bh om2).inline ∧
    (midG bt bound order start q array bh om2).inline ≤ 57 ∧
    (array = false → (level bt bound (om2 + 3)).length < 2^(midG bt bound order start q array bh om2).inline) ∧
    (array = true → ((midG bt bound order start q array bh om2).offEnd - (midG bt bound order start q array bh om2).offBegin) / 8
      = ((level bt bound (om2 + 3)).length >>> (midG bt bound order start q array bh om2).inline) + 1)
  long : (setupG bt bound order start q array bh).longest.2.1 = requiredBits bound ∧
    (setupG bt bound order start q array bh).longest.2.2 = requiredBits bound + LB q
  ord : (regionsG bt bound order start q array bh).Pairwise RegionSpec.Before
  wbits : requiredBits bound ≤ 57
  small : bound < 2^64 ∧ ∀ k, k ≤ order → (level bt bound k).length < 2^64

/-- a usable quantiser: code widths the 25-bit reader handles, full tables of 32-bit patterns, codes inside the tables -/
structure QOK (order : Nat) (qs : QSpec) : Prop where
  pb : qs.probBits ≤ 25
  bb : qs.backoffBits ≤ 25
  plen : ∀ t, (qs.ptab t).length = 2^qs.probBits
  blen : ∀ t, (qs.btab t).length = 2^qs.backoffBits
  pval : ∀ t, ∀ x ∈ qs.ptab t, x < 2^32
  bval : ∀ t, ∀ x ∈ qs.btab t, x < 2^32
  pcode : ∀ g, qs.pcode g < 2^qs.probBits
  bcode : ∀ g, qs.bcode g < 2^qs.backoffBits

def QOK' (order : Nat) (q : Option QSpec) : Prop := ∀ qs, q = some qs → QOK order qs

/-- the bits the pointers of the built trie return for key `g` -/
def pvG (bt : BT) (q : Option QSpec) (g : List Nat) : Nat :=
  match q with
  | none => if g.length = 1 then (valuesOf bt g).1 else (valuesOf bt g).1 % 2^31 + 2^31
  | some qs => if g.length = 1 then (valuesOf bt g).1 else (qs.ptab (g.length - 2)).getD (qs.pcode g) 0

def bvG (bt : BT) (q : Option QSpec) (g : List Nat) : Nat :=
  match q with
  | none => (valuesOf bt g).2
  | some qs => if g.length = 1 then (valuesOf bt g).2 else (qs.btab (g.length - 2)).getD (qs.bcode g) 0

/-! ### the regions are well formed -/

theorem bytesRegion_ok (off : Nat) (bytes : List Nat) : (bytesRegion off bytes).OK := by
  refine ⟨?_, ?_, ?_⟩
  · intro s hs
    have : s = 0 := by have : s < 1 := hs; omega
    subst this; simp [bytesRegion, RegionSpec.slotOff, RegionSpec.slotLen]
  · intro s s' h hs'
    have : s' < 1 := hs'
    omega
  · intro i s v _ hs hv
    have : s = 0 := by have : s < 1 := hs; omega
    subst this
    simp only [bytesRegion, Option.some.injEq] at hv
    subst hv
    simp only [bytesRegion, RegionSpec.slotLen, List.getD_cons_zero]
    exact Nat.mod_lt _ (by decide)

theorem tabRegion_ok (off : Nat) (tab : List Nat) : (tabRegion off tab).OK := by
  refine ⟨?_, ?_, ?_⟩
  · intro s hs
    have : s = 0 := by have : s < 1 := hs; omega
    subst this; simp [tabRegion, RegionSpec.slotOff, RegionSpec.slotLen]
  · intro s s' h hs'
    have : s' < 1 := hs'
    omega
  · intro i s v _ hs hv
    have : s = 0 := by have : s < 1 := hs; omega
    subst this
    simp only [tabRegion, Option.some.injEq] at hv
    subst hv
    simp only [tabRegion, RegionSpec.slotLen, List.getD_cons_zero]
    exact Nat.mod_lt _ (by decide)

theorem offRegion_ok (off : Nat) (tab : List Nat) : (offRegion off tab).OK := by
  refine ⟨?_, ?_, ?_⟩
  · intro s hs
    have : s = 0 := by have : s < 1 := hs; omega
    subst this; simp [offRegion, RegionSpec.slotOff, RegionSpec.slotLen]
  · intro s s' h hs'
    have : s' < 1 := hs'
    omega
  · intro i s v _ hs hv
    have : s = 0 := by have : s < 1 := hs; omega
    subst this
    simp only [offRegion, Option.some.injEq] at hv
    subst hv
    simp only [offRegion, RegionSpec.slotLen, List.getD_cons_zero]
    exact Nat.mod_lt _ (by decide)

theorem midRegionG_ok (bt : BT) (bound k : Nat) (m : MiddleRegion) (q : Option QSpec)
    (hq : m.quantBits = QB q) (ht : m.totalBits = m.wordBits + QB q + m.inline) : (midRegionG bt bound k m q).OK := by
  have hab := va_vb q
  have hsl : (midRegionG bt bound k m q).slots = [(0, m.wordBits), (m.wordBits, VA q), (m.wordBits + VA q, VB q), (m.wordBits + m.quantBits, m.inline)] := by
    cases q <;> rfl
  have hst : (midRegionG bt bound k m q).stride = m.totalBits := rfl
  refine ⟨?_, ?_, ?_⟩
  · intro s hs
    rw [hsl] at hs
    simp only [RegionSpec.slotOff, RegionSpec.slotLen, hsl, hst]
    rcases slot_cases4 s hs with rfl | rfl | rfl | rfl <;> simp <;> omega
  · intro s s' h1 hs'
    rw [hsl] at hs'
    simp only [RegionSpec.slotOff, RegionSpec.slotLen, hsl]
    rcases slot_cases4 s' hs' with rfl | rfl | rfl | rfl <;>
      rcases slot_cases4 s (by omega) with rfl | rfl | rfl | rfl <;>
      first | omega | (simp <;> omega)
  · intro i s v _ hs hval
    rw [hsl] at hs
    simp only [RegionSpec.slotLen, hsl]
    rcases slot_cases4 s hs with rfl | rfl | rfl | rfl
    · simp only [midRegionG, show (0:Nat) ≠ 3 by decide, if_false, if_true] at hval
      split at hval
      · cases hval; simp only [List.getD_cons_zero]; exact Nat.mod_lt _ (Nat.two_pow_pos _)
      · cases hval
    · simp only [midRegionG, show (1:Nat) ≠ 3 by decide, show (1:Nat) ≠ 0 by decide, if_false, if_true] at hval
      split at hval
      · cases hval
        cases q with
        | none => exact Nat.mod_lt _ (by decide)
        | some qs => exact Nat.mod_lt _ (Nat.two_pow_pos _)
      · cases hval
    · simp only [midRegionG, show (2:Nat) ≠ 3 by decide, show (2:Nat) ≠ 0 by decide, show (2:Nat) ≠ 1 by decide, if_false] at hval
      split at hval
      · cases hval
        cases q with
        | none => exact Nat.mod_lt _ (by decide)
        | some qs => exact Nat.mod_lt _ (Nat.two_pow_pos _)
      · cases hval
    · simp only [midRegionG, if_true] at hval
      cases hval
      exact Nat.mod_lt _ (Nat.two_pow_pos _)

theorem longRegionG_ok (bt : BT) (bound order base W T : Nat) (q : Option QSpec) (ht : T = W + LB q) :
    (longRegionG bt bound order base W T q).OK := by
  have hsl : (longRegionG bt bound order base W T q).slots = [(0, W), (W, LB q)] := by cases q <;> rfl
  have hst : (longRegionG bt bound order base W T q).stride = T := rfl
  refine ⟨?_, ?_, ?_⟩
  · intro s hs
    rw [hsl] at hs
    have h2 : s = 0 ∨ s = 1 := by have : s < 2 := hs; omega
    simp only [RegionSpec.slotOff, RegionSpec.slotLen, hsl, hst]
    rcases h2 with rfl | rfl <;> simp <;> omega
  · intro s s' h1 hs'
    rw [hsl] at hs'
    have h2 : s = 0 ∧ s' = 1 := by have : s' < 2 := hs'; omega
    obtain ⟨rfl, rfl⟩ := h2
    simp [RegionSpec.slotOff, RegionSpec.slotLen, hsl]
  · intro i s v _ hs hval
    rw [hsl] at hs
    have h2 : s = 0 ∨ s = 1 := by have : s < 2 := hs; omega
    simp only [RegionSpec.slotLen, hsl]
    rcases h2 with rfl | rfl
    · simp only [longRegionG, if_true] at hval
      cases hval; simp only [List.getD_cons_zero]; exact Nat.mod_lt _ (Nat.two_pow_pos _)
    · simp only [longRegionG, show (1:Nat) ≠ 0 by decide, if_false] at hval
      cases hval
      cases q with
      | none => exact Nat.mod_lt _ (by decide)
      | some qs => exact Nat.mod_lt _ (Nat.two_pow_pos _)

/-! ### membership -/

theorem zip_range_mem {α} [Inhabited α] (l : List α) (j : Nat) (hj : j < l.length) : (l.getD j default, j) ∈ l.zip (List.range l.length) := by
  rw [List.mem_iff_getElem]
  refine ⟨j, by simpa using hj, ?_⟩
  simp [List.getD_eq_getElem?_getD, hj]

theorem zip_range_of_mem {α} [Inhabited α] (l : List α) (mi : α × Nat) (h : mi ∈ l.zip (List.range l.length)) :
    mi.2 < l.length ∧ mi.1 = l.getD mi.2 default := by
  obtain ⟨idx, hidx, hget⟩ := List.mem_iff_getElem.mp h
  simp only [List.length_zip, List.length_range, Nat.min_self] at hidx
  simp only [List.getElem_zip, List.getElem_range] at hget
  subst hget
  exact ⟨hidx, by simp [List.getD_eq_getElem?_getD, hidx]⟩

theorem uniG_mem (bt : BT) (bound order start : Nat) (q : Option QSpec) (array : Bool) (bh : Nat) :
    uniRegion bt bound (setupG bt bound order start q array bh).unigram ∈ regionsG bt bound order start q array bh := by
  unfold regionsG; simp [setupG]

theorem longG_mem (bt : BT) (bound order start : Nat) (q : Option QSpec) (array : Bool) (bh : Nat) :
    longRegionG bt bound order (setupG bt bound order start q array bh).longest.1 (setupG bt bound order start q array bh).longest.2.1
      (setupG bt bound order start q array bh).longest.2.2 q ∈ regionsG bt bound order start q array bh := by
  unfold regionsG; simp [setupG]

theorem middleRegionsG_sub (bt : BT) (bound order start : Nat) (q : Option QSpec) (array : Bool) (bh : Nat) (om2 : Nat)
    (h : om2 < (setupG bt bound order start q array bh).middles.length) (R : RegionSpec)
    (hR : R ∈ middleRegionsG bt bound q array bh om2 (midG bt bound order start q array bh om2)) :
    R ∈ regionsG bt bound order start q array bh := by
  unfold regionsG
  simp only [List.mem_append, List.mem_flatMap, List.mem_singleton]
  left; right
  exact ⟨_, zip_range_mem _ om2 h, hR⟩

theorem midG_mem (bt : BT) (bound order start : Nat) (q : Option QSpec) (array : Bool) (bh : Nat) (om2 : Nat)
    (h : om2 < (setupG bt bound order start q array bh).middles.length) :
    midRegionG bt bound (om2 + 2) (midG bt bound order start q array bh om2) q ∈ regionsG bt bound order start q array bh :=
  middleRegionsG_sub bt bound order start q array bh om2 h _ (by simp [middleRegionsG])

theorem offG_mem (bt : BT) (bound order start : Nat) (q : Option QSpec) (bh : Nat) (om2 : Nat)
    (h : om2 < (setupG bt bound order start q true bh).middles.length) :
    offRegion (midG bt bound order start q true bh om2).offBegin
      (bhikTable (midG bt bound order start q true bh om2).inline
        (((midG bt bound order start q true bh om2).offEnd - (midG bt bound order start q true bh om2).offBegin) / 8)
        (childStarts bt (level bt bound (om2 + 2)))) ∈ regionsG bt bound order start q true bh :=
  middleRegionsG_sub bt bound order start q true bh om2 h _ (by simp [middleRegionsG])

theorem quantG_sub (bt : BT) (bound order start : Nat) (q : Option QSpec) (array : Bool) (bh : Nat) (R : RegionSpec)
    (hR : R ∈ quantRegionsG order (setupG bt bound order start q array bh) q) : R ∈ regionsG bt bound order start q array bh := by
  unfold regionsG
  simp only [List.mem_append, List.mem_singleton]
  left; left; left; exact hR

theorem ptabG_mem (bt : BT) (bound order start : Nat) (qs : QSpec) (array : Bool) (bh : Nat) (t : Nat) (ht : t + 2 < order) :
    tabRegion ((setupG bt bound order start (some qs) array bh).quantTables.getD (2 * t) 0) (qs.ptab t)
      ∈ regionsG bt bound order start (some qs) array bh := by
  apply quantG_sub
  simp only [quantRegionsG, List.mem_append, List.mem_flatMap, List.mem_range, List.mem_singleton]
  left; right
  exact ⟨t, by omega, by simp⟩

theorem btabG_mem (bt : BT) (bound order start : Nat) (qs : QSpec) (array : Bool) (bh : Nat) (t : Nat) (ht : t + 2 < order) :
    tabRegion ((setupG bt bound order start (some qs) array bh).quantTables.getD (2 * t + 1) 0) (qs.btab t)
      ∈ regionsG bt bound order start (some qs) array bh := by
  apply quantG_sub
  simp only [quantRegionsG, List.mem_append, List.mem_flatMap, List.mem_range, List.mem_singleton]
  left; right
  exact ⟨t, by omega, by simp⟩

theorem ltabG_mem (bt : BT) (bound order start : Nat) (qs : QSpec) (array : Bool) (bh : Nat) :
    tabRegion ((setupG bt bound order start (some qs) array bh).quantTables.getD (2 * (order - 2)) 0) (qs.ptab (order - 2))
      ∈ regionsG bt bound order start (some qs) array bh := by
  apply quantG_sub
  simp [quantRegionsG]

theorem regionsG_ok (bt : BT) (bound order start : Nat) (q : Option QSpec) (array : Bool) (bh : Nat)
    (sh : ShapeG bt bound order start q array bh) : ∀ R ∈ regionsG bt bound order start q array bh, R.OK := by
  intro R hR
  unfold regionsG at hR
  simp only [List.mem_append, List.mem_singleton, List.mem_flatMap] at hR
  rcases hR with ((hq | hu) | ⟨mi, hmi, hR⟩) | hl
  · cases q with
    | none => simp [quantRegionsG] at hq
    | some qs =>
      simp only [quantRegionsG, List.mem_append, List.mem_singleton, List.mem_flatMap, List.mem_range, List.mem_cons,
        List.not_mem_nil, or_false] at hq
      rcases hq with (rfl | ⟨t, _, rfl | rfl⟩) | rfl
      · exact bytesRegion_ok _ _
      · exact tabRegion_ok _ _
      · exact tabRegion_ok _ _
      · exact tabRegion_ok _ _
  · rw [hu]; exact uniRegion_ok _ _ _
  · obtain ⟨hidx, hm⟩ := zip_range_of_mem _ mi hmi
    have hom : mi.2 + 2 < order := by have := sh.nmid; unfold setupG at this; omega
    obtain ⟨hw, hqb, htb, _, _, _⟩ := sh.mid mi.2 hom
    have hmid : mi.1 = midG bt bound order start q array bh mi.2 := hm
    rw [hmid] at hR
    have hmain : (midRegionG bt bound (mi.2 + 2) (midG bt bound order start q array bh mi.2) q).OK :=
      midRegionG_ok _ _ _ _ _ hqb (by rw [htb, hw])
    cases array with
    | false =>
      simp only [middleRegionsG, Bool.false_eq_true, if_false, List.nil_append, List.mem_singleton] at hR
      rw [hR]; exact hmain
    | true =>
      simp only [middleRegionsG, if_true, List.cons_append, List.nil_append, List.mem_cons, List.not_mem_nil, or_false] at hR
      rcases hR with rfl | rfl | rfl
      · exact bytesRegion_ok _ _
      · exact offRegion_ok _ _
      · exact hmain
  · rw [hl]
    exact longRegionG_ok _ _ _ _ _ _ _ (by
      have := sh.long; unfold setupG at this; rw [this.2, this.1])

/-- every written slot of the memory built by `ofTableG` reads back -/
theorem ofTableG_read (bt : BT) (bound order start : Nat) (q : Option QSpec) (array : Bool) (bh : Nat)
    (sh : ShapeG bt bound order start q array bh) (R : RegionSpec) (hR : R ∈ regionsG bt bound order start q array bh)
    (i s v : Nat) (hi : i < R.nrec) (hs : s < R.slots.length) (hval : R.val i s = some v) :
    ((ofTableG bt bound order start q array bh).mem >>> (R.base + i * R.stride + R.slotOff s)) % 2^(R.slotLen s) = v :=
  regions_read _ (regionsG_ok bt bound order start q array bh sh) sh.ord R hR i s v hi hs hval

end KV.TrieLM

namespace KV.Bhiksha
theorem offsSpec_lt (bits : Nat) (vs : List Nat) : ∀ i len, ∀ x ∈ offsSpec bits vs i len, x < i + vs.length := by
  induction vs with
  | nil => intro i len x hx; simp [offsSpec] at hx
  | cons v vs ih =>
    intro i len x hx
    simp only [offsSpec, List.mem_append, List.mem_replicate] at hx
    rcases hx with h | h
    · simp only [List.length_cons]; omega
    · have := ih _ _ x h; simp only [List.length_cons]; omega
end KV.Bhiksha

namespace KV.TrieLM
open KV.Bits KV.Score KV.Search KV.Binary

/-! ### the pointer sequence of a level -/

theorem startOf_mono (bt : BT) (lvl : List (List Nat)) (i : Nat) : ∀ d, startOf bt lvl i ≤ startOf bt lvl (i + d) := by
  intro d
  induction d with
  | zero => exact Nat.le_refl _
  | succ d ih =>
    by_cases h : i + d < lvl.length
    · have := startOf_succ bt lvl (i + d) h
      rw [show i + (d + 1) = i + d + 1 by omega, this]; omega
    · have e : startOf bt lvl (i + (d + 1)) = startOf bt lvl (i + d) := by
        unfold startOf
        rw [List.take_of_length_le (by omega), List.take_of_length_le (by omega)]
      rw [e]; exact ih

theorem childStarts_length (bt : BT) (lvl : List (List Nat)) : (childStarts bt lvl).length = lvl.length + 1 := by
  unfold childStarts; rw [childStarts_fold]; simp

theorem childStarts_ne (bt : BT) (lvl : List (List Nat)) : childStarts bt lvl ≠ [] := by
  intro h
  have := childStarts_length bt lvl
  rw [h] at this; simp at this

theorem childStarts_getElem (bt : BT) (lvl : List (List Nat)) (i : Nat) (hi : i < (childStarts bt lvl).length) :
    (childStarts bt lvl)[i] = startOf bt lvl i := by
  have hl := childStarts_length bt lvl
  have := childStarts_getD bt lvl i (by omega)
  rw [List.getD_eq_getElem?_getD, List.getElem?_eq_getElem hi, Option.getD_some] at this
  exact this

theorem childStarts_mono (bt : BT) (lvl : List (List Nat)) : (childStarts bt lvl).Pairwise (· ≤ ·) := by
  rw [List.pairwise_iff_getElem]
  intro i j hi hj hij
  rw [childStarts_getElem, childStarts_getElem]
  have := startOf_mono bt lvl i (j - i)
  rw [show i + (j - i) = j by omega] at this
  exact this

theorem childStarts_last (bt : BT) (lvl : List (List Nat)) :
    (childStarts bt lvl).getLast (childStarts_ne bt lvl) = (nextLevel bt lvl).length := by
  rw [List.getLast_eq_getElem, childStarts_getElem, length_nextLevel]
  congr 1
  rw [childStarts_length]; omega

/-- the offset table `FinishedLoading` accepts, and `ReadNext` over memory -/
theorem bhikTable_spec (bits : Nat) (vs : List Nat) (hne : vs ≠ []) (hmono : vs.Pairwise (· ≤ ·)) :
    (bhikTable bits ((vs.getLast hne >>> bits) + 1) vs).length = (vs.getLast hne >>> bits) + 1 ∧
    (∀ x ∈ bhikTable bits ((vs.getLast hne >>> bits) + 1) vs, x < vs.length) ∧
    ∀ i, i + 1 < vs.length →
      KV.Bhiksha.readNext bits (bhikTable bits ((vs.getLast hne >>> bits) + 1) vs) (vs.map (· % 2^bits)) i
        = (vs.getD i 0, vs.getD (i + 1) 0) := by
  obtain ⟨table, hfin, hrd⟩ := KV.Bhiksha.array_roundtrip bits vs hne hmono
  have hinl : (KV.Bhiksha.writeAll vs 0 (KV.Bhiksha.Arr.init bits ((vs.getLast hne >>> bits) + 1))).inl = vs.map (· % 2^bits) := by
    simp [KV.Bhiksha.writeAll_inl, KV.Bhiksha.Arr.init]
  have hcount : (KV.Bhiksha.writeAll vs 0 (KV.Bhiksha.Arr.init bits ((vs.getLast hne >>> bits) + 1))).count = (vs.getLast hne >>> bits) + 1 := by
    simp [KV.Bhiksha.writeAll_count, KV.Bhiksha.Arr.init]
  have hoffs : (KV.Bhiksha.writeAll vs 0 (KV.Bhiksha.Arr.init bits ((vs.getLast hne >>> bits) + 1))).offs = KV.Bhiksha.offsSpec bits vs 0 0 := by
    simp [KV.Bhiksha.writeAll_offs, KV.Bhiksha.Arr.init]
  unfold KV.Bhiksha.Arr.finish at hfin
  rw [hcount] at hfin
  split at hfin
  · rename_i hlen
    cases hfin
    refine ⟨by simp only [bhikTable, List.length_cons]; exact hlen, ?_, ?_⟩
    · intro x hx
      simp only [bhikTable, List.mem_cons, hoffs] at hx
      rcases hx with rfl | hx
      · cases vs with
        | nil => exact absurd rfl hne
        | cons _ _ => simp
      · have := KV.Bhiksha.offsSpec_lt bits vs 0 0 x hx; omega
    · intro i hi
      have := hrd i hi
      rw [hinl] at this
      have g1 : vs.getD i 0 = vs[i] := by simp [List.getD_eq_getElem?_getD, show i < vs.length by omega]
      have g2 : vs.getD (i + 1) 0 = vs[i + 1] := by simp [List.getD_eq_getElem?_getD, hi]
      rw [g1, g2]; exact this
  · cases hfin

theorem readNext_array (mem bits ob count bitOff index T : Nat) (vs : List Nat) (hne : vs ≠ []) (hmono : vs.Pairwise (· ≤ ·))
    (hcount : count = (vs.getLast hne >>> bits) + 1)
    (htab : ∀ j, j < count → load64 mem (ob + 8 * j) = (bhikTable bits count vs).getD j 0)
    (hi : index + 1 < vs.length)
    (h1 : readInt57 mem bitOff bits = vs.getD index 0 % 2^bits)
    (h2 : readInt57 mem (bitOff + T) bits = vs.getD (index + 1) 0 % 2^bits) :
    readNext mem (.array bits ob count) bitOff index T = (vs.getD index 0, vs.getD (index + 1) 0) := by
  subst hcount
  obtain ⟨hlen, _, hrd⟩ := bhikTable_spec bits vs hne hmono
  have htable : (List.range ((vs.getLast hne >>> bits) + 1)).map (fun j => load64 mem (ob + 8 * j))
      = bhikTable bits ((vs.getLast hne >>> bits) + 1) vs := by
    apply List.ext_getElem
    · simp [hlen]
    · intro j h1 h2
      simp only [List.length_map, List.length_range] at h1
      simp only [List.getElem_map, List.getElem_range]
      rw [htab j h1, List.getD_eq_getElem?_getD, List.getElem?_eq_getElem h2, Option.getD_some]
  have := hrd index hi
  unfold KV.Bhiksha.readNext at this
  have g1 : (vs.map (· % 2^bits)).getD index 0 = vs.getD index 0 % 2^bits := by
    simp [List.getD_eq_getElem?_getD, show index < vs.length by omega]
  have g2 : (vs.map (· % 2^bits)).getD (index + 1) 0 = vs.getD (index + 1) 0 % 2^bits := by
    simp [List.getD_eq_getElem?_getD, hi]
  rw [g1, g2] at this
  unfold readNext
  simp only [htable, h1, h2]
  exact this

/-! ### the shape of the built trie -/

theorem ofTableG_order (bt : BT) (bound order start : Nat) (q : Option QSpec) (array : Bool) (bh : Nat) :
    (ofTableG bt bound order start q array bh).order = order := by
  simp [ofTableG, ofLayout, countsOf]

theorem ofTableG_bound (bt : BT) (bound order start : Nat) (q : Option QSpec) (array : Bool) (bh : Nat) (ho : 1 ≤ order) :
    (ofTableG bt bound order start q array bh).bound = bound := by
  show Binary.cnt (countsOf bt bound order) 0 = bound
  exact cnt0 bt bound order ho

theorem ofTableG_middle_eq (bt : BT) (bound order start : Nat) (q : Option QSpec) (array : Bool) (bh : Nat) (om2 : Nat)
    (h : om2 < (setupG bt bound order start q array bh).middles.length) :
    (ofTableG bt bound order start q array bh).middle om2 =
      { base := (midG bt bound order start q array bh om2).packed, wordBits := (midG bt bound order start q array bh om2).wordBits,
        totalBits := (midG bt bound order start q array bh om2).totalBits, quantBits := (midG bt bound order start q array bh om2).quantBits,
        maxVocab := Binary.cnt (countsOf bt bound order) 0,
        bhik := if array then .array (midG bt bound order start q array bh om2).inline (midG bt bound order start q array bh om2).offBegin
            (((midG bt bound order start q array bh om2).offEnd - (midG bt bound order start q array bh om2).offBegin) / 8)
          else .dont (midG bt bound order start q array bh om2).inline } := by
  show ((setupG bt bound order start q array bh).middles.map _).getD om2 default = _
  simp [List.getD_eq_getElem?_getD, h, midG]

theorem pvG_uni (bt : BT) (q : Option QSpec) (w : Nat) : pvG bt q [w] = (valuesOf bt [w]).1 := by cases q <;> simp [pvG]
theorem bvG_uni (bt : BT) (q : Option QSpec) (w : Nat) : bvG bt q [w] = (valuesOf bt [w]).2 := by cases q <;> simp [bvG]

/-- the unigram record of word `w` as read from the built memory -/
theorem ofTableG_unigramRec (bt : BT) (bound order start : Nat) (q : Option QSpec) (array : Bool) (bh : Nat)
    (ok : BTOK bt bound order) (hv : ValsOK bt) (sh : ShapeG bt bound order start q array bh) (w : Nat) (hw : w < bound) :
    unigramRec (ofTableG bt bound order start q array bh) w =
      { probBits := pvG bt q [w], backoffBits := bvG bt q [w],
        range := (startOf bt (level bt bound 1) w, startOf bt (level bt bound 1) (w + 1)) } := by
  rw [pvG_uni, bvG_uni]
  have hR := uniG_mem bt bound order start q array bh
  have rd := ofTableG_read bt bound order start q array bh sh _ hR
  have hU : (ofTableG bt bound order start q array bh).unigram = (setupG bt bound order start q array bh).unigram := rfl
  generalize (setupG bt bound order start q array bh).unigram = U at rd hU
  have hnrec : (uniRegion bt bound U).nrec = bound + 1 := rfl
  have hsl : ∀ s, s < 3 → s < (uniRegion bt bound U).slots.length := fun s h => h
  have hsmall : ∀ j, j ≤ bound → startOf bt (level bt bound 1) j % 2^64 = startOf bt (level bt bound 1) j := by
    intro j _
    apply Nat.mod_eq_of_lt
    have := startOf_le bt (level bt bound 1) j
    rw [← level_succ bt bound 1 (by omega)] at this
    exact Nat.lt_of_le_of_lt this (sh.small.2 2 ok.order2)
  have r0 := rd w 0 ((valuesOf bt [w]).1 % 2^32) (by rw [hnrec]; omega) (hsl 0 (by omega)) (by simp [uniRegion, hw])
  have r1 := rd w 1 ((valuesOf bt [w]).2 % 2^32) (by rw [hnrec]; omega) (hsl 1 (by omega)) (by simp [uniRegion, hw])
  have r2 := rd w 2 ((childStarts bt (level bt bound 1)).getD w 0 % 2^64) (by rw [hnrec]; omega) (hsl 2 (by omega)) (by simp [uniRegion])
  have r3 := rd (w + 1) 2 ((childStarts bt (level bt bound 1)).getD (w + 1) 0 % 2^64) (by rw [hnrec]; omega) (hsl 2 (by omega)) (by simp [uniRegion])
  have hlvl := level1_length bt bound
  rw [childStarts_getD _ _ w (by omega), hsmall w (by omega)] at r2
  rw [childStarts_getD _ _ (w + 1) (by omega), hsmall (w + 1) (by omega)] at r3
  rw [Nat.mod_eq_of_lt (valuesOf_lt bt hv [w]).1] at r0
  rw [Nat.mod_eq_of_lt (valuesOf_lt bt hv [w]).2] at r1
  simp only [uniRegion, RegionSpec.slotOff, RegionSpec.slotLen, List.getD_cons_zero, List.getD_cons_succ,
    Gen.C04.sizeofTrieUnigramValue] at r0 r1 r2 r3
  unfold unigramRec
  simp only [hU, Gen.C04.sizeofTrieUnigramValue, load32, load64]
  have e0 : 8 * (U + 16 * w) = 8 * U + w * (8 * 16) + 0 := by omega
  have e1 : 8 * (U + 16 * w + 4) = 8 * U + w * (8 * 16) + 32 := by omega
  have e2 : 8 * (U + 16 * w + 8) = 8 * U + w * (8 * 16) + 64 := by omega
  have e3 : 8 * (U + 16 * w + 16 + 8) = 8 * U + (w + 1) * (8 * 16) + 64 := by omega
  rw [e0, e1, e2, e3, r0, r1, r2, r3]

theorem level_getD_length (bt : BT) (bound order : Nat) (ok : BTOK bt bound order) (k i : Nat) (hk : 1 ≤ k)
    (hi : i < (level bt bound k).length) : ((level bt bound k).getD i []).length = k := by
  have hm : (level bt bound k)[i] ∈ level bt bound k := List.getElem_mem hi
  rw [List.getD_eq_getElem?_getD, List.getElem?_eq_getElem hi, Option.getD_some]
  exact ((mem_level bt bound order ok k hk _).mp hm).2

theorem ofTableG_quant (bt : BT) (bound order start : Nat) (qs : QSpec) (array : Bool) (bh : Nat) :
    (ofTableG bt bound order start (some qs) array bh).quant =
      some { probBits := qs.probBits, backoffBits := qs.backoffBits,
             tables := (setupG bt bound order start (some qs) array bh).quantTables } := rfl

theorem ofTableG_quant_none (bt : BT) (bound order start : Nat) (array : Bool) (bh : Nat) :
    (ofTableG bt bound order start none array bh).quant = none := rfl

/-- reading a centre out of a float table -/
theorem tab_read (bt : BT) (bound order start : Nat) (q : Option QSpec) (array : Bool) (bh : Nat)
    (sh : ShapeG bt bound order start q array bh) (off : Nat) (tab : List Nat)
    (hR : tabRegion off tab ∈ regionsG bt bound order start q array bh) (hval : ∀ x ∈ tab, x < 2^32) (c : Nat) (hc : c < tab.length) :
    load32 (ofTableG bt bound order start q array bh).mem (off + 4 * c) = tab.getD c 0 := by
  have rd := ofTableG_read bt bound order start q array bh sh _ hR c 0 (tab.getD c 0 % 2^32) hc (by simp [tabRegion]) (by simp [tabRegion])
  simp only [tabRegion, RegionSpec.slotOff, RegionSpec.slotLen, List.getD_cons_zero] at rd
  unfold load32
  have e : 8 * (off + 4 * c) = 8 * off + c * 32 + 0 := by omega
  rw [e, rd]
  apply Nat.mod_eq_of_lt
  apply hval
  rw [List.getD_eq_getElem?_getD, List.getElem?_eq_getElem hc, Option.getD_some]
  exact List.getElem_mem hc

/-- record `i` of the longest order as read from the built memory -/
theorem ofTableG_longest (bt : BT) (bound order start : Nat) (q : Option QSpec) (array : Bool) (bh : Nat)
    (ok : BTOK bt bound order) (sh : ShapeG bt bound order start q array bh) (qk : QOK' order q)
    (i : Nat) (hi : i < (level bt bound order).length) :
    longKey (ofTableG bt bound order start q array bh) i = ((level bt bound order).getD i []).getLast?.getD 0 ∧
    longestProbBits (ofTableG bt bound order start q array bh) i = pvG bt q ((level bt bound order).getD i []) := by
  have ho := ok.order2
  have hR := longG_mem bt bound order start q array bh
  have rd := ofTableG_read bt bound order start q array bh sh _ hR
  obtain ⟨hlw, hlt⟩ := sh.long
  have hlong : (ofTableG bt bound order start q array bh).longest =
      { base := (setupG bt bound order start q array bh).longest.1, wordBits := (setupG bt bound order start q array bh).longest.2.1,
        totalBits := (setupG bt bound order start q array bh).longest.2.2, maxVocab := Binary.cnt (countsOf bt bound order) 0 } := rfl
  rw [hlw, hlt] at hR rd hlong
  generalize (setupG bt bound order start q array bh).longest.1 = base at hR rd hlong
  have hWle := sh.wbits
  have hglen := level_getD_length bt bound order ok order i (by omega) hi
  have hwlt := level_word_lt bt bound order ok order i (by omega) hi
  generalize hW : requiredBits bound = W at *
  have hsl : (longRegionG bt bound order base W (W + LB q) q).slots = [(0, W), (W, LB q)] := by cases q <;> rfl
  have hnr : (longRegionG bt bound order base W (W + LB q) q).nrec = (level bt bound order).length := rfl
  have hst : (longRegionG bt bound order base W (W + LB q) q).stride = W + LB q := rfl
  have hbs : (longRegionG bt bound order base W (W + LB q) q).base = 8 * base := rfl
  have r0 := rd i 0 _ (by rw [hnr]; exact hi) (by rw [hsl]; simp) rfl
  have r1 := rd i 1 _ (by rw [hnr]; exact hi) (by rw [hsl]; simp) rfl
  simp only [RegionSpec.slotOff, RegionSpec.slotLen, hsl, hst, hbs, List.getD_cons_zero, List.getD_cons_succ] at r0 r1
  have hwfit : ((level bt bound order).getD i []).getLast?.getD 0 % 2^W = ((level bt bound order).getD i []).getLast?.getD 0 := by
    apply Nat.mod_eq_of_lt
    rw [← hW]
    exact KV.C20.required_bits_fits bound _ sh.small.1 (Nat.le_of_lt hwlt)
  constructor
  · unfold longKey wordAt recAddr
    rw [hlong, KV.C20.read_eq_57 _ _ _ hWle]
    have e : 8 * base + i * (W + LB q) = 8 * base + i * (W + LB q) + 0 := by omega
    rw [e, r0, hwfit]
  · unfold longestProbBits longestValue recAddr
    simp only [hlong]
    cases q with
    | none =>
      rw [ofTableG_quant_none]
      simp only [LB] at r1 ⊢
      rw [readFloat31_eq, r1]
      simp only [pvG, hglen]
      rw [if_neg (by omega)]
    | some qs =>
      have qok := qk qs rfl
      rw [ofTableG_quant]
      simp only [LB] at r1 ⊢
      rw [KV.C20.read25_eq _ _ _ qok.pb, r1, Nat.mod_eq_of_lt (qok.pcode _), ofTableG_order]
      rw [tab_read bt bound order start (some qs) array bh sh _ _ (ltabG_mem bt bound order start qs array bh) (qok.pval _) _
        (by rw [qok.plen]; exact qok.pcode _)]
      simp only [pvG, hglen]
      rw [if_neg (by omega)]

theorem midRegionG_slots (bt : BT) (bound k : Nat) (m : MiddleRegion) (q : Option QSpec) :
    (midRegionG bt bound k m q).slots =
      [(0, m.wordBits), (m.wordBits, VA q), (m.wordBits + VA q, VB q), (m.wordBits + m.quantBits, m.inline)] := by
  cases q <;> rfl

/-- an entry of the offset table of middle `om2` as read from the built memory -/
theorem offG_read (bt : BT) (bound order start : Nat) (q : Option QSpec) (bh : Nat) (ok : BTOK bt bound order)
    (sh : ShapeG bt bound order start q true bh) (om2 : Nat) (hom : om2 + 2 < order)
    (m : MiddleRegion) (hm : midG bt bound order start q true bh om2 = m) (j : Nat) (hj : j < (m.offEnd - m.offBegin) / 8) :
    load64 (ofTableG bt bound order start q true bh).mem (m.offBegin + 8 * j)
      = (bhikTable m.inline ((m.offEnd - m.offBegin) / 8) (childStarts bt (level bt bound (om2 + 2)))).getD j 0 := by
  have hlen : om2 < (setupG bt bound order start q true bh).middles.length := by rw [sh.nmid]; omega
  have hR := offG_mem bt bound order start q bh om2 hlen
  obtain ⟨_, _, _, _, _, harr⟩ := sh.mid om2 hom
  have harr' := harr rfl
  rw [hm] at hR harr'
  have hN : (level bt bound (om2 + 3)).length = (nextLevel bt (level bt bound (om2 + 2))).length := by
    rw [level_succ bt bound (om2 + 2) (by omega)]
  have hcount : (m.offEnd - m.offBegin) / 8
      = ((childStarts bt (level bt bound (om2 + 2))).getLast (childStarts_ne bt _) >>> m.inline) + 1 := by
    rw [harr', childStarts_last, hN]
  obtain ⟨htl, hbound, _⟩ := bhikTable_spec m.inline (childStarts bt (level bt bound (om2 + 2))) (childStarts_ne bt _) (childStarts_mono bt _)
  rw [← hcount] at htl hbound
  generalize htab : bhikTable m.inline ((m.offEnd - m.offBegin) / 8) (childStarts bt (level bt bound (om2 + 2))) = table at *
  have rd := ofTableG_read bt bound order start q true bh sh _ hR j 0 (table.getD j 0 % 2^64)
    (by show j < table.length; rw [htl]; exact hj) (by simp [offRegion]) (by simp [offRegion])
  simp only [offRegion, RegionSpec.slotOff, RegionSpec.slotLen, List.getD_cons_zero] at rd
  unfold load64
  have e : 8 * (m.offBegin + 8 * j) = 8 * m.offBegin + j * 64 + 0 := by omega
  rw [e, rd]
  apply Nat.mod_eq_of_lt
  have hjl : j < table.length := by rw [htl]; exact hj
  have hx := hbound (table.getD j 0) (by
    rw [List.getD_eq_getElem?_getD, List.getElem?_eq_getElem hjl, Option.getD_some]; exact List.getElem_mem hjl)
  rw [childStarts_length] at hx
  have := sh.small.2 (om2 + 2) (by omega)
  omega

/-- `ReadNext` of record `i` of middle `om2`: own pointer and the next record's pointer, for both pointer encodings -/
theorem ofTableG_next (bt : BT) (bound order start : Nat) (q : Option QSpec) (array : Bool) (bh : Nat) (ok : BTOK bt bound order)
    (sh : ShapeG bt bound order start q array bh) (om2 i : Nat) (hom : om2 + 2 < order) (hi : i < (level bt bound (om2 + 2)).length)
    (m : MiddleRegion) (hm : midG bt bound order start q array bh om2 = m) :
    readNext (ofTableG bt bound order start q array bh).mem
      (if array then .array m.inline m.offBegin ((m.offEnd - m.offBegin) / 8) else .dont m.inline)
      (8 * m.packed + i * m.totalBits + m.wordBits + m.quantBits) i m.totalBits
      = (startOf bt (level bt bound (om2 + 2)) i, startOf bt (level bt bound (om2 + 2)) (i + 1)) := by
  have hlen : om2 < (setupG bt bound order start q array bh).middles.length := by rw [sh.nmid]; omega
  have hR := midG_mem bt bound order start q array bh om2 hlen
  obtain ⟨_, _, _, hI57, hdont, harr⟩ := sh.mid om2 hom
  rw [hm] at hR hI57 hdont harr
  have rd := ofTableG_read bt bound order start q array bh sh _ hR
  have hsl := midRegionG_slots bt bound (om2 + 2) m q
  have hnr : (midRegionG bt bound (om2 + 2) m q).nrec = (level bt bound (om2 + 2)).length + 1 := rfl
  have hst : (midRegionG bt bound (om2 + 2) m q).stride = m.totalBits := rfl
  have hbs : (midRegionG bt bound (om2 + 2) m q).base = 8 * m.packed := rfl
  have r3 := rd i 3 ((childStarts bt (level bt bound (om2 + 2))).getD i 0 % 2^m.inline) (by rw [hnr]; omega) (by rw [hsl]; simp)
    (by simp only [midRegionG]; simp)
  have r4 := rd (i + 1) 3 ((childStarts bt (level bt bound (om2 + 2))).getD (i + 1) 0 % 2^m.inline) (by rw [hnr]; omega) (by rw [hsl]; simp)
    (by simp only [midRegionG]; simp)
  simp only [RegionSpec.slotOff, RegionSpec.slotLen, hsl, hst, hbs, List.getD_cons_zero, List.getD_cons_succ] at r3 r4
  have e3 : 8 * m.packed + i * m.totalBits + m.wordBits + m.quantBits = 8 * m.packed + i * m.totalBits + (m.wordBits + m.quantBits) := by omega
  have e4 : 8 * m.packed + i * m.totalBits + (m.wordBits + m.quantBits) + m.totalBits
      = 8 * m.packed + (i + 1) * m.totalBits + (m.wordBits + m.quantBits) := next_rec_addr _ _ _ _
  have g3 := childStarts_getD bt (level bt bound (om2 + 2)) i (by omega)
  have g4 := childStarts_getD bt (level bt bound (om2 + 2)) (i + 1) (by omega)
  have hN : (level bt bound (om2 + 3)).length = (nextLevel bt (level bt bound (om2 + 2))).length := by
    rw [level_succ bt bound (om2 + 2) (by omega)]
  cases array with
  | false =>
    simp only [Bool.false_eq_true, if_false, readNext]
    rw [e3, e4, KV.C20.read_eq_57 _ _ _ hI57, KV.C20.read_eq_57 _ _ _ hI57, r3, r4, g3, g4]
    have hlt := hdont rfl
    have h1 := startOf_le bt (level bt bound (om2 + 2)) i
    have h2 := startOf_le bt (level bt bound (om2 + 2)) (i + 1)
    rw [Nat.mod_eq_of_lt (by omega), Nat.mod_eq_of_lt (by omega)]
  | true =>
    simp only [if_true]
    have hcount : (m.offEnd - m.offBegin) / 8
        = ((childStarts bt (level bt bound (om2 + 2))).getLast (childStarts_ne bt _) >>> m.inline) + 1 := by
      rw [harr rfl, childStarts_last, hN]
    rw [readNext_array _ _ _ _ _ _ _ (childStarts bt (level bt bound (om2 + 2))) (childStarts_ne bt _) (childStarts_mono bt _) hcount
      (fun j hj => offG_read bt bound order start q bh ok sh om2 hom m hm j hj)
      (by rw [childStarts_length]; omega)
      (by rw [e3, KV.C20.read_eq_57 _ _ _ hI57, r3])
      (by rw [e3, e4, KV.C20.read_eq_57 _ _ _ hI57, r4])]
    rw [g3, g4]

def valA (bt : BT) (q : Option QSpec) (g : List Nat) : Nat :=
  match q with | none => (valuesOf bt g).1 % 2^31 | some qs => qs.bcode g % 2^qs.backoffBits
def valB (bt : BT) (q : Option QSpec) (g : List Nat) : Nat :=
  match q with | none => (valuesOf bt g).2 % 2^32 | some qs => qs.pcode g % 2^qs.probBits

theorem midRegionG_val (bt : BT) (bound k : Nat) (m : MiddleRegion) (q : Option QSpec) (i : Nat) (hi : i < (level bt bound k).length) :
    (midRegionG bt bound k m q).val i 0 = some (((level bt bound k).getD i []).getLast?.getD 0 % 2^m.wordBits) ∧
    (midRegionG bt bound k m q).val i 1 = some (valA bt q ((level bt bound k).getD i [])) ∧
    (midRegionG bt bound k m q).val i 2 = some (valB bt q ((level bt bound k).getD i [])) := by
  cases q <;> simp [midRegionG, hi, valA, valB]

/-- record `i` of middle order `om2` as read from the built memory: word, the bits the value pointers return, child range -/
theorem ofTableG_middle (bt : BT) (bound order start : Nat) (q : Option QSpec) (array : Bool) (bh : Nat)
    (ok : BTOK bt bound order) (hv : ValsOK bt) (sh : ShapeG bt bound order start q array bh) (qk : QOK' order q)
    (om2 i : Nat) (hom : om2 + 2 < order) (hi : i < (level bt bound (om2 + 2)).length) :
    midKey (ofTableG bt bound order start q array bh) om2 i = ((level bt bound (om2 + 2)).getD i []).getLast?.getD 0 ∧
    middleRec (ofTableG bt bound order start q array bh) om2 i =
      { probBits := pvG bt q ((level bt bound (om2 + 2)).getD i []), backoffBits := bvG bt q ((level bt bound (om2 + 2)).getD i []),
        range := (startOf bt (level bt bound (om2 + 2)) i, startOf bt (level bt bound (om2 + 2)) (i + 1)) } := by
  have hlen : om2 < (setupG bt bound order start q array bh).middles.length := by rw [sh.nmid]; omega
  have hnext := ofTableG_next bt bound order start q array bh ok sh om2 i hom hi _ rfl
  have hmid := ofTableG_middle_eq bt bound order start q array bh om2 hlen
  have hR := midG_mem bt bound order start q array bh om2 hlen
  have rd := ofTableG_read bt bound order start q array bh sh _ hR
  obtain ⟨hw, hqb, htb, _, _, _⟩ := sh.mid om2 hom
  generalize midG bt bound order start q array bh om2 = m at hnext hmid hR rd hw hqb htb
  have hsl := midRegionG_slots bt bound (om2 + 2) m q
  have hnr : (midRegionG bt bound (om2 + 2) m q).nrec = (level bt bound (om2 + 2)).length + 1 := rfl
  have hst : (midRegionG bt bound (om2 + 2) m q).stride = m.totalBits := rfl
  have hbs : (midRegionG bt bound (om2 + 2) m q).base = 8 * m.packed := rfl
  have hglen := level_getD_length bt bound order ok (om2 + 2) i (by omega) hi
  have hwlt := level_word_lt bt bound order ok (om2 + 2) i (by omega) hi
  obtain ⟨v0, v1, v2⟩ := midRegionG_val bt bound (om2 + 2) m q i hi
  have r0 := rd i 0 _ (by rw [hnr]; omega) (by rw [hsl]; simp) v0
  have r1 := rd i 1 _ (by rw [hnr]; omega) (by rw [hsl]; simp) v1
  have r2 := rd i 2 _ (by rw [hnr]; omega) (by rw [hsl]; simp) v2
  simp only [RegionSpec.slotOff, RegionSpec.slotLen, hsl, hst, hbs, List.getD_cons_zero, List.getD_cons_succ] at r0 r1 r2
  generalize hg : (level bt bound (om2 + 2)).getD i [] = g at *
  have hWle : m.wordBits ≤ 57 := by rw [hw]; exact sh.wbits
  have hwfit : g.getLast?.getD 0 % 2^m.wordBits = g.getLast?.getD 0 := by
    apply Nat.mod_eq_of_lt
    rw [hw]
    exact KV.C20.required_bits_fits bound _ sh.small.1 (Nat.le_of_lt hwlt)
  constructor
  · unfold midKey wordAt recAddr
    rw [hmid, KV.C20.read_eq_57 _ _ _ hWle]
    have e : 8 * m.packed + i * m.totalBits = 8 * m.packed + i * m.totalBits + 0 := by omega
    rw [e, r0, hwfit]
  · unfold middleRec
    simp only [hmid, recAddr]
    rw [hnext]
    cases q with
    | none =>
      rw [ofTableG_quant_none]
      simp only [middleValues, VA, VB, valA, valB] at r1 r2 ⊢
      rw [readFloat31_eq, readFloat32_eq]
      have e1 : 8 * m.packed + i * m.totalBits + m.wordBits + 31 = 8 * m.packed + i * m.totalBits + (m.wordBits + 31) := by omega
      rw [e1, r1, r2, Nat.mod_eq_of_lt (valuesOf_lt bt hv g).2]
      simp only [pvG, bvG, hglen]
      rw [if_neg (by omega)]
    | some qs =>
      have qok := qk qs rfl
      rw [ofTableG_quant]
      simp only [middleValues, VA, VB, valA, valB] at r1 r2 ⊢
      rw [KV.C20.read25_eq _ _ _ qok.bb, KV.C20.read25_eq _ _ _ qok.pb]
      have e1 : 8 * m.packed + i * m.totalBits + m.wordBits + qs.backoffBits
          = 8 * m.packed + i * m.totalBits + (m.wordBits + qs.backoffBits) := by omega
      rw [e1, r1, r2, Nat.mod_eq_of_lt (qok.bcode _), Nat.mod_eq_of_lt (qok.pcode _)]
      rw [tab_read bt bound order start (some qs) array bh sh _ _ (ptabG_mem bt bound order start qs array bh om2 hom) (qok.pval _) _
        (by rw [qok.plen]; exact qok.pcode _)]
      rw [tab_read bt bound order start (some qs) array bh sh _ _ (btabG_mem bt bound order start qs array bh om2 hom) (qok.bval _) _
        (by rw [qok.blen]; exact qok.bcode _)]
      simp only [pvG, bvG, hglen]
      rw [if_neg (by omega), if_neg (by omega)]
      simp

/-- **ofTableG_reads** — for all four trie classes the built memory reads back level by level -/
theorem ofTableG_reads (bt : BT) (bound order start : Nat) (q : Option QSpec) (array : Bool) (bh : Nat)
    (ok : BTOK bt bound order) (hv : ValsOK bt) (sh : ShapeG bt bound order start q array bh) (qk : QOK' order q) :
    Reads (ofTableG bt bound order start q array bh) bt bound order (pvG bt q) (bvG bt q) := by
  have ho := ok.order2
  refine ⟨ofTableG_order _ _ _ _ _ _ _, ofTableG_bound _ _ _ _ _ _ _ (by omega), ?_, ?_, ?_, ?_, ?_⟩
  · intro om2 hom
    rw [ofTableG_middle_eq bt bound order start q array bh om2 (by rw [sh.nmid]; omega)]
    exact cnt0 bt bound order (by omega)
  · exact cnt0 bt bound order (by omega)
  · intro w hw; exact ofTableG_unigramRec bt bound order start q array bh ok hv sh w hw
  · intro om2 i hom hi; exact ofTableG_middle bt bound order start q array bh ok hv sh qk om2 i hom hi
  · intro i hi; exact ofTableG_longest bt bound order start q array bh ok sh qk i hi

/-- **ofTableG_represents** — the memory written for a bit table in any of the four layouts (`TrieModel`, `ArrayTrieModel`,
`QuantTrieModel`, `QuantArrayTrieModel`) represents the table of the values its pointers return: the stored float bits for the
unquantised layouts, the bin centre a record's code points to for the quantised ones. -/
theorem ofTableG_represents (fval : Nat → Rat) (bt : BT) (bound order start : Nat) (q : Option QSpec) (array : Bool) (bh : Nat)
    (ok : BTOK bt bound order) (hv : ValsOK bt) (sh : ShapeG bt bound order start q array bh) (qk : QOK' order q) :
    Represents fval (ofTableG bt bound order start q array bh) (tableOf (ftV fval bt order (pvG bt q) (bvG bt q)) order)
      (rngOf bt bound) :=
  reads_represents fval _ bt bound order _ _ ok (ofTableG_reads bt bound order start q array bh ok hv sh qk)

end KV.TrieLM
