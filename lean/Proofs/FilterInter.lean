import Model.Filter
/-!
Sorted-list intersection (`util/multi_intersection.hh`) and posting lists: what
`FirstIntersectionSorted` / `AllIntersection` report is in every range (for *every* order of
the ranges and without any sortedness assumption), and posting lists list exactly the
sentences that contain the word.
-/
namespace KV.Filter

theorem lowerBound_suffix (h : Nat) (l : List Nat) : lowerBound h l <:+ l :=
  List.dropWhile_suffix _

theorem lowerBound_head {h : Nat} : ∀ {l s : List Nat} {x : Nat}, lowerBound h l = x :: s → ¬ x < h
  | [], _, _, e => by simp [lowerBound] at e
  | y :: l, s, x, e => by
    unfold lowerBound at e
    simp only [List.dropWhile_cons] at e
    split at e
    · exact lowerBound_head (l := l) e
    · rename_i hy
      injection e with e1 _; subst e1; simpa using hy

/-- ranges related position by position by "is a suffix of" -/
def Suf : List (List Nat) → List (List Nat) → Prop
  | [], [] => True
  | a :: r, b :: s => a <:+ b ∧ Suf r s
  | _, _ => False

theorem Suf.refl : ∀ l : List (List Nat), Suf l l
  | [] => trivial
  | _ :: r => ⟨List.suffix_refl _, Suf.refl r⟩

theorem Suf.trans : ∀ {a b c : List (List Nat)}, Suf a b → Suf b c → Suf a c
  | [], [], [], _, _ => trivial
  | _ :: _, _ :: _, _ :: _, ⟨h1, h2⟩, ⟨g1, g2⟩ => ⟨h1.trans g1, Suf.trans h2 g2⟩
  | [], [], _ :: _, _, h => h.elim
  | [], _ :: _, _, h, _ => h.elim
  | _ :: _, [], _, h, _ => h.elim
  | _ :: _, _ :: _, [], _, h => h.elim

/-- an element of every advanced range is an element of every original range -/
theorem Suf.mem_all : ∀ {r sets : List (List Nat)} {m : Nat}, Suf r sets → (∀ s ∈ r, m ∈ s) → ∀ s ∈ sets, m ∈ s
  | [], [], _, _, _ => by intro s hs; cases hs
  | a :: r, b :: sets, m, ⟨h1, h2⟩, hm => by
    intro s hs
    rcases List.mem_cons.mp hs with rfl | hs
    · exact h1.subset (hm a List.mem_cons_self)
    · exact Suf.mem_all h2 (fun t ht => hm t (List.mem_cons_of_mem _ ht)) s hs
  | [], _ :: _, _, h, _ => h.elim
  | _ :: _, [], _, h, _ => h.elim

theorem pass_same {h : Nat} : ∀ {sets r : List (List Nat)}, pass h sets = .same r →
    Suf r sets ∧ ∀ s ∈ r, ∃ t, s = h :: t
  | [], r, e => by
    simp only [pass] at e
    injection e with e; subst e
    exact ⟨trivial, by intro s hs; cases hs⟩
  | s :: rest, r, e => by
    simp only [pass] at e
    split at e
    · cases e
    · rename_i x s' hlb
      split at e
      · cases e
      · rename_i hx
        split at e
        · cases e
        · rename_i r' hp
          injection e with e; subst e
          obtain ⟨h1, h2⟩ := pass_same hp
          have hge := lowerBound_head hlb
          have hxe : x = h := by omega
          refine ⟨⟨by rw [← hlb]; exact lowerBound_suffix h s, h1⟩, ?_⟩
          intro t ht
          rcases List.mem_cons.mp ht with rfl | ht
          · exact ⟨s', by rw [hxe]⟩
          · exact h2 t ht
        · cases e

theorem pass_higher {h : Nat} : ∀ {sets r : List (List Nat)} {h' : Nat}, pass h sets = .higher h' r → Suf r sets
  | [], r, h', e => by simp [pass] at e
  | s :: rest, r, h', e => by
    simp only [pass] at e
    split at e
    · cases e
    · rename_i x s' hlb
      split at e
      · injection e with _ e; subst e
        exact ⟨by rw [← hlb]; exact lowerBound_suffix h s, Suf.refl rest⟩
      · split at e
        · cases e
        · cases e
        · rename_i h'' r' hp
          injection e with _ e; subst e
          exact ⟨by rw [← hlb]; exact lowerBound_suffix h s, pass_higher hp⟩

/-- what the restart loop returns is the head of every advanced range, and the advanced
ranges are suffixes of the given ones -/
theorem firstInterFuel_sound : ∀ (fuel h : Nat) (sets : List (List Nat)) {m : Nat} {r : List (List Nat)},
    firstInterFuel fuel h sets = some (some (m, r)) → Suf r sets ∧ ∀ s ∈ r, ∃ t, s = m :: t
  | 0, _, _, _, _, e => by simp [firstInterFuel] at e
  | fuel+1, h, sets, m, r, e => by
    simp only [firstInterFuel] at e
    split at e
    · cases e
    · rename_i r' hp
      injection e with e; injection e with e; injection e with e1 e2; subst e1; subst e2
      exact pass_same hp
    · rename_i h' r' hp
      obtain ⟨g1, g2⟩ := firstInterFuel_sound fuel h' r' e
      exact ⟨g1.trans (pass_higher hp), g2⟩

theorem firstInterSets_sound {sets r : List (List Nat)} {m : Nat} (e : firstInterSets sets = some (m, r)) :
    Suf r sets ∧ ∀ s ∈ r, ∃ t, s = m :: t := by
  unfold firstInterSets at e
  split at e
  · cases e
  · cases e
  · rename_i x s rest
    split at e
    · rename_i res hf
      subst e
      exact firstInterFuel_sound _ _ _ hf
    · cases e

/-- **`FirstIntersection` is sound for every order of the ranges**: the reported value lies in
every range -/
theorem firstInter_mem {sets : List (List Nat)} {m : Nat} (e : firstInter sets = some m) : ∀ s ∈ sets, m ∈ s := by
  unfold firstInter at e
  cases hf : firstInterSets sets with
  | none => rw [hf] at e; cases e
  | some p =>
    obtain ⟨m', r⟩ := p
    rw [hf] at e; simp at e; subst e
    obtain ⟨h1, h2⟩ := firstInterSets_sound hf
    apply h1.mem_all
    intro s hs
    obtain ⟨t, rfl⟩ := h2 s hs
    exact List.mem_cons_self

/-- **`AllIntersection` is sound**: every reported value lies in every range -/
theorem allInterFuel_mem : ∀ (fuel : Nat) (sets : List (List Nat)) (m : Nat), m ∈ allInterFuel fuel sets →
    ∀ s ∈ sets, m ∈ s
  | 0, _, _, hm => by simp [allInterFuel] at hm
  | fuel+1, sets, m, hm => by
    simp only [allInterFuel] at hm
    split at hm
    · cases hm
    · rename_i m' r hf
      obtain ⟨h1, h2⟩ := firstInterSets_sound hf
      have hm' : ∀ s ∈ sets, m' ∈ s := by
        apply h1.mem_all
        intro s hs
        obtain ⟨t, rfl⟩ := h2 s hs
        exact List.mem_cons_self
      split at hm
      · rename_i y s rest
        rcases List.mem_cons.mp hm with rfl | hm
        · exact hm'
        · have ih := allInterFuel_mem fuel (s :: rest) m hm
          have hsuf : Suf (s :: rest) ((y :: s) :: rest) := ⟨List.suffix_cons y s, Suf.refl rest⟩
          exact (hsuf.trans h1).mem_all ih
      · simp only [List.mem_cons, List.not_mem_nil, or_false] at hm
        subst hm; exact hm'

theorem mem_insertBySize (s t : List Nat) : ∀ l : List (List Nat), t ∈ insertBySize s l ↔ t = s ∨ t ∈ l
  | [] => by simp [insertBySize]
  | u :: l => by
    simp only [insertBySize]
    split
    · simp
    · simp only [List.mem_cons, mem_insertBySize s t l]
      constructor
      · rintro (h | h | h) <;> simp [h]
      · rintro (h | h | h) <;> simp [h]

theorem mem_sortBySize (t : List Nat) : ∀ l : List (List Nat), t ∈ sortBySize l ↔ t ∈ l
  | [] => by simp [sortBySize]
  | s :: l => by
    have ih := mem_sortBySize t l
    simp only [sortBySize, List.foldr_cons] at ih ⊢
    rw [mem_insertBySize, ih]; simp

/-! ### posting lists -/

theorem mem_postingFrom (w : Bytes) : ∀ (sents : List (List Bytes)) (i c : Nat),
    c ∈ postingFrom w i sents ↔ ∃ j sent, c = i + j ∧ sents[j]? = some sent ∧ sent.contains w = true
  | [], i, c => by simp [postingFrom]
  | s :: ss, i, c => by
    have ih := mem_postingFrom w ss (i+1) c
    simp only [postingFrom]
    constructor
    · intro h
      by_cases hs : s.contains w = true
      · rw [if_pos hs] at h
        rcases List.mem_cons.mp h with rfl | h
        · exact ⟨0, s, rfl, rfl, hs⟩
        · obtain ⟨j, sent, h1, h2, h3⟩ := ih.mp h
          exact ⟨j+1, sent, by omega, by simpa using h2, h3⟩
      · rw [if_neg hs] at h
        obtain ⟨j, sent, h1, h2, h3⟩ := ih.mp h
        exact ⟨j+1, sent, by omega, by simpa using h2, h3⟩
    · rintro ⟨j, sent, h1, h2, h3⟩
      cases j with
      | zero =>
        simp only [List.getElem?_cons_zero, Option.some.injEq] at h2
        subst h2
        rw [if_pos h3, h1]; simp
      | succ j =>
        have : c ∈ postingFrom w (i+1) ss := ih.mpr ⟨j, sent, by omega, by simpa using h2, h3⟩
        split
        · exact List.mem_cons_of_mem _ this
        · exact this

/-- a posting list lists exactly the sentences that contain the word -/
theorem mem_posting {sents : List (List Bytes)} {w : Bytes} {p : List Nat} (hp : posting sents w = some p) (c : Nat) :
    c ∈ p ↔ ∃ sent, sents[c]? = some sent ∧ w ∈ sent := by
  unfold posting at hp
  have key := mem_postingFrom w sents 0 c
  split at hp
  · cases hp
  · rename_i l hne
    injection hp with hp; subst hp
    rw [key]
    constructor
    · rintro ⟨j, sent, h1, h2, h3⟩
      have : c = j := by omega
      subst this
      exact ⟨sent, h2, by simpa using h3⟩
    · rintro ⟨sent, h2, h3⟩
      exact ⟨c, sent, by omega, h2, by simpa using h3⟩

/-- the ranges gathered for an n-gram: one posting list per non-tag word, in order -/
theorem gatherSets_spec (sents : List (List Bytes)) : ∀ (ws : List Bytes) (sets : List (List Nat)),
    gatherSets sents ws = some sets →
    ∀ c, (∀ s ∈ sets, c ∈ s) → ∀ w ∈ ws.filter (fun w => !isTag w), ∃ sent, sents[c]? = some sent ∧ w ∈ sent
  | [], sets, _, c, _ => by intro w hw; simp at hw
  | w0 :: ws, sets, e, c, hc => by
    simp only [gatherSets] at e
    by_cases ht : isTag w0 = true
    · rw [if_pos ht] at e
      intro w hw
      simp only [List.filter_cons, ht, Bool.not_true] at hw
      exact gatherSets_spec sents ws sets e c hc w (by simpa using hw)
    · rw [if_neg ht] at e
      cases hp : posting sents w0 with
      | none => rw [hp] at e; cases e
      | some p =>
        rw [hp] at e
        cases hg : gatherSets sents ws with
        | none => rw [hg] at e; cases e
        | some rest =>
          rw [hg] at e
          simp only [Option.map_some, Option.some.injEq] at e
          subst e
          intro w hw
          have ht' : isTag w0 = false := by simpa using ht
          simp only [List.filter_cons, ht', Bool.not_false, if_true, List.mem_cons] at hw
          rcases hw with rfl | hw
          · exact (mem_posting hp c).mp (hc p List.mem_cons_self)
          · exact gatherSets_spec sents ws rest hg c (fun s hs => hc s (List.mem_cons_of_mem _ hs)) w hw

end KV.Filter
