import Model.Filter
/-! Sorted-list intersection (`util/multi_intersection.hh`) and posting lists: lemmas for C11. -/
namespace KV.Filter

end KV.Filter
