import Proofs.LeftResume
import Proofs.LeftSem
import Proofs.ProbingRestRep
/-! `FullScore` over a search with rest costs: the returned `rest` is `R` of the longest matching n-gram. -/
namespace KV.Left
open KV.Arpa KV.Table KV.State KV.Score

/-- the loop state after `LookupUnigram` found the word -/
def acc0R (R : Ptr → Rat) (w : Word) (t : TEntry) : Acc Ptr :=
  { ret := { prob := t.prob, rest := R [w], ngramLength := 1, independentLeft := !t.extendsLeft, extendLeft := [w] },
    backoffOut := [t.backoff], nextUse := if t.extendsRight then 1 else 0 }

theorem fullScore_rest_spec (T : Table) (R : Ptr → Rat) (ok : TableOK T) (s : State) (w : Word) (t : TEntry)
    (ht : T.lookup [w] = some t) :
    ∃ c0, c0 ≤ (s.words.take s.length).length ∧
      (fullScore (restSearch T R) s w).1.ngramLength = 1 + c0 ∧
      (∃ t', T.lookup (w :: (s.words.take s.length).take c0) = some t') ∧
      (1 + c0 < T.order → (fullScore (restSearch T R) s w).1.rest = R (w :: (s.words.take s.length).take c0)) := by
  have h2 := ok.order_ge
  have hu : ((restSearch T R).lookupUnigram w) = ({ toFound t with rest := R [w] }, [w]) := by
    simp [restSearch, foundOf, ht]
  have hfs : (fullScore (restSearch T R) s w).1.ngramLength = (scoreExceptBackoff (restSearch T R) (s.words.take s.length) w).1.ngramLength ∧
      (fullScore (restSearch T R) s w).1.rest = (scoreExceptBackoff (restSearch T R) (s.words.take s.length) w).1.rest := by
    unfold fullScore
    exact ⟨rfl, rfl⟩
  have hsx : (scoreExceptBackoff (restSearch T R) (s.words.take s.length) w).1 =
      (resumeScore (restSearch T R) (s.words.take s.length) 0 [w]
        (acc0R R w t)).ret := by
    rw [sxb_def, hu]
    rfl
  obtain ⟨c0, post⟩ := resume_ext T R ok [w] (s.words.take s.length)
    (acc0R R w t) (by simp)
    (s.words.take s.length).length 0 [w]
    (acc0R R w t) (by simp)
    ⟨by simp, by omega, by simp; omega, by simp [acc0R], ⟨t, by simpa using ht, rfl, rfl⟩, by simp [acc0R], by simp [acc0R], by simp,
      Or.inl ⟨rfl, fun j hj => by omega⟩⟩
  have post' : ExtPost T R [w] (s.words.take s.length) (acc0R R w t)
      (resumeScore (restSearch T R) (s.words.take s.length) 0 [w] (acc0R R w t)) c0 := by
    simpa using post
  rw [hfs.1, hfs.2, hsx]
  obtain ⟨t', ht', _⟩ := post'.found
  refine ⟨c0, post'.c0_le, by rw [post'.len]; simp, ⟨t', by simpa using ht'⟩, ?_⟩
  intro hlt
  rw [post'.rest, if_neg (by simp; omega)]
  simp

end KV.Left

namespace KV.ProbingBuild
open KV.Arpa KV.Table KV.Score KV.ProbingLM KV.Left

theorem foldl_congr_mem {α β} (f g : β → α → β) : ∀ (l : List α) (init : β), (∀ m, ∀ x ∈ l, f m x = g m x) →
    l.foldl f init = l.foldl g init := by
  intro l
  induction l with
  | nil => intro init _; rfl
  | cons x xs ih =>
    intro init h
    simp only [List.foldl_cons]
    rw [h init x (by simp)]
    exact ih _ (fun m y hy => h m y (List.mem_cons_of_mem _ hy))

/-- the probability `Table.build a` stores for a key is `val` -/
theorem build_prob_val (a : Arpa) (wf : WellFormed a) (k : Key) (t : TEntry) (ht : (KV.Table.build a).lookup k = some t) :
    t.prob = val a k := by
  cases k with
  | nil => simp [KV.Table.build] at ht
  | cons w ctx =>
    cases hg : a.gram (w :: ctx) with
    | some e =>
      simp only [KV.Table.build, hg] at ht
      injection ht with ht
      subst ht
      cases ctx with
      | nil => simp [val_uni, Arpa.uniProb, hg]
      | cons x xs =>
        exact (val_real a _ e (by simp) (wf.len_le _ (by rw [hg]; simp)) hg).symm
    | none =>
      simp only [KV.Table.build, hg] at ht
      split at ht
      · injection ht with ht
        subst ht
        rfl
      · cases ht

/-- **`restOf` is C08's `maxRest`** (`Model/Left.lean`: the rest function of `MaxRestBuild` over the abstract table) on
the keys of the table -/
theorem restOf_eq_maxRest (a : Arpa) (wf : WellFormed a) (Sf : List Key) (f : Final a Sf) (g : Key)
    (hg : (KV.Table.build a).lookup g ≠ none) :
    restOf a Sf g = maxRest (KV.Table.build a) Sf g := by
  obtain ⟨t, ht⟩ := Option.ne_none_iff_exists'.mp hg
  have h0 : noRest (KV.Table.build a) g = val a g := by
    simp only [noRest, ht]; exact build_prob_val a wf g t ht
  unfold restOf maxRest
  rw [h0]
  apply foldl_congr_mem
  intro m k hk
  have hkey := f.si.keys k hk
  have hne : (KV.Table.build a).lookup k ≠ none := (build_lookup_ne_none a _ k).mpr hkey
  obtain ⟨tk, htk⟩ := Option.ne_none_iff_exists'.mp hne
  have hv := build_prob_val a wf k tk htk
  by_cases hp : g.isPrefixOf k
  · simp only [hp, if_true, htk, hv]
    grind
  · simp only [hp, Bool.false_eq_true, if_false]

end KV.ProbingBuild
