import Proofs.LeftResume
import Proofs.LeftSem
import Proofs.ProbingRestRep
/-! `FullScore` over a search with rest costs: the returned `rest` is `R` of the longest matching n-gram. -/
namespace KV.Left
open KV.Arpa KV.Table KV.State KV.Score

/-- the loop state after `LookupUnigram` found the word -/
def acc0R (R : Ptr → Rat) (w : Word) (t : TEntry) : Acc Ptr :=
  { ret := { prob := t.prob, rest := R [w], ngramLength := 1, independentLeft := !t.extendsLeft, extendLeft := [w] },
    backoffOut := [t.backoff], nextUse := if t.extendsRight then 1 else 0 }

theorem fullScore_rest_spec (T : Table) (R : Ptr → Rat) (ok : TableOK T) (s : State) (w : Word) (t : TEntry)
    (ht : T.lookup [w] = some t) :
    ∃ c0, c0 ≤ (s.words.take s.length).length ∧
      (fullScore (restSearch T R) s w).1.ngramLength = 1 + c0 ∧
      (∃ t', T.lookup (w :: (s.words.take s.length).take c0) = some t') ∧
      (1 + c0 < T.order → (fullScore (restSearch T R) s w).1.rest = R (w :: (s.words.take s.length).take c0)) := by
  have h2 := ok.order_ge
  have hu : ((restSearch T R).lookupUnigram w) = ({ toFound t with rest := R [w] }, [w]) := by
    simp [restSearch, foundOf, ht]
  have hfs : (fullScore (restSearch T R) s w).1.ngramLength = (scoreExceptBackoff (restSearch T R) (s.words.take s.length) w).1.ngramLength ∧
      (fullScore (restSearch T R) s w).1.rest = (scoreExceptBackoff (restSearch T R) (s.words.take s.length) w).1.rest := by
    unfold fullScore
    exact ⟨rfl, rfl⟩
  have hsx : (scoreExceptBackoff (restSearch T R) (s.words.take s.length) w).1 =
      (resumeScore (restSearch T R) (s.words.take s.length) 0 [w]
        (acc0R R w t)).ret := by
    rw [sxb_def, hu]
    rfl
  obtain ⟨c0, post⟩ := resume_ext T R ok [w] (s.words.take s.length)
    (acc0R R w t) (by simp)
    (s.words.take s.length).length 0 [w]
    (acc0R R w t) (by simp)
    ⟨by simp, by omega, by simp; omega, by simp [acc0R], ⟨t, by simpa using ht, rfl, rfl⟩, by simp [acc0R], by simp [acc0R], by simp,
      Or.inl ⟨rfl, fun j hj => by omega⟩⟩
  have post' : ExtPost T R [w] (s.words.take s.length) (acc0R R w t)
      (resumeScore (restSearch T R) (s.words.take s.length) 0 [w] (acc0R R w t)) c0 := by
    simpa using post
  rw [hfs.1, hfs.2, hsx]
  obtain ⟨t', ht', _⟩ := post'.found
  refine ⟨c0, post'.c0_le, by rw [post'.len]; simp, ⟨t', by simpa using ht'⟩, ?_⟩
  intro hlt
  rw [post'.rest, if_neg (by simp; omega)]
  simp

end KV.Left
