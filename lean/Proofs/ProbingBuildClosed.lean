import Proofs.ProbingBuildSem
/-! The fold of the probing builder over the lines of a model without blanks (suffix-closed, contexts present). -/
namespace KV.ProbingBuild
open KV.Arpa KV.Table KV.Score KV.ProbingLM

theorem set_set_same {α} (l : List α) (k : Nat) (a b : α) : (l.set k a).set k b = l.set k b := by
  simp [List.set_set]

/-- `FindLower` when the immediate suffix is already stored: no blank is inserted -/
theorem findLower_found (combine : Nat → Word → Nat) (g : List Word) (k : Nat) (s : St) (M : Nat → Option Nat) (js : Nat)
    (oi : OrdInv (s.mid.getD k default) M) (hjs : M (hashOf combine (g.take (k + 2))) = some js) :
    findLower combine g (k + 1) s [] =
      .ok ({ s with mid := s.mid.set k (s.mid.getD k default) }, [.mid k js]) := by
  simp only [findLower, ord_findOrInsert_found oi _ blankW js hjs, bind, Except.bind, List.nil_append, if_true]

theorem adjustLower_single (combine : Nat → Word → Nat) (ar : Rat) (g : List Word) (n : Nat) (r : Ref) (s : St) :
    adjustLower combine false ar g n [r] s = .ok (s.modify r clr) := by
  simp only [adjustLower, markExtends, pure, Except.pure, Bool.false_eq_true, if_false]
  rfl

theorem activate_found (combine : Nat → Word → Nat) (g : List Word) (k : Nat) (s : St) (M : Nat → Option Nat) (ic : Nat)
    (oi : OrdInv (s.mid.getD k default) M) (hic : M (hashOf combine (g.drop 1)) = some ic) :
    activate combine g (k + 3) s = .ok (s.modify (.mid k ic) setExtension) := by
  have : (k + 3 == 2) = false := by simp
  have h3 : k + 3 - 3 = k := by omega
  simp only [activate, this, Bool.false_eq_true, if_false, h3, ord_find oi, hic, bind, Except.bind]

theorem activate_bigram (combine : Nat → Word → Nat) (x y : Word) (s : St) :
    activate combine [x, y] 2 s = .ok (s.modify (.uni y) setExtension) := by
  simp [activate]

theorem findLower_bigram (combine : Nat → Word → Nat) (x y : Word) (s : St) :
    findLower combine [x, y] 0 s [] = .ok (s, [.uni x]) := by
  simp [findLower]

def markPay (pay : List W) (js ic : Nat) : List W :=
  (pay.set js (clr (pay.getD js default))).set ic (setExtension ((pay.set js (clr (pay.getD js default))).getD ic default))
def withPay (o : Ord) (p : List W) : Ord := { o with pay := p }
def setMid (s : St) (k : Nat) (o : Ord) : St := { s with mid := s.mid.set k o }

/-- the marking part of a line of order `k+3` in closed form -/
theorem markPhase3 (combine : Nat → Word → Nat) (g : List Word) (k : Nat) (s : St) (M : Nat → Option Nat) (js ic : Nat) (ar : Rat)
    (hk : k < s.mid.length)
    (oi : OrdInv (s.mid.getD k default) M) (hjs : M (hashOf combine (g.take (k + 2))) = some js)
    (hic : M (hashOf combine (g.drop 1)) = some ic) :
    (findLower combine g (k + 1) s [] >>= fun r => adjustLower combine false ar g (k + 3) r.2 r.1 >>= fun s3 =>
      activate combine g (k + 3) s3) =
    .ok (setMid s k (withPay (s.mid.getD k default) (markPay (s.mid.getD k default).pay js ic))) := by
  rw [findLower_found combine g k s M js oi hjs]
  simp only [bind, Except.bind]
  rw [adjustLower_single]
  simp only [St.modify, St.get]
  have hg1 : (s.mid.set k (s.mid.getD k default)).getD k default = s.mid.getD k default := by
    rw [getD_set]; simp [hk]
  rw [hg1, set_set_same]
  have oi2 : OrdInv ((setMid s k (withPay (s.mid.getD k default)
        ((s.mid.getD k default).pay.set js (clr ((s.mid.getD k default).pay.getD js default))))).mid.getD k default) M := by
    simp only [setMid, getD_set, hk, and_self, if_true]
    exact ordInv_setPay oi _ _
  have := activate_found combine g k _ M ic oi2 hic
  simp only [setMid, withPay] at this
  rw [this]
  simp only [St.modify, getD_set, hk, and_self, if_true, set_set_same, setMid, withPay, markPay]

end KV.ProbingBuild

namespace KV.ProbingBuild
open KV.Arpa KV.Table KV.Score KV.ProbingLM

/-- the table of order `m` (2 ≤ m ≤ N) -/
def tbl (N : Nat) (s : St) (m : Nat) : Ord := if m = N then s.longest else s.mid.getD (m - 2) default

def setLongest (s : St) (o : Ord) : St := { s with longest := o }

theorem tbl_setMid (N : Nat) (s : St) (k : Nat) (o : Ord) (m : Nat) (hk : k < s.mid.length) :
    tbl N (setMid s k o) m = if m ≠ N ∧ m - 2 = k then o else tbl N s m := by
  unfold tbl setMid
  by_cases hm : m = N
  · simp [hm]
  · simp only [hm, if_false, ne_eq, not_false_eq_true, true_and, getD_set]
    by_cases h2 : m - 2 = k
    · simp [h2, hk]
    · simp [h2]

theorem tbl_setLongest (N : Nat) (s : St) (o : Ord) (m : Nat) :
    tbl N (setLongest s o) m = if m = N then o else tbl N s m := by
  unfold tbl setLongest
  by_cases hm : m = N <;> simp [hm]

theorem tbl_modify_uni (N : Nat) (s : St) (w : Word) (f : W → W) (m : Nat) : tbl N (s.modify (.uni w) f) m = tbl N s m := rfl

/-- state invariant of the fold on models without blanks -/
structure InvC (combine : Nat → Word → Nat) (u0 : List W) (N : Nat) (caps : Nat → Nat) (proc : List Line) (s : St) : Prop where
  midlen : s.mid.length = N - 2
  uni : UniSem u0 proc s.uni
  tabs : ∀ m, 2 ≤ m → m ≤ N → ∃ M, OrdSem combine proc m (caps m) (tbl N s m) M

/-- the insertion phase of `addLine` -/
def insPhase (combine : Nat → Word → Nat) (N : Nat) (s : St) (g : List Word) (e : Entry) : Except BErr St :=
  if g.length == N then (s.longest.insert (hashOf combine g) (lineW e)).map (setLongest s)
  else ((s.mid.getD (g.length - 2) default).insert (hashOf combine g) (lineW e)).map (setMid s (g.length - 2))

theorem addLine_phases (combine : Nat → Word → Nat) (N : Nat) (s : St) (g : List Word) (e : Entry) :
    addLine combine false N s g e =
      (insPhase combine N s g e >>= fun s1 =>
        findLower combine g (g.length - 2) s1 [] >>= fun r =>
          adjustLower combine false (lineW e).rest g g.length r.2 r.1 >>= fun s3 => activate combine g g.length s3) := by
  unfold addLine insPhase
  by_cases hN : (g.length == N) = true
  · simp only [hN, if_true, bind, Except.bind, Except.map, setLongest]
    cases s.longest.insert (hashOf combine g) (lineW e) with
    | error err => rfl
    | ok o =>
      simp only
      cases findLower combine g (g.length - 2) { s with longest := o } [] with
      | error err => rfl
      | ok r =>
        obtain ⟨s2, between⟩ := r
        simp only [Bool.false_eq_true, if_false, pure, Except.pure]
        try (cases adjustLower combine false (lineW e).rest g g.length between s2 <;> rfl)
  · simp only [hN, Bool.false_eq_true, if_false, bind, Except.bind, Except.map, setMid]
    cases (s.mid.getD (g.length - 2) default).insert (hashOf combine g) (lineW e) with
    | error err => rfl
    | ok o =>
      simp only
      all_goals
        cases findLower combine g (g.length - 2) { s with mid := s.mid.set (g.length - 2) o } [] with
        | error err => rfl
        | ok r =>
          obtain ⟨s2, between⟩ := r
          simp only [Bool.false_eq_true, if_false, pure, Except.pure]
          try (cases adjustLower combine false (lineW e).rest g g.length between s2 <;> rfl)

end KV.ProbingBuild

namespace KV.ProbingBuild
open KV.Arpa KV.Table KV.Score KV.ProbingLM

theorem insPhase_ok (combine : Nat → Word → Nat) (N : Nat) (s : St) (g : List Word) (e : Entry) (o' : Ord)
    (hn2 : 2 ≤ g.length) (hnN : g.length ≤ N) (hml : s.mid.length = N - 2)
    (hins : (tbl N s g.length).insert (hashOf combine g) (lineW e) = .ok o') :
    ∃ s1, insPhase combine N s g e = .ok s1 ∧ s1.uni = s.uni ∧ s1.mid.length = N - 2 ∧ tbl N s1 g.length = o' ∧
      ∀ m, m ≠ g.length → 2 ≤ m → tbl N s1 m = tbl N s m := by
  unfold insPhase
  by_cases hN : g.length = N
  · have hb : (g.length == N) = true := by simpa using hN
    unfold tbl at hins
    simp only [hN, if_true] at hins
    simp only [hN, beq_self_eq_true, if_true, hins, Except.map]
    refine ⟨setLongest s o', rfl, rfl, hml, ?_, ?_⟩
    · rw [tbl_setLongest]; simp
    · intro m hm _
      rw [tbl_setLongest]
      have : ¬ m = N := hm
      simp [this]
  · have hb : (g.length == N) = false := by simpa using hN
    unfold tbl at hins
    simp only [hN, if_false] at hins
    simp only [hb, Bool.false_eq_true, if_false, hins, Except.map]
    have hk : g.length - 2 < s.mid.length := by rw [hml]; omega
    refine ⟨setMid s (g.length - 2) o', rfl, rfl, by simp [setMid, hml], ?_, ?_⟩
    · rw [tbl_setMid _ _ _ _ _ hk]; simp [hN]
    · intro m hm h2
      rw [tbl_setMid _ _ _ _ _ hk]
      have : ¬ (m ≠ N ∧ m - 2 = g.length - 2) := by
        intro ⟨_, h⟩; apply hm; omega
      simp [this]

theorem invC_step (combine : Nat → Word → Nat) (u0 : List W) (hu : UniOK u0) (N : Nat) (caps : Nat → Nat)
    (proc : List Line) (s : St) (inv : InvC combine u0 N caps proc s) (g : List Word) (e : Entry)
    (hn2 : 2 ≤ g.length) (hnN : g.length ≤ N)
    (hasc : ∀ p ∈ proc, p.1.length ≤ g.length)
    (hfresh : ∀ p ∈ linesOf proc g.length, hashOf combine p.1 ≠ hashOf combine g)
    (hcap : (linesOf proc g.length).length + 1 < caps g.length)
    (hbi : g.length = 2 → ∃ x y, g = [x, y] ∧ x < u0.length ∧ y < u0.length)
    (hsuf : 3 ≤ g.length → ∃ js, ∃ (_ : js < (linesOf proc (g.length - 1)).length),
      (linesOf proc (g.length - 1))[js].1 = g.take (g.length - 1))
    (hctx : 3 ≤ g.length → ∃ ic, ∃ (_ : ic < (linesOf proc (g.length - 1)).length),
      (linesOf proc (g.length - 1))[ic].1 = g.drop 1) :
    ∃ s', addLine combine false N s g e = .ok s' ∧ InvC combine u0 N caps (proc ++ [(g, e)]) s' := by
  obtain ⟨Mn, semn⟩ := inv.tabs g.length hn2 hnN
  obtain ⟨o', hins, semn'⟩ := ordSem_insert semn g e rfl hfresh hcap hasc
  obtain ⟨s1, hph, hu1, hml1, ht1, hto⟩ := insPhase_ok combine N s g e o' hn2 hnN inv.midlen hins
  rw [addLine_phases, hph]
  simp only [bind, Except.bind]
  by_cases h2 : g.length = 2
  · obtain ⟨x, y, hg, hx, hy⟩ := hbi h2
    subst hg
    simp only [List.length_cons, List.length_nil, Nat.reduceAdd, Nat.sub_self]
    rw [findLower_bigram]
    simp only [adjustLower_single, activate_bigram]
    refine ⟨_, rfl, ⟨hml1, ?_, ?_⟩⟩
    · have := uniSem_mark hu inv.uni x y e hx hy
      rw [← hu1] at this
      exact this
    · intro m hm2 hmN
      show ∃ M, OrdSem combine _ m (caps m) (tbl N s1 m) M
      by_cases hm : m = 2
      · subst hm
        exact ⟨_, by simpa using (show tbl N s1 ([x, y] : List Word).length = o' from ht1) ▸ semn'⟩
      · rw [hto m (by simpa using hm) hm2]
        obtain ⟨M, sem⟩ := inv.tabs m hm2 hmN
        exact ⟨M, ordSem_frame sem _ e (by simp; omega) (by simp; omega)⟩
  · have h3 : 3 ≤ g.length := by omega
    obtain ⟨k, hk⟩ : ∃ k, g.length = k + 3 := ⟨g.length - 3, by omega⟩
    obtain ⟨js, hjs, hsufe⟩ := hsuf h3
    obtain ⟨ic, hic, hctxe⟩ := hctx h3
    obtain ⟨Mp, semp⟩ := inv.tabs (g.length - 1) (by omega) (by omega)
    have htp : tbl N s (g.length - 1) = s.mid.getD k default := by
      unfold tbl
      have : ¬ g.length - 1 = N := by omega
      simp only [this, if_false]
      have hidx : g.length - 1 - 2 = k := by omega
      rw [hidx]
    have htp1 : s1.mid.getD k default = tbl N s (g.length - 1) := by
      have := hto (g.length - 1) (by omega) (by omega)
      unfold tbl at this
      have hne : ¬ g.length - 1 = N := by omega
      simp only [hne, if_false] at this
      have hidx : g.length - 1 - 2 = k := by omega
      rw [hidx] at this
      rw [this]
      unfold tbl; simp only [hne, if_false]
      rw [hidx]
    have hkl : k < s1.mid.length := by rw [hml1]; omega
    have oi : OrdInv (s1.mid.getD k default) Mp := by rw [htp1]; exact semp.inv
    have hkey1 : Mp (hashOf combine (g.take (k + 2))) = some js := by
      have := semp.key js hjs
      rw [hsufe] at this
      have hh : g.length - 1 = k + 2 := by omega
      rw [hh] at this; exact this
    have hkey2 : Mp (hashOf combine (g.drop 1)) = some ic := by
      have := semp.key ic hic
      rw [hctxe] at this; exact this
    have hfl : g.length - 2 = k + 1 := by omega
    have hmp := markPhase3 combine g k s1 Mp js ic (lineW e).rest hkl oi hkey1 hkey2
    simp only [bind, Except.bind] at hmp
    rw [hfl, hk]
    rw [hmp]
    refine ⟨_, rfl, ⟨by simp [setMid, hml1], ?_, ?_⟩⟩
    · show UniSem u0 _ s1.uni
      rw [hu1]
      exact uniSem_frame inv.uni g e h2
    · intro m hm2 hmN
      rw [tbl_setMid _ _ _ _ _ hkl]
      by_cases hm : m = g.length - 1
      · have hc : m ≠ N ∧ m - 2 = k := by omega
        simp only [hc, and_self, if_true, ne_eq, not_false_eq_true]
        have := ordSem_mark semp g e (by omega) js hjs hsufe ic hic hctxe
        rw [hm]
        refine ⟨Mp, ?_⟩
        rw [htp1]
        exact this
      · have hc : ¬ (m ≠ N ∧ m - 2 = k) := by omega
        simp only [hc, if_false]
        by_cases hmn : m = g.length
        · subst hmn
          rw [ht1]; exact ⟨_, semn'⟩
        · rw [hto m hmn hm2]
          obtain ⟨M, sem⟩ := inv.tabs m hm2 hmN
          exact ⟨M, ordSem_frame sem g e (fun h => hmn h.symm) (by omega)⟩

end KV.ProbingBuild

namespace KV.ProbingBuild
open KV.Arpa KV.Table KV.Score KV.ProbingLM

theorem mem_linesOf_idx (proc : List Line) (m : Nat) (q : Line) (hq : q ∈ proc) (hl : q.1.length = m) :
    ∃ j, ∃ (_ : j < (linesOf proc m).length), (linesOf proc m)[j].1 = q.1 := by
  have : q ∈ linesOf proc m := by simp [linesOf, hq, hl]
  obtain ⟨j, hj, he⟩ := List.mem_iff_getElem.mp this
  exact ⟨j, hj, by rw [he]⟩

theorem invC_fold (combine : Nat → Word → Nat) (u0 : List W) (hu : UniOK u0) (N : Nat) (caps : Nat → Nat) :
    ∀ (rest proc : List Line) (s : St), InvC combine u0 N caps proc s →
      (proc ++ rest).Pairwise (fun p q => p.1.length ≤ q.1.length) →
      ((proc ++ rest).map (fun p => hashOf combine p.1)).Nodup →
      (∀ p ∈ rest, 2 ≤ p.1.length ∧ p.1.length ≤ N) →
      (∀ m, (linesOf (proc ++ rest) m).length < caps m) →
      (∀ p ∈ rest, p.1.length = 2 → ∃ x y, p.1 = [x, y] ∧ x < u0.length ∧ y < u0.length) →
      (∀ p ∈ rest, 3 ≤ p.1.length →
        (∃ q ∈ proc ++ rest, q.1 = p.1.take (p.1.length - 1)) ∧ (∃ q ∈ proc ++ rest, q.1 = p.1.drop 1)) →
      ∃ s', rest.foldlM (fun s p => addLine combine false N s p.1 p.2) s = .ok s' ∧ InvC combine u0 N caps (proc ++ rest) s' := by
  intro rest
  induction rest with
  | nil => intro proc s inv _ _ _ _ _ _; exact ⟨s, rfl, by simpa using inv⟩
  | cons p rest ih =>
    intro proc s inv hsorted hnd hlen hcaps hbi hcl
    have hpw := List.pairwise_append.mp hsorted
    have hasc : ∀ q ∈ proc, q.1.length ≤ p.1.length := fun q hq => hpw.2.2 q hq p List.mem_cons_self
    have hlater : ∀ q ∈ rest, p.1.length ≤ q.1.length := fun q hq => (List.pairwise_cons.mp hpw.2.1).1 q hq
    have hfresh : ∀ q ∈ linesOf proc p.1.length, hashOf combine q.1 ≠ hashOf combine p.1 := by
      intro q hq heq
      have hqp : q ∈ proc := by simp [linesOf] at hq; exact hq.1
      rw [List.map_append, List.nodup_append] at hnd
      exact hnd.2.2 _ (List.mem_map_of_mem hqp) _ (List.mem_map_of_mem (List.mem_cons_self (a := p) (l := rest))) heq
    have hcap : (linesOf proc p.1.length).length + 1 < caps p.1.length := by
      have h1 := hcaps p.1.length
      have : (linesOf (proc ++ p :: rest) p.1.length).length ≥ (linesOf proc p.1.length).length + 1 := by
        simp [linesOf, List.filter_append, List.filter_cons]
      omega
    have inproc : ∀ q ∈ proc ++ p :: rest, q.1.length < p.1.length → q ∈ proc := by
      intro q hq hl
      rcases List.mem_append.mp hq with h | h
      · exact h
      · rcases List.mem_cons.mp h with h | h
        · subst h; omega
        · have := hlater q h; omega
    have hsuf : 3 ≤ p.1.length → ∃ js, ∃ (_ : js < (linesOf proc (p.1.length - 1)).length),
        (linesOf proc (p.1.length - 1))[js].1 = p.1.take (p.1.length - 1) := by
      intro h3
      obtain ⟨⟨q, hq, hqe⟩, _⟩ := hcl p List.mem_cons_self h3
      have hql : q.1.length = p.1.length - 1 := by rw [hqe, List.length_take]; omega
      obtain ⟨j, hj, he⟩ := mem_linesOf_idx proc _ q (inproc q hq (by omega)) hql
      exact ⟨j, hj, by rw [he, hqe]⟩
    have hctx : 3 ≤ p.1.length → ∃ ic, ∃ (_ : ic < (linesOf proc (p.1.length - 1)).length),
        (linesOf proc (p.1.length - 1))[ic].1 = p.1.drop 1 := by
      intro h3
      obtain ⟨_, ⟨q, hq, hqe⟩⟩ := hcl p List.mem_cons_self h3
      have hql : q.1.length = p.1.length - 1 := by rw [hqe, List.length_drop]
      obtain ⟨j, hj, he⟩ := mem_linesOf_idx proc _ q (inproc q hq (by omega)) hql
      exact ⟨j, hj, by rw [he, hqe]⟩
    obtain ⟨h2, hN⟩ := hlen p List.mem_cons_self
    obtain ⟨s1, h1, inv1⟩ := invC_step combine u0 hu N caps proc s inv p.1 p.2 h2 hN hasc hfresh hcap
      (hbi p List.mem_cons_self) hsuf hctx
    have hpe : (p.1, p.2) = p := rfl
    rw [hpe] at inv1
    have happ : proc ++ p :: rest = (proc ++ [p]) ++ rest := by simp
    obtain ⟨s', h2', inv'⟩ := ih (proc ++ [p]) s1 inv1 (by rw [← happ]; exact hsorted) (by rw [← happ]; exact hnd)
      (fun q hq => hlen q (List.mem_cons_of_mem _ hq)) (by rw [← happ]; exact hcaps)
      (fun q hq => hbi q (List.mem_cons_of_mem _ hq))
      (fun q hq h3 => by rw [← happ]; exact hcl q (List.mem_cons_of_mem _ hq) h3)
    refine ⟨s', ?_, by rw [happ]; exact inv'⟩
    rw [List.foldlM_cons, h1]
    exact h2'

end KV.ProbingBuild

namespace KV.ProbingBuild
open KV.Arpa KV.Table KV.Score KV.ProbingLM

/-- the n-gram lines of orders ≥ 2 in file order -/
def ngramLines (a : Arpa) : List Line := a.entries.filter fun p => p.1.length ≥ 2

def capOf (buckets : List Nat) (m : Nat) : Nat := buckets.getD (m - 2) 1

def initSt (a : Arpa) (nWords : Nat) (buckets : List Nat) : St :=
  { uni := initUni a nWords,
    mid := (List.range (a.order - 2)).map (fun i => emptyOrd (buckets.getD i 1)),
    longest := emptyOrd (buckets.getD (a.order - 2) 1) }

/-- **The builder on a model without blanks**: it returns `.ok`, and every table / the unigram array are
characterised by `InvC` (each order's table holds exactly that order's lines under the C20 invariant, sign bits =
"some line ends in it", extension bits = "non-zero back-off or some line starts with it"). -/
theorem build_closed_inv (combine : Nat → Word → Nat) (a : Arpa) (nWords : Nat) (buckets : List Nat) (unkMissing : Rat)
    (hN : 2 ≤ a.order) (hu : UniOK (initUni a nWords))
    (hsorted : (ngramLines a).Pairwise (fun p q => p.1.length ≤ q.1.length))
    (hnd : ((ngramLines a).map (fun p => hashOf combine p.1)).Nodup)
    (hlen : ∀ p ∈ ngramLines a, p.1.length ≤ a.order)
    (hcaps : ∀ m, (linesOf (ngramLines a) m).length < capOf buckets m)
    (hbi : ∀ p ∈ ngramLines a, p.1.length = 2 → ∃ x y, p.1 = [x, y] ∧ x < nWords ∧ y < nWords)
    (hcl : ∀ p ∈ ngramLines a, 3 ≤ p.1.length →
      (∃ q ∈ ngramLines a, q.1 = p.1.take (p.1.length - 1)) ∧ (∃ q ∈ ngramLines a, q.1 = p.1.drop 1)) :
    ∃ s, build combine false a nWords buckets unkMissing = .ok (fixUnk a unkMissing s) ∧
      InvC combine (initUni a nWords) a.order (capOf buckets) (ngramLines a) s := by
  have hul : (initUni a nWords).length = nWords := by simp [initUni]
  have inv0 : InvC combine (initUni a nWords) a.order (capOf buckets) [] (initSt a nWords buckets) := by
    refine ⟨by simp [initSt], ⟨rfl, fun w => by simp [initSt, expW, endsIn, startsWith]⟩, ?_⟩
    intro m h2 hmN
    have hc : 0 < capOf buckets m := by have := hcaps m; omega
    refine ⟨fun _ => none, ?_⟩
    have : tbl a.order (initSt a nWords buckets) m = emptyOrd (capOf buckets m) := by
      unfold tbl capOf initSt
      by_cases hm : m = a.order
      · simp [hm]
      · have hlt : m - 2 < a.order - 2 := by omega
        simp only [hm, if_false]
        rw [List.getD_eq_getElem?_getD, List.getElem?_map, List.getElem?_range hlt]
        rfl
    rw [this]
    exact ordSem_empty combine m _ hc
  obtain ⟨s, hf, inv⟩ := invC_fold combine (initUni a nWords) hu a.order (capOf buckets) (ngramLines a) [] _ inv0
    (by simpa using hsorted) (by simpa using hnd)
    (fun p hp => ⟨by simp [ngramLines] at hp; exact hp.2, hlen p hp⟩) (by simpa using hcaps)
    (fun p hp h2 => by obtain ⟨x, y, h1, hx, hy⟩ := hbi p hp h2; exact ⟨x, y, h1, by rw [hul]; exact hx, by rw [hul]; exact hy⟩)
    (by simpa using hcl)
  refine ⟨s, ?_, by simpa using inv⟩
  unfold build
  simp only [bind, Except.bind]
  have hf' : List.foldlM (fun s p => addLine combine false a.order s p.1 p.2) (initSt a nWords buckets)
      (a.entries.filter fun p => p.1.length ≥ 2) = .ok s := hf
  unfold initSt at hf'
  rw [hf']

end KV.ProbingBuild
