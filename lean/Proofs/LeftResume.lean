import Model.Left
import Proofs.ScoreLoop
import Proofs.ScoreSpec
/-! Post-condition of `ResumeScore` when it is *resumed* from the node of an already matched n-gram `g`
(the pointer of `ExtendLeft`) over further context words `add` — the loop of `model.cc:273-296` with
rest costs and the `extend_left` pointer, over the abstract table. -/
namespace KV.Left
open KV.Arpa KV.Table KV.State KV.Score

/-- loop invariant after `k` words of `add` -/
structure ExtInv (T : Table) (R : Ptr → Rat) (g add : List Word) (acc0 : Acc Ptr) (k : Nat) (node : Ptr) (acc : Acc Ptr) : Prop where
  node_eq : node = g ++ add.take k
  k_le : k ≤ add.length
  k_lt : g.length + k ≤ T.order - 1
  len : acc.ret.ngramLength = g.length + k
  found : ∃ t, T.lookup (g ++ add.take k) = some t ∧ acc.ret.prob = t.prob ∧ acc.ret.independentLeft = !t.extendsLeft
  rest : acc.ret.rest = R (g ++ add.take k)
  ptr : acc.ret.extendLeft = g ++ add.take k
  bo : acc.backoffOut = acc0.backoffOut ++ (List.range k).map (fun j => T.bo (g ++ add.take (j+1)))
  nu : (acc.nextUse = acc0.nextUse ∧ ∀ j, j < k → T.xr (g ++ add.take (j+1)) = false) ∨
       (∃ j, j < k ∧ acc.nextUse = g.length + j + 1 ∧ T.xr (g ++ add.take (j+1)) = true ∧
          ∀ j', j < j' → j' < k → T.xr (g ++ add.take (j'+1)) = false)

/-- what the resumed loop returns: `c0` further words were matched; `m` of them at a middle order -/
structure ExtPost (T : Table) (R : Ptr → Rat) (g add : List Word) (acc0 acc : Acc Ptr) (c0 : Nat) : Prop where
  c0_le : c0 ≤ add.length
  len_le : g.length + c0 ≤ T.order
  found : ∃ t, T.lookup (g ++ add.take c0) = some t ∧ acc.ret.prob = t.prob
  len : acc.ret.ngramLength = g.length + c0
  stop : c0 < add.length → g.length + c0 < T.order → T.lookup (g ++ add.take (c0+1)) = none
  indep : acc.ret.independentLeft =
    (decide (g.length + c0 = T.order) || decide (c0 < add.length) || !T.xl (g ++ add.take c0))
  rest : acc.ret.rest = if g.length + c0 = T.order then acc.ret.prob else R (g ++ add.take c0)
  ptr : g.length + c0 < T.order → acc.ret.extendLeft = g ++ add.take c0
  bo : acc.backoffOut = acc0.backoffOut ++
    (List.range (min c0 (T.order - 1 - g.length))).map (fun j => T.bo (g ++ add.take (j+1)))
  nu : (acc.nextUse = acc0.nextUse ∧ ∀ j, j < min c0 (T.order - 1 - g.length) → T.xr (g ++ add.take (j+1)) = false) ∨
       (∃ j, j < min c0 (T.order - 1 - g.length) ∧ acc.nextUse = g.length + j + 1 ∧ T.xr (g ++ add.take (j+1)) = true ∧
          ∀ j', j < j' → j' < min c0 (T.order - 1 - g.length) → T.xr (g ++ add.take (j'+1)) = false)

theorem resume_ext (T : Table) (R : Ptr → Rat) (ok : TableOK T) (g add : List Word) (acc0 : Acc Ptr) (hg : 1 ≤ g.length) :
    ∀ (n k : Nat) (node : Ptr) (acc : Acc Ptr), n = add.length - k →
      ExtInv T R g add acc0 k node acc →
      ∃ c0, ExtPost T R g add acc0 (resumeScore (restSearch T R) (add.drop k) (g.length - 1 + k) node acc) c0 := by
  intro n
  induction n with
  | zero =>
    intro k node acc hn inv
    have hk : add.length ≤ k := by omega
    have hke : k = add.length := Nat.le_antisymm inv.k_le hk
    rw [List.drop_eq_nil_of_le hk]
    simp only [resumeScore]
    obtain ⟨t, ht, hp, hind⟩ := inv.found
    have h2 := ok.order_ge
    have hlt := inv.k_lt
    have hm : min k (T.order - 1 - g.length) = k := by omega
    refine ⟨k, ⟨inv.k_le, by omega, ⟨t, ht, hp⟩, inv.len, by omega, ?_, ?_, fun _ => inv.ptr, ?_, ?_⟩⟩
    · have h1 : ¬ (g.length + k = T.order) := by omega
      have h3 : ¬ (k < add.length) := by omega
      simp [h1, h3, hind, Table.xl, ht]
    · have h1 : ¬ (g.length + k = T.order) := by omega
      simp only [h1, if_false]; exact inv.rest
    · rw [hm]; exact inv.bo
    · rw [hm]; exact inv.nu
  | succ n ih =>
    intro k node acc hn inv
    have hlt := inv.k_lt
    have hk : k < add.length := by omega
    obtain ⟨x, rest, hdrop⟩ : ∃ x rest, add.drop k = x :: rest := by
      cases h : add.drop k with
      | nil => have := List.drop_eq_nil_iff.mp h; omega
      | cons x rest => exact ⟨x, rest, rfl⟩
    obtain ⟨htake, hdrop', _⟩ := take_succ_of_drop hdrop
    rw [hdrop]
    obtain ⟨t, ht, hp, hind⟩ := inv.found
    have h2 := ok.order_ge
    have hnode : node ++ [x] = g ++ add.take (k+1) := by rw [inv.node_eq, htake, List.append_assoc]
    have hm : min k (T.order - 1 - g.length) = k := by omega
    unfold resumeScore
    by_cases hil : acc.ret.independentLeft = true
    · simp only [hil, if_true]
      have hxl : t.extendsLeft = false := by rw [hil] at hind; cases h : t.extendsLeft <;> simp_all
      have hnone : T.lookup (g ++ add.take (k+1)) = none := by
        have := ok.xl_sound (g ++ add.take k) x t ht hxl
        rw [← hnode, inv.node_eq]; exact this
      refine ⟨k, ⟨inv.k_le, by omega, ⟨t, ht, hp⟩, inv.len, fun _ _ => hnone, ?_, ?_, fun _ => inv.ptr, ?_, ?_⟩⟩
      · simp [hil, hk]
      · have h1 : ¬ (g.length + k = T.order) := by omega
        simp only [h1, if_false]; exact inv.rest
      · rw [hm]; exact inv.bo
      · rw [hm]; exact inv.nu
    · simp only [hil, Bool.false_eq_true, if_false]
      by_cases hlong : g.length + k = T.order - 1
      · -- the next order is the longest
        have hb : (g.length - 1 + k == (restSearch T R).order - 2) = true := by
          simp only [restSearch, beq_iff_eq]; omega
        simp only [hb, if_true]
        cases hl : T.lookup (g ++ add.take (k+1)) with
        | none =>
          have : (restSearch T R).lookupLongest x node = none := by simp [restSearch, hnode, hl]
          simp only [this]
          refine ⟨k, ⟨inv.k_le, by omega, ⟨t, ht, hp⟩, inv.len, fun _ _ => hl, ?_, ?_, fun _ => inv.ptr, ?_, ?_⟩⟩
          · simp [hk]
          · have h1 : ¬ (g.length + k = T.order) := by omega
            simp only [h1, if_false]; exact inv.rest
          · rw [hm]; exact inv.bo
          · rw [hm]; exact inv.nu
        | some tl =>
          have : (restSearch T R).lookupLongest x node = some tl.prob := by simp [restSearch, hnode, hl]
          simp only [this]
          have hm' : min (k+1) (T.order - 1 - g.length) = k := by omega
          refine ⟨k+1, ⟨by omega, by omega, ⟨tl, hl, rfl⟩, ?_, ?_, ?_, ?_, ?_, ?_, ?_⟩⟩
          · simp [restSearch]; omega
          · intro _ h; omega
          · have : g.length + (k + 1) = T.order := by omega
            simp [this]
          · have : g.length + (k + 1) = T.order := by omega
            simp [this]
          · intro h; omega
          · rw [hm']; exact inv.bo
          · rw [hm']; exact inv.nu
      · have hb : (g.length - 1 + k == (restSearch T R).order - 2) = false := by
          simp only [restSearch, beq_eq_false_iff_ne]; omega
        simp only [hb, Bool.false_eq_true, if_false]
        cases hl : T.lookup (g ++ add.take (k+1)) with
        | none =>
          have : (restSearch T R).lookupMiddle (g.length - 1 + k) x node = (none, node ++ [x]) := by
            simp [restSearch, foundOf, hnode, hl]
          simp only [this]
          refine ⟨k, ⟨inv.k_le, by omega, ⟨t, ht, hp⟩, inv.len, fun _ _ => hl, ?_, ?_, fun _ => inv.ptr, ?_, ?_⟩⟩
          · simp [hk]
          · have h1 : ¬ (g.length + k = T.order) := by omega
            simp only [h1, if_false]; exact inv.rest
          · rw [hm]; exact inv.bo
          · rw [hm]; exact inv.nu
        | some tm =>
          have : (restSearch T R).lookupMiddle (g.length - 1 + k) x node =
              (some { toFound tm with rest := R (g ++ add.take (k+1)) }, node ++ [x]) := by
            simp [restSearch, foundOf, hnode, hl]
          simp only [this]
          rw [← hdrop']
          have hom : g.length - 1 + k + 1 = g.length - 1 + (k + 1) := by omega
          rw [hom]
          apply ih (k+1) (node ++ [x]) _ (by omega)
          refine ⟨hnode, by omega, by omega, ?_, ⟨tm, hl, rfl, by simp [toFound]⟩, rfl, hnode, ?_, ?_⟩
          · show g.length - 1 + k + 2 = g.length + (k + 1); omega
          · simp only [inv.bo, List.range_succ, List.map_append, List.map_cons, List.map_nil, toFound, List.append_assoc]
            simp [Table.bo, hl]
          · simp only [toFound]
            by_cases hx : tm.extendsRight = true
            · right
              refine ⟨k, by omega, ?_, by simp [Table.xr, hl, hx], fun j' h1 h2 => by omega⟩
              simp only [hx, if_true]; omega
            · have hx' : tm.extendsRight = false := by simpa using hx
              simp only [hx', Bool.false_eq_true, if_false]
              rcases inv.nu with ⟨he, hall⟩ | ⟨j, hj, he, hxr, hall⟩
              · left
                refine ⟨he, fun j hj => ?_⟩
                by_cases hjk : j = k
                · subst hjk; simp [Table.xr, hl, hx']
                · exact hall j (by omega)
              · right
                refine ⟨j, by omega, he, hxr, fun j' h1 h2 => ?_⟩
                by_cases hjk : j' = k
                · subst hjk; simp [Table.xr, hl, hx']
                · exact hall j' h1 (by omega)

end KV.Left
