import Proofs.FilePieceShift
/-! Every reading operation of the window model returns what the whole-string spec returns. -/
namespace KV.FilePiece

theorem rest_of_offset_eq {env : Env} {st st' : St} (h : st'.offset = st.offset) :
    st'.rest env = st.rest env := by simp [St.rest, h]

theorem rest_advance (env : Env) (st : St) (n : Nat) :
    ({ st with pos := st.pos + n } : St).rest env = (st.rest env).drop n := by
  simp only [St.rest, offset_advance, List.drop_drop]

theorem mu_le (env : Env) (st : St) : mu env st ≤ 2 * env.bytes.length + 3 := by
  unfold mu; split <;> split <;> omega

theorem Inv.rest_cons {env : Env} {st : St} (h : Inv env st) {c : Byte} {t : List Byte}
    (hv : st.visible = c :: t) : ∃ r, st.rest env = c :: r := by
  have := h.visible_eq
  rw [hv] at this
  cases hr : st.rest env with
  | nil => rw [hr] at this; simp at this
  | cons a r =>
    rw [hr] at this
    cases hk : st.win.length - st.pos with
    | zero => rw [hk] at this; simp at this
    | succ k => rw [hk] at this; simp at this; exact ⟨r, by rw [this.1]⟩

theorem Inv.rest_nil_of_atEnd {env : Env} {st : St} (h : Inv env st) (he : st.atEnd = true)
    (hv : st.visible = []) : st.rest env = [] := by
  rw [← h.visible_atEnd he]; exact hv

/-- post-condition of the `if (position_ == position_end_) { Shift(); … }` idiom -/
def FrontPost (env : Env) (st : St) : Front → Prop
  | .byte c st' => Inv env st' ∧ st'.offset = st.offset ∧ (∃ t, st'.visible = c :: t) ∧ ∃ r, st.rest env = c :: r
  | .endSeen st' => Inv env st' ∧ st'.offset = st.offset ∧ st.rest env = [] ∧ st'.atEnd = true
  | .eofExc st' => st' = st ∧ st.rest env = [] ∧ st.atEnd = true

theorem front_spec {env : Env} {st : St} (hfix : ShiftFixed env) (h : Inv env st) :
    FrontPost env st (front env st) := by
  unfold front
  cases hv : st.visible with
  | cons c t =>
    exact ⟨h, rfl, ⟨t, hv⟩, h.rest_cons hv⟩
  | nil =>
    dsimp only
    cases he : st.atEnd with
    | true =>
      rw [shift_atEnd he]
      exact ⟨rfl, h.rest_nil_of_atEnd he hv, he⟩
    | false =>
      obtain ⟨st', hs, hp⟩ := shift_post hfix h he
      rw [hs]
      dsimp only
      cases hv' : st'.visible with
      | nil =>
        dsimp only
        have hae : st'.atEnd = true := by
          rcases hp.nonempty_or_end with hc | hc
          · exact absurd hv' hc
          · exact hc
        refine ⟨hp.inv, hp.offset_eq, ?_, hae⟩
        rw [← rest_of_offset_eq hp.offset_eq]
        exact hp.inv.rest_nil_of_atEnd hae hv'
      | cons c t =>
        dsimp only
        refine ⟨hp.inv, hp.offset_eq, ⟨t, hv'⟩, ?_⟩
        rw [← rest_of_offset_eq hp.offset_eq]
        exact hp.inv.rest_cons hv'

/-! ### peek / get -/

theorem peek_spec {env : Env} {st : St} (hfix : ShiftFixed env) (hfixI : env.cfg.fixI = true) (h : Inv env st) :
    (peek env st).1 = (match st.rest env with | [] => Res.eof | c :: _ => Res.char c) ∧
    (peek env st).2.offset = st.offset ∧ Inv env (peek env st).2 ∧
    (∀ c, (peek env st).1 = Res.char c → ∃ t, (peek env st).2.visible = c :: t) := by
  unfold peek
  simp only [hfixI, ↓reduceIte]
  have hf := front_spec hfix h
  cases hfr : front env st with
  | byte c st' =>
    rw [hfr] at hf
    obtain ⟨hi, ho, hv, r, hr⟩ := hf
    rw [hr]
    refine ⟨rfl, ho, hi, ?_⟩
    intro c' hc
    simp only [Res.char.injEq] at hc
    subst hc; exact hv
  | endSeen st' =>
    rw [hfr] at hf
    obtain ⟨hi, ho, hr, _⟩ := hf
    rw [hr]
    exact ⟨rfl, ho, hi, by intro c hc; cases hc⟩
  | eofExc st' =>
    rw [hfr] at hf
    obtain ⟨rfl, hr, _⟩ := hf
    rw [hr]
    exact ⟨rfl, rfl, h, by intro c hc; cases hc⟩

theorem get_spec {env : Env} {st : St} (hfix : ShiftFixed env) (hfixI : env.cfg.fixI = true) (h : Inv env st) :
    (get env st).1 = (match st.rest env with | [] => Res.eof | c :: _ => Res.char c) ∧
    (get env st).2.offset = st.offset + (match st.rest env with | [] => 0 | _ :: _ => 1) ∧ Inv env (get env st).2 := by
  obtain ⟨h1, h2, h3, h4⟩ := peek_spec hfix hfixI h
  unfold get
  cases hr : st.rest env with
  | nil =>
    rw [hr] at h1
    dsimp only at h1
    have : peek env st = (Res.eof, (peek env st).2) := by rw [← h1]
    rw [this]
    exact ⟨rfl, h2, h3⟩
  | cons c r =>
    rw [hr] at h1
    dsimp only at h1
    have hp : peek env st = (Res.char c, (peek env st).2) := by rw [← h1]
    obtain ⟨t, ht⟩ := h4 c h1
    rw [hp]
    refine ⟨rfl, ?_, ?_⟩
    · show ({ (peek env st).2 with pos := (peek env st).2.pos + 1 } : St).offset = _
      rw [offset_advance, h2]
    · exact h3.advance 1 (by rw [ht]; simp)

/-! ### SkipSpaces -/

theorem skipSpaces_spec {env : Env} (hfix : ShiftFixed env) (d : Byte → Bool) :
    ∀ (f : Nat) (st : St), Inv env st → (st.rest env).length < f →
      let out := skipSpaces env d f st
      (out.1 = Res.skipped ∨ (out.1 = Res.eof ∧ (st.rest env).dropWhile d = [])) ∧
      out.2.offset = st.offset + ((st.rest env).takeWhile d).length ∧ Inv env out.2 := by
  intro f
  induction f with
  | zero => intro st _ hl; omega
  | succ f ih =>
    intro st h hl
    simp only [skipSpaces]
    have hf := front_spec hfix h
    cases hfr : front env st with
    | byte c st' =>
      rw [hfr] at hf
      obtain ⟨hi, ho, ⟨t, hv⟩, r, hr⟩ := hf
      simp only
      by_cases hd : d c
      · simp only [hd, ↓reduceIte]
        have hi' := hi.advance 1 (by rw [hv]; simp)
        have hrest' : ({ st' with pos := st'.pos + 1 } : St).rest env = r := by
          rw [rest_advance, rest_of_offset_eq ho, hr]; simp
        have := ih _ hi' (by rw [hrest']; rw [hr] at hl; simp at hl; omega)
        simp only at this
        rw [hrest'] at this
        obtain ⟨a, b, c'⟩ := this
        refine ⟨?_, ?_, c'⟩
        · rcases a with a | ⟨a1, a2⟩
          · left; exact a
          · right; refine ⟨a1, ?_⟩; rw [hr]; simp [List.dropWhile, hd, a2]
        · rw [b, offset_advance, ho, hr]; simp [List.takeWhile, hd]; omega
      · simp only [hd, Bool.false_eq_true, ↓reduceIte]
        refine ⟨Or.inl trivial, ?_, hi⟩
        rw [ho, hr]; simp [List.takeWhile, hd]
    | endSeen st' =>
      rw [hfr] at hf
      obtain ⟨hi, ho, hr, _⟩ := hf
      simp only
      refine ⟨Or.inl trivial, ?_, hi⟩
      rw [ho, hr]; simp
    | eofExc st' =>
      rw [hfr] at hf
      obtain ⟨rfl, hr, _⟩ := hf
      simp only
      refine ⟨Or.inr ⟨trivial, by rw [hr]; rfl⟩, ?_, h⟩
      rw [hr]; simp


/-! ### scanning for a delimiter across Shifts (ReadLine, FindDelimiterOrEOF) -/

theorem Inv.visible_prefix {env : Env} {st : St} (h : Inv env st) :
    ∃ m, st.rest env = st.visible ++ m := by
  refine ⟨(st.rest env).drop (st.win.length - st.pos), ?_⟩
  rw [h.visible_eq, List.take_append_drop]

/-- bytes already scanned without a hit stay scanned after a Shift (the new window shows the same bytes at the
same offsets, possibly fewer of them after a fall back from mmap to read) -/
theorem no_hit_after_shift {env : Env} {st st' : St} (h : Inv env st) (hp : ShiftPost env st st')
    {p : Byte → Bool} (hn : idxOf p st.visible = none) : idxOf p (st'.visible.take st.visible.length) = none := by
  rw [visible_common h hp.inv hp.offset_eq]
  exact idxOf_take_none _ hn

theorem scan_hit {env : Env} {st : St} (h : Inv env st) {p : Byte → Bool} {skip i : Nat}
    (hn : idxOf p (st.visible.take skip) = none)
    (hi : idxFrom p st.visible skip = some i) :
    idxOf p (st.rest env) = some i ∧ i < st.visible.length ∧ st.visible.take (i + 1) = (st.rest env).take (i + 1) := by
  rw [idxFrom_eq_idxOf' hn] at hi
  have hlt := idxOf_some_lt hi
  have hv := h.visible_eq
  refine ⟨?_, hlt, ?_⟩
  · rw [hv] at hi; exact idxOf_take_some hi
  · rw [hv, List.take_take]
    rw [h.visible_length] at hlt
    congr 1; omega

theorem scan_miss {st : St} {p : Byte → Bool} {skip : Nat}
    (hn : idxOf p (st.visible.take skip) = none)
    (hi : idxFrom p st.visible skip = none) : idxOf p st.visible = none := by
  rw [idxFrom_eq_idxOf' hn] at hi; exact hi

/-- what FindDelimiterOrEOF returns, in terms of the whole remaining input -/
def FindPost (env : Env) (st : St) (p : Byte → Bool) : Except Err (Nat × St) → Prop
  | .error e => e = .eof ∧ st.rest env = []
  | .ok (n, st') => Inv env st' ∧ st'.offset = st.offset ∧ n ≤ st'.visible.length ∧
      st'.visible.take n = (st.rest env).take n ∧ st.rest env ≠ [] ∧
      n = (match idxOf p (st.rest env) with | some i => i | none => (st.rest env).length)

theorem findDelimiterOrEOF_spec {env : Env} (hfix : ShiftFixed env) (p : Byte → Bool) :
    ∀ (f : Nat) (skip : Nat) (st : St), Inv env st → mu env st < f →
      idxOf p (st.visible.take skip) = none →
      FindPost env st p (findDelimiterOrEOF env p f skip st) := by
  intro f
  induction f with
  | zero => intro skip st _ hm; omega
  | succ f ih =>
    intro skip st h hmu hn
    simp only [findDelimiterOrEOF]
    cases hi : idxFrom p st.visible skip with
    | some i =>
      obtain ⟨a, b, c⟩ := scan_hit h hn hi
      dsimp only
      refine ⟨h, rfl, by omega, ?_, ?_, by rw [a]⟩
      · have := congrArg (List.take i) c
        rw [List.take_take, List.take_take] at this
        rw [Nat.min_eq_left (by omega)] at this
        exact this
      · intro hc; rw [hc] at a; simp [idxOf] at a
    | none =>
      have hnone := scan_miss hn hi
      dsimp only
      cases he : st.atEnd with
      | true =>
        have hv := h.visible_atEnd he
        simp only [↓reduceIte]
        cases hvis : st.visible with
        | nil => exact ⟨rfl, by rw [← hv]; exact hvis⟩
        | cons c t =>
          dsimp only
          rw [← hvis]
          refine ⟨h, rfl, Nat.le_refl _, by rw [hv], ?_, ?_⟩
          · rw [← hv, hvis]; simp
          · rw [← hv, hnone]
      | false =>
        simp only [Bool.false_eq_true, ↓reduceIte]
        obtain ⟨st', hsh, hp⟩ := shift_post hfix h he
        rw [hsh]
        dsimp only
        have := ih st.visible.length st' hp.inv (by have := hp.mu_lt; omega) (no_hit_after_shift h hp hnone)
        cases hres : findDelimiterOrEOF env p f st.visible.length st' with
        | error e =>
          rw [hres] at this
          simp only [FindPost] at this ⊢
          rw [rest_of_offset_eq hp.offset_eq] at this
          exact this
        | ok r =>
          obtain ⟨n, st''⟩ := r
          rw [hres] at this
          simp only [FindPost] at this ⊢
          rw [rest_of_offset_eq hp.offset_eq] at this
          obtain ⟨a, b, c, d, e, g⟩ := this
          exact ⟨a, by rw [b, hp.offset_eq], c, d, e, g⟩


/-! ### ReadLine -/

theorem specOp_readLine (G : NumKind → Grammar) (d : Byte) (s : Bool) (rest : List Byte) :
    specOp G (.readLine d s) rest =
      if rest = [] then (Res.eof, 0)
      else match idxOf (· == d) rest with
        | none => (Res.bytes rest, rest.length)
        | some i => (Res.bytes (rest.take (i - (if s && decide (i > 0) && (rest.getD (i - 1) 0 == 13) then 1 else 0))), i + 1) := by
  cases rest with
  | nil => rfl
  | cons a r => rw [if_neg (by simp)]; rfl

theorem getD_of_take_eq {l m : List Byte} {n j : Nat} (h : l.take n = m.take n) (hj : j < n) :
    l.getD j 0 = m.getD j 0 := by
  have := congrArg (fun x => x[j]?) h
  simp only [List.getElem?_take, hj, ↓reduceIte] at this
  simp [List.getD_eq_getElem?_getD, this]

theorem take_of_take_eq {l m : List Byte} {n j : Nat} (h : l.take n = m.take n) (hj : j ≤ n) :
    l.take j = m.take j := by
  have := congrArg (List.take j) h
  rwa [List.take_take, List.take_take, Nat.min_eq_left hj] at this

theorem readLine_spec {env : Env} (hfix : ShiftFixed env) (G : NumKind → Grammar) (d : Byte) (s : Bool) :
    ∀ (f : Nat) (skip : Nat) (st : St), Inv env st → mu env st < f →
      idxOf (· == d) (st.visible.take skip) = none →
      (readLine env d s f skip st).1 = (specOp G (.readLine d s) (st.rest env)).1 ∧
      (readLine env d s f skip st).2.offset = st.offset + (specOp G (.readLine d s) (st.rest env)).2 ∧
      Inv env (readLine env d s f skip st).2 := by
  intro f
  induction f with
  | zero => intro skip st _ hm; omega
  | succ f ih =>
    intro skip st h hmu hn
    rw [specOp_readLine]
    simp only [readLine]
    cases hi : idxFrom (· == d) st.visible skip with
    | some i =>
      obtain ⟨a, b, c⟩ := scan_hit h hn hi
      have hne : st.rest env ≠ [] := by intro hc; rw [hc] at a; simp [idxOf] at a
      rw [if_neg hne, a]
      dsimp only
      have hg : st.visible.getD (i - 1) 0 = (st.rest env).getD (i - 1) 0 := getD_of_take_eq c (by omega)
      rw [hg]
      refine ⟨?_, ?_, ?_⟩
      · congr 1
        exact take_of_take_eq c (by omega)
      · show ({ st with pos := st.pos + (i + 1) } : St).offset = _
        rw [offset_advance]
      · exact h.advance (i + 1) (by omega)
    | none =>
      have hnone := scan_miss hn hi
      dsimp only
      cases he : st.atEnd with
      | true =>
        have hv := h.visible_atEnd he
        simp only [↓reduceIte]
        cases hvis : st.visible with
        | nil =>
          have : st.rest env = [] := by rw [← hv]; exact hvis
          rw [if_pos this]
          exact ⟨rfl, rfl, h⟩
        | cons c t =>
          have hne : st.rest env ≠ [] := by rw [← hv, hvis]; simp
          rw [if_neg hne, ← hv, hnone]
          dsimp only [consume]
          rw [← hvis]
          refine ⟨by simp, ?_, ?_⟩
          · show ({ st with pos := st.pos + st.visible.length } : St).offset = _
            rw [offset_advance]
          · exact h.advance _ (Nat.le_refl _)
      | false =>
        simp only [Bool.false_eq_true, ↓reduceIte]
        obtain ⟨st', hsh, hp⟩ := shift_post hfix h he
        rw [hsh]
        dsimp only
        have := ih st.visible.length st' hp.inv (by have := hp.mu_lt; omega) (no_hit_after_shift h hp hnone)
        rw [specOp_readLine, rest_of_offset_eq hp.offset_eq, hp.offset_eq] at this
        exact this


/-! ### ReadDelimited -/

theorem drop_takeWhile_length (p : Byte → Bool) (l : List Byte) :
    l.drop (l.takeWhile p).length = l.dropWhile p := by
  induction l with
  | nil => rfl
  | cons a l ih =>
    by_cases h : p a
    · simp [List.takeWhile, List.dropWhile, h, ih]
    · simp [List.takeWhile, List.dropWhile, h]

theorem specOp_readDelimited (G : NumKind → Grammar) (d : Byte → Bool) (rest : List Byte) :
    specOp G (.readDelimited d) rest =
      if rest.dropWhile d = [] then (Res.eof, (rest.takeWhile d).length)
      else (Res.bytes ((rest.dropWhile d).takeWhile (fun b => !d b)),
            (rest.takeWhile d).length + ((rest.dropWhile d).takeWhile (fun b => !d b)).length) := by
  simp only [specOp, drop_takeWhile_length]
  cases rest.dropWhile d with
  | nil => rfl
  | cons a r => rw [if_neg (by simp)]

/-- the word found by FindDelimiterOrEOF is the spec's `takeWhile (not delimiter)` -/
theorem found_is_takeWhile {p : Byte → Bool} {l : List Byte} {n : Nat}
    (hn : n = (match idxOf p l with | some i => i | none => l.length)) :
    l.takeWhile (fun b => !p b) = l.take n ∧ n ≤ l.length := by
  cases h : idxOf p l with
  | some i =>
    rw [h] at hn; subst hn
    exact ⟨idxOf_some_takeWhile h, Nat.le_of_lt (idxOf_some_lt h)⟩
  | none =>
    rw [h] at hn; subst hn
    exact ⟨by rw [idxOf_none_takeWhile h, List.take_length], Nat.le_refl _⟩

theorem find_consume {env : Env} (hfix : ShiftFixed env) (d : Byte → Bool) (f : Nat) (st1 : St)
    (h1 : Inv env st1) (hmu : mu env st1 < f) :
    let out : Res × St := match findDelimiterOrEOF env d f 0 st1 with
      | .error .eof => (Res.eof, st1)
      | .error .fuel => (Res.fuel, st1)
      | .ok (n, st2) => let (b, st3) := consume st2 n; (Res.bytes b, st3)
    (if st1.rest env = [] then out.1 = Res.eof ∧ out.2.offset = st1.offset
     else out.1 = Res.bytes ((st1.rest env).takeWhile (fun b => !d b)) ∧
          out.2.offset = st1.offset + ((st1.rest env).takeWhile (fun b => !d b)).length) ∧ Inv env out.2 := by
  have hf := findDelimiterOrEOF_spec hfix d f 0 st1 h1 hmu (by simp [idxOf])
  cases hres : findDelimiterOrEOF env d f 0 st1 with
  | error e =>
    rw [hres] at hf
    obtain ⟨rfl, hr⟩ := hf
    dsimp only
    rw [if_pos hr]
    exact ⟨⟨rfl, rfl⟩, h1⟩
  | ok r =>
    obtain ⟨n, st2⟩ := r
    rw [hres] at hf
    obtain ⟨a, b, c, e, g, hn⟩ := hf
    dsimp only [consume]
    rw [if_neg g]
    obtain ⟨t1, t2⟩ := found_is_takeWhile hn
    refine ⟨⟨?_, ?_⟩, a.advance n c⟩
    · rw [e, t1]
    · show ({ st2 with pos := st2.pos + n } : St).offset = _
      rw [offset_advance, b, t1, List.length_take, Nat.min_eq_left t2]

theorem readDelimited_spec {env : Env} (hfix : ShiftFixed env) (G : NumKind → Grammar) (d : Byte → Bool)
    (f : Nat) (st : St) (h : Inv env st) (hf : 2 * env.bytes.length + 3 < f) :
    (readDelimited env d f st).1 = (specOp G (.readDelimited d) (st.rest env)).1 ∧
    (readDelimited env d f st).2.offset = st.offset + (specOp G (.readDelimited d) (st.rest env)).2 ∧
    Inv env (readDelimited env d f st).2 := by
  have hrl : (st.rest env).length < f := by rw [h.rest_length]; omega
  have hs := skipSpaces_spec hfix d f st h hrl
  simp only at hs
  obtain ⟨h1, h2, h3⟩ := hs
  rw [specOp_readDelimited]
  unfold readDelimited
  generalize hout : skipSpaces env d f st = out at h1 h2 h3
  obtain ⟨r, st1⟩ := out
  simp only at h1 h2 h3
  rcases h1 with h1 | ⟨h1, h1'⟩
  · subst h1
    dsimp only
    have hr1 : st1.rest env = (st.rest env).dropWhile d := by
      simp only [St.rest, h2, ← List.drop_drop]
      exact drop_takeWhile_length d _
    have := find_consume hfix d f st1 h3 (by have := mu_le env st1; omega)
    simp only at this
    rw [hr1] at this
    obtain ⟨t1, t2⟩ := this
    by_cases hc : (st.rest env).dropWhile d = []
    · rw [if_pos hc] at t1 ⊢
      exact ⟨t1.1, Eq.trans t1.2 (by rw [h2]), t2⟩
    · rw [if_neg hc] at t1 ⊢
      exact ⟨t1.1, Eq.trans t1.2 (by rw [h2]; simp only; omega), t2⟩
  · subst h1
    rw [if_pos h1']
    exact ⟨rfl, h2, h3⟩


/-! ### ReadWordSameLine -/

def sameLineSpace (d : Byte → Bool) (b : Byte) : Bool := d b && b != 10

theorem specOp_readWordSameLine (G : NumKind → Grammar) (d : Byte → Bool) (rest : List Byte) :
    specOp G (.readWordSameLine d) rest =
      match rest.dropWhile (sameLineSpace d) with
      | [] => (Res.noWord, (rest.takeWhile (sameLineSpace d)).length)
      | c :: r => if d c then (Res.noWord, (rest.takeWhile (sameLineSpace d)).length)
                  else (Res.bytes ((c :: r).takeWhile (fun b => !d b)),
                        (rest.takeWhile (sameLineSpace d)).length + ((c :: r).takeWhile (fun b => !d b)).length) := by
  simp only [specOp]
  show (match rest.drop (rest.takeWhile (sameLineSpace d)).length with
        | [] => _ | c :: r => _) = _
  rw [drop_takeWhile_length]
  rfl

theorem wordSkip_spec {env : Env} (hfix : ShiftFixed env) (d : Byte → Bool) :
    ∀ (f : Nat) (st : St), Inv env st → (st.rest env).length < f →
      let out := wordSkip env d f st
      out.2.offset = st.offset + ((st.rest env).takeWhile (sameLineSpace d)).length ∧ Inv env out.2 ∧
      out.2.rest env = (st.rest env).dropWhile (sameLineSpace d) ∧
      (match (st.rest env).dropWhile (sameLineSpace d) with
       | [] => out.1 = Res.noWord
       | c :: _ => if d c then out.1 = Res.noWord else out.1 = Res.skipped) := by
  intro f
  induction f with
  | zero => intro st _ hl; omega
  | succ f ih =>
    intro st h hl
    simp only [wordSkip]
    have hf := front_spec hfix h
    cases hfr : front env st with
    | byte c st' =>
      rw [hfr] at hf
      obtain ⟨hi, ho, ⟨t, hv⟩, r, hr⟩ := hf
      dsimp only
      by_cases hd : d c
      · by_cases hnl : c = 10
        · subst hnl
          have hsl : sameLineSpace d 10 = false := by simp [sameLineSpace]
          simp only [hd, Bool.not_true, Bool.false_eq_true, ↓reduceIte, beq_self_eq_true]
          rw [hr]
          simp only [List.takeWhile, List.dropWhile, hsl]
          refine ⟨by simpa using ho, hi, by rw [rest_of_offset_eq ho, hr], ?_⟩
          simp [hd]
        · have hsl : sameLineSpace d c = true := by simp [sameLineSpace, hd, hnl]
          have hne : (c == 10) = false := by simp [hnl]
          simp only [hd, Bool.not_true, Bool.false_eq_true, ↓reduceIte, hne]
          have hi' := hi.advance 1 (by rw [hv]; simp)
          have hrest' : ({ st' with pos := st'.pos + 1 } : St).rest env = r := by
            rw [rest_advance, rest_of_offset_eq ho, hr]; simp
          have := ih _ hi' (by rw [hrest']; rw [hr] at hl; simp at hl; omega)
          simp only at this
          rw [hrest'] at this
          obtain ⟨a, b, c', e⟩ := this
          rw [hr]
          simp only [List.takeWhile, List.dropWhile, hsl]
          refine ⟨?_, b, c', e⟩
          rw [a, offset_advance, ho]; simp; omega
      · have hsl : sameLineSpace d c = false := by simp [sameLineSpace, hd]
        simp only [hd, Bool.not_false, ↓reduceIte]
        rw [hr]
        simp only [List.takeWhile, List.dropWhile, hsl]
        refine ⟨by simpa using ho, hi, by rw [rest_of_offset_eq ho, hr], ?_⟩
        simp [hd]
    | endSeen st' =>
      rw [hfr] at hf
      obtain ⟨hi, ho, hr, _⟩ := hf
      dsimp only
      rw [hr]
      exact ⟨by simpa using ho, hi, by rw [rest_of_offset_eq ho, hr]; rfl, rfl⟩
    | eofExc st' =>
      rw [hfr] at hf
      obtain ⟨rfl, hr, _⟩ := hf
      dsimp only
      rw [hr]
      exact ⟨by simp, h, rfl, rfl⟩

theorem readWordSameLine_spec {env : Env} (hfix : ShiftFixed env) (G : NumKind → Grammar) (d : Byte → Bool)
    (f : Nat) (st : St) (h : Inv env st) (hf : 2 * env.bytes.length + 3 < f) :
    (readWordSameLine env d f st).1 = (specOp G (.readWordSameLine d) (st.rest env)).1 ∧
    (readWordSameLine env d f st).2.offset = st.offset + (specOp G (.readWordSameLine d) (st.rest env)).2 ∧
    Inv env (readWordSameLine env d f st).2 := by
  have hrl : (st.rest env).length < f := by rw [h.rest_length]; omega
  have hs := wordSkip_spec hfix d f st h hrl
  simp only at hs
  obtain ⟨h1, h2, h3, h4⟩ := hs
  rw [specOp_readWordSameLine]
  unfold readWordSameLine
  generalize hout : wordSkip env d f st = out at h1 h2 h3 h4
  obtain ⟨r, st1⟩ := out
  simp only at h1 h2 h3 h4
  cases hdw : (st.rest env).dropWhile (sameLineSpace d) with
  | nil =>
    rw [hdw] at h4
    dsimp only at h4 ⊢
    subst h4
    exact ⟨rfl, h1, h2⟩
  | cons c t =>
    rw [hdw] at h4
    dsimp only at h4 ⊢
    by_cases hd : d c
    · rw [if_pos hd] at h4 ⊢
      subst h4
      exact ⟨rfl, h1, h2⟩
    · rw [if_neg hd] at h4 ⊢
      subst h4
      dsimp only
      have := find_consume hfix d f st1 h2 (by have := mu_le env st1; omega)
      simp only at this
      rw [h3, hdw, if_neg (by simp)] at this
      obtain ⟨t1, t2⟩ := this
      exact ⟨t1.1, Eq.trans t1.2 (by rw [h1]; omega), t2⟩


/-! ### ReadNumber: "wait until a space follows the number inside the window, or hallucinate the
terminator at EOF" -/

/-- What the theorems assume about the number grammar (strtol, strtoul, double-conversion behind kenlm's
`ParseNumber`), for tokens satisfying `Good`: it never consumes more than it was given, its result depends only
on the bytes before the first space, and the empty string is an error. -/
structure GrammarOKOn (Good : List Byte → Prop) (P : Grammar) : Prop where
  count_le : ∀ s v c, P s = some (v, c) → c ≤ s.length
  prefix_det : ∀ tok sp junk, tok ≠ [] → (∀ b ∈ tok, isSpace b = false) → isSpace sp = true → Good tok →
    P (tok ++ sp :: junk) = P tok
  empty : P [] = none

/-- the same for every token -/
abbrev GrammarOK (P : Grammar) : Prop := GrammarOKOn (fun _ => True) P

/-- the token a number read will look at: after the spaces, up to the next space -/
def tokenAt (rest : List Byte) : List Byte := (rest.dropWhile isSpace).takeWhile (fun b => !isSpace b)

theorem idxOf_of_hit {p : Byte → Bool} {l : List Byte} {j : Nat} (hj : j < l.length)
    (hp : p (l.getD j 0) = true) : ∃ i, idxOf p l = some i ∧ i ≤ j := by
  induction l generalizing j with
  | nil => simp at hj
  | cons a l ih =>
    simp only [idxOf]
    by_cases ha : p a
    · exact ⟨0, by simp [ha], Nat.zero_le _⟩
    · cases j with
      | zero => simp at hp; exact absurd hp ha
      | succ j =>
        simp only [List.getD_eq_getElem?_getD, List.getElem?_cons_succ] at hp
        obtain ⟨i, hi, hle⟩ := ih (j := j) (by simpa using hj) (by simpa [List.getD_eq_getElem?_getD] using hp)
        exact ⟨i + 1, by simp [ha, hi], by omega⟩

theorem idxOf_take_of_lt {p : Byte → Bool} {l : List Byte} {i j : Nat} (h : idxOf p l = some i) (hij : i < j) :
    idxOf p (l.take j) = some i := by
  induction l generalizing i j with
  | nil => simp [idxOf] at h
  | cons a l ih =>
    cases j with
    | zero => omega
    | succ j =>
      simp only [idxOf, List.take_succ_cons] at h ⊢
      by_cases ha : p a
      · simpa [ha] using h
      · simp [ha] at h ⊢
        obtain ⟨k, hk, rfl⟩ := h
        exact ⟨k, ih hk (by omega), rfl⟩

theorem take_split_at (l : List Byte) {i j : Nat} (hij : i < j) (hj : j ≤ l.length) :
    l.take j = l.take i ++ l.getD i 0 :: (l.take j).drop (i + 1) := by
  have h1 : l.take j = (l.take j).take i ++ (l.take j).drop i := (List.take_append_drop i _).symm
  have h2 : (l.take j).take i = l.take i := by rw [List.take_take, Nat.min_eq_left (by omega)]
  have hlen : i < (l.take j).length := by simp [List.length_take]; omega
  have h3 : (l.take j).drop i = (l.take j)[i] :: (l.take j).drop (i + 1) := List.drop_eq_getElem_cons hlen
  have h4 : (l.take j)[i] = l.getD i 0 := by
    rw [List.getD_eq_getElem?_getD, List.getElem_take]
    have : i < l.length := by omega
    simp [this]
  conv => lhs; rw [h1, h2, h3, h4]

theorem numLoop_spec {env : Env} (hfix : ShiftFixed env) (P : Grammar) (Good : List Byte → Prop)
    (hP : GrammarOKOn Good P) :
    ∀ (f : Nat) (st : St), Inv env st → mu env st < f →
      (∀ c t, st.rest env = c :: t → isSpace c = false) →
      ((st.rest env).takeWhile (fun b => !isSpace b) ≠ [] → Good ((st.rest env).takeWhile (fun b => !isSpace b))) →
      let out := numLoop env P f st
      let tok := (st.rest env).takeWhile (fun b => !isSpace b)
      (match P tok with
       | none => out.1 = Res.parseErr tok ∧ out.2.offset = st.offset
       | some (v, cnt) => out.1 = Res.num v ∧ out.2.offset = st.offset + cnt) ∧ Inv env out.2 := by
  intro f
  induction f with
  | zero => intro st _ hm; omega
  | succ f ih =>
    intro st h hmu hhead hgood
    simp only [numLoop]
    by_cases hls : st.ls1 ≤ st.pos
    · rw [if_pos hls]
      -- no space in the window after position_
      have hns : ∀ b ∈ st.visible, isSpace b = false := by
        rcases h.ls with ⟨_, a⟩ | ⟨a, _⟩
        · exact a
        · omega
      cases he : st.atEnd with
      | true =>
        simp only [↓reduceIte]
        have hv := h.visible_atEnd he
        have hnone : idxOf isSpace st.visible = none := idxOf_none_iff.mpr hns
        have htok : (st.rest env).takeWhile (fun b => !isSpace b) = st.visible := by
          rw [← hv]; exact idxOf_none_takeWhile hnone
        rw [htok]
        unfold applyParse
        have hft : firstToken st.visible = st.visible := idxOf_none_takeWhile hnone
        cases hp : P st.visible with
        | none => dsimp only; rw [hft]; exact ⟨⟨rfl, rfl⟩, h⟩
        | some r =>
          obtain ⟨v, cnt⟩ := r
          dsimp only
          refine ⟨⟨rfl, ?_⟩, h.advance cnt (hP.count_le _ _ _ hp)⟩
          show ({ st with pos := st.pos + cnt } : St).offset = _
          rw [offset_advance]
      | false =>
        simp only [Bool.false_eq_true, ↓reduceIte]
        obtain ⟨st', hsh, hp⟩ := shift_post hfix h he
        rw [hsh]
        dsimp only
        have := ih st' hp.inv (by have := hp.mu_lt; omega)
          (by rw [rest_of_offset_eq hp.offset_eq]; exact hhead)
          (by rw [rest_of_offset_eq hp.offset_eq]; exact hgood)
        simp only at this
        rw [rest_of_offset_eq hp.offset_eq, hp.offset_eq] at this
        exact this
    · rw [if_neg hls]
      obtain ⟨hl1, hl2, hl3, _⟩ : st.pos < st.ls1 ∧ st.ls1 ≤ st.win.length ∧
          isSpace (st.win.getD (st.ls1 - 1) 0) = true ∧ ∀ b ∈ st.win.drop st.ls1, isSpace b = false := by
        rcases h.ls with ⟨a, _⟩ | a
        · omega
        · exact a
      generalize hj : st.ls1 - 1 - st.pos = j
      have hjlt : j < st.visible.length := by rw [h.visible_length]; omega
      have hsp : isSpace (st.visible.getD j 0) = true := by
        have : st.visible.getD j 0 = st.win.getD (st.ls1 - 1) 0 := by
          simp only [St.visible, List.getD_eq_getElem?_getD, List.getElem?_drop]
          congr 2; omega
        rw [this]; exact hl3
      obtain ⟨i, hi, hij⟩ := idxOf_of_hit hjlt hsp
      obtain ⟨hi1, hi2⟩ := idxOf_some_spec hi
      have hilt := idxOf_some_lt hi
      have hirest : idxOf isSpace (st.rest env) = some i := by
        have := hi; rw [h.visible_eq] at this; exact idxOf_take_some this
      have htok : (st.rest env).takeWhile (fun b => !isSpace b) = st.visible.take i := by
        rw [idxOf_some_takeWhile hirest, h.visible_eq, List.take_take]
        rw [h.visible_length] at hilt
        congr 1; omega
      have htokns : ∀ b ∈ st.visible.take i, isSpace b = false := idxOf_none_iff.mp hi1
      rw [htok] at hgood
      rw [htok]
      -- the string handed to ParseNumber parses like the token alone
      have hstr : P (st.visible.take j) = P (st.visible.take i) ∧
          firstToken (st.visible.take j) = st.visible.take i := by
        by_cases hc : i = j
        · subst hc
          exact ⟨rfl, idxOf_none_takeWhile hi1⟩
        · have hlt : i < j := by omega
          constructor
          · rw [take_split_at st.visible hlt (by omega)]
            have hne : st.visible.take i ≠ [] := ?hne
            exact hP.prefix_det _ _ _ hne htokns hi2 (hgood hne)
            -- the token is not empty: `position_` is at a non-space (after SkipSpaces)
            intro hempty
            have hi0 : i = 0 := by
              have := congrArg List.length hempty
              simp only [List.length_take, List.length_nil] at this
              omega
            subst hi0
            cases hvis : st.visible with
            | nil => rw [hvis] at hjlt; simp at hjlt
            | cons c t =>
              obtain ⟨r, hr⟩ := h.rest_cons hvis
              have := hhead c r hr
              rw [hvis] at hi2
              simp at hi2
              rw [this] at hi2
              exact absurd hi2 (by decide)
          · unfold firstToken
            rw [idxOf_some_takeWhile (idxOf_take_of_lt hi hlt), List.take_take, Nat.min_eq_left (by omega)]
      unfold applyParse
      rw [hstr.1, hstr.2]
      cases hp : P (st.visible.take i) with
      | none => dsimp only; exact ⟨⟨rfl, rfl⟩, h⟩
      | some r =>
        obtain ⟨v, cnt⟩ := r
        dsimp only
        have hc := hP.count_le _ _ _ hp
        rw [List.length_take] at hc
        refine ⟨⟨rfl, ?_⟩, h.advance cnt (by omega)⟩
        show ({ st with pos := st.pos + cnt } : St).offset = _
        rw [offset_advance]

theorem specOp_readNumber (G : NumKind → Grammar) (k : NumKind) (rest : List Byte) :
    specOp G (.readNumber k) rest =
      if rest.dropWhile isSpace = [] then (Res.eof, (rest.takeWhile isSpace).length)
      else match G k ((rest.dropWhile isSpace).takeWhile (fun b => !isSpace b)) with
        | none => (Res.parseErr ((rest.dropWhile isSpace).takeWhile (fun b => !isSpace b)), (rest.takeWhile isSpace).length)
        | some (v, cnt) => (Res.num v, (rest.takeWhile isSpace).length + cnt) := by
  simp only [specOp, drop_takeWhile_length]
  cases rest.dropWhile isSpace with
  | nil => rfl
  | cons a r => rw [if_neg (by simp)]; rfl

theorem dropWhile_head {p : Byte → Bool} {l : List Byte} {c : Byte} {t : List Byte}
    (h : l.dropWhile p = c :: t) : p c = false := by
  induction l with
  | nil => simp at h
  | cons a l ih =>
    by_cases ha : p a
    · simp [List.dropWhile, ha] at h; exact ih h
    · simp [List.dropWhile, ha] at h; rw [← h.1]; simpa using ha

theorem readNumber_spec {env : Env} (hfix : ShiftFixed env) (G : NumKind → Grammar) (k : NumKind)
    (Good : List Byte → Prop) (hP : GrammarOKOn Good (G k)) (f : Nat) (st : St) (h : Inv env st)
    (hf : 2 * env.bytes.length + 3 < f) (hgood : tokenAt (st.rest env) ≠ [] → Good (tokenAt (st.rest env))) :
    canon (.readNumber k) (readNumber env (G k) f st).1 = (specOp G (.readNumber k) (st.rest env)).1 ∧
    (readNumber env (G k) f st).2.offset = st.offset + (specOp G (.readNumber k) (st.rest env)).2 ∧
    Inv env (readNumber env (G k) f st).2 := by
  have hrl : (st.rest env).length < f := by rw [h.rest_length]; omega
  have hs := skipSpaces_spec hfix isSpace f st h hrl
  simp only at hs
  obtain ⟨h1, h2, h3⟩ := hs
  rw [specOp_readNumber]
  unfold readNumber
  generalize hout : skipSpaces env isSpace f st = out at h1 h2 h3
  obtain ⟨r, st1⟩ := out
  simp only at h1 h2 h3
  rcases h1 with h1 | ⟨h1, h1'⟩
  · subst h1
    dsimp only
    have hr1 : st1.rest env = (st.rest env).dropWhile isSpace := by
      simp only [St.rest, h2, ← List.drop_drop]
      exact drop_takeWhile_length isSpace _
    have := numLoop_spec hfix (G k) Good hP f st1 h3 (by have := mu_le env st1; omega)
      (by intro c t hc; rw [hr1] at hc; exact dropWhile_head hc)
      (by rw [hr1]; exact hgood)
    simp only at this
    rw [hr1] at this
    obtain ⟨t1, t2⟩ := this
    by_cases hc : (st.rest env).dropWhile isSpace = []
    · rw [if_pos hc]
      rw [hc] at t1
      simp only [List.takeWhile, hP.empty] at t1
      refine ⟨?_, by rw [t1.2, h2], t2⟩
      rw [t1.1]; rfl
    · rw [if_neg hc]
      cases hp : G k ((st.rest env).dropWhile isSpace |>.takeWhile (fun b => !isSpace b)) with
      | none =>
        rw [hp] at t1
        dsimp only at t1 ⊢
        refine ⟨?_, by rw [t1.2, h2], t2⟩
        rw [t1.1]
        -- a non-empty token: canon leaves the parse error alone
        cases hd : (st.rest env).dropWhile isSpace with
        | nil => exact absurd hd hc
        | cons c t =>
          have := dropWhile_head hd
          simp [List.takeWhile, this, canon]
      | some r =>
        obtain ⟨v, cnt⟩ := r
        rw [hp] at t1
        dsimp only at t1 ⊢
        refine ⟨by rw [t1.1]; rfl, by rw [t1.2, h2]; omega, t2⟩
  · subst h1
    rw [if_pos h1']
    exact ⟨rfl, h2, h3⟩

end KV.FilePiece
