import Proofs.FilePieceShift
/-! Every reading operation of the window model returns what the whole-string spec returns. -/
namespace KV.FilePiece

theorem rest_of_offset_eq {env : Env} {st st' : St} (h : st'.offset = st.offset) :
    st'.rest env = st.rest env := by simp [St.rest, h]

theorem rest_advance (env : Env) (st : St) (n : Nat) :
    ({ st with pos := st.pos + n } : St).rest env = (st.rest env).drop n := by
  simp only [St.rest, offset_advance, List.drop_drop]

theorem mu_le (env : Env) (st : St) : mu env st ≤ env.bytes.length + 1 := by
  unfold mu; split <;> omega

theorem Inv.rest_cons {env : Env} {st : St} (h : Inv env st) {c : Byte} {t : List Byte}
    (hv : st.visible = c :: t) : ∃ r, st.rest env = c :: r := by
  have := h.visible_eq
  rw [hv] at this
  cases hr : st.rest env with
  | nil => rw [hr] at this; simp at this
  | cons a r =>
    rw [hr] at this
    cases hk : st.win.length - st.pos with
    | zero => rw [hk] at this; simp at this
    | succ k => rw [hk] at this; simp at this; exact ⟨r, by rw [this.1]⟩

theorem Inv.rest_nil_of_atEnd {env : Env} {st : St} (h : Inv env st) (he : st.atEnd = true)
    (hv : st.visible = []) : st.rest env = [] := by
  rw [← h.visible_atEnd he]; exact hv

/-- post-condition of the `if (position_ == position_end_) { Shift(); … }` idiom -/
def FrontPost (env : Env) (st : St) : Front → Prop
  | .byte c st' => Inv env st' ∧ st'.offset = st.offset ∧ (∃ t, st'.visible = c :: t) ∧ ∃ r, st.rest env = c :: r
  | .endSeen st' => Inv env st' ∧ st'.offset = st.offset ∧ st.rest env = [] ∧ st'.atEnd = true
  | .eofExc st' => st' = st ∧ st.rest env = [] ∧ st.atEnd = true

theorem front_spec {env : Env} {st : St} (hfix : env.cfg.fixH = true) (h : Inv env st) :
    FrontPost env st (front env st) := by
  unfold front
  cases hv : st.visible with
  | cons c t =>
    exact ⟨h, rfl, ⟨t, hv⟩, h.rest_cons hv⟩
  | nil =>
    dsimp only
    cases he : st.atEnd with
    | true =>
      rw [shift_atEnd he]
      exact ⟨rfl, h.rest_nil_of_atEnd he hv, he⟩
    | false =>
      obtain ⟨st', hs, hp⟩ := shift_post hfix h he
      rw [hs]
      dsimp only
      cases hv' : st'.visible with
      | nil =>
        dsimp only
        have hae : st'.atEnd = true := by
          rcases hp.nonempty_or_end with hc | hc
          · exact absurd hv' hc
          · exact hc
        refine ⟨hp.inv, hp.offset_eq, ?_, hae⟩
        rw [← rest_of_offset_eq hp.offset_eq]
        exact hp.inv.rest_nil_of_atEnd hae hv'
      | cons c t =>
        dsimp only
        refine ⟨hp.inv, hp.offset_eq, ⟨t, hv'⟩, ?_⟩
        rw [← rest_of_offset_eq hp.offset_eq]
        exact hp.inv.rest_cons hv'

/-! ### peek / get -/

theorem peek_spec {env : Env} {st : St} (hfix : env.cfg.fixH = true) (hfixI : env.cfg.fixI = true) (h : Inv env st) :
    (peek env st).1 = (match st.rest env with | [] => Res.eof | c :: _ => Res.char c) ∧
    (peek env st).2.offset = st.offset ∧ Inv env (peek env st).2 ∧
    (∀ c, (peek env st).1 = Res.char c → ∃ t, (peek env st).2.visible = c :: t) := by
  unfold peek
  simp only [hfixI, ↓reduceIte]
  have hf := front_spec hfix h
  cases hfr : front env st with
  | byte c st' =>
    rw [hfr] at hf
    obtain ⟨hi, ho, hv, r, hr⟩ := hf
    rw [hr]
    refine ⟨rfl, ho, hi, ?_⟩
    intro c' hc
    simp only [Res.char.injEq] at hc
    subst hc; exact hv
  | endSeen st' =>
    rw [hfr] at hf
    obtain ⟨hi, ho, hr, _⟩ := hf
    rw [hr]
    exact ⟨rfl, ho, hi, by intro c hc; cases hc⟩
  | eofExc st' =>
    rw [hfr] at hf
    obtain ⟨rfl, hr, _⟩ := hf
    rw [hr]
    exact ⟨rfl, rfl, h, by intro c hc; cases hc⟩

theorem get_spec {env : Env} {st : St} (hfix : env.cfg.fixH = true) (hfixI : env.cfg.fixI = true) (h : Inv env st) :
    (get env st).1 = (match st.rest env with | [] => Res.eof | c :: _ => Res.char c) ∧
    (get env st).2.offset = st.offset + (match st.rest env with | [] => 0 | _ :: _ => 1) ∧ Inv env (get env st).2 := by
  obtain ⟨h1, h2, h3, h4⟩ := peek_spec hfix hfixI h
  unfold get
  cases hr : st.rest env with
  | nil =>
    rw [hr] at h1
    dsimp only at h1
    have : peek env st = (Res.eof, (peek env st).2) := by rw [← h1]
    rw [this]
    exact ⟨rfl, h2, h3⟩
  | cons c r =>
    rw [hr] at h1
    dsimp only at h1
    have hp : peek env st = (Res.char c, (peek env st).2) := by rw [← h1]
    obtain ⟨t, ht⟩ := h4 c h1
    rw [hp]
    refine ⟨rfl, ?_, ?_⟩
    · show ({ (peek env st).2 with pos := (peek env st).2.pos + 1 } : St).offset = _
      rw [offset_advance, h2]
    · exact h3.advance 1 (by rw [ht]; simp)

/-! ### SkipSpaces -/

theorem skipSpaces_spec {env : Env} (hfix : env.cfg.fixH = true) (d : Byte → Bool) :
    ∀ (f : Nat) (st : St), Inv env st → (st.rest env).length < f →
      let out := skipSpaces env d f st
      (out.1 = Res.skipped ∨ (out.1 = Res.eof ∧ (st.rest env).dropWhile d = [])) ∧
      out.2.offset = st.offset + ((st.rest env).takeWhile d).length ∧ Inv env out.2 := by
  intro f
  induction f with
  | zero => intro st _ hl; omega
  | succ f ih =>
    intro st h hl
    simp only [skipSpaces]
    have hf := front_spec hfix h
    cases hfr : front env st with
    | byte c st' =>
      rw [hfr] at hf
      obtain ⟨hi, ho, ⟨t, hv⟩, r, hr⟩ := hf
      simp only
      by_cases hd : d c
      · simp only [hd, ↓reduceIte]
        have hi' := hi.advance 1 (by rw [hv]; simp)
        have hrest' : ({ st' with pos := st'.pos + 1 } : St).rest env = r := by
          rw [rest_advance, rest_of_offset_eq ho, hr]; simp
        have := ih _ hi' (by rw [hrest']; rw [hr] at hl; simp at hl; omega)
        simp only at this
        rw [hrest'] at this
        obtain ⟨a, b, c'⟩ := this
        refine ⟨?_, ?_, c'⟩
        · rcases a with a | ⟨a1, a2⟩
          · left; exact a
          · right; refine ⟨a1, ?_⟩; rw [hr]; simp [List.dropWhile, hd, a2]
        · rw [b, offset_advance, ho, hr]; simp [List.takeWhile, hd]; omega
      · simp only [hd, Bool.false_eq_true, ↓reduceIte]
        refine ⟨Or.inl trivial, ?_, hi⟩
        rw [ho, hr]; simp [List.takeWhile, hd]
    | endSeen st' =>
      rw [hfr] at hf
      obtain ⟨hi, ho, hr, _⟩ := hf
      simp only
      refine ⟨Or.inl trivial, ?_, hi⟩
      rw [ho, hr]; simp
    | eofExc st' =>
      rw [hfr] at hf
      obtain ⟨rfl, hr, _⟩ := hf
      simp only
      refine ⟨Or.inr ⟨trivial, by rw [hr]; rfl⟩, ?_, h⟩
      rw [hr]; simp


/-! ### scanning for a delimiter across Shifts (ReadLine, FindDelimiterOrEOF) -/

theorem Inv.visible_prefix {env : Env} {st : St} (h : Inv env st) :
    ∃ m, st.rest env = st.visible ++ m := by
  refine ⟨(st.rest env).drop (st.win.length - st.pos), ?_⟩
  rw [h.visible_eq, List.take_append_drop]

/-- the bytes already scanned stay where they are after a Shift -/
theorem visible_take_after_shift {env : Env} {st st' : St} (h : Inv env st) (hp : ShiftPost env st st') :
    st'.visible.take st.visible.length = st.visible := by
  obtain ⟨m, hm⟩ := h.visible_prefix
  have h1 := hp.vis_le
  rw [hp.inv.visible_length] at h1
  rw [hp.inv.visible_eq, rest_of_offset_eq hp.offset_eq, List.take_take, Nat.min_eq_left h1, hm]
  exact List.take_left

theorem scan_hit {env : Env} {st : St} (h : Inv env st) {p : Byte → Bool} {skip i : Nat}
    (hs : skip ≤ st.visible.length) (hn : idxOf p (st.visible.take skip) = none)
    (hi : idxFrom p st.visible skip = some i) :
    idxOf p (st.rest env) = some i ∧ i < st.visible.length ∧ st.visible.take (i + 1) = (st.rest env).take (i + 1) := by
  rw [idxFrom_eq_idxOf hn hs] at hi
  have hlt := idxOf_some_lt hi
  have hv := h.visible_eq
  refine ⟨?_, hlt, ?_⟩
  · rw [hv] at hi; exact idxOf_take_some hi
  · rw [hv, List.take_take]
    rw [h.visible_length] at hlt
    congr 1; omega

theorem scan_miss {st : St} {p : Byte → Bool} {skip : Nat}
    (hs : skip ≤ st.visible.length) (hn : idxOf p (st.visible.take skip) = none)
    (hi : idxFrom p st.visible skip = none) : idxOf p st.visible = none := by
  rw [idxFrom_eq_idxOf hn hs] at hi; exact hi

/-- what FindDelimiterOrEOF returns, in terms of the whole remaining input -/
def FindPost (env : Env) (st : St) (p : Byte → Bool) : Except Err (Nat × St) → Prop
  | .error e => e = .eof ∧ st.rest env = []
  | .ok (n, st') => Inv env st' ∧ st'.offset = st.offset ∧ n ≤ st'.visible.length ∧
      st'.visible.take n = (st.rest env).take n ∧ st.rest env ≠ [] ∧
      n = (match idxOf p (st.rest env) with | some i => i | none => (st.rest env).length)

theorem findDelimiterOrEOF_spec {env : Env} (hfix : env.cfg.fixH = true) (p : Byte → Bool) :
    ∀ (f : Nat) (skip : Nat) (st : St), Inv env st → mu env st < f → skip ≤ st.visible.length →
      idxOf p (st.visible.take skip) = none →
      FindPost env st p (findDelimiterOrEOF env p f skip st) := by
  intro f
  induction f with
  | zero => intro skip st _ hm; omega
  | succ f ih =>
    intro skip st h hmu hs hn
    simp only [findDelimiterOrEOF]
    cases hi : idxFrom p st.visible skip with
    | some i =>
      obtain ⟨a, b, c⟩ := scan_hit h hs hn hi
      dsimp only
      refine ⟨h, rfl, by omega, ?_, ?_, by rw [a]⟩
      · have := congrArg (List.take i) c
        rw [List.take_take, List.take_take] at this
        rw [Nat.min_eq_left (by omega)] at this
        exact this
      · intro hc; rw [hc] at a; simp [idxOf] at a
    | none =>
      have hnone := scan_miss hs hn hi
      dsimp only
      cases he : st.atEnd with
      | true =>
        have hv := h.visible_atEnd he
        simp only [↓reduceIte]
        cases hvis : st.visible with
        | nil => exact ⟨rfl, by rw [← hv]; exact hvis⟩
        | cons c t =>
          dsimp only
          rw [← hvis]
          refine ⟨h, rfl, Nat.le_refl _, by rw [hv], ?_, ?_⟩
          · rw [← hv, hvis]; simp
          · rw [← hv, hnone]
      | false =>
        simp only [Bool.false_eq_true, ↓reduceIte]
        obtain ⟨st', hsh, hp⟩ := shift_post hfix h he
        rw [hsh]
        dsimp only
        have htk := visible_take_after_shift h hp
        have := ih st.visible.length st' hp.inv (by have := hp.mu_lt; omega) hp.vis_le (by rw [htk]; exact hnone)
        cases hres : findDelimiterOrEOF env p f st.visible.length st' with
        | error e =>
          rw [hres] at this
          simp only [FindPost] at this ⊢
          rw [rest_of_offset_eq hp.offset_eq] at this
          exact this
        | ok r =>
          obtain ⟨n, st''⟩ := r
          rw [hres] at this
          simp only [FindPost] at this ⊢
          rw [rest_of_offset_eq hp.offset_eq] at this
          obtain ⟨a, b, c, d, e, g⟩ := this
          exact ⟨a, by rw [b, hp.offset_eq], c, d, e, g⟩


/-! ### ReadLine -/

theorem specOp_readLine (G : NumKind → Grammar) (d : Byte) (s : Bool) (rest : List Byte) :
    specOp G (.readLine d s) rest =
      if rest = [] then (Res.eof, 0)
      else match idxOf (· == d) rest with
        | none => (Res.bytes rest, rest.length)
        | some i => (Res.bytes (rest.take (i - (if s && decide (i > 0) && (rest.getD (i - 1) 0 == 13) then 1 else 0))), i + 1) := by
  cases rest with
  | nil => rfl
  | cons a r => rw [if_neg (by simp)]; rfl

theorem getD_of_take_eq {l m : List Byte} {n j : Nat} (h : l.take n = m.take n) (hj : j < n) :
    l.getD j 0 = m.getD j 0 := by
  have := congrArg (fun x => x[j]?) h
  simp only [List.getElem?_take, hj, ↓reduceIte] at this
  simp [List.getD_eq_getElem?_getD, this]

theorem take_of_take_eq {l m : List Byte} {n j : Nat} (h : l.take n = m.take n) (hj : j ≤ n) :
    l.take j = m.take j := by
  have := congrArg (List.take j) h
  rwa [List.take_take, List.take_take, Nat.min_eq_left hj] at this

theorem readLine_spec {env : Env} (hfix : env.cfg.fixH = true) (G : NumKind → Grammar) (d : Byte) (s : Bool) :
    ∀ (f : Nat) (skip : Nat) (st : St), Inv env st → mu env st < f → skip ≤ st.visible.length →
      idxOf (· == d) (st.visible.take skip) = none →
      (readLine env d s f skip st).1 = (specOp G (.readLine d s) (st.rest env)).1 ∧
      (readLine env d s f skip st).2.offset = st.offset + (specOp G (.readLine d s) (st.rest env)).2 ∧
      Inv env (readLine env d s f skip st).2 := by
  intro f
  induction f with
  | zero => intro skip st _ hm; omega
  | succ f ih =>
    intro skip st h hmu hs hn
    rw [specOp_readLine]
    simp only [readLine]
    cases hi : idxFrom (· == d) st.visible skip with
    | some i =>
      obtain ⟨a, b, c⟩ := scan_hit h hs hn hi
      have hne : st.rest env ≠ [] := by intro hc; rw [hc] at a; simp [idxOf] at a
      rw [if_neg hne, a]
      dsimp only
      have hg : st.visible.getD (i - 1) 0 = (st.rest env).getD (i - 1) 0 := getD_of_take_eq c (by omega)
      rw [hg]
      refine ⟨?_, ?_, ?_⟩
      · congr 1
        exact take_of_take_eq c (by omega)
      · show ({ st with pos := st.pos + (i + 1) } : St).offset = _
        rw [offset_advance]
      · exact h.advance (i + 1) (by omega)
    | none =>
      have hnone := scan_miss hs hn hi
      dsimp only
      cases he : st.atEnd with
      | true =>
        have hv := h.visible_atEnd he
        simp only [↓reduceIte]
        cases hvis : st.visible with
        | nil =>
          have : st.rest env = [] := by rw [← hv]; exact hvis
          rw [if_pos this]
          exact ⟨rfl, rfl, h⟩
        | cons c t =>
          have hne : st.rest env ≠ [] := by rw [← hv, hvis]; simp
          rw [if_neg hne, ← hv, hnone]
          dsimp only [consume]
          rw [← hvis]
          refine ⟨by simp, ?_, ?_⟩
          · show ({ st with pos := st.pos + st.visible.length } : St).offset = _
            rw [offset_advance]
          · exact h.advance _ (Nat.le_refl _)
      | false =>
        simp only [Bool.false_eq_true, ↓reduceIte]
        obtain ⟨st', hsh, hp⟩ := shift_post hfix h he
        rw [hsh]
        dsimp only
        have htk := visible_take_after_shift h hp
        have := ih st.visible.length st' hp.inv (by have := hp.mu_lt; omega) hp.vis_le (by rw [htk]; exact hnone)
        rw [specOp_readLine, rest_of_offset_eq hp.offset_eq, hp.offset_eq] at this
        exact this


/-! ### ReadDelimited -/

theorem drop_takeWhile_length (p : Byte → Bool) (l : List Byte) :
    l.drop (l.takeWhile p).length = l.dropWhile p := by
  induction l with
  | nil => rfl
  | cons a l ih =>
    by_cases h : p a
    · simp [List.takeWhile, List.dropWhile, h, ih]
    · simp [List.takeWhile, List.dropWhile, h]

theorem specOp_readDelimited (G : NumKind → Grammar) (d : Byte → Bool) (rest : List Byte) :
    specOp G (.readDelimited d) rest =
      if rest.dropWhile d = [] then (Res.eof, (rest.takeWhile d).length)
      else (Res.bytes ((rest.dropWhile d).takeWhile (fun b => !d b)),
            (rest.takeWhile d).length + ((rest.dropWhile d).takeWhile (fun b => !d b)).length) := by
  simp only [specOp, drop_takeWhile_length]
  cases rest.dropWhile d with
  | nil => rfl
  | cons a r => rw [if_neg (by simp)]

/-- the word found by FindDelimiterOrEOF is the spec's `takeWhile (not delimiter)` -/
theorem found_is_takeWhile {p : Byte → Bool} {l : List Byte} {n : Nat}
    (hn : n = (match idxOf p l with | some i => i | none => l.length)) :
    l.takeWhile (fun b => !p b) = l.take n ∧ n ≤ l.length := by
  cases h : idxOf p l with
  | some i =>
    rw [h] at hn; subst hn
    exact ⟨idxOf_some_takeWhile h, Nat.le_of_lt (idxOf_some_lt h)⟩
  | none =>
    rw [h] at hn; subst hn
    exact ⟨by rw [idxOf_none_takeWhile h, List.take_length], Nat.le_refl _⟩

theorem find_consume {env : Env} (hfix : env.cfg.fixH = true) (d : Byte → Bool) (f : Nat) (st1 : St)
    (h1 : Inv env st1) (hmu : mu env st1 < f) :
    let out : Res × St := match findDelimiterOrEOF env d f 0 st1 with
      | .error .eof => (Res.eof, st1)
      | .error .fuel => (Res.fuel, st1)
      | .ok (n, st2) => let (b, st3) := consume st2 n; (Res.bytes b, st3)
    (if st1.rest env = [] then out.1 = Res.eof ∧ out.2.offset = st1.offset
     else out.1 = Res.bytes ((st1.rest env).takeWhile (fun b => !d b)) ∧
          out.2.offset = st1.offset + ((st1.rest env).takeWhile (fun b => !d b)).length) ∧ Inv env out.2 := by
  have hf := findDelimiterOrEOF_spec hfix d f 0 st1 h1 hmu (Nat.zero_le _) (by simp [idxOf])
  cases hres : findDelimiterOrEOF env d f 0 st1 with
  | error e =>
    rw [hres] at hf
    obtain ⟨rfl, hr⟩ := hf
    dsimp only
    rw [if_pos hr]
    exact ⟨⟨rfl, rfl⟩, h1⟩
  | ok r =>
    obtain ⟨n, st2⟩ := r
    rw [hres] at hf
    obtain ⟨a, b, c, e, g, hn⟩ := hf
    dsimp only [consume]
    rw [if_neg g]
    obtain ⟨t1, t2⟩ := found_is_takeWhile hn
    refine ⟨⟨?_, ?_⟩, a.advance n c⟩
    · rw [e, t1]
    · show ({ st2 with pos := st2.pos + n } : St).offset = _
      rw [offset_advance, b, t1, List.length_take, Nat.min_eq_left t2]

theorem readDelimited_spec {env : Env} (hfix : env.cfg.fixH = true) (G : NumKind → Grammar) (d : Byte → Bool)
    (f : Nat) (st : St) (h : Inv env st) (hf : env.bytes.length + 1 < f) :
    (readDelimited env d f st).1 = (specOp G (.readDelimited d) (st.rest env)).1 ∧
    (readDelimited env d f st).2.offset = st.offset + (specOp G (.readDelimited d) (st.rest env)).2 ∧
    Inv env (readDelimited env d f st).2 := by
  have hrl : (st.rest env).length < f := by rw [h.rest_length]; omega
  have hs := skipSpaces_spec hfix d f st h hrl
  simp only at hs
  obtain ⟨h1, h2, h3⟩ := hs
  rw [specOp_readDelimited]
  unfold readDelimited
  generalize hout : skipSpaces env d f st = out at h1 h2 h3
  obtain ⟨r, st1⟩ := out
  simp only at h1 h2 h3
  rcases h1 with h1 | ⟨h1, h1'⟩
  · subst h1
    dsimp only
    have hr1 : st1.rest env = (st.rest env).dropWhile d := by
      simp only [St.rest, h2, ← List.drop_drop]
      exact drop_takeWhile_length d _
    have := find_consume hfix d f st1 h3 (by have := mu_le env st1; omega)
    simp only at this
    rw [hr1] at this
    obtain ⟨t1, t2⟩ := this
    by_cases hc : (st.rest env).dropWhile d = []
    · rw [if_pos hc] at t1 ⊢
      exact ⟨t1.1, Eq.trans t1.2 (by rw [h2]), t2⟩
    · rw [if_neg hc] at t1 ⊢
      exact ⟨t1.1, Eq.trans t1.2 (by rw [h2]; simp only; omega), t2⟩
  · subst h1
    rw [if_pos h1']
    exact ⟨rfl, h2, h3⟩

end KV.FilePiece
