import Proofs.ProbingDouble3
import Proofs.ProbingRun
/-!
`AutoProbing`: with a threshold function `θ` such that `θ N ≤ N - 1` and `N ≤ θ (2 N)` every
script refines the plain map — no capacity exception, no divergence, across any number of doublings.
-/
namespace KV.Probing

structure ThetaOK (θ : Nat → Nat) : Prop where
  le : ∀ N, 0 < N → θ N ≤ N - 1
  grow : ∀ N, 0 < N → N ≤ θ (2 * N)

/-- the threshold the code uses satisfies both conditions -/
theorem thetaReal_ok : ThetaOK thetaReal := by
  constructor
  · intro N _; unfold thetaReal; omega
  · intro N hN; unfold thetaReal; omega

structure AInv (h : Nat → Nat) (θ : Nat → Nat) (a : Auto) : Prop where
  inv : Inv h a.t
  thr : a.thr = θ a.t.N
  le : a.t.entries ≤ a.thr

/-- `DoubleIfNeeded` on a backend whose `entries_` may just have been incremented -/
theorem doubleIfNeeded_spec (h : Nat → Nat) (θ : Nat → Nat) (a : Auto) (M : Nat → Option Nat)
    (inv : Inv h a.t) (hthr : a.thr = θ a.t.N) (abs : Abs a.t M) :
    ∃ a2, doubleIfNeeded h θ a = some a2 ∧ Inv h a2.t ∧ Abs a2.t M ∧ a2.thr = θ a2.t.N ∧
      a2.t.entries = a.t.entries ∧ occ a2.t.s a2.t.N = occ a.t.s a.t.N ∧
      ((a2.t.N = a.t.N ∧ a.t.entries < a.thr) ∨ (a2.t.N = 2 * a.t.N ∧ a.thr ≤ a.t.entries)) := by
  by_cases hc : a.t.entries < a.thr
  · exact ⟨a, by simp [doubleIfNeeded, hc], inv, abs, hthr, rfl, rfl, Or.inl ⟨rfl, hc⟩⟩
  · obtain ⟨t', hd, inv', abs', hN', hE', hocc'⟩ := double_preserves' h a.t M inv abs
    exact ⟨{ t := t', thr := θ t'.N }, by simp [doubleIfNeeded, hc, hd], inv', abs', rfl, hE', hocc',
      Or.inr ⟨hN', by omega⟩⟩

theorem auto_insert_spec (h : Nat → Nat) (θ : Nat → Nat) (hθ : ThetaOK θ) (a : Auto)
    (M : Nat → Option Nat) (k v : Nat) (ai : AInv h θ a) (abs : Abs a.t M) (hM : M k = none) :
    ∃ q a', a.insert h θ k v = some (q, a') ∧ AInv h θ a' ∧ Abs a'.t (upd M k v) ∧
      a'.t.s q = some (k, v) ∧ a'.t.entries = a.t.entries + 1 := by
  obtain ⟨inv, hthr, hle⟩ := ai
  have hpos := inv.wf.pos
  have hcnt := inv.cnt
  have h1 := hθ.le a.t.N hpos
  have h2 := hθ.grow a.t.N hpos
  obtain ⟨a2, hd, inv2, abs2, hthr2, hE2, hocc2, hcase⟩ :=
    doubleIfNeeded_spec h θ { a with t := { a.t with entries := a.t.entries + 1 } } M
      (Inv_bump h a.t inv) hthr abs
  have hE2' : a2.t.entries = a.t.entries + 1 := hE2
  have hocc2' : occ a2.t.s a2.t.N = occ a.t.s a.t.N := hocc2
  have hroom : occ a2.t.s a2.t.N + 1 < a2.t.N ∧ a2.t.entries ≤ a2.thr := by
    rcases hcase with ⟨hN, hlt⟩ | ⟨hN, hge⟩
    · have hN' : a2.t.N = a.t.N := hN
      have hlt' : a.t.entries + 1 < a.thr := hlt
      have : a2.thr = a.thr := by rw [hthr2, hN', hthr]
      omega
    · have hN' : a2.t.N = 2 * a.t.N := hN
      have : a2.thr = θ (2 * a.t.N) := by rw [hthr2, hN']
      omega
  obtain ⟨q, t', hu, inv', abs', hN', hE', _, hs', _⟩ :=
    uncheckedInsert_spec h a2.t M k v inv2.wf hroom.1 (by omega) abs2 hM
  refine ⟨q, { a2 with t := t' }, ?_, ⟨inv', ?_, ?_⟩, abs', hs', ?_⟩
  · simp [Auto.insert, hd, hu]
  · show a2.thr = θ t'.N; rw [hN']; exact hthr2
  · show t'.entries ≤ a2.thr; omega
  · show t'.entries = a.t.entries + 1; omega

theorem auto_findOrInsert_spec (h : Nat → Nat) (θ : Nat → Nat) (hθ : ThetaOK θ) (a : Auto)
    (M : Nat → Option Nat) (k v : Nat) (ai : AInv h θ a) (abs : Abs a.t M) :
    (∀ v', M k = some v' → ∃ p a', a.findOrInsert h θ k v = .ok (true, p, v', a') ∧ AInv h θ a' ∧
        Abs a'.t M ∧ a'.t.s p = some (k, v') ∧ a'.t.entries = a.t.entries) ∧
    (M k = none → ∃ p a', a.findOrInsert h θ k v = .ok (false, p, v, a') ∧ AInv h θ a' ∧
        Abs a'.t (upd M k v) ∧ a'.t.s p = some (k, v) ∧ a'.t.entries = a.t.entries + 1) := by
  obtain ⟨inv, hthr, hle⟩ := ai
  have hpos := inv.wf.pos
  have h1 := hθ.le a.t.N hpos
  have h2 := hθ.grow a.t.N hpos
  obtain ⟨a2, hd, inv2, abs2, hthr2, hE2, hocc2, hcase⟩ := doubleIfNeeded_spec h θ a M inv hthr abs
  have hroom : a2.t.entries + 1 < a2.t.N ∧ a2.t.entries + 1 ≤ a2.thr := by
    rcases hcase with ⟨hN, hlt⟩ | ⟨hN, hge⟩
    · have : a2.thr = a.thr := by rw [hthr2, hN, hthr]
      omega
    · have : a2.thr = θ (2 * a.t.N) := by rw [hthr2, hN]
      omega
  constructor
  · intro v' hM
    obtain ⟨p, hf, _, hs⟩ := findOrInsert_found h a2.t M k v v' inv2 abs2 hM
    exact ⟨p, a2, by simp [Auto.findOrInsert, hd, hf], ⟨inv2, hthr2, by omega⟩, abs2, hs, hE2⟩
  · intro hM
    obtain ⟨p, t', hf, inv', abs', hN', hE', _, hs⟩ :=
      findOrInsert_new h a2.t M k v inv2 abs2 hM hroom.1
    refine ⟨p, { a2 with t := t' }, by simp [Auto.findOrInsert, hd, hf], ⟨inv', ?_, ?_⟩, abs', hs, ?_⟩
    · show a2.thr = θ t'.N; rw [hN']; exact hthr2
    · show t'.entries ≤ a2.thr; omega
    · show t'.entries = a.t.entries + 1; omega

/-- the `AutoProbing` state `a` represents the map `M` -/
structure ARef (h : Nat → Nat) (θ : Nat → Nat) (a : Auto) (M : Nat → Option Nat) : Prop where
  ai : AInv h θ a
  abs : Abs a.t M

theorem stepA_refines (h : Nat → Nat) (θ : Nat → Nat) (hθ : ThetaOK θ) (a : Auto) (M : Nat → Option Nat)
    (op : Op) (o : Out) (M' : Nat → Option Nat) (r : ARef h θ a M) (hs : stepMap M op = some (o, M')) :
    ∃ a', stepA h θ a op = some (o, a') ∧ ARef h θ a' M' := by
  obtain ⟨ai, abs⟩ := r
  cases op with
  | insert k v =>
    cases hM : M k with
    | some w => simp [stepMap, hM] at hs
    | none =>
      simp [stepMap, hM] at hs
      obtain ⟨rfl, rfl⟩ := hs
      obtain ⟨q, a', hi, ai', abs', _, _⟩ := auto_insert_spec h θ hθ a M k v ai abs hM
      exact ⟨a', by simp [stepA, hi], ai', abs'⟩
  | findOrInsert k v =>
    obtain ⟨hfound, hnew⟩ := auto_findOrInsert_spec h θ hθ a M k v ai abs
    cases hM : M k with
    | some w =>
      simp [stepMap, hM] at hs
      obtain ⟨rfl, rfl⟩ := hs
      obtain ⟨p, a', hf, ai', abs', _⟩ := hfound w hM
      exact ⟨a', by simp [stepA, hf], ai', abs'⟩
    | none =>
      simp [stepMap, hM] at hs
      obtain ⟨rfl, rfl⟩ := hs
      obtain ⟨p, a', hf, ai', abs', _⟩ := hnew hM
      exact ⟨a', by simp [stepA, hf], ai', abs'⟩
  | find k =>
    simp [stepMap] at hs
    obtain ⟨rfl, rfl⟩ := hs
    exact ⟨a, by simp [stepA, Auto.find, find_correct' h a.t M ai.inv abs k], ai, abs⟩

theorem runA_refines (h : Nat → Nat) (θ : Nat → Nat) (hθ : ThetaOK θ) :
    ∀ (ops : List Op) (a : Auto) (M : Nat → Option Nat) (outs : List Out) (M' : Nat → Option Nat),
    ARef h θ a M → runMap M ops = some (outs, M') →
    ∃ a', runA h θ a ops = some (outs, a') ∧ ARef h θ a' M' := by
  intro ops
  induction ops with
  | nil =>
    intro a M outs M' r hs
    simp [runMap] at hs
    obtain ⟨rfl, rfl⟩ := hs
    exact ⟨a, rfl, r⟩
  | cons op ops ih =>
    intro a M outs M' r hs
    cases h1 : stepMap M op with
    | none => simp [runMap, h1] at hs
    | some r1 =>
      obtain ⟨o, M1⟩ := r1
      cases h2 : runMap M1 ops with
      | none => simp [runMap, h1, h2] at hs
      | some r2 =>
        obtain ⟨os, M2⟩ := r2
        simp [runMap, h1, h2] at hs
        obtain ⟨rfl, rfl⟩ := hs
        obtain ⟨a1, ha1, r1'⟩ := stepA_refines h θ hθ a M op o M1 r h1
        obtain ⟨a2, ha2, r2'⟩ := ih a1 M1 os M2 r1' h2
        exact ⟨a2, by simp [runA, ha1, ha2], r2'⟩

/-- a freshly constructed `AutoProbing` (any bucket count ≥ 1, all buckets invalid) is the empty map -/
theorem auto_init (h : Nat → Nat) (θ : Nat → Nat) (N : Nat) (hN : 0 < N) :
    ARef h θ { t := emptyTable N, thr := θ N } (fun _ => none) :=
  ⟨⟨Inv_empty h N hN, rfl, Nat.zero_le _⟩, Abs_empty N⟩

end KV.Probing
