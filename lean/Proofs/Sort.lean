import Model.Sort
/-! Helper lemmas for C16 (external sort). Core Lean only. -/
namespace KV.Sort

/-! ### strict weak orders -/

theorem StrictWeak.asymm {α : Type} {lt : α → α → Bool} (h : StrictWeak lt) (a b : α) :
    lt a b = true → lt b a = false := by
  intro hab
  cases hba : lt b a with
  | false => rfl
  | true =>
    have := h.trans a b a hab hba
    rw [h.irrefl] at this
    cases this

/-- negative transitivity: `le` is transitive -/
theorem StrictWeak.le_trans {α : Type} {lt : α → α → Bool} (h : StrictWeak lt) (a b c : α) :
    le lt a b = true → le lt b c = true → le lt a c = true := by
  unfold le
  intro hab hbc
  simp only [Bool.not_eq_true'] at *
  -- hab : lt b a = false, hbc : lt c b = false, goal lt c a = false
  cases hca : lt c a with
  | false => rfl
  | true =>
    cases h1 : lt a b with
    | true =>
      have := h.trans c a b hca h1
      rw [hbc] at this; cases this
    | false =>
      cases h2 : lt b c with
      | true =>
        have := h.trans b c a h2 hca
        rw [hab] at this; cases this
      | false =>
        have := (h.incompTrans a b c h1 hab h2 hbc).2
        rw [hca] at this; cases this

theorem StrictWeak.le_total {α : Type} {lt : α → α → Bool} (h : StrictWeak lt) (a b : α) :
    (le lt a b || le lt b a) = true := by
  unfold le
  cases hab : lt a b with
  | false => simp
  | true => simp [h.asymm a b hab]

theorem StrictWeak.le_refl {α : Type} {lt : α → α → Bool} (h : StrictWeak lt) (a : α) :
    le lt a a = true := by simp [le, h.irrefl]

/-- a strict weak order pulled back along any function -/
theorem StrictWeak.comap {α β : Type} {lt : β → β → Bool} (h : StrictWeak lt) (f : α → β) :
    StrictWeak (fun a b => lt (f a) (f b)) :=
  ⟨fun _ => h.irrefl _, fun _ _ _ => h.trans _ _ _, fun _ _ _ => h.incompTrans _ _ _⟩

/-- a strict order with trichotomy is a strict weak order -/
theorem StrictWeak.ofTotal {α : Type} {lt : α → α → Bool}
    (irrefl : ∀ a, lt a a = false)
    (trans : ∀ a b c, lt a b = true → lt b c = true → lt a c = true)
    (tri : ∀ a b, lt a b = false → lt b a = false → a = b) : StrictWeak lt :=
  ⟨irrefl, trans, fun a b c h1 h2 h3 h4 => by
    have := tri a b h1 h2; subst this; exact ⟨h3, h4⟩⟩

/-! ### lexLt -/

theorem lexLt_irrefl : ∀ a, lexLt a a = false
  | [] => rfl
  | x :: xs => by simp [lexLt, lexLt_irrefl xs]

theorem lexLt_trans : ∀ a b c, lexLt a b = true → lexLt b c = true → lexLt a c = true
  | [], [], _, h, _ => by simp [lexLt] at h
  | [], _ :: _, [], _, h => by simp [lexLt] at h
  | [], _ :: _, _ :: _, _, _ => by simp [lexLt]
  | _ :: _, [], _, h, _ => by simp [lexLt] at h
  | _ :: _, _ :: _, [], _, h => by simp [lexLt] at h
  | x :: xs, y :: ys, z :: zs, h1, h2 => by
    simp only [lexLt] at *
    by_cases hxy : x = y
    · subst hxy
      by_cases hxz : x = z
      · subst hxz
        simp only [ne_eq, not_true_eq_false, ↓reduceIte] at *
        exact lexLt_trans xs ys zs h1 h2
      · simp only [ne_eq, not_true_eq_false, ↓reduceIte, hxz, not_false_eq_true] at *
        exact h2
    · by_cases hyz : y = z
      · subst hyz
        simp only [ne_eq, hxy, not_false_eq_true, ↓reduceIte] at *
        exact h1
      · simp only [ne_eq, hxy, not_false_eq_true, ↓reduceIte, hyz, decide_eq_true_eq] at *
        have : x ≠ z := by omega
        simp only [this, not_false_eq_true, ↓reduceIte, decide_eq_true_eq]
        omega

theorem lexLt_tri : ∀ a b, lexLt a b = false → lexLt b a = false → a = b
  | [], [], _, _ => rfl
  | [], _ :: _, h, _ => by simp [lexLt] at h
  | _ :: _, [], _, h => by simp [lexLt] at h
  | x :: xs, y :: ys, h1, h2 => by
    simp only [lexLt] at *
    by_cases hxy : x = y
    · subst hxy
      simp only [ne_eq, not_true_eq_false, ↓reduceIte] at *
      rw [lexLt_tri xs ys h1 h2]
    · have hyx : ¬ y = x := fun h => hxy h.symm
      simp only [ne_eq, hxy, hyx, not_false_eq_true, ↓reduceIte, decide_eq_false_iff_not] at h1 h2
      exfalso; omega

theorem lexLt_strictWeak : StrictWeak lexLt :=
  StrictWeak.ofTotal lexLt_irrefl lexLt_trans lexLt_tri

end KV.Sort
