import Proofs.KNNorm
import Model.KNTable
/-!
From the count table to the record hypotheses: `TableWF cfg full → TableOK (specCtx cfg full discs)`
(`tableOK_of_wf`, order ≥ 2), hence `normalised_table`: the model `Spec.estimateFrom` returns
for a well-formed table is normalised in every context.  `tableOK1` / `normalised_table1` are the
same for the order-1 model (`Spec.ents1`, `TableWF1`).  `exTable_wf…` show that `TableWF` holds
(by `decide` of the checker `tableWFb`) for the real trigram table of a three-sentence corpus.
Everything used about `List.eraseDups` is in section 0.
-/
namespace KV.KN.Norm

open KV.KN KV.KN.Spec

/-! ## 0. Everything used about `List.eraseDups` (three facts) -/

theorem mem_dedup {α : Type} [BEq α] [LawfulBEq α] {a : α} {l : List α} :
    a ∈ l.eraseDups ↔ a ∈ l := List.mem_eraseDups

theorem nodup_dedup {α : Type} [BEq α] [LawfulBEq α] : (l : List α) → l.eraseDups.Nodup
  | [] => by simp
  | a :: as => by
    rw [List.eraseDups_cons, List.nodup_cons]
    refine ⟨?_, nodup_dedup _⟩
    rw [mem_dedup, List.mem_filter]
    simp
termination_by l => l.length
decreasing_by
  simp only [List.length_cons]
  exact Nat.lt_succ_of_le (List.length_filter_le _ _)

theorem dedup_length_pos {α : Type} [BEq α] [LawfulBEq α] {l : List α} (h : l ≠ []) :
    1 ≤ l.eraseDups.length := by
  cases l with
  | nil => contradiction
  | cons a as => rw [List.eraseDups_cons]; simp

/-! ## 1. Lists, `take`, `validAt` -/

theorem sum_filter_le_of_imp (l : List (Gram × Nat)) (p q : Gram × Nat → Bool)
    (h : ∀ e ∈ l, p e = true → q e = true) :
    ((l.filter p).map (·.2)).sum ≤ ((l.filter q).map (·.2)).sum := by
  induction l with
  | nil => simp
  | cons a t ih =>
    have ih' := ih (fun e he => h e (List.mem_cons_of_mem _ he))
    have ha := h a (List.mem_cons_self ..)
    by_cases hp : p a = true
    · simp only [List.filter_cons, hp, ha hp, if_true, List.map_cons, List.sum_cons]; omega
    · by_cases hq : q a = true
      · simp only [List.filter_cons, hp, hq, if_true, if_false, List.map_cons, List.sum_cons,
          Bool.false_eq_true]; omega
      · simp only [List.filter_cons, hp, hq, if_false, Bool.false_eq_true]; exact ih'

theorem mem_take_tail {α : Type} {w : α} {l : List α} {m : Nat} (h : w ∈ l.tail.take m) :
    w ∈ l.take (m + 1) := by
  cases l with
  | nil => simp at h
  | cons a t => simp only [List.tail_cons] at h; simp [List.take_succ_cons, h]

theorem head_of_take_one {g : Gram} {w : Word} (h : g.take 1 = [w]) : g.head? = some w := by
  cases g with
  | nil => simp at h
  | cons a t => simp at h; simp [h]

theorem validAt_iff {n : Nat} {g : Gram} : validAt n g = true ↔ bos ∉ g.take (n - 1) := by
  simp [validAt]

theorem validAt_one (g : Gram) : validAt 1 g = true := by simp [validAt]

theorem validAt_mono {n : Nat} {g : Gram} (h : validAt (n + 1) g = true) : validAt n g = true := by
  rw [validAt_iff] at *
  intro hb
  apply h
  exact (List.take_prefix_take_left (l := g) (by omega : n - 1 ≤ n + 1 - 1)).subset hb

/-! ## 2. True counts, adjusted counts -/

theorem mem_rowsOf {full : Table} {k : Gram} {e : Gram × Nat} :
    e ∈ rowsOf full k ↔ e ∈ full ∧ e.1.take k.length = k := by
  simp [rowsOf, List.mem_filter]

theorem trueCount_pos {full : Table} {k : Gram} {e : Gram × Nat} (he : e ∈ full)
    (hk : e.1.take k.length = k) (hp : 1 ≤ e.2) : 1 ≤ trueCount full k := by
  have := mem_le_sum (rowsOf full k) (·.2) e (mem_rowsOf.mpr ⟨he, hk⟩)
  unfold trueCount; omega

theorem exists_row_of_trueCount_pos {full : Table} {k : Gram} (h : 1 ≤ trueCount full k) :
    ∃ e ∈ full, e.1.take k.length = k := by
  unfold trueCount at h
  cases hr : rowsOf full k with
  | nil => rw [hr] at h; simp at h
  | cons a t =>
    have : a ∈ rowsOf full k := by rw [hr]; simp
    exact ⟨a, (mem_rowsOf.mp this).1, (mem_rowsOf.mp this).2⟩

theorem trueCount_dropLast_le (full : Table) (k : Gram) :
    trueCount full k ≤ trueCount full k.dropLast := by
  unfold trueCount rowsOf
  apply sum_filter_le_of_imp
  intro e _ h
  have h' : e.1.take k.length = k := by simpa using h
  have : e.1.take (k.length - 1) = k.dropLast := by
    rw [List.dropLast_eq_take, ← h', List.take_take, List.length_take]
    congr 1
    omega
  simp [List.length_dropLast, this]

theorem adj_pos {N : Nat} {full : Table} {k : Gram} {e : Gram × Nat} (he : e ∈ full)
    (hk : e.1.take k.length = k) (hp : 1 ≤ e.2) : 1 ≤ adjCount N full k := by
  unfold adjCount
  split
  · exact trueCount_pos he hk hp
  · unfold leftExts
    apply dedup_length_pos
    have : e ∈ rowsOf full k := mem_rowsOf.mpr ⟨he, hk⟩
    intro h0
    rw [List.map_eq_nil_iff] at h0
    rw [h0] at this; cases this

/-! ## 3. Prune marks -/

theorem not_special_of_len {k : Gram} (hl : 2 ≤ k.length) (w : Word) : (k == [w]) = false := by
  cases k with
  | nil => simp at hl
  | cons a t =>
    cases t with
    | nil => simp at hl
    | cons b t' => simp

theorem pruned_false_hi {cfg : Cfg} {full : Table} {k : Gram} (hl : 2 ≤ k.length)
    (hp : pruned cfg full k = false) :
    cfg.thr (k.length - 1) < trueCount full k ∧ k.any cfg.excl = false := by
  unfold pruned at hp
  simp only [not_special_of_len hl, Bool.or_self, Bool.false_eq_true, if_false,
    Bool.or_eq_false_iff, decide_eq_false_iff_not] at hp
  exact ⟨by omega, hp.2⟩

theorem pruned_mono {cfg : Cfg} {full : Table} {k k' : Gram} (hl : 2 ≤ k.length)
    (hp : pruned cfg full k = false) (hc : trueCount full k ≤ trueCount full k')
    (hsub : ∀ w ∈ k', w ∈ k) (hthr : cfg.thr (k'.length - 1) ≤ cfg.thr (k.length - 1)) :
    pruned cfg full k' = false := by
  obtain ⟨h1, h2⟩ := pruned_false_hi hl hp
  unfold pruned
  split
  · rfl
  · have h3 : k'.any cfg.excl = false := by
      cases h : k'.any cfg.excl with
      | false => rfl
      | true =>
        obtain ⟨w, hw, hx⟩ := List.any_eq_true.mp h
        have : k.any cfg.excl = true := List.any_eq_true.mpr ⟨w, hsub w hw, hx⟩
        rw [h2] at this; cases this
    simp only [h3, Bool.or_false, decide_eq_false_iff_not]
    omega

/-! ## 4. The records of `Spec.ents` -/

/-- the record of the n-gram `k` -/
def recOf (cfg : Cfg) (full : Table) (k : Gram) : Emit :=
  if k == [unk] || k == [bos] then ⟨k, 0, false⟩
  else ⟨k, adjCount cfg.order full k, pruned cfg full k⟩

/-- the n-grams of order `n` -/
def ksOf (cfg : Cfg) (full : Table) (n : Nat) : List Gram :=
  if n == 1 then [unk] :: [bos] :: keys 1 full
  else if n == cfg.order then
    (full.map (·.1)).filter fun g => !(g.getD (g.length - 2) unk == bos)
  else keys n full

theorem ents_eq (cfg : Cfg) (full : Table) (n : Nat) :
    ents cfg full n = (ksOf cfg full n).map (recOf cfg full) := rfl

theorem recOf_gram (cfg : Cfg) (full : Table) (k : Gram) : (recOf cfg full k).gram = k := by
  unfold recOf; split <;> rfl

theorem ents_grams (cfg : Cfg) (full : Table) (n : Nat) :
    (ents cfg full n).map (·.gram) = ksOf cfg full n := by
  rw [ents_eq, List.map_map]
  have : ((fun x : Emit => x.gram) ∘ recOf cfg full) = id := by
    funext k; simp [Function.comp, recOf_gram]
  rw [this, List.map_id]

theorem mem_ents {cfg : Cfg} {full : Table} {n : Nat} {e : Emit} :
    e ∈ ents cfg full n ↔ ∃ k ∈ ksOf cfg full n, recOf cfg full k = e := by
  rw [ents_eq, List.mem_map]

theorem recOf_hi (cfg : Cfg) (full : Table) {k : Gram} (hl : 2 ≤ k.length) :
    recOf cfg full k = ⟨k, adjCount cfg.order full k, pruned cfg full k⟩ := by
  unfold recOf
  simp [not_special_of_len hl]

theorem kept_rec {cfg : Cfg} {full : Table} {k : Gram}
    (hk : k = [bos] ∨ k = [unk] ∨ (pruned cfg full k = false ∧ 1 ≤ adjCount cfg.order full k)) :
    keptBy (recOf cfg full k) = true := by
  rcases hk with rfl | rfl | ⟨hp, ha⟩
  · rfl
  · rfl
  · unfold recOf
    split
    · rename_i h
      simp only [Bool.or_eq_true, beq_iff_eq] at h
      rcases h with rfl | rfl <;> rfl
    · simp only [keptBy, Emit.cutoff, hp, Bool.false_eq_true, if_false, Bool.or_eq_true,
        decide_eq_true_eq]
      right; omega

theorem mem_keys {n : Nat} {full : Table} {k : Gram} :
    k ∈ keys n full ↔ ∃ e ∈ full, validAt n e.1 = true ∧ e.1.take n = k := by
  unfold keys
  rw [mem_dedup, List.mem_map]
  constructor
  · rintro ⟨g, hg, rfl⟩
    obtain ⟨hg1, hg2⟩ := List.mem_filter.mp hg
    obtain ⟨e, he, rfl⟩ := List.mem_map.mp hg1
    exact ⟨e, he, hg2, rfl⟩
  · rintro ⟨e, he, hv, rfl⟩
    exact ⟨e.1, List.mem_filter.mpr ⟨List.mem_map.mpr ⟨e, he, rfl⟩, hv⟩, rfl⟩

/-! ## 5. The records per order of `specCtx` -/

theorem esAt_spec {cfg : Cfg} (h2 : 2 ≤ cfg.order) (full : Table) (discs : List (Disc × Bool))
    (n : Nat) : (specCtx cfg full discs).esAt n =
      if n - 1 < cfg.order then ents cfg full (n - 1 + 1) else [] := by
  have h1 : ¬ cfg.order ≤ 1 := by omega
  unfold Spec.Ctx.esAt specCtx specRecords
  simp only [if_neg h1, List.getD_eq_getElem?_getD, List.getElem?_map]
  split
  · rename_i h; simp [h]
  · rename_i h; simp [h]

theorem esAt_mid {cfg : Cfg} (h2 : 2 ≤ cfg.order) (full : Table) (discs : List (Disc × Bool))
    {n : Nat} (h1 : 1 ≤ n) (hn : n ≤ cfg.order) :
    (specCtx cfg full discs).esAt n = ents cfg full n := by
  rw [esAt_spec h2, if_pos (by omega)]
  congr 1; omega

theorem esAt_hi {cfg : Cfg} (h2 : 2 ≤ cfg.order) (full : Table) (discs : List (Disc × Bool))
    {n : Nat} (hn : cfg.order < n) : (specCtx cfg full discs).esAt n = [] := by
  rw [esAt_spec h2, if_neg (by omega)]

theorem esAt_zero {cfg : Cfg} (h2 : 2 ≤ cfg.order) (full : Table) (discs : List (Disc × Bool)) :
    (specCtx cfg full discs).esAt 0 = ents cfg full 1 := by
  rw [esAt_spec h2, if_pos (by omega)]

/-- membership in the records of order `n+1` -/
theorem mem_esAt_succ {cfg : Cfg} (h2 : 2 ≤ cfg.order) {full : Table} {discs : List (Disc × Bool)}
    {n : Nat} {e : Emit} (he : e ∈ (specCtx cfg full discs).esAt (n + 1)) :
    n + 1 ≤ cfg.order ∧ e ∈ ents cfg full (n + 1) := by
  by_cases hn : n + 1 ≤ cfg.order
  · rw [esAt_mid h2 full discs (by omega) hn] at he; exact ⟨hn, he⟩
  · rw [esAt_hi h2 full discs (by omega)] at he; cases he

/-! ## 6. Keys of the orders -/

section
variable {cfg : Cfg} {full : Table} (hw : TableWF cfg full)
include hw

theorem take_len_row {e : Gram × Nat} (he : e ∈ full) {n : Nat} (hn : n ≤ cfg.order) :
    (e.1.take n).length = n := by
  rw [List.length_take, hw.len e he]; omega

/-- an n-gram of order `n+1 ≥ 2` is the suffix of a row that is valid at `n+1` -/
theorem hi_key {n : Nat} (h1 : 1 ≤ n) (_hn : n + 1 ≤ cfg.order) {k : Gram}
    (hk : k ∈ ksOf cfg full (n + 1)) :
    ∃ e ∈ full, validAt (n + 1) e.1 = true ∧ e.1.take (n + 1) = k := by
  unfold ksOf at hk
  have hne : (n + 1 == 1) = false := by simp; omega
  simp only [hne, Bool.false_eq_true, if_false] at hk
  split at hk
  · rename_i hN
    have hN' : n + 1 = cfg.order := by simpa using hN
    obtain ⟨hk1, hk2⟩ := List.mem_filter.mp hk
    obtain ⟨e, he, rfl⟩ := List.mem_map.mp hk1
    have hlen := hw.len e he
    refine ⟨e, he, ?_, ?_⟩
    · rw [hN']
      apply hw.topValid e he
      rw [hlen] at hk2
      simpa using hk2
    · exact List.take_of_length_le (by omega)
  · exact mem_keys.mp hk

omit hw in
/-- the suffix of length `n < N` of a row valid at `n` is an n-gram of order `n` -/
theorem lo_key {e : Gram × Nat} (he : e ∈ full) {n : Nat} (h1 : 1 ≤ n) (hn : n < cfg.order)
    (hv : validAt n e.1 = true) : e.1.take n ∈ ksOf cfg full n := by
  unfold ksOf
  by_cases hn1 : n = 1
  · subst hn1
    simp only [beq_self_eq_true, if_true]
    exact List.mem_cons_of_mem _ (List.mem_cons_of_mem _ (mem_keys.mpr ⟨e, he, hv, rfl⟩))
  · have h1' : (n == 1) = false := by simp [hn1]
    have h2' : (n == cfg.order) = false := by simp; omega
    simp only [h1', h2', Bool.false_eq_true, if_false]
    exact mem_keys.mpr ⟨e, he, hv, rfl⟩

omit hw in
theorem bos_key : [bos] ∈ ksOf cfg full 1 := by
  unfold ksOf; simp

omit hw in
theorem unk_key : [unk] ∈ ksOf cfg full 1 := by
  unfold ksOf; simp

omit hw in
theorem ksOf_one {k : Gram} (hk : k ∈ ksOf cfg full 1) :
    k = [unk] ∨ k = [bos] ∨ ∃ e ∈ full, e.1.take 1 = k := by
  unfold ksOf at hk
  simp only [beq_self_eq_true, if_true, List.mem_cons] at hk
  rcases hk with h | h | h
  · exact Or.inl h
  · exact Or.inr (Or.inl h)
  · obtain ⟨e, he, _, h3⟩ := mem_keys.mp h
    exact Or.inr (Or.inr ⟨e, he, h3⟩)

theorem ksOf_one_len {k : Gram} (hk : k ∈ ksOf cfg full 1) : k.length = 1 := by
  rcases ksOf_one hk with rfl | rfl | ⟨e, he, rfl⟩
  · rfl
  · rfl
  · exact take_len_row hw he (by have := hw.order2; omega)

theorem ksOf_nodup (n : Nat) : (ksOf cfg full n).Nodup := by
  unfold ksOf
  split
  · have hnot : ∀ w, (w = unk ∨ w = bos) → [w] ∉ keys 1 full := by
      intro w hwb hmem
      obtain ⟨e, he, _, h3⟩ := mem_keys.mp hmem
      have := head_of_take_one h3
      rcases hwb with rfl | rfl
      · exact (hw.headOK e he).2 this
      · exact (hw.headOK e he).1 this
    rw [List.nodup_cons, List.nodup_cons]
    refine ⟨?_, hnot bos (Or.inr rfl), nodup_dedup _⟩
    intro hmem
    rcases List.mem_cons.mp hmem with h | h
    · exact absurd h (by decide)
    · exact hnot unk (Or.inl rfl) h
  · split
    · exact hw.nodup.filter _
    · exact nodup_dedup _

end

/-! ## 7. The fields of `TableOK` -/

section
variable {cfg : Cfg} {full : Table} (hw : TableWF cfg full) (discs : List (Disc × Bool))
include hw

theorem tableOK_esLen : (specCtx cfg full discs).es.length ≤ (specCtx cfg full discs).cfg.order := by
  have h1 : ¬ cfg.order ≤ 1 := by have := hw.order2; omega
  show (specRecords cfg full).length ≤ cfg.order
  unfold specRecords
  simp [if_neg h1]

theorem esAt_one : (specCtx cfg full discs).esAt 1 = ents cfg full 1 :=
  esAt_mid hw.order2 full discs (by omega) (by have := hw.order2; omega)

theorem tableOK_len1 : ∀ e ∈ (specCtx cfg full discs).esAt 1, e.gram.length = 1 := by
  intro e he
  rw [esAt_one hw] at he
  obtain ⟨k, hk, rfl⟩ := mem_ents.mp he
  rw [recOf_gram]
  exact ksOf_one_len hw hk

theorem tableOK_nodup (n : Nat) : (((specCtx cfg full discs).esAt n).map (·.gram)).Nodup := by
  rw [esAt_spec hw.order2]
  split
  · rw [ents_grams]; exact ksOf_nodup hw _
  · simp

/-- the record of a unigram that occurs: not special-cased, positive count -/
theorem uni_row_rec {e : Gram × Nat} (he : e ∈ full) :
    recOf cfg full (e.1.take 1) ∈ ents cfg full 1 ∧ 1 ≤ (recOf cfg full (e.1.take 1)).count ∧
      (recOf cfg full (e.1.take 1)).gram.tail = [] := by
  have hN := hw.order2
  have hk : e.1.take 1 ∈ ksOf cfg full 1 := lo_key he (by omega) (by omega) (validAt_one _)
  have hl : (e.1.take 1).length = 1 := take_len_row hw he (by omega)
  refine ⟨mem_ents.mpr ⟨_, hk, rfl⟩, ?_, ?_⟩
  · obtain ⟨w, hw1⟩ : ∃ w, e.1.take 1 = [w] := by
      cases h : e.1.take 1 with
      | nil => rw [h] at hl; simp at hl
      | cons a t =>
        cases t with
        | nil => exact ⟨a, rfl⟩
        | cons b t' => rw [h] at hl; simp at hl
    have hhead := head_of_take_one hw1
    have hne : (e.1.take 1 == [unk] || e.1.take 1 == [bos]) = false := by
      rw [hw1]
      have h1 : w ≠ unk := fun h => (hw.headOK e he).2 (h ▸ hhead)
      have h2 : w ≠ bos := fun h => (hw.headOK e he).1 (h ▸ hhead)
      simp [h1, h2]
    unfold recOf
    simp only [hne, Bool.false_eq_true, if_false]
    exact adj_pos he (by rw [hl]) (hw.pos e he)
  · rw [recOf_gram]
    cases h : e.1.take 1 with
    | nil => rfl
    | cons a t =>
      cases t with
      | nil => rfl
      | cons b t' => rw [h] at hl; simp at hl

theorem tableOK_den1 : Spec.den ((specCtx cfg full discs).esAt 1) [] ≠ 0 := by
  rw [esAt_one hw]
  obtain ⟨e, he⟩ : ∃ e, e ∈ full := by
    cases h : full with
    | nil => exact absurd h hw.nonempty
    | cons a t => exact ⟨a, by simp⟩
  obtain ⟨h1, h2, h3⟩ := uni_row_rec hw he
  exact den_pos_of_mem (mem_group.mpr ⟨h1, h3⟩) h2

theorem tableOK_hasUnk : ∃ e ∈ (specCtx cfg full discs).esAt 1, e.gram = [unk] := by
  rw [esAt_one hw]
  exact ⟨recOf cfg full [unk], mem_ents.mpr ⟨_, unk_key, rfl⟩, recOf_gram ..⟩

theorem tableOK_hasBos : ∃ e ∈ (specCtx cfg full discs).esAt 1, e.gram = [bos] := by
  rw [esAt_one hw]
  exact ⟨recOf cfg full [bos], mem_ents.mpr ⟨_, bos_key, rfl⟩, recOf_gram ..⟩

theorem tableOK_unkBosCount : ∀ e ∈ (specCtx cfg full discs).esAt 1,
    e.gram = [unk] ∨ e.gram = [bos] → e.count = 0 := by
  intro e he hg
  rw [esAt_one hw] at he
  obtain ⟨k, _, rfl⟩ := mem_ents.mp he
  rw [recOf_gram] at hg
  rcases hg with rfl | rfl <;> rfl

theorem tableOK_specialsUnmarked : ∀ e ∈ (specCtx cfg full discs).esAt 1,
    e.gram.all isSpecial = true → e.marked = false := by
  intro e he hs
  rw [esAt_one hw] at he
  obtain ⟨k, hk, rfl⟩ := mem_ents.mp he
  rw [recOf_gram] at hs
  have hl := ksOf_one_len hw hk
  unfold recOf
  split
  · rfl
  · show pruned cfg full k = false
    obtain ⟨w, rfl⟩ : ∃ w, k = [w] := by
      cases k with
      | nil => simp at hl
      | cons a t =>
        cases t with
        | nil => exact ⟨a, rfl⟩
        | cons b t' => simp at hl
    have hsw : isSpecial w = true := by simpa using hs
    have : ([w] == [unk] || [w] == [bos] || [w] == [eos]) = true := by
      simp only [isSpecial, Bool.or_eq_true, beq_iff_eq] at hsw
      rcases hsw with (h | h) | h <;> subst h <;> rfl
    unfold pruned
    rw [if_pos this]

theorem tableOK_count1 : ∀ e ∈ (specCtx cfg full discs).esAt 1, e.marked = false →
    e.gram.all isSpecial = false → 1 ≤ e.count := by
  intro e he _ hs
  rw [esAt_one hw] at he
  obtain ⟨k, hk, rfl⟩ := mem_ents.mp he
  rw [recOf_gram] at hs
  rcases ksOf_one hk with rfl | rfl | ⟨r, hr, rfl⟩
  · exact absurd hs (by decide)
  · exact absurd hs (by decide)
  · exact (uni_row_rec hw hr).2.1

theorem tableOK_uniformOK : (specCtx cfg full discs).cfg.interpUni = true →
    (specCtx cfg full discs).uniform * ((keptUni (specCtx cfg full discs)).length : Rat) = 1 :=
  fun _ => uniformOK_of _ (tableOK_len1 hw discs) (tableOK_nodup hw discs 1) (tableOK_hasUnk hw discs)
    (tableOK_hasBos hw discs) (tableOK_specialsUnmarked hw discs) (tableOK_count1 hw discs)
    (specCtx_uniform cfg full discs)

/-- what a record of order `n+1 ≥ 2` is -/
theorem hi_rec {n : Nat} (h1 : 1 ≤ n) {e : Emit} (he : e ∈ (specCtx cfg full discs).esAt (n + 1)) :
    n + 1 ≤ cfg.order ∧ ∃ r ∈ full, validAt (n + 1) r.1 = true ∧ (r.1.take (n + 1)).length = n + 1 ∧
      e = ⟨r.1.take (n + 1), adjCount cfg.order full (r.1.take (n + 1)),
        pruned cfg full (r.1.take (n + 1))⟩ := by
  obtain ⟨hn, he'⟩ := mem_esAt_succ hw.order2 he
  obtain ⟨k, hk, rfl⟩ := mem_ents.mp he'
  obtain ⟨r, hr, hv, rfl⟩ := hi_key hw h1 hn hk
  have hl := take_len_row hw hr hn
  exact ⟨hn, r, hr, hv, hl, recOf_hi cfg full (by omega)⟩

theorem tableOK_countPos : ∀ n, 1 ≤ n → ∀ e ∈ (specCtx cfg full discs).esAt (n + 1), 1 ≤ e.count := by
  intro n h1 e he
  obtain ⟨_, r, hr, _, hl, rfl⟩ := hi_rec hw discs h1 he
  exact adj_pos hr (by rw [hl]) (hw.pos r hr)

end

section
variable {cfg : Cfg} {full : Table} (hw : TableWF cfg full) (discs : List (Disc × Bool))
include hw

theorem tableOK_closure : ∀ n, 1 ≤ n → ∀ e ∈ (specCtx cfg full discs).esAt (n + 1), keptBy e = true →
    (∃ e' ∈ (specCtx cfg full discs).esAt n, keptBy e' = true ∧ e'.gram = e.gram.dropLast) ∧
    (∃ e' ∈ (specCtx cfg full discs).esAt n, keptBy e' = true ∧ e'.gram = e.gram.tail) := by
  intro n h1 e he hke
  obtain ⟨hn, r, hr, hv, hl, rfl⟩ := hi_rec hw discs h1 he
  rw [esAt_mid hw.order2 full discs h1 (by omega)]
  generalize hk : r.1.take (n + 1) = k at *
  -- the record is unpruned
  have hp : pruned cfg full k = false := by
    rw [keptBy_hi h1 hl] at hke
    cases hm : pruned cfg full k with
    | false => rfl
    | true => simp [Emit.cutoff, hm] at hke
  have hthr : cfg.thr (n - 1) ≤ cfg.thr n := by
    have := hw.thrMono (n - 1) (by omega)
    rwa [show n - 1 + 1 = n by omega] at this
  have htc : 1 ≤ trueCount full k := trueCount_pos hr (by rw [hl]; exact hk) (hw.pos r hr)
  have htake : k.take n = r.1.take n := by
    rw [← hk, List.take_take]; congr 1; omega
  constructor
  · -- drop the oldest word
    have hdrop : k.dropLast = r.1.take n := by
      rw [List.dropLast_eq_take, hl, ← htake]; rfl
    have hl' : (r.1.take n).length = n := take_len_row hw hr (by omega)
    refine ⟨recOf cfg full (r.1.take n),
      mem_ents.mpr ⟨_, lo_key hr h1 (by omega) (validAt_mono hv), rfl⟩, ?_, ?_⟩
    · apply kept_rec
      refine Or.inr (Or.inr ⟨?_, adj_pos hr (by rw [hl']) (hw.pos r hr)⟩)
      apply pruned_mono (k := k) (by omega) hp
      · rw [← hdrop]; exact trueCount_dropLast_le full k
      · intro w hw'; rw [← hdrop] at hw'; exact List.dropLast_subset _ hw'
      · rw [hl', hl]; exact hthr
    · rw [recOf_gram]; exact hdrop.symm
  · -- drop the newest word
    have hlt : k.tail.length = n := by rw [List.length_tail, hl]; rfl
    by_cases hb : k.tail = [bos]
    · have hn1 : n = 1 := by rw [hb] at hlt; simpa using hlt.symm
      subst hn1
      exact ⟨recOf cfg full [bos], mem_ents.mpr ⟨_, bos_key, rfl⟩, kept_rec (Or.inl rfl),
        by rw [recOf_gram, hb]⟩
    · have hdom := hw.tailDom r hr n (by omega) h1 hv (by rw [hk]; exact hb)
      rw [hk] at hdom
      obtain ⟨r', hr', hk'⟩ := exists_row_of_trueCount_pos (Nat.le_trans htc hdom)
      rw [hlt] at hk'
      have hv' : validAt n r'.1 = true := by
        rw [validAt_iff]
        intro hmem
        have h1' : r'.1.take (n - 1) = k.tail.take (n - 1) := by
          rw [← hk', List.take_take]; congr 1; omega
        rw [h1'] at hmem
        have h2' := mem_take_tail hmem
        rw [show n - 1 + 1 = n by omega, htake] at h2'
        exact (validAt_iff.mp hv) h2'
      refine ⟨recOf cfg full k.tail, mem_ents.mpr ⟨_, hk' ▸ lo_key hr' h1 (by omega) hv', rfl⟩, ?_,
        recOf_gram ..⟩
      apply kept_rec
      refine Or.inr (Or.inr ⟨?_, adj_pos hr' (by rw [hlt]; exact hk') (hw.pos r' hr')⟩)
      apply pruned_mono (k := k) (by omega) hp hdom
      · intro w hw'; exact List.mem_of_mem_tail hw'
      · rw [hlt, hl]; exact hthr

theorem tableOK_headOK : ∀ n, 1 ≤ n → ∀ e ∈ (specCtx cfg full discs).esAt (n + 1), keptBy e = true →
    e.gram.head? ≠ some bos ∧ wantsBackoff e.gram.tail = true := by
  intro n h1 e he _
  obtain ⟨hn, r, hr, _, _, rfl⟩ := hi_rec hw discs h1 he
  have hlen := hw.len r hr
  have hh := hw.headOK r hr
  have hs := hw.second r hr
  obtain ⟨m, rfl⟩ : ∃ m, n = m + 1 := ⟨n - 1, by omega⟩
  show (r.1.take (m + 1 + 1)).head? ≠ some bos ∧ wantsBackoff (r.1.take (m + 1 + 1)).tail = true
  cases hg : r.1 with
  | nil => rw [hg] at hlen; simp at hlen; omega
  | cons a t =>
    cases t with
    | nil => rw [hg] at hlen; simp at hlen; omega
    | cons b t' =>
      rw [hg] at hh hs
      simp only [List.take_succ_cons, List.head?_cons, List.tail_cons, wantsBackoff]
      refine ⟨hh.1, ?_⟩
      have h1' : b ≠ unk := fun h => hs.1 (by simp [h])
      have h2' : b ≠ eos := fun h => hs.2 (by simp [h])
      simp [h1', h2']

/-- **The record hypotheses follow from the table hypotheses** (order ≥ 2). -/
theorem tableOK_of_wf : TableOK (specCtx cfg full discs) where
  esLen := tableOK_esLen hw discs
  len1 := tableOK_len1 hw discs
  nodup := tableOK_nodup hw discs
  den1 := tableOK_den1 hw discs
  hasUnk := tableOK_hasUnk hw discs
  unkBosCount := tableOK_unkBosCount hw discs
  specialsUnmarked := tableOK_specialsUnmarked hw discs
  uniformOK := tableOK_uniformOK hw discs
  countPos := tableOK_countPos hw discs
  closure := tableOK_closure hw discs
  headOK := tableOK_headOK hw discs

end

/-- **Normalisation from table-level hypotheses**: the model `Spec.estimateFrom` returns for a
well-formed count table distributes mass one over the vocabulary without `<s>`, in every
context. -/
theorem normalised_table (cfg : Cfg) (fallback : Option Disc) (full : Spec.Table) (m : Model)
    (hm : Spec.estimateFrom cfg fallback full = .ok m) (hw : TableWF cfg full) (ctx : Gram) :
    ((Query.vocabNoBos m.orders).map (Query.score m.orders ctx)).sum = 1 :=
  normalised_estimate cfg fallback full m hm (fun discs _ => tableOK_of_wf hw discs) ctx

/-! ## 8. Non-vacuity: a real count table satisfies `TableWF` -/

/-- the trigram table (`countFull 3`) of the corpus `a b` / `a` / `b a c` (`a b c = 3 4 5`) -/
def exTable : Spec.Table :=
  [([2, 3, 1], 1), ([2, 4, 3], 1), ([2, 5, 3], 1), ([3, 1, 1], 2), ([3, 4, 1], 1),
   ([4, 1, 1], 1), ([4, 3, 1], 1), ([5, 3, 4], 1)]

/-- order 3, no pruning (6 unigrams, 8 bigrams, 6 trigrams are kept) -/
def exCfg : Cfg := { order := 3, thr := fun _ => 0, excl := fun _ => false }

/-- order 3, bigrams and trigrams with count ≤ 1 pruned (one bigram survives) -/
def exCfgPruned : Cfg := { order := 3, thr := fun i => if i = 0 then 0 else 1, excl := fun _ => false }

theorem exTable_wf : TableWF exCfg exTable := tableWFb_sound _ _ (by decide)

theorem exTable_wf_pruned : TableWF exCfgPruned exTable := tableWFb_sound _ _ (by decide)

example (discs : List (Disc × Bool)) : TableOK (specCtx exCfgPruned exTable discs) :=
  tableOK_of_wf exTable_wf_pruned discs

example (m : Model) (hm : Spec.estimateFrom exCfgPruned (some ⟨1/2, 1, 3/2⟩) exTable = .ok m)
    (ctx : Gram) : Query.mass m.orders ctx = 1 :=
  normalised_table _ _ _ m hm exTable_wf_pruned ctx

/-! ## 9. The order-1 model (`Spec.ents1`) -/

/-- the record of a row of the unigram table -/
def rec1 (cfg : Cfg) (r : Gram × Nat) : Emit :=
  ⟨r.1, r.2, if r.1 == [unk] || r.1 == [bos] || r.1 == [eos] then false
             else decide (r.2 ≤ cfg.thr 0) || r.1.any cfg.excl⟩

theorem ents1_eq (cfg : Cfg) (full : Table) :
    ents1 cfg full = (([unk], 0) :: ([bos], 0) :: full).map (rec1 cfg) := rfl

section
variable {cfg : Cfg} {full : Table} (hw : TableWF1 cfg full) (discs : List (Disc × Bool))
include hw

theorem esAt1_spec (n : Nat) : (specCtx cfg full discs).esAt n =
    if n ≤ 1 then ents1 cfg full else [] := by
  have h1 : cfg.order ≤ 1 := by rw [hw.order1]
  unfold Spec.Ctx.esAt specCtx specRecords
  simp only [if_pos h1]
  split
  · rename_i h
    have : n - 1 = 0 := by omega
    rw [this]; rfl
  · rename_i h
    obtain ⟨m, hm⟩ : ∃ m, n - 1 = m + 1 := ⟨n - 2, by omega⟩
    rw [hm]; rfl

theorem mem_esAt1 {e : Emit} : e ∈ (specCtx cfg full discs).esAt 1 ↔
    ∃ r, (r = ([unk], 0) ∨ r = ([bos], 0) ∨ r ∈ full) ∧ rec1 cfg r = e := by
  rw [esAt1_spec hw, if_pos (Nat.le_refl 1), ents1_eq, List.mem_map]
  simp only [List.mem_cons]

theorem tableOK1 : TableOK (specCtx cfg full discs) := by
  have hlen1 : ∀ e ∈ (specCtx cfg full discs).esAt 1, e.gram.length = 1 := by
    intro e he
    obtain ⟨r, hr, rfl⟩ := (mem_esAt1 hw discs).mp he
    rcases hr with rfl | rfl | hr
    · rfl
    · rfl
    · exact hw.len r hr
  have hnodup : ∀ n, (((specCtx cfg full discs).esAt n).map (·.gram)).Nodup := by
    intro n
    rw [esAt1_spec hw]
    split
    · rw [ents1_eq, List.map_map]
      have : ((fun x : Emit => x.gram) ∘ rec1 cfg) = (·.1) := rfl
      rw [this]
      simp only [List.map_cons, List.nodup_cons, List.mem_cons, List.mem_map]
      refine ⟨?_, ?_, hw.nodup⟩
      · rintro (h | ⟨r, hr, h⟩)
        · exact absurd h (by decide)
        · exact (hw.headOK r hr).1 h
      · rintro ⟨r, hr, h⟩
        exact (hw.headOK r hr).2 h
    · simp
  have hunk : ∃ e ∈ (specCtx cfg full discs).esAt 1, e.gram = [unk] :=
    ⟨rec1 cfg ([unk], 0), (mem_esAt1 hw discs).mpr ⟨_, Or.inl rfl, rfl⟩, rfl⟩
  have hbos : ∃ e ∈ (specCtx cfg full discs).esAt 1, e.gram = [bos] :=
    ⟨rec1 cfg ([bos], 0), (mem_esAt1 hw discs).mpr ⟨_, Or.inr (Or.inl rfl), rfl⟩, rfl⟩
  have hspec : ∀ e ∈ (specCtx cfg full discs).esAt 1, e.gram.all isSpecial = true → e.marked = false := by
    intro e he hs
    obtain ⟨r, hr, rfl⟩ := (mem_esAt1 hw discs).mp he
    have hl : r.1.length = 1 := hlen1 _ he
    obtain ⟨w, hw1⟩ : ∃ w, r.1 = [w] := by
      cases h : r.1 with
      | nil => rw [h] at hl; simp at hl
      | cons a t =>
        cases t with
        | nil => exact ⟨a, rfl⟩
        | cons b t' => rw [h] at hl; simp at hl
    have hs' : ([w] : Gram).all isSpecial = true := by simpa [rec1, hw1] using hs
    have hsw : isSpecial w = true := by simpa using hs'
    have : (r.1 == [unk] || r.1 == [bos] || r.1 == [eos]) = true := by
      rw [hw1]
      simp only [isSpecial, Bool.or_eq_true, beq_iff_eq] at hsw
      rcases hsw with (h | h) | h <;> subst h <;> rfl
    show (if (r.1 == [unk] || r.1 == [bos] || r.1 == [eos]) = true then false else _) = false
    rw [if_pos this]
  have hcount1 : ∀ e ∈ (specCtx cfg full discs).esAt 1, e.marked = false →
      e.gram.all isSpecial = false → 1 ≤ e.count := by
    intro e he _ hs
    obtain ⟨r, hr, rfl⟩ := (mem_esAt1 hw discs).mp he
    rcases hr with rfl | rfl | hr
    · exact absurd (show ([unk] : Gram).all isSpecial = false from hs) (by decide)
    · exact absurd (show ([bos] : Gram).all isSpecial = false from hs) (by decide)
    · exact hw.pos r hr
  have hhi : ∀ n, 1 ≤ n → (specCtx cfg full discs).esAt (n + 1) = [] := by
    intro n h1
    rw [esAt1_spec hw, if_neg (by omega)]
  exact {
    esLen := by
      have h1 : cfg.order ≤ 1 := by rw [hw.order1]
      show (specRecords cfg full).length ≤ cfg.order
      unfold specRecords
      rw [if_pos h1, hw.order1]; exact Nat.le_refl 1
    len1 := hlen1
    nodup := hnodup
    den1 := by
      obtain ⟨r, hr⟩ : ∃ r, r ∈ full := by
        cases h : full with
        | nil => exact absurd h hw.nonempty
        | cons a t => exact ⟨a, by simp⟩
      have hmem := (mem_esAt1 hw discs).mpr ⟨r, Or.inr (Or.inr hr), rfl⟩
      have hl := hlen1 _ hmem
      have ht : (rec1 cfg r).gram.tail = [] := by
        cases h : (rec1 cfg r).gram with
        | nil => rfl
        | cons a t =>
          cases t with
          | nil => rfl
          | cons b t' => rw [h] at hl; simp at hl
      exact den_pos_of_mem (mem_group.mpr ⟨hmem, ht⟩) (hw.pos r hr)
    hasUnk := hunk
    unkBosCount := by
      intro e he hg
      obtain ⟨r, hr, rfl⟩ := (mem_esAt1 hw discs).mp he
      rcases hr with rfl | rfl | hr
      · rfl
      · rfl
      · rcases hg with h | h
        · exact absurd h (hw.headOK r hr).1
        · exact absurd h (hw.headOK r hr).2
    specialsUnmarked := hspec
    uniformOK := fun _ => uniformOK_of _ hlen1 (hnodup 1) hunk hbos hspec hcount1
      (specCtx_uniform cfg full discs)
    countPos := by intro n h1 e he; rw [hhi n h1] at he; cases he
    closure := by intro n h1 e he; rw [hhi n h1] at he; cases he
    headOK := by intro n h1 e he; rw [hhi n h1] at he; cases he }

end

/-- normalisation of the order-1 model from table-level hypotheses -/
theorem normalised_table1 (cfg : Cfg) (fallback : Option Disc) (full : Spec.Table) (m : Model)
    (hm : Spec.estimateFrom cfg fallback full = .ok m) (hw : TableWF1 cfg full) (ctx : Gram) :
    ((Query.vocabNoBos m.orders).map (Query.score m.orders ctx)).sum = 1 :=
  normalised_estimate cfg fallback full m hm (fun discs _ => tableOK1 hw discs) ctx

example : TableWF1 { order := 1, thr := fun _ => 0, excl := fun w => w == 5 }
    [([2], 3), ([3], 3), ([4], 2), ([5], 1)] := tableWF1b_sound _ _ (by decide)

end KV.KN.Norm
