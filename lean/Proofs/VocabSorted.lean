import Model.Vocab
import Proofs.Search
/-!
`SortedVocabulary`: after `FinishedLoading` the hashes are sorted, the unigram weights were permuted
alongside, `Index` (interpolation search in the shape `(begin - 1, 0, end, UINT64_MAX)`) returns
rank + 1 for an inserted word and 0 for everything else.
-/
namespace KV.Vocab
open KV.Search

/-! ### `Index` on a strictly sorted array -/

theorem getD_pred (keys : List Nat) (p : Nat) (h0 : 0 < p) (hp : p < keys.length + 1) :
    keys.getD (p - 1) 0 = keys[p - 1]'(by omega) := by
  rw [List.getD_eq_getElem?_getD, List.getElem?_eq_getElem (by omega)]; rfl

theorem sorted_positions (keys : List Nat) (hs : keys.Pairwise (· < ·)) :
    SortedIn (fun i => keys.getD (i - 1) 0) 0 (keys.length + 1) := by
  intro i j hi hij hj
  show keys.getD (i - 1) 0 ≤ keys.getD (j - 1) 0
  rw [getD_pred keys i hi (by omega), getD_pred keys j (by omega) hj]
  by_cases e : i = j
  · subst e; exact Nat.le_refl _
  · exact Nat.le_of_lt ((List.pairwise_iff_getElem.1 hs) (i - 1) (j - 1) (by omega) (by omega) (by omega))

theorem sIndex_spec (f : Nat → Nat → Nat → Nat) (v : SVocab) (hs : v.keys.Pairwise (· < ·)) (key : Nat)
    (hk : key < 2^64) :
    sIndex f v key = if key ∈ v.keys then v.keys.idxOf key + 1 else 0 := by
  have hp := pivot64_ok f
  have hh : key ≤ 2^64 - 1 := by omega
  show (match bfind (fun i => v.keys.getD (i - 1) 0) (pivot64 f) key v.keys.length 0 0 (v.keys.length + 1) (2^64 - 1) with
        | some p => p | none => 0) = _
  cases hb : bfind (fun i => v.keys.getD (i - 1) 0) (pivot64 f) key v.keys.length 0 0 (v.keys.length + 1) (2^64 - 1) with
  | none =>
    show 0 = _
    by_cases hm : key ∈ v.keys
    · exfalso
      have hr := List.idxOf_lt_length_of_mem hm
      have hget : v.keys[v.keys.idxOf key] = key := List.getElem_idxOf hr
      obtain ⟨p, hp'⟩ := bfind_complete _ (pivot64 f) key hp v.keys.length 0 0 (v.keys.length + 1) (2^64 - 1)
        (sorted_positions v.keys hs) (Nat.zero_le _) hh (by omega)
        ⟨v.keys.idxOf key + 1, by omega, by omega, by
          show v.keys.getD (v.keys.idxOf key + 1 - 1) 0 = key
          rw [getD_pred v.keys _ (by omega) (by omega)]
          simp [hget]⟩
      rw [hb] at hp'; cases hp'
    · simp [hm]
  | some p =>
    show p = _
    obtain ⟨hap, h0, hlt⟩ := bfind_sound _ (pivot64 f) key hp v.keys.length 0 0 (v.keys.length + 1) (2^64 - 1) p
      (Nat.zero_le _) hh hb
    have hap' : v.keys[p - 1]'(by omega) = key := by
      rw [← getD_pred v.keys p h0 hlt]; exact hap
    have hm : key ∈ v.keys := by rw [← hap']; exact List.getElem_mem _
    have hr := List.idxOf_lt_length_of_mem hm
    have hget : v.keys[v.keys.idxOf key] = key := List.getElem_idxOf hr
    have hpw := List.pairwise_iff_getElem.1 hs
    have : p - 1 = v.keys.idxOf key := by
      apply Classical.byContradiction
      intro hne
      rcases Nat.lt_or_gt_of_ne hne with h | h
      · have := hpw (p - 1) (v.keys.idxOf key) (by omega) hr h
        rw [hap', hget] at this; omega
      · have := hpw (v.keys.idxOf key) (p - 1) hr (by omega) h
        rw [hap', hget] at this; omega
    simp [hm]; omega

/-! ### `JointSort` -/

section JSort
variable {β : Type}

theorem jointSort_perm (ps : List (Nat × β)) : (jointSort ps).Perm ps := List.mergeSort_perm _ _

theorem jointSort_sorted (ps : List (Nat × β)) : (jointSort ps).Pairwise (fun a b => a.1 ≤ b.1) := by
  have := List.pairwise_mergeSort (le := fun a b : Nat × β => decide (a.1 ≤ b.1))
    (fun a b c h1 h2 => by simp at *; omega) (fun a b => by simp; omega) ps
  exact this.imp (fun h => by simpa using h)

theorem key_inj_of_nodup : ∀ (ps : List (Nat × β)), (ps.map (·.1)).Nodup →
    ∀ a, a ∈ ps → ∀ b, b ∈ ps → a.1 = b.1 → a = b := by
  intro ps
  induction ps with
  | nil => intro _ a ha; cases ha
  | cons x xs ih =>
    intro hnd a ha b hb e
    simp only [List.map_cons, List.nodup_cons] at hnd
    obtain ⟨hx, hnd'⟩ := hnd
    simp only [List.mem_cons] at ha hb
    rcases ha with rfl | ha <;> rcases hb with rfl | hb
    · rfl
    · exact absurd (List.mem_map.2 ⟨b, hb, e.symm⟩) hx
    · exact absurd (List.mem_map.2 ⟨a, ha, e⟩) hx
    · exact ih hnd' a ha b hb e

/-- on distinct hashes the sorted arrangement is unique: whatever `std::sort` does, its result is `jointSort` -/
theorem jointSort_unique (ps l : List (Nat × β)) (hnd : (ps.map (·.1)).Nodup) (hperm : l.Perm ps)
    (hsorted : l.Pairwise (fun a b => a.1 ≤ b.1)) : l = jointSort ps := by
  apply List.Perm.eq_of_pairwise (le := fun a b : Nat × β => a.1 ≤ b.1) _ hsorted (jointSort_sorted ps)
    (hperm.trans (jointSort_perm ps).symm)
  intro a b ha hb h1 h2
  exact key_inj_of_nodup ps hnd a (hperm.subset ha) b ((jointSort_perm ps).subset hb) (by omega)

theorem jointSort_keys_strict (ps : List (Nat × β)) (hnd : (ps.map (·.1)).Nodup) :
    ((jointSort ps).map (·.1)).Pairwise (· < ·) := by
  have hnd' : ((jointSort ps).map (·.1)).Nodup := ((jointSort_perm ps).map _).nodup_iff.2 hnd
  have hs : ((jointSort ps).map (·.1)).Pairwise (· ≤ ·) := by
    rw [List.pairwise_map]; exact jointSort_sorted ps
  exact (hs.and hnd').imp (fun h => by omega)

/-- looking a stored pair up through the position of its key -/
theorem getElem?_idxOf_key : ∀ (l : List (Nat × β)), (l.map (·.1)).Nodup → ∀ h w, (h, w) ∈ l →
    l[(l.map (·.1)).idxOf h]? = some (h, w) := by
  intro l
  induction l with
  | nil => intro _ h w hm; cases hm
  | cons x xs ih =>
    intro hnd h w hm
    simp only [List.map_cons, List.nodup_cons] at hnd
    obtain ⟨hx, hnd'⟩ := hnd
    simp only [List.mem_cons] at hm
    rcases hm with e | hm
    · subst e; simp
    · have hne : x.1 ≠ h := by
        intro e; apply hx; rw [e]; exact List.mem_map.2 ⟨(h, w), hm, rfl⟩
      have b : (x.1 == h) = false := by simp [hne]
      simp only [List.map_cons, List.idxOf_cons, b, cond_false, List.getElem?_cons_succ]
      exact ih hnd' h w hm

/-- in a strictly sorted list the position of a member is the number of smaller members -/
theorem idxOf_eq_countP_lt : ∀ (l : List Nat), l.Pairwise (· < ·) → ∀ k, k ∈ l →
    l.idxOf k = l.countP (· < k) := by
  intro l
  induction l with
  | nil => intro _ k hk; cases hk
  | cons x xs ih =>
    intro hs k hk
    rw [List.pairwise_cons] at hs
    obtain ⟨hx, hs'⟩ := hs
    by_cases e : x = k
    · subst e
      have : xs.countP (· < x) = 0 := by
        rw [List.countP_eq_zero]
        intro a ha; have := hx a ha; simp; omega
      simp [this]
    · have hk' : k ∈ xs := by simpa [Ne.symm e] using hk
      have hlt : x < k := hx k hk'
      have b : (x == k) = false := by simp [e]
      simp [List.idxOf_cons, b, hlt, ih hs' k hk']

end JSort

/-! ### `Insert` -/

theorem sInsertAll_keys (sp : Specials) : ∀ (ws : List Nat) (v : SVocab),
    (sInsertAll sp v ws).2.keys = v.keys ++ ws.filter (fun k => !(k = sp.unk || k = sp.unkCap)) ∧
    (sInsertAll sp v ws).2.sawUnk = (v.sawUnk || ws.any (fun k => k = sp.unk || k = sp.unkCap)) := by
  intro ws
  induction ws with
  | nil => intro v; simp [sInsertAll]
  | cons k ks ih =>
    intro v
    by_cases hk : k = sp.unk ∨ k = sp.unkCap
    · have hb : (decide (k = sp.unk) || decide (k = sp.unkCap)) = true := by simpa using hk
      have := ih { v with sawUnk := true }
      simp only [sInsertAll, sInsert, hk, if_true, List.filter_cons, hb, List.any_cons]
      simpa using this
    · have hb : (decide (k = sp.unk) || decide (k = sp.unkCap)) = false := by simpa using hk
      have := ih { v with keys := v.keys ++ [k] }
      simp only [sInsertAll, sInsert, hk, if_false, List.filter_cons, hb, List.any_cons]
      simpa using this

/-! ### `FinishedLoading` -/

theorem zip_map_fst_snd {β : Type} : ∀ (l : List (Nat × β)), (l.map (·.1)).zip (l.map (·.2)) = l := by
  intro l
  induction l with
  | nil => rfl
  | cons x xs ih => simp [ih]

/-- **`SortedVocabulary` after `FinishedLoading`** (`v0` = the state after the `Insert`s, `weights` = `reorder[1 ..]`):
the hashes are strictly sorted and a permutation of the inserted ones; the (hash, weights) pairs are a
permutation of the original pairs (nothing is torn apart); `Index` returns rank + 1 — the number of inserted
hashes smaller than the word's, plus one — for inserted words and 0 otherwise, for *every* floating-point
pivot `f`; and the weights found at `Index(h)` are the weights that were supplied with `h` -/
theorem sFinish_spec {β : Type} (f : Nat → Nat → Nat → Nat) (v0 : SVocab) (weights : List β)
    (hlen : weights.length = v0.keys.length) (hnd : v0.keys.Nodup) :
    (sFinish v0 weights).1.keys.Pairwise (· < ·) ∧
    (sFinish v0 weights).1.keys.Perm v0.keys ∧
    ((sFinish v0 weights).1.keys.zip (sFinish v0 weights).2).Perm (v0.keys.zip weights) ∧
    (∀ k, k < 2^64 → sIndex f (sFinish v0 weights).1 k =
        if k ∈ v0.keys then v0.keys.countP (· < k) + 1 else 0) ∧
    (∀ h w, h < 2^64 → (h, w) ∈ v0.keys.zip weights →
        (sFinish v0 weights).2[sIndex f (sFinish v0 weights).1 h - 1]? = some w) ∧
    sBound (sFinish v0 weights).1 = v0.keys.length + 1 ∧ (sFinish v0 weights).1.sawUnk = v0.sawUnk := by
  have hfst : (v0.keys.zip weights).map (·.1) = v0.keys := List.map_fst_zip (by omega)
  have hnd' : ((v0.keys.zip weights).map (·.1)).Nodup := by rw [hfst]; exact hnd
  have hperm := jointSort_perm (v0.keys.zip weights)
  have hkperm : ((jointSort (v0.keys.zip weights)).map (·.1)).Perm v0.keys := by
    have := hperm.map (·.1); rw [hfst] at this; exact this
  have hstrict := jointSort_keys_strict (v0.keys.zip weights) hnd'
  have hnd'' : ((jointSort (v0.keys.zip weights)).map (·.1)).Nodup := hkperm.nodup_iff.2 hnd
  have hidx : ∀ k, k < 2^64 → sIndex f (sFinish v0 weights).1 k =
      if k ∈ (jointSort (v0.keys.zip weights)).map (·.1)
      then ((jointSort (v0.keys.zip weights)).map (·.1)).idxOf k + 1 else 0 :=
    fun k hk => sIndex_spec f (sFinish v0 weights).1 hstrict k hk
  refine ⟨hstrict, hkperm, ?_, ?_, ?_, ?_, rfl⟩
  · show (((jointSort (v0.keys.zip weights)).map (·.1)).zip ((jointSort (v0.keys.zip weights)).map (·.2))).Perm _
    rw [zip_map_fst_snd]; exact hperm
  · intro k hk
    rw [hidx k hk]
    by_cases hm : k ∈ v0.keys
    · have hm' : k ∈ (jointSort (v0.keys.zip weights)).map (·.1) := hkperm.mem_iff.2 hm
      rw [if_pos hm', if_pos hm, idxOf_eq_countP_lt _ hstrict k hm', hkperm.countP_eq]
    · have hm' : ¬ k ∈ (jointSort (v0.keys.zip weights)).map (·.1) := fun h => hm (hkperm.mem_iff.1 h)
      rw [if_neg hm', if_neg hm]
  · intro h w hh hm
    have hm2 : (h, w) ∈ jointSort (v0.keys.zip weights) := hperm.mem_iff.2 hm
    have hm' : h ∈ (jointSort (v0.keys.zip weights)).map (·.1) := List.mem_map.2 ⟨(h, w), hm2, rfl⟩
    rw [hidx h hh, if_pos hm']
    show ((jointSort (v0.keys.zip weights)).map (·.2))[_ + 1 - 1]? = some w
    rw [Nat.add_sub_cancel, List.getElem?_map, getElem?_idxOf_key _ hnd'' h w hm2]
    rfl
  · show ((jointSort (v0.keys.zip weights)).map (·.1)).length + 1 = _
    rw [hkperm.length_eq]

end KV.Vocab
