import Model.Chain
/-! `util::stream::Stream`: the records yielded = concatenation of the valid records of the blocks received, for
every pattern of empty blocks; every read is inside `ValidSize`.  Core Lean only. -/
namespace KV.Chain

/-- the stream positioned on record `k` of the non-empty block `b` -/
def onBlock (b : List Nat) (k : Nat) (rest : List (List Nat)) (passed : List (Option (List Nat))) (p : Bool) : Stream :=
  { link := { cur := some b, rest := rest, passed := passed, poisoned := p }, pos := k, endp := b.length, null := false }

theorem startBlock_nonempty (b : List Nat) (hb : b ≠ []) (rest passed p) :
    startBlock { cur := some b, rest := rest, passed := passed, poisoned := p } = onBlock b 0 rest passed p := by
  cases b with
  | nil => exact absurd rfl hb
  | cons x xs => simp [startBlock, skipEmpty, onBlock]

theorem startBlock_empty_cons (b : List Nat) (r : List (List Nat)) (passed p) :
    startBlock { cur := some [], rest := b :: r, passed := passed, poisoned := p }
      = startBlock { cur := some b, rest := r, passed := passed ++ [some []], poisoned := p } := by
  simp [startBlock, skipEmpty]

theorem startBlock_empty_nil (passed p) :
    startBlock { cur := some [], rest := [], passed := passed, poisoned := p }
      = { link := { cur := none, rest := [], passed := passed ++ [some [], none], poisoned := true },
          pos := 0, endp := 0, null := true } := by
  simp [startBlock, skipEmpty]

/-- inside a block: the remaining records of the block are yielded, each read in bounds, then `++block_it_`
and `StartBlock` -/
theorem collect_block (b : List Nat) (rest passed p) (d : Nat) :
    ∀ k f, k + d = b.length → 0 < d → d ≤ f →
      Stream.collect f (onBlock b k rest passed p)
        = let r := Stream.collect (f - d)
            (startBlock (SLink.inc { cur := some b, rest := rest, passed := passed, poisoned := p }))
          ((b.drop k).map some ++ r.1, r.2) := by
  induction d with
  | zero => intro k f _ h; omega
  | succ d ih =>
    intro k f hk _ hf
    obtain ⟨f', rfl⟩ : ∃ f', f = f' + 1 := ⟨f - 1, by omega⟩
    have hkl : k < b.length := by omega
    have hget : (onBlock b k rest passed p).get = some b[k] := by
      simp [Stream.get, onBlock, List.getElem?_eq_getElem hkl]
    have hdrop : b.drop k = b[k] :: b.drop (k + 1) := List.drop_eq_getElem_cons hkl
    by_cases hd : d = 0
    · subst hd
      have hinc : (onBlock b k rest passed p).incWith startBlock
          = startBlock (SLink.inc { cur := some b, rest := rest, passed := passed, poisoned := p }) := by
        have : k + 1 = b.length := by omega
        simp [Stream.incWith, onBlock, this]
      have hdn : b.drop (k + 1) = [] := by apply List.drop_eq_nil_of_le; omega
      simp only [Stream.collect, Stream.collectWith, onBlock, Bool.false_eq_true, if_false]
      have hg := hget
      simp only [onBlock] at hg hinc
      rw [hg, hinc, hdrop, hdn]
      simp [Stream.collect]
    · have hinc : (onBlock b k rest passed p).incWith startBlock = onBlock b (k + 1) rest passed p := by
        have : k + 1 ≠ b.length := by omega
        simp [Stream.incWith, onBlock, this]
      have ih' := ih (k + 1) f' (by omega) (by omega) (by omega)
      simp only [Stream.collect] at ih' ⊢
      simp only [Stream.collectWith, onBlock, Bool.false_eq_true, if_false]
      have hg := hget
      simp only [onBlock] at hg hinc ih'
      rw [hg, hinc, ih', hdrop]
      have : f' + 1 - (d + 1) = f' - d := by omega
      rw [this]; rfl

/-- from `StartBlock` on a block `b0` followed by `rest`: all valid records of `b0 :: rest`, in order; at the end
the stream is null and everything, then the poison, has been passed on exactly once -/
theorem collect_from (rest : List (List Nat)) :
    ∀ (b0 : List Nat) (passed : List (Option (List Nat))) (p : Bool) (f : Nat),
      (b0 :: rest).flatten.length < f →
      (Stream.collect f (startBlock { cur := some b0, rest := rest, passed := passed, poisoned := p })).1
          = ((b0 :: rest).flatten).map some
      ∧ (Stream.collect f (startBlock { cur := some b0, rest := rest, passed := passed, poisoned := p })).2.null = true
      ∧ (Stream.collect f (startBlock { cur := some b0, rest := rest, passed := passed, poisoned := p })).2.link.finish
          = passed ++ (b0 :: rest).map some ++ [none] := by
  induction rest with
  | nil =>
    intro b0 passed p f hf
    obtain ⟨f', rfl⟩ : ∃ f', f = f' + 1 := ⟨f - 1, by omega⟩
    by_cases hb : b0 = []
    · subst hb
      rw [startBlock_empty_nil]
      simp [Stream.collect, Stream.collectWith, SLink.finish]
    · rw [startBlock_nonempty b0 hb]
      have hlen : 0 < b0.length := List.length_pos_iff.mpr hb
      simp only [List.flatten_cons, List.flatten_nil, List.append_nil] at hf
      rw [collect_block b0 [] passed p b0.length 0 (f' + 1) (by omega) hlen (by omega)]
      have hnull : startBlock (SLink.inc { cur := some b0, rest := [], passed := passed, poisoned := p })
          = { link := { cur := none, rest := [], passed := passed ++ [some b0, none], poisoned := true },
              pos := 0, endp := 0, null := true } := by
        simp [SLink.inc, startBlock, skipEmpty]
      rw [hnull]
      obtain ⟨g, hg⟩ : ∃ g, f' + 1 - b0.length = g + 1 := ⟨f' - b0.length, by omega⟩
      rw [hg]
      simp [Stream.collect, Stream.collectWith, SLink.finish]
  | cons b1 r ih =>
    intro b0 passed p f hf
    by_cases hb : b0 = []
    · subst hb
      rw [startBlock_empty_cons]
      have := ih b1 (passed ++ [some []]) p f (by simpa using hf)
      simpa using this
    · rw [startBlock_nonempty b0 hb]
      have hlen : 0 < b0.length := List.length_pos_iff.mpr hb
      have hf' : b0.length + (b1 :: r).flatten.length < f := by
        simpa [List.flatten_cons, List.length_append] using hf
      rw [collect_block b0 (b1 :: r) passed p b0.length 0 f (by omega) hlen (by omega)]
      have hinc : SLink.inc { cur := some b0, rest := b1 :: r, passed := passed, poisoned := p }
          = { cur := some b1, rest := r, passed := passed ++ [some b0], poisoned := p } := by
        simp [SLink.inc]
      rw [hinc]
      have := ih b1 (passed ++ [some b0]) p (f - b0.length) (by omega)
      obtain ⟨h1, h2, h3⟩ := this
      refine ⟨?_, h2, ?_⟩
      · simp only [List.drop_zero]
        rw [h1]; simp [List.flatten_cons]
      · rw [h3]; simp

end KV.Chain
