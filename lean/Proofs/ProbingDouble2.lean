import Proofs.ProbingDouble1
/-!
`Double`, part 2: the re-insert loop over the old buckets `[0, N)` under the doubled bucket count.
Loop invariant `J i`: entries at `[i, N)` are *pending* (only `ideal ≤ position` is known — their old
probe path does not wrap), entries below `i` or in the new half are *settled*: their new probe path
is occupied and avoids `[i, N)`, so vacating a pending bucket never breaks it.
-/
namespace KV.Probing

structure J (h : Nat → Nat) (N i : Nat) (s : Slots) : Prop where
  distinct : ∀ p q k v w, p < 2 * N → q < 2 * N → s p = some (k, v) → s q = some (k, w) → p = q
  pending : ∀ p k v, i ≤ p → p < N → s p = some (k, v) → ideal h N k ≤ p
  settled : ∀ p k v, (p < i ∨ N ≤ p) → p < 2 * N → s p = some (k, v) →
    PathOK s (2 * N) (ideal h (2 * N) k) p ∧
    ∀ x, onPath (2 * N) (ideal h (2 * N) k) p x → ¬ (i ≤ x ∧ x < N)

/-- an empty old bucket: nothing to do -/
theorem J_skip (h : Nat → Nat) (N i : Nat) (s : Slots) (j : J h N i s) (hsi : s i = none) :
    J h N (i + 1) s := by
  refine ⟨j.distinct, ?_, ?_⟩
  · intro p k v h1 h2 h3
    exact j.pending p k v (by omega) h2 h3
  · intro p k v h1 h2 h3
    have hp : p < i ∨ N ≤ p := by
      rcases h1 with h1 | h1
      · by_cases e : p = i
        · subst e; rw [hsi] at h3; cases h3
        · left; omega
      · right; exact h1
    obtain ⟨a, b⟩ := j.settled p k v hp h2 h3
    exact ⟨a, fun x hx hc => b x hx (by omega)⟩

/-- an occupied old bucket: the entry is taken out and re-inserted under `2 * N` -/
theorem J_move (h : Nat → Nat) (N i : Nat) (s : Slots) (k v : Nat) (j : J h N i s) (hi : i < N)
    (hsi : s i = some (k, v)) :
    ∃ q, firstEmpty (set s i none) (2 * N) (2 * N) (ideal h (2 * N) k) = some q ∧
      J h N (i + 1) (set (set s i none) q (some (k, v))) ∧
      occ (set (set s i none) q (some (k, v))) (2 * N) = occ s (2 * N) ∧
      ∀ k' v', Stored (set (set s i none) q (some (k, v))) (2 * N) k' v' ↔ Stored s (2 * N) k' v' := by
  have hsci : set s i none i = none := by simp [set]
  have ha' : ideal h (2 * N) k < 2 * N := ideal_lt h (2 * N) k (by omega)
  obtain ⟨q, hq, hqN, hqs, hpath⟩ :=
    firstEmpty_total (set s i none) (2 * N) i (ideal h (2 * N) k) (by omega) hsci ha'
  have hai : ideal h N k ≤ i := j.pending i k v (Nat.le_refl _) hi hsi
  have hdbl := ideal_double h N k (by omega)
  have hnot : ¬ onPath (2 * N) (ideal h (2 * N) k) q i := fun hon => hpath i hon hsci
  -- the new bucket is not a pending one, and the new path avoids the pending region
  have hQ : q ≤ i ∨ N ≤ q := by unfold onPath at hnot; omega
  have hD : ∀ x, onPath (2 * N) (ideal h (2 * N) k) q x → ¬ (i ≤ x ∧ x < N) := by
    intro x hx; unfold onPath at hnot hx; omega
  have hsc : ∀ x, x ≠ i → set s i none x = s x := by intro x hx; simp [set, hx]
  refine ⟨q, hq, ⟨?_, ?_, ?_⟩, ?_, ?_⟩
  · -- keys stay distinct
    intro p p' k1 v1 w1 hp hp' h1 h2
    by_cases e1 : p = q
    · by_cases e2 : p' = q
      · omega
      · subst e1
        simp [set, e2] at h1 h2
        obtain ⟨rfl, _⟩ := h1
        by_cases e3 : p' = i
        · simp [e3] at h2
        · simp [e3] at h2
          exact absurd (j.distinct p' i k w1 v hp' (by omega) h2 hsi) e3
    · by_cases e2 : p' = q
      · subst e2
        simp [set, e1] at h1 h2
        obtain ⟨rfl, _⟩ := h2
        by_cases e3 : p = i
        · simp [e3] at h1
        · simp [e3] at h1
          exact absurd (j.distinct p i k v1 v hp (by omega) h1 hsi) e3
      · simp [set, e1, e2] at h1 h2
        by_cases e3 : p = i
        · simp [e3] at h1
        · by_cases e4 : p' = i
          · simp [e4] at h2
          · simp [e3] at h1; simp [e4] at h2
            exact j.distinct p p' k1 v1 w1 hp hp' h1 h2
  · -- pending entries are untouched
    intro p k1 v1 h1 h2 h3
    have e1 : p ≠ q := by omega
    have e2 : p ≠ i := by omega
    simp [set, e1, e2] at h3
    exact j.pending p k1 v1 (by omega) h2 h3
  · -- settled entries keep an occupied path that avoids the pending region
    intro p k1 v1 h1 h2 h3
    by_cases e1 : p = q
    · subst e1
      simp [set] at h3
      obtain ⟨rfl, _⟩ := h3
      refine ⟨PathOK_mono _ _ _ _ _ (set_mono _ p _) hpath, ?_⟩
      intro x hx hc
      exact hD x hx (by omega)
    · have e2 : p ≠ i := by
        intro e; subst e; simp [set, e1] at h3
      have h3' : s p = some (k1, v1) := by simpa [set, e1, e2] using h3
      have hp : p < i ∨ N ≤ p := by omega
      obtain ⟨a, b⟩ := j.settled p k1 v1 hp h2 h3'
      refine ⟨?_, fun x hx hc => b x hx (by omega)⟩
      intro x hx
      have hxi : x ≠ i := by
        intro e; subst e
        have hxN := onPath_lt (2 * N) _ p x (ideal_lt h (2 * N) k1 (by omega)) h2 hx
        exact b x hx ⟨Nat.le_refl _, hi⟩
      apply set_mono
      rw [hsc x hxi]
      exact a x hx
  · -- the number of occupied buckets is unchanged
    have h1 := occ_set_some (set s i none) q (k, v) (2 * N) hqN hqs
    have h2 := occ_set_none s i (k, v) (2 * N) (by omega) hsi
    omega
  · -- the stored pairs are unchanged
    intro k' v'
    rw [Stored_fill (set s i none) (2 * N) k v q hqN hqs k' v']
    constructor
    · rintro (⟨p, hp, h1⟩ | ⟨rfl, rfl⟩)
      · have e : p ≠ i := by intro e; subst e; simp [set] at h1
        exact ⟨p, hp, by simpa [set, e] using h1⟩
      · exact ⟨i, by omega, hsi⟩
    · rintro ⟨p, hp, h1⟩
      by_cases e : p = i
      · subst e
        rw [hsi] at h1
        right
        simpa using (Option.some.inj h1).symm
      · left; exact ⟨p, hp, by simpa [set, e] using h1⟩

/-- the whole second loop -/
theorem reinsert_spec (h : Nat → Nat) (N : Nat) : ∀ (n i : Nat) (s : Slots), i + n = N → J h N i s →
    ∃ s2, reinsert h (2 * N) n i s = some s2 ∧ J h N N s2 ∧ occ s2 (2 * N) = occ s (2 * N) ∧
      ∀ k v, Stored s2 (2 * N) k v ↔ Stored s (2 * N) k v := by
  intro n
  induction n with
  | zero =>
    intro i s hi j
    have : i = N := by omega
    subst this
    exact ⟨s, rfl, j, rfl, fun _ _ => Iff.rfl⟩
  | succ n ih =>
    intro i s hi j
    cases hsi : s i with
    | none =>
      obtain ⟨s2, h2, j2, hocc, hst⟩ := ih (i + 1) s (by omega) (J_skip h N i s j hsi)
      exact ⟨s2, by simp [reinsert, hsi, h2], j2, hocc, hst⟩
    | some e =>
      obtain ⟨k, v⟩ := e
      obtain ⟨q, hq, j', hocc', hst'⟩ := J_move h N i s k v j (by omega) hsi
      obtain ⟨s2, h2, j2, hocc, hst⟩ := ih (i + 1) _ (by omega) j'
      refine ⟨s2, by simp [reinsert, hsi, hq, h2], j2, by omega, ?_⟩
      intro k' v'
      rw [hst k' v', hst' k' v']

/-- after the loop every entry is settled: the buckets are well-formed for `2 * N` -/
theorem J_final (h : Nat → Nat) (N : Nat) (s : Slots) (hN : 0 < N) (j : J h N N s) : WF h s (2 * N) :=
  ⟨by omega, j.distinct, fun p k v hp hs => (j.settled p k v (by omega) hp hs).1⟩

end KV.Probing
