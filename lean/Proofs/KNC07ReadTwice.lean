import Proofs.KNC07Fanin
/-!
One more piece of C07's `h_wiring`: `SortAndReadTwice` (pipeline.cc) — the context-sorted output of an
order is written once and read by TWO readers, the primary chain (`MergeRight`) and the `second` chain
(`AddRight`) — and step 3 of one order assembled from the three chains (second, adder, primary).
-/
namespace KV.C07
open KV.KN KV.KN.Blocks KV.KN.ChainStages KV.KN.Interp KV.Chain

/-- a chain source's blocks reach position 1 unchanged, in order, each once — for any transducers behind
it, any number of chain blocks, every schedule -/
theorem source_delivers {τ β : Type} (T : Transducers τ) (cβ : BlockCode β) (blocks : List (List β))
    {b m : Nat} {c : Chain} (hb : 0 < b) (hm : 1 ≤ m)
    (hr : Chain.Reach (Chain.initT b m (blocks.map cβ.enc) T.toStageFn.tr) c) (hfin : c.main = .finished) :
    (valsOf (c.st 1).inp).map cβ.dec = blocks := by
  obtain ⟨hout, hinp⟩ := (KV.C17.chain_stream_transducer T hb hm hr).2 hfin 0 (by omega)
  rw [hinp, hout]
  show (valsOf ((blocks.map cβ.enc).map Item.val ++ [Item.poison])).map cβ.dec = _
  rw [valsOf_map_val, List.map_map]
  have : (cβ.dec ∘ cβ.enc) = id := funext cβ.dec_enc
  rw [this, List.map_id]

/-- any correct context sort, fed any permutation of records with distinct non-empty n-grams, returns
`mergeSort ctxLe` of them (the sorted permutation is unique) -/
theorem ctx_sort_perm_eq {S : Sorters} (hS : SortsOK S) {es es' : List Emit} (hperm : es'.Perm es)
    (hnd : (es.map (·.gram)).Nodup) (hne : ∀ e ∈ es, e.gram ≠ []) :
    S.ctx es' = es.mergeSort ctxLe :=
  sorted_perm_unique ctxLe (·.gram)
    (fun a ha b hb => ctxLe_antisymm (hne a ha) (hne b hb)) hnd
    ((hS.1 es').1.trans hperm) (List.mergeSort_perm es _) (hS.1 es').2
    (List.pairwise_mergeSort ctxLe_trans ctxLe_total es)

/-- **`SortAndReadTwice`: both readers receive the sorted stream.**  The context sort of an order (any
correct sort `S`, C16: `extSort_sorted` + `extSort_perm` / `codeSort_sorted_perm`; what is read back from
the spill file is what was written: C16 `spill_roundtrip`) has produced `S.ctx es'` from the records in
any arrival order `es'` (a permutation of the order's stream `es`, distinct non-empty n-grams).  The file
is read twice, into two chains, in two arbitrary block partitions, under two arbitrary schedules, with
arbitrary workers behind the sources.  Once both chains have finished, the record streams at the two
reader positions are equal to each other and to `es.mergeSort ctxLe`. -/
theorem sort_read_twice_same_pf {τ₁ τ₂ : Type} (T₁ : Transducers τ₁) (T₂ : Transducers τ₂) (cE : BlockCode Emit)
    {S : Sorters} (hS : SortsOK S) {es es' : List Emit} (hperm : es'.Perm es)
    (hnd : (es.map (·.gram)).Nodup) (hne : ∀ e ∈ es, e.gram ≠ [])
    (blocks₁ blocks₂ : List (List Emit)) (h₁ : blocks₁.flatten = S.ctx es') (h₂ : blocks₂.flatten = S.ctx es')
    {b₁ m₁ b₂ m₂ : Nat} {c₁ c₂ : Chain} (hb₁ : 0 < b₁) (hm₁ : 1 ≤ m₁) (hb₂ : 0 < b₂) (hm₂ : 1 ≤ m₂)
    (hr₁ : Chain.Reach (Chain.initT b₁ m₁ (blocks₁.map cE.enc) T₁.toStageFn.tr) c₁) (hfin₁ : c₁.main = .finished)
    (hr₂ : Chain.Reach (Chain.initT b₂ m₂ (blocks₂.map cE.enc) T₂.toStageFn.tr) c₂) (hfin₂ : c₂.main = .finished) :
    ((valsOf (c₁.st 1).inp).map cE.dec).flatten = ((valsOf (c₂.st 1).inp).map cE.dec).flatten
    ∧ ((valsOf (c₁.st 1).inp).map cE.dec).flatten = es.mergeSort ctxLe := by
  rw [source_delivers T₁ cE blocks₁ hb₁ hm₁ hr₁ hfin₁, source_delivers T₂ cE blocks₂ hb₂ hm₂ hr₂ hfin₂, h₁, h₂]
  exact ⟨rfl, ctx_sort_perm_eq hS hperm hnd hne⟩

/-- **step 3 of one order ≥ 2 over its three chains.**  From the adjusted stream `es` of the order,
arriving at the context sort in any order `es'`: the sorted file is read into the `second` chain
(blocks `blocks₂`, `AddRight` reads at its position 1) and into the primary chain (blocks `blocksB`);
`AddRight` is the source of the adder chain and writes its entries in any blocks `sumBlocks`;
`MergeRight` over `PruneNGramStream` is the worker of the primary chain and takes its sums from position
1 of the adder chain.  For every correct sort, all block partitions on the three chains, all numbers of
chain blocks and all triples of schedules: once the chains have finished, the concatenation of what
`MergeRight` hands on is the stage function of `Model/KN.lean` on the sorted stream.
(Same abstraction as `mergeRight_two_chains`: blocking cross-chain reads are folded into "the stream the
other chain delivers".) -/
theorem step3_order_delivers_pf {τ₂ τA : Type} (T₂ : Transducers τ₂) (TA : Transducers τA)
    (cE : BlockCode Emit) (cG : BlockCode Gam) (cU : BlockCode Uninterp) (d : Disc)
    {S : Sorters} (hS : SortsOK S) {es es' : List Emit} (hperm : es'.Perm es)
    (hnd : (es.map (·.gram)).Nodup) (hne : ∀ e ∈ es, e.gram ≠ [])
    (blocks₂ blocksB : List (List Emit)) (h₂ : blocks₂.flatten = S.ctx es') (hB : blocksB.flatten = S.ctx es')
    {b₂ m₂ bA mA bB mB : Nat} {c₂ cA cB : Chain}
    (hb₂ : 0 < b₂) (hm₂ : 1 ≤ m₂) (hbA : 0 < bA) (hmA : 1 ≤ mA) (hbB : 0 < bB) (hmB : 2 ≤ mB)
    (hr₂ : Chain.Reach (Chain.initT b₂ m₂ (blocks₂.map cE.enc) T₂.toStageFn.tr) c₂) (hfin₂ : c₂.main = .finished)
    (sumBlocks : List (List Gam))
    (hsum : sumBlocks.flatten = addRightStream d ((valsOf (c₂.st 1).inp).map cE.dec))
    (hrA : Chain.Reach (Chain.initT bA mA (sumBlocks.map cG.enc) TA.toStageFn.tr) cA) (hfinA : cA.main = .finished)
    (hrB : Chain.Reach (Chain.initT bB mB (blocksB.map cE.enc)
      (liftStage cE cU (mrBlock d) ⟨((valsOf (cA.st 1).inp).map cG.dec).flatten, none⟩).toStageFn.tr) cB)
    (hfinB : cB.main = .finished) :
    ((valsOf (cB.st 1).out).map cU.dec).flatten =
      ((ctxRuns (es.mergeSort ctxLe)).flatMap (mergeRight d)).filter (·.keep) := by
  have hsorted := ctx_sort_perm_eq hS hperm hnd hne
  have hin : ((valsOf (c₂.st 1).inp).map cE.dec).flatten = es.mergeSort ctxLe := by
    rw [source_delivers T₂ cE blocks₂ hb₂ hm₂ hr₂ hfin₂, h₂, hsorted]
  exact mergeRight_two_chains_pf TA cG cE cU d (es.mergeSort ctxLe) _ hin sumBlocks hsum blocksB
    (by rw [hB, hsorted]) hbA hmA hbB hmB hrA hfinA hrB hfinB

/-- … which is what `initialOrderWith` / `initialOrder` feed to the suffix sort -/
theorem step3_output_eq_initialOrder {S : Sorters} (hS : SortsOK S) (iu : Bool) {n : Nat} (hn : n ≠ 1) (d : Disc)
    {es : List Emit} (hnd : (es.map (·.gram)).Nodup) (hne : ∀ e ∈ es, e.gram ≠ []) :
    (initialOrderWith S iu n d es).1 =
      S.suf (((ctxRuns (es.mergeSort ctxLe)).flatMap (mergeRight d)).filter (·.keep))
    ∧ (initialOrderWith S iu n d es).1 = (initialOrder iu n d es).1 := by
  refine ⟨?_, by rw [initialOrderWith_eq hS iu n d hnd hne]⟩
  unfold initialOrderWith
  rw [ctx_sort_eq hS hnd hne]
  have : (n == 1) = false := by simpa using hn
  simp [this]

/-! ## the composition -/

/-- `SortAndReadTwice` + step 3 of one order, for all codings, sorts, partitions, geometries, schedules -/
def Step3Delivers : Prop :=
  ∀ (T₂ TA : Transducers Unit) (cE : BlockCode Emit) (cG : BlockCode Gam) (cU : BlockCode Uninterp) (d : Disc)
    (S : Sorters), SortsOK S → ∀ (es es' : List Emit), es'.Perm es → (es.map (·.gram)).Nodup → (∀ e ∈ es, e.gram ≠ []) →
    ∀ (blocks₂ blocksB : List (List Emit)), blocks₂.flatten = S.ctx es' → blocksB.flatten = S.ctx es' →
    ∀ (b₂ m₂ bA mA bB mB : Nat) (c₂ cA cB : Chain), 0 < b₂ → 1 ≤ m₂ → 0 < bA → 1 ≤ mA → 0 < bB → 2 ≤ mB →
    Chain.Reach (Chain.initT b₂ m₂ (blocks₂.map cE.enc) T₂.toStageFn.tr) c₂ → c₂.main = .finished →
    ∀ (sumBlocks : List (List Gam)), sumBlocks.flatten = addRightStream d ((valsOf (c₂.st 1).inp).map cE.dec) →
    Chain.Reach (Chain.initT bA mA (sumBlocks.map cG.enc) TA.toStageFn.tr) cA → cA.main = .finished →
    Chain.Reach (Chain.initT bB mB (blocksB.map cE.enc)
      (liftStage cE cU (mrBlock d) ⟨((valsOf (cA.st 1).inp).map cG.dec).flatten, none⟩).toStageFn.tr) cB →
    cB.main = .finished →
    ((valsOf (c₂.st 1).inp).map cE.dec).flatten = es.mergeSort ctxLe
    ∧ ((valsOf (cB.st 1).out).map cU.dec).flatten =
        ((ctxRuns (es.mergeSort ctxLe)).flatMap (mergeRight d)).filter (·.keep)

theorem step3_delivers_pf : Step3Delivers := by
  intro T₂ TA cE cG cU d S hS es es' hperm hnd hne blocks₂ blocksB h₂ hB b₂ m₂ bA mA bB mB c₂ cA cB
    hb₂ hm₂ hbA hmA hbB hmB hr₂ hfin₂ sumBlocks hsum hrA hfinA hrB hfinB
  refine ⟨?_, step3_order_delivers_pf T₂ TA cE cG cU d hS hperm hnd hne blocks₂ blocksB h₂ hB
    hb₂ hm₂ hbA hmA hbB hmB hr₂ hfin₂ sumBlocks hsum hrA hfinA hrB hfinB⟩
  rw [source_delivers T₂ cE blocks₂ hb₂ hm₂ hr₂ hfin₂, h₂, ctx_sort_perm_eq hS hperm hnd hne]

section final4
open KV.Vocab
variable {W : Type} [DecidableEq W]

/-- **C07, last form.**  As `lmplz_indep_final3`, the premise of `h_wiring` now also contains
`Step3Delivers` (`SortAndReadTwice`'s two readers receive the same sorted stream; step 3 of an order
≥ 2 over its second / adder / primary chains computes `initialOrderWith`'s stream before the suffix
sort).  All four premises are theorems, so `h_wiring` is still logically as strong as `h_stages`; what
REMAINS to be shown inside it:
* `AdjustCounts::Run`'s fan-out: one loop over the sorted order-`N` chain writing the `N` chains of all
  orders (`adjustStream` / `collapse`);
* `Interpolate` / `JointOrder`: lock-step fan-in over the `N` suffix-sorted chains plus the `N−1` gamma
  files written by `OnlyGamma`;
* step 3 of order 1 over its three chains (the single-chain part is `mergeRightUnigram_partition`);
* that the external sorts are correct sorts is `h_sorters` (C16); `--renumber` (not in the model); the
  printer and all float arithmetic (`render`). -/
theorem lmplz_indep_final4_pf {Mem Sched Out : Type}
    (I : Impl Mem Sched (List (List W)) Out) (render : Except Err Model → Out) (opts : Opts)
    (hN : 1 ≤ opts.cfg.order) (text : List (List W))
    (hash : W → Nat) (unk bos eos : W) (unkCapHash : Nat) (xOf : Mem → Nat)
    (hx : ∀ m, 1 ≤ xOf m ∧ xOf m ≤ 2^63)
    (h_enc : ∀ m t, I.encode m t = growableIds hash unk bos eos unkCapHash (xOf m) t)
    (hsp : unk ≠ bos ∧ unk ≠ eos ∧ bos ≠ eos)
    (hinj : InjOn hash ([unk, bos, eos] ++ text.flatten))
    (hnz : ∀ w, w ∈ [unk, bos, eos] ++ text.flatten → hash w ≠ 0)
    (hmax : (specEncode unk bos eos text).2 < kWordIndexMax)
    (h_sortImpl : ∀ m s blocks, ∃ pick plan,
      KV.Sort.extSort KV.Sort.suffixLt KV.Sort.combineCounts pick (toBlocks blocks) plan =
        some ((I.sortCombine m s blocks).map toRec))
    (sorters : Mem → Sched → Nat → Sorters)
    (h_wiring : SingleChainsDeliver → FaninDelivers → BarrierIndep → Step3Delivers →
      ∀ m s full, I.post m s opts full =
        render (estimateFromWith (sorters m s) opts.cfg opts.pruneVocab opts.fallback full))
    (h_sorters : ∀ m s n, SortsOK (sorters m s n))
    (hk : opts.cfg.keepSpecials = true)
    (m₁ m₂ : Mem) (s₁ s₂ : Sched) :
    lmplzOut I m₁ s₁ opts text = lmplzOut I m₂ s₂ opts text :=
  lmplz_indep_discharged2 I render opts hN text hash unk bos eos unkCapHash xOf hx h_enc hsp hinj hnz hmax
    h_sortImpl sorters (h_wiring single_chain_stages_pf fanin_delivers_pf barrier_indep_pf step3_delivers_pf)
    h_sorters hk m₁ m₂ s₁ s₂

end final4

end KV.C07
