import Model.Quant
/-! Proofs about the quantiser model (`Model/Quant.lean`): with at most as many values as bins every value is its own centre. -/
namespace KV.Quant
variable {α : Type}

/-- The order laws of the arithmetic the quantiser runs on.  IEEE-754 floats restricted to the values that occur
(no NaN, and not both `-0.0` and `+0.0` in one table — the code removes zero back-offs before training) satisfy them:
`<` is a strict total order with `-inf` at the bottom, the mean of one value is the value (a double sum of one float
divided by `1.0f` and rounded back), and `v - p` for `p < v` is never below `v - v = +0`. -/
structure Laws (ops : Ops α) : Prop where
  irrefl : ∀ a, ops.lt a a = false
  trans : ∀ a b c, ops.lt a b = true → ops.lt b c = true → ops.lt a c = true
  tri : ∀ a b, ops.lt a b = false → ops.lt b a = false → a = b
  negInf_min : ∀ a, ops.lt a ops.negInf = false
  mean_single : ∀ a, ops.mean [a] = a
  sub_close : ∀ p v, ops.lt p v = true → ops.lt (ops.sub v p) (ops.sub v v) = false

section
variable (ops : Ops α) (laws : Laws ops)
include laws

theorem le_trans' (a b c : α) (h1 : ops.lt b a = false) (h2 : ops.lt c b = false) : ops.lt c a = false := by
  cases hca : ops.lt c a with
  | false => rfl
  | true =>
    cases hab : ops.lt a b with
    | true => have := laws.trans c a b hca hab; rw [h2] at this; cases this
    | false => have := laws.tri a b hab h1; subst this; rw [h2] at hca; cases hca

omit laws in
theorem mem_takeWhile_pos (p : α → Bool) (l : List α) (x : α) (h : x ∈ l.takeWhile p) : p x = true := by
  induction l with
  | nil => simp at h
  | cons y l ih =>
    by_cases hy : p y = true
    · simp only [List.takeWhile_cons, hy, if_true, List.mem_cons] at h
      rcases h with h | h
      · rw [h]; exact hy
      · exact ih h
    · simp [hy] at h

omit laws in
theorem length_insertSorted (x : α) (l : List α) : (insertSorted ops x l).length = l.length + 1 := by
  induction l with
  | nil => rfl
  | cons y ys ih => simp only [insertSorted]; split <;> simp [ih]

omit laws in
theorem mem_insertSorted (x y : α) (l : List α) : y ∈ insertSorted ops x l ↔ y = x ∨ y ∈ l := by
  induction l with
  | nil => simp [insertSorted]
  | cons z zs ih =>
    simp only [insertSorted]
    split
    · simp
    · simp only [List.mem_cons, ih]
      constructor
      · rintro (h | h | h) <;> simp [h]
      · rintro (h | h | h) <;> simp [h]

theorem sorted_insertSorted (x : α) (l : List α) (h : l.Pairwise (fun a b => ops.lt b a = false)) :
    (insertSorted ops x l).Pairwise (fun a b => ops.lt b a = false) := by
  induction l with
  | nil => simp [insertSorted]
  | cons y ys ih =>
    have hp := List.pairwise_cons.mp h
    simp only [insertSorted]
    by_cases hxy : ops.lt x y = true
    · rw [if_pos hxy]
      have hyx : ops.lt y x = false := by
        cases hc : ops.lt y x with
        | false => rfl
        | true => have := laws.trans x y x hxy hc; rw [laws.irrefl] at this; cases this
      refine List.pairwise_cons.mpr ⟨?_, h⟩
      intro z hz
      rcases List.mem_cons.mp hz with hz | hz
      · rw [hz]; exact hyx
      · exact le_trans' ops laws x y z hyx (hp.1 z hz)
    · rw [if_neg hxy]
      refine List.pairwise_cons.mpr ⟨?_, ih hp.2⟩
      intro z hz
      rcases (mem_insertSorted ops x z ys).mp hz with hz | hz
      · rw [hz]; simpa using hxy
      · exact hp.1 z hz

omit laws in
theorem length_sortVals (vals : List α) : (sortVals ops vals).length = vals.length := by
  induction vals with
  | nil => rfl
  | cons v vs ih => simp [sortVals, length_insertSorted] at ih ⊢; exact ih

omit laws in
theorem mem_sortVals (v : α) (vals : List α) : v ∈ sortVals ops vals ↔ v ∈ vals := by
  induction vals with
  | nil => simp [sortVals]
  | cons w ws ih => simp [sortVals, mem_insertSorted] at ih ⊢; rw [ih]

theorem sortVals_sorted (vals : List α) : (sortVals ops vals).Pairwise (fun a b => ops.lt b a = false) := by
  induction vals with
  | nil => simp [sortVals]
  | cons v vs ih => exact sorted_insertSorted ops laws v _ ih

/-- the crux, independent of how the centres were made: on a sorted centre table that contains `v`, `Encode` finds a
centre equal to `v` -/
theorem encode_decode_of_mem [Inhabited α] (pre centers : List α) (hs : centers.Pairwise (fun a b => ops.lt b a = false))
    (v : α) (hv : v ∈ centers) :
    decode (pre ++ centers) (encode ops (pre ++ centers) pre.length v) = v := by
  -- j = number of leading centres below v
  obtain ⟨istar, hi, hiv⟩ := List.getElem_of_mem hv
  let tw := centers.takeWhile (fun c => ops.lt c v)
  have hsplit : centers = tw ++ centers.dropWhile (fun c => ops.lt c v) := (List.takeWhile_append_dropWhile).symm
  have htw : ∀ x ∈ tw, ops.lt x v = true := by
    intro x hx
    exact mem_takeWhile_pos _ _ x hx
  -- j ≤ istar, so j < length
  have hj : tw.length ≤ istar := by
    by_cases h : tw.length ≤ istar
    · exact h
    · exfalso
      have hlt : istar < tw.length := by omega
      have hmem : centers[istar] ∈ tw := by
        have e : centers[istar] = tw[istar] := by
          have : centers[istar]? = tw[istar]? := by
            conv => lhs; rw [hsplit]
            exact List.getElem?_append_left hlt
          rw [List.getElem?_eq_getElem hi, List.getElem?_eq_getElem hlt] at this
          exact Option.some.inj this
        rw [e]; exact List.getElem_mem hlt
      have := htw _ hmem
      rw [hiv, laws.irrefl] at this; cases this
  have hjl : tw.length < centers.length := by omega
  -- the centre at j is not below v …
  have hnot : ops.lt centers[tw.length] v = false := by
    have hdw : centers.dropWhile (fun c => ops.lt c v) ≠ [] := by
      intro h
      have : centers.length = tw.length := by
        conv => lhs; rw [hsplit, h]
        simp
      omega
    have hhead := List.head_dropWhile_not (fun c => ops.lt c v) hdw
    have e : centers[tw.length] = (centers.dropWhile (fun c => ops.lt c v)).head hdw := by
      have : centers[tw.length]? = (centers.dropWhile (fun c => ops.lt c v))[0]? := by
        conv => lhs; rw [hsplit]
        rw [List.getElem?_append_right (Nat.le_refl _)]; simp
      rw [List.getElem?_eq_getElem hjl] at this
      rw [List.head_eq_getElem]
      have h0 : 0 < (centers.dropWhile (fun c => ops.lt c v)).length := List.length_pos_iff.mpr hdw
      rw [List.getElem?_eq_getElem h0] at this
      exact Option.some.inj this
    rw [e]
    simpa using hhead
  -- … and not above it (sortedness, centre istar = v)
  have heq : centers[tw.length] = v := by
    apply laws.tri _ _ hnot
    by_cases h : tw.length = istar
    · subst h; rw [hiv]; exact laws.irrefl v
    · have := List.pairwise_iff_getElem.mp hs tw.length istar hjl hi (by omega)
      rw [hiv] at this; exact this
  have hlb : lowerBound ops (pre ++ centers) pre.length v = pre.length + tw.length := by
    simp [lowerBound, tw]
  have hget : (pre ++ centers).getD (pre.length + tw.length) default = v := by
    rw [List.getD_eq_getElem?_getD, List.getElem?_append_right (by omega)]
    simp [List.getElem?_eq_getElem hjl, heq]
  unfold encode decode
  simp only [hlb]
  by_cases h0 : tw.length = 0
  · simp only [h0, Nat.add_zero, if_true]
    rw [h0] at hget; simpa using hget
  · have hne1 : ¬ (pre.length + tw.length = pre.length) := by omega
    have hne2 : ¬ (pre.length + tw.length = (pre ++ centers).length) := by simp; omega
    rw [if_neg hne1, if_neg hne2]
    -- the centre before j is below v, so the tie-break keeps j
    have hprev : (pre ++ centers).getD (pre.length + tw.length - 1) default = tw[tw.length - 1]'(by omega) := by
      have e : pre.length + tw.length - 1 = pre.length + (tw.length - 1) := by omega
      rw [e, List.getD_eq_getElem?_getD, List.getElem?_append_right (by omega)]
      have : pre.length + (tw.length - 1) - pre.length = tw.length - 1 := by omega
      rw [this]
      have : centers[tw.length - 1]? = tw[tw.length - 1]? := by
        conv => lhs; rw [hsplit]
        exact List.getElem?_append_left (by omega)
      rw [this, List.getElem?_eq_getElem (by omega)]; rfl
    have hlt := htw _ (List.getElem_mem (l := tw) (n := tw.length - 1) (by omega))
    rw [hprev, hget, laws.sub_close _ _ hlt]
    simpa using hget

end


/-! ## `MakeBins` when the values fit the bins -/

/-- centre as a function of the running end index `finish`: `-inf` before the first value, else the last value consumed -/
def centerOf (ops : Ops α) (sorted : List α) (k : Nat) : α :=
  if k = 0 then ops.negInf else sorted.getD (k - 1) ops.negInf

theorem div_step (n bins i : Nat) (hb : 0 < bins) (hn : n ≤ bins) :
    n * i / bins ≤ n * (i + 1) / bins ∧ n * (i + 1) / bins ≤ n * i / bins + 1 := by
  constructor
  · exact Nat.div_le_div_right (Nat.mul_le_mul_left n (Nat.le_succ i))
  · have h1 : n * (i + 1) ≤ n * i + bins := by rw [Nat.mul_succ]; omega
    calc n * (i + 1) / bins ≤ (n * i + bins) / bins := Nat.div_le_div_right h1
      _ = n * i / bins + 1 := Nat.add_div_right _ hb

theorem div_le_n (n bins i : Nat) (hb : 0 < bins) (hi : i ≤ bins) : n * i / bins ≤ n := by
  have : n * i ≤ n * bins := Nat.mul_le_mul_left n hi
  calc n * i / bins ≤ n * bins / bins := Nat.div_le_div_right this
    _ = n := Nat.mul_div_cancel n hb

theorem makeBinsFrom_eq (ops : Ops α) (laws : Laws ops) (sorted : List α) (bins : Nat) (hn : sorted.length ≤ bins) :
    ∀ fuel i, i + fuel ≤ bins →
      makeBinsFrom ops sorted bins fuel i (centerOf ops sorted (sorted.length * i / bins))
        = (List.range' i fuel).map (fun t => centerOf ops sorted (sorted.length * (t + 1) / bins)) := by
  intro fuel
  induction fuel with
  | zero => intro i _; simp [makeBinsFrom]
  | succ fuel ih =>
    intro i hi
    have hb : 0 < bins := by omega
    obtain ⟨h1, h2⟩ := div_step sorted.length bins i hb hn
    have h3 := div_le_n sorted.length bins (i + 1) hb (by omega)
    have hc : binCenter ops sorted bins (centerOf ops sorted (sorted.length * i / bins)) i
        = centerOf ops sorted (sorted.length * (i + 1) / bins) := by
      unfold binCenter
      dsimp only
      by_cases he : sorted.length * (i + 1) / bins = sorted.length * i / bins
      · rw [if_pos he, he]
      · rw [if_neg he]
        have hf : sorted.length * (i + 1) / bins = sorted.length * i / bins + 1 := by omega
        have hlt : sorted.length * i / bins < sorted.length := by omega
        rw [hf]
        have ht : (sorted.drop (sorted.length * i / bins)).take (sorted.length * i / bins + 1 - sorted.length * i / bins)
            = [sorted[sorted.length * i / bins]] := by
          have : sorted.length * i / bins + 1 - sorted.length * i / bins = 1 := by omega
          rw [this]
          rw [List.drop_eq_getElem_cons hlt]
          rfl
        rw [ht, laws.mean_single]
        simp [centerOf, List.getD_eq_getElem?_getD, hlt]
    simp only [makeBinsFrom, List.range'_succ, List.map_cons, hc]
    rw [ih (i + 1) (by omega)]

theorem makeBins_eq (ops : Ops α) (laws : Laws ops) (vals : List α) (bins : Nat) (hn : vals.length ≤ bins) :
    makeBins ops vals bins
      = (List.range' 0 bins).map (fun t => centerOf ops (sortVals ops vals) ((sortVals ops vals).length * (t + 1) / bins)) := by
  have hl : (sortVals ops vals).length = vals.length := length_sortVals ops vals
  have := makeBinsFrom_eq ops laws (sortVals ops vals) bins (by omega) bins 0 (by omega)
  simpa [makeBins, centerOf] using this

/-- every value `k = 1..n` of the running end index is reached by some bin -/
theorem finish_hits (n bins k : Nat) (hn : n ≤ bins) (hk1 : 1 ≤ k) (hkn : k ≤ n) :
    ∃ t, t < bins ∧ n * (t + 1) / bins = k := by
  have hn0 : 0 < n := by omega
  have hb : 0 < bins := by omega
  -- c = ceil(k*bins/n)
  let c := (k * bins + n - 1) / n
  have hc1 : c * n ≤ k * bins + n - 1 := Nat.div_mul_le_self _ _
  have hc2 : k * bins + n - 1 < n * (c + 1) := Nat.lt_mul_div_succ (k * bins + n - 1) hn0
  -- treat the products as atoms
  have e1 : n * (c + 1) = c * n + n := by rw [Nat.mul_comm, Nat.succ_mul]
  have hlow : k * bins ≤ c * n := by omega
  have hhigh : c * n < k * bins + bins := by omega
  have hcpos : 1 ≤ c := by
    rcases Nat.eq_zero_or_pos c with h0 | h0
    · rw [h0] at hlow
      have : 0 < k * bins := Nat.mul_pos (by omega) hb
      omega
    · exact h0
  have hcb : c ≤ bins := by
    have h : c * n < (bins + 1) * n := by
      have : k * bins ≤ n * bins := Nat.mul_le_mul_right bins hkn
      have e : (bins + 1) * n = n * bins + n := by rw [Nat.succ_mul, Nat.mul_comm]
      omega
    have := Nat.lt_of_mul_lt_mul_right h
    omega
  refine ⟨c - 1, by omega, ?_⟩
  have ec : c - 1 + 1 = c := by omega
  rw [ec, Nat.mul_comm n c]
  apply Nat.div_eq_of_lt_le
  · rw [Nat.mul_comm] at hlow; rw [Nat.mul_comm]; exact hlow
  · rw [Nat.succ_mul]; omega


theorem centerOf_mono (ops : Ops α) (laws : Laws ops) (sorted : List α)
    (hs : sorted.Pairwise (fun a b => ops.lt b a = false)) (k1 k2 : Nat) (h12 : k1 ≤ k2) (h2 : k2 ≤ sorted.length) :
    ops.lt (centerOf ops sorted k2) (centerOf ops sorted k1) = false := by
  unfold centerOf
  by_cases h0 : k1 = 0
  · simp [h0, laws.negInf_min]
  · have hk2 : k2 ≠ 0 := by omega
    simp only [h0, hk2, if_false]
    have l1 : k1 - 1 < sorted.length := by omega
    have l2 : k2 - 1 < sorted.length := by omega
    simp only [List.getD_eq_getElem?_getD, List.getElem?_eq_getElem l1, List.getElem?_eq_getElem l2, Option.getD_some]
    by_cases he : k1 = k2
    · subst he; exact laws.irrefl _
    · exact List.pairwise_iff_getElem.mp hs (k1 - 1) (k2 - 1) l1 l2 (by omega)

theorem quant_exact [Inhabited α] (ops : Ops α) (laws : Laws ops) (vals : List α) (bins reserved : Nat) (pre : List α)
    (hpre : pre.length = reserved) (hfit : vals.length ≤ bins)
    (v : α) (hv : v ∈ vals) :
    decode (pre ++ makeBins ops vals bins) (encode ops (pre ++ makeBins ops vals bins) reserved v) = v := by
  subst hpre
  have hl : (sortVals ops vals).length = vals.length := length_sortVals ops vals
  have hsorted := sortVals_sorted ops laws vals
  have hb : 0 < bins := by
    have : 0 < vals.length := List.length_pos_of_mem hv
    omega
  rw [makeBins_eq ops laws vals bins hfit]
  apply encode_decode_of_mem ops laws
  · -- sorted centres
    rw [List.pairwise_map]
    refine (List.pairwise_lt_range' (s := 0) (n := bins)).imp_of_mem ?_
    intro t1 t2 _ hm2 h12
    have ht2 : t2 < bins := by simpa [List.mem_range'_1] using hm2
    apply centerOf_mono ops laws _ hsorted
    · exact Nat.div_le_div_right (Nat.mul_le_mul_left _ (by omega))
    · exact div_le_n _ bins (t2 + 1) hb (by omega)
  · -- v is a centre
    have hvs : v ∈ sortVals ops vals := (mem_sortVals ops v vals).mpr hv
    obtain ⟨idx, hidx, hval⟩ := List.getElem_of_mem hvs
    obtain ⟨t, ht, hk⟩ := finish_hits (sortVals ops vals).length bins (idx + 1) (by omega) (by omega) (by omega)
    rw [List.mem_map]
    refine ⟨t, by simp [List.mem_range'_1, ht], ?_⟩
    rw [hk]
    simp [centerOf, List.getD_eq_getElem?_getD, hidx, hval]

end KV.Quant
