import Model.FilterPhraseSearch
import Proofs.FilterInter2
/-!
Specification of the lazy phrase search and basic lemmas: `Acc` (a sentence is accepted at a
vertex: some path of arcs, all containing it, ends there), `Good` (no arc has dropped a valid
sentence at or above the low-water mark), list bookkeeping, `topArc`.
-/
namespace KV.Filter

/-- sentence `s` is accepted at vertex `v`: an arc into `v` contains it and so does (recursively)
its source vertex, or the arc starts before the n-gram -/
inductive PAcc (arcs : List PArc) : Nat → Nat → Prop where
  | start {v s : Nat} (a : PArc) (ha : a ∈ arcs) (hto : a.to = v) (hs : s ∈ a.sents) (hf : a.from_ = none) : PAcc arcs v s
  | step {v s : Nat} (a : PArc) (ha : a ∈ arcs) (hto : a.to = v) (hs : s ∈ a.sents) (u : Nat)
      (hf : a.from_ = some u) (hu : PAcc arcs u s) : PAcc arcs v s

/-- `s` is a sentence of arc `a` that its source vertex accepts -/
def Valid (arcs : List PArc) (a : PArc) (s : Nat) : Prop :=
  s ∈ a.sents ∧ (a.from_ = none ∨ ∃ u, a.from_ = some u ∧ PAcc arcs u s)

theorem acc_iff_valid {arcs : List PArc} {v s : Nat} :
    PAcc arcs v s ↔ ∃ a ∈ arcs, a.to = v ∧ Valid arcs a s := by
  constructor
  · intro h
    cases h with
    | start a ha hto hs hf => exact ⟨a, ha, hto, hs, Or.inl hf⟩
    | step a ha hto hs u hf hu => exact ⟨a, ha, hto, hs, Or.inr ⟨u, hf, hu⟩⟩
  · rintro ⟨a, ha, hto, hs, hf | ⟨u, hf, hu⟩⟩
    · exact PAcc.start a ha hto hs hf
    · exact PAcc.step a ha hto hs u hf hu

/-- the graph: posting lists strictly increasing, arcs lead to strictly higher vertices -/
structure WFG (arcs : List PArc) : Prop where
  inc : ∀ a ∈ arcs, Inc a.sents
  dag : ∀ a ∈ arcs, ∀ u, a.from_ = some u → u < a.to

/-- every arc's remaining range is a suffix of its `Sentences` and still contains every valid
sentence `≥ L` -/
structure Good (arcs : List PArc) (σ : PState) (L : Nat) : Prop where
  len : σ.length = arcs.length
  suf : ∀ i a, arcs[i]? = some a → restOf σ i <:+ a.sents
  keep : ∀ i a, arcs[i]? = some a → ∀ s, Valid arcs a s → L ≤ s → s ∈ restOf σ i

theorem Good.mono {arcs : List PArc} {σ : PState} {L L' : Nat} (h : Good arcs σ L) (hl : L ≤ L') : Good arcs σ L' :=
  ⟨h.len, h.suf, fun i a ha s hv hs => h.keep i a ha s hv (Nat.le_trans hl hs)⟩

theorem restOf_set (σ : PState) (i j : Nat) (r : List Nat) :
    restOf (σ.set i r) j = if j = i ∧ i < σ.length then r else restOf σ j := by
  unfold restOf
  simp only [List.getD_eq_getElem?_getD, List.getElem?_set]
  by_cases hji : i = j
  · subst hji
    by_cases hl : i < σ.length
    · simp [hl]
    · simp [hl, List.getElem?_eq_none (Nat.le_of_not_lt hl)]
  · have : ¬ (j = i ∧ i < σ.length) := fun h => hji h.1.symm
    simp [hji, this]

theorem idx_lt {arcs : List PArc} {i : Nat} {a : PArc} (h : arcs[i]? = some a) : i < arcs.length := by
  rcases Nat.lt_or_ge i arcs.length with hlt | hge
  · exact hlt
  · rw [List.getElem?_eq_none hge] at h; cases h

theorem mem_of_idx {arcs : List PArc} {i : Nat} {a : PArc} (h : arcs[i]? = some a) : a ∈ arcs :=
  List.mem_of_getElem? h

theorem good_init {arcs : List PArc} : Good arcs (initState arcs) 0 := by
  refine ⟨by simp [initState], ?_, ?_⟩
  · intro i a ha
    have : restOf (initState arcs) i = a.sents := by
      simp [restOf, initState, List.getD_eq_getElem?_getD, List.getElem?_map, ha]
    rw [this]; exact List.suffix_refl _
  · intro i a ha s hv _
    have : restOf (initState arcs) i = a.sents := by
      simp [restOf, initState, List.getD_eq_getElem?_getD, List.getElem?_map, ha]
    rw [this]; exact hv.1

/-- the remaining range of an arc is increasing -/
theorem Good.inc {arcs : List PArc} {σ : PState} {L : Nat} (h : Good arcs σ L) (hw : WFG arcs) {i : Nat} {a : PArc}
    (ha : arcs[i]? = some a) : Inc (restOf σ i) :=
  (hw.inc a (mem_of_idx ha)).suffix (h.suf i a ha)

theorem lowerBound_ge {h : Nat} {l : List Nat} (hl : Inc l) : ∀ x ∈ lowerBound h l, h ≤ x := by
  intro x hx
  cases hlb : lowerBound h l with
  | nil => rw [hlb] at hx; cases hx
  | cons y t =>
    have hy := lowerBound_head hlb
    have hinc : Inc (y :: t) := hl.suffix (by rw [← hlb]; exact lowerBound_suffix h l)
    rw [hlb] at hx
    have := hinc.head_le hx
    omega

/-! ### the top of the priority queue -/

/-- `best` is the least head among the non-empty arcs into `v` numbered below `i` -/
def BestOf (arcs : List PArc) (σ : PState) (v : Nat) (lim : Nat) (best : Option (Nat × Nat)) : Prop :=
  match best with
  | none => ∀ j b, j < lim → arcs[j]? = some b → b.to = v → restOf σ j = []
  | some (i, h) => (∃ a t, i < lim ∧ arcs[i]? = some a ∧ a.to = v ∧ restOf σ i = h :: t) ∧
      ∀ j b h' t', j < lim → arcs[j]? = some b → b.to = v → restOf σ j = h' :: t' → h ≤ h'

theorem topArcFrom_spec (arcs : List PArc) (σ : PState) (v : Nat) :
    ∀ (rest : List PArc) (i : Nat) (best : Option (Nat × Nat)), arcs.drop i = rest → BestOf arcs σ v i best →
      BestOf arcs σ v arcs.length (topArcFrom arcs σ v i rest best)
  | [], i, best, hd, hb => by
    have hi : arcs.length ≤ i := by
      rcases Nat.lt_or_ge i arcs.length with hlt | hge
      · have := List.drop_eq_nil_iff.mp hd; omega
      · exact hge
    simp only [topArcFrom]
    cases best with
    | none => intro j b hj hjb hbt; exact hb j b (by omega) hjb hbt
    | some p =>
      obtain ⟨i0, h0⟩ := p
      obtain ⟨⟨a, t, hlt, ha, hto, hr⟩, hmin⟩ := hb
      refine ⟨⟨a, t, idx_lt ha, ha, hto, hr⟩, ?_⟩
      intro j b h' t' hj hjb hbt hrj
      exact hmin j b h' t' (by have := idx_lt hjb; omega) hjb hbt hrj
  | a :: rest, i, best, hd, hb => by
    have hia : arcs[i]? = some a := by
      have : (arcs.drop i)[0]? = some a := by rw [hd]; rfl
      simpa using this
    have hd' : arcs.drop (i+1) = rest := by
      have := congrArg List.tail hd
      simpa [List.tail_drop] using this
    simp only [topArcFrom]
    apply topArcFrom_spec arcs σ v rest (i+1) _ hd'
    by_cases hv : a.to = v
    · simp only [hv, if_true]
      cases hr : restOf σ i with
      | nil =>
        simp only
        cases best with
        | none =>
          intro j b hj hjb hbt
          rcases Nat.lt_or_ge j i with hlt | hge
          · exact hb j b hlt hjb hbt
          · have : j = i := by omega
            subst this; exact hr
        | some p =>
          obtain ⟨i0, h0⟩ := p
          obtain ⟨⟨a0, t, hlt, ha0, hto, hr0⟩, hmin⟩ := hb
          refine ⟨⟨a0, t, by omega, ha0, hto, hr0⟩, ?_⟩
          intro j b h' t' hj hjb hbt hrj
          rcases Nat.lt_or_ge j i with hlt' | hge
          · exact hmin j b h' t' hlt' hjb hbt hrj
          · have : j = i := by omega
            subst this; rw [hr] at hrj; cases hrj
      | cons h t =>
        cases best with
        | none =>
          simp only
          refine ⟨⟨a, t, by omega, hia, hv, hr⟩, ?_⟩
          intro j b h' t' hj hjb hbt hrj
          rcases Nat.lt_or_ge j i with hlt' | hge
          · have := hb j b hlt' hjb hbt; rw [this] at hrj; cases hrj
          · have : j = i := by omega
            subst this; rw [hr] at hrj; injection hrj with e _; omega
        | some p =>
          obtain ⟨i0, h0⟩ := p
          obtain ⟨⟨a0, t0, hlt, ha0, hto, hr0⟩, hmin⟩ := hb
          simp only
          by_cases hlt2 : h < h0
          · simp only [hlt2, if_true]
            refine ⟨⟨a, t, by omega, hia, hv, hr⟩, ?_⟩
            intro j b h' t' hj hjb hbt hrj
            rcases Nat.lt_or_ge j i with hlt' | hge
            · have := hmin j b h' t' hlt' hjb hbt hrj; omega
            · have : j = i := by omega
              subst this; rw [hr] at hrj; injection hrj with e _; omega
          · simp only [hlt2, if_false]
            refine ⟨⟨a0, t0, by omega, ha0, hto, hr0⟩, ?_⟩
            intro j b h' t' hj hjb hbt hrj
            rcases Nat.lt_or_ge j i with hlt' | hge
            · exact hmin j b h' t' hlt' hjb hbt hrj
            · have : j = i := by omega
              subst this; rw [hr] at hrj; injection hrj with e _; omega
    · simp only [hv, if_false]
      cases best with
      | none =>
        intro j b hj hjb hbt
        rcases Nat.lt_or_ge j i with hlt | hge
        · exact hb j b hlt hjb hbt
        · have : j = i := by omega
          subst this; rw [hia] at hjb; injection hjb with e; subst e; exact absurd hbt hv
      | some p =>
        obtain ⟨i0, h0⟩ := p
        obtain ⟨⟨a0, t, hlt, ha0, hto, hr0⟩, hmin⟩ := hb
        refine ⟨⟨a0, t, by omega, ha0, hto, hr0⟩, ?_⟩
        intro j b h' t' hj hjb hbt hrj
        rcases Nat.lt_or_ge j i with hlt' | hge
        · exact hmin j b h' t' hlt' hjb hbt hrj
        · have : j = i := by omega
          subst this; rw [hia] at hjb; injection hjb with e; subst e; exact absurd hbt hv

theorem topArc_spec (arcs : List PArc) (σ : PState) (v : Nat) : BestOf arcs σ v arcs.length (topArc arcs σ v) := by
  unfold topArc
  apply topArcFrom_spec arcs σ v arcs 0 none (by simp)
  intro j b hj; omega

end KV.Filter
