import Proofs.ProbingBuildP
/-! State-level key-indexed invariant `StP`, denotation of payload references, and the primitive operations
(`St.get`, `St.modify`, `findOrInsert`, `find`) as operations on the `want` function. -/
namespace KV.ProbingBuild
open KV.Arpa KV.Table KV.Score KV.ProbingLM

structure StP (combine : Nat → Word → Nat) (N : Nat) (caps : Nat → Nat) (U : Nat) (s : St) (Ks : Nat → List Key) (want : Key → W) : Prop where
  midlen : s.mid.length = N - 2
  tabs : ∀ m, 2 ≤ m → m ≤ N → ∃ M, OrdP combine (Ks m) (caps m) (tbl N s m) M want
  klen : ∀ m, ∀ k ∈ Ks m, k.length = m
  ulen : s.uni.length = U
  uni : ∀ w, s.uni.getD w default = want [w]

/-- the key a payload reference denotes -/
def Den (N U : Nat) (Ks : Nat → List Key) : Ref → Key → Prop
  | .uni w, k => k = [w] ∧ w < U
  | .mid om2 i, k => om2 + 2 < N ∧ ∃ hi : i < (Ks (om2 + 2)).length, (Ks (om2 + 2))[i] = k

theorem stP_congr {combine : Nat → Word → Nat} {N : Nat} {caps : Nat → Nat} {U : Nat} {s : St} {Ks Ks' : Nat → List Key} {want want' : Key → W}
    (h : StP combine N caps U s Ks want) (hK : ∀ m, Ks' m = Ks m) (hw : ∀ k, want' k = want k) : StP combine N caps U s Ks' want' := by
  have h1 : Ks' = Ks := funext hK
  have h2 : want' = want := funext hw
  rw [h1, h2]; exact h

theorem den_congr {N U : Nat} {Ks Ks' : Nat → List Key} (hK : ∀ m, Ks' m = Ks m) (r : Ref) (k : Key) (h : Den N U Ks r k) : Den N U Ks' r k := by
  have h1 : Ks' = Ks := funext hK
  rw [h1]; exact h

theorem stP_get {combine : Nat → Word → Nat} {N : Nat} {caps : Nat → Nat} {U : Nat} {s : St} {Ks : Nat → List Key} {want : Key → W}
    (h : StP combine N caps U s Ks want) (r : Ref) (k : Key) (hd : Den N U Ks r k) : s.get r = want k := by
  cases r with
  | uni w => obtain ⟨hk, _⟩ := hd; subst hk; exact h.uni w
  | mid om2 i =>
    obtain ⟨hlt, hi, hk⟩ := hd
    obtain ⟨M, hP⟩ := h.tabs (om2 + 2) (by omega) (by omega)
    have := hP.pay i hi
    rw [tbl_mid N s (om2 + 2) (by omega)] at this
    simp only [Nat.add_sub_cancel] at this
    rw [← hk]; exact this

theorem stP_modify {combine : Nat → Word → Nat} {N : Nat} {caps : Nat → Nat} {U : Nat} {s : St} {Ks : Nat → List Key} {want : Key → W}
    (h : StP combine N caps U s Ks want) (r : Ref) (k : Key) (hd : Den N U Ks r k) (f : W → W) :
    StP combine N caps U (s.modify r f) Ks (updW want k (f (want k))) := by
  cases r with
  | uni w =>
    obtain ⟨hk, hw⟩ := hd; subst hk
    refine ⟨h.midlen, ?_, h.klen, ?_, ?_⟩
    · intro m hm2 hmN
      obtain ⟨M, hP⟩ := h.tabs m hm2 hmN
      refine ⟨M, ordP_congr (show OrdP combine (Ks m) (caps m) (tbl N s m) M want from hP) ?_⟩
      intro k hk
      have := h.klen m k hk
      have hne : k ≠ [w] := by intro he; rw [he] at this; simp at this; omega
      simp [updW, hne]
    · show (s.uni.set w _).length = U
      simp [h.ulen]
    · intro w'
      show (s.uni.set w (f (s.uni.getD w default))).getD w' default = _
      rw [getD_set, h.uni w]
      by_cases hww : w' = w
      · subst hww; rw [if_pos ⟨rfl, by rw [h.ulen]; exact hw⟩]; simp [updW]
      · rw [if_neg (fun hc => hww hc.1), h.uni w']
        have : [w'] ≠ [w] := by simpa using hww
        simp [updW, this]
  | mid om2 i =>
    obtain ⟨hlt, hi, hk⟩ := hd
    have hml : om2 < s.mid.length := by rw [h.midlen]; omega
    have hs : s.modify (.mid om2 i) f = setMid s om2 (withPay (s.mid.getD om2 default)
        ((s.mid.getD om2 default).pay.set i (f ((s.mid.getD om2 default).pay.getD i default)))) := rfl
    rw [hs]
    have hlk := h.klen (om2 + 2) k (by rw [← hk]; exact List.getElem_mem hi)
    refine ⟨by simp [setMid, h.midlen], ?_, h.klen, h.ulen, ?_⟩
    · intro m hm2 hmN
      obtain ⟨M, hP⟩ := h.tabs m hm2 hmN
      rw [tbl_setMid N s om2 _ m hml]
      by_cases hc : m ≠ N ∧ m - 2 = om2
      · rw [if_pos hc]
        have hm : m = om2 + 2 := by omega
        subst hm
        have hP' := ordP_modify hP i hi f
        rw [tbl_mid N s (om2 + 2) hc.1] at hP'
        simp only [Nat.add_sub_cancel] at hP'
        rw [hk] at hP'
        exact ⟨M, hP'⟩
      · rw [if_neg hc]
        refine ⟨M, ordP_congr hP ?_⟩
        intro k' hk'
        have hl' := h.klen m k' hk'
        have hne : k' ≠ k := by intro he; rw [he] at hl'; omega
        simp [updW, hne]
    · intro w
      show s.uni.getD w default = _
      rw [h.uni w]
      have hne : [w] ≠ k := by intro he; rw [← he] at hlk; simp at hlk
      simp [updW, hne]

/-- `FindOrInsert` of a key that is not stored appends it with the given payload -/
theorem stP_foi_new {combine : Nat → Word → Nat} {N : Nat} {caps : Nat → Nat} {U : Nat} {s : St} {Ks : Nat → List Key} {want : Key → W}
    (h : StP combine N caps U s Ks want) (j : Nat) (hj2 : 2 ≤ j) (hjN : j < N) (k : Key) (hkl : k.length = j) (w : W)
    (hnew : k ∉ Ks j) (hfresh : ∀ k' ∈ Ks j, hashOf combine k' ≠ hashOf combine k) (hcap : (Ks j).length + 1 < caps j) :
    ∃ o', (s.mid.getD (j - 2) default).findOrInsert (hashOf combine k) w = .ok (false, (Ks j).length, o') ∧
      StP combine N caps U (setMid s (j - 2) o') (fun m => if m = j then Ks j ++ [k] else Ks m) (updW want k w) := by
  obtain ⟨M, hP⟩ := h.tabs j hj2 (by omega)
  rw [tbl_mid N s j (by omega)] at hP
  obtain ⟨o', hfoi, oi', hpay', hN', hent'⟩ := ord_findOrInsert_new hP.inv (hashOf combine k) w (hP.find_fresh k hfresh)
    (by rw [hP.ent, hP.cap]; exact hcap)
  rw [hP.plen] at hfoi
  have hml : j - 2 < s.mid.length := by rw [h.midlen]; omega
  refine ⟨o', hfoi, by simp [setMid, h.midlen], ?_, ?_, h.ulen, ?_⟩
  · intro m hm2 hmN
    rw [tbl_setMid N s (j - 2) _ m hml]
    by_cases hc : m ≠ N ∧ m - 2 = j - 2
    · rw [if_pos hc]
      have hm : m = j := by omega
      subst hm
      simp only [if_true]
      exact ⟨_, ordP_append hP k w hnew hfresh o' oi' hpay' hN' hent'⟩
    · rw [if_neg hc]
      have hm : m ≠ j := by omega
      simp only [hm, if_false]
      obtain ⟨M', hP'⟩ := h.tabs m hm2 hmN
      refine ⟨M', ordP_congr hP' ?_⟩
      intro k' hk'
      have hl' := h.klen m k' hk'
      have hne : k' ≠ k := by intro he; rw [he] at hl'; omega
      simp [updW, hne]
  · intro m k' hk'
    by_cases hm : m = j
    · subst hm
      simp only [if_true, List.mem_append, List.mem_singleton] at hk'
      rcases hk' with hk' | hk'
      · exact h.klen m k' hk'
      · rw [hk']; exact hkl
    · simp only [hm, if_false] at hk'
      exact h.klen m k' hk'
  · intro w'
    show s.uni.getD w' default = _
    rw [h.uni w']
    have hne : [w'] ≠ k := by intro he; rw [← he] at hkl; simp at hkl; omega
    simp [updW, hne]

/-- a stored key is found at an index denoting it -/
theorem stP_lookup {combine : Nat → Word → Nat} {N : Nat} {caps : Nat → Nat} {U : Nat} {s : St} {Ks : Nat → List Key} {want : Key → W}
    (h : StP combine N caps U s Ks want) (j : Nat) (hj2 : 2 ≤ j) (hjN : j < N) (k : Key) (hk : k ∈ Ks j) (w : W) :
    ∃ i, Den N U Ks (.mid (j - 2) i) k ∧
      (s.mid.getD (j - 2) default).findOrInsert (hashOf combine k) w = .ok (true, i, s.mid.getD (j - 2) default) ∧
      (s.mid.getD (j - 2) default).find (hashOf combine k) = .ok (some i) := by
  obtain ⟨M, hP⟩ := h.tabs j hj2 (by omega)
  rw [tbl_mid N s j (by omega)] at hP
  obtain ⟨i, hi, hki, hM⟩ := hP.find_mem k hk
  have hj : j - 2 + 2 = j := by omega
  refine ⟨i, ⟨by omega, ?_⟩, ord_findOrInsert_found hP.inv _ w i hM, by rw [ord_find hP.inv, hM]⟩
  rw [hj]; exact ⟨hi, hki⟩

theorem setMid_self (s : St) (l : Nat) (hl : l < s.mid.length) : setMid s l (s.mid.getD l default) = s := by
  unfold setMid
  have : s.mid.set l (s.mid.getD l default) = s.mid := by
    rw [List.getD_eq_getElem?_getD, List.getElem?_eq_getElem hl]; exact List.set_getElem_self hl
  rw [this]

end KV.ProbingBuild
