import Proofs.ProbingBuildStP
/-! Loop lemmas of the builder for blank chains of any length: `findLower`, `fillBlanks`, `markChain` as updates of
the key-indexed `want` function. -/
namespace KV.ProbingBuild
open KV.Arpa KV.Table KV.Score KV.ProbingLM

/-- a sequence of payload updates, each at one key -/
def applyUpd (want : Key → W) : List (Key × (W → W)) → Key → W
  | [] => want
  | u :: us => applyUpd (updW want u.1 (u.2 (want u.1))) us

/-- the final payload at a key: the updates addressed to it, in order -/
theorem applyUpd_eval (us : List (Key × (W → W))) : ∀ (want : Key → W) (k : Key),
    applyUpd want us k = (us.filter (fun u => u.1 == k)).foldl (fun w u => u.2 w) (want k) := by
  induction us with
  | nil => intro want k; rfl
  | cons u us ih =>
    intro want k
    show applyUpd (updW want u.1 (u.2 (want u.1))) us k = _
    rw [ih, List.filter_cons]
    by_cases hk : u.1 = k
    · subst hk; simp [updW]
    · have hk' : k ≠ u.1 := fun h => hk h.symm
      simp [updW, hk, hk']

theorem applyUpd_append (us vs : List (Key × (W → W))) : ∀ want, applyUpd want (us ++ vs) = applyUpd (applyUpd want us) vs := by
  induction us with
  | nil => intro want; rfl
  | cons u us ih => intro want; exact ih _

theorem take_one_headD (p : Key) (hp : 1 ≤ p.length) : p.take 1 = [p.headD 0] := by
  cases p with
  | nil => simp at hp
  | cons x xs => simp

/-- `FindLower` on a chain: the keys of orders `b+1 .. f+1` are appended as blanks, the basis (order `b`) is found -/
theorem findLower_chain (combine : Nat → Word → Nat) (N : Nat) (caps : Nat → Nat) (U : Nat) (p : Key) (b : Nat) (hb : 1 ≤ b) :
    ∀ (f : Nat) (s : St) (Ks : Nat → List Key) (want : Key → W) (between : List Ref),
      StP combine N caps U s Ks want → f + 1 < N → b ≤ f + 1 → f + 1 ≤ p.length →
      (b = 1 ∨ p.take b ∈ Ks b) → p.headD 0 < U →
      (∀ j, b < j → j ≤ f + 1 → p.take j ∉ Ks j ∧ (∀ k' ∈ Ks j, hashOf combine k' ≠ hashOf combine (p.take j)) ∧
        (Ks j).length + 1 < caps j) →
      ∃ s' refs Ks' want', findLower combine p f s between = .ok (s', between ++ refs) ∧
        StP combine N caps U s' Ks' want' ∧
        (∀ m, Ks' m = if b < m ∧ m ≤ f + 1 then Ks m ++ [p.take m] else Ks m) ∧
        (∀ k, want' k = if b < k.length ∧ k.length ≤ f + 1 ∧ k = p.take k.length then blankW else want k) ∧
        refs.length = f + 2 - b ∧ ∀ i (hi : i < refs.length), Den N U Ks' refs[i] (p.take (f + 1 - i)) := by
  intro f
  induction f with
  | zero =>
    intro s Ks want between h _ hbf hpl _ hU _
    have hb1 : b = 1 := by omega
    subst hb1
    refine ⟨s, [.uni (p.headD 0)], Ks, want, rfl, h, ?_, ?_, rfl, ?_⟩
    · intro m; rw [if_neg (by omega)]
    · intro k; rw [if_neg (by omega)]
    · intro i hi
      have hi0 : i = 0 := by simp at hi; omega
      subst hi0
      exact ⟨take_one_headD p (by omega), hU⟩
  | succ f ih =>
    intro s Ks want between h hfN hbf hpl hbasis hU hmiss
    have hml : f < s.mid.length := by rw [h.midlen]; omega
    by_cases hbe : b = f + 2
    · have hmem : p.take (f + 2) ∈ Ks (f + 2) := by
        rcases hbasis with h1 | h1
        · omega
        · rw [hbe] at h1; exact h1
      obtain ⟨i, hden, hfoi, _⟩ := stP_lookup h (f + 2) (by omega) (by omega) _ hmem blankW
      simp only [Nat.add_sub_cancel] at hfoi hden
      refine ⟨s, [.mid f i], Ks, want, ?_, h, ?_, ?_, by simp; omega, ?_⟩
      · simp only [findLower, hfoi, bind, Except.bind, if_true]
        have := setMid_self s f hml
        unfold setMid at this
        rw [this]
      · intro m; rw [if_neg (by omega)]
      · intro k; rw [if_neg (by omega)]
      · intro i' hi'
        have hi0 : i' = 0 := by simp at hi'; omega
        subst hi0
        exact hden
    · obtain ⟨hnew, hfresh, hcap⟩ := hmiss (f + 2) (by omega) (by omega)
      obtain ⟨o', hfoi, h1⟩ := stP_foi_new h (f + 2) (by omega) (by omega) (p.take (f + 2))
        (by simp; omega) blankW hnew hfresh hcap
      simp only [Nat.add_sub_cancel] at hfoi h1
      have hK1 : ∀ m, m ≠ f + 2 → (fun m => if m = f + 2 then Ks (f + 2) ++ [p.take (f + 2)] else Ks m) m = Ks m := by
        intro m hm; simp [hm]
      obtain ⟨s', refs, Ks', want', hfl, h', hKs', hw', hrl, hden⟩ := ih (setMid s f o') _ _
        (between ++ [.mid f (Ks (f + 2)).length]) h1 (by omega) (by omega) (by omega)
        (by rcases hbasis with hb1 | hb1
            · exact Or.inl hb1
            · right; rw [if_neg (by omega)]; exact hb1)
        hU
        (by intro j hj1 hj2
            rw [if_neg (by omega : ¬ j = f + 2)]
            exact hmiss j hj1 (by omega))
      refine ⟨s', .mid f (Ks (f + 2)).length :: refs, Ks', want', ?_, h', ?_, ?_, by simp [hrl]; omega, ?_⟩
      · simp only [findLower, hfoi, bind, Except.bind, Bool.false_eq_true, if_false]
        have := hfl
        simp only [setMid, List.append_assoc, List.singleton_append] at this
        exact this
      · intro m
        rw [hKs' m]
        by_cases hm : m = f + 2
        · subst hm
          have c1 : ¬ (b < f + 2 ∧ f + 2 ≤ f + 1) := by omega
          have c2 : b < f + 2 ∧ f + 2 ≤ f + 1 + 1 := by omega
          rw [if_neg c1, if_pos c2]
          simp
        · simp only [hm, if_false]
          by_cases hc : b < m ∧ m ≤ f + 1
          · rw [if_pos hc, if_pos (by omega)]
          · rw [if_neg hc, if_neg (by omega)]
      · intro k
        rw [hw' k]
        by_cases hc : b < k.length ∧ k.length ≤ f + 1 ∧ k = p.take k.length
        · rw [if_pos hc, if_pos ⟨hc.1, by omega, hc.2.2⟩]
        · rw [if_neg hc]
          unfold updW
          by_cases hk : k = p.take (f + 2)
          · rw [if_pos hk]
            have hkl : k.length = f + 2 := by rw [hk]; simp; omega
            rw [if_pos ⟨by omega, by omega, by rw [hkl]; exact hk⟩]
          · rw [if_neg hk, if_neg]
            intro hc2
            by_cases hkl : k.length = f + 2
            · rw [hkl] at hc2; exact hk hc2.2.2
            · exact hc ⟨hc2.1, by omega, hc2.2.2⟩
      · intro i hi
        cases i with
        | zero =>
          refine ⟨by omega, ?_⟩
          show ∃ hi : (Ks (f + 2)).length < (Ks' (f + 2)).length, (Ks' (f + 2))[(Ks (f + 2)).length] = p.take (f + 1 + 1 - 0)
          have hk2 := hKs' (f + 2)
          rw [if_neg (by omega)] at hk2
          simp only [if_true] at hk2
          refine ⟨by rw [hk2]; simp, ?_⟩
          simp [hk2]
        | succ i =>
          have := hden i (by simp at hi; omega)
          have he : f + 1 + 1 - (i + 1) = f + 1 - i := by omega
          rw [he]
          exact this

/-- the updates of the blank-probability loop of `AdjustLower`, from order `β` with `c` blanks to fill -/
def fillUs (want : Key → W) (p : Key) : Nat → Nat → Rat → List (Key × (W → W))
  | 0, _, _ => []
  | c+1, β, prob =>
    (((p.drop 1).take β, setExtension) : Key × (W → W)) ::
      ((p.take (β + 1), fun w => setProb w (prob + (setExtension (want ((p.drop 1).take β))).backoff)) : Key × (W → W)) ::
      fillUs want p c (β + 1) (prob + (setExtension (want ((p.drop 1).take β))).backoff)

theorem fillUs_congr (want want' : Key → W) (p : Key) : ∀ (c β : Nat) (prob : Rat),
    (∀ i, i < c → want' ((p.drop 1).take (β + i)) = want ((p.drop 1).take (β + i))) →
    fillUs want' p c β prob = fillUs want p c β prob := by
  intro c
  induction c with
  | zero => intro β prob _; rfl
  | succ c ih =>
    intro β prob h
    have h0 := h 0 (by omega)
    simp only [Nat.add_zero] at h0
    unfold fillUs
    rw [h0, ih (β + 1) _ (fun i hi => by have := h (i + 1) (by omega); rw [show β + 1 + i = β + (i + 1) by omega]; exact this)]

theorem fillBlanks_chain (combine : Nat → Word → Nat) (N : Nat) (caps : Nat → Nat) (U : Nat) (p : Key) (Ks : Nat → List Key) :
    ∀ (changes : List Ref) (β : Nat) (prob : Rat) (s : St) (want : Key → W),
      StP combine N caps U s Ks want → 2 ≤ β → β + changes.length < N →
      (∀ i (hi : i < changes.length), Den N U Ks changes[i] (p.take (β + 1 + i))) →
      (∀ i, i < changes.length → (p.drop 1).take (β + i) ∈ Ks (β + i)) →
      (∀ i i', i < changes.length → i' < changes.length → (p.drop 1).take (β + i) ≠ p.take (β + 1 + i')) →
      ∃ s', fillBlanks combine false p changes β prob s = .ok s' ∧
        StP combine N caps U s' Ks (applyUpd want (fillUs want p changes.length β prob)) := by
  intro changes
  induction changes with
  | nil => intro β prob s want h _ _ _ _ _; exact ⟨s, rfl, h⟩
  | cons ch more ih =>
    intro β prob s want h hβ hN hden hctx hne
    have hc0 := hctx 0 (by simp)
    simp only [Nat.add_zero] at hc0
    obtain ⟨ic, hdc, _, hfind⟩ := stP_lookup h β hβ (by simp at hN; omega) _ hc0 blankW
    have h1 := stP_modify h _ _ hdc setExtension
    have hget := stP_get h1 _ _ hdc
    have hd0 := hden 0 (by simp)
    simp only [Nat.add_zero, List.getElem_cons_zero] at hd0
    have h2 := stP_modify h1 ch _ hd0 (fun w => setRest false (setProb w (prob + (setExtension (want ((p.drop 1).take β))).backoff)))
    have hpr : ((s.modify (.mid (β - 2) ic) setExtension).get (.mid (β - 2) ic)).backoff =
        (setExtension (want ((p.drop 1).take β))).backoff := by
      rw [hget]; simp [updW]
    obtain ⟨s', hfb, h'⟩ := ih (β + 1) (prob + (setExtension (want ((p.drop 1).take β))).backoff) _ _ h2 (by omega)
      (by simp at hN ⊢; omega)
      (by intro i hi
          have := hden (i + 1) (by simp; omega)
          simp only [List.getElem_cons_succ] at this
          rw [show β + 1 + 1 + i = β + 1 + (i + 1) by omega]; exact this)
      (by intro i hi
          have := hctx (i + 1) (by simp; omega)
          rw [show β + 1 + i = β + (i + 1) by omega]; exact this)
      (by intro i i' hi hi'
          have := hne (i + 1) (i' + 1) (by simp; omega) (by simp; omega)
          rw [show β + 1 + i = β + (i + 1) by omega, show β + 1 + 1 + i' = β + 1 + (i' + 1) by omega]; exact this)
    refine ⟨s', ?_, ?_⟩
    · simp only [fillBlanks, hfind, bind, Except.bind, hpr]
      exact hfb
    · have hcg : fillUs (updW (updW want ((p.drop 1).take β) (setExtension (want ((p.drop 1).take β)))) (p.take (β + 1))
            ((fun w => setRest false (setProb w (prob + (setExtension (want ((p.drop 1).take β))).backoff)))
              (updW want ((p.drop 1).take β) (setExtension (want ((p.drop 1).take β))) (p.take (β + 1))))) p more.length (β + 1)
            (prob + (setExtension (want ((p.drop 1).take β))).backoff) =
          fillUs want p more.length (β + 1) (prob + (setExtension (want ((p.drop 1).take β))).backoff) := by
        apply fillUs_congr
        intro i hi
        have hm := hctx (i + 1) (by simp; omega)
        have hl1 := h.klen _ _ hm
        have hl0 := h.klen _ _ hc0
        have hne1 : (p.drop 1).take (β + 1 + i) ≠ p.take (β + 1) := by
          have := hne (i + 1) 0 (by simp; omega) (by simp)
          rw [show β + 1 + i = β + (i + 1) by omega]; exact this
        have hne2 : (p.drop 1).take (β + 1 + i) ≠ (p.drop 1).take β := by
          intro he
          rw [show β + 1 + i = β + (i + 1) by omega] at he
          rw [he] at hl1; omega
        simp only [updW, hne1, hne2, if_false]
      rw [hcg] at h'
      exact h'

theorem markChain_chain (combine : Nat → Word → Nat) (N : Nat) (caps : Nat → Nat) (U : Nat) (Ks : Nat → List Key) :
    ∀ (refs : List Ref) (keys : List Key) (lr : Rat) (s : St) (want : Key → W),
      StP combine N caps U s Ks want → refs.length = keys.length →
      (∀ i (hi : i < refs.length) (hi' : i < keys.length), Den N U Ks refs[i] keys[i]) →
      StP combine N caps U (markChain false refs lr s) Ks (applyUpd want (keys.map fun k => (k, clr))) := by
  intro refs
  induction refs with
  | nil =>
    intro keys lr s want h hl _
    cases keys with
    | nil => exact h
    | cons k ks => simp at hl
  | cons r more ih =>
    intro keys lr s want h hl hden
    cases keys with
    | nil => simp at hl
    | cons k ks =>
      have hd0 := hden 0 (by simp) (by simp)
      simp only [List.getElem_cons_zero] at hd0
      have h1 := stP_modify h r k hd0 (fun w => (markExtends false w lr).1)
      exact ih ks _ _ _ h1 (by simpa using hl)
        (fun i hi hi' => by
          have := hden (i + 1) (by simp; omega) (by simp; omega)
          simpa using this)

/-- the general branch of `AdjustLower` (at least one blank between the line and its basis), `NoRestBuild` -/
def adjustGen (combine : Nat → Word → Nat) (ar : Rat) (g : List Word) (n : Nat) (between : List Ref) (s : St) : Except BErr St := do
  let basisRef := between.getLastD (.uni 0)
  let prob : Rat := -(s.get basisRef).mag
  let basis := n - between.length
  let changes := (between.dropLast).reverse
  let (s1, prob1, changes1, basis1) ←
    if basis == 1 then
      match changes with
      | [] => .ok (s, prob, changes, basis)
      | ch :: more =>
        let s1 := s.modify (.uni (g.getD 1 0)) setExtension
        let p1 := prob + (s1.get (.uni (g.getD 1 0))).backoff
        let s2 := s1.modify ch (fun w => setRest false (setProb w p1))
        (.ok (s2, p1, more, 2) : Except BErr (St × Rat × List Ref × Nat))
    else .ok (s, prob, changes, basis)
  let s2 ← fillBlanks combine false g changes1 basis1 prob1 s1
  .ok (markChain false between ar s2)

theorem adjustLower_ge2 (combine : Nat → Word → Nat) (ar : Rat) (g : List Word) (n : Nat) (between : List Ref) (s : St)
    (h : 2 ≤ between.length) : adjustLower combine false ar g n between s = adjustGen combine ar g n between s := by
  match between, h with
  | [], h => simp at h
  | [_], h => simp at h
  | _ :: _ :: _, _ => rfl

theorem adjustGen_ge2 (combine : Nat → Word → Nat) (ar : Rat) (g : List Word) (n : Nat) (between : List Ref) (s : St)
    (hb : n - between.length ≠ 1) :
    adjustGen combine ar g n between s =
      (fillBlanks combine false g (between.dropLast).reverse (n - between.length) (-(s.get (between.getLastD (.uni 0))).mag) s >>=
        fun s2 => .ok (markChain false between ar s2)) := by
  have : (n - between.length == 1) = false := by simpa using hb
  simp only [adjustGen, this, Bool.false_eq_true, if_false, bind, Except.bind]

theorem adjustGen_one (combine : Nat → Word → Nat) (ar : Rat) (g : List Word) (n : Nat) (between : List Ref) (s : St)
    (ch : Ref) (more : List Ref) (hb : n - between.length = 1) (hch : (between.dropLast).reverse = ch :: more) :
    adjustGen combine ar g n between s =
      (fillBlanks combine false g more 2
          (-(s.get (between.getLastD (.uni 0))).mag + ((s.modify (.uni (g.getD 1 0)) setExtension).get (.uni (g.getD 1 0))).backoff)
          (((s.modify (.uni (g.getD 1 0)) setExtension).modify ch (fun w => setRest false (setProb w
            (-(s.get (between.getLastD (.uni 0))).mag + ((s.modify (.uni (g.getD 1 0)) setExtension).get (.uni (g.getD 1 0))).backoff))))) >>=
        fun s2 => .ok (markChain false between ar s2)) := by
  simp only [adjustGen, hb, hch, BEq.rfl, if_true, bind, Except.bind]

/-- keys denoted by the references `FindLower` returns: orders `b+L` down to `b` -/
def chainKeys (p : Key) (b L : Nat) : List Key := (List.range (L + 1)).map fun i => p.take (b + L - i)

theorem getLastD_eq {α} (l : List α) (d : α) (hl : 0 < l.length) : l.getLastD d = l[l.length - 1] := by
  cases l with
  | nil => simp at hl
  | cons x xs => simp [List.getLastD_eq_getLast?, List.getLast?_eq_getElem?]

/-- `AdjustLower` on a chain of `L ≥ 1` blanks over a basis of order `b`: the fill updates, then the marks -/
theorem adjustLower_chain (combine : Nat → Word → Nat) (N : Nat) (caps : Nat → Nat) (U : Nat) (p : Key) (Ks : Nat → List Key)
    (b L : Nat) (hb : 1 ≤ b) (hL : 1 ≤ L) (hnN : b + L + 1 ≤ N)
    (s : St) (want : Key → W) (h : StP combine N caps U s Ks want)
    (refs : List Ref) (hrl : refs.length = L + 1)
    (hden : ∀ i (hi : i < refs.length), Den N U Ks refs[i] (p.take (b + L - i)))
    (hctx : ∀ j, 2 ≤ j → b ≤ j → j < b + L → (p.drop 1).take j ∈ Ks j)
    (hctx1 : b = 1 → (p.drop 1).take 1 = [p.getD 1 0] ∧ p.getD 1 0 < U)
    (hne : ∀ j j', b ≤ j → j < b + L → b < j' → j' ≤ b + L → (p.drop 1).take j ≠ p.take j')
    (ar : Rat) :
    ∃ s', adjustLower combine false ar p (b + L + 1) refs s = .ok s' ∧
      StP combine N caps U s' Ks (applyUpd (applyUpd want (fillUs want p L b (-(want (p.take b)).mag)))
        ((chainKeys p b L).map fun k => (k, clr))) := by
  rw [adjustLower_ge2 combine ar p _ refs s (by omega)]
  have hlast : refs.getLastD (.uni 0) = refs[L]'(by omega) := by
    rw [getLastD_eq refs _ (by omega)]; simp [hrl]
  have hprob : (s.get (refs.getLastD (.uni 0))).mag = (want (p.take b)).mag := by
    rw [hlast, stP_get h _ _ (hden L (by omega))]
    rw [show b + L - L = b by omega]
  have hchl : (refs.dropLast).reverse.length = L := by simp [hrl]
  have hchd : ∀ i (hi : i < (refs.dropLast).reverse.length), Den N U Ks (refs.dropLast).reverse[i] (p.take (b + 1 + i)) := by
    intro i hi
    rw [hchl] at hi
    have := hden (L - 1 - i) (by omega)
    rw [show b + L - (L - 1 - i) = b + 1 + i by omega] at this
    simp only [List.getElem_reverse, List.getElem_dropLast, List.length_dropLast, hrl, Nat.add_sub_cancel]
    exact this
  have hmark : ∀ (s2 : St) (want2 : Key → W), StP combine N caps U s2 Ks want2 →
      StP combine N caps U (markChain false refs ar s2) Ks (applyUpd want2 ((chainKeys p b L).map fun k => (k, clr))) := by
    intro s2 want2 h2
    refine markChain_chain combine N caps U Ks refs (chainKeys p b L) ar s2 want2 h2 (by simp [chainKeys, hrl]) ?_
    intro i hi hi'
    simp only [chainKeys, List.getElem_map, List.getElem_range]
    exact hden i hi
  have hbl : b + L + 1 - refs.length = b := by omega
  by_cases hb1 : b = 1
  · subst hb1
    obtain ⟨hc1, hwU⟩ := hctx1 rfl
    cases hch : (refs.dropLast).reverse with
    | nil => rw [hch] at hchl; simp at hchl; omega
    | cons ch more =>
      rw [adjustGen_one combine ar p _ refs s ch more hbl hch]
      have hdu : Den N U Ks (.uni (p.getD 1 0)) ((p.drop 1).take 1) := by rw [hc1]; exact ⟨rfl, hwU⟩
      have h1 := stP_modify h _ _ hdu setExtension
      have hget := stP_get h1 _ _ hdu
      have hml : more.length = L - 1 := by rw [hch] at hchl; simp at hchl; omega
      have hd0 : Den N U Ks ch (p.take (1 + 1)) := by
        have := hchd 0 (by rw [hchl]; omega)
        simp only [hch, List.getElem_cons_zero] at this
        exact this
      have hpr : -(s.get (refs.getLastD (.uni 0))).mag + ((s.modify (.uni (p.getD 1 0)) setExtension).get (.uni (p.getD 1 0))).backoff =
          -(want (p.take 1)).mag + (setExtension (want ((p.drop 1).take 1))).backoff := by
        rw [hget, hprob]; simp [updW]
      rw [hpr]
      have h2 := stP_modify h1 ch _ hd0 (fun w => setRest false (setProb w (-(want (p.take 1)).mag + (setExtension (want ((p.drop 1).take 1))).backoff)))
      obtain ⟨s3, hfb, h3⟩ := fillBlanks_chain combine N caps U p Ks more 2
        (-(want (p.take 1)).mag + (setExtension (want ((p.drop 1).take 1))).backoff) _ _ h2 (by omega) (by omega)
        (by intro i hi
            have := hchd (i + 1) (by rw [hchl]; omega)
            simp only [hch, List.getElem_cons_succ] at this
            rw [show 2 + 1 + i = 1 + 1 + (i + 1) by omega]; exact this)
        (by intro i hi; exact hctx (2 + i) (by omega) (by omega) (by omega))
        (by intro i i' hi hi'; exact hne (2 + i) (2 + 1 + i') (by omega) (by omega) (by omega) (by omega))
      refine ⟨markChain false refs ar s3, by rw [hfb]; rfl, ?_⟩
      apply hmark
      have hLe : L = more.length + 1 := by omega
      rw [hLe]
      have hcg : fillUs (updW (updW want ((p.drop 1).take 1) (setExtension (want ((p.drop 1).take 1)))) (p.take (1 + 1))
            ((fun w => setRest false (setProb w (-(want (p.take 1)).mag + (setExtension (want ((p.drop 1).take 1))).backoff)))
              (updW want ((p.drop 1).take 1) (setExtension (want ((p.drop 1).take 1))) (p.take (1 + 1))))) p more.length 2
            (-(want (p.take 1)).mag + (setExtension (want ((p.drop 1).take 1))).backoff) =
          fillUs want p more.length 2 (-(want (p.take 1)).mag + (setExtension (want ((p.drop 1).take 1))).backoff) := by
        apply fillUs_congr
        intro i hi
        have hm := hctx (2 + i) (by omega) (by omega) (by omega)
        have hl1 := h.klen _ _ hm
        have hne1 : (p.drop 1).take (2 + i) ≠ p.take (1 + 1) := hne (2 + i) 2 (by omega) (by omega) (by omega) (by omega)
        have hne2 : (p.drop 1).take (2 + i) ≠ (p.drop 1).take 1 := by
          intro he
          rw [he, hc1] at hl1; simp at hl1; omega
        simp only [updW, hne1, hne2, if_false]
      rw [hcg] at h3
      exact h3
  · rw [adjustGen_ge2 combine ar p _ refs s (by omega), hbl, hprob]
    obtain ⟨s3, hfb, h3⟩ := fillBlanks_chain combine N caps U p Ks (refs.dropLast).reverse b (-(want (p.take b)).mag) s want h
      (by omega) (by omega) hchd
      (by intro i hi; rw [hchl] at hi; exact hctx (b + i) (by omega) (by omega) (by omega))
      (by intro i i' hi hi'; rw [hchl] at hi hi'; exact hne (b + i) (b + 1 + i') (by omega) (by omega) (by omega) (by omega))
    rw [hchl] at h3
    exact ⟨markChain false refs ar s3, by rw [hfb]; rfl, hmark _ _ h3⟩
