import Proofs.InterpPass1
import Proofs.InterpPass3
/-!
The `SuffixOrder`-sorted merged n-gram streams of a suffix-closed union have the grouped shape
`levelsE` with one record per n-gram, so `pass1_refines` applies to them.
-/
namespace KV.Interp
variable (cs : Comps Nat)

/-- the n-grams of the union as word lists -/
def unionN : List (List Nat) := (unionGrams cs).map (fun u => u.1 ++ [u.2])

theorem mem_unionN_append {c : List Nat} {x : Nat} : c ++ [x] ∈ unionN cs ↔ (c, x) ∈ unionGrams cs := by
  unfold unionN
  rw [List.mem_map]
  constructor
  · rintro ⟨u, hu, h⟩
    have := List.append_inj' h rfl
    have h2 : u.2 = x := by simpa using this.2
    rw [← this.1, ← h2]
    exact hu
  · intro h
    exact ⟨(c, x), h, rfl⟩

theorem unionN_drop (h : UnionSuffixClosed cs) (p g : List Nat) (hg : g ≠ [])
    (hm : p ++ g ∈ unionN cs) : g ∈ unionN cs := by
  obtain ⟨g0, x, rfl⟩ : ∃ g0 x, g = g0 ++ [x] := by
    rcases List.eq_nil_or_concat g with h0 | ⟨g0, x, h1⟩
    · exact absurd h0 hg
    · exact ⟨g0, x, by rw [h1, List.concat_eq_append]⟩
  rw [← List.append_assoc, mem_unionN_append] at hm
  rw [mem_unionN_append]
  exact union_drop cs h p g0 x hm

theorem mem_sortedYg {g : List Nat} {y : Nat} : y ∈ sortedYg cs g ↔ y :: g ∈ unionN cs := by
  unfold sortedYg unionN
  rw [List.mem_mergeSort, mem_dedup, List.mem_filterMap, List.mem_map]
  constructor
  · rintro ⟨u, hu, h⟩
    refine ⟨u, hu, ?_⟩
    cases hn : u.1 ++ [u.2] with
    | nil => rw [hn] at h; simp at h
    | cons y' t =>
      rw [hn] at h
      simp only at h
      split at h
      · rename_i ht
        have : y' = y := by simpa using h
        rw [this, ht]
      · simp at h
  · rintro ⟨u, hu, h⟩
    exact ⟨u, hu, by rw [h]; simp⟩

theorem pairwise_sortedYg (g : List Nat) : (sortedYg cs g).Pairwise (· < ·) := by
  unfold sortedYg
  exact pairwise_lt_sorted _ (nodup_dedup _)

/-- one record per n-gram -/
def X1 : List Nat → List Nat := fun _ => [0]

theorem inLev1_iff (h : UnionSuffixClosed cs) : ∀ (j : Nat) (g : List Nat) (r : Rec Nat),
    InLev X1 (sortedYg cs) j g r ↔
      r.2 = 0 ∧ ∃ p, p.length = j ∧ r.1 = p ++ g ∧ (p = [] ∨ r.1 ∈ unionN cs)
  | 0, g, r => by
    unfold InLev X1
    constructor
    · rintro ⟨h1, h2⟩
      exact ⟨by simpa using h2, [], rfl, by simpa using h1, Or.inl rfl⟩
    · rintro ⟨h2, p, hp, hr, _⟩
      have : p = [] := List.length_eq_zero_iff.1 hp
      subst this
      exact ⟨by simpa using hr, by simp [h2]⟩
  | j + 1, g, r => by
    unfold InLev
    constructor
    · rintro ⟨y, hy, hin⟩
      obtain ⟨h2, p, hp, hr, hor⟩ := (inLev1_iff h j (y :: g) r).1 hin
      refine ⟨h2, p ++ [y], by simp [hp], by rw [hr]; simp, Or.inr ?_⟩
      rcases hor with rfl | hm
      · rw [hr]; exact (mem_sortedYg cs).1 hy
      · exact hm
    · rintro ⟨h2, p, hp, hr, hor⟩
      obtain ⟨p', y, rfl⟩ : ∃ p' y, p = p' ++ [y] := by
        rcases List.eq_nil_or_concat p with h0 | ⟨p', y, h1⟩
        · rw [h0] at hp; simp at hp
        · exact ⟨p', y, by rw [h1, List.concat_eq_append]⟩
      have hm : r.1 ∈ unionN cs := by
        rcases hor with h0 | hm
        · simp at h0
        · exact hm
      have hr' : r.1 = p' ++ (y :: g) := by rw [hr]; simp
      refine ⟨y, ?_, (inLev1_iff h j (y :: g) r).2 ⟨h2, p', by simpa using hp, hr', ?_⟩⟩
      · rw [mem_sortedYg]
        exact unionN_drop cs h p' (y :: g) (by simp) (hr' ▸ hm)
      · by_cases hp' : p' = []
        · exact Or.inl hp'
        · exact Or.inr hm

theorem sufSorted_lev1 : ∀ (j : Nat) (g : List Nat),
    SufSorted ((lev X1 (sortedYg cs) j g).map (·.1))
  | 0, g => by simp [lev, own, X1, SufSorted]
  | j + 1, g => by
    rw [lev, List.map_flatMap]
    unfold SufSorted
    rw [List.pairwise_flatMap]
    refine ⟨fun y _ => sufSorted_lev1 j (y :: g), ?_⟩
    apply (pairwise_sortedYg cs g).imp
    intro y1 y2 hlt a ha b hb
    obtain ⟨r1, hr1, rfl⟩ := List.mem_map.1 ha
    obtain ⟨r2, hr2, rfl⟩ := List.mem_map.1 hb
    obtain ⟨p1, _, e1⟩ := inLev_ctx _ _ j (y1 :: g) r1 ((mem_lev _ _ j _ r1).1 hr1)
    obtain ⟨p2, _, e2⟩ := inLev_ctx _ _ j (y2 :: g) r2 ((mem_lev _ _ j _ r2).1 hr2)
    rw [e1, e2]
    exact sufLt_siblings p1 p2 hlt g

/-- **shape of the `SuffixOrder`-sorted n-gram streams** -/
theorem p1Stream_eq_lev (h : UnionSuffixClosed cs) (j : Nat) :
    p1Stream cs (j + 1) = lev X1 (sortedYg cs) (j + 1) [] := by
  set L := lev X1 (sortedYg cs) (j + 1) [] with hL
  have hfst : L.map (·.1) = probStream3 cs (j + 1) := by
    apply sufSorted_eq_of_mem (sufSorted_lev1 cs (j + 1) []) (sufSorted_probStream3 cs (j + 1))
    intro g
    rw [List.mem_map, mem_probStream3]
    constructor
    · rintro ⟨r, hr, rfl⟩
      obtain ⟨_, p, hp, hrp, hor⟩ := (inLev1_iff cs h (j + 1) [] r).1 ((mem_lev _ _ _ _ r).1 hr)
      have hm : r.1 ∈ unionN cs := by
        rcases hor with h0 | hm
        · rw [h0] at hp; simp at hp
        · exact hm
      refine ⟨List.mem_map.1 hm, ?_⟩
      rw [hrp]; simp [hp]
    · rintro ⟨hm, hlen⟩
      refine ⟨(g, 0), (mem_lev _ _ _ _ _).2 ((inLev1_iff cs h (j + 1) [] (g, 0)).2
        ⟨rfl, g, hlen, by simp, Or.inr (List.mem_map.2 hm)⟩), rfl⟩
  have hsnd : ∀ r ∈ L, r.2 = 0 := fun r hr =>
    ((inLev1_iff cs h (j + 1) [] r).1 ((mem_lev _ _ _ _ r).1 hr)).1
  unfold p1Stream
  rw [← hfst, List.map_map]
  conv_rhs => rw [← List.map_id L]
  apply List.map_congr_left
  intro r hr
  exact Prod.ext rfl (hsnd r hr).symm

theorem levelsE_eq_p1Streams (h : UnionSuffixClosed cs) (D : Nat) :
    levelsE X1 (sortedYg cs) D (sortedYg cs []) [] =
      (List.range (D + 1)).map (fun j => p1Stream cs (j + 1)) := by
  apply List.ext_getElem
  · rw [length_levelsE]; simp
  · intro j h1 h2
    have hj : j ≤ D := by rw [length_levelsE] at h1; omega
    have := getD_levelsE X1 (sortedYg cs) D j hj [] (sortedYg cs [])
    rw [List.getD_eq_getElem?_getD, List.getElem?_eq_getElem h1, Option.getD_some] at this
    rw [this, List.getElem_map, List.getElem_range, p1Stream_eq_lev cs h j, lev]
    apply List.flatMap_congr
    intro y _
    exact getD_levels X1 (sortedYg cs) D j [y] hj

theorem good1 : ∀ (d : Nat) (g : List Nat), Good X1 (sortedYg cs) d g
  | 0, _ => trivial
  | d + 1, g => by
    refine ⟨List.nodup_iff_pairwise_ne.2 ((pairwise_sortedYg cs g).imp (fun h => Nat.ne_of_lt h)), ?_⟩
    intro y _
    exact ⟨by simp [X1], good1 d (y :: g)⟩

/-- **Pass 1 on the sorted streams**: `HandleSuffix` on the `SuffixOrder`-sorted merged n-gram
streams of the orders `1 … D+1` of a suffix-closed union consumes every n-gram and writes `p1Rec`
for each, in stream order. -/
theorem pass1_sorted (h : UnionSuffixClosed cs) (D fuel : Nat)
    (hfuel : needE (sortedYg cs) D (sortedYg cs []) [] ≤ fuel) :
    handleSuffix cs fuel ((List.range (D + 1)).map (fun j => p1Stream cs (j + 1))) [] (mergeFb cs []) =
      (List.replicate (D + 1) [], (sortedYg cs []).flatMap (fun y => specP1 cs (sortedYg cs) D [y])) := by
  rw [← levelsE_eq_p1Streams cs h D]
  apply pass1_refines cs X1 (sortedYg cs) D fuel hfuel
  · intro y _
    exact ⟨by simp [X1], good1 cs D [y]⟩
  · exact List.nodup_iff_pairwise_ne.2 ((pairwise_sortedYg cs []).imp (fun h => Nat.ne_of_lt h))

end KV.Interp
