import Model.KNChainAdder
import Proofs.KNC07Chain
/-!
Two more pieces of C07's `h_wiring`:

* §1–§3 the fan-in of the adder chain into `MergeRight`: `AddRight` as a stateful reader over any input
  block partition (`addRight_stream`), the adder chain delivering its source's stream to `MergeRight`'s
  reader position for every schedule (`adder_fanin_delivers`, `adder_prefix_monotone`), and the
  two-chain composition (`mergeRight_two_chains`);
* §4 the counts-of-counts → discounts barrier (`countsOfCounts_perm`, `discounts_barrier_indep`).
* §5 `lmplz_indep_final3`.
-/
namespace KV.C07
open KV.KN KV.KN.Blocks KV.KN.ChainStages KV.KN.Interp KV.Chain

/-! ## 1. `AddRight` over any input block partition -/

theorem arRun_append (d : Disc) : ∀ (a b : List Emit) (run : List Emit),
    arRun d run (a ++ b) = ((arRun d (arRun d run a).1 b).1, (arRun d run a).2 ++ (arRun d (arRun d run a).1 b).2)
  | [], _, _ => by simp [arRun]
  | e :: a, b, run => by
    simp only [List.cons_append, arRun, arRun_append d a b (arStep d run e).1, List.append_assoc]

/-- input block boundaries only pass the open run -/
theorem arBlocks_flatten (d : Disc) : ∀ (blocks : List (List Emit)) (run : List Emit),
    (runBlocks (arBlock d) run blocks).flatten = (arRun d run blocks.flatten).2
  | [], _ => rfl
  | b :: bs, run => by
    simp only [runBlocks, List.flatten_cons, arRun_append, arBlock, arBlocks_flatten d bs (arRun d run b).1]

/-- records of the open run's context are accumulated -/
theorem arRun_same (d : Disc) : ∀ (xs : List Emit) (o : List Emit) (f : Emit) (o' : List Emit), o = f :: o' →
    (∀ x ∈ xs, x.gram.tail = f.gram.tail) → ∀ ys : List Emit, arRun d o (xs ++ ys) = arRun d (o ++ xs) ys
  | [], o, _, _, _, _, _ => by simp
  | x :: xs, o, f, o', ho, h, ys => by
    have hx : x.gram.tail = f.gram.tail := h x (List.mem_cons_self ..)
    have ih := arRun_same d xs (o ++ [x]) f (o' ++ [x]) (by rw [ho]; rfl)
      (fun y hy => h y (List.mem_cons_of_mem _ hy)) ys
    subst ho
    simp only [List.cons_append, arRun, arStep, hx, if_true, List.nil_append] at ih ⊢
    rw [ih]
    simp

theorem arFinish_cons (d : Disc) (e : Emit) (rest : List Emit) : arFinish d (e :: rest) = [addRight d (e :: rest)] := rfl

/-- run by run: one entry per run, the last one at the end of the stream -/
theorem arRun_runs (d : Disc) : ∀ (R : List (List Emit)), GoodRuns R → ∀ (o : List Emit),
    (o = [] ∨ ∀ r2, R.head? = some r2 → runCtx r2 ≠ runCtx o) →
    (arRun d o R.flatten).2 ++ arFinish d (arRun d o R.flatten).1 = arFinish d o ++ R.map (addRight d)
  | [], _, o, _ => by simp [arRun]
  | run :: R, hg, o, ho => by
    obtain ⟨hne, hconst, hadj, hR⟩ := hg
    obtain ⟨e, rest, rfl⟩ := List.exists_cons_of_ne_nil hne
    have hrest : ∀ x ∈ rest, x.gram.tail = e.gram.tail := fun x hx => hconst x (List.mem_cons_of_mem _ hx)
    have ih := arRun_runs d R hR (e :: rest) (Or.inr hadj)
    have hstep : arStep d o e = ([e], arFinish d o) := by
      cases o with
      | nil => rfl
      | cons f o' =>
        have hne' : ¬ e.gram.tail = f.gram.tail := by
          rcases ho with ho | ho
          · cases ho
          · intro h'
            exact ho (e :: rest) rfl (by simpa [runCtx] using h')
        simp [arStep, hne', arFinish]
    simp only [List.flatten_cons, List.cons_append, arRun, hstep, List.map_cons]
    rw [arRun_same d rest [e] e [] rfl hrest, List.singleton_append, List.append_assoc, ih, arFinish_cons]
    simp

/-- **`AddRight` as a stream function**: reading the context-sorted stream `es` in ANY input blocks, it
writes exactly one entry per context, in order: `(ctxRuns es).map (addRight d)` — the sums stream that
`mergeRight_partition` assumes in `MergeRight`'s initial state. -/
theorem addRight_stream_pf (d : Disc) (es : List Emit) (inBlocks : List (List Emit)) (hb : inBlocks.flatten = es) :
    addRightStream d inBlocks = (ctxRuns es).map (addRight d) := by
  unfold addRightStream
  rw [hb]
  have := arRun_runs d (ctxRuns es) (ctxRuns_good es) [] (Or.inl rfl)
  rw [ctxRuns_flatten] at this
  simpa [arFinish] using this

/-- … and block by block: what it writes while reading block `k` is `runBlocks (arBlock d)`, the rest
at the end of the stream -/
theorem addRight_blocks (d : Disc) (inBlocks : List (List Emit)) :
    addRightStream d inBlocks =
      (runBlocks (arBlock d) [] inBlocks).flatten ++ arFinish d (arRun d [] inBlocks.flatten).1 := by
  rw [arBlocks_flatten]; rfl

/-! ## 2. The adder chain delivers the sums stream to `MergeRight`'s reader -/

theorem run_append {τ : Type} (T : Transducers τ) (i : Nat) : ∀ (a b : List Nat) (s : τ),
    T.run i s (a ++ b) = T.run i s a ++ T.run i (T.stateAfter i s a) b
  | [], _, _ => rfl
  | v :: a, b, s => by
    simp only [List.cons_append, Transducers.run, run_append T i a b (T.step i s v).1]
    rfl

/-- **incremental reading = reading the final stream.**  In every reachable state of a chain (any
transducers, any `b`, `m`, data, schedule): (1) what stage `i+1` has received is a prefix of what stage
`i` has produced (the rest is in the queue between them), and (2) what worker `i` has produced so far is
its transducer's output on what it has received so far — a prefix of its output on any longer input.
So a consumer that reads a position block by block while the chain runs sees prefixes of the stream that
`chain_stage_stream` describes at the end. -/
theorem adder_prefix_monotone_pf {τ : Type} (T : Transducers τ) {b m : Nat} {data : List Nat} {c : Chain}
    (hb : 0 < b) (hm : 1 ≤ m) (hr : Chain.Reach (Chain.initT b m data T.toStageFn.tr) c) :
    (∀ i, i < m → ∃ rest, (c.st i).out = (c.st (i + 1)).inp ++ rest)
    ∧ (∀ i, 1 ≤ i → i < m → ∀ more : List Nat,
        ∃ rest, T.run i (T.init i) (valsOf (c.st i).inp ++ more) = valsOf ((c.st i).out ++ pend (c.st i)) ++ rest) := by
  letI := T.toStageFn
  have h : RInv b m data c := rinv_reach hb hm hr
  refine ⟨fun i hi => ⟨c.q (i + 1), h.q i hi⟩, fun i h1 h2 more => ?_⟩
  rw [(KV.C17.chain_stream_transducer T hb hm hr).1 i h1 h2, run_append]
  exact ⟨_, rfl⟩

/-- **the adder chain's fan-in**: `AddRight` (source) has read `es` in any input blocks and written its
entries in any output blocks `sumBlocks`; whatever runs at the later positions of the chain (`TA`:
`MergeRight`'s pass-through reader at position 1, `OnlyGamma` behind it), for every number of chain
blocks and EVERY schedule: once the chain has finished, position 1 — where `MergeRight` reads
(`gamma_out[i].Add()`, before `OnlyGamma`) — has received exactly `(ctxRuns es).map (addRight d)`,
one entry per context, in order, each once. -/
theorem adder_fanin_delivers_pf {τ : Type} (TA : Transducers τ) (cG : BlockCode Gam) (d : Disc) (es : List Emit)
    (inBlocks : List (List Emit)) (hin : inBlocks.flatten = es)
    (sumBlocks : List (List Gam)) (hsum : sumBlocks.flatten = addRightStream d inBlocks)
    {b m : Nat} {cA : Chain} (hb : 0 < b) (hm : 1 ≤ m)
    (hr : Chain.Reach (Chain.initT b m (sumBlocks.map cG.enc) TA.toStageFn.tr) cA) (hfin : cA.main = .finished) :
    ((valsOf (cA.st 1).inp).map cG.dec).flatten = (ctxRuns es).map (addRight d) := by
  obtain ⟨hout, hinp⟩ := (KV.C17.chain_stream_transducer TA hb hm hr).2 hfin 0 (by omega)
  rw [hinp, hout]
  show ((valsOf ((sumBlocks.map cG.enc).map Item.val ++ [Item.poison])).map cG.dec).flatten = _
  rw [valsOf_map_val, List.map_map]
  have : (cG.dec ∘ cG.enc) = id := funext cG.dec_enc
  rw [this, List.map_id, hsum, addRight_stream_pf d es inBlocks hin]

/-! ## 3. `MergeRight` over the two chains -/

/-- **`MergeRight` over (adder chain, primary chain)** as a product of two C17 chains under independent
schedules (a schedule of the pair is a pair of schedules): chain A as in `adder_fanin_delivers`; chain B
carries the first copy of `es` in any blocks `blocksB` and its worker runs `MergeRight` over
`PruneNGramStream`, taking its sums entries from what position 1 of chain A delivers.  For all block
partitions on both chains, all numbers of chain blocks and all pairs of schedules, once both chains have
finished the concatenation of what `MergeRight` hands on is the stage function of `Model/KN.lean`.

Abstraction (stated, not hidden): `MergeRight`'s blocking reads on chain A (`++summed`, one per new
context, interleaved with its own blocks) are folded into "the stream chain A delivers to position 1",
which is the worker's initial state here; `adder_prefix_monotone` is the justification (what has been
delivered at any moment is a prefix of that stream, so reading it incrementally reads the same entries).
That `MergeRight` never needs more entries than arrive (no deadlock between the two chains) is C17's
liveness for each chain separately plus `(ctxRuns es).length` entries being produced; it is not restated
here. -/
theorem mergeRight_two_chains_pf {τ : Type} (TA : Transducers τ) (cG : BlockCode Gam) (cE : BlockCode Emit)
    (cU : BlockCode Uninterp) (d : Disc) (es : List Emit)
    (inBlocksA : List (List Emit)) (hinA : inBlocksA.flatten = es)
    (sumBlocks : List (List Gam)) (hsum : sumBlocks.flatten = addRightStream d inBlocksA)
    (blocksB : List (List Emit)) (hB : blocksB.flatten = es)
    {bA mA bB mB : Nat} {cA cB : Chain} (hbA : 0 < bA) (hmA : 1 ≤ mA) (hbB : 0 < bB) (hmB : 2 ≤ mB)
    (hrA : Chain.Reach (Chain.initT bA mA (sumBlocks.map cG.enc) TA.toStageFn.tr) cA) (hfinA : cA.main = .finished)
    (hrB : Chain.Reach (Chain.initT bB mB (blocksB.map cE.enc)
      (liftStage cE cU (mrBlock d) ⟨((valsOf (cA.st 1).inp).map cG.dec).flatten, none⟩).toStageFn.tr) cB)
    (hfinB : cB.main = .finished) :
    ((valsOf (cB.st 1).out).map cU.dec).flatten = ((ctxRuns es).flatMap (mergeRight d)).filter (·.keep) := by
  rw [adder_fanin_delivers_pf TA cG d es inBlocksA hinA sumBlocks hsum hbA hmA hrA hfinA] at hrB
  rw [(chain_stage_stream_pf cE cU _ _ blocksB hbB hmB hrB hfinB).1, mergeRight_partition_pf d es blocksB hB]

/-! ## 4. The counts-of-counts → discounts barrier -/

/-- the statistics of an order depend only on the multiset of its records -/
theorem countsOfCounts_perm_pf {es₁ es₂ : List Emit} (h : es₁.Perm es₂) : countsOfCounts es₁ = countsOfCounts es₂ := by
  rw [countsOfCounts_eq_stats, countsOfCounts_eq_stats]
  unfold KV.KN.Spec.stats
  simp only [h.countP_eq, h.length_eq]

theorem map_countsOfCounts_perm : ∀ {s₁ s₂ : List (List Emit)}, List.Forall₂ List.Perm s₁ s₂ →
    s₁.map countsOfCounts = s₂.map countsOfCounts
  | _, _, .nil => rfl
  | _, _, .cons h t => by simp only [List.map_cons, countsOfCounts_perm_pf h, map_countsOfCounts_perm t]

/-- **the barrier after step 2**: the discounts (and the error class, if Chen–Goodman fails without a
fallback) computed from the per-order statistics are the same for per-order streams that are
permutations of each other — so the hand-over needs only that step 2 has finished on all `N` chains;
the order in which records (or chains) arrived, block boundaries and the interleaving of the `stats.Add`
calls of different orders are not observable. -/
theorem discounts_barrier_indep_pf (fallback : Option Disc) {s₁ s₂ : List (List Emit)}
    (h : List.Forall₂ List.Perm s₁ s₂) :
    discounts fallback (s₁.map countsOfCounts) = discounts fallback (s₂.map countsOfCounts) := by
  rw [map_countsOfCounts_perm h]

/-! ## 5. The composition -/

/-- the adder fan-in and the two-chain composition, for all codings, partitions, chain geometries and
pairs of schedules -/
def FaninDelivers : Prop :=
  ∀ (TA : Transducers Unit) (cG : BlockCode Gam) (cE : BlockCode Emit) (cU : BlockCode Uninterp) (d : Disc)
    (es : List Emit) (inBlocksA : List (List Emit)), inBlocksA.flatten = es →
    ∀ (sumBlocks : List (List Gam)), sumBlocks.flatten = addRightStream d inBlocksA →
    ∀ (blocksB : List (List Emit)), blocksB.flatten = es →
    ∀ (bA mA bB mB : Nat) (cA cB : Chain), 0 < bA → 1 ≤ mA → 0 < bB → 2 ≤ mB →
    Chain.Reach (Chain.initT bA mA (sumBlocks.map cG.enc) TA.toStageFn.tr) cA → cA.main = .finished →
    (((valsOf (cA.st 1).inp).map cG.dec).flatten = (ctxRuns es).map (addRight d))
    ∧ (Chain.Reach (Chain.initT bB mB (blocksB.map cE.enc)
        (liftStage cE cU (mrBlock d) ⟨((valsOf (cA.st 1).inp).map cG.dec).flatten, none⟩).toStageFn.tr) cB →
      cB.main = .finished →
      ((valsOf (cB.st 1).out).map cU.dec).flatten = ((ctxRuns es).flatMap (mergeRight d)).filter (·.keep))

def BarrierIndep : Prop :=
  ∀ (fallback : Option Disc) (s₁ s₂ : List (List Emit)), List.Forall₂ List.Perm s₁ s₂ →
    discounts fallback (s₁.map countsOfCounts) = discounts fallback (s₂.map countsOfCounts)

theorem fanin_delivers_pf : FaninDelivers := by
  intro TA cG cE cU d es inA hinA sums hsum bB' hB bA mA bB mB cA cB hbA hmA hbB hmB hrA hfinA
  exact ⟨adder_fanin_delivers_pf TA cG d es inA hinA sums hsum hbA hmA hrA hfinA,
    fun hrB hfinB => mergeRight_two_chains_pf TA cG cE cU d es inA hinA sums hsum bB' hB hbA hmA hbB hmB hrA hfinA hrB hfinB⟩

theorem barrier_indep_pf : BarrierIndep := fun fb _ _ h => discounts_barrier_indep_pf fb h

section final3
open KV.Vocab
variable {W : Type} [DecidableEq W]

/-- **C07, final form.**  As `lmplz_indep_final2`, the premise of `h_wiring` now also contains the adder
fan-in (`FaninDelivers`: `AddRight` over any input blocks, the adder chain delivering to `MergeRight`'s
reader under every schedule, `MergeRight` over the pair of chains) and the discounts barrier
(`BarrierIndep`) — all three premises are theorems (`single_chain_stages`, `fanin_delivers`,
`barrier_indep`), so `h_wiring` is still logically as strong as `h_stages`; it names what REMAINS to be
shown about the stages after the first sort:
* `AdjustCounts::Run`'s fan-out: one loop over the sorted order-`N` chain writing the `N` chains of all
  orders (`adjustStream`/`collapse`; C05 `adjust_stream_eq` is about the stream function, not the chains);
* `SortAndReadTwice`: the context sort of an order delivering the same stream to two readers (the adder
  chain's `AddRight` and the primary chain) — that both copies are the sorter's output `es`;
* `Interpolate` / `JointOrder`: lock-step fan-in over the `N` suffix-sorted chains plus the `N−1` gamma
  files written by `OnlyGamma` (`joinLower`, `interpOrder`, `interpAll`, `takeBackoffs*`);
* the external sorts between the steps being correct sorts is `h_sorters` (C16 proves it of
  `extSort`/`codeSort`); `--renumber` (a stateless per-record id map, not in the model); the printer and
  all float arithmetic (`render`, an arbitrary function of the exact model).
Everything else as in `lmplz_indep_final`. -/
theorem lmplz_indep_final3_pf {Mem Sched Out : Type}
    (I : Impl Mem Sched (List (List W)) Out) (render : Except Err Model → Out) (opts : Opts)
    (hN : 1 ≤ opts.cfg.order) (text : List (List W))
    (hash : W → Nat) (unk bos eos : W) (unkCapHash : Nat) (xOf : Mem → Nat)
    (hx : ∀ m, 1 ≤ xOf m ∧ xOf m ≤ 2^63)
    (h_enc : ∀ m t, I.encode m t = growableIds hash unk bos eos unkCapHash (xOf m) t)
    (hsp : unk ≠ bos ∧ unk ≠ eos ∧ bos ≠ eos)
    (hinj : InjOn hash ([unk, bos, eos] ++ text.flatten))
    (hnz : ∀ w, w ∈ [unk, bos, eos] ++ text.flatten → hash w ≠ 0)
    (hmax : (specEncode unk bos eos text).2 < kWordIndexMax)
    (h_sortImpl : ∀ m s blocks, ∃ pick plan,
      KV.Sort.extSort KV.Sort.suffixLt KV.Sort.combineCounts pick (toBlocks blocks) plan =
        some ((I.sortCombine m s blocks).map toRec))
    (sorters : Mem → Sched → Nat → Sorters)
    (h_wiring : SingleChainsDeliver → FaninDelivers → BarrierIndep → ∀ m s full, I.post m s opts full =
      render (estimateFromWith (sorters m s) opts.cfg opts.pruneVocab opts.fallback full))
    (h_sorters : ∀ m s n, SortsOK (sorters m s n))
    (hk : opts.cfg.keepSpecials = true)
    (m₁ m₂ : Mem) (s₁ s₂ : Sched) :
    lmplzOut I m₁ s₁ opts text = lmplzOut I m₂ s₂ opts text :=
  lmplz_indep_discharged2 I render opts hN text hash unk bos eos unkCapHash xOf hx h_enc hsp hinj hnz hmax
    h_sortImpl sorters (h_wiring single_chain_stages_pf fanin_delivers_pf barrier_indep_pf) h_sorters hk m₁ m₂ s₁ s₂

end final3

/-! ### non-vacuity -/

/-- a context spanning an input block boundary: two contexts, read as `[a b | c]` and as `[a | b c]` -/
example : let e (w c : Nat) : Emit := ⟨[w, c], 1, false⟩
    let d : Disc := ⟨1/2, 1, 3/2⟩
    (addRightStream d [[e 5 7, e 6 7], [e 5 8]]).map (·.ctx) = [[7], [8]]
    ∧ (runBlocks (arBlock d) [] [[e 5 7, e 6 7], [e 5 8]]).map (·.length) = [0, 1]
    ∧ (runBlocks (arBlock d) [] [[e 5 7], [e 6 7, e 5 8]]).map (·.length) = [0, 1] := by
  decide

end KV.C07
