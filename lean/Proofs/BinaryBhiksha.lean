import Proofs.Binary
import Properties.C20
import Model.Bhiksha
/-! Proofs about the pointer compression model (`Model/Bhiksha.lean`). -/
namespace KV.Bhiksha
open KV.Bits KV.Binary

/-! ## list helpers -/

theorem takeWhile_dropWhile_nil {α} (p : α → Bool) (l : List α) : (l.dropWhile p).takeWhile p = [] := by
  induction l with
  | nil => rfl
  | cons x l ih =>
    by_cases h : p x = true
    · simp [h, ih]
    · simp [h]

theorem takeWhile_all {α} (p : α → Bool) (l1 l2 : List α) (h : ∀ x ∈ l1, p x = true) :
    (l1 ++ l2).takeWhile p = l1 ++ l2.takeWhile p := by
  induction l1 with
  | nil => rfl
  | cons x l ih =>
    have hx : p x = true := h x (by simp)
    simp [hx, ih (fun y hy => h y (by simp [hy]))]

theorem takeWhile_none {α} (p : α → Bool) (l : List α) (h : ∀ x ∈ l, p x = false) : l.takeWhile p = [] := by
  cases l with
  | nil => rfl
  | cons x l => simp [h x (by simp)]

theorem mem_takeWhile_pos {α} (p : α → Bool) (l : List α) (x : α) (h : x ∈ l.takeWhile p) : p x = true := by
  induction l with
  | nil => simp at h
  | cons y l ih =>
    by_cases hy : p y = true
    · simp only [List.takeWhile_cons, hy, if_true, List.mem_cons] at h
      rcases h with h | h
      · rw [h]; exact hy
      · exact ih h
    · simp [hy] at h

/-- dropping `b` elements of the `p`-prefix shortens the `p`-prefix by `b` -/
theorem takeWhile_drop_length {α} (p : α → Bool) (l : List α) (b : Nat) (hb : b ≤ (l.takeWhile p).length) :
    ((l.drop b).takeWhile p).length = (l.takeWhile p).length - b := by
  have hl : l = l.takeWhile p ++ l.dropWhile p := (List.takeWhile_append_dropWhile).symm
  have hd : l.drop b = (l.takeWhile p).drop b ++ l.dropWhile p := by
    conv => lhs; rw [hl]
    exact List.drop_append_of_le_length hb
  rw [hd, takeWhile_all, takeWhile_dropWhile_nil]
  · simp
  · intro x hx
    have := List.mem_of_mem_drop hx
    exact mem_takeWhile_pos p l x this

/-! ## the offset table as a function of the pointer sequence -/

/-- what the successive `WriteNext` calls append to `offset_begin_[1..]`: record `i` is written into every slot from the
current fill level up to the high part of its pointer -/
def offsSpec (bits : Nat) : List Nat → Nat → Nat → List Nat
  | [], _, _ => []
  | v :: vs, i, len => List.replicate ((v >>> bits) - len) i ++ offsSpec bits vs (i + 1) (max len (v >>> bits))

theorem writeAll_bits (vs : List Nat) : ∀ i a, (writeAll vs i a).bits = a.bits := by
  induction vs with
  | nil => intro i a; rfl
  | cons v vs ih => intro i a; simp [writeAll, ih, Arr.writeNext]

theorem writeAll_count (vs : List Nat) : ∀ i a, (writeAll vs i a).count = a.count := by
  induction vs with
  | nil => intro i a; rfl
  | cons v vs ih => intro i a; simp [writeAll, ih, Arr.writeNext]

theorem writeAll_inl (vs : List Nat) : ∀ i a, (writeAll vs i a).inl = a.inl ++ vs.map (· % 2^a.bits) := by
  induction vs with
  | nil => intro i a; simp [writeAll]
  | cons v vs ih => intro i a; simp [writeAll, ih, Arr.writeNext]

theorem writeAll_offs (vs : List Nat) : ∀ i a, (writeAll vs i a).offs = a.offs ++ offsSpec a.bits vs i a.offs.length := by
  induction vs with
  | nil => intro i a; simp [writeAll, offsSpec]
  | cons v vs ih =>
    intro i a
    simp only [writeAll, ih, offsSpec, Arr.writeNext, List.append_assoc, List.length_append, List.length_replicate]
    congr 2
    congr 1
    omega

theorem shr_mono (bits : Nat) {v w : Nat} (h : v ≤ w) : v >>> bits ≤ w >>> bits := by
  simp only [Nat.shiftRight_eq_div_pow]; exact Nat.div_le_div_right h

theorem offsSpec_ge (bits : Nat) (vs : List Nat) : ∀ i len, ∀ x ∈ offsSpec bits vs i len, i ≤ x := by
  induction vs with
  | nil => intro i len x hx; simp [offsSpec] at hx
  | cons v vs ih =>
    intro i len x hx
    simp only [offsSpec, List.mem_append, List.mem_replicate] at hx
    rcases hx with h | h
    · omega
    · have := ih _ _ x h; omega

/-- length of the table part: the high part of the last pointer -/
theorem offsSpec_length (bits : Nat) (vs : List Nat) (hne : vs ≠ []) (hmono : vs.Pairwise (· ≤ ·)) :
    ∀ i len, (∀ v ∈ vs, len ≤ v >>> bits) → (offsSpec bits vs i len).length = (vs.getLast hne >>> bits) - len := by
  induction vs with
  | nil => exact absurd rfl hne
  | cons v vs ih =>
    intro i len hlen
    have hv : len ≤ v >>> bits := hlen v (by simp)
    by_cases hvs : vs = []
    · subst hvs; simp [offsSpec]
    · have hm := List.pairwise_cons.mp hmono
      have hle : ∀ w ∈ vs, (v >>> bits) ≤ w >>> bits := fun w hw => shr_mono bits (hm.1 w hw)
      have hmax : max len (v >>> bits) = v >>> bits := by omega
      simp only [offsSpec, List.length_append, List.length_replicate, hmax]
      rw [ih hvs hm.2 _ _ hle, List.getLast_cons hvs]
      have := hle _ (List.getLast_mem hvs)
      omega

/-- number of leading table entries `≤ x`: the high part of pointer `x - i` (relative to the fill level) -/
theorem offsSpec_takeWhile (bits : Nat) (vs : List Nat) (hmono : vs.Pairwise (· ≤ ·)) :
    ∀ i len x, (∀ v ∈ vs, len ≤ v >>> bits) → i ≤ x → (h : x - i < vs.length) →
      ((offsSpec bits vs i len).takeWhile (· ≤ x)).length = (vs[x - i] >>> bits) - len := by
  induction vs with
  | nil => intro i len x _ _ h; simp at h
  | cons v vs ih =>
    intro i len x hlen hix hx
    have hv : len ≤ v >>> bits := hlen v (by simp)
    have hm := List.pairwise_cons.mp hmono
    have hle : ∀ w ∈ vs, (v >>> bits) ≤ w >>> bits := fun w hw => shr_mono bits (hm.1 w hw)
    have hmax : max len (v >>> bits) = v >>> bits := by omega
    simp only [offsSpec, hmax]
    rw [takeWhile_all]
    · by_cases hxi : x = i
      · subst hxi
        rw [takeWhile_none]
        · simp
        · intro y hy
          have := offsSpec_ge bits vs _ _ y hy
          simp; omega
      · have hx' : x - (i + 1) < vs.length := by simp at hx; omega
        have e : x - i = (x - (i + 1)) + 1 := by omega
        simp only [List.length_append, List.length_replicate]
        rw [ih hm.2 (i + 1) (v >>> bits) x hle (by omega) hx']
        have hget : (v :: vs)[x - i] = vs[x - (i + 1)] := by
          simp only [e, List.getElem_cons_succ]
        rw [hget]
        have := hle _ (List.getElem_mem hx')
        omega
    · intro y hy
      simp only [List.mem_replicate] at hy
      simp; omega

theorem shift_or (bits v : Nat) : ((v >>> bits) <<< bits) ||| (v % 2^bits) = v := by
  rw [← Nat.shiftLeft_add_eq_or_of_lt (Nat.mod_lt _ (Nat.two_pow_pos bits))]
  rw [Nat.shiftLeft_eq, Nat.shiftRight_eq_div_pow, Nat.mul_comm]
  exact Nat.div_add_mod v (2^bits)

theorem array_roundtrip (bits : Nat) (vs : List Nat) (hne : vs ≠ [])
    (hmono : vs.Pairwise (· ≤ ·)) :
    let a := writeAll vs 0 (Arr.init bits ((vs.getLast hne >>> bits) + 1))
    ∃ table, a.finish = some table ∧
      ∀ i (h : i + 1 < vs.length), readNext bits table a.inl i = (vs[i], vs[i + 1]) := by
  intro a
  have hoffs : a.offs = offsSpec bits vs 0 0 := by simp [a, writeAll_offs, Arr.init]
  have hinl : a.inl = vs.map (· % 2^bits) := by simp [a, writeAll_inl, Arr.init]
  have hcount : a.count = (vs.getLast hne >>> bits) + 1 := by simp [a, writeAll_count, Arr.init]
  have hlen0 : ∀ v ∈ vs, 0 ≤ v >>> bits := fun _ _ => Nat.zero_le _
  have hlen : a.offs.length = vs.getLast hne >>> bits := by
    rw [hoffs, offsSpec_length bits vs hne hmono 0 0 hlen0]; simp
  refine ⟨0 :: a.offs, by simp [Arr.finish, hlen, hcount], ?_⟩
  intro i hi
  have hi0 : i < vs.length := by omega
  -- number of entries ≤ i and ≤ i+1 in the table part
  have tw1 := offsSpec_takeWhile bits vs hmono 0 0 i hlen0 (Nat.zero_le _) (by simpa using hi0)
  have tw2 := offsSpec_takeWhile bits vs hmono 0 0 (i + 1) hlen0 (Nat.zero_le _) (by simpa using hi)
  simp only [Nat.sub_zero] at tw1 tw2
  have hmon : vs[i] >>> bits ≤ vs[i + 1] >>> bits :=
    shr_mono bits (List.pairwise_iff_getElem.mp hmono i (i + 1) hi0 hi (by omega))
  have hub : upperBound (0 :: a.offs) i = (vs[i] >>> bits) + 1 := by
    simp [upperBound, hoffs, tw1]
  -- prefix of entries ≤ i+1 is at least as long as the prefix of entries ≤ i
  have hdrop : (((0 :: a.offs).drop (vs[i] >>> bits + 1)).takeWhile (· ≤ i + 1)).length = (vs[i + 1] >>> bits) - (vs[i] >>> bits) := by
    rw [List.drop_succ_cons, hoffs, takeWhile_drop_length _ _ _ (by rw [tw2]; exact hmon), tw2]
  unfold readNext
  simp only [hub, Nat.add_sub_cancel, hdrop]
  have e2 : vs[i] >>> bits + 1 + (vs[i + 1] >>> bits - vs[i] >>> bits) - 1 = vs[i + 1] >>> bits := by omega
  rw [e2, hinl]
  have g1 : (vs.map (· % 2^bits)).getD i 0 = vs[i] % 2^bits := by
    simp [List.getD_eq_getElem?_getD, hi0]
  have g2 : (vs.map (· % 2^bits)).getD (i + 1) 0 = vs[i + 1] % 2^bits := by
    simp [List.getD_eq_getElem?_getD, hi]
  rw [g1, g2, shift_or, shift_or]

theorem dont_roundtrip (maxNext : Nat) (hm : maxNext < 2^64) (vs : List Nat) (hv : ∀ v ∈ vs, v ≤ maxNext) :
    ∀ i (h : i + 1 < vs.length), dontReadNext (vs.map (dontInline maxNext)) i = (vs[i], vs[i + 1]) := by
  intro i h
  have h0 : i < vs.length := by omega
  have f1 := KV.C20.required_bits_fits maxNext vs[i] hm (hv _ (List.getElem_mem h0))
  have f2 := KV.C20.required_bits_fits maxNext vs[i + 1] hm (hv _ (List.getElem_mem h))
  simp [dontReadNext, List.getD_eq_getElem?_getD, h0, h, dontInline, Nat.mod_eq_of_lt f1, Nat.mod_eq_of_lt f2]

theorem chopLoop_mem (mo mn req : Nat) (l : List Nat) : ∀ best : Nat × Int,
    (chopLoop mo mn req l best).1 = best.1 ∨ (chopLoop mo mn req l best).1 ∈ l := by
  induction l with
  | nil => intro best; simp [chopLoop]
  | cons c l ih =>
    intro best
    simp only [chopLoop]
    by_cases hc : chopChange mo mn req c < best.2
    · rw [if_pos hc]
      rcases ih (c, chopChange mo mn req c) with h | h
      · right; rw [h]; simp
      · right; exact List.mem_cons_of_mem _ h
    · rw [if_neg hc]
      rcases ih best with h | h
      · left; exact h
      · right; exact List.mem_cons_of_mem _ h

theorem chopBits_bounds (maxOffset maxNext bhikshaBits : Nat) :
    chopBits maxOffset maxNext bhikshaBits ≤ requiredBits maxNext ∧ chopBits maxOffset maxNext bhikshaBits ≤ bhikshaBits
    ∧ arrayCount maxOffset maxNext bhikshaBits = (maxNext >>> inlineBits true maxOffset maxNext bhikshaBits) + 1 := by
  have h := chopLoop_mem maxOffset maxNext (requiredBits maxNext)
    (List.range (min (requiredBits maxNext) bhikshaBits + 1)) (0, 2^63 - 1)
  have hc : chopBits maxOffset maxNext bhikshaBits ≤ min (requiredBits maxNext) bhikshaBits := by
    unfold chopBits
    dsimp only
    rcases h with h | h
    · rw [h]; exact Nat.zero_le _
    · have := List.mem_range.mp h; omega
  refine ⟨by omega, by omega, ?_⟩
  simp [arrayCount, inlineBits]

end KV.Bhiksha
