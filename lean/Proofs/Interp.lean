import Model.Interp
import Mathlib.Algebra.BigOperators.Ring.List
import Mathlib.Algebra.Field.Basic
import Mathlib.Tactic.Ring
import Mathlib.Tactic.FieldSimp
/-!
Helper lemmas for the interpolation model (C13).  The "linear domain" is any field `F` with a
function `E : ℚ → F` such that `E (a + b) = E a * E b` and `E 0 = 1` (an abstract `x ↦ 10^x`).
-/
namespace KV.Interp

/-! ### lists -/
section Lists
variable {α : Type} [DecidableEq α]

theorem mem_dedup {a : α} : ∀ {l : List α}, a ∈ dedup l ↔ a ∈ l
  | [] => by simp [dedup]
  | x :: xs => by
    unfold dedup
    by_cases h : x ∈ xs
    · simp only [h, if_true, List.mem_cons]
      rw [mem_dedup (l := xs)]
      constructor
      · intro h'; exact Or.inr h'
      · rintro (rfl | h')
        · exact h
        · exact h'
    · simp only [h, if_false, List.mem_cons]
      rw [mem_dedup (l := xs)]

theorem nodup_dedup : ∀ (l : List α), (dedup l).Nodup
  | [] => by simp [dedup]
  | x :: xs => by
    unfold dedup
    by_cases h : x ∈ xs
    · simp only [h, if_true]; exact nodup_dedup xs
    · simp only [h, if_false]
      exact List.nodup_cons.2 ⟨fun h' => h (mem_dedup.1 h'), nodup_dedup xs⟩

end Lists

/-! ### sums -/
section Sums
variable {α : Type} [DecidableEq α] {F : Type} [CommRing F]

theorem sum_filter_ne (f : α → F) (b : α) :
    ∀ (V : List α), V.Nodup → b ∈ V →
      (V.map f).sum = f b + ((V.filter (fun w => decide (w ≠ b))).map f).sum
  | [], _, hb => by simp at hb
  | v :: vs, hV, hb => by
    have hnd := List.nodup_cons.1 hV
    by_cases hvb : v = b
    · subst hvb
      have : vs.filter (fun w => decide (w ≠ v)) = vs := by
        apply List.filter_eq_self.2
        intro a ha
        have : a ≠ v := fun h => hnd.1 (h ▸ ha)
        simpa using this
      have hfc : (v :: vs).filter (fun w => decide (w ≠ v)) = vs := by
        rw [List.filter_cons_of_neg (by simp), this]
      rw [hfc]
      simp
    · have hb' : b ∈ vs := by
        rcases List.mem_cons.1 hb with h | h
        · exact absurd h.symm hvb
        · exact h
      have ih := sum_filter_ne f b vs hnd.2 hb'
      simp only [List.map_cons, List.sum_cons, ih, List.filter_cons, ne_eq, hvb, not_false_eq_true,
        decide_true, if_true]
      ring

/-- split a sum over `V` along a duplicate-free sublist `X ⊆ V` outside of which `g = h` -/
theorem sum_split (g h : α → F) (V X : List α) (hV : V.Nodup) (hX : X.Nodup)
    (hsub : ∀ x ∈ X, x ∈ V) (hout : ∀ w ∈ V, w ∉ X → g w = h w) :
    (V.map g).sum = (V.map h).sum + (X.map (fun x => g x - h x)).sum := by
  have step : ∀ (V : List α), (∀ w ∈ V, w ∉ X → g w = h w) →
      (V.map g).sum = (V.map h).sum + ((V.filter (fun w => decide (w ∈ X))).map (fun x => g x - h x)).sum := by
    intro V
    induction V with
    | nil => intro _; simp
    | cons v vs ih =>
      intro hout
      have ih' := ih (fun w hw => hout w (List.mem_cons_of_mem _ hw))
      by_cases hv : v ∈ X
      · simp only [List.map_cons, List.sum_cons, ih', List.filter_cons, hv, decide_true, if_true]
        ring
      · have := hout v List.mem_cons_self hv
        simp only [List.map_cons, List.sum_cons, ih', List.filter_cons, hv, decide_false, this]
        simp
        ring
  rw [step V hout]
  have hperm : (V.filter (fun w => decide (w ∈ X))).Perm X := by
    apply (List.perm_ext_iff_of_nodup (hV.filter _) hX).2
    intro a
    simp only [List.mem_filter, decide_eq_true_eq]
    constructor
    · exact fun h => h.2
    · exact fun h => ⟨hsub a h, h⟩
  rw [(hperm.map (fun x => g x - h x)).sum_eq]

end Sums

/-! ### log-level facts about the component scores -/
section Log
variable {W : Type} [DecidableEq W]

theorem find_eq_none_of_not_mem_ext (m : LM W) (c : List W) (x : W) (h : x ∉ m.ext c) :
    m.find c x = none := by
  unfold LM.find
  rw [List.find?_eq_none]
  intro e he hp
  simp only [decide_eq_true_eq] at hp
  apply h
  unfold LM.ext
  rw [List.mem_map]
  exact ⟨e, List.mem_filter.2 ⟨he, by simp [hp.1]⟩, hp.2⟩

theorem mem_ext_of_find (m : LM W) (c : List W) (x : W) (e : Entry W) (h : m.find c x = some e) :
    x ∈ m.ext c ∧ e ∈ m.entries ∧ e.ctx = c ∧ e.word = x := by
  unfold LM.find at h
  have hm := List.mem_of_find?_eq_some h
  have hp := List.find?_some h
  simp only [decide_eq_true_eq] at hp
  refine ⟨?_, hm, hp.1, hp.2⟩
  unfold LM.ext
  rw [List.mem_map]
  exact ⟨e, List.mem_filter.2 ⟨hm, by simp [hp.1]⟩, hp.2⟩

theorem mem_explicit {cs : Comps W} {c : List W} {x : W} :
    x ∈ explicit cs c ↔ ∃ p ∈ cs, x ∈ p.2.ext c := by
  unfold explicit
  rw [mem_dedup, List.mem_flatMap]

theorem nodup_explicit (cs : Comps W) (c : List W) : (explicit cs c).Nodup := nodup_dedup _

theorem rawScore_cons_of_not_ext (m : LM W) (y : W) (c : List W) (x : W) (h : x ∉ m.ext (y :: c)) :
    m.rawScore (y :: c) x = m.boOf (y :: c) + m.rawScore c x := by
  rw [LM.rawScore, find_eq_none_of_not_mem_ext m _ _ h]

/-- a word that does not explicitly follow `y :: c` in the union: every component backs off once -/
theorem usum_cons_of_not_explicit (cs : Comps W) (y : W) (c : List W) (x : W)
    (h : x ∉ explicit cs (y :: c)) :
    usum cs (y :: c) x = usum cs c x + bsum cs (y :: c) := by
  have h' : ∀ p ∈ cs, x ∉ p.2.ext (y :: c) := fun p hp hx => h (mem_explicit.2 ⟨p, hp, hx⟩)
  clear h
  unfold usum bsum
  induction cs with
  | nil => simp
  | cons p ps ih =>
    have ih' := ih (fun q hq => h' q (List.mem_cons_of_mem _ hq))
    simp only [List.map_cons, List.sum_cons]
    rw [ih', rawScore_cons_of_not_ext _ _ _ _ (h' p List.mem_cons_self)]
    ring

end Log

/-! ### the abstract exponential -/
structure IsExp {F : Type} [Field F] (E : ℚ → F) : Prop where
  add : ∀ a b, E (a + b) = E a * E b
  zero : E 0 = 1

theorem IsExp.ne_zero {F : Type} [Field F] {E : ℚ → F} (hE : IsExp E) (a : ℚ) : E a ≠ 0 := by
  intro h
  have : E (a + -a) = E a * E (-a) := hE.add _ _
  rw [add_neg_cancel, hE.zero, h, zero_mul] at this
  exact one_ne_zero this

section Lin
variable {W : Type} [DecidableEq W] {F : Type} [Field F]

/-- **telescoping identity**: the incremental normaliser of `normalize.cc` equals the defining sum,
for every context, by induction on the context. -/
theorem zinc_eq_zdirect (E : ℚ → F) (hE : IsExp E) (cs : Comps W) (V : List W) (bos : W)
    (hV : V.Nodup) (hbos : bos ∈ V) (hbos0 : usum cs [] bos = 0)
    (hex : ∀ y c, ∀ x ∈ explicit cs (y :: c), x ∈ V ∧ x ≠ bos) :
    ∀ c, Zinc E cs V c = Zdirect E cs V bos c
  | [] => by
    unfold Zinc Zdirect
    rw [sum_filter_ne (fun w => E (usum cs [] w)) bos V hV hbos, hbos0, hE.zero]
    ring
  | y :: c => by
    have ih := zinc_eq_zdirect E hE cs V bos hV hbos hbos0 hex c
    unfold Zinc
    rw [ih]
    unfold Zdirect
    set V' := V.filter (fun w => decide (w ≠ bos)) with hV'
    have hsplit := sum_split (fun w => E (usum cs (y :: c) w))
      (fun w => E (usum cs c w + bsum cs (y :: c))) V' (explicit cs (y :: c))
      (hV.filter _) (nodup_explicit _ _)
      (fun x hx => by
        have := hex y c x hx
        rw [hV']
        exact List.mem_filter.2 ⟨this.1, by simpa using this.2⟩)
      (fun w _ hw => by rw [usum_cons_of_not_explicit cs y c w hw])
    rw [hsplit]
    congr 1
    rw [← List.sum_map_mul_left]
    congr 1
    apply List.map_congr_left
    intro w _
    rw [hE.add]
    ring

end Lin

/-! ### the union n-gram set and the output table -/
section Out
variable {W : Type} [DecidableEq W]

theorem mem_unionGrams {cs : Comps W} {c : List W} {w : W} :
    (c, w) ∈ unionGrams cs ↔ ∃ p ∈ cs, ∃ e ∈ p.2.entries, e.ctx = c ∧ e.word = w := by
  unfold unionGrams
  rw [mem_dedup, List.mem_flatMap]
  constructor
  · rintro ⟨p, hp, h⟩
    rw [List.mem_map] at h
    obtain ⟨e, he, heq⟩ := h
    exact ⟨p, hp, e, he, by simpa using congrArg Prod.fst heq, by simpa using congrArg Prod.snd heq⟩
  · rintro ⟨p, hp, e, he, h1, h2⟩
    exact ⟨p, hp, List.mem_map.2 ⟨e, he, by rw [h1, h2]⟩⟩

theorem nodup_unionGrams (cs : Comps W) : (unionGrams cs).Nodup := nodup_dedup _

theorem mem_ext_iff {m : LM W} {c : List W} {x : W} :
    x ∈ m.ext c ↔ ∃ e ∈ m.entries, e.ctx = c ∧ e.word = x := by
  unfold LM.ext
  rw [List.mem_map]
  constructor
  · rintro ⟨e, he, hw⟩
    rw [List.mem_filter] at he
    exact ⟨e, he.1, by simpa using he.2, hw⟩
  · rintro ⟨e, he, h1, h2⟩
    exact ⟨e, List.mem_filter.2 ⟨he, by simpa using h1⟩, h2⟩

theorem mem_unionGrams_iff_explicit {cs : Comps W} {c : List W} {w : W} :
    (c, w) ∈ unionGrams cs ↔ w ∈ explicit cs c := by
  rw [mem_unionGrams, mem_explicit]
  constructor
  · rintro ⟨p, hp, e, he, h⟩
    exact ⟨p, hp, mem_ext_iff.2 ⟨e, he, h⟩⟩
  · rintro ⟨p, hp, hx⟩
    obtain ⟨e, he, h⟩ := mem_ext_iff.1 hx
    exact ⟨p, hp, e, he, h⟩

/-- every context that has an extension in the union is itself an n-gram of the union
(true of lmplz models; checked on every generated component) -/
def PrefixClosed (cs : Comps W) : Prop :=
  ∀ y c, explicit cs (y :: c) ≠ [] → ∃ g ∈ unionGrams cs, g.1 ++ [g.2] = y :: c

variable {F : Type} [Field F]

theorem find?_pair_of_mem {l : List (List W × W)} {c : List W} {w : W} (h : (c, w) ∈ l) :
    l.find? (fun g => decide (g.1 = c ∧ g.2 = w)) = some (c, w) := by
  induction l with
  | nil => simp at h
  | cons a as ih =>
    by_cases ha : a.1 = c ∧ a.2 = w
    · have : a = (c, w) := Prod.ext ha.1 ha.2
      rw [List.find?_cons_of_pos (by simpa using ha), this]
    · rw [List.find?_cons_of_neg (by simpa using ha)]
      apply ih
      rcases List.mem_cons.1 h with h | h
      · exact absurd ⟨by rw [← h], by rw [← h]⟩ ha
      · exact h

theorem find?_pair_of_not_mem {l : List (List W × W)} {c : List W} {w : W} (h : (c, w) ∉ l) :
    l.find? (fun g => decide (g.1 = c ∧ g.2 = w)) = none := by
  rw [List.find?_eq_none]
  intro g hg hp
  simp only [decide_eq_true_eq] at hp
  exact h (by rw [← hp.1, ← hp.2]; exact hg)

omit [Field F] in
theorem find?_map_pair (f : List W × W → OutEntry W F) (hf1 : ∀ g, (f g).ctx = g.1)
    (hf2 : ∀ g, (f g).word = g.2) (c : List W) (w : W) :
    ∀ l : List (List W × W), (l.map f).find? (fun e => decide (e.ctx = c ∧ e.word = w)) =
      (l.find? (fun g => decide (g.1 = c ∧ g.2 = w))).map f
  | [] => rfl
  | a :: as => by
    rw [List.map_cons]
    by_cases ha : a.1 = c ∧ a.2 = w
    · rw [List.find?_cons_of_pos (by simpa [hf1, hf2] using ha),
        List.find?_cons_of_pos (by simpa using ha)]
      rfl
    · rw [List.find?_cons_of_neg (by simpa [hf1, hf2] using ha),
        List.find?_cons_of_neg (by simpa using ha)]
      exact find?_map_pair f hf1 hf2 c w as

theorem outFind_interpOut_of_mem (E : ℚ → F) (cs : Comps W) (V : List W) (c : List W) (w : W)
    (h : (c, w) ∈ unionGrams cs) :
    ∃ e, outFind (interpOut E cs V) c w = some e ∧ e.p = pOut E cs V c w := by
  unfold outFind interpOut
  rw [find?_map_pair _ (fun _ => rfl) (fun _ => rfl), find?_pair_of_mem h]
  exact ⟨_, rfl, rfl⟩

theorem outFind_interpOut_of_not_mem (E : ℚ → F) (cs : Comps W) (V : List W) (c : List W) (w : W)
    (h : (c, w) ∉ unionGrams cs) :
    outFind (interpOut E cs V) c w = none := by
  unfold outFind interpOut
  rw [find?_map_pair _ (fun _ => rfl) (fun _ => rfl), find?_pair_of_not_mem h]
  rfl

/-- the back-off the output model charges for leaving context `y :: c` -/
theorem outBo_interpOut (E : ℚ → F) (cs : Comps W) (V : List W) (hpc : PrefixClosed cs)
    (y : W) (c : List W) :
    outBo (interpOut E cs V) (y :: c) =
      if (explicit cs (y :: c)).isEmpty then 1 else boSame E cs V (y :: c) := by
  unfold outBo
  cases hf : (interpOut E cs V).find? (fun e => decide (e.gram = y :: c)) with
  | some e =>
    have hm := List.mem_of_find?_eq_some hf
    have hp := List.find?_some hf
    simp only [decide_eq_true_eq] at hp
    unfold interpOut at hm
    rw [List.mem_map] at hm
    obtain ⟨g, _, rfl⟩ := hm
    simp only [OutEntry.gram] at hp
    simp only [hp]
  | none =>
    have hne : (explicit cs (y :: c)).isEmpty = true := by
      by_contra hcon
      have hne : explicit cs (y :: c) ≠ [] := by
        intro h0; rw [h0] at hcon; simp at hcon
      obtain ⟨g, hg, hgram⟩ := hpc y c hne
      rw [List.find?_eq_none] at hf
      apply hf _ (List.mem_map.2 ⟨g, hg, rfl⟩)
      simp [OutEntry.gram, hgram]
    simp [hne]

/-- **back-off recursion lemma**: evaluating the written entries with the ARPA back-off
recursion gives the defining formula `10^(Σᵢ λᵢ scoreᵢ(w|c)) / Z(c)` for *every* context and
every word that has a unigram. -/
theorem outScore_interpOut (E : ℚ → F) (hE : IsExp E) (cs : Comps W) (V : List W)
    (hpc : PrefixClosed cs) (hZ : ∀ c, Zinc E cs V c ≠ 0) (w : W) (hw : ([], w) ∈ unionGrams cs) :
    ∀ c, outScore (interpOut E cs V) c w = E (usum cs c w) / Zinc E cs V c
  | [] => by
    obtain ⟨e, he, hp⟩ := outFind_interpOut_of_mem E cs V [] w hw
    rw [outScore, he]
    simpa [pOut] using hp
  | y :: c => by
    have ih := outScore_interpOut E hE cs V hpc hZ w hw c
    by_cases hm : (y :: c, w) ∈ unionGrams cs
    · obtain ⟨e, he, hp⟩ := outFind_interpOut_of_mem E cs V (y :: c) w hm
      rw [outScore, he]
      simpa [pOut] using hp
    · rw [outScore, outFind_interpOut_of_not_mem E cs V _ _ hm]
      simp only
      rw [ih, outBo_interpOut E cs V hpc]
      have hx : w ∉ explicit cs (y :: c) := fun h => hm (mem_unionGrams_iff_explicit.2 h)
      rw [usum_cons_of_not_explicit cs y c w hx, hE.add]
      have hB := hE.ne_zero (bsum cs (y :: c))
      have hZc := hZ c
      have hZyc := hZ (y :: c)
      by_cases hemp : (explicit cs (y :: c)).isEmpty = true
      · have h0 : explicit cs (y :: c) = [] := List.isEmpty_iff.1 hemp
        have hz : Zinc E cs V (y :: c) = E (bsum cs (y :: c)) * Zinc E cs V c := by
          rw [Zinc, h0]; simp
        rw [if_pos hemp, hz]
        field_simp
      · rw [if_neg hemp]
        unfold boSame
        field_simp

end Out


/-! ### decidable well-formedness conditions on the inputs -/
section WF
variable {W : Type} [DecidableEq W]

/-- every predicted word is in the vocabulary and no n-gram of order ≥ 2 predicts `<s>` -/
def EntriesOK (cs : Comps W) (V : List W) (bos : W) : Prop :=
  ∀ p ∈ cs, ∀ e ∈ p.2.entries, e.word ∈ V ∧ (e.ctx ≠ [] → e.word ≠ bos)

theorem explicit_ok {cs : Comps W} {V : List W} {bos : W} (h : EntriesOK cs V bos) :
    ∀ y c, ∀ x ∈ explicit cs (y :: c), x ∈ V ∧ x ≠ bos := by
  intro y c x hx
  obtain ⟨p, hp, hx⟩ := mem_explicit.1 hx
  obtain ⟨e, he, h1, h2⟩ := mem_ext_iff.1 hx
  have := h p hp e he
  rw [h2] at this
  exact ⟨this.1, this.2 (by rw [h1]; simp)⟩

/-- decidable form of prefix closure: the context of every union n-gram is a union n-gram -/
def PrefixClosedD (cs : Comps W) : Prop :=
  ∀ g ∈ unionGrams cs, g.1 ≠ [] → ∃ g' ∈ unionGrams cs, g'.1 ++ [g'.2] = g.1

theorem prefixClosed_of_D {cs : Comps W} (h : PrefixClosedD cs) : PrefixClosed cs := by
  intro y c hne
  obtain ⟨x, hx⟩ := List.exists_mem_of_ne_nil _ hne
  have hm : (y :: c, x) ∈ unionGrams cs := mem_unionGrams_iff_explicit.2 hx
  exact h (y :: c, x) hm (by simp)

end WF

/-! ### termination of pass 3: which inputs leave a union n-gram without a back-off record -/
section Stuck
variable {W : Type} [DecidableEq W]

omit [DecidableEq W] in
theorem maxOrder_le (cs : Comps W) (n : Nat) (h : ∀ p ∈ cs, p.2.order ≤ n) : maxOrder cs ≤ n := by
  unfold maxOrder
  induction cs with
  | nil => simp
  | cons p ps ih =>
    simp only [List.map_cons, List.foldr_cons]
    exact Nat.max_le.2 ⟨h p List.mem_cons_self, ih (fun q hq => h q (List.mem_cons_of_mem _ hq))⟩

theorem findGram_isSome_of_mem (m : LM W) (e : Entry W) (he : e ∈ m.entries) :
    (m.findGram e.gram).isSome = true := by
  unfold LM.findGram
  rw [List.find?_isSome]
  exact ⟨e, he, by simp⟩

/-- components of one common order never leave a union n-gram without a back-off record -/
theorem stuck_eq_nil_of_equal_orders (cs : Comps W) (n : Nat) (h : ∀ p ∈ cs, p.2.order = n) :
    stuck cs = [] := by
  unfold stuck
  rw [List.filter_eq_nil_iff]
  intro g hg
  rw [List.mem_map] at hg
  obtain ⟨g', hg', rfl⟩ := hg
  obtain ⟨p, hp, e, he, h1, h2⟩ := mem_unionGrams.1 (show (g'.1, g'.2) ∈ unionGrams cs from hg')
  intro hcon
  simp only [Bool.and_eq_true, decide_eq_true_eq, Bool.not_eq_true', hasBackoffRecord,
    Bool.or_eq_false_iff] at hcon
  obtain ⟨hlen, -, hany⟩ := hcon
  have hle := maxOrder_le cs n (fun q hq => le_of_eq (h q hq))
  have : cs.any (fun p => decide ((g'.1 ++ [g'.2]).length < p.2.order) &&
      (p.2.findGram (g'.1 ++ [g'.2])).isSome) = true := by
    rw [List.any_eq_true]
    refine ⟨p, hp, ?_⟩
    have hs := findGram_isSome_of_mem p.2 e he
    simp only [Entry.gram, h1, h2] at hs
    have hl : (g'.1 ++ [g'.2]).length < n := lt_of_lt_of_le hlen hle
    rw [hs, h p hp]
    simpa using hl
  rw [this] at hany
  exact Bool.noConfusion hany

end Stuck

end KV.Interp
