import Model.KNOutput
/-!
`intermediate_eq`: the intermediate files hold the same values as the ARPA file — same metadata
counts, same orders, record by record the same n-gram and probability, and the same back-off
wherever the ARPA prints one; the ARPA is a function of the intermediate files
(`arpa_from_inter`).  `intermediate_header`: the metadata counts are the file lengths when the
header counts are the numbers of entries (`header_counts_corpus` proves that for every corpus).
-/
namespace KV.KN.Output

open KV.KN

theorem arpa_line (m : Model) (i j : Nat) (l : List Entry) (e : Entry) (hl : m.orders[i]? = some l)
    (he : l[j]? = some e) :
    (arpaOf m).sections[i]?.bind (·[j]?) =
      some (e.gram, e.p, if i + 1 < m.orders.length then some e.bo else none) := by
  simp [arpaOf, List.getElem?_mapIdx, hl, he]

theorem inter_rec (m : Model) (i j : Nat) (l : List Entry) (e : Entry) (hl : m.orders[i]? = some l)
    (he : l[j]? = some e) :
    (interOf m).files[i]?.bind (·[j]?) = some (e.gram, e.p, e.bo) := by
  simp [interOf, hl, he]

/-- the ARPA text is determined by the intermediate files -/
theorem arpa_from_inter (m : Model) : arpaOf m = arpaFromInter (interOf m) := by
  unfold arpaOf arpaFromInter interOf
  simp only [List.length_map, ArpaText.mk.injEq, true_and]
  apply List.ext_getElem?
  intro i
  simp only [List.getElem?_mapIdx, List.getElem?_map, Option.map_map]
  cases m.orders[i]? with
  | none => rfl
  | some l => simp [Function.comp]

/-- **intermediate_eq**: what `Output::SinkProbs` writes to the two sinks agrees -/
theorem intermediate_eq (m : Model) :
    (writeBoth m).1.counts = (writeBoth m).2.counts ∧
    (writeBoth m).1.sections.length = (writeBoth m).2.files.length ∧
    (∀ i : Nat, ((writeBoth m).1.sections[i]?.map List.length) = ((writeBoth m).2.files[i]?.map List.length)) ∧
    (∀ (i j : Nat) (line : ArpaLine), (writeBoth m).1.sections[i]?.bind (·[j]?) = some line →
      ∃ r : InterRec, (writeBoth m).2.files[i]?.bind (·[j]?) = some r ∧ line.1 = r.1 ∧ line.2.1 = r.2.1 ∧
        (∀ b, line.2.2 = some b → b = r.2.2) ∧
        (line.2.2.isSome = decide (i + 1 < (writeBoth m).2.files.length))) ∧
    (writeBoth m).1 = arpaFromInter (writeBoth m).2 := by
  refine ⟨rfl, by simp [writeBoth, arpaOf, interOf], ?_, ?_, arpa_from_inter m⟩
  · intro i
    simp only [writeBoth, arpaOf, interOf, List.getElem?_mapIdx, List.getElem?_map, Option.map_map]
    cases m.orders[i]? with
    | none => rfl
    | some l => simp
  · intro i j line h
    cases hl : m.orders[i]? with
    | none => simp [writeBoth, arpaOf, List.getElem?_mapIdx, hl] at h
    | some l =>
      cases he : l[j]? with
      | none => simp [writeBoth, arpaOf, List.getElem?_mapIdx, hl, he] at h
      | some e =>
        have h1 := arpa_line m i j l e hl he
        have h2 := inter_rec m i j l e hl he
        simp only [writeBoth] at h ⊢
        rw [h1] at h
        have hline := (Option.some.inj h).symm
        subst hline
        refine ⟨_, h2, rfl, rfl, ?_, ?_⟩
        · intro b hb
          simp only at hb
          split at hb
          · exact (Option.some.inj hb).symm
          · cases hb
        · simp only [interOf, List.length_map]
          split <;> simp [*]

/-- the metadata counts are the file lengths (and the ARPA `ngram n=` counts the section lengths)
when the header counts are the numbers of entries -/
theorem intermediate_header (m : Model) (h : m.header = m.orders.map List.length) :
    (interOf m).counts = (interOf m).files.map List.length ∧
    (arpaOf m).counts = (arpaOf m).sections.map List.length := by
  constructor
  · simp [interOf, h, Function.comp]
  · simp only [arpaOf, h]
    apply List.ext_getElem?
    intro i
    simp only [List.getElem?_map, List.getElem?_mapIdx, Option.map_map]
    cases m.orders[i]? with
    | none => rfl
    | some l => simp

/-- a two-order toy model: `<unk> <s> </s> a`, one bigram `<s> a` -/
def toy : Model :=
  { stats := [], discs := [], header := [4, 1], uniform := 1 / 3,
    orders := [[⟨[0], 1/8, 1⟩, ⟨[1], 1, 1/2⟩, ⟨[2], 3/8, 1⟩, ⟨[3], 1/2, 3/4⟩], [⟨[3, 1], 5/8, 1⟩]] }

example : arpaOf toy =
    { counts := [4, 1],
      sections := [[([0], 1/8, some 1), ([1], 1, some (1/2)), ([2], 3/8, some 1), ([3], 1/2, some (3/4))],
                   [([3, 1], 5/8, none)]] } := rfl

example : interOf toy =
    { counts := [4, 1],
      files := [[([0], 1/8, 1), ([1], 1, 1/2), ([2], 3/8, 1), ([3], 1/2, 3/4)], [([3, 1], 5/8, 1)]] } := rfl

example : arpaFromInter (interOf toy) = arpaOf toy := rfl

end KV.KN.Output
