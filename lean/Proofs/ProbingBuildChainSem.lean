import Proofs.ProbingBuildChainEval
/-! `chainWant` agrees with the payloads prescribed for the enlarged key set: the general per-line step. -/
namespace KV.ProbingBuild
open KV.Arpa KV.Table KV.Score KV.ProbingLM

/-- the value `Table.build` prescribes for a key: the (backed-off) score of its newest word after the rest -/
def val (a : Arpa) (k : Key) : Rat := score a k.tail (k.headD 0)

theorem val_uni (a : Arpa) (w : Word) : val a [w] = a.uniProb w := by simp [val, score, scoreAt]

theorem val_real (a : Arpa) (k : Key) (e : Entry) (hk : 2 ≤ k.length) (hN : k.length ≤ a.order) (hg : a.gram k = some e) :
    val a k = e.prob := by
  match k, hk with
  | w :: x :: ctx, _ =>
    simp only [List.length_cons] at hN
    have hm : min (x :: ctx).length (a.order - 1) = ctx.length + 1 := by simp only [List.length_cons]; omega
    simp only [val, score, List.tail_cons, List.headD_cons, hm, scoreAt]
    have : (x :: ctx).take (ctx.length + 1) = x :: ctx := by simp
    rw [this, hg]

theorem val_step (a : Arpa) (k : Key) (hk : 2 ≤ k.length) (hN : k.length ≤ a.order) (hg : a.gram k = none) :
    val a k = a.boW k.tail + val a (k.take (k.length - 1)) := by
  match k, hk with
  | w :: x :: ctx, _ =>
    simp only [List.length_cons] at hN
    have hm : min (x :: ctx).length (a.order - 1) = ctx.length + 1 := by simp only [List.length_cons]; omega
    have ht : (x :: ctx).take (ctx.length + 1) = x :: ctx := by simp
    have h1 : val a (w :: x :: ctx) = a.boW (x :: ctx) + scoreAt a (x :: ctx) w ctx.length := by
      simp only [val, score, List.tail_cons, List.headD_cons, hm, scoreAt, ht, hg]
    rw [h1]
    have h2 : (w :: x :: ctx).take ((w :: x :: ctx).length - 1) = w :: (x :: ctx).take ctx.length := by
      simp only [List.length_cons, Nat.add_sub_cancel]
      rfl
    have hm2 : min ((x :: ctx).take ctx.length).length (a.order - 1) = ctx.length := by
      rw [List.length_take]; simp only [List.length_cons]; omega
    rw [h2]
    simp only [val, score, List.tail_cons, List.headD_cons, hm2]
    rw [scoreAt_take a (x :: ctx) w ctx.length ctx.length (Nat.le_refl _)]

/-- the hypotheses of a line with a blank chain -/
structure CH (combine : Nat → Word → Nat) (a : Arpa) (nWords : Nat) (um : Rat) (caps : Nat → Nat) (S : List Key)
    (p : Key) (e : Entry) (b L : Nat) : Prop where
  ok : ArpaOK' a nWords um
  si : SInv a S
  lc : LC combine a (initUni a nWords) a.order caps S p e
  hb : 1 ≤ b
  hL : 1 ≤ L
  hpl : p.length = b + L + 1
  hbasis : b = 1 ∨ p.take b ∈ S
  hmiss : ∀ j, b < j → j ≤ b + L → p.take j ∉ S

section
variable {combine : Nat → Word → Nat} {a : Arpa} {nWords : Nat} {um : Rat} {caps : Nat → Nat} {S : List Key}
  {p : Key} {e : Entry} {b L : Nat}

theorem CH.take_len (ch : CH combine a nWords um caps S p e b L) (j : Nat) (hj : j ≤ b + L + 1) : (p.take j).length = j := by
  rw [List.length_take, ch.hpl]; omega

theorem CH.ctx_len (ch : CH combine a nWords um caps S p e b L) (j : Nat) (hj : j ≤ b + L) : ((p.drop 1).take j).length = j := by
  rw [List.length_take, List.length_drop, ch.hpl]; omega

theorem CH.drop_mem (ch : CH combine a nWords um caps S p e b L) : p.drop 1 ∈ S := ch.lc.ctx (by have := ch.hpl; have := ch.hb; have := ch.hL; omega)

theorem CH.ctx_mem (ch : CH combine a nWords um caps S p e b L) (j : Nat) (h2 : 2 ≤ j) (hj : j ≤ b + L) : (p.drop 1).take j ∈ S :=
  ch.si.take_mem _ ch.drop_mem (b + L - j) j (by rw [List.length_drop, ch.hpl]; omega) h2

theorem CH.ctx_top (ch : CH combine a nWords um caps S p e b L) : (p.drop 1).take (b + L) = p.drop 1 := by
  apply List.take_of_length_le
  rw [List.length_drop, ch.hpl]; omega

theorem CH.isKey (ch : CH combine a nWords um caps S p e b L) (j : Nat) (h1 : 1 ≤ j) (hj : j ≤ b + L + 1) : IsKey a (p.take j) := by
  have hp : IsKey a p := ⟨by intro h; have := ch.hpl; rw [h] at this; simp at this, Or.inl (by rw [ch.lc.real]; simp)⟩
  exact isKey_take a p hp j h1 (by rw [ch.hpl]; exact hj)

theorem CH.blank_none (ch : CH combine a nWords um caps S p e b L) (j : Nat) (h1 : b < j) (hj : j ≤ b + L) : a.gram (p.take j) = none := by
  cases hg : a.gram (p.take j) with
  | none => rfl
  | some e' =>
    have hl := ch.take_len j (by omega)
    have hb := ch.hb
    exact absurd (ch.lc.rs _ (by rw [hg]; simp) (by rw [hl]; omega) (by rw [hl, ch.hpl]; omega)) (ch.hmiss j h1 hj)

/-- the keys a line adds besides itself: exactly its prefixes of orders `b+1 .. b+L` -/
theorem CH.missing_iff (ch : CH combine a nWords um caps S p e b L) (k : Key) :
    k ∈ missing S p (p.length - 1) ↔ ∃ j, b < j ∧ j ≤ b + L ∧ k = p.take j := by
  have hb := ch.hb
  have hn1 : p.length - 1 = b + L := by rw [ch.hpl]; omega
  constructor
  · intro hk
    obtain ⟨i, h2, hi, he, hns⟩ := missing_mem S p _ k hk
    refine ⟨i, ?_, by omega, he⟩
    apply Classical.byContradiction
    intro hbi
    rcases ch.hbasis with h1 | h1
    · omega
    · have := ch.si.take_mem _ h1 (b - i) i (by rw [ch.take_len b (by omega)]; omega) h2
      rw [List.take_take, Nat.min_eq_left (by omega)] at this
      exact hns (he ▸ this)
  · rintro ⟨j, h1, h2, he⟩
    rw [he]
    exact mem_missing_of_not_mem ch.si p _ (by omega) j (by omega) (by omega) (ch.hmiss j h1 h2)

/-- every key added by the line is a prefix of order `b+1 .. b+L+1` -/
theorem CH.new_iff (ch : CH combine a nWords um caps S p e b L) (k : Key) :
    k ∈ addLineKeys S p ↔ k ∈ S ∨ ∃ j, b < j ∧ j ≤ b + L + 1 ∧ k = p.take j := by
  rw [mem_addLineKeys, ch.missing_iff]
  constructor
  · rintro (h | ⟨j, h1, h2, he⟩ | h)
    · exact Or.inl h
    · exact Or.inr ⟨j, h1, by omega, he⟩
    · refine Or.inr ⟨b + L + 1, by omega, Nat.le_refl _, ?_⟩
      rw [h, ← ch.hpl, List.take_length]
  · rintro (h | ⟨j, h1, h2, he⟩)
    · exact Or.inl h
    · by_cases hj : j = b + L + 1
      · right; right; rw [he, hj, ← ch.hpl, List.take_length]
      · right; left; exact ⟨j, h1, by omega, he⟩


theorem endsInK_true_iff (X : List Key) (k : Key) :
    endsInK X k = true ↔ ∃ k' ∈ X, k'.length = k.length + 1 ∧ k'.take k.length = k := by
  simp [endsInK]
theorem startsWithK_true_iff (X : List Key) (k : Key) :
    startsWithK X k = true ↔ ∃ k' ∈ X, k'.length = k.length + 1 ∧ k'.drop 1 = k := by
  simp [startsWithK]

/-- `k` is a prefix of the line of order `b .. b+L` (its sign is cleared by the chain) -/
def cK (p : Key) (b L : Nat) (k : Key) : Bool := decide (b ≤ k.length ∧ k.length ≤ b + L ∧ k = p.take k.length)
/-- `k` is a prefix of the line's context of order `b .. b+L` (its extension bit is set by the chain) -/
def cX (p : Key) (b L : Nat) (k : Key) : Bool := decide (b ≤ k.length ∧ k.length ≤ b + L ∧ k = (p.drop 1).take k.length)
def cF (p : Key) (b L : Nat) (k : Key) : Bool := decide (b ≤ k.length ∧ k.length < b + L ∧ k = (p.drop 1).take k.length)
def cD (p : Key) (k : Key) : Bool := decide (k = p.drop 1)

theorem CH.endsInK_new (ch : CH combine a nWords um caps S p e b L) (k : Key) :
    endsInK (addLineKeys S p) k = (endsInK S k || cK p b L k) := by
  apply Bool.eq_iff_iff.mpr
  rw [Bool.or_eq_true, endsInK_true_iff, endsInK_true_iff]
  simp only [cK, decide_eq_true_eq]
  constructor
  · rintro ⟨k', hk', hl, ht⟩
    rcases (ch.new_iff k').mp hk' with h | ⟨j, h1, h2, he⟩
    · exact Or.inl ⟨k', h, hl, ht⟩
    · have hjl := ch.take_len j h2
      rw [← he] at hjl
      have hk : k = (p.take j).take k.length := by rw [← he]; exact ht.symm
      rw [List.take_take, Nat.min_eq_left (by omega)] at hk
      exact Or.inr ⟨by omega, by omega, hk⟩
  · rintro (⟨k', h, hl, ht⟩ | ⟨h1, h2, he⟩)
    · exact ⟨k', (ch.new_iff k').mpr (Or.inl h), hl, ht⟩
    · refine ⟨p.take (k.length + 1), (ch.new_iff _).mpr (Or.inr ⟨k.length + 1, by omega, by omega, rfl⟩),
        ch.take_len _ (by omega), ?_⟩
      rw [List.take_take, Nat.min_eq_left (by omega)]
      exact he.symm

theorem CH.startsWithK_new (ch : CH combine a nWords um caps S p e b L) (k : Key) :
    startsWithK (addLineKeys S p) k = (startsWithK S k || cX p b L k) := by
  apply Bool.eq_iff_iff.mpr
  rw [Bool.or_eq_true, startsWithK_true_iff, startsWithK_true_iff]
  simp only [cX, decide_eq_true_eq]
  constructor
  · rintro ⟨k', hk', hl, ht⟩
    rcases (ch.new_iff k').mp hk' with h | ⟨j, h1, h2, he⟩
    · exact Or.inl ⟨k', h, hl, ht⟩
    · have hjl := ch.take_len j h2
      rw [← he] at hjl
      have hk : k = (p.take j).drop 1 := by rw [← he]; exact ht.symm
      rw [List.drop_take] at hk
      have hj1 : j - 1 = k.length := by omega
      rw [hj1] at hk
      exact Or.inr ⟨by omega, by omega, hk⟩
  · rintro (⟨k', h, hl, ht⟩ | ⟨h1, h2, he⟩)
    · exact ⟨k', (ch.new_iff k').mpr (Or.inl h), hl, ht⟩
    · refine ⟨p.take (k.length + 1), (ch.new_iff _).mpr (Or.inr ⟨k.length + 1, by omega, by omega, rfl⟩),
        ch.take_len _ (by omega), ?_⟩
      rw [List.drop_take, Nat.add_sub_cancel]
      exact he.symm

theorem CH.wantAll_new (ch : CH combine a nWords um caps S p e b L) (u0 : List W) (k : Key) :
    wantAll a u0 (addLineKeys S p) k = markW (wantAll a u0 S k) (cK p b L k) (cX p b L k) := by
  unfold wantAll
  by_cases hl : k.length = 1
  · rw [if_pos hl, if_pos hl]
    have hk : [k.headD 0] = k := by
      match k, hl with
      | [w], _ => rfl
    rw [expU_eq_markW, expU_eq_markW, hk, ch.endsInK_new, ch.startsWithK_new, markW_markW]
  · rw [if_neg hl, if_neg hl, wantW_eq_markW, wantW_eq_markW, ch.endsInK_new, ch.startsWithK_new, markW_markW]

theorem CH.cX_split (ch : CH combine a nWords um caps S p e b L) (k : Key) : cX p b L k = (cF p b L k || cD p k) := by
  apply Bool.eq_iff_iff.mpr
  simp only [cX, cF, cD, Bool.or_eq_true, decide_eq_true_eq]
  constructor
  · rintro ⟨h1, h2, he⟩
    by_cases hl : k.length < b + L
    · exact Or.inl ⟨h1, hl, he⟩
    · right
      have : k.length = b + L := by omega
      rw [this, ch.ctx_top] at he
      exact he
  · rintro (⟨h1, h2, he⟩ | he)
    · exact ⟨h1, by omega, he⟩
    · have hl : k.length = b + L := by rw [he, List.length_drop, ch.hpl]; omega
      refine ⟨by omega, by omega, ?_⟩
      rw [hl, ch.ctx_top]; exact he

theorem CH.cK_iff (ch : CH combine a nWords um caps S p e b L) (k : Key) : cK p b L k = true ↔ k ∈ chainKeys p b L := by
  rw [mem_chainKeys]
  simp only [cK, decide_eq_true_eq]
  constructor
  · rintro ⟨h1, h2, he⟩
    exact ⟨k.length, h1, h2, he⟩
  · rintro ⟨j, h1, h2, he⟩
    have hl : k.length = j := by rw [he]; exact ch.take_len j (by omega)
    rw [hl]
    exact ⟨h1, h2, he⟩


/-- the payloads after the insertion and `FindLower` (blanks appended with `blankW`) -/
def want1F (a : Arpa) (u0 : List W) (S : List Key) (p : Key) (e : Entry) (b L : Nat) : Key → W := fun k =>
  if b < k.length ∧ k.length ≤ b + L ∧ k = p.take k.length then blankW else updW (wantAll a u0 S) p (lineW e) k

theorem CH.p_not_mem (ch : CH combine a nWords um caps S p e b L) : p ∉ S := by
  intro hp
  exact ch.lc.fresh p (Or.inr rfl) p ((mem_keysOf S _ p).mpr ⟨hp, rfl⟩) rfl

theorem CH.want1_old (ch : CH combine a nWords um caps S p e b L) (u0 : List W) (k : Key) (hk : k ∈ S ∨ k.length = 1) :
    want1F a u0 S p e b L k = wantAll a u0 S k := by
  unfold want1F
  have hb := ch.hb
  have hL := ch.hL
  rw [if_neg]
  · have hne : k ≠ p := by
      intro he
      rcases hk with h | h
      · exact ch.p_not_mem (he ▸ h)
      · rw [he, ch.hpl] at h; omega
    simp only [updW, hne, if_false]
  · rintro ⟨h1, h2, he⟩
    rcases hk with h | h
    · exact ch.hmiss _ h1 h2 (he ▸ h)
    · omega

theorem CH.old_not_blank (ch : CH combine a nWords um caps S p e b L) (k : Key) (hk : k ∈ S ∨ k.length = 1) (j : Nat)
    (h1 : b < j) (h2 : j ≤ b + L) : k ≠ p.take j := by
  intro he
  have hb := ch.hb
  rcases hk with h | h
  · exact ch.hmiss j h1 h2 (he ▸ h)
  · rw [he, ch.take_len j (by omega)] at h; omega

theorem xrOK_wantAll (a : Arpa) (nWords : Nat) (S : List Key) (k : Key) : XrOK (wantAll a (initUni a nWords) S k) := by
  unfold wantAll
  split
  · rw [expU_eq_markW]; exact xrOK_markW _ _ _ (initUni_ok a nWords _)
  · rw [wantW_eq_markW]; exact xrOK_markW _ _ _ (baseW_xr a k)

/-- (B), (D): an old key or a unigram gains exactly the marks of the chain -/
theorem CH.chain_old (ch : CH combine a nWords um caps S p e b L) (k : Key) (hk : k ∈ S ∨ k.length = 1) :
    chainWant (want1F a (initUni a nWords) S p e b L) p b L k =
      markW (wantAll a (initUni a nWords) S k) (cK p b L k) (cX p b L k) := by
  have hb := ch.hb
  have hL := ch.hL
  have hx := xrOK_wantAll a nWords S k
  have hnb : ∀ j, j < L → k ≠ p.take (b + 1 + j) := fun j hj => ch.old_not_blank k hk _ (by omega) (by omega)
  -- the fill updates
  have hF : applyUpd (want1F a (initUni a nWords) S p e b L)
      (fillUs (want1F a (initUni a nWords) S p e b L) p L b (-(want1F a (initUni a nWords) S p e b L (p.take b)).mag)) k =
      markW (wantAll a (initUni a nWords) S k) false (cF p b L k) := by
    by_cases hc : b ≤ k.length ∧ k.length < b + L ∧ k = (p.drop 1).take k.length
    · have hcf : cF p b L k = true := by simp only [cF]; exact decide_eq_true hc
      rw [hcf, fill_ctx _ p k L b _ _ (k.length - b) (by omega)
        (by rw [show b + (k.length - b) = k.length by omega]; exact hc.2.2) (by rw [ch.hpl]; omega) hnb,
        ch.want1_old _ k hk, setExtension_eq _ hx]
    · have hcf : cF p b L k = false := by simp only [cF]; exact decide_eq_false hc
      rw [hcf, fill_other _ p k L b _ _ ?_ hnb, ch.want1_old _ k hk, markW_ff]
      intro i hi he
      have hl : k.length = b + i := by rw [he]; exact ch.ctx_len _ (by omega)
      exact hc ⟨by omega, by omega, by rw [hl]; exact he⟩
  rw [chainWant_eval, hF, ch.cX_split]
  have hx1 : XrOK (markW (wantAll a (initUni a nWords) S k) false (cF p b L k)) := xrOK_markW _ _ _ hx
  have hM : (if k ∈ chainKeys p b L then clr (markW (wantAll a (initUni a nWords) S k) false (cF p b L k))
      else markW (wantAll a (initUni a nWords) S k) false (cF p b L k)) =
      markW (wantAll a (initUni a nWords) S k) (cK p b L k) (cF p b L k) := by
    by_cases hm : k ∈ chainKeys p b L
    · rw [if_pos hm, (ch.cK_iff k).mpr hm, clr_eq, markW_markW]; simp
    · have : cK p b L k = false := by
        cases h : cK p b L k with
        | false => rfl
        | true => exact absurd ((ch.cK_iff k).mp h) hm
      rw [if_neg hm, this]
  rw [hM]
  by_cases hd : k = p.drop 1
  · have : cD p k = true := by simp only [cD]; exact decide_eq_true hd
    rw [if_pos hd, this, setExtension_eq _ (xrOK_markW _ _ _ hx), markW_markW]; simp
  · have : cD p k = false := by simp only [cD]; exact decide_eq_false hd
    rw [if_neg hd, this]; simp


/-- the back-off the fill loop reads from a context of order `β` is the model's -/
theorem CH.ctx_backoff (ch : CH combine a nWords um caps S p e b L) (β : Nat) (h1 : b ≤ β) (h2 : β < b + L) :
    (setExtension (want1F a (initUni a nWords) S p e b L ((p.drop 1).take β))).backoff = a.boW ((p.drop 1).take β) := by
  have hb := ch.hb
  rw [setExtension_backoff]
  by_cases hβ : 2 ≤ β
  · have hm := ch.ctx_mem β hβ (by omega)
    have hl := ch.ctx_len β (by omega)
    rw [ch.want1_old _ _ (Or.inl hm)]
    unfold wantAll
    rw [if_neg (by omega)]
    unfold Arpa.boW
    generalize (p.drop 1).take β = k
    cases hg : a.gram k <;> simp [wantW, baseW, hg, lineW]
  · have hβ1 : β = 1 := by omega
    subst hβ1
    match p, ch.hpl, ch.lc.real, ch.ok.words p (by rw [ch.lc.real]; simp) with
    | x :: y :: rest, _, _, hw =>
      have hgy := hw y (by simp)
      obtain ⟨ey, hey⟩ := Option.ne_none_iff_exists'.mp hgy
      have hyw := (ch.ok.vocab y).mpr hgy
      have hc : ((x :: y :: rest).drop 1).take 1 = [y] := by simp
      rw [hc, ch.want1_old _ [y] (Or.inr rfl)]
      simp only [wantAll, List.length_cons, List.length_nil, if_true, List.headD_cons, expU]
      rw [initUni_getD_lt a nWords y hyw ey hey]
      unfold Arpa.boW
      rw [hey]
      by_cases hy0 : (y == 0 && a.unkHallucinated) = true
      · simp only [hy0, if_true]
        have hu : a.unkHallucinated = true := by simp at hy0; exact hy0.2
        have hyz : y = 0 := by simp at hy0; exact hy0.1
        obtain ⟨e0, he0, _, hb0⟩ := ch.ok.unk hu
        subst hyz; rw [hey] at he0; cases he0
        exact hb0.symm
      · simp only [hy0, Bool.false_eq_true, if_false]
    | [_], hpl, _, _ => simp at hpl; omega
    | [], hpl, _, _ => simp at hpl

/-- the probability the fill loop starts from is the value of the basis -/
theorem CH.basis_val (ch : CH combine a nWords um caps S p e b L) :
    -(want1F a (initUni a nWords) S p e b L (p.take b)).mag = val a (p.take b) := by
  have hb := ch.hb
  have hL := ch.hL
  have hN : p.length ≤ a.order := ch.lc.nN
  rcases ch.hbasis with hb1 | hm
  · subst hb1
    match p, ch.hpl, ch.lc.real, ch.ok.words p (by rw [ch.lc.real]; simp), ch.isKey 2 (by omega) (by omega),
      ch.blank_none 2 (by omega) (by omega) with
    | x :: y :: rest, _, _, hw, hkey, hnone =>
      have hgx := hw x (by simp)
      obtain ⟨ex, hex⟩ := Option.ne_none_iff_exists'.mp hgx
      have hxw := (ch.ok.vocab x).mpr hgx
      have hc : (x :: y :: rest).take 1 = [x] := by simp
      rw [hc, ch.want1_old _ [x] (Or.inr rfl), val_uni]
      simp only [wantAll, List.length_cons, List.length_nil, if_true, List.headD_cons, expU]
      rw [initUni_getD_lt a nWords x hxw ex hex]
      have hx0 : (x == 0 && a.unkHallucinated) = false := by
        cases hu : a.unkHallucinated with
        | false => simp
        | true =>
          have := ch.ok.unkBasis hu _ hkey hnone
          simp at this; simp [this]
      simp only [hx0, Bool.false_eq_true, if_false, Arpa.uniProb, hex]
      exact neg_abs_of_nonpos _ (ch.ok.nonpos _ ex hex)
    | [_], hpl, _, _, _, _ => simp at hpl
    | [], hpl, _, _, _, _ => simp at hpl
  · by_cases hb2 : 2 ≤ b
    · have hl := ch.take_len b (by omega)
      rw [ch.want1_old _ _ (Or.inl hm)]
      unfold wantAll
      rw [if_neg (by omega)]
      cases hg : a.gram (p.take b) with
      | some e2 =>
        rw [val_real a _ e2 (by omega) (by rw [hl]; have := ch.hpl; omega) hg]
        have : (wantW a S (p.take b)).mag = e2.prob.abs := by simp [wantW, baseW, hg, lineW]
        rw [this]
        exact neg_abs_of_nonpos _ (ch.ok.nonpos _ e2 hg)
      | none =>
        have : (wantW a S (p.take b)).mag = (val a (p.take b)).abs := by simp [wantW, baseW, hg, val]
        rw [this]
        exact neg_abs_of_nonpos _ (ch.ok.proper _ (ch.isKey b (by omega) (by omega)) hg)
    · have hb1 : b = 1 := by omega
      have := ch.si.len2 _ hm
      rw [ch.take_len b (by omega)] at this
      omega

theorem CH.tail_take (ch : CH combine a nWords um caps S p e b L) (j : Nat) : (p.take (j + 1)).tail = (p.drop 1).take j := by
  rw [← List.drop_one, List.drop_take, Nat.add_sub_cancel]

/-- (A), values: the fill loop stores into the blank of order `β+i` the value `Table.build` prescribes -/
theorem CH.vAt_val (ch : CH combine a nWords um caps S p e b L) : ∀ (i β : Nat) (prob : Rat),
    b ≤ β → β + i ≤ b + L → prob = val a (p.take β) →
    vAt (want1F a (initUni a nWords) S p e b L) p i β prob = val a (p.take (β + i)) := by
  intro i
  induction i with
  | zero => intro β prob _ _ h; simpa [vAt] using h
  | succ i ih =>
    intro β prob h1 h2 hp
    have hb := ch.hb
    simp only [vAt]
    rw [ih (β + 1) _ (by omega) (by omega) ?_, show β + 1 + i = β + (i + 1) by omega]
    have hl := ch.take_len (β + 1) (by omega)
    rw [val_step a (p.take (β + 1)) (by omega) (by rw [hl]; have := ch.lc.nN; have := ch.hpl; omega)
      (ch.blank_none (β + 1) (by omega) (by omega)), hl, ch.tail_take, Nat.add_sub_cancel, List.take_take,
      Nat.min_eq_left (by omega), ch.ctx_backoff β h1 (by omega), hp]
    grind


/-- (A): a new blank holds `|score|`, sign cleared, back-off -0.0 -/
theorem CH.chain_blank (ch : CH combine a nWords um caps S p e b L) (j : Nat) (h1 : b < j) (h2 : j ≤ b + L) :
    chainWant (want1F a (initUni a nWords) S p e b L) p b L (p.take j) =
      markW (wantAll a (initUni a nWords) S (p.take j)) (cK p b L (p.take j)) (cX p b L (p.take j)) := by
  have hb := ch.hb
  have hl := ch.take_len j (by omega)
  have hns := ch.hmiss j h1 h2
  have hnone := ch.blank_none j h1 h2
  have hw1 : want1F a (initUni a nWords) S p e b L (p.take j) = blankW := by
    unfold want1F
    rw [if_pos ⟨by omega, by omega, by rw [hl]⟩]
  have hnc : ∀ i, i < L → p.take j ≠ (p.drop 1).take (b + i) := by
    intro i hi he
    have hli := ch.ctx_len (b + i) (by omega)
    rw [← he, hl] at hli
    exact hns (he ▸ ch.ctx_mem (b + i) (by omega) (by omega))
  have hF : applyUpd (want1F a (initUni a nWords) S p e b L)
      (fillUs (want1F a (initUni a nWords) S p e b L) p L b (-(want1F a (initUni a nWords) S p e b L (p.take b)).mag)) (p.take j) =
      setProb blankW (val a (p.take j)) := by
    rw [fill_blank _ p (p.take j) L b _ _ (j - b - 1) (by omega) (by congr 1; omega) (by rw [ch.hpl]; omega) hnc, hw1,
      ch.vAt_val (j - b - 1 + 1) b _ (Nat.le_refl _) (by omega) ch.basis_val, show b + (j - b - 1 + 1) = j by omega]
  have hK : cK p b L (p.take j) = true := (ch.cK_iff _).mpr ((mem_chainKeys p b L _).mpr ⟨j, by omega, h2, rfl⟩)
  have hX : cX p b L (p.take j) = false := by
    simp only [cX]
    apply decide_eq_false
    rintro ⟨_, _, he⟩
    rw [hl] at he
    exact hns (he ▸ ch.ctx_mem j (by omega) h2)
  have hD : p.take j ≠ p.drop 1 := fun he => hns (he ▸ ch.drop_mem)
  have hs : startsWithK S (p.take j) = false := by
    cases h : startsWithK S (p.take j) with
    | false => rfl
    | true =>
      obtain ⟨k', hk', hl', hd⟩ := (startsWithK_true_iff S _).mp h
      exact absurd (hd ▸ ch.si.cs k' hk' (by rw [hl', hl]; omega)) hns
  rw [chainWant_eval, if_neg hD, if_pos ((ch.cK_iff _).mp hK), hF, hK, hX]
  unfold wantAll
  rw [if_neg (by rw [hl]; omega), wantW_eq_markW, markW_markW, hs]
  simp [clr, setProb, blankW, markW, baseW, hnone, val]

/-- (C): the line itself -/
theorem CH.chain_line (ch : CH combine a nWords um caps S p e b L) :
    chainWant (want1F a (initUni a nWords) S p e b L) p b L p =
      markW (wantAll a (initUni a nWords) S p) (cK p b L p) (cX p b L p) := by
  have hb := ch.hb
  have hL := ch.hL
  have hpl := ch.hpl
  have hw1 : want1F a (initUni a nWords) S p e b L p = lineW e := by
    unfold want1F
    rw [if_neg (by omega)]
    simp [updW]
  have hK : cK p b L p = false := by simp only [cK]; apply decide_eq_false; omega
  have hX : cX p b L p = false := by simp only [cX]; apply decide_eq_false; omega
  have hD : p ≠ p.drop 1 := by
    intro he
    have := congrArg List.length he
    rw [List.length_drop] at this; omega
  have hm : p ∉ chainKeys p b L := by
    intro h
    have := (ch.cK_iff p).mpr h
    rw [hK] at this; cases this
  rw [chainWant_eval, if_neg hD, if_neg hm, hK, hX, markW_ff,
    fill_other _ p p L b _ _
      (fun i hi he => by have := ch.ctx_len (b + i) (by omega); rw [← he] at this; omega)
      (fun i hi he => by have := ch.take_len (b + 1 + i) (by omega); rw [← he] at this; omega), hw1]
  unfold wantAll
  rw [if_neg (by omega), wantW_eq_markW, endsInK_false_len S p ch.lc.asc, startsWithK_false_len S p ch.lc.asc, markW_ff]
  simp [baseW, ch.lc.real]

/-- **the key-level statement**: after the line every stored key and every unigram holds the payload prescribed for the
enlarged key set -/
theorem CH.chain_sem (ch : CH combine a nWords um caps S p e b L) (k : Key) (hk : k ∈ addLineKeys S p ∨ k.length = 1) :
    chainWant (want1F a (initUni a nWords) S p e b L) p b L k = wantAll a (initUni a nWords) (addLineKeys S p) k := by
  rw [ch.wantAll_new]
  rcases hk with hk | hk
  · rcases (ch.new_iff k).mp hk with h | ⟨j, h1, h2, he⟩
    · exact ch.chain_old k (Or.inl h)
    · by_cases hj : j = b + L + 1
      · have : k = p := by rw [he, hj, ← ch.hpl, List.take_length]
        rw [this]; exact ch.chain_line
      · rw [he]; exact ch.chain_blank j h1 (by omega)
  · exact ch.chain_old k (Or.inr hk)


theorem keysOf_append_list (S X : List Key) (m : Nat) : keysOf (S ++ X) m = keysOf S m ++ keysOf X m := by
  simp [keysOf, List.filter_append]

theorem CH.missing_keys (ch : CH combine a nWords um caps S p e b L) : ∀ d, d ≤ L → ∀ m,
    keysOf (missing S p (b + d)) m = if b < m ∧ m ≤ b + d then [p.take m] else [] := by
  have hb := ch.hb
  intro d
  induction d with
  | zero =>
    intro _ m
    rw [missing_nil_of_mem S p (b + 0) (by
      rcases ch.hbasis with h | h
      · left; omega
      · right; exact h), if_neg (by omega)]
    rfl
  | succ d ih =>
    intro hd m
    have hj : b + (d + 1) = (b + d - 1) + 2 := by omega
    have hns := ch.hmiss (b + (d + 1)) (by omega) (by omega)
    rw [hj] at hns ⊢
    simp only [missing, hns, if_false]
    rw [show b + d - 1 + 1 = b + d by omega, keysOf_append_list, ih (by omega) m]
    have hl : (p.take (b + d - 1 + 2)).length = b + d - 1 + 2 := ch.take_len _ (by omega)
    by_cases hm : m = b + d - 1 + 2
    · subst hm
      rw [if_neg (by omega), if_pos (by omega)]
      simp [keysOf, hl]
    · have : keysOf [p.take (b + d - 1 + 2)] m = [] := by simp [keysOf, hl]; omega
      rw [this, List.append_nil]
      by_cases hc : b < m ∧ m ≤ b + d
      · rw [if_pos hc, if_pos (by omega)]
      · rw [if_neg hc, if_neg (by omega)]

theorem CH.keys_eq (ch : CH combine a nWords um caps S p e b L) (m : Nat) :
    keysOf (addLineKeys S p) m =
      if b < m ∧ m ≤ b + L then keysOf (S ++ [p]) m ++ [p.take m] else keysOf (S ++ [p]) m := by
  have hn1 : p.length - 1 = b + L := by rw [ch.hpl]; omega
  unfold addLineKeys
  rw [hn1]
  by_cases hm : p.length = m
  · rw [keysOf_append_same _ p m hm, keysOf_append_same S p m hm, keysOf_append_list, ch.missing_keys L (Nat.le_refl _) m,
      if_neg (by rw [← hm, ch.hpl]; omega), if_neg (by rw [← hm, ch.hpl]; omega), List.append_nil]
  · rw [keysOf_append_other _ p m hm, keysOf_append_other S p m hm, keysOf_append_list, ch.missing_keys L (Nat.le_refl _) m]
    by_cases hc : b < m ∧ m ≤ b + L
    · rw [if_pos hc, if_pos hc]
    · rw [if_neg hc, if_neg hc, List.append_nil]

/-- **the per-line step for a blank chain of any length** -/
theorem step_chain (ch : CH combine a nWords um caps S p e b L) (s : St)
    (inv : InvG combine a (initUni a nWords) a.order caps S s) :
    ∃ s', addLine combine false a.order s p e = .ok s' ∧
      InvG combine a (initUni a nWords) a.order caps (addLineKeys S p) s' := by
  have hb := ch.hb
  have hL := ch.hL
  have hcapn : (keysOf S (b + L + 1)).length + 1 < caps (b + L + 1) := by
    have := ch.lc.cap (b + L + 1)
    rw [ch.keys_eq, if_neg (by omega), keysOf_append_same S p _ ch.hpl] at this
    simpa using this
  have hcapj : ∀ j, b < j → j ≤ b + L → (keysOf S j).length + 1 < caps j := by
    intro j h1 h2
    have := ch.lc.cap j
    rw [ch.keys_eq, if_pos ⟨h1, h2⟩, keysOf_append_other S p _ (by rw [ch.hpl]; omega)] at this
    simpa using this
  obtain ⟨s', Ks', want1, hadd, hKs, hw1, hP⟩ := addLine_chain combine a (initUni a nWords) a.order caps S s inv ch.si p e ch.lc
    b L hb hL ch.hpl ch.hbasis ch.hmiss hcapn hcapj
  have hwf : want1 = want1F a (initUni a nWords) S p e b L := funext fun k => by rw [hw1 k]; rfl
  rw [hwf] at hP
  refine ⟨s', hadd, hP.midlen, ⟨hP.ulen, fun w => ?_⟩, ?_⟩
  · rw [hP.uni w, ch.chain_sem [w] (Or.inr rfl)]
    simp [wantAll]
  · intro m hm2 hmN
    obtain ⟨M, hO⟩ := hP.tabs m hm2 hmN
    rw [hKs m, ← ch.keys_eq m] at hO
    refine ⟨M, ordG_of_P (ordP_congr hO ?_)⟩
    intro k hk
    rw [ch.chain_sem k (Or.inl (keysOf_mem _ _ _ hk))]
    have hl := keysOf_len _ _ _ hk
    have hne : ¬ k.length = 1 := by omega
    simp [wantAll, hne]

end

theorem exists_basis (S : List Key) (p : Key) : ∀ J, 1 ≤ J →
    ∃ b, 1 ≤ b ∧ b ≤ J ∧ (b = 1 ∨ p.take b ∈ S) ∧ ∀ j, b < j → j ≤ J → p.take j ∉ S := by
  intro J
  induction J with
  | zero => intro h; omega
  | succ J ih =>
    intro _
    by_cases hJ : J = 0
    · subst hJ
      exact ⟨1, by omega, by omega, Or.inl rfl, fun j h1 h2 => by omega⟩
    · by_cases hm : p.take (J + 1) ∈ S
      · exact ⟨J + 1, by omega, by omega, Or.inr hm, fun j h1 h2 => by omega⟩
      · obtain ⟨b, h1, h2, h3, h4⟩ := ih (by omega)
        refine ⟨b, h1, by omega, h3, fun j hj1 hj2 => ?_⟩
        by_cases hj : j = J + 1
        · rw [hj]; exact hm
        · exact h4 j hj1 (by omega)

/-- **the per-line step for every line** (no class restriction) -/
theorem stepAll (combine : Nat → Word → Nat) (a : Arpa) (nWords : Nat) (um : Rat) (ok : ArpaOK' a nWords um) (caps : Nat → Nat) :
    StepOK combine a (initUni a nWords) a.order caps (fun _ => True) := by
  intro S s p e inv si lc _
  obtain ⟨b, hb1, hbJ, hbasis, hmiss⟩ := exists_basis S p (p.length - 1) (by have := lc.n2; omega)
  by_cases hL : b = p.length - 1
  · refine step1' combine a nWords um ok a.order caps S s p e inv si lc ?_
    intro h3 hns
    rcases hbasis with h | h
    · omega
    · rw [hL] at h; exact absurd h hns
  · have hpl : p.length = b + (p.length - 1 - b) + 1 := by have := lc.n2; omega
    exact step_chain ⟨ok, si, lc, hb1, by omega, hpl, hbasis, fun j h1 h2 => hmiss j h1 (by omega)⟩ s inv

end KV.ProbingBuild
