import Model.FilterDrv
/-!
`header_counts` at the level of `ARPAOutput`'s counter: feeding the calls that reach output
file `k` during a sequential (hence, by C12 `ctl_output`, any threaded) run of an ARPA input
into the model of `ARPAOutput` (`BeginLength` resets `fast_counter_`, `AddNGram` increments it,
`EndLength` stores it, `Finish` writes the counts at offset 0) yields exactly `arpaFile`.
-/
namespace KV.FilterDrv
open KV KV.Filter KV.FilterCtl

def body (o : AOut) : Bytes := o.chunks.reverse.flatten

theorem body_cons (o : AOut) (c : Bytes) (ctr : Nat) (cts : List Nat) :
    body { chunks := c :: o.chunks, counter := ctr, counts := cts } = body o ++ c := by
  simp [body]

theorem fileLog_append (k : Nat) (a b : List (OutEv Item)) : fileLog k (a ++ b) = fileLog k a ++ fileLog k b := by
  induction a with
  | nil => rfl
  | cons e a ih =>
    cases e with
    | mark m => simp [fileLog, ih]
    | line t x =>
      cases t with
      | none => simp [fileLog, ih]
      | some j =>
        simp only [List.cons_append, fileLog]
        split <;> simp [ih]

theorem fileLog_itemEvents (vs : Item → Verdict) (k : Nat) (x : Item) :
    fileLog k (itemEvents vs x) = List.replicate ((vs x).copies k) (Sum.inr x) := by
  unfold itemEvents
  cases hv : vs x with
  | all => simp [fileLog, Verdict.copies]
  | only ks =>
    simp only [Verdict.copies]
    clear hv
    induction ks with
    | nil => simp [fileLog]
    | cons j ks ih =>
      simp only [List.map_cons, fileLog, List.count_cons]
      by_cases hj : j = k
      · subst hj; simp [ih, List.replicate_succ]
      · have : (j == k) = false := by simpa using hj
        simp [hj, this, ih]

/-- the n-gram lines of one section -/
theorem feed_lines (vs : Item → Verdict) (k : Nat) : ∀ (items : List Item) (o : AOut),
    let o' := (fileLog k (items.flatMap (itemEvents vs))).foldl AOut.feed o
    body o' = body o ++ joinLines (keptLines vs k items) ∧
    o'.counter = o.counter + (keptLines vs k items).length ∧ o'.counts = o.counts
  | [], o => by simp [fileLog, keptLines, joinLines]
  | x :: items, o => by
    have hrep : ∀ (n : Nat) (o : AOut),
        let o' := (List.replicate n (Sum.inr x : Sum Mark Item)).foldl AOut.feed o
        body o' = body o ++ joinLines (List.replicate n x.line) ∧ o'.counter = o.counter + n ∧ o'.counts = o.counts := by
      intro n
      induction n with
      | zero => intro o; simp [joinLines]
      | succ n ih =>
        intro o
        simp only [List.replicate_succ, List.foldl_cons]
        obtain ⟨h1, h2, h3⟩ := ih (o.feed (Sum.inr x))
        refine ⟨?_, ?_, ?_⟩
        · rw [h1]; simp [AOut.feed, body_cons, joinLines, List.append_assoc]
        · rw [h2]; simp [AOut.feed]; omega
        · rw [h3]; simp [AOut.feed]
    simp only [List.flatMap_cons, fileLog_append, fileLog_itemEvents, List.foldl_append]
    obtain ⟨r1, r2, r3⟩ := hrep ((vs x).copies k) o
    obtain ⟨i1, i2, i3⟩ := feed_lines vs k items ((List.replicate ((vs x).copies k) (Sum.inr x)).foldl AOut.feed o)
    refine ⟨?_, ?_, ?_⟩
    · rw [i1, r1]; simp [keptLines, joinLines, List.flatMap_append, List.append_assoc]
    · rw [i2, r2]; simp [keptLines]; omega
    · rw [i3, r3]

theorem setCount_end (cs : List Nat) (v : Nat) : setCount cs cs.length v = cs ++ [v] := by
  unfold setCount
  have : cs.length + 1 - cs.length = 1 := by omega
  rw [this]
  induction cs with
  | nil => rfl
  | cons c cs ih => simpa using ih

theorem seqLog_adds (vs : Item → Verdict) (items : List Item) (r : List (ROp Item)) :
    seqLog vs (items.map ROp.add ++ r) = items.flatMap (itemEvents vs) ++ seqLog vs r := by
  induction items with
  | nil => rfl
  | cons x items ih => simp [seqLog, ih, List.append_assoc]

/-- all sections from order `j` on -/
theorem feed_orders (vs : Item → Verdict) (k : Nat) : ∀ (os : List (List Item)) (j : Nat) (o : AOut),
    o.counts.length + 1 = j →
    let o' := (fileLog k (seqLog vs (arpaOrders j os))).foldl AOut.feed o
    body o' = body o ++ sectionsBody j (os.map (keptLines vs k)) ++ bEnd ++ [10] ∧
    o'.counts = o.counts ++ (os.map (keptLines vs k)).map List.length
  | [], j, o, _ => by
    simp [arpaOrders, seqLog, fileLog, AOut.feed, body_cons, sectionsBody, List.append_assoc]
  | it :: os, j, o, hj => by
    simp only [arpaOrders, seqLog, seqLog_adds, fileLog, fileLog_append, List.foldl_cons, List.foldl_append]
    -- BeginLength
    let o1 : AOut := o.feed (Sum.inl (Mark.beginLength j))
    obtain ⟨l1, l2, l3⟩ := feed_lines vs k it o1
    let o2 : AOut := (fileLog k (it.flatMap (itemEvents vs))).foldl AOut.feed o1
    let o3 : AOut := o2.feed (Sum.inl (Mark.endLength j))
    have hc3 : o3.counts = o.counts ++ [(keptLines vs k it).length] := by
      show setCount o2.counts (j - 1) o2.counter = _
      have e1 : o2.counts = o.counts := by rw [l3]; rfl
      have e2 : o2.counter = (keptLines vs k it).length := by rw [l2]; simp [o1, AOut.feed]
      rw [e1, e2]
      have : j - 1 = o.counts.length := by omega
      rw [this, setCount_end]
    have hb3 : body o3 = body o ++ gramsHeader j ++ [10] ++ joinLines (keptLines vs k it) ++ [10] := by
      show body { o2 with chunks := [10] :: o2.chunks, counts := _ } = _
      rw [body_cons]
      rw [show body o2 = _ from l1]
      simp [o1, AOut.feed, body_cons, List.append_assoc]
    obtain ⟨r1, r2⟩ := feed_orders vs k os (j+1) o3 (by rw [hc3]; simp; omega)
    refine ⟨?_, ?_⟩
    · rw [r1, hb3]; simp [sectionsBody, List.append_assoc]
    · rw [r2, hc3]; simp [List.append_assoc]

/-- **header_counts, through the counter of `ARPAOutput`** -/
theorem renderArpa_seqLog (a : Arpa) (vs : Item → Verdict) (k : Nat) :
    renderArpa (countsHeader a.counts).length (fileLog k (seqLog vs (arpaProgram a.orders))) = arpaFile a vs k := by
  obtain ⟨h1, h2⟩ := feed_orders vs k a.orders 1 {} rfl
  simp only [renderArpa, arpaProgram, arpaFile]
  have hb : ({} : AOut).counts = [] := rfl
  have hbody : body ({} : AOut) = [] := rfl
  rw [hb, List.nil_append] at h2
  rw [hbody, List.nil_append] at h1
  rw [h2]
  show _ ++ _ ++ body _ = _
  rw [h1]
  simp [List.append_assoc]

/-- raw format: the calls that reach file `k`, written by `CountOutput`, are `rawFile` -/
theorem renderRaw_seqLog (items : List Item) (vs : Item → Verdict) (k : Nat) :
    renderRaw (fileLog k (seqLog vs (rawProgram items))) = rawFile items vs k := by
  unfold rawProgram
  rw [seqLog_adds]
  simp only [seqLog, List.append_nil, renderRaw, rawFile, joinLines, keptLines]
  induction items with
  | nil => simp [fileLog]
  | cons x items ih =>
    have hrep : ∀ n : Nat, (List.replicate n (x.line ++ [10])).flatten
        = List.flatMap (fun l => l ++ [10]) (List.replicate n x.line) := by
      intro n
      induction n with
      | zero => simp
      | succ n ihn => simp [List.replicate_succ, ihn]
    simp only [List.flatMap_cons, fileLog_append, fileLog_itemEvents, List.filterMap_append, List.flatten_append,
      List.flatMap_append]
    rw [ih]
    congr 1
    simp only [List.filterMap_replicate]
    exact hrep _

end KV.FilterDrv
