import Proofs.ProbingAuto
import Proofs.ProbingP2Auto
/-!
`auto_refines_map` for `AutoProbing` as it is compiled: backend `ProbingHashTable<…, Power2Mod>`,
bucket count a power of two (from `RoundBuckets`), mask arithmetic in every operation and in `Double`.
-/
namespace KV.Probing

theorem stepMap_not_full (M : Nat → Option Nat) (op : Op) (o : Out) (M' : Nat → Option Nat)
    (hs : stepMap M op = some (o, M')) : o ≠ .full := by
  cases op with
  | insert k v =>
    simp only [stepMap] at hs
    split at hs
    · cases hs
    · injection hs with hs; injection hs with ho _; rw [← ho]; intro hc; cases hc
  | findOrInsert k v =>
    simp only [stepMap] at hs
    split at hs
    · injection hs with hs; injection hs with ho _; rw [← ho]; intro hc; cases hc
    · injection hs with hs; injection hs with ho _; rw [← ho]; intro hc; cases hc
  | find k =>
    simp only [stepMap] at hs
    injection hs with hs; injection hs with ho _; rw [← ho]; intro hc; cases hc

theorem runAP2_refines (h : Nat → Nat) (θ : Nat → Nat) (hθ : ThetaOK θ) :
    ∀ (ops : List Op) (a : Auto) (M : Nat → Option Nat) (outs : List Out) (M' : Nat → Option Nat),
    ARef h θ a M → Pow2 a.t.N → runMap M ops = some (outs, M') →
    ∃ a', runAP2 h θ a ops = some (outs, a') ∧ ARef h θ a' M' ∧ Pow2 a'.t.N := by
  intro ops
  induction ops with
  | nil =>
    intro a M outs M' r hp hs
    simp [runMap] at hs
    obtain ⟨rfl, rfl⟩ := hs
    exact ⟨a, rfl, r, hp⟩
  | cons op ops ih =>
    intro a M outs M' r hp hs
    cases h1 : stepMap M op with
    | none => simp [runMap, h1] at hs
    | some r1 =>
      obtain ⟨o, M1⟩ := r1
      cases h2 : runMap M1 ops with
      | none => simp [runMap, h1, h2] at hs
      | some r2 =>
        obtain ⟨os, M2⟩ := r2
        simp [runMap, h1, h2] at hs
        obtain ⟨rfl, rfl⟩ := hs
        obtain ⟨a1, ha1, r1'⟩ := stepA_refines h θ hθ a M op o M1 r h1
        have hp1 := stepA_pow2 h θ a a1 op o hp ha1 (stepMap_not_full M op o M1 h1)
        obtain ⟨a2, ha2, r2', hp2⟩ := ih a1 M1 os M2 r1' hp1 h2
        refine ⟨a2, ?_, r2', hp2⟩
        simp [runAP2, stepAP2_eq h θ a op hp, ha1, ha2]

end KV.Probing
