import Model.FilterCtl
/-! List bookkeeping for the invariant of `KV.FilterCtl`: where the batches are. -/
namespace KV.FilterCtl
variable {α : Type}

/-- the real requests in a queue (poisons dropped) -/
def somes {β : Type} (l : List (Option β)) : List β := l.filterMap id

@[simp] theorem somes_nil {β : Type} : somes ([] : List (Option β)) = [] := rfl
@[simp] theorem somes_cons_some {β : Type} (b : β) (l : List (Option β)) : somes (some b :: l) = b :: somes l := by
  simp [somes]
@[simp] theorem somes_cons_none {β : Type} (l : List (Option β)) : somes (none :: l) = somes l := by
  simp [somes]
@[simp] theorem somes_append {β : Type} (l m : List (Option β)) : somes (l ++ m) = somes l ++ somes m := by
  simp [somes]
@[simp] theorem somes_replicate_none {β : Type} (n : Nat) : somes (List.replicate n (none : Option β)) = [] := by
  induction n with
  | zero => rfl
  | succ n ih => simp [List.replicate_succ, ih]

theorem somes_length_le {β : Type} (l : List (Option β)) : (somes l).length ≤ l.length := by
  induction l with
  | nil => simp
  | cons x l ih => cases x <;> simp <;> omega

/-- number of poisons -/
def nones {β : Type} (l : List (Option β)) : Nat := l.countP Option.isNone

@[simp] theorem nones_nil {β : Type} : nones ([] : List (Option β)) = 0 := rfl
@[simp] theorem nones_cons_some {β : Type} (b : β) (l : List (Option β)) : nones (some b :: l) = nones l := by
  simp [nones]
@[simp] theorem nones_cons_none {β : Type} (l : List (Option β)) : nones (none :: l) = nones l + 1 := by
  simp [nones]
@[simp] theorem nones_append {β : Type} (l m : List (Option β)) : nones (l ++ m) = nones l + nones m := by
  simp [nones]

theorem length_eq_somes_add_nones {β : Type} (l : List (Option β)) : l.length = (somes l).length + nones l := by
  induction l with
  | nil => simp
  | cons x l ih => cases x <;> simp <;> omega

/-- the batches held by filter workers -/
def held : List (WSt α) → List (Batch α)
  | [] => []
  | .holding b :: r => b :: held r
  | .idle :: r => held r
  | .exited :: r => held r

def exitedCount : List (WSt α) → Nat
  | [] => 0
  | .exited :: r => exitedCount r + 1
  | .holding _ :: r => exitedCount r
  | .idle :: r => exitedCount r

/-- occurrences of sequence number `k` -/
def cntL (k : Nat) (l : List (Batch α)) : Nat := l.countP fun b => b.seq == k

@[simp] theorem cntL_nil (k : Nat) : cntL k ([] : List (Batch α)) = 0 := rfl
@[simp] theorem cntL_cons (k : Nat) (b : Batch α) (l : List (Batch α)) :
    cntL k (b :: l) = cntL k l + (if b.seq = k then 1 else 0) := by
  simp [cntL, List.countP_cons]
@[simp] theorem cntL_append (k : Nat) (l m : List (Batch α)) : cntL k (l ++ m) = cntL k l + cntL k m := by
  simp [cntL]

theorem cntL_pos_mem {k : Nat} {l : List (Batch α)} (h : 0 < cntL k l) : ∃ b ∈ l, b.seq = k := by
  induction l with
  | nil => simp at h
  | cons b l ih =>
    simp only [cntL_cons] at h
    by_cases hb : b.seq = k
    · exact ⟨b, List.mem_cons_self, hb⟩
    · simp only [hb, if_false, Nat.add_zero] at h
      obtain ⟨c, hc, hk⟩ := ih h
      exact ⟨c, List.mem_cons_of_mem _ hc, hk⟩

theorem cntL_mem_pos {k : Nat} {l : List (Batch α)} {b : Batch α} (hb : b ∈ l) (hk : b.seq = k) : 0 < cntL k l := by
  induction l with
  | nil => simp at hb
  | cons c l ih =>
    simp only [cntL_cons]
    rcases List.mem_cons.mp hb with rfl | h
    · simp [hk]
    · have := ih h; omega

/-! ### a worker changes state -/

theorem held_set_take {ws : List (WSt α)} {i : Nat} (b : Batch α) (h : ws[i]? = some .idle) :
    (∀ k, cntL k (held (ws.set i (.holding b))) = cntL k (held ws) + (if b.seq = k then 1 else 0)) ∧
    (held (ws.set i (.holding b))).length = (held ws).length + 1 ∧
    (∀ c, c ∈ held (ws.set i (.holding b)) ↔ c = b ∨ c ∈ held ws) ∧
    exitedCount (ws.set i (.holding b)) = exitedCount ws := by
  induction ws generalizing i with
  | nil => simp at h
  | cons w ws ih =>
    cases i with
    | zero =>
      simp only [List.getElem?_cons_zero, Option.some.injEq] at h
      subst h
      simp [held, exitedCount]
    | succ i =>
      simp only [List.getElem?_cons_succ] at h
      obtain ⟨h1, h2, h3, h4⟩ := ih h
      cases w with
      | idle => simpa [held, exitedCount] using ⟨h1, h2, h3, h4⟩
      | exited => simpa [held, exitedCount] using ⟨h1, h2, h3, h4⟩
      | holding c =>
        simp only [List.set_cons_succ, held, exitedCount]
        refine ⟨?_, ?_, ?_, h4⟩
        · intro k; simp only [cntL_cons]; rw [h1 k]; omega
        · simp [h2]
        · intro d; simp only [List.mem_cons, h3 d]
          constructor
          · rintro (h | h | h)
            · exact Or.inr (Or.inl h)
            · exact Or.inl h
            · exact Or.inr (Or.inr h)
          · rintro (h | h | h)
            · exact Or.inr (Or.inl h)
            · exact Or.inl h
            · exact Or.inr (Or.inr h)

theorem held_set_put {ws : List (WSt α)} {i : Nat} {b : Batch α} (h : ws[i]? = some (.holding b)) :
    (∀ k, cntL k (held ws) = cntL k (held (ws.set i .idle)) + (if b.seq = k then 1 else 0)) ∧
    (held ws).length = (held (ws.set i .idle)).length + 1 ∧
    (∀ c, c ∈ held (ws.set i .idle) → c ∈ held ws) ∧ b ∈ held ws ∧
    exitedCount (ws.set i .idle) = exitedCount ws := by
  induction ws generalizing i with
  | nil => simp at h
  | cons w ws ih =>
    cases i with
    | zero =>
      simp only [List.getElem?_cons_zero, Option.some.injEq] at h
      subst h
      simp only [List.set_cons_zero, held, exitedCount, cntL_cons, List.length_cons, List.mem_cons, true_or, and_true]
      exact ⟨fun k => trivial, trivial, fun c hc => Or.inr hc⟩
    | succ i =>
      simp only [List.getElem?_cons_succ] at h
      obtain ⟨h1, h2, h3, h4, h5⟩ := ih h
      cases w with
      | idle => simpa [held, exitedCount] using ⟨h1, h2, h3, h4, h5⟩
      | exited => simpa [held, exitedCount] using ⟨h1, h2, h3, h4, h5⟩
      | holding c =>
        simp only [List.set_cons_succ, held, exitedCount]
        refine ⟨?_, ?_, ?_, List.mem_cons_of_mem _ h4, h5⟩
        · intro k; simp only [cntL_cons]; rw [h1 k]; omega
        · simp [h2]
        · intro d hd
          rcases List.mem_cons.mp hd with rfl | hd
          · exact List.mem_cons_self
          · exact List.mem_cons_of_mem _ (h3 d hd)

theorem held_set_exit {ws : List (WSt α)} {i : Nat} (h : ws[i]? = some .idle) :
    held (ws.set i .exited) = held ws ∧ exitedCount (ws.set i .exited) = exitedCount ws + 1 := by
  induction ws generalizing i with
  | nil => simp at h
  | cons w ws ih =>
    cases i with
    | zero =>
      simp only [List.getElem?_cons_zero, Option.some.injEq] at h
      subst h
      simp [held, exitedCount]
    | succ i =>
      simp only [List.getElem?_cons_succ] at h
      obtain ⟨h1, h2⟩ := ih h
      cases w <;> simp [held, exitedCount, h1, h2]

theorem all_exited_iff (ws : List (WSt α)) : ws.all WSt.isExited = true ↔ exitedCount ws = ws.length := by
  have hle : ∀ ws : List (WSt α), exitedCount ws ≤ ws.length := by
    intro ws; induction ws with
    | nil => simp [exitedCount]
    | cons w ws ih => cases w <;> simp [exitedCount] <;> omega
  induction ws with
  | nil => simp [exitedCount]
  | cons w ws ih =>
    have := hle ws
    cases w <;> simp [exitedCount, WSt.isExited, ih] <;> omega

theorem held_nil_of_all_exited {ws : List (WSt α)} (h : exitedCount ws = ws.length) : held ws = [] := by
  have hle : ∀ ws : List (WSt α), exitedCount ws ≤ ws.length := by
    intro ws; induction ws with
    | nil => simp [exitedCount]
    | cons w ws ih => cases w <;> simp [exitedCount] <;> omega
  induction ws with
  | nil => rfl
  | cons w ws ih =>
    have := hle ws
    cases w <;> simp [exitedCount, held] at h ⊢ <;> first | exact ih h | omega

/-- a worker that is neither holding nor exited is idle: some index has state idle -/
theorem exists_idle {ws : List (WSt α)} (hh : held ws = []) (he : exitedCount ws < ws.length) :
    ∃ i : Nat, ws[i]? = some (WSt.idle : WSt α) := by
  induction ws with
  | nil => simp at he
  | cons w ws ih =>
    cases w with
    | idle => exact ⟨0, rfl⟩
    | holding b => simp [held] at hh
    | exited =>
      simp only [held] at hh
      simp only [exitedCount, List.length_cons] at he
      obtain ⟨i, hi⟩ := ih hh (by omega)
      exact ⟨i+1, by simpa using hi⟩

theorem exists_holding {ws : List (WSt α)} {b : Batch α} (hb : b ∈ held ws) : ∃ i : Nat, ws[i]? = some (WSt.holding b) := by
  induction ws with
  | nil => simp [held] at hb
  | cons w ws ih =>
    cases w with
    | holding c =>
      simp only [held, List.mem_cons] at hb
      rcases hb with rfl | hb
      · exact ⟨0, rfl⟩
      · obtain ⟨i, hi⟩ := ih hb; exact ⟨i+1, by simpa using hi⟩
    | idle => simp only [held] at hb; obtain ⟨i, hi⟩ := ih hb; exact ⟨i+1, by simpa using hi⟩
    | exited => simp only [held] at hb; obtain ⟨i, hi⟩ := ih hb; exact ⟨i+1, by simpa using hi⟩

@[simp] theorem held_replicate_idle (n : Nat) : held (List.replicate n (WSt.idle : WSt α)) = [] := by
  induction n with
  | zero => rfl
  | succ n ih => simp [List.replicate_succ, held, ih]

@[simp] theorem exitedCount_replicate_idle (n : Nat) : exitedCount (List.replicate n (WSt.idle : WSt α)) = 0 := by
  induction n with
  | zero => rfl
  | succ n ih => simp [List.replicate_succ, exitedCount, ih]

/-! ### the output worker files a request into `ordering_` -/

theorem somes_set_none {β : Type} {L : List (Option β)} {pos : Nat} (b : β) (h : L[pos]? = some none) :
    ∃ l1 l2, somes L = l1 ++ l2 ∧ somes (L.set pos (some b)) = l1 ++ b :: l2 := by
  induction L generalizing pos with
  | nil => simp at h
  | cons x L ih =>
    cases pos with
    | zero =>
      simp only [List.getElem?_cons_zero, Option.some.injEq] at h
      subst h
      exact ⟨[], somes L, by simp, by simp⟩
    | succ p =>
      simp only [List.getElem?_cons_succ] at h
      obtain ⟨l1, l2, h1, h2⟩ := ih h
      cases x with
      | none => exact ⟨l1, l2, by simpa using h1, by simpa using h2⟩
      | some c => exact ⟨c :: l1, l2, by simp [h1], by simp [h2]⟩

theorem getLast?_set_last {β : Type} (L : List β) (v : β) (h : L.length ≠ 0) :
    (L.set (L.length - 1) v).getLast? = some v := by
  induction L with
  | nil => simp at h
  | cons x L ih =>
    cases L with
    | nil => simp
    | cons y L =>
      have := ih (by simp)
      simp only [List.length_cons, Nat.add_sub_cancel] at this ⊢
      rw [List.set_cons_succ]
      generalize hM : (y :: L).set L.length v = M at this
      cases M with
      | nil => simp at this
      | cons m M => simpa [List.getLast?_cons_cons] using this

end KV.FilterCtl
