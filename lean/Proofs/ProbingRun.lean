import Proofs.ProbingInv
/-!
Every script of `Insert` (fresh keys) / `FindOrInsert` / `Find` on the fixed-size table produces
the outputs of the map-with-capacity specification.
-/
namespace KV.Probing

/-- the table `t` represents the specification state `σ` -/
structure Ref (h : Nat → Nat) (t : Table) (σ : Spec) : Prop where
  inv : Inv h t
  abs : Abs t σ.M
  cnt : t.entries = σ.count
  cap : t.N = σ.N

theorem step_refines (h : Nat → Nat) (t : Table) (σ : Spec) (op : Op) (o : Out) (σ' : Spec)
    (r : Ref h t σ) (hs : stepSpec σ op = some (o, σ')) :
    ∃ t', stepT h t op = some (o, t') ∧ Ref h t' σ' := by
  obtain ⟨inv, abs, hcnt, hcap⟩ := r
  cases op with
  | insert k v =>
    cases hM : σ.M k with
    | some w => simp [stepSpec, hM] at hs
    | none =>
      by_cases hc : σ.count + 1 ≥ σ.N
      · simp [stepSpec, hM, hc] at hs
        obtain ⟨rfl, rfl⟩ := hs
        refine ⟨{ t with entries := t.entries + 1 }, ?_, Inv_bump h t inv, abs, ?_, hcap⟩
        · simp [stepT, insert_full h t k v (by omega)]
        · show t.entries + 1 = σ.count + 1; omega
      · simp [stepSpec, hM, hc] at hs
        obtain ⟨rfl, rfl⟩ := hs
        obtain ⟨q, t', hi, inv', abs', hN, hE, _, _⟩ := insert_spec' h t σ.M k v inv abs hM (by omega)
        refine ⟨t', by simp [stepT, hi], inv', abs', ?_, ?_⟩
        · show t'.entries = σ.count + 1; omega
        · show t'.N = σ.N; omega
  | findOrInsert k v =>
    cases hM : σ.M k with
    | some w =>
      simp [stepSpec, hM] at hs
      obtain ⟨rfl, rfl⟩ := hs
      obtain ⟨p, hf, _, _⟩ := findOrInsert_found h t σ.M k v w inv abs hM
      exact ⟨t, by simp [stepT, hf], inv, abs, hcnt, hcap⟩
    | none =>
      by_cases hc : σ.count + 1 ≥ σ.N
      · simp [stepSpec, hM, hc] at hs
        obtain ⟨rfl, rfl⟩ := hs
        refine ⟨{ t with entries := t.entries + 1 }, ?_, Inv_bump h t inv, abs, ?_, hcap⟩
        · simp [stepT, findOrInsert_full h t σ.M k v inv abs hM (by omega)]
        · show t.entries + 1 = σ.count + 1; omega
      · simp [stepSpec, hM, hc] at hs
        obtain ⟨rfl, rfl⟩ := hs
        obtain ⟨p, t', hi, inv', abs', hN, hE, _, _⟩ := findOrInsert_new h t σ.M k v inv abs hM (by omega)
        refine ⟨t', by simp [stepT, hi], inv', abs', ?_, ?_⟩
        · show t'.entries = σ.count + 1; omega
        · show t'.N = σ.N; omega
  | find k =>
    simp [stepSpec] at hs
    obtain ⟨rfl, rfl⟩ := hs
    exact ⟨t, by simp [stepT, find_correct' h t σ.M inv abs k], inv, abs, hcnt, hcap⟩

theorem run_refines (h : Nat → Nat) : ∀ (ops : List Op) (t : Table) (σ : Spec) (outs : List Out) (σ' : Spec),
    Ref h t σ → runSpec σ ops = some (outs, σ') →
    ∃ t', runT h t ops = some (outs, t') ∧ Ref h t' σ' := by
  intro ops
  induction ops with
  | nil =>
    intro t σ outs σ' r hs
    simp [runSpec] at hs
    obtain ⟨rfl, rfl⟩ := hs
    exact ⟨t, rfl, r⟩
  | cons op ops ih =>
    intro t σ outs σ' r hs
    cases h1 : stepSpec σ op with
    | none => simp [runSpec, h1] at hs
    | some r1 =>
      obtain ⟨o, σ1⟩ := r1
      cases h2 : runSpec σ1 ops with
      | none => simp [runSpec, h1, h2] at hs
      | some r2 =>
        obtain ⟨os, σ2⟩ := r2
        simp [runSpec, h1, h2] at hs
        obtain ⟨rfl, rfl⟩ := hs
        obtain ⟨t1, ht1, r1'⟩ := step_refines h t σ op o σ1 r h1
        obtain ⟨t2, ht2, r2'⟩ := ih t1 σ1 os σ2 r1' h2
        exact ⟨t2, by simp [runT, ht1, ht2], r2'⟩

end KV.Probing
