import Proofs.KNInterp
import Proofs.KNCorpus2
/-!
Property C05, end to end: the streaming pipeline `estimateFrom` equals the set-based
specification `Spec.estimateFrom`.  Continues `Proofs/KNInterp.lean`.

* A `orderOK_of_closure` (+ `sublist_of_subset_sorted`, `stage3_grams`, `specOrder_grams`)
* B `CtxComplete`, `closureFacts_of_table`, `window_extend`, `ctx_complete_corpus`
* C `collapse_eq_ents`, `countsOfCounts_eq_stats`, `newRegs_snd`, `keepTop_iff`, `topLog_all`,
  `stats_top`, `adjust_streams`, `adjust_stats`
* D0 `initialOrder_us1'` and the primed copies of `KNInterp.lean` §7–§10 with the hypothesis
  "kept unigrams are unmarked" instead of "no ordinary unigram is marked" (`interp_eq'`,
  `orderOK_of_closure'`)
* D `stage3_list`, `specOrders_eq`, `orderOK_table`, `stage34_eq`, `estimateFrom_eq_spec`
* E `estimate_eq_spec_corpus` (order ≥ 2), F order 1 and `estimate_eq_spec` (all orders)

The one hypothesis beyond well-formedness is `pv = false → ∀ w, cfg.excl w = false`: the model
keeps "`--limit_vocab_file` given" (`pv`) and the exclusion predicate `cfg.excl` apart; with
exclusions but `pv = false` and threshold 0 stage 4 consumes the gammas sequentially although
records may have been removed, so fact 3 of `ClosureFacts` (and with it `takeBackoffsSeq_eq`) is
not available; the real tool never runs in that combination.
-/
namespace KV.KN.Interp

open KV.KN KV.KN.Norm KV.KN.Spec KV.KN.Adjust

/-! ## A. `OrderOK` from closure facts -/

theorem pairwise_lt_of_le_nodup {l : List Gram} (h : l.Pairwise (· ≤ ·)) (hn : l.Nodup) :
    l.Pairwise (· < ·) :=
  (h.and hn).imp fun hab => glt_of_le_of_ne hab.1 hab.2

/-- a strictly sorted list all of whose elements belong to another strictly sorted list is a
sublist of it -/
theorem sublist_of_subset_sorted : ∀ (l₂ l₁ : List Gram), l₁.Pairwise (· < ·) →
    l₂.Pairwise (· < ·) → (∀ x ∈ l₁, x ∈ l₂) → l₁.Sublist l₂
  | [], l₁, _, _, hs => by
    cases l₁ with
    | nil => exact List.Sublist.refl _
    | cons a t => exact absurd (hs a List.mem_cons_self) (by simp)
  | b :: t, [], _, _, _ => List.nil_sublist _
  | b :: t, a :: s, h1, h2, hs => by
    rw [List.pairwise_cons] at h1 h2
    by_cases hab : a = b
    · subst hab
      apply List.Sublist.cons_cons
      apply sublist_of_subset_sorted t s h1.2 h2.2
      intro x hx
      rcases List.mem_cons.mp (hs x (List.mem_cons_of_mem _ hx)) with h | h
      · exact absurd h (Ne.symm (gne_of_lt (h1.1 x hx)))
      · exact h
    · apply List.Sublist.cons
      have hat : a ∈ t := (List.mem_cons.mp (hs a List.mem_cons_self)).resolve_left hab
      have hba : b < a := h2.1 a hat
      apply sublist_of_subset_sorted t (a :: s) (List.pairwise_cons.mpr h1) h2.2
      intro x hx
      rcases List.mem_cons.mp (hs x hx) with h | h
      · exfalso
        rcases List.mem_cons.mp hx with h' | h'
        · exact hab (h'.symm.trans h)
        · have : a < b := h ▸ h1.1 x h'
          exact List.lt_irrefl a (glt_trans this hba)
      · exact h

theorem eq_of_sorted_same_mem {l₁ l₂ : List Gram} (h1 : l₁.Pairwise (· < ·))
    (h2 : l₂.Pairwise (· < ·)) (h : ∀ x, x ∈ l₁ ↔ x ∈ l₂) : l₁ = l₂ :=
  (sublist_of_subset_sorted l₂ l₁ h1 h2 fun x hx => (h x).mp hx).antisymm
    (sublist_of_subset_sorted l₁ l₂ h2 h1 fun x hx => (h x).mpr hx)

theorem uninterpLe_trans (a b c : Uninterp) (h1 : uninterpLe a b = true) (h2 : uninterpLe b c = true) :
    uninterpLe a c = true := by
  unfold uninterpLe at *
  simp only [decide_eq_true_eq] at *
  exact gle_trans h1 h2

theorem uninterpLe_total (a b : Uninterp) : (uninterpLe a b || uninterpLe b a) = true := by
  unfold uninterpLe
  simp only [Bool.or_eq_true, decide_eq_true_eq]
  exact List.le_total _ _

/-- the kept n-grams of a record list -/
def keptGrams (es : List Emit) : List Gram := (es.filter keptBy).map (·.gram)

theorem mem_keptGrams {es : List Emit} {g : Gram} :
    g ∈ keptGrams es ↔ ∃ e ∈ es, keptBy e = true ∧ e.gram = g := by
  simp only [keptGrams, List.mem_map, List.mem_filter]
  constructor
  · rintro ⟨e, ⟨h1, h2⟩, h3⟩; exact ⟨e, h1, h2, h3⟩
  · rintro ⟨e, h1, h2, h3⟩; exact ⟨e, ⟨h1, h2⟩, h3⟩

theorem keptGrams_nodup {es : List Emit} (h : (es.map (·.gram)).Nodup) : (keptGrams es).Nodup :=
  (List.filter_sublist.map _).nodup h

/-- the suffix-sorted survivors of stage 3, whatever `u`/`γ` they carry -/
theorem sortedKept_grams (es : List Emit) (f : Emit → Uninterp) (hf : ∀ e, (f e).gram = e.gram)
    (hnd : (es.map (·.gram)).Nodup) :
    let us := (((es.mergeSort ctxLe).filter keptBy).map f).mergeSort uninterpLe
    (us.map (·.gram)).Pairwise (· < ·) ∧ (us.map (·.gram)).Perm (keptGrams es) := by
  intro us
  have hperm : (us.map (·.gram)).Perm (keptGrams es) := by
    have h1 : us.Perm (((es.mergeSort ctxLe).filter keptBy).map f) := List.mergeSort_perm _ _
    have h2 := h1.map (·.gram)
    rw [List.map_map] at h2
    have h3 : ((fun x : Uninterp => x.gram) ∘ f) = fun e : Emit => e.gram := by
      funext e; exact hf e
    rw [h3] at h2
    exact h2.trans (((List.mergeSort_perm es ctxLe).filter _).map _)
  refine ⟨pairwise_lt_of_le_nodup ?_ (hperm.nodup_iff.mpr (keptGrams_nodup hnd)), hperm⟩
  rw [List.pairwise_map]
  exact (List.pairwise_mergeSort uninterpLe_trans uninterpLe_total _).imp
    fun h => of_decide_eq_true h

/-- stage 3 of `c`: the survivors have the kept n-grams, strictly sorted -/
theorem stage3_grams (c : Spec.Ctx) (n : Nat)
    (hlen : ∀ e ∈ c.esAt n, e.gram.length = n)
    (hnd : ((c.esAt n).map (·.gram)).Nodup)
    (hm : n = 1 → ∀ e ∈ c.esAt 1, e.gram ≠ [unk] → e.gram ≠ [bos] → e.marked = false) :
    (((stage3Of c n).1).map (·.gram)).Pairwise (· < ·) ∧
      (((stage3Of c n).1).map (·.gram)).Perm (keptGrams (c.esAt n)) := by
  unfold stage3Of
  by_cases hn : n = 1
  · subst hn
    rw [initialOrder_us1 _ _ _ (fun e he => by
          have := hlen e he
          rcases hg : e.gram with _ | ⟨w, t⟩
          · rfl
          · rw [hg] at this; simp at this; simp [this]) (hm rfl)]
    apply sortedKept_grams _ _ _ hnd
    intro e
    simp only [specUninterp1]; split <;> [rfl; (split <;> rfl)]
  · rw [initialOrder_us _ _ _ _ hn]
    exact sortedKept_grams _ _ (fun _ => rfl) hnd

theorem mem_stage3 (c : Spec.Ctx) (n : Nat)
    (hlen : ∀ e ∈ c.esAt n, e.gram.length = n)
    (hnd : ((c.esAt n).map (·.gram)).Nodup)
    (hm : n = 1 → ∀ e ∈ c.esAt 1, e.gram ≠ [unk] → e.gram ≠ [bos] → e.marked = false)
    {x : Uninterp} (hx : x ∈ (stage3Of c n).1) :
    ∃ e ∈ c.esAt n, keptBy e = true ∧ e.gram = x.gram :=
  mem_keptGrams.mp ((stage3_grams c n hlen hnd hm).2.mem_iff.mp (List.mem_map.mpr ⟨x, hx, rfl⟩))

/-- the n-grams of the order the specification writes: the kept n-grams, strictly sorted -/
theorem specOrder_grams (c : Spec.Ctx) (n : Nat) (hnd : ((c.esAt n).map (·.gram)).Nodup) :
    ((specOrder c n).map (·.gram)).Pairwise (· < ·) ∧
      ((specOrder c n).map (·.gram)).Perm (keptGrams (c.esAt n)) := by
  have hperm : ((specOrder c n).map (·.gram)).Perm (keptGrams (c.esAt n)) := by
    have h1 : (specOrder c n).Perm (((c.esAt n).filter keptBy).map (mkEntry c)) :=
      List.mergeSort_perm _ _
    have h2 := h1.map (·.gram)
    rw [List.map_map] at h2
    exact h2
  refine ⟨pairwise_lt_of_le_nodup ?_ (hperm.nodup_iff.mpr (keptGrams_nodup hnd)), hperm⟩
  rw [List.pairwise_map]
  exact (List.pairwise_mergeSort specLe_trans specLe_total _).imp fun h => of_decide_eq_true h

/-- **target A**: `OrderOK` follows from the record facts and the closure facts -/
theorem orderOK_of_closure : OrderOKOfClosure := by
  intro c pruned n hn0 hn hrec hm hcl
  obtain ⟨hlen, hnd⟩ := hrec n hn0 hn
  have hm' : n = 1 → ∀ e ∈ c.esAt 1, e.gram ≠ [unk] → e.gram ≠ [bos] → e.marked = false :=
    fun _ => hm
  obtain ⟨hus_sorted, hus_perm⟩ := stage3_grams c n hlen hnd hm'
  refine ⟨hlen, hnd, hm', ?_, ?_⟩
  · -- lower
    unfold lowerOf
    by_cases h1 : n = 1
    · rw [if_pos h1]; trivial
    · rw [if_neg h1]
      obtain ⟨_, hnd'⟩ := hrec (n - 1) (by omega) (by omega)
      obtain ⟨hlo_sorted, hlo_perm⟩ := specOrder_grams c (n - 1) hnd'
      have hkeys : ((specOrder c (n - 1)).map fun e => (e.gram, e.p)).map (·.1)
          = (specOrder c (n - 1)).map (·.gram) := by
        rw [List.map_map]; rfl
      refine ⟨?_, ?_, ?_⟩
      · have := hlo_sorted
        rw [← hkeys, List.pairwise_map] at this
        exact this
      · apply dropLast_sorted _ n
        · intro x hx
          obtain ⟨e, he, _, heg⟩ := mem_stage3 c n hlen hnd hm' hx
          rw [← heg]; exact hlen e he
        · have := hus_sorted
          rw [List.pairwise_map] at this
          exact this.imp gle_of_lt
      · intro x hx
        obtain ⟨e, he, hk, heg⟩ := mem_stage3 c n hlen hnd hm' hx
        obtain ⟨e', he', hk', heg'⟩ := hcl.1 h1 e he hk
        rw [hkeys, ← heg, ← heg']
        exact hlo_perm.mem_iff.mpr (mem_keptGrams.mpr ⟨e', he', hk', rfl⟩)
  · -- next
    unfold nextOf
    by_cases h1 : n < c.cfg.order
    · rw [if_pos h1]
      obtain ⟨hg_sorted, hg_mem, _⟩ :=
        initialOrder_gams c.cfg.interpUni (n + 1) (c.dAt (n + 1)) (c.esAt (n + 1))
      have hg_nodup : (((stage3Of c (n + 1)).2).map (·.ctx)).Nodup :=
        hg_sorted.imp gne_of_lt
      have hf_sorted : ((((stage3Of c n).1).map (·.gram)).filter wantsBackoff).Pairwise (· < ·) :=
        hus_sorted.filter _
      have hsub : ∀ g ∈ (((stage3Of c n).1).map (·.gram)).filter wantsBackoff,
          g ∈ ((stage3Of c (n + 1)).2).map (·.ctx) := by
        intro g hg
        obtain ⟨hg1, hg2⟩ := List.mem_filter.mp hg
        obtain ⟨e, he, hk, heg⟩ := mem_keptGrams.mp (hus_perm.mem_iff.mp hg1)
        obtain ⟨e', he', ht⟩ := hcl.2.1 h1 e he hk (heg ▸ hg2)
        exact (hg_mem g).mpr ⟨e', he', ht.trans heg⟩
      rcases hp : pruned n with _ | _
      · refine ⟨hg_nodup, ?_⟩
        apply eq_of_sorted_same_mem hg_sorted hf_sorted
        intro g
        constructor
        · intro hg
          obtain ⟨e', he', ht⟩ := (hg_mem g).mp hg
          obtain ⟨e, he, hk, hw, heg⟩ := hcl.2.2 h1 hp e' he'
          apply List.mem_filter.mpr
          refine ⟨hus_perm.mem_iff.mpr (mem_keptGrams.mpr ⟨e, he, hk, heg.trans ht⟩), ?_⟩
          rw [← ht, ← heg]; exact hw
        · exact hsub g
      · exact ⟨hg_nodup, sublist_of_subset_sorted _ _ hf_sorted hg_sorted hsub⟩
    · rw [if_neg h1]; trivial

/-! ## B. The closure facts for the records of a table -/

/-- every n-gram of order `n < N` that does not end in `</s>` / `<unk>` is the context of an
n-gram of order `n+1` (a corpus-level fact: something follows; `ctx_complete_corpus`) -/
def CtxComplete (cfg : Cfg) (full : Table) : Prop :=
  ∀ n, 1 ≤ n → n < cfg.order → ∀ k ∈ ksOf cfg full n, wantsBackoff k = true →
    ∃ k' ∈ ksOf cfg full (n + 1), k'.tail = k

/-- a record of order `n+1 ≥ 2` is kept when its order is neither count- nor vocabulary-pruned -/
theorem kept_of_unpruned {cfg : Cfg} {full : Table} (hw : TableWF cfg full)
    (discs : List (Disc × Bool)) {n : Nat} (h1 : 1 ≤ n) (hthr : cfg.thr n = 0)
    (hex : ∀ w, cfg.excl w = false) {e : Emit} (he : e ∈ (specCtx cfg full discs).esAt (n + 1)) :
    keptBy e = true := by
  obtain ⟨hn, r, hr, hv, hl, rfl⟩ := hi_rec hw discs h1 he
  have htc : 1 ≤ trueCount full (r.1.take (n + 1)) :=
    trueCount_pos hr (by rw [hl]) (hw.pos r hr)
  have hadj : 1 ≤ adjCount cfg.order full (r.1.take (n + 1)) := adj_pos hr (by rw [hl]) (hw.pos r hr)
  have hp : pruned cfg full (r.1.take (n + 1)) = false := by
    unfold pruned
    rw [not_special_of_len (by omega), not_special_of_len (by omega), not_special_of_len (by omega)]
    have hany : (r.1.take (n + 1)).any cfg.excl = false := by
      rw [List.any_eq_false]; intro x _; simp [hex x]
    simp only [Bool.or_self, Bool.false_eq_true, if_false, hany, Bool.or_false,
      decide_eq_false_iff_not, hl, Nat.add_sub_cancel, hthr]
    omega
  simp only [keptBy, Emit.cutoff, hp, Bool.false_eq_true, if_false, Bool.or_eq_true,
    decide_eq_true_eq]
  right; omega

/-- **target B**: the closure facts of every order, for the records of a well-formed table -/
theorem closureFacts_of_table {cfg : Cfg} {full : Table} (hw : TableWF cfg full)
    (hcc : CtxComplete cfg full) (discs : List (Disc × Bool)) (pruned : Nat → Bool)
    (hpr : ∀ n, 1 ≤ n → n < cfg.order → pruned n = false →
      cfg.thr n = 0 ∧ ∀ w, cfg.excl w = false)
    (n : Nat) (hn0 : 1 ≤ n) (hn : n ≤ cfg.order) :
    ClosureFacts (specCtx cfg full discs) pruned n := by
  have hT := tableOK_of_wf hw discs
  have h2 := hw.order2
  refine ⟨?_, ?_, ?_⟩
  · intro hn1 e he hk
    obtain ⟨m, rfl⟩ : ∃ m, n = m + 1 := ⟨n - 1, by omega⟩
    exact (hT.closure m (by omega) e he hk).1
  · intro hlt e he hk hwb
    have hlt' : n < cfg.order := hlt
    rw [esAt_mid h2 full discs hn0 hn] at he
    obtain ⟨k, hk', rfl⟩ := mem_ents.mp he
    rw [recOf_gram] at hwb ⊢
    obtain ⟨k', hk2, ht⟩ := hcc n hn0 hlt' k hk' hwb
    refine ⟨recOf cfg full k', ?_, by rw [recOf_gram]; exact ht⟩
    rw [esAt_mid h2 full discs (by omega) (by omega)]
    exact mem_ents.mpr ⟨k', hk2, rfl⟩
  · intro hlt hp e' he'
    have hlt' : n < cfg.order := hlt
    obtain ⟨hthr, hex⟩ := hpr n hn0 hlt' hp
    have hk' := kept_of_unpruned hw discs hn0 hthr hex he'
    obtain ⟨e, he, hk, heg⟩ := (hT.closure n hn0 e' he' hk').2
    exact ⟨e, he, hk, heg ▸ (hT.headOK n hn0 e' he' hk').2, heg⟩

/-! ### `CtxComplete` for the table of a corpus -/

theorem rev_take_succ_tail (L : List Word) (n : Nat) (h : n + 1 ≤ L.length) :
    ((L.take (n + 1)).reverse).tail = (L.take n).reverse := by
  rw [List.tail_reverse, List.dropLast_eq_take, List.take_take, List.length_take]
  congr 2; omega

/-- a window of the delimited sentence that does not end in `</s>` extends by one word -/
theorem window_extend {s : List Word} (_hs : ∀ w ∈ s, 3 ≤ w) {n : Nat} (h1 : 1 ≤ n) {k : Gram}
    (hk : k ∈ windows n (padded1 s)) (hwb : wantsBackoff k = true) :
    ∃ k' ∈ windows (n + 1) (padded1 s), k'.tail = k := by
  obtain ⟨j, hj, rfl⟩ := mem_windows hk
  rw [padded1_length] at hj
  -- the newest word of the window is not the final `</s>`
  have hlast : j + n < s.length + 2 := by
    by_contra hge
    have hjn : j + n = s.length + 2 := by omega
    have hget := win_get (P := padded1 s) (i := j) (j := 0) (N := n)
      (by rw [padded1_length]; omega) (by omega)
    have hP : (padded1 s)[j + (n - 1 - 0)]? = some eos := by
      unfold padded1
      rw [show j + (n - 1 - 0) = (s.length + 1) by omega, List.cons_append,
        List.getElem?_cons_succ, List.getElem?_append_right (by omega)]
      simp
    rw [hP] at hget
    generalize (((padded1 s).drop j).take n).reverse = g at hget hwb
    cases g with
    | nil => simp at hget
    | cons a t =>
      simp only [List.getElem?_cons_zero, Option.some.injEq] at hget
      subst hget
      simp [wantsBackoff, eos, unk] at hwb
  refine ⟨(((padded1 s).drop j).take (n + 1)).reverse,
    window_mem (by omega) j (by rw [padded1_length]; omega), ?_⟩
  apply rev_take_succ_tail
  rw [List.length_drop, padded1_length]; omega

/-- **an n-gram that does not end in `</s>` is followed by something** -/
theorem ctx_complete_corpus (cfg : Cfg) (corpus : List (List Word)) (h2 : 2 ≤ cfg.order)
    (hne : corpus ≠ []) (hw : ∀ s ∈ corpus, ∀ w ∈ s, 3 ≤ w) :
    CtxComplete cfg (countFull cfg.order corpus) := by
  intro n h1 hn k hk hwb
  have hmem := (ngram_set_ents cfg corpus h2 hw n h1 (by omega) k).mp
    (by rw [ents_grams]; exact hk)
  have hext : ∀ s ∈ corpus, k ∈ windows n (padded1 s) →
      ∃ k' ∈ ksOf cfg (countFull cfg.order corpus) (n + 1), k'.tail = k := by
    intro s hs hkw
    obtain ⟨k', hk', ht⟩ := window_extend (hw s hs) h1 hkw hwb
    refine ⟨k', ?_, ht⟩
    have := (ngram_set_ents cfg corpus h2 hw (n + 1) (by omega) (by omega) k').mpr
      (Or.inr ⟨⟨s, hs, hk'⟩, by
        obtain ⟨i, hi, rfl⟩ := mem_windows hk'
        intro hb
        have := congrArg List.length hb
        rw [List.length_reverse, List.length_take, List.length_drop] at this
        simp at this; omega⟩)
    rwa [ents_grams] at this
  rcases hmem with ⟨hn1, hub⟩ | ⟨⟨s, hs, hkw⟩, _⟩
  · rcases hub with rfl | rfl
    · simp [wantsBackoff, unk] at hwb
    · -- `<s>` is the first window of any sentence
      subst hn1
      obtain ⟨s, hs⟩ := List.exists_mem_of_ne_nil corpus hne
      apply hext s hs
      have := window_mem (n := 1) (by omega) (l := padded1 s) 0 (by rw [padded1_length]; omega)
      simpa [padded1] using this
  · exact hext s hs hkw

/-! ## C. The top order and the statistics: `adjust` = the records of the specification -/

theorem filter_key_nodup {α κ : Type} [BEq κ] [LawfulBEq κ] (f : α → κ) :
    ∀ (l : List α), (l.map f).Nodup → ∀ e ∈ l, l.filter (fun x => f x == f e) = [e]
  | [], _, e, he => by cases he
  | a :: t, hnd, e, he => by
    rw [List.map_cons, List.nodup_cons] at hnd
    rcases List.mem_cons.mp he with rfl | het
    · rw [List.filter_cons_of_pos (by simp)]
      congr 1
      rw [List.filter_eq_nil_iff]
      intro x hx hxe
      exact hnd.1 (by rw [← (beq_iff_eq.mp hxe)]; exact List.mem_map.mpr ⟨x, hx, rfl⟩)
    · have hne : (f a == f e) = false := by
        rw [beq_eq_false_iff_ne]
        intro h; exact hnd.1 (h ▸ List.mem_map.mpr ⟨e, het, rfl⟩)
      rw [List.filter_cons_of_neg (by simp [hne])]
      exact filter_key_nodup f t hnd.2 e het

theorem fullWF_nodup {N : Nat} {full : Table} (hF : FullWF N full) : (full.map (·.1)).Nodup := by
  rw [List.Nodup, List.pairwise_map]
  exact hF.sorted.imp gne_of_lt

/-- the true count of a full-length row is the count of the row -/
theorem trueCount_row {N : Nat} {full : Table} (hF : FullWF N full) {e : Gram × Nat} (he : e ∈ full) :
    trueCount full e.1 = e.2 := by
  unfold trueCount rowsOf
  have : (full.filter fun x => x.1.take e.1.length == e.1) = full.filter fun x => x.1 == e.1 := by
    apply List.filter_congr
    intro x hx
    rw [List.take_of_length_le (by rw [hF.len x hx, hF.len e he])]
  rw [this, filter_key_nodup (fun x : Gram × Nat => x.1) full (fullWF_nodup hF) e he]
  simp

/-- **the top order**: `CollapseStream` hands on the records of the specification -/
theorem collapse_eq_ents (cfg : Cfg) (full : Table) (h2 : 2 ≤ cfg.order)
    (hF : FullWF cfg.order full) (hk : cfg.keepSpecials = true) :
    collapse cfg full = ents cfg full cfg.order := by
  rw [Norm.ents_eq]
  unfold collapse ksOf
  have h1 : (cfg.order == 1) = false := by simp; omega
  simp only [h1, Bool.false_eq_true, if_false, beq_self_eq_true, if_true]
  rw [List.filter_map, List.map_map]
  have hfil : (full.filter fun e => !(decide (2 ≤ e.1.length) && e.1.getD (e.1.length - 2) unk == bos))
      = full.filter ((fun g : Gram => !(g.getD (g.length - 2) unk == bos)) ∘ fun x => x.1) := by
    apply List.filter_congr
    intro x hx
    have : decide (2 ≤ x.1.length) = true := by rw [hF.len x hx]; simpa using h2
    simp [this]
  rw [hfil]
  apply List.map_congr_left
  intro e he
  have he' := (List.mem_filter.mp he).1
  have hl := hF.len e he'
  simp only [Function.comp]
  rw [recOf_hi cfg full (by omega)]
  have hadj : adjCount cfg.order full e.1 = e.2 := by
    unfold adjCount; rw [if_pos (Or.inl hl)]; exact trueCount_row hF he'
  rw [hadj, ← markOf_eq_pruned cfg hk full e.1, trueCount_row hF he']

/-- one `stats.Add` in closed form -/
theorem add_eq (s : OrderStat) (c : Nat) (p : Bool) :
    s.add c p =
      { n0 := s.n0 + (if c == 0 then 1 else 0), n1 := s.n1 + (if c == 1 then 1 else 0),
        n2 := s.n2 + (if c == 2 then 1 else 0), n3 := s.n3 + (if c == 3 then 1 else 0),
        n4 := s.n4 + (if c == 4 then 1 else 0), count := s.count + 1,
        countPruned := s.countPruned + (if !p then 1 else 0) } := by
  match c with
  | 0 | 1 | 2 | 3 | 4 => cases p <;> simp [OrderStat.add]
  | n + 5 => cases p <;> simp [OrderStat.add]

theorem foldl_add_eq (es : List Emit) (s : OrderStat) :
    es.foldl (fun s e => s.add e.count e.marked) s =
      { n0 := s.n0 + es.countP (·.count == 0), n1 := s.n1 + es.countP (·.count == 1),
        n2 := s.n2 + es.countP (·.count == 2), n3 := s.n3 + es.countP (·.count == 3),
        n4 := s.n4 + es.countP (·.count == 4), count := s.count + es.length,
        countPruned := s.countPruned + es.countP (!·.marked) } := by
  induction es generalizing s with
  | nil => simp
  | cons e t ih =>
    rw [List.foldl_cons, ih, add_eq]
    simp only [List.countP_cons, List.length_cons]
    congr 1 <;> omega

/-- the counts-of-counts fold is the counting specification -/
theorem countsOfCounts_eq_stats (es : List Emit) : countsOfCounts es = Spec.stats es := by
  unfold countsOfCounts Spec.stats
  rw [foldl_add_eq]
  simp

/-! ### the `AddFull` calls -/

/-- STEP 3 reaches the full n-gram iff no `<s>` stands before the last of the remaining words -/
theorem newRegs_snd (g : Gram) (c : Nat) : ∀ (ws : List Word) (n : Nat),
    (newRegs g c n ws).2 = decide (ws.length - 1 ≤ firstBos ws)
  | [], n => by simp [newRegs]
  | [_], n => by simp [newRegs]
  | w :: w2 :: rest, n => by
    unfold newRegs
    by_cases hw : w = bos
    · subst hw; simp [firstBos]
    · have ih := newRegs_snd g c (w2 :: rest) (n + 1)
      simp only [hw, if_false, ih, firstBos, List.length_cons]
      congr 1
      apply propext
      constructor <;> intro h <;> omega

/-- the row survives `CollapseStream` -/
def keepTop (g : Gram) : Bool := !(decide (2 ≤ g.length) && g.getD (g.length - 2) unk == bos)

theorem keepTop_iff {N : Nat} {g : Gram} (hg : RowOK N g) (h2 : 2 ≤ N) :
    keepTop g = true ↔ N - 1 ≤ firstBos g := by
  have hlen := hg.len
  have hd : decide (2 ≤ g.length) = true := by rw [hlen]; simpa using h2
  unfold keepTop
  rw [hd, Bool.true_and, le_firstBos, hlen]
  simp only [Bool.not_eq_eq_eq_not, Bool.not_true, beq_eq_false_iff_ne, ne_eq]
  have hget : g.getD (N - 2) unk = g[N - 2]'(by omega) := by
    rw [List.getD_eq_getElem?_getD, List.getElem?_eq_getElem (by omega)]; rfl
  rw [hget]
  constructor
  · intro h
    refine ⟨by omega, ?_⟩
    intro hmem
    rw [List.mem_take_iff_getElem] at hmem
    obtain ⟨i, hi, hib⟩ := hmem
    have h1 : g[i]? = some bos := by rw [List.getElem?_eq_getElem (by omega), hib]
    have := hg.run i (N - 2) (by omega) (by omega) h1
    rw [List.getElem?_eq_getElem (by omega)] at this
    exact h (Option.some.inj this)
  · rintro ⟨_, hno⟩ hb
    apply hno
    rw [List.mem_take_iff_getElem]
    exact ⟨N - 2, by omega, hb⟩

theorem collapse_snoc (cfg : Cfg) (P : Table) (g : Gram) (c : Nat) :
    collapse cfg (P ++ [(g, c)]) =
      collapse cfg P ++ (if keepTop g then [⟨g, c, markOf cfg c g⟩] else []) := by
  unfold collapse keepTop
  rw [List.filter_append, List.map_append]
  congr 1
  by_cases h : (!(decide (2 ≤ g.length) && g.getD (g.length - 2) unk == bos)) = true
  · rw [List.filter_cons_of_pos (by simpa using h), if_pos h]; rfl
  · rw [List.filter_cons_of_neg (by simpa using h), if_neg h]; rfl

/-- the `AddFull` part of the log is the surviving rows so far -/
def TopLog (cfg : Cfg) (P : Table) (s : AState) : Prop :=
  (s.adds.filter fun a => a.idx == cfg.order - 1).map AddCall.pair
    = ((collapse cfg P).map Emit.pair).reverse

theorem filter_addCall_nil (cfg : Cfg) (h2 : 2 ≤ cfg.order) (d : List Reg)
    (hd : ∀ r ∈ d, r.gram.length ≤ cfg.order - 1) :
    (d.map (Reg.addCall cfg)).filter (fun a => a.idx == cfg.order - 1) = [] := by
  rw [List.filter_eq_nil_iff]
  intro a ha
  obtain ⟨r, hr, rfl⟩ := List.mem_map.mp ha
  have := hd r hr
  simp only [Reg.addCall, beq_iff_eq]
  omega

theorem topLog_step (cfg : Cfg) (h2 : 2 ≤ cfg.order) (P : Table) (s : AState) (g : Gram) (c : Nat)
    (hg : RowOK cfg.order g) (hregs : ∀ r ∈ s.regs, r.gram.length ≤ cfg.order - 1)
    (hs1 : sameOf s.regs g ≤ firstBos g) (hs2 : sameOf s.regs g ≤ cfg.order - 1)
    (hlog : TopLog cfg P s) : TopLog cfg (P ++ [(g, c)]) (adjustStep cfg s (g, c)) := by
  unfold TopLog at *
  have hsnd : (newRegs g c (sameOf s.regs g + 1) (g.drop (sameOf s.regs g))).2 = keepTop g := by
    rw [newRegs_snd, firstBos_drop g _ hs1, List.length_drop, hg.len]
    rw [Bool.eq_iff_iff, keepTop_iff hg h2]
    simp only [decide_eq_true_eq]
    omega
  have hdrop : ((((s.regs.drop (sameOf s.regs g)).reverse).map (Reg.addCall cfg)).reverse).filter
      (fun a => a.idx == cfg.order - 1) = [] := by
    rw [← List.map_reverse, List.reverse_reverse]
    apply filter_addCall_nil cfg h2
    intro r hr; exact hregs r (List.mem_of_mem_drop hr)
  simp only [adjustStep, List.filter_append, List.map_append, hdrop, List.nil_append,
    hlog, hsnd, collapse_snoc, List.reverse_append]
  congr 1
  by_cases hk : keepTop g = true
  · simp [hk, hg.len, AddCall.pair, Emit.pair]
  · have hk' : keepTop g = false := by simpa using hk
    simp [hk']

theorem specRegs_len_le (N : Nat) (P : Table) (l : Gram) :
    ∀ r ∈ specRegs N P l, r.gram.length ≤ N - 1 := by
  intro r hr
  unfold specRegs at hr
  obtain ⟨i, hi, rfl⟩ := List.mem_map.mp hr
  have h1 := List.mem_range.mp hi
  have h2 := regLen_le N l
  simp only [specReg, List.length_take]
  omega

theorem topLog_flush (cfg : Cfg) (h2 : 2 ≤ cfg.order) (P : Table) (s : AState)
    (hregs : ∀ r ∈ s.regs, r.gram.length ≤ cfg.order - 1) (hlog : TopLog cfg P s) :
    TopLog cfg P (adjustFlush cfg s) := by
  unfold TopLog at *
  have : ((s.regs.map fun r => (⟨r.gram.length - 1, if cfg.flushAdjusted then r.adj else r.actual,
      markOf cfg r.actual r.gram⟩ : AddCall)).reverse).filter (fun a => a.idx == cfg.order - 1) = [] := by
    rw [List.filter_eq_nil_iff]
    intro a ha
    obtain ⟨r, hr, rfl⟩ := List.mem_map.mp (List.mem_reverse.mp ha)
    have := hregs r hr
    simp only [beq_iff_eq]
    omega
  simp only [adjustFlush, List.filter_append, this, List.nil_append, hlog]

theorem topLog_fold (cfg : Cfg) (h2 : 2 ≤ cfg.order) (hk : cfg.keepSpecials = true) :
    ∀ (rest P : Table) (l : Gram) (cl : Nat) (s : AState),
      (l, cl) ∈ P → (∀ x ∈ P, ¬ l < x.1) → FullWF cfg.order (P ++ rest) → Inv cfg P l s →
      TopLog cfg P s →
        TopLog cfg (P ++ rest) (adjustFlush cfg (rest.foldl (adjustStep cfg) s))
  | [], P, l, cl, s, _, _, _, inv, hlog => by
    rw [List.foldl_nil, List.append_nil]
    apply topLog_flush cfg h2 P s _ hlog
    rw [inv.regs]; exact specRegs_len_le _ _ _
  | (g, c) :: rest, P, l, cl, s, hl, hmax, hw, inv, hlog => by
    have hgmem : (g, c) ∈ P ++ (g, c) :: rest := by simp
    have hsort := List.pairwise_append.mp hw.sorted
    have X : Adjust.Ctx cfg.order P l g :=
      { h2 := h2
        lmem := ⟨cl, hl⟩
        rows := fun x hx => hw.row x (List.mem_append_left _ hx)
        lmax := hmax
        glt := fun x hx => hsort.2.2 x hx (g, c) (by simp)
        grow := hw.row (g, c) hgmem }
    have inv' := inv_step cfg X c hk s inv
    have hs : ∀ n, n ≤ sameOf s.regs g ↔ n ≤ regLen cfg.order l ∧ g.take n = l.take n := by
      intro n; rw [inv.regs]; exact le_sameOf_specRegs h2 P X.lrow.len X.grow.len n
    have hs1 := same_le_firstBos X _ hs
    have hs2 : sameOf s.regs g ≤ cfg.order - 1 :=
      Nat.le_trans ((hs _).mp (Nat.le_refl _)).1 (regLen_le _ _)
    have hlog' := topLog_step cfg h2 P s g c X.grow
      (by rw [inv.regs]; exact specRegs_len_le _ _ _) hs1 hs2 hlog
    have hassoc : P ++ (g, c) :: rest = (P ++ [(g, c)]) ++ rest := by simp
    rw [List.foldl_cons, hassoc]
    apply topLog_fold cfg h2 hk rest (P ++ [(g, c)]) g c _ (by simp) _ (hassoc ▸ hw) inv' hlog'
    intro x hx
    rcases List.mem_append.mp hx with hx | hx
    · exact List.lt_asymm (X.glt x hx)
    · simp only [List.mem_singleton] at hx
      subst hx
      exact List.lt_irrefl _

theorem topLog_init (cfg : Cfg) (h2 : 2 ≤ cfg.order) : TopLog cfg [] adjustInit := by
  unfold TopLog adjustInit collapse
  have : ((0 : Nat) == cfg.order - 1) = false := by simp; omega
  simp [this]

/-- the whole `AddFull` log -/
theorem topLog_all (cfg : Cfg) (full : Table) (h2 : 2 ≤ cfg.order) (hF : FullWF cfg.order full)
    (hk : cfg.keepSpecials = true) : TopLog cfg full (adjustStream cfg full) := by
  unfold adjustStream
  cases full with
  | nil =>
    rw [List.foldl_nil]
    apply topLog_flush cfg h2 [] adjustInit _ (topLog_init cfg h2)
    intro r hr; simp [adjustInit] at hr; subst hr; simp; omega
  | cons e rest =>
    obtain ⟨g, c⟩ := e
    rw [List.foldl_cons]
    have hg := hF.row (g, c) (by simp)
    have hsame := sameOf_init hg
    have hfirst : TopLog cfg [(g, c)] (adjustStep cfg adjustInit (g, c)) := by
      have := topLog_step cfg h2 [] adjustInit g c hg
        (by intro r hr; simp [adjustInit] at hr; subst hr; simp; omega)
        (by rw [hsame]; omega) (by rw [hsame]; omega) (topLog_init cfg h2)
      simpa using this
    exact topLog_fold cfg h2 hk rest [(g, c)] g c _ (by simp)
      (by intro x hx; simp only [List.mem_singleton] at hx; subst hx; exact List.lt_irrefl _)
      (by simpa using hF) (inv_first cfg h2 hk g c hg) hfirst

/-- **the statistics of the top order** are the counts-of-counts of the surviving rows -/
theorem stats_top (cfg : Cfg) (full : Table) (h2 : 2 ≤ cfg.order) (hF : FullWF cfg.order full)
    (hk : cfg.keepSpecials = true) :
    statsOf (adjustStream cfg full).adds.reverse (cfg.order - 1) = countsOfCounts (collapse cfg full) := by
  have h := topLog_all cfg full h2 hF hk
  unfold TopLog at h
  unfold statsOf countsOfCounts
  rw [foldl_add_pairs, foldl_emit_pairs, List.filter_reverse, List.map_reverse, h, List.reverse_reverse]

/-- **target C**: `AdjustCounts` hands on the records of the specification … -/
theorem adjust_streams (cfg : Cfg) (full : Table) (h2 : 2 ≤ cfg.order) (hF : FullWF cfg.order full)
    (hk : cfg.keepSpecials = true) : (adjust cfg full).streams = specRecords cfg full := by
  have h1 : ¬ cfg.order ≤ 1 := by omega
  unfold adjust specRecords
  simp only [if_neg h1]
  obtain ⟨M, hM⟩ : ∃ M, cfg.order = M + 1 := ⟨cfg.order - 1, by omega⟩
  rw [hM, Nat.add_sub_cancel, List.range_succ, List.map_append, List.map_cons, List.map_nil]
  congr 1
  · apply List.map_congr_left
    intro i hi
    have := List.mem_range.mp hi
    exact adjust_stream_eq cfg full h2 hF hk (i + 1) (by omega) (by omega)
  · rw [collapse_eq_ents cfg full h2 hF hk, hM]

/-- … and their statistics -/
theorem adjust_stats (cfg : Cfg) (full : Table) (h2 : 2 ≤ cfg.order) (hF : FullWF cfg.order full)
    (hk : cfg.keepSpecials = true) (hfix : cfg.flushAdjusted = true) :
    (adjust cfg full).stats = (specRecords cfg full).map Spec.stats := by
  have h1 : ¬ cfg.order ≤ 1 := by omega
  unfold adjust specRecords
  simp only [if_neg h1, List.map_map]
  apply List.map_congr_left
  intro i hi
  have hi' := List.mem_range.mp hi
  simp only [Function.comp]
  rw [← countsOfCounts_eq_stats]
  by_cases hlt : i + 1 < cfg.order
  · exact stats_eq cfg full h2 hF hk hfix i hlt
  · have : i = cfg.order - 1 := by omega
    rw [this, stats_top cfg full h2 hF hk, collapse_eq_ents cfg full h2 hF hk]
    congr 2; omega

/-! ## D0. Stage 3 of order 1 without the "no marked unigram" hypothesis

A marked ordinary unigram is read with its mark bit by `MergeRight` (`Emit.rawCount`), but it
is removed by `PruneNGramStream` right afterwards, so the surviving records still carry the
values of the specification.  The theorems of `KNInterp.lean` §7–§10 are restated with the
weaker hypothesis "kept unigrams other than `<unk>`, `<s>` are unmarked". -/

theorem flatMap_filter_map_of {α β : Type} {rs : List (List α)} {F : List α → List β} {f : α → β}
    {q : α → Bool} (h : ∀ r ∈ rs, F r = (r.filter q).map f) :
    rs.flatMap F = (rs.flatten.filter q).map f := by
  induction rs with
  | nil => rfl
  | cons a t ih =>
    rw [List.flatMap_cons, List.flatten_cons, List.filter_append, List.map_append,
      h a List.mem_cons_self, ih fun r hr => h r (List.mem_cons_of_mem _ hr)]

theorem keep_mergeRightUnigram (interpUni : Bool) (d : Disc) (es run : List Emit)
    (hp : run.Perm (Spec.group es []))
    (hm : ∀ e ∈ run, keptBy e = true → e.gram ≠ [unk] → e.gram ≠ [bos] → e.marked = false) :
    (mergeRightUnigram interpUni d run).filter (·.keep)
      = (run.filter keptBy).map (specUninterp1 interpUni d es) := by
  unfold mergeRightUnigram
  rw [List.filter_map]
  have hq : ∀ e ∈ run, ((fun x : Uninterp => x.keep) ∘ fun e : Emit =>
      if e.gram = [unk] then
        (⟨e.gram, if interpUni then 0 else (addRight d run).gamma,
          if interpUni then (addRight d run).gamma else 0, keptBy e⟩ : Uninterp)
      else if e.gram = [bos] then ⟨e.gram, 1, 0, keptBy e⟩
      else ⟨e.gram, d.apply e.rawCount / ((addRight d run).den : Rat),
        if interpUni then (addRight d run).gamma else 0, keptBy e⟩) e = keptBy e := by
    intro e _
    simp only [Function.comp]
    split <;> [rfl; (split <;> rfl)]
  rw [List.filter_congr hq]
  apply List.map_congr_left
  intro e he
  obtain ⟨he1, he2⟩ := List.mem_filter.mp he
  simp only [specUninterp1, addRight_den d es run [] hp, addRight_gamma d es run [] hp]
  by_cases h1 : e.gram = [unk]
  · simp only [h1, if_true]
  · by_cases h2 : e.gram = [bos]
    · simp only [h2, if_true]
    · simp only [h1, h2, if_false, rawCount_unmarked (hm e he1 he2 h1 h2)]

theorem initialOrder_us1' (interpUni : Bool) (d : Disc) (es : List Emit)
    (hctx : ∀ e ∈ es, e.gram.tail = [])
    (hm : ∀ e ∈ es, keptBy e = true → e.gram ≠ [unk] → e.gram ≠ [bos] → e.marked = false) :
    (initialOrder interpUni 1 d es).1
      = (((es.mergeSort ctxLe).filter keptBy).map (specUninterp1 interpUni d es)).mergeSort uninterpLe := by
  have hmem : ∀ r ∈ ctxRuns (es.mergeSort ctxLe), ∀ e ∈ r, e ∈ es := by
    intro r hr e he
    apply (List.mergeSort_perm es ctxLe).mem_iff.mp
    rw [← ctxRuns_flatten (es.mergeSort ctxLe)]
    exact List.mem_flatten.mpr ⟨r, hr, he⟩
  have h1 : ((ctxRuns (es.mergeSort ctxLe)).flatMap (mergeRightUnigram interpUni d)).filter (·.keep)
      = ((es.mergeSort ctxLe).filter keptBy).map (specUninterp1 interpUni d es) := by
    rw [List.filter_flatMap, flatMap_filter_map_of (f := specUninterp1 interpUni d es) (q := keptBy),
      ctxRuns_flatten]
    intro r hr
    obtain ⟨hne, hc, hp⟩ := runs_perm_group es r hr
    have hr0 : runCtx r = [] := by
      rcases r with _ | ⟨a, t⟩
      · exact absurd rfl hne
      · exact hctx a (hmem _ hr a List.mem_cons_self)
    rw [hr0] at hp
    exact keep_mergeRightUnigram interpUni d es r hp fun e he => hm e (hmem r hr e he)
  simp only [initialOrder, BEq.rfl, if_true, h1]

theorem interpOrder_spec' (c : Spec.Ctx) (n : Nat) (hn0 : 1 ≤ n)
    (hlen : ∀ e ∈ c.esAt n, e.gram.length = n)
    (hnd : ((c.esAt n).map (·.gram)).Nodup)
    (hm : n = 1 → ∀ e ∈ c.esAt 1, keptBy e = true → e.gram ≠ [unk] → e.gram ≠ [bos] → e.marked = false)
    (us : List Uninterp) (hus : us = (initialOrder c.cfg.interpUni n (c.dAt n) (c.esAt n)).1)
    (lower : Option (List (Gram × Rat)))
    (hlow : match lower with
      | none => n = 1
      | some l => n ≠ 1 ∧ ∀ kp ∈ l, kp.2 = c.prob kp.1)
    (next : Option (List Gam × Bool))
    (hnext : match next with
      | none => ¬ n < c.cfg.order
      | some (gams, _) => n < c.cfg.order ∧
          gams = (initialOrder c.cfg.interpUni (n + 1) (c.dAt (n + 1)) (c.esAt (n + 1))).2)
    (hl : LowerOK us lower) (hnx : NextOK us next) :
    interpOrder n us lower c.uniform next
      = .ok (us.map fun x => ⟨x.gram, c.prob x.gram, c.backoff x.gram⟩) := by
  rw [interpOrder_eq n us lower c.uniform next hl hnx]
  congr 1
  apply List.map_congr_left
  intro x hx
  -- the record behind `x`
  have hx' : ∃ e ∈ c.esAt n, x.gram = e.gram ∧ (x.u, x.gamma) = c.uGamma e.gram := by
    by_cases hn : n = 1
    · subst hn
      rw [hus, initialOrder_us1' _ _ _ (fun e he => by
            have := hlen e he
            rcases hg : e.gram with _ | ⟨w, t⟩
            · rfl
            · rw [hg] at this; simp at this; simp [this]) (hm rfl)] at hx
      obtain ⟨e, he, _, rfl⟩ := mem_sorted_kept _ _ _ _ hx
      refine ⟨e, he, ?_, specUninterp1_uGamma c e he (hlen e he) hnd⟩
      simp only [specUninterp1]; split <;> [rfl; (split <;> rfl)]
    · rw [hus, initialOrder_us _ _ _ _ hn] at hx
      obtain ⟨e, he, _, rfl⟩ := mem_sorted_kept _ _ _ _ hx
      exact ⟨e, he, rfl, specUninterp_uGamma c n hn e he (hlen e he) hnd⟩
  obtain ⟨e, he, hg, hug⟩ := hx'
  have hlg : x.gram.length = n := by rw [hg]; exact hlen e he
  have hu : x.u = (c.uGamma x.gram).1 := by rw [hg, ← hug]
  have hga : x.gamma = (c.uGamma x.gram).2 := by rw [hg, ← hug]
  have hbo : boVal next x.gram = c.backoff x.gram := by
    apply boVal_backoff
    rw [hlg]; exact hnext
  have hp : interpProb x (lowerVal lower c.uniform x.gram) = c.prob x.gram := by
    have hne : x.gram ≠ [] := by
      intro h0; rw [h0] at hlg; simp at hlg; omega
    rw [prob_step c x.gram hne, interpProb, hu, hga]
    congr 2
    rcases lower with _ | l
    · have h1 : n = 1 := hlow
      have : x.gram.dropLast = [] := by
        rcases hxg : x.gram with _ | ⟨w, t⟩
        · rfl
        · rw [hxg, h1] at hlg; simp at hlg; simp [hlg]
      rw [this, prob_nil]; rfl
    · obtain ⟨p, hp1, hp2⟩ := lookup_of_mem_keys l _ (hl.2.2 x hx)
      simp only [lowerVal, hp1, Option.getD_some]
      exact hlow.2 _ hp2
  rw [hp, hbo]

theorem interpOrder_specOrder' (c : Spec.Ctx) (n : Nat) (hn0 : 1 ≤ n)
    (hlen : ∀ e ∈ c.esAt n, e.gram.length = n)
    (hnd : ((c.esAt n).map (·.gram)).Nodup)
    (hm : n = 1 → ∀ e ∈ c.esAt 1, keptBy e = true → e.gram ≠ [unk] → e.gram ≠ [bos] → e.marked = false)
    (us : List Uninterp) (hus : us = (initialOrder c.cfg.interpUni n (c.dAt n) (c.esAt n)).1)
    (lower : Option (List (Gram × Rat)))
    (hlow : match lower with
      | none => n = 1
      | some l => n ≠ 1 ∧ ∀ kp ∈ l, kp.2 = c.prob kp.1)
    (next : Option (List Gam × Bool))
    (hnext : match next with
      | none => ¬ n < c.cfg.order
      | some (gams, _) => n < c.cfg.order ∧
          gams = (initialOrder c.cfg.interpUni (n + 1) (c.dAt (n + 1)) (c.esAt (n + 1))).2)
    (hl : LowerOK us lower) (hnx : NextOK us next) :
    interpOrder n us lower c.uniform next = .ok (specOrder c n) := by
  rw [interpOrder_spec' c n hn0 hlen hnd hm us hus lower hlow next hnext hl hnx]
  congr 1
  rw [hus]
  unfold specOrder
  by_cases hn : n = 1
  · subst hn
    rw [initialOrder_us1' _ _ _ (fun e he => by
          have := hlen e he
          rcases hg : e.gram with _ | ⟨w, t⟩
          · rfl
          · rw [hg] at this; simp at this; simp [this]) (hm rfl)]
    apply us_map_entry
    intro e
    simp only [specUninterp1]; split <;> [rfl; (split <;> rfl)]
  · rw [initialOrder_us _ _ _ _ hn]
    exact us_map_entry c _ _ fun _ => rfl

theorem stage3_grams' (c : Spec.Ctx) (n : Nat)
    (hlen : ∀ e ∈ c.esAt n, e.gram.length = n)
    (hnd : ((c.esAt n).map (·.gram)).Nodup)
    (hm : n = 1 → ∀ e ∈ c.esAt 1, keptBy e = true → e.gram ≠ [unk] → e.gram ≠ [bos] → e.marked = false) :
    (((stage3Of c n).1).map (·.gram)).Pairwise (· < ·) ∧
      (((stage3Of c n).1).map (·.gram)).Perm (keptGrams (c.esAt n)) := by
  unfold stage3Of
  by_cases hn : n = 1
  · subst hn
    rw [initialOrder_us1' _ _ _ (fun e he => by
          have := hlen e he
          rcases hg : e.gram with _ | ⟨w, t⟩
          · rfl
          · rw [hg] at this; simp at this; simp [this]) (hm rfl)]
    apply sortedKept_grams _ _ _ hnd
    intro e
    simp only [specUninterp1]; split <;> [rfl; (split <;> rfl)]
  · rw [initialOrder_us _ _ _ _ hn]
    exact sortedKept_grams _ _ (fun _ => rfl) hnd

theorem mem_stage3' (c : Spec.Ctx) (n : Nat)
    (hlen : ∀ e ∈ c.esAt n, e.gram.length = n)
    (hnd : ((c.esAt n).map (·.gram)).Nodup)
    (hm : n = 1 → ∀ e ∈ c.esAt 1, keptBy e = true → e.gram ≠ [unk] → e.gram ≠ [bos] → e.marked = false)
    {x : Uninterp} (hx : x ∈ (stage3Of c n).1) :
    ∃ e ∈ c.esAt n, keptBy e = true ∧ e.gram = x.gram :=
  mem_keptGrams.mp ((stage3_grams' c n hlen hnd hm).2.mem_iff.mp (List.mem_map.mpr ⟨x, hx, rfl⟩))

structure OrderOK' (c : Spec.Ctx) (pruned : Nat → Bool) (n : Nat) : Prop where
  len : ∀ e ∈ c.esAt n, e.gram.length = n
  nd : ((c.esAt n).map (·.gram)).Nodup
  unmarked : n = 1 → ∀ e ∈ c.esAt 1, keptBy e = true → e.gram ≠ [unk] → e.gram ≠ [bos] → e.marked = false
  lower : LowerOK (stage3Of c n).1 (lowerOf c n)
  next : NextOK (stage3Of c n).1 (nextOf c pruned n)

theorem interpOrder_ok' (c : Spec.Ctx) (pruned : Nat → Bool) (n : Nat) (hn0 : 1 ≤ n)
    (h : OrderOK' c pruned n) :
    interpOrder n (stage3Of c n).1 (lowerOf c n) c.uniform (nextOf c pruned n)
      = .ok (specOrder c n) := by
  apply interpOrder_specOrder' c n hn0 h.len h.nd h.unmarked _ rfl _ _ _ _ h.lower h.next
  · unfold lowerOf
    by_cases h1 : n = 1
    · simp [h1]
    · simp only [h1, if_false]
      refine ⟨h1, ?_⟩
      intro kp hkp
      rcases List.mem_map.mp hkp with ⟨e, he, rfl⟩
      exact specOrder_p c (n - 1) e he
  · unfold nextOf
    by_cases h1 : n < c.cfg.order
    · rw [if_pos h1]; exact ⟨h1, rfl⟩
    · rw [if_neg h1]; exact h1

theorem interpAll_eq' (c : Spec.Ctx) (pruned : Nat → Bool)
    (hok : ∀ n, 1 ≤ n → n ≤ c.cfg.order → OrderOK' c pruned n) :
    ∀ (m n : Nat), 1 ≤ n → n + m = c.cfg.order + 1 →
      interpAll pruned c.uniform n ((List.range' n m).map (stage3Of c)) (lowerOf c n)
        = .ok ((List.range' n m).map (specOrder c)) := by
  intro m
  induction m with
  | zero => intro n _ _; rfl
  | succ m ih =>
    intro n hn0 hnm
    have hle : n ≤ c.cfg.order := by omega
    have hord := interpOrder_ok' c pruned n hn0 (hok n hn0 hle)
    have hnext : (match (List.range' (n + 1) m).map (stage3Of c) with
        | (_, gams) :: _ => some (gams, pruned n)
        | [] => none) = nextOf c pruned n := by
      unfold nextOf
      cases m with
      | zero => have : ¬ n < c.cfg.order := by omega
                simp [this]
      | succ m' => have : n < c.cfg.order := by omega
                   simp [this, List.range'_succ]
    have hlow : (some ((specOrder c n).map fun e => (e.gram, e.p)) : Option (List (Gram × Rat)))
        = lowerOf c (n + 1) := by
      unfold lowerOf
      have : n + 1 ≠ 1 := by omega
      rw [if_neg this]; rfl
    rw [List.range'_succ, List.map_cons, List.map_cons]
    show (do
      let es ← interpOrder n (stage3Of c n).1 (lowerOf c n) c.uniform
        (match (List.range' (n + 1) m).map (stage3Of c) with
          | (_, gams) :: _ => some (gams, pruned n)
          | [] => none)
      let tl ← interpAll pruned c.uniform (n + 1) ((List.range' (n + 1) m).map (stage3Of c))
        (some (es.map fun e : Entry => (e.gram, e.p)))
      pure (es :: tl)) = _
    rw [hnext, hord]
    simp only [bind, Except.bind]
    rw [hlow, ih (n + 1) (by omega) (by omega)]
    rfl

theorem interp_eq' (c : Spec.Ctx) (pruned : Nat → Bool)
    (hok : ∀ n, 1 ≤ n → n ≤ c.cfg.order → OrderOK' c pruned n) :
    interpAll pruned c.uniform 1 ((List.range' 1 c.cfg.order).map (stage3Of c)) none
      = .ok ((List.range' 1 c.cfg.order).map (specOrder c)) :=
  interpAll_eq' c pruned hok c.cfg.order 1 (Nat.le_refl 1) (by omega)

theorem orderOK_of_closure' (c : Spec.Ctx) (pruned : Nat → Bool) (n : Nat) (hn0 : 1 ≤ n)
    (hn : n ≤ c.cfg.order)
    (hrec : ∀ k, 1 ≤ k → k ≤ c.cfg.order → (∀ e ∈ c.esAt k, e.gram.length = k) ∧
      ((c.esAt k).map (·.gram)).Nodup)
    (hm : ∀ e ∈ c.esAt 1, keptBy e = true → e.gram ≠ [unk] → e.gram ≠ [bos] → e.marked = false)
    (hcl : ClosureFacts c pruned n) : OrderOK' c pruned n := by
  obtain ⟨hlen, hnd⟩ := hrec n hn0 hn
  have hm' : n = 1 → ∀ e ∈ c.esAt 1, keptBy e = true → e.gram ≠ [unk] → e.gram ≠ [bos] → e.marked = false :=
    fun _ => hm
  obtain ⟨hus_sorted, hus_perm⟩ := stage3_grams' c n hlen hnd hm'
  refine ⟨hlen, hnd, hm', ?_, ?_⟩
  · -- lower
    unfold lowerOf
    by_cases h1 : n = 1
    · rw [if_pos h1]; trivial
    · rw [if_neg h1]
      obtain ⟨_, hnd'⟩ := hrec (n - 1) (by omega) (by omega)
      obtain ⟨hlo_sorted, hlo_perm⟩ := specOrder_grams c (n - 1) hnd'
      have hkeys : ((specOrder c (n - 1)).map fun e => (e.gram, e.p)).map (·.1)
          = (specOrder c (n - 1)).map (·.gram) := by
        rw [List.map_map]; rfl
      refine ⟨?_, ?_, ?_⟩
      · have := hlo_sorted
        rw [← hkeys, List.pairwise_map] at this
        exact this
      · apply dropLast_sorted _ n
        · intro x hx
          obtain ⟨e, he, _, heg⟩ := mem_stage3' c n hlen hnd hm' hx
          rw [← heg]; exact hlen e he
        · have := hus_sorted
          rw [List.pairwise_map] at this
          exact this.imp gle_of_lt
      · intro x hx
        obtain ⟨e, he, hk, heg⟩ := mem_stage3' c n hlen hnd hm' hx
        obtain ⟨e', he', hk', heg'⟩ := hcl.1 h1 e he hk
        rw [hkeys, ← heg, ← heg']
        exact hlo_perm.mem_iff.mpr (mem_keptGrams.mpr ⟨e', he', hk', rfl⟩)
  · -- next
    unfold nextOf
    by_cases h1 : n < c.cfg.order
    · rw [if_pos h1]
      obtain ⟨hg_sorted, hg_mem, _⟩ :=
        initialOrder_gams c.cfg.interpUni (n + 1) (c.dAt (n + 1)) (c.esAt (n + 1))
      have hg_nodup : (((stage3Of c (n + 1)).2).map (·.ctx)).Nodup :=
        hg_sorted.imp gne_of_lt
      have hf_sorted : ((((stage3Of c n).1).map (·.gram)).filter wantsBackoff).Pairwise (· < ·) :=
        hus_sorted.filter _
      have hsub : ∀ g ∈ (((stage3Of c n).1).map (·.gram)).filter wantsBackoff,
          g ∈ ((stage3Of c (n + 1)).2).map (·.ctx) := by
        intro g hg
        obtain ⟨hg1, hg2⟩ := List.mem_filter.mp hg
        obtain ⟨e, he, hk, heg⟩ := mem_keptGrams.mp (hus_perm.mem_iff.mp hg1)
        obtain ⟨e', he', ht⟩ := hcl.2.1 h1 e he hk (heg ▸ hg2)
        exact (hg_mem g).mpr ⟨e', he', ht.trans heg⟩
      rcases hp : pruned n with _ | _
      · refine ⟨hg_nodup, ?_⟩
        apply eq_of_sorted_same_mem hg_sorted hf_sorted
        intro g
        constructor
        · intro hg
          obtain ⟨e', he', ht⟩ := (hg_mem g).mp hg
          obtain ⟨e, he, hk, hw, heg⟩ := hcl.2.2 h1 hp e' he'
          apply List.mem_filter.mpr
          refine ⟨hus_perm.mem_iff.mpr (mem_keptGrams.mpr ⟨e, he, hk, heg.trans ht⟩), ?_⟩
          rw [← ht, ← heg]; exact hw
        · exact hsub g
      · exact ⟨hg_nodup, sublist_of_subset_sorted _ _ hf_sorted hg_sorted hsub⟩
    · rw [if_neg h1]; trivial

/-! ## D. `estimateFrom` = `Spec.estimateFrom` -/

theorem discountsFrom_length (fallback : Option Disc) : ∀ (st : List OrderStat) (i : Nat)
    (ds : List (Disc × Bool)), discountsFrom fallback i st = .ok ds → ds.length = st.length
  | [], i, ds, h => by simp [discountsFrom] at h; subst h; rfl
  | s :: t, i, ds, h => by
    unfold discountsFrom at h
    split at h
    · cases h
    · split at h
      · cases h
      · rename_i ds' hds
        simp only [Except.ok.injEq] at h
        subst h
        simp [discountsFrom_length fallback t (i + 1) ds' hds]

theorem discounts_length {fallback : Option Disc} {st : List OrderStat} {ds : List (Disc × Bool)}
    (h : discounts fallback st = .ok ds) : ds.length = st.length :=
  discountsFrom_length fallback st 0 ds h

theorem zipIdx_map_range {α β γ : Type} (G : Nat → β → α → γ) (da : α) (db : β) :
    ∀ (A : List α) (B : List β) (n : Nat), A.length = B.length →
      ((A.zip B).zipIdx n).map (fun x => G x.2 x.1.2 x.1.1)
        = (List.range A.length).map fun j => G (n + j) (B.getD j db) (A.getD j da)
  | [], B, n, _ => by simp
  | a :: A, [], n, h => by simp at h
  | a :: A, b :: B, n, h => by
    have ih := zipIdx_map_range G da db A B (n + 1) (by simpa using h)
    rw [List.zip_cons_cons, List.zipIdx_cons, List.map_cons, ih, List.length_cons,
      List.range_succ_eq_map, List.map_cons, List.map_map]
    congr 1
    apply List.map_congr_left
    intro j _
    simp only [Function.comp, List.getD_cons_succ]
    congr 1; omega

theorem range_map_getD {α : Type} (A : List α) (d : α) :
    (List.range A.length).map (fun j => A.getD j d) = A := by
  apply List.ext_getElem
  · simp
  · intro i h1 h2
    simp only [List.length_map, List.length_range] at h1
    simp [List.getD_eq_getElem?_getD, List.getElem?_eq_getElem h1]

section
variable {cfg : Cfg} {full : Table}

theorem specRecords_length (h2 : 2 ≤ cfg.order) : (specRecords cfg full).length = cfg.order := by
  unfold specRecords
  rw [if_neg (by omega)]
  simp

/-- the stage-3 list `estimateFrom` builds is `stage3Of` of the specification context -/
theorem stage3_list (h2 : 2 ≤ cfg.order) (discs : List (Disc × Bool))
    (hlen : discs.length = cfg.order) :
    ((specRecords cfg full).zip discs).zipIdx.map
        (fun x => initialOrder cfg.interpUni (x.2 + 1) x.1.2.1 x.1.1)
      = (List.range' 1 cfg.order).map (stage3Of (specCtx cfg full discs)) := by
  have hl := specRecords_length (full := full) h2
  rw [zipIdx_map_range (fun i (d : Disc × Bool) es => initialOrder cfg.interpUni (i + 1) d.1 es)
    [] (⟨0, 0, 0⟩, false) _ _ 0 (by rw [hl, hlen]), hl, List.range'_eq_map_range, List.map_map]
  apply List.map_congr_left
  intro j _
  simp only [Function.comp, stage3Of, specCtx, Spec.Ctx.dAt, Spec.Ctx.esAt, Nat.zero_add,
    Nat.add_comm 1 j, Nat.add_sub_cancel]
  congr 1
  rw [List.getD_eq_getElem?_getD, List.getD_eq_getElem?_getD, List.getElem?_map]
  cases discs[j]? <;> rfl

/-- the per-order entry lists of the specification, by order -/
theorem specOrders_eq (h2 : 2 ≤ cfg.order) (discs : List (Disc × Bool)) :
    (List.range' 1 cfg.order).map (specOrder (specCtx cfg full discs))
      = ordersOf (specCtx cfg full discs) := by
  have hl := specRecords_length (full := full) h2
  unfold ordersOf
  conv => rhs; rw [← range_map_getD (specCtx cfg full discs).es []]
  rw [List.map_map, List.range'_eq_map_range, List.map_map]
  have : (specCtx cfg full discs).es.length = cfg.order := hl
  rw [this]
  apply List.map_congr_left
  intro j _
  simp only [Function.comp, specOrder, Spec.Ctx.esAt, Nat.add_sub_cancel_left]

/-- every order of the specification context of a well-formed table satisfies `OrderOK'` -/
theorem orderOK_table (hw : TableWF cfg full) (hcc : CtxComplete cfg full)
    (discs : List (Disc × Bool)) (pv : Bool) (hpv : pv = false → ∀ w, cfg.excl w = false)
    (n : Nat) (hn0 : 1 ≤ n) (hn : n ≤ cfg.order) :
    OrderOK' (specCtx cfg full discs) (fun n => pv || decide (cfg.thr n > 0)) n := by
  have hT := tableOK_of_wf hw discs
  apply orderOK_of_closure' _ _ n hn0 hn
  · intro k hk1 _
    exact ⟨spec_len hw discs k hk1, hT.nodup k⟩
  · intro e he hk _ _
    by_cases hc : e.cutoff > 0
    · unfold Emit.cutoff at hc
      cases hm : e.marked with
      | false => rfl
      | true => simp [hm] at hc
    · have : (e.gram.length == 1 && e.gram.all isSpecial) = true := by
        simpa [keptBy, hc] using hk
      exact hT.specialsUnmarked e he (by simp only [Bool.and_eq_true] at this; exact this.2)
  · apply closureFacts_of_table hw hcc discs _ _ n hn0 hn
    intro m _ _ hp
    simp only [Bool.or_eq_false_iff, decide_eq_false_iff_not] at hp
    exact ⟨by omega, hpv hp.1⟩

/-- stage 3 + stage 4 of the streaming pipeline on the records of the specification -/
theorem stage34_eq (hw : TableWF cfg full) (hcc : CtxComplete cfg full)
    (discs : List (Disc × Bool)) (hlen : discs.length = cfg.order)
    (pv : Bool) (hpv : pv = false → ∀ w, cfg.excl w = false) :
    interpAll (fun n => pv || decide (cfg.thr n > 0)) (specCtx cfg full discs).uniform 1
        (((specRecords cfg full).zip discs).zipIdx.map
          (fun x => initialOrder cfg.interpUni (x.2 + 1) x.1.2.1 x.1.1)) none
      = .ok (ordersOf (specCtx cfg full discs)) := by
  rw [stage3_list hw.order2 discs hlen, ← specOrders_eq hw.order2 discs]
  exact interp_eq' (specCtx cfg full discs) _ (orderOK_table hw hcc discs pv hpv)

end

theorem spec_estimateFrom_unfold (cfg : Cfg) (fallback : Option Disc) (full : Table) :
    Spec.estimateFrom cfg fallback full =
      match discounts fallback ((specRecords cfg full).map Spec.stats) with
      | .error e => .error e
      | .ok discs => .ok
          { stats := (specRecords cfg full).map Spec.stats, discs := discs,
            header := ((specRecords cfg full).map Spec.stats).map (·.countPruned),
            uniform := (specCtx cfg full discs).uniform,
            orders := ordersOf (specCtx cfg full discs) } := by
  cases hd : discounts fallback ((specRecords cfg full).map Spec.stats) with
  | error e =>
    unfold specRecords at hd
    unfold Spec.estimateFrom
    simp only [bind, Except.bind, hd]
  | ok discs =>
    unfold specRecords at hd
    unfold Spec.estimateFrom
    simp only [bind, Except.bind, hd]
    rfl

theorem estimateFrom_unfold (cfg : Cfg) (pv : Bool) (fallback : Option Disc) (full : Table) :
    estimateFrom cfg pv fallback full =
      match discounts fallback (adjust cfg full).stats with
      | .error e => .error e
      | .ok discs =>
        match interpAll (fun n => pv || decide (cfg.thr n > 0))
            (1 / ((((adjust cfg full).stats.map (·.countPruned)).headD 0 - 1 : Nat) : Rat)) 1
            ((((adjust cfg full).streams.zip discs).zipIdx).map
              (fun x => initialOrder cfg.interpUni (x.2 + 1) x.1.2.1 x.1.1)) none with
        | .error e => .error e
        | .ok orders => .ok
            { stats := (adjust cfg full).stats, discs := discs,
              header := (adjust cfg full).stats.map (·.countPruned),
              uniform := 1 / ((((adjust cfg full).stats.map (·.countPruned)).headD 0 - 1 : Nat) : Rat),
              orders := orders } := by
  unfold estimateFrom
  simp only [bind, Except.bind]
  cases discounts fallback (adjust cfg full).stats with
  | error e => rfl
  | ok discs =>
    simp only
    split <;> simp_all [pure, Except.pure]

/-- **target D**: on a well-formed count table the streaming pipeline and the set-based
specification return the same result (the same model or the same error) -/
theorem estimateFrom_eq_spec (cfg : Cfg) (pv : Bool) (fallback : Option Disc) (full : Table)
    (hw : TableWF cfg full) (hF : FullWF cfg.order full) (hcc : CtxComplete cfg full)
    (hk : cfg.keepSpecials = true) (hfix : cfg.flushAdjusted = true)
    (hpv : pv = false → ∀ w, cfg.excl w = false) :
    estimateFrom cfg pv fallback full = Spec.estimateFrom cfg fallback full := by
  have h2 := hw.order2
  rw [estimateFrom_unfold, spec_estimateFrom_unfold, adjust_streams cfg full h2 hF hk,
    adjust_stats cfg full h2 hF hk hfix]
  cases hd : discounts fallback ((specRecords cfg full).map Spec.stats) with
  | error e => rfl
  | ok discs =>
    have hlen : discs.length = cfg.order := by
      rw [discounts_length hd, List.length_map, specRecords_length h2]
    have h34 := stage34_eq hw hcc discs hlen pv hpv
    simp only
    have hu : (specCtx cfg full discs).uniform
        = 1 / (((((specRecords cfg full).map Spec.stats).map (·.countPruned)).headD 0 - 1 : Nat) : Rat) := rfl
    rw [hu] at h34
    rw [h34]
    rfl

/-! ## E. Every corpus -/

/-- **C05, headline**: for every non-empty corpus without special symbols in the text (word ids
≥ 3), every order ≥ 2, monotone pruning thresholds and the repaired flags, the streaming
pipeline of `lmplz` (counting, `AdjustCounts`, discounts, `InitialProbabilities`, `Interpolate`)
returns exactly what the set-based specification of interpolated modified Kneser-Ney returns —
the same model (statistics, discounts, header counts, uniform base, every probability and
back-off of every order) or the same error. -/
theorem estimate_eq_spec_corpus (cfg : Cfg) (pv : Bool) (fallback : Option Disc)
    (corpus : List (List Word)) (h2 : 2 ≤ cfg.order) (hne : corpus ≠ [])
    (hw : ∀ s ∈ corpus, ∀ w ∈ s, 3 ≤ w)
    (hthr : ∀ i, i < cfg.order - 1 → cfg.thr i ≤ cfg.thr (i + 1))
    (hk : cfg.keepSpecials = true) (hfix : cfg.flushAdjusted = true)
    (hpv : pv = false → ∀ w, cfg.excl w = false) :
    estimate cfg pv fallback corpus = Spec.estimate cfg pv fallback corpus := by
  unfold estimate Spec.estimate
  rw [if_neg (by omega), if_neg (by omega)]
  exact estimateFrom_eq_spec cfg pv fallback _
    (tableWF_countFull cfg corpus h2 hne hw hthr) (fullWF_countFull cfg.order corpus h2 hw)
    (ctx_complete_corpus cfg corpus h2 hne hw) hk hfix hpv

/-! ## F. The order-1 pipeline -/

section
variable {cfg : Cfg} {full : Table}

/-- the order-1 branch of `AdjustCounts` marks like the specification -/
theorem adjustUnigramOnly_eq (hw : TableWF1 cfg full) :
    adjustUnigramOnly cfg (([unk], 0) :: ([bos], 0) :: full) = ents1 cfg full := by
  rw [ents1_eq]
  unfold adjustUnigramOnly
  apply List.map_congr_left
  intro e he
  have hlen : e.1.length = 1 := by
    rcases List.mem_cons.mp he with rfl | he
    · rfl
    · rcases List.mem_cons.mp he with rfl | he
      · rfl
      · exact hw.len e he
  obtain ⟨g, c⟩ := e
  simp only at hlen
  match g, hlen with
  | [w], _ =>
    simp only [rec1]
    congr 1
    have : decide (w ≤ 2) = ([w] == [unk] || [w] == [bos] || [w] == [eos]) := by
      simp only [unk, bos, eos]
      match w with
      | 0 | 1 | 2 => simp
      | n + 3 => simp
    rw [this]

theorem adjust1 (hw : TableWF1 cfg full) :
    (adjust cfg (([unk], 0) :: ([bos], 0) :: full)).streams = specRecords cfg full ∧
    (adjust cfg (([unk], 0) :: ([bos], 0) :: full)).stats = (specRecords cfg full).map Spec.stats := by
  have h1 : cfg.order ≤ 1 := by rw [hw.order1]
  unfold adjust specRecords
  simp only [if_pos h1, adjustUnigramOnly_eq hw, countsOfCounts_eq_stats, List.map_cons, List.map_nil,
    and_self]

theorem specRecords_length1 (hw : TableWF1 cfg full) : (specRecords cfg full).length = cfg.order := by
  unfold specRecords
  rw [if_pos (by rw [hw.order1]), hw.order1]; rfl

theorem stage3_list1 (hw : TableWF1 cfg full) (discs : List (Disc × Bool))
    (hlen : discs.length = cfg.order) :
    ((specRecords cfg full).zip discs).zipIdx.map
        (fun x => initialOrder cfg.interpUni (x.2 + 1) x.1.2.1 x.1.1)
      = (List.range' 1 cfg.order).map (stage3Of (specCtx cfg full discs)) := by
  have hl := specRecords_length1 hw
  rw [zipIdx_map_range (fun i (d : Disc × Bool) es => initialOrder cfg.interpUni (i + 1) d.1 es)
    [] (⟨0, 0, 0⟩, false) _ _ 0 (by rw [hl, hlen]), hl, List.range'_eq_map_range, List.map_map]
  apply List.map_congr_left
  intro j _
  simp only [Function.comp, stage3Of, specCtx, Spec.Ctx.dAt, Spec.Ctx.esAt, Nat.zero_add,
    Nat.add_comm 1 j, Nat.add_sub_cancel]
  congr 1
  rw [List.getD_eq_getElem?_getD, List.getD_eq_getElem?_getD, List.getElem?_map]
  cases discs[j]? <;> rfl

theorem specOrders_eq1 (hw : TableWF1 cfg full) (discs : List (Disc × Bool)) :
    (List.range' 1 cfg.order).map (specOrder (specCtx cfg full discs))
      = ordersOf (specCtx cfg full discs) := by
  have hl := specRecords_length1 hw
  unfold ordersOf
  conv => rhs; rw [← range_map_getD (specCtx cfg full discs).es []]
  rw [List.map_map, List.range'_eq_map_range, List.map_map]
  have : (specCtx cfg full discs).es.length = cfg.order := hl
  rw [this]
  apply List.map_congr_left
  intro j _
  simp only [Function.comp, specOrder, Spec.Ctx.esAt, Nat.add_sub_cancel_left]

theorem orderOK_table1 (hw : TableWF1 cfg full) (discs : List (Disc × Bool)) (pruned : Nat → Bool)
    (n : Nat) (hn0 : 1 ≤ n) (hn : n ≤ cfg.order) :
    OrderOK' (specCtx cfg full discs) pruned n := by
  have hT := tableOK1 hw discs
  have hn1 : n = 1 := by have := hw.order1; omega
  subst hn1
  refine ⟨spec_len1 hw discs 1 (Nat.le_refl 1), hT.nodup 1, ?_, ?_, ?_⟩
  · intro _ e he hk _ _
    by_cases hc : e.cutoff > 0
    · unfold Emit.cutoff at hc
      cases hm : e.marked with
      | false => rfl
      | true => simp [hm] at hc
    · have : (e.gram.length == 1 && e.gram.all isSpecial) = true := by
        simpa [keptBy, hc] using hk
      exact hT.specialsUnmarked e he (by simp only [Bool.and_eq_true] at this; exact this.2)
  · unfold lowerOf; rw [if_pos rfl]; trivial
  · unfold nextOf
    have : ¬ 1 < (specCtx cfg full discs).cfg.order := by
      show ¬ 1 < cfg.order
      rw [hw.order1]; omega
    rw [if_neg this]; trivial

end

/-- `estimateFrom` = `Spec.estimateFrom` for the unigram table (`Writer` puts `<unk>`, `<s>` in
front of the counted unigrams) -/
theorem estimateFrom1_eq_spec (cfg : Cfg) (pv : Bool) (fallback : Option Disc) (full : Table)
    (hw : TableWF1 cfg full) :
    estimateFrom cfg pv fallback (([unk], 0) :: ([bos], 0) :: full)
      = Spec.estimateFrom cfg fallback full := by
  obtain ⟨hs, hst⟩ := adjust1 hw
  rw [estimateFrom_unfold, spec_estimateFrom_unfold, hs, hst]
  cases hd : discounts fallback ((specRecords cfg full).map Spec.stats) with
  | error e => rfl
  | ok discs =>
    have hlen : discs.length = cfg.order := by
      rw [discounts_length hd, List.length_map, specRecords_length1 hw]
    have h34 : interpAll (fun n => pv || decide (cfg.thr n > 0)) (specCtx cfg full discs).uniform 1
        (((specRecords cfg full).zip discs).zipIdx.map
          (fun x => initialOrder cfg.interpUni (x.2 + 1) x.1.2.1 x.1.1)) none
        = .ok (ordersOf (specCtx cfg full discs)) := by
      rw [stage3_list1 hw discs hlen, ← specOrders_eq1 hw discs]
      exact interp_eq' (specCtx cfg full discs) _ (orderOK_table1 hw discs _)
    simp only
    have hu : (specCtx cfg full discs).uniform
        = 1 / (((((specRecords cfg full).map Spec.stats).map (·.countPruned)).headD 0 - 1 : Nat) : Rat) := rfl
    rw [hu] at h34
    rw [h34]
    rfl

/-- **C05 for order 1**: every non-empty corpus without special symbols -/
theorem estimate_eq_spec_corpus1 (cfg : Cfg) (pv : Bool) (fallback : Option Disc)
    (corpus : List (List Word)) (h1 : cfg.order = 1) (hne : corpus ≠ [])
    (hw : ∀ s ∈ corpus, ∀ w ∈ s, 3 ≤ w) :
    estimate cfg pv fallback corpus = Spec.estimate cfg pv fallback corpus := by
  unfold estimate Spec.estimate countFull1
  rw [if_pos (by omega), if_pos (by omega)]
  exact estimateFrom1_eq_spec cfg pv fallback _ (tableWF1_countFull cfg corpus h1 hne hw)

/-- **C05, all orders ≥ 1** -/
theorem estimate_eq_spec (cfg : Cfg) (pv : Bool) (fallback : Option Disc)
    (corpus : List (List Word)) (h1 : 1 ≤ cfg.order) (hne : corpus ≠ [])
    (hw : ∀ s ∈ corpus, ∀ w ∈ s, 3 ≤ w)
    (hthr : ∀ i, i < cfg.order - 1 → cfg.thr i ≤ cfg.thr (i + 1))
    (hk : cfg.keepSpecials = true) (hfix : cfg.flushAdjusted = true)
    (hpv : pv = false → ∀ w, cfg.excl w = false) :
    estimate cfg pv fallback corpus = Spec.estimate cfg pv fallback corpus := by
  by_cases h : cfg.order = 1
  · exact estimate_eq_spec_corpus1 cfg pv fallback corpus h hne hw
  · exact estimate_eq_spec_corpus cfg pv fallback corpus (by omega) hne hw hthr hk hfix hpv

/-! ## Non-vacuity -/

def exCfg2 : Cfg := { order := 2, thr := fun _ => 0, excl := fun _ => false }

example : estimate exCfg2 false (some ⟨1/2, 1, 3/2⟩) [[3, 4], [3]]
    = Spec.estimate exCfg2 false (some ⟨1/2, 1, 3/2⟩) [[3, 4], [3]] :=
  estimate_eq_spec_corpus _ _ _ _ (by decide) (by decide) (by decide) (fun _ _ => Nat.le_refl _)
    rfl rfl (fun _ _ => rfl)

end KV.KN.Interp
