import Proofs.ProbingInv
/-!
`Double`, part 1: the new ideal bucket, the rolled-over prefix loop and the final loop that
re-inserts the buffered entries.
-/
namespace KV.Probing

/-- under the doubled bucket count a key's ideal bucket stays or moves up by exactly `N` -/
theorem ideal_double (h : Nat → Nat) (N k : Nat) (hN : 0 < N) :
    ideal h (2 * N) k = ideal h N k ∨ ideal h (2 * N) k = ideal h N k + N := by
  unfold ideal
  have h1 : h k % (2 * N) < 2 * N := Nat.mod_lt _ (by omega)
  have h2 : h k % N = h k % (2 * N) % N := (Nat.mod_mul_left_mod _ _ _).symm
  rw [h2]
  generalize h k % (2 * N) = a at *
  by_cases hlt : a < N
  · left; exact (Nat.mod_eq_of_lt hlt).symm
  · right
    rw [Nat.mod_eq_sub_mod (by omega), Nat.mod_eq_of_lt (by omega)]
    omega

/-! ### first loop: `rolled_over` -/

theorem rollPrefix_spec (s : Slots) : ∀ (n i : Nat), ∃ r, r ≤ n ∧
    (rollPrefix s n i).2.length = r ∧
    (∀ x, (rollPrefix s n i).1 x = if i ≤ x ∧ x < i + r then none else s x) ∧
    (∀ e, e ∈ (rollPrefix s n i).2 ↔ ∃ x, i ≤ x ∧ x < i + r ∧ s x = some e) ∧
    (r < n → s (i + r) = none) ∧
    (∀ m, i + n ≤ m → occ (rollPrefix s n i).1 m + r = occ s m) ∧
    ((∀ x y k v w, i ≤ x → x < i + n → i ≤ y → y < i + n → s x = some (k, v) → s y = some (k, w) → x = y) →
      (rollPrefix s n i).2.Pairwise (fun a b => a.1 ≠ b.1)) := by
  intro n
  induction n generalizing s with
  | zero =>
    intro i
    refine ⟨0, Nat.le_refl _, rfl, ?_, ?_, ?_, ?_, ?_⟩
    · intro x
      simp [rollPrefix]; intro h1 h2; omega
    · intro e; simp [rollPrefix]; intro x h1 h2; omega
    · intro h; omega
    · intro m _; simp [rollPrefix]
    · intro _; simp [rollPrefix]
  | succ n ih =>
    intro i
    cases hsi : s i with
    | none =>
      refine ⟨0, Nat.zero_le _, ?_, ?_, ?_, ?_, ?_, ?_⟩
      · simp [rollPrefix, hsi]
      · intro x
        simp [rollPrefix, hsi]; intro h1 h2; omega
      · intro e; simp [rollPrefix, hsi]; intro x h1 h2; omega
      · intro _; simpa using hsi
      · intro m _; simp [rollPrefix, hsi]
      · intro _; simp [rollPrefix, hsi]
    | some e0 =>
      obtain ⟨r, hr, hlen, hsl, hmem, hstop, hocc, hpw⟩ := ih (set s i none) (i + 1)
      have hroll : rollPrefix s (n + 1) i =
          ((rollPrefix (set s i none) n (i + 1)).1, e0 :: (rollPrefix (set s i none) n (i + 1)).2) := by
        simp [rollPrefix, hsi]
      rw [hroll]
      refine ⟨r + 1, by omega, by simp [hlen], ?_, ?_, ?_, ?_, ?_⟩
      · intro x
        show (rollPrefix (set s i none) n (i + 1)).1 x = _
        rw [hsl x]
        by_cases hx : x = i
        · subst hx
          have c1 : ¬ (x + 1 ≤ x ∧ x < x + 1 + r) := by omega
          have c2 : x ≤ x ∧ x < x + (r + 1) := by omega
          simp [c1, c2, set]
        · by_cases c : i + 1 ≤ x ∧ x < i + 1 + r
          · have c2 : i ≤ x ∧ x < i + (r + 1) := by omega
            simp [c, c2]
          · have c2 : ¬ (i ≤ x ∧ x < i + (r + 1)) := by omega
            simp [c, c2, set, hx]
      · intro e
        show e ∈ e0 :: (rollPrefix (set s i none) n (i + 1)).2 ↔ _
        rw [List.mem_cons, hmem e]
        constructor
        · rintro (rfl | ⟨x, h1, h2, h3⟩)
          · exact ⟨i, Nat.le_refl _, by omega, hsi⟩
          · have hx : x ≠ i := by omega
            simp [set, hx] at h3
            exact ⟨x, by omega, by omega, h3⟩
        · rintro ⟨x, h1, h2, h3⟩
          by_cases hx : x = i
          · subst hx; rw [hsi] at h3; left; exact (Option.some.inj h3).symm
          · right; exact ⟨x, by omega, by omega, by simp [set, hx]; exact h3⟩
      · intro hlt
        have := hstop (by omega)
        have hne : i + 1 + r ≠ i := by omega
        simp [set, hne] at this
        rw [show i + (r + 1) = i + 1 + r by omega]; exact this
      · intro m hm
        show occ (rollPrefix (set s i none) n (i + 1)).1 m + (r + 1) = occ s m
        have h1 := hocc m (by omega)
        have h2 := occ_set_none s i e0 m (by omega) hsi
        omega
      · intro hd
        show (e0 :: (rollPrefix (set s i none) n (i + 1)).2).Pairwise _
        rw [List.pairwise_cons]
        refine ⟨?_, hpw ?_⟩
        · intro b hb
          obtain ⟨x, h1, h2, h3⟩ := (hmem b).1 hb
          have hx : x ≠ i := by omega
          simp [set, hx] at h3
          intro heq
          obtain ⟨k0, v0⟩ := e0
          obtain ⟨kb, vb⟩ := b
          simp at heq
          subst heq
          exact hx (hd x i k0 vb v0 (by omega) (by omega) (by omega) (by omega) h3 hsi)
        · intro x y k v w hx1 hx2 hy1 hy2 h1 h2
          have hxi : x ≠ i := by omega
          have hyi : y ≠ i := by omega
          simp [set, hxi] at h1
          simp [set, hyi] at h2
          exact hd x y k v w (by omega) (by omega) (by omega) (by omega) h1 h2

/-! ### third loop: put the buffered entries back -/

theorem insertAll_spec (h : Nat → Nat) (N' : Nat) : ∀ (buf : List Entry) (s : Slots),
    WF h s N' → occ s N' + buf.length < N' →
    (∀ e, e ∈ buf → ∀ p w, p < N' → s p ≠ some (e.1, w)) →
    buf.Pairwise (fun a b => a.1 ≠ b.1) →
    ∃ s3, insertAll h N' buf s = some s3 ∧ WF h s3 N' ∧ occ s3 N' = occ s N' + buf.length ∧
      ∀ k v, Stored s3 N' k v ↔ Stored s N' k v ∨ (k, v) ∈ buf := by
  intro buf
  induction buf with
  | nil =>
    intro s wf _ _ _
    exact ⟨s, rfl, wf, by simp, by intro k v; simp⟩
  | cons e rest ih =>
    intro s wf hc hfresh hpw
    obtain ⟨k, v⟩ := e
    rw [List.pairwise_cons] at hpw
    obtain ⟨hk, hpw'⟩ := hpw
    simp only [List.length_cons] at hc
    obtain ⟨q, hq, hqN, hqs, _, wf', hocc⟩ :=
      fill_spec h s N' k v wf (by omega) (hfresh (k, v) (List.mem_cons_self ..))
    have hfresh' : ∀ e, e ∈ rest → ∀ p w, p < N' → set s q (some (k, v)) p ≠ some (e.1, w) := by
      intro e he p w hp
      by_cases hpq : p = q
      · subst hpq
        simp [set]
        intro hke
        exact absurd hke (hk e he)
      · simp [set, hpq]
        exact hfresh e (List.mem_cons_of_mem _ he) p w hp
    obtain ⟨s3, h3, wf3, hocc3, hst⟩ := ih (set s q (some (k, v))) wf' (by omega) hfresh' hpw'
    refine ⟨s3, by simp [insertAll, hq, h3], wf3, by simp only [List.length_cons]; omega, ?_⟩
    intro k' v'
    rw [hst k' v', Stored_fill s N' k v q hqN hqs k' v', List.mem_cons]
    constructor
    · rintro ((h1 | ⟨rfl, rfl⟩) | h2)
      · left; exact h1
      · right; left; rfl
      · right; right; exact h2
    · rintro (h1 | h2 | h2)
      · left; left; exact h1
      · left; right; simp at h2; exact h2
      · right; exact h2

end KV.Probing
