import Model.Score
/-! Refinement of searches: if two `Search` structures are related by a depth-indexed node relation under which
every lookup the generic algorithm performs returns the same result, then `FullScore` (and `GetState`) return the
same observable results.  `probing_refines` / `trie_refines` are instances. -/
namespace KV.Score
open KV.Arpa KV.Table KV.State

/-- `R d n₁ n₂`: the two nodes denote the same `d`-word (reversed) n-gram prefix -/
structure Sim {ν₁ ν₂ : Type} (S₁ : Search ν₁) (S₂ : Search ν₂) (R : Nat → ν₁ → ν₂ → Prop) : Prop where
  order : S₁.order = S₂.order
  uni : ∀ w, (S₁.lookupUnigram w).1 = (S₂.lookupUnigram w).1 ∧ R 1 (S₁.lookupUnigram w).2 (S₂.lookupUnigram w).2
  mid : ∀ om2 w n₁ n₂, om2 + 2 < S₁.order → R (om2 + 1) n₁ n₂ →
    (S₁.lookupMiddle om2 w n₁).1 = (S₂.lookupMiddle om2 w n₂).1 ∧
    ((S₁.lookupMiddle om2 w n₁).1 ≠ none → R (om2 + 2) (S₁.lookupMiddle om2 w n₁).2 (S₂.lookupMiddle om2 w n₂).2)
  long : ∀ w n₁ n₂, R (S₁.order - 1) n₁ n₂ → S₁.lookupLongest w n₁ = S₂.lookupLongest w n₂

/-- equality of everything observable in the loop state (the `extend_left` pointer is structure-specific) -/
def AccEq {ν₁ ν₂ : Type} (a₁ : Acc ν₁) (a₂ : Acc ν₂) : Prop :=
  a₁.ret.prob = a₂.ret.prob ∧ a₁.ret.rest = a₂.ret.rest ∧ a₁.ret.ngramLength = a₂.ret.ngramLength ∧
  a₁.ret.independentLeft = a₂.ret.independentLeft ∧ a₁.backoffOut = a₂.backoffOut ∧ a₁.nextUse = a₂.nextUse

theorem resume_sim {ν₁ ν₂ : Type} (S₁ : Search ν₁) (S₂ : Search ν₂) (R : Nat → ν₁ → ν₂ → Prop) (sim : Sim S₁ S₂ R)
    (hN : 2 ≤ S₁.order) :
    ∀ (hist : List Word) (om2 : Nat) (n₁ : ν₁) (n₂ : ν₂) (a₁ : Acc ν₁) (a₂ : Acc ν₂),
      om2 + 2 ≤ S₁.order → R (om2 + 1) n₁ n₂ → AccEq a₁ a₂ →
      AccEq (resumeScore S₁ hist om2 n₁ a₁) (resumeScore S₂ hist om2 n₂ a₂) := by
  intro hist
  induction hist with
  | nil => intro om2 n₁ n₂ a₁ a₂ _ _ h; simpa [resumeScore] using h
  | cons x rest ih =>
    intro om2 n₁ n₂ a₁ a₂ hom hR h
    obtain ⟨hp, hr, hl, hi, hb, hn⟩ := h
    unfold resumeScore
    rw [← hi]
    by_cases hil : a₁.ret.independentLeft = true
    · simp only [hil, if_true]; exact ⟨hp, hr, hl, hi, hb, hn⟩
    · simp only [hil, Bool.false_eq_true, if_false]
      rw [← sim.order]
      by_cases hlong : om2 = S₁.order - 2
      · have hb' : (om2 == S₁.order - 2) = true := by simpa using hlong
        simp only [hb', if_true]
        have hd : om2 + 1 = S₁.order - 1 := by omega
        rw [hd] at hR
        rw [← sim.long x n₁ n₂ hR]
        cases S₁.lookupLongest x n₁ with
        | none => exact ⟨hp, hr, hl, rfl, hb, hn⟩
        | some p => exact ⟨rfl, rfl, rfl, rfl, hb, hn⟩
      · have hb' : (om2 == S₁.order - 2) = false := by simpa using hlong
        simp only [hb', Bool.false_eq_true, if_false]
        obtain ⟨hm, hRn⟩ := sim.mid om2 x n₁ n₂ (by omega) hR
        rcases h1 : S₁.lookupMiddle om2 x n₁ with ⟨r₁, m₁⟩
        rcases h2 : S₂.lookupMiddle om2 x n₂ with ⟨r₂, m₂⟩
        rw [h1, h2] at hm hRn
        simp only at hm hRn
        subst hm
        cases r₁ with
        | none => exact ⟨hp, hr, hl, rfl, hb, hn⟩
        | some m =>
          simp only
          apply ih (om2 + 1) m₁ m₂ _ _ (by omega) (hRn (by simp))
          exact ⟨rfl, rfl, rfl, rfl, by rw [hb], by rw [hn]⟩

/-- **Refinement ⇒ same answers**: `FullScore` over two similar searches returns the same probability, rest, matched
length, left-independence flag and the same out-state, for every in-state and word. -/
theorem fullScore_sim {ν₁ ν₂ : Type} (S₁ : Search ν₁) (S₂ : Search ν₂) (R : Nat → ν₁ → ν₂ → Prop) (sim : Sim S₁ S₂ R)
    (hN : 2 ≤ S₁.order) (s : State) (w : Word) :
    (fullScore S₁ s w).1.prob = (fullScore S₂ s w).1.prob ∧
    (fullScore S₁ s w).1.ngramLength = (fullScore S₂ s w).1.ngramLength ∧
    (fullScore S₁ s w).1.independentLeft = (fullScore S₂ s w).1.independentLeft ∧
    (fullScore S₁ s w).1.rest = (fullScore S₂ s w).1.rest ∧
    (fullScore S₁ s w).2 = (fullScore S₂ s w).2 := by
  obtain ⟨hu, hR⟩ := sim.uni w
  rcases h1 : S₁.lookupUnigram w with ⟨u₁, n₁⟩
  rcases h2 : S₂.lookupUnigram w with ⟨u₂, n₂⟩
  rw [h1, h2] at hu hR
  simp only at hu hR
  subst hu
  have := resume_sim S₁ S₂ R sim hN (s.words.take s.length) 0 n₁ n₂
    { ret := { prob := u₁.prob, rest := u₁.rest, ngramLength := 1, independentLeft := u₁.independentLeft, extendLeft := n₁ },
      backoffOut := [u₁.backoff], nextUse := if u₁.extendsRight then 1 else 0 }
    { ret := { prob := u₁.prob, rest := u₁.rest, ngramLength := 1, independentLeft := u₁.independentLeft, extendLeft := n₂ },
      backoffOut := [u₁.backoff], nextUse := if u₁.extendsRight then 1 else 0 }
    (by omega) hR ⟨rfl, rfl, rfl, rfl, rfl, rfl⟩
  obtain ⟨hp, hr, hl, hi, hb, hn⟩ := this
  simp only [fullScore, scoreExceptBackoff, h1, h2]
  refine ⟨by rw [hp, hl], hl, hi, hr, ?_⟩
  rw [hb, hn]

end KV.Score
