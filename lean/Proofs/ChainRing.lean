import Model.Chain
/-! The ring invariant of the Chain model (faithful `Link`): stage input/output relation, queue
conservation, poison bookkeeping, user-thread bookkeeping; preserved by every step.  Core Lean only. -/
namespace KV.Chain

/-! ### finite sums of a function -/
def sumTo (f : Nat → Nat) : Nat → Nat
  | 0 => 0
  | k + 1 => sumTo f k + f k

theorem sumTo_congr {f g : Nat → Nat} {k : Nat} (h : ∀ i, i < k → f i = g i) : sumTo f k = sumTo g k := by
  induction k with
  | zero => rfl
  | succ k ih =>
    simp only [sumTo]
    rw [ih (fun i hi => h i (by omega)), h k (by omega)]

theorem sumTo_add (f g : Nat → Nat) (k : Nat) : sumTo (fun i => f i + g i) k = sumTo f k + sumTo g k := by
  induction k with
  | zero => rfl
  | succ k ih => simp only [sumTo, ih]; omega

theorem sumTo_shift (f : Nat → Nat) (k : Nat) : sumTo f (k + 1) = f 0 + sumTo (fun i => f (i + 1)) k := by
  induction k with
  | zero => simp [sumTo]
  | succ k ih => rw [sumTo, ih]; simp only [sumTo]; omega

theorem le_sumTo (f : Nat → Nat) {i k : Nat} (h : i < k) : f i ≤ sumTo f k := by
  induction k with
  | zero => omega
  | succ k ih =>
    simp only [sumTo]
    by_cases e : i = k
    · subst e; omega
    · have := ih (by omega); omega

theorem le_sumTo_two (f : Nat → Nat) {i j k : Nat} (hi : i < k) (hj : j < k) (hne : i ≠ j) :
    f i + f j ≤ sumTo f k := by
  induction k with
  | zero => omega
  | succ k ih =>
    simp only [sumTo]
    by_cases e : i = k
    · subst e; have := le_sumTo f (i := j) (k := i) (by omega); omega
    · by_cases e2 : j = k
      · subst e2; have := le_sumTo f (i := i) (k := j) (by omega); omega
      · have := ih (by omega) (by omega); omega

theorem exists_pos_of_sumTo_pos {f : Nat → Nat} {k : Nat} (h : 0 < sumTo f k) : ∃ i, i < k ∧ 0 < f i := by
  induction k with
  | zero => simp [sumTo] at h
  | succ k ih =>
    simp only [sumTo] at h
    by_cases e : 0 < f k
    · exact ⟨k, by omega, e⟩
    · obtain ⟨i, hi, hp⟩ := ih (by omega)
      exact ⟨i, by omega, hp⟩

theorem sumTo_upd (f : Nat → Nat) {i k : Nat} (v : Nat) (h : i < k) :
    sumTo (upd f i v) k + f i = sumTo f k + v := by
  induction k with
  | zero => omega
  | succ k ih =>
    simp only [sumTo]
    by_cases e : i = k
    · subst e
      have : sumTo (upd f i v) i = sumTo f i := sumTo_congr (fun j hj => by simp [upd]; omega)
      simp [upd, this]; omega
    · have := ih (by omega)
      have e2 : upd f i v k = f k := by simp [upd]; omega
      rw [e2]; omega

/-! ### the deterministic stage function -/

/-- the stage functions of the pass-through stages: any deterministic (possibly stateful) stream transducers,
given as functions of the history of received items and the current content -/
class StageFn where
  tr : Nat → List Item → Nat → Nat

variable [StageFn]

def bodyP (m : Nat) (data : List Nat) (i : Nat) (hist : List Item) (v : Nat) : Option Nat :=
  if i = 0 then data[hist.length]? else if i = m then some v else some (StageFn.tr i hist v)

theorem body_eq (c : Chain) (htr : c.tr = StageFn.tr) (i : Nat) (hist : List Item) (v : Nat) :
    c.body i hist v = bodyP c.m c.data i hist v := by
  unfold Chain.body bodyP; rw [htr]

/-- what stage `i` outputs for an input received after the history `hist` -/
def outOf (m : Nat) (data : List Nat) (i : Nat) (hist : List Item) : Item → Item
  | .val v => match bodyP m data i hist v with
    | some v' => .val v'
    | none => .poison
  | .poison => .poison

/-- the output sequence for the inputs `l` received after the history `pre` -/
def outFrom (m : Nat) (data : List Nat) (i : Nat) : List Item → List Item → List Item
  | _, [] => []
  | pre, x :: xs => outOf m data i pre x :: outFrom m data i (pre ++ [x]) xs

theorem outFrom_append (m : Nat) (data : List Nat) (i : Nat) (pre l : List Item) (x : Item) :
    outFrom m data i pre (l ++ [x]) = outFrom m data i pre l ++ [outOf m data i (pre ++ l) x] := by
  induction l generalizing pre with
  | nil => simp [outFrom]
  | cons a l ih =>
    simp only [List.cons_append, outFrom, ih]
    simp

theorem outFrom_length (m : Nat) (data : List Nat) (i : Nat) (pre l : List Item) :
    (outFrom m data i pre l).length = l.length := by
  induction l generalizing pre with
  | nil => rfl
  | cons a l ih => simp [outFrom, ih]

/-- items waiting in the hand of a stage: what its next `Produce` will push -/
def pend (s : Stage) : List Item :=
  match s.pc with
  | .incProduce => [s.cur]
  | .incPoison => [s.cur]
  | .dtor => [s.cur]
  | .poisonCall => [.poison]
  | _ => []

def consuming (s : Stage) : Prop := s.pc = .init ∨ s.pc = .incConsume
def producing (s : Stage) : Prop :=
  s.pc = .incProduce ∨ s.pc = .incPoison ∨ s.pc = .poisonCall ∨ s.pc = .dtor

structure StageOK (m : Nat) (data : List Nat) (i : Nat) (s : Stage) : Prop where
  r : s.out ++ pend s = outFrom m data i [] s.inp
  kProd : s.pc = .incProduce → ∃ v, s.cur = .val v
  kPoi : s.pc = .incPoison → s.cur = .poison ∧ s.poisoned = true
  kDtor : s.pc = .dtor → s.cur = .poison
  fin : s.pc = .finished ↔ Item.poison ∈ s.out
  last : Item.poison ∉ s.out.dropLast
  nop : s.pc ≠ .incPoison → s.pc ≠ .dtor → s.pc ≠ .finished → Item.poison ∉ s.inp
  startE : s.pc = .start → s.inp = []
  len : s.inp.length ≤ data.length + 1
  src : i = 0 → Item.poison ∉ s.inp

/-- the state of a stage after it consumed `x` (as computed by `Chain.stageStep`) -/
def afterConsume (m : Nat) (data : List Nat) (i : Nat) (s : Stage) (x : Item) : Stage :=
  match s.pc with
  | .init =>
    let s1 : Stage := { s with poisoned := false, cur := x, inp := s.inp ++ [x] }
    match x with
    | .val v => match bodyP m data i s.inp v with
      | some v' => { s1 with cur := .val v', pc := .incProduce }
      | none => { s1 with pc := .poisonCall }
    | .poison => exitLoop s1
  | _ =>
    let s1 : Stage := { s with cur := x, inp := s.inp ++ [x] }
    match x with
    | .val v => match bodyP m data i s.inp v with
      | some v' => { s1 with cur := .val v', pc := .incProduce }
      | none => { s1 with pc := .poisonCall }
    | .poison => { s1 with poisoned := true, pc := .incPoison }

theorem afterConsume_ok {m : Nat} {data : List Nat} {i : Nat} {s : Stage} (h : StageOK m data i s)
    (hc : consuming s) (x : Item) (hlen : s.inp.length < data.length + 1) (hsrc : i = 0 → x ≠ .poison) :
    StageOK m data i (afterConsume m data i s x)
    ∧ (afterConsume m data i s x).inp = s.inp ++ [x]
    ∧ (afterConsume m data i s x).out = s.out
    ∧ (pend (afterConsume m data i s x)).length = 1
    ∧ (afterConsume m data i s x).pc ≠ .start ∧ (afterConsume m data i s x).pc ≠ .finished := by
  have hpend : pend s = [] := by rcases hc with e | e <;> simp [pend, e]
  have hr := h.r
  rw [hpend, List.append_nil] at hr
  have hnf : ¬ Item.poison ∈ s.out := by
    intro hp; have := h.fin.mpr hp; rcases hc with e | e <;> simp [e] at this
  have hnop : Item.poison ∉ s.inp := by
    apply h.nop <;> rcases hc with e | e <;> simp [e]
  have happ := outFrom_append m data i [] s.inp x
  rw [List.nil_append, ← hr] at happ
  rcases hc with e | e
  · -- init
    cases x with
    | val v =>
      cases hb : bodyP m data i s.inp v with
      | some v' =>
        simp only [afterConsume, e, hb]
        refine ⟨⟨by simpa [pend, outOf, hb] using happ.symm, by simp, by simp, by simp, by simpa using hnf,
                 h.last, by simpa using hnop, by simp, by simp; omega, by simpa using fun _ => hnop⟩,
                by simp, by simp, by simp [pend], by simp, by simp⟩
      | none =>
        simp only [afterConsume, e, hb]
        refine ⟨⟨by simpa [pend, outOf, hb] using happ.symm, by simp, by simp, by simp, by simpa using hnf,
                 h.last, by simpa using hnop, by simp, by simp; omega, by simpa using fun _ => hnop⟩,
                by simp, by simp, by simp [pend], by simp, by simp⟩
    | poison =>
      simp only [afterConsume, e, exitLoop]
      refine ⟨⟨by simpa [pend, outOf] using happ.symm, by simp, by simp, by simp, by simpa using hnf,
               h.last, by simp, by simp, by simp; omega, fun hi => absurd rfl (hsrc hi)⟩,
              by simp, by simp, by simp [pend], by simp, by simp⟩
  · cases x with
    | val v =>
      cases hb : bodyP m data i s.inp v with
      | some v' =>
        simp only [afterConsume, e, hb]
        refine ⟨⟨by simpa [pend, outOf, hb] using happ.symm, by simp, by simp, by simp, by simpa using hnf,
                 h.last, by simpa using hnop, by simp, by simp; omega, by simpa using fun _ => hnop⟩,
                by simp, by simp, by simp [pend], by simp, by simp⟩
      | none =>
        simp only [afterConsume, e, hb]
        refine ⟨⟨by simpa [pend, outOf, hb] using happ.symm, by simp, by simp, by simp, by simpa using hnf,
                 h.last, by simpa using hnop, by simp, by simp; omega, by simpa using fun _ => hnop⟩,
                by simp, by simp, by simp [pend], by simp, by simp⟩
    | poison =>
      simp only [afterConsume, e]
      refine ⟨⟨by simpa [pend, outOf] using happ.symm, by simp, by simp, by simp, by simpa using hnf,
               h.last, by simp, by simp, by simp; omega, fun hi => absurd rfl (hsrc hi)⟩,
              by simp, by simp, by simp [pend], by simp, by simp⟩

/-- the state of a stage after its pending `Produce` (as computed by `Chain.stageStep`) -/
def afterProduce (s : Stage) : Stage :=
  match s.pc with
  | .incProduce => { s with pc := .incConsume, out := s.out ++ [s.cur] }
  | .incPoison => exitLoop { s with out := s.out ++ [s.cur] }
  | .poisonCall => exitLoop { s with cur := .poison, poisoned := true, out := s.out ++ [.poison] }
  | .dtor => { s with pc := .finished, out := s.out ++ [s.cur] }
  | _ => s

theorem afterProduce_ok {m : Nat} {data : List Nat} {i : Nat} {s : Stage} (h : StageOK m data i s)
    (hp : producing s) :
    StageOK m data i (afterProduce s)
    ∧ (afterProduce s).inp = s.inp
    ∧ (afterProduce s).out = s.out ++ pend s
    ∧ pend (afterProduce s) = []
    ∧ (pend s).length = 1
    ∧ (afterProduce s).pc ≠ .start := by
  have hnf : ¬ Item.poison ∈ s.out := by
    intro hq; have := h.fin.mpr hq
    rcases hp with e | e | e | e <;> simp [e] at this
  have hr := h.r
  have hdl : ∀ x : Item, Item.poison ∉ (s.out ++ [x]).dropLast := by
    intro x; simpa using hnf
  rcases hp with e | e | e | e
  · obtain ⟨v, hv⟩ := h.kProd e
    have hnop := h.nop (by simp [e]) (by simp [e]) (by simp [e])
    simp only [afterProduce, e]
    simp only [pend, e] at hr
    refine ⟨⟨by simpa [pend] using hr, by simp, by simp, by simp, by simp [hv, hnf], hdl _,
             fun _ _ _ => hnop, by simp, h.len, h.src⟩, by simp, by simp [pend, e], by simp [pend], by simp [pend, e], by simp⟩
  · obtain ⟨hc, hpo⟩ := h.kPoi e
    simp only [afterProduce, e, exitLoop, hc, hpo, if_true]
    simp only [pend, e, hc] at hr
    refine ⟨⟨by simpa [pend] using hr, by simp, by simp, by simp, by simp, hdl _,
             by simp, by simp, h.len, h.src⟩, by simp, by simp [pend, e, hc], by simp [pend], by simp [pend, e], by simp⟩
  · have hnop := h.nop (by simp [e]) (by simp [e]) (by simp [e])
    simp only [afterProduce, e, exitLoop, if_true]
    simp only [pend, e] at hr
    refine ⟨⟨by simpa [pend] using hr, by simp, by simp, by simp, by simp, hdl _,
             by simp, by simp, h.len, h.src⟩, by simp, by simp [pend, e], by simp [pend], by simp [pend, e], by simp⟩
  · have hc := h.kDtor e
    simp only [afterProduce, e]
    simp only [pend, e, hc] at hr
    refine ⟨⟨by simpa [pend, hc] using hr, by simp, by simp, by simp, by simp [hc], hdl _,
             by simp, by simp, h.len, h.src⟩, by simp, by simp [pend, e], by simp [pend], by simp [pend, e], by simp⟩

/-! ### the global invariant -/

def fillRem (c : Chain) : Nat := match c.main with | .fill k => k | _ => 0

def MainOK (b m : Nat) (c : Chain) : Prop :=
  match c.main with
  | .fill k => k ≤ b ∧ (∀ i, i ≤ m → (c.st i).pc = .start) ∧ c.drained = []
  | .join i => 1 ≤ i ∧ i ≤ m + 1 ∧ (∀ j, j + 1 < i → (c.st j).pc = .finished) ∧ c.drained = []
  | .drain k => (∀ j, j ≤ m → (c.st j).pc = .finished) ∧ k = c.drained.length ∧ Item.poison ∉ c.drained
  | .finished => (∀ j, j ≤ m → (c.st j).pc = .finished) ∧ Item.poison ∈ c.drained
  | .aborted => False

structure RInv (b m : Nat) (data : List Nat) (c : Chain) : Prop where
  hb : c.b = b
  hm : c.m = m
  hd : c.data = data
  htr : c.tr = StageFn.tr
  bpos : 0 < b
  mpos : 1 ≤ m
  sok : ∀ i, i ≤ m → StageOK m data i (c.st i)
  /-- stage `i+1` has received exactly a prefix of what stage `i` produced; the rest is in queue `i+1` -/
  q : ∀ i, i < m → (c.st i).out = (c.st (i + 1)).inp ++ c.q (i + 1)
  /-- queue 0: the blocks of `Chain::Start`, then the recycler's output; read by the source, then by `Wait` -/
  q0 : List.replicate (b - fillRem c) (Item.val 0) ++ (c.st m).out = (c.st 0).inp ++ c.drained ++ c.q 0
  mainok : MainOK b m c

variable {b m : Nat} {data : List Nat} {c : Chain}

theorem RInv.unfinished (h : RInv b m data c) {i : Nat} (hi : i ≤ m) (hnf : (c.st i).pc ≠ .finished) :
    c.drained = [] ∧ (∀ k, c.main = .fill k → (c.st i).pc = .start) ∧ c.main ≠ .finished ∧ c.main ≠ .aborted
    ∧ (∀ k, c.main ≠ .drain k) := by
  have hmain := h.mainok
  unfold MainOK at hmain
  cases hm : c.main with
  | fill k =>
    rw [hm] at hmain
    exact ⟨hmain.2.2, fun _ _ => hmain.2.1 i hi, fun e => (by cases e), fun e => (by cases e), fun _ e => (by cases e)⟩
  | join j =>
    rw [hm] at hmain
    exact ⟨hmain.2.2.2, fun _ e => (by cases e), fun e => (by cases e), fun e => (by cases e), fun _ e => (by cases e)⟩
  | drain k => rw [hm] at hmain; exact absurd (hmain.1 i hi) hnf
  | finished => rw [hm] at hmain; exact absurd (hmain.1 i hi) hnf
  | aborted => rw [hm] at hmain; exact hmain.elim

theorem outOf_ne_poison {i : Nat} (hi : i ≠ 0) (hist : List Item) (v : Nat) :
    outOf m data i hist (.val v) ≠ .poison := by
  unfold outOf bodyP
  simp only [hi, if_false]
  by_cases e : i = m <;> simp [e]

theorem outFrom_poison_mem {i : Nat} (hi : i ≠ 0) {pre : List Item} {l : List Item}
    (h : Item.poison ∈ outFrom m data i pre l) : Item.poison ∈ l := by
  induction l generalizing pre with
  | nil => simp [outFrom] at h
  | cons a l ih =>
    simp only [outFrom, List.mem_cons] at h
    rcases h with h | h
    · cases a with
      | val v => exact absurd h.symm (outOf_ne_poison hi pre v)
      | poison => simp
    · exact List.mem_cons_of_mem _ (ih h)

/-- a finished stage has all its predecessors finished (poison travels in ring order) -/
theorem RInv.fin_pred (h : RInv b m data c) {j : Nat} (hj : j + 1 ≤ m)
    (hf : (c.st (j + 1)).pc = .finished) : (c.st j).pc = .finished := by
  have ok := h.sok (j + 1) hj
  have hp : Item.poison ∈ (c.st (j + 1)).out := ok.fin.mp hf
  have : Item.poison ∈ outFrom m data (j + 1) [] (c.st (j + 1)).inp := by
    rw [← ok.r]; exact List.mem_append_left _ hp
  have hin := outFrom_poison_mem (by omega) this
  have hq := h.q j (by omega)
  have : Item.poison ∈ (c.st j).out := by rw [hq]; exact List.mem_append_left _ hin
  exact (h.sok j (by omega)).fin.mpr this

theorem RInv.fin_le (h : RInv b m data c) {j : Nat} (hj : j ≤ m) (hf : (c.st j).pc = .finished) :
    ∀ i, i ≤ j → (c.st i).pc = .finished := by
  induction j with
  | zero => intro i hi; have : i = 0 := by omega
            subst this; exact hf
  | succ j ih =>
    intro i hi
    by_cases e : i = j + 1
    · subst e; exact hf
    · exact ih (by omega) (h.fin_pred hj hf) i (by omega)

/-- conservation of blocks: queues + hands + drained + not yet put into queue 0 = `b` -/
theorem RInv.conservation (h : RInv b m data c) :
    sumTo (fun j => (c.q j).length) (m + 1) + sumTo (fun i => (pend (c.st i)).length) (m + 1)
      + c.drained.length + fillRem c = b := by
  have hfr : fillRem c ≤ b := by
    have hmain := h.mainok
    unfold MainOK at hmain
    unfold fillRem
    cases hm : c.main <;> simp only [hm] at hmain ⊢ <;> omega
  -- per stage: |out| + |pend| = |inp|
  have e1 : sumTo (fun i => (c.st i).out.length) (m + 1) + sumTo (fun i => (pend (c.st i)).length) (m + 1)
      = sumTo (fun i => (c.st i).inp.length) (m + 1) := by
    rw [← sumTo_add]
    apply sumTo_congr
    intro i hi
    have := congrArg List.length (h.sok i (by omega)).r
    rw [List.length_append, outFrom_length] at this
    exact this
  -- per queue i+1
  have e2 : sumTo (fun i => (c.st i).out.length) m
      = sumTo (fun i => (c.st (i + 1)).inp.length) m + sumTo (fun i => (c.q (i + 1)).length) m := by
    rw [← sumTo_add]
    apply sumTo_congr
    intro i hi
    have := congrArg List.length (h.q i hi)
    rw [List.length_append] at this
    exact this
  have e3 := congrArg List.length h.q0
  simp only [List.length_append, List.length_replicate] at e3
  have s1 : sumTo (fun i => (c.st i).inp.length) (m + 1)
      = (c.st 0).inp.length + sumTo (fun i => (c.st (i + 1)).inp.length) m := sumTo_shift _ m
  have s2 : sumTo (fun j => (c.q j).length) (m + 1)
      = (c.q 0).length + sumTo (fun i => (c.q (i + 1)).length) m := sumTo_shift _ m
  have s3 : sumTo (fun i => (c.st i).out.length) (m + 1)
      = sumTo (fun i => (c.st i).out.length) m + (c.st m).out.length := rfl
  omega

theorem MainOK.upd_stage (h : MainOK b m c) {i : Nat} (hi : i ≤ m) (hnf : (c.st i).pc ≠ .finished)
    (hns : ∀ k, c.main ≠ .fill k) (q' : Nat → List Item) (s' : Stage) :
    MainOK b m { c with q := q', st := upd c.st i s' } := by
  unfold MainOK at h ⊢
  cases hm : c.main with
  | fill k => exact absurd hm (hns k)
  | join j =>
    simp only [hm] at h ⊢
    refine ⟨h.1, h.2.1, ?_, h.2.2.2⟩
    intro j' hj'
    by_cases e : j' = i
    · subst e; exact absurd (h.2.2.1 j' hj') hnf
    · simp only [upd, e, if_false]; exact h.2.2.1 j' hj'
  | drain k => simp only [hm] at h; exact absurd (h.1 i hi) hnf
  | finished => simp only [hm] at h; exact absurd (h.1 i hi) hnf
  | aborted => simp only [hm] at h

theorem outFrom_append' (m : Nat) (data : List Nat) (i : Nat) (pre l1 l2 : List Item) :
    outFrom m data i pre (l1 ++ l2) = outFrom m data i pre l1 ++ outFrom m data i (pre ++ l1) l2 := by
  induction l1 generalizing pre with
  | nil => simp [outFrom]
  | cons a l ih =>
    simp only [List.cons_append, outFrom, ih]
    simp

/-- the source turns its `(n+1)`-th block into poison, whatever it contains -/
theorem outFrom_src_poison {l : List Item} (hl : data.length < l.length) :
    Item.poison ∈ outFrom m data 0 [] l := by
  have hsplit : l = l.take data.length ++ l.drop data.length := (List.take_append_drop _ _).symm
  have hne : l.drop data.length ≠ [] := by
    intro e; have := congrArg List.length e; simp at this; omega
  rw [hsplit, outFrom_append']
  apply List.mem_append_right
  cases hd : l.drop data.length with
  | nil => exact absurd hd hne
  | cons x xs =>
    have hk : ([] ++ l.take data.length).length = data.length := by simp; omega
    simp only [outFrom, List.mem_cons]
    left
    cases x with
    | val v => simp [outOf, bodyP, Nat.min_eq_left (Nat.le_of_lt hl)]
    | poison => rfl

theorem RInv.stage_consume (h : RInv b m data c) {i : Nat} (hi : i ≤ m) (hc : consuming (c.st i))
    {x : Item} {rest : List Item} (hq : c.q i = x :: rest) :
    RInv b m data { c with q := upd c.q i rest, st := upd c.st i (afterConsume m data i (c.st i) x) } := by
  have ok := h.sok i hi
  have hnf : (c.st i).pc ≠ .finished := by rcases hc with e | e <;> simp [e]
  have hnstart : (c.st i).pc ≠ .start := by rcases hc with e | e <;> simp [e]
  obtain ⟨hdr, hfill, _, _, _⟩ := h.unfinished hi hnf
  have hns : ∀ k, c.main ≠ .fill k := fun k e => hnstart (hfill k e)
  have hfr : fillRem c = 0 := by
    unfold fillRem; cases hm : c.main <;> simp
    exact absurd hm (hns _)
  have hpend : pend (c.st i) = [] := by rcases hc with e | e <;> simp [pend, e]
  have hnfout : Item.poison ∉ (c.st i).out := fun hp => hnf (ok.fin.mpr hp)
  -- the source never receives poison
  have hsrc : i = 0 → x ≠ .poison := by
    intro hi0 hx
    subst hi0; subst hx
    have hq0 := h.q0
    have : Item.poison ∈ (c.st 0).inp ++ c.drained ++ c.q 0 := by
      rw [hq]; simp
    rw [← hq0] at this
    rcases List.mem_append.mp this with hp | hp
    · simp at hp
    · have hfm := (h.sok m (Nat.le_refl _)).fin.mpr hp
      exact hnf (h.fin_le (Nat.le_refl _) hfm 0 (by omega))
  -- it has not yet consumed its last item
  have hlen : (c.st i).inp.length < data.length + 1 := by
    by_cases hi0 : i = 0
    · subst hi0
      apply Classical.byContradiction
      intro hge
      have hr := ok.r
      rw [hpend, List.append_nil] at hr
      have := outFrom_src_poison (m := m) (data := data) (l := (c.st 0).inp) (by omega)
      rw [← hr] at this
      exact hnfout this
    · obtain ⟨j, rfl⟩ : ∃ j, i = j + 1 := ⟨i - 1, by omega⟩
      have hqj := congrArg List.length (h.q j (by omega))
      rw [hq, List.length_append, List.length_cons] at hqj
      have okj := h.sok j (by omega)
      have hrj := congrArg List.length okj.r
      rw [List.length_append, outFrom_length] at hrj
      have := okj.len
      omega
  obtain ⟨ok', hinp, hout, _, hns', hnf'⟩ := afterConsume_ok ok hc x hlen hsrc
  refine { hb := h.hb, hm := h.hm, hd := h.hd, htr := h.htr, bpos := h.bpos, mpos := h.mpos, sok := ?_, q := ?_, q0 := ?_,
           mainok := h.mainok.upd_stage hi hnf hns _ _ }
  · intro j hj
    by_cases e : j = i
    · subst e; simpa [upd] using ok'
    · simpa [upd, e] using h.sok j hj
  · intro j hj
    have hqj := h.q j hj
    by_cases e : j = i
    · subst e
      have e2 : j + 1 ≠ j := by omega
      simp only [upd, if_true, e2, if_false, hout]
      exact hqj
    · by_cases e3 : j + 1 = i
      · subst e3
        simp only [upd, e, if_false, if_true, hinp]
        rw [hqj, hq]; simp
      · simp only [upd, e, e3, if_false]
        exact hqj
  · have hq0 := h.q0
    have hmp := h.mpos
    show List.replicate (b - fillRem c) (Item.val 0) ++ (upd c.st i _ m).out
        = (upd c.st i _ 0).inp ++ c.drained ++ upd c.q i rest 0
    by_cases e0 : i = 0
    · subst e0
      have em : m ≠ 0 := by omega
      simp only [upd, em, if_false, if_true, hinp]
      rw [hq0, hq, hdr]; simp
    · have e0' : (0 : Nat) ≠ i := fun e => e0 e.symm
      by_cases em : m = i
      · subst em
        simp only [upd, if_true, e0', if_false, hout]
        exact hq0
      · simp only [upd, em, e0', if_false]
        exact hq0

theorem RInv.stage_produce (h : RInv b m data c) {i : Nat} (hi : i ≤ m) (hp : producing (c.st i))
    {x : Item} (hx : pend (c.st i) = [x]) :
    RInv b m data { c with q := upd c.q (c.outQ i) (c.q (c.outQ i) ++ [x]),
                           st := upd c.st i (afterProduce (c.st i)) } := by
  have ok := h.sok i hi
  have hnf : (c.st i).pc ≠ .finished := by rcases hp with e | e | e | e <;> simp [e]
  have hnstart : (c.st i).pc ≠ .start := by rcases hp with e | e | e | e <;> simp [e]
  obtain ⟨hdr, hfill, _, _, _⟩ := h.unfinished hi hnf
  have hns : ∀ k, c.main ≠ .fill k := fun k e => hnstart (hfill k e)
  obtain ⟨ok', hinp, hout, _, _, _⟩ := afterProduce_ok ok hp
  rw [hx] at hout
  have hmp := h.mpos
  have hoq : c.outQ i = if i = m then 0 else i + 1 := by unfold Chain.outQ; rw [h.hm]
  refine { hb := h.hb, hm := h.hm, hd := h.hd, htr := h.htr, bpos := h.bpos, mpos := h.mpos, sok := ?_, q := ?_, q0 := ?_,
           mainok := h.mainok.upd_stage hi hnf hns _ _ }
  · intro j hj
    by_cases e : j = i
    · subst e; simpa [upd] using ok'
    · simpa [upd, e] using h.sok j hj
  · intro j hj
    have hqj := h.q j hj
    by_cases e : j = i
    · subst e
      have e1 : j ≠ m := by omega
      have e2 : j + 1 ≠ j := by omega
      simp only [hoq, e1, if_false, upd, if_true, e2, hout]
      rw [hqj]; simp
    · have e4 : j + 1 ≠ c.outQ i := by
        rw [hoq]; by_cases em : i = m <;> simp [em] <;> omega
      by_cases e3 : j + 1 = i
      · subst e3
        simp only [upd, e, if_false, if_true, hinp, e4]
        exact hqj
      · simp only [upd, e, e3, e4, if_false]
        exact hqj
  · have hq0 := h.q0
    show List.replicate (b - fillRem c) (Item.val 0) ++ (upd c.st i _ m).out
        = (upd c.st i _ 0).inp ++ c.drained ++ upd c.q (c.outQ i) _ 0
    by_cases em : i = m
    · subst em
      have e0 : (0 : Nat) ≠ i := by omega
      have : c.outQ i = 0 := by rw [hoq]; simp
      simp only [this, upd, if_true, e0, if_false, hout]
      rw [← List.append_assoc, hq0]; simp
    · have em' : m ≠ i := fun e => em e.symm
      have e1 : (0 : Nat) ≠ c.outQ i := by rw [hoq]; simp [em]
      by_cases e0 : i = 0
      · subst e0
        simp only [upd, em', if_false, if_true, hinp, e1]
        exact hq0
      · have e0' : (0 : Nat) ≠ i := fun e => e0 e.symm
        simp only [upd, em', e0', e1, if_false]
        exact hq0

theorem RInv.stage_start (h : RInv b m data c) {i : Nat} (hi : i ≤ m) (hs : (c.st i).pc = .start)
    (hns : ∀ k, c.main ≠ .fill k) :
    RInv b m data { c with st := upd c.st i { c.st i with pc := .init } } := by
  have ok := h.sok i hi
  have hnf : (c.st i).pc ≠ .finished := by simp [hs]
  have hpe : pend (c.st i) = [] := by simp [pend, hs]
  have hr := ok.r
  rw [hpe, List.append_nil] at hr
  have ok' : StageOK m data i { c.st i with pc := .init } := by
    refine ⟨by simpa [pend] using hr, by simp, by simp, by simp, ?_, ok.last, ?_, by simp, ok.len, ok.src⟩
    · have := ok.fin; simp [hs] at this; simpa using this
    · intro _ _ _; exact ok.nop (by simp [hs]) (by simp [hs]) (by simp [hs])
  have hmo := h.mainok.upd_stage hi hnf hns c.q { c.st i with pc := .init }
  refine { hb := h.hb, hm := h.hm, hd := h.hd, htr := h.htr, bpos := h.bpos, mpos := h.mpos, sok := ?_, q := ?_, q0 := ?_,
           mainok := hmo }
  · intro j hj
    by_cases e : j = i
    · subst e; simpa [upd] using ok'
    · simpa [upd, e] using h.sok j hj
  · intro j hj
    have hqj := h.q j hj
    have a : (upd c.st i { c.st i with pc := .init } j).out = (c.st j).out := by
      by_cases e : j = i <;> simp [upd, e]
    have b' : (upd c.st i { c.st i with pc := .init } (j + 1)).inp = (c.st (j + 1)).inp := by
      by_cases e : j + 1 = i <;> simp [upd, e]
    show (upd c.st i _ j).out = (upd c.st i _ (j + 1)).inp ++ c.q (j + 1)
    rw [a, b']; exact hqj
  · have a : (upd c.st i { c.st i with pc := .init } m).out = (c.st m).out := by
      by_cases e : m = i <;> simp [upd, e]
    have b' : (upd c.st i { c.st i with pc := .init } 0).inp = (c.st 0).inp := by
      by_cases e : 0 = i <;> simp [upd, e]
    show List.replicate (b - fillRem c) (Item.val 0) ++ (upd c.st i _ m).out
        = (upd c.st i _ 0).inp ++ c.drained ++ c.q 0
    rw [a, b']; exact h.q0

theorem RInv.main_fill (h : RInv b m data c) {k : Nat} (hmn : c.main = .fill (k + 1)) :
    RInv b m data { c with q := upd c.q 0 (c.q 0 ++ [.val 0]), main := if k = 0 then .join 1 else .fill k } := by
  have hmain := h.mainok
  unfold MainOK at hmain
  rw [hmn] at hmain
  obtain ⟨hk, hst, hdr⟩ := hmain
  have hin : ∀ i, i ≤ m → (c.st i).inp = [] ∧ (c.st i).out = [] := by
    intro i hi
    have ok := h.sok i hi
    have e := ok.startE (hst i hi)
    have hr := ok.r
    rw [e] at hr
    simp [outFrom] at hr
    exact ⟨e, hr.1⟩
  have hq0 := h.q0
  have hfr : fillRem c = k + 1 := by unfold fillRem; rw [hmn]
  rw [hfr, (hin m (Nat.le_refl _)).2, (hin 0 (by omega)).1, hdr] at hq0
  simp at hq0
  have hmp := h.mpos
  refine { hb := h.hb, hm := h.hm, hd := h.hd, htr := h.htr, bpos := h.bpos, mpos := h.mpos, sok := h.sok, q := ?_, q0 := ?_,
           mainok := ?_ }
  · intro j hj
    have : j + 1 ≠ 0 := by omega
    show (c.st j).out = (c.st (j + 1)).inp ++ upd c.q 0 (c.q 0 ++ [.val 0]) (j + 1)
    simp only [upd, this, if_false]; exact h.q j hj
  · have hfr' : fillRem { c with q := upd c.q 0 (c.q 0 ++ [.val 0]), main := if k = 0 then .join 1 else .fill k } = k := by
      unfold fillRem
      by_cases e : k = 0 <;> simp [e]
    rw [hfr']
    show List.replicate (b - k) (Item.val 0) ++ (c.st m).out
        = (c.st 0).inp ++ c.drained ++ upd c.q 0 (c.q 0 ++ [.val 0]) 0
    rw [(hin m (Nat.le_refl _)).2, (hin 0 (by omega)).1, hdr]
    simp only [upd, if_true, List.append_nil, List.nil_append, ← hq0]
    have : b - k = (b - (k + 1)) + 1 := by omega
    rw [this, List.replicate_succ']
  · unfold MainOK
    by_cases e : k = 0
    · simp only [e, if_true]
      exact ⟨by omega, by omega, fun j hj => by omega, hdr⟩
    · simp only [e, if_false]
      exact ⟨by omega, hst, hdr⟩

theorem RInv.main_fill0 (h : RInv b m data c) (hmn : c.main = .fill 0) :
    RInv b m data { c with main := .join 1 } := by
  have hmain := h.mainok
  unfold MainOK at hmain
  rw [hmn] at hmain
  have hq0 := h.q0
  have hfr : fillRem c = 0 := by unfold fillRem; rw [hmn]
  rw [hfr] at hq0
  exact { hb := h.hb, hm := h.hm, hd := h.hd, htr := h.htr, bpos := h.bpos, mpos := h.mpos, sok := h.sok, q := h.q,
          q0 := hq0, mainok := by unfold MainOK; exact ⟨by omega, by omega, fun j hj => by omega, hmain.2.2⟩ }

theorem RInv.main_join (h : RInv b m data c) {i : Nat} (hmn : c.main = .join i)
    (hf : (c.st (i - 1)).pc = .finished) :
    RInv b m data { c with main := if i = m + 1 then .drain 0 else .join (i + 1) } := by
  have hmain := h.mainok
  unfold MainOK at hmain
  rw [hmn] at hmain
  obtain ⟨h1, h2, h3, hdr⟩ := hmain
  have hq0 := h.q0
  have hfr : fillRem c = 0 := by unfold fillRem; rw [hmn]
  rw [hfr] at hq0
  have hfr' : fillRem { c with main := if i = m + 1 then .drain 0 else .join (i + 1) } = 0 := by
    unfold fillRem; by_cases e : i = m + 1 <;> simp [e]
  refine { hb := h.hb, hm := h.hm, hd := h.hd, htr := h.htr, bpos := h.bpos, mpos := h.mpos, sok := h.sok, q := h.q,
           q0 := by rw [hfr']; exact hq0, mainok := ?_ }
  unfold MainOK
  by_cases e : i = m + 1
  · simp only [e, if_true]
    refine ⟨?_, by simp [hdr], by simp [hdr]⟩
    intro j hj
    by_cases ej : j = m
    · subst ej; subst e; simpa using hf
    · exact h3 j (by omega)
  · simp only [e, if_false]
    refine ⟨by omega, by omega, ?_, hdr⟩
    intro j hj
    by_cases ej : j + 1 = i
    · subst ej; simpa using hf
    · exact h3 j (by omega)

theorem RInv.main_drain (h : RInv b m data c) {k : Nat} (hmn : c.main = .drain k) {x : Item}
    {rest : List Item} (hq : c.q 0 = x :: rest) :
    k < b ∧ RInv b m data { c with q := upd c.q 0 rest, drained := c.drained ++ [x],
                                    main := match x with | .poison => .finished | .val _ => .drain (k + 1) } := by
  have hmain := h.mainok
  unfold MainOK at hmain
  rw [hmn] at hmain
  obtain ⟨hall, hk, hnp⟩ := hmain
  have hq0 := h.q0
  have hfr : fillRem c = 0 := by unfold fillRem; rw [hmn]
  have hcons := h.conservation
  have hle := le_sumTo (fun j => (c.q j).length) (i := 0) (k := m + 1) (by omega)
  simp only [hq, List.length_cons] at hle
  have hkb : k < b := by omega
  refine ⟨hkb, ?_⟩
  have hfr' : ∀ mn, (mn = MPC.finished ∨ mn = MPC.drain (k + 1)) →
      fillRem { c with q := upd c.q 0 rest, drained := c.drained ++ [x], main := mn } = 0 := by
    intro mn hmn'; unfold fillRem; rcases hmn' with e | e <;> simp [e]
  refine { hb := h.hb, hm := h.hm, hd := h.hd, htr := h.htr, bpos := h.bpos, mpos := h.mpos, sok := h.sok, q := ?_, q0 := ?_,
           mainok := ?_ }
  · intro j hj
    have : j + 1 ≠ 0 := by omega
    show (c.st j).out = (c.st (j + 1)).inp ++ upd c.q 0 rest (j + 1)
    simp only [upd, this, if_false]; exact h.q j hj
  · rw [hfr' _ (by cases x <;> simp)]
    rw [hfr] at hq0
    show List.replicate (b - 0) (Item.val 0) ++ (c.st m).out = (c.st 0).inp ++ (c.drained ++ [x]) ++ upd c.q 0 rest 0
    rw [hq0, hq]; simp [upd]
  · unfold MainOK
    cases x with
    | poison => exact ⟨hall, by simp⟩
    | val v => exact ⟨hall, by simp [hk], by simpa using hnp⟩

/-! ### every step preserves the invariant -/

theorem loopTest_eq_init (hm : c.m = m) (hd : c.data = data) (htr : c.tr = StageFn.tr) {i : Nat} {s : Stage}
    (hpc : s.pc = .init) (x : Item) :
    c.loopTest i s.inp { s with poisoned := false, cur := x, inp := s.inp ++ [x] }
      = afterConsume m data i s x := by
  cases x with
  | poison => simp [Chain.loopTest, afterConsume, hpc]
  | val v =>
    simp only [Chain.loopTest, afterConsume, hpc, body_eq c htr, hm, hd]
    cases bodyP m data i s.inp v <;> rfl

theorem loopTest_eq_inc (hm : c.m = m) (hd : c.data = data) (htr : c.tr = StageFn.tr) {i : Nat} {s : Stage}
    (hpc : s.pc = .incConsume) (v : Nat) :
    c.loopTest i s.inp { s with cur := .val v, inp := s.inp ++ [.val v] }
      = afterConsume m data i s (.val v) := by
  simp only [Chain.loopTest, afterConsume, hpc, body_eq c htr, hm, hd]
  cases bodyP m data i s.inp v <;> rfl

omit [StageFn] in
theorem fifoPush_some {α : Type} {cap : Nat} {buf buf' : List α} {x : α} (h : fifoPush cap buf x = some buf') :
    buf.length < cap ∧ buf' = buf ++ [x] := by
  unfold fifoPush at h
  by_cases e : buf.length < cap
  · rw [if_pos e] at h; cases h; exact ⟨e, rfl⟩
  · rw [if_neg e] at h; cases h

omit [StageFn] in
theorem fifoPop_some {α : Type} {buf rest : List α} {x : α} (h : fifoPop buf = some (x, rest)) :
    buf = x :: rest := by
  cases buf with
  | nil => simp [fifoPop] at h
  | cons a l => simp [fifoPop] at h; rw [h.1, h.2]

theorem rinv_stageStep (h : RInv b m data c) {i : Nat} (hi : i ≤ m) {c' : Chain}
    (hs : c.stageStep i = some c') : RInv b m data c' := by
  unfold Chain.stageStep at hs
  simp only at hs
  cases hpc : (c.st i).pc with
  | start =>
    simp only [hpc] at hs
    cases hmn : c.main with
    | fill k => simp [hmn] at hs
    | join j =>
      simp only [hmn] at hs; cases hs
      simpa [hmn] using h.stage_start hi hpc (fun k e => by rw [hmn] at e; cases e)
    | drain j =>
      simp only [hmn] at hs; cases hs
      simpa [hmn] using h.stage_start hi hpc (fun k e => by rw [hmn] at e; cases e)
    | aborted =>
      simp only [hmn] at hs; cases hs
      simpa [hmn] using h.stage_start hi hpc (fun k e => by rw [hmn] at e; cases e)
    | finished =>
      simp only [hmn] at hs; cases hs
      simpa [hmn] using h.stage_start hi hpc (fun k e => by rw [hmn] at e; cases e)
  | init =>
    simp only [hpc] at hs
    cases hq : fifoPop (c.q i) with
    | none => simp [hq] at hs
    | some pr =>
      obtain ⟨x, rest⟩ := pr
      simp only [hq] at hs; cases hs
      have e := loopTest_eq_init (c := c) (i := i) h.hm h.hd h.htr hpc x
      simp only [hpc] at e
      rw [e]
      exact h.stage_consume hi (Or.inl hpc) (fifoPop_some hq)
  | incConsume =>
    simp only [hpc] at hs
    cases hq : fifoPop (c.q i) with
    | none => simp [hq] at hs
    | some pr =>
      obtain ⟨x, rest⟩ := pr
      simp only [hq] at hs; cases hs
      have := h.stage_consume hi (Or.inr hpc) (fifoPop_some hq)
      cases x with
      | poison => simpa [afterConsume, hpc] using this
      | val v =>
        have e := loopTest_eq_inc (c := c) (i := i) h.hm h.hd h.htr hpc v
        simp only [hpc] at e
        simp only []
        rw [e]; exact this
  | incProduce =>
    simp only [hpc] at hs
    cases hq : fifoPush c.b (c.q (c.outQ i)) (c.st i).cur with
    | none => simp [hq] at hs
    | some buf =>
      simp only [hq] at hs; cases hs
      obtain ⟨_, rfl⟩ := fifoPush_some hq
      have := h.stage_produce hi (Or.inl hpc) (x := (c.st i).cur) (by simp [pend, hpc])
      simpa [afterProduce, hpc] using this
  | incPoison =>
    simp only [hpc] at hs
    cases hq : fifoPush c.b (c.q (c.outQ i)) (c.st i).cur with
    | none => simp [hq] at hs
    | some buf =>
      simp only [hq] at hs; cases hs
      obtain ⟨_, rfl⟩ := fifoPush_some hq
      have := h.stage_produce hi (Or.inr (Or.inl hpc)) (x := (c.st i).cur) (by simp [pend, hpc])
      simpa [afterProduce, hpc] using this
  | poisonCall =>
    simp only [hpc] at hs
    cases hq : fifoPush c.b (c.q (c.outQ i)) Item.poison with
    | none => simp [hq] at hs
    | some buf =>
      simp only [hq] at hs; cases hs
      obtain ⟨_, rfl⟩ := fifoPush_some hq
      have := h.stage_produce hi (Or.inr (Or.inr (Or.inl hpc))) (x := Item.poison) (by simp [pend, hpc])
      simpa [afterProduce, hpc] using this
  | dtor =>
    simp only [hpc] at hs
    cases hq : fifoPush c.b (c.q (c.outQ i)) (c.st i).cur with
    | none => simp [hq] at hs
    | some buf =>
      simp only [hq] at hs; cases hs
      obtain ⟨_, rfl⟩ := fifoPush_some hq
      have := h.stage_produce hi (Or.inr (Or.inr (Or.inr hpc))) (x := (c.st i).cur) (by simp [pend, hpc])
      simpa [afterProduce, hpc] using this
  | finished => simp [hpc] at hs

theorem rinv_mainStep (h : RInv b m data c) {c' : Chain} (hs : c.mainStep = some c') : RInv b m data c' := by
  unfold Chain.mainStep at hs
  cases hmn : c.main with
  | fill k =>
    cases k with
    | zero => simp only [hmn] at hs; cases hs; exact h.main_fill0 hmn
    | succ k =>
      simp only [hmn] at hs
      cases hq : fifoPush c.b (c.q 0) (Item.val 0) with
      | none => simp [hq] at hs
      | some buf =>
        simp only [hq] at hs; cases hs
        obtain ⟨_, rfl⟩ := fifoPush_some hq
        exact h.main_fill hmn
  | join i =>
    simp only [hmn] at hs
    cases hpc : (c.st (i - 1)).pc <;> simp only [hpc] at hs <;> try cases hs
    have := h.main_join hmn hpc
    simp only [← h.hm] at this ⊢
    exact this
  | drain k =>
    simp only [hmn] at hs
    cases hq : fifoPop (c.q 0) with
    | none => simp [hq] at hs
    | some pr =>
      obtain ⟨x, rest⟩ := pr
      obtain ⟨hkb, hr⟩ := h.main_drain hmn (fifoPop_some hq)
      cases x with
      | poison => simp only [hq] at hs; cases hs; exact hr
      | val v =>
        simp only [hq] at hs; cases hs
        have : k ≠ c.b := by rw [h.hb]; omega
        simpa [this] using hr
  | aborted => simp [hmn] at hs
  | finished => simp [hmn] at hs

theorem rinv_step (h : RInv b m data c) {tid : Nat} {c' : Chain} (hs : c.step tid = some c') :
    RInv b m data c' := by
  unfold Chain.step at hs
  cases tid with
  | zero => exact rinv_mainStep h hs
  | succ i =>
    simp only at hs
    by_cases hi : i ≤ c.m
    · rw [if_pos hi] at hs; exact rinv_stageStep h (h.hm ▸ hi) hs
    · rw [if_neg hi] at hs; cases hs

theorem rinv_init (b m : Nat) (data : List Nat) (hb : 0 < b) (hm : 1 ≤ m) :
    RInv b m data (Chain.initT b m data StageFn.tr) := by
  refine { hb := rfl, hm := rfl, hd := rfl, htr := rfl, bpos := hb, mpos := hm, sok := ?_, q := ?_, q0 := ?_,
           mainok := ?_ }
  · intro i _
    refine ⟨by simp [Chain.initT, Chain.init, pend, outFrom], by simp [Chain.initT, Chain.init],
            by simp [Chain.initT, Chain.init], by simp [Chain.initT, Chain.init],
            by simp [Chain.initT, Chain.init], by simp [Chain.initT, Chain.init], by simp [Chain.initT, Chain.init],
            by simp [Chain.initT, Chain.init], by simp [Chain.initT, Chain.init], by simp [Chain.initT, Chain.init]⟩
  · intro i _; simp [Chain.initT, Chain.init]
  · simp [Chain.initT, Chain.init, fillRem]
  · unfold MainOK
    simp [Chain.initT, Chain.init]

theorem rinv_reach {b m : Nat} {data : List Nat} {c : Chain} (hb : 0 < b) (hm : 1 ≤ m)
    (hr : Chain.Reach (Chain.initT b m data StageFn.tr) c) : RInv b m data c := by
  induction hr with
  | init => exact rinv_init b m data hb hm
  | step _ hs ih => exact rinv_step ih hs

end KV.Chain
