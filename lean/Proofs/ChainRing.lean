import Model.Chain
/-! Safety invariant of the Chain model: per-queue FIFO conservation and capacity. Core Lean only. -/
namespace KV.Chain

theorem getD_set (l : List (List Item)) (j k : Nat) (v : List Item) :
    (l.set j v).getD k [] = if j = k ∧ j < l.length then v else l.getD k [] := by
  simp only [List.getD_eq_getElem?_getD, List.getElem?_set]
  by_cases h : j = k
  · subst h
    by_cases h2 : j < l.length
    · simp [h2]
    · simp [h2]
  · simp [h]

/-- per-queue conservation: everything pushed = everything popped ++ current content (so each stage
receives exactly what its predecessor produced, in order), and no queue exceeds the block count -/
structure CInv (c : Chain) : Prop where
  len1 : c.pushed.length = c.qs.length
  len2 : c.popped.length = c.qs.length
  fifo : ∀ j, c.pushed.getD j [] = c.popped.getD j [] ++ c.qs.getD j []
  capb : ∀ j, (c.qs.getD j []).length ≤ c.b

theorem CInv.frame {c c' : Chain} (h : CInv c) (h1 : c'.qs = c.qs) (h2 : c'.pushed = c.pushed)
    (h3 : c'.popped = c.popped) (h4 : c'.b = c.b) : CInv c' := by
  refine ⟨by rw [h1, h2]; exact h.len1, by rw [h1, h3]; exact h.len2, ?_, ?_⟩
  · intro j; rw [h1, h2, h3]; exact h.fifo j
  · intro j; rw [h1, h4]; exact h.capb j

theorem CInv.push {c : Chain} (h : CInv c) (j : Nat) (x : Item) (hlt : (c.qs.getD j []).length < c.b) :
    CInv (c.push j x) := by
  refine ⟨by simp [Chain.push, h.len1], by simp [Chain.push, h.len2], ?_, ?_⟩
  · intro k
    show (c.pushed.set j (c.pushed.getD j [] ++ [x])).getD k []
        = c.popped.getD k [] ++ (c.qs.set j (c.qs.getD j [] ++ [x])).getD k []
    rw [getD_set, getD_set, h.len1]
    by_cases e : j = k ∧ j < c.qs.length
    · rw [if_pos e, if_pos e]
      obtain ⟨rfl, _⟩ := e
      rw [h.fifo j, List.append_assoc]
    · rw [if_neg e, if_neg e]; exact h.fifo k
  · intro k
    show ((c.qs.set j (c.qs.getD j [] ++ [x])).getD k []).length ≤ c.b
    rw [getD_set]
    by_cases e : j = k ∧ j < c.qs.length
    · rw [if_pos e, List.length_append, List.length_singleton]; omega
    · rw [if_neg e]; exact h.capb k

theorem CInv.pop {c : Chain} (h : CInv c) (j : Nat) (x : Item) (rest : List Item)
    (hq : c.qs.getD j [] = x :: rest) : CInv (c.pop j x rest) := by
  refine ⟨by simp [Chain.pop, h.len1], by simp [Chain.pop, h.len2], ?_, ?_⟩
  · intro k
    show c.pushed.getD k [] = (c.popped.set j (c.popped.getD j [] ++ [x])).getD k [] ++ (c.qs.set j rest).getD k []
    rw [getD_set, getD_set, h.len2]
    by_cases e : j = k ∧ j < c.qs.length
    · rw [if_pos e, if_pos e]
      obtain ⟨rfl, _⟩ := e
      rw [h.fifo j, hq, List.append_assoc]; rfl
    · rw [if_neg e, if_neg e]; exact h.fifo k
  · intro k
    show ((c.qs.set j rest).getD k []).length ≤ c.b
    rw [getD_set]
    by_cases e : j = k ∧ j < c.qs.length
    · rw [if_pos e]
      have := h.capb j; rw [hq, List.length_cons] at this; omega
    · rw [if_neg e]; exact h.capb k

theorem cinv_init (b m : Nat) (data : List Nat) : CInv (Chain.init b m data) := by
  refine ⟨by simp [Chain.init], by simp [Chain.init], ?_, ?_⟩
  · intro j
    simp only [Chain.init, List.getD_eq_getElem?_getD, List.getElem?_replicate]
    by_cases h : j < m + 1 <;> simp [h]
  · intro j
    simp only [Chain.init, List.getD_eq_getElem?_getD, List.getElem?_replicate]
    by_cases h : j < m + 1 <;> simp [h]

theorem cinv_step {c c' : Chain} {tid : Nat} (h : CInv c) (hs : c.step tid = some c') : CInv c' := by
  unfold Chain.step at hs
  cases tid with
  | zero =>
    simp only at hs
    cases hm : c.main with
    | fill k =>
      cases k with
      | zero => simp [hm] at hs; subst hs; exact h.frame rfl rfl rfl rfl
      | succ k =>
        simp only [hm] at hs
        by_cases hlt : (c.qs.getD 0 []).length < c.b
        · rw [if_pos hlt] at hs; injection hs with hs; subst hs
          exact (h.push 0 _ hlt).frame rfl rfl rfl rfl
        · rw [if_neg hlt] at hs; cases hs
    | join i =>
      simp only [hm] at hs
      cases hst : c.spc[i - 1]? with
      | none => simp [hst] at hs
      | some st =>
        cases st <;> simp [hst] at hs
        subst hs; exact h.frame rfl rfl rfl rfl
    | drain k =>
      simp only [hm] at hs
      cases hq : c.qs[0]?.getD [] with
      | nil => simp [hq] at hs
      | cons x rest =>
        cases x with
        | poison => simp [hq] at hs; subst hs; exact (h.pop 0 _ rest hq).frame rfl rfl rfl rfl
        | val v => simp [hq] at hs; subst hs; exact (h.pop 0 _ rest hq).frame rfl rfl rfl rfl
    | aborted => simp [hm] at hs
    | finished => simp [hm] at hs
  | succ i =>
    simp only at hs
    cases hst : c.spc[i]? with
    | none => simp [hst] at hs
    | some st =>
      cases st with
      | start =>
        simp only [hst] at hs
        cases hm : c.main <;> simp [hm] at hs <;> (subst hs; exact h.frame rfl rfl rfl rfl)
      | consume =>
        simp only [hst] at hs
        cases hq : c.qs[i]?.getD [] with
        | nil => simp [hq] at hs
        | cons x rest =>
          simp [hq] at hs; subst hs
          exact (h.pop i x rest hq).frame rfl rfl rfl rfl
      | produce x last =>
        simp only [hst] at hs
        by_cases hlt : (c.qs.getD (c.outQ i) []).length < c.b
        · rw [if_pos hlt] at hs; injection hs with hs; subst hs
          exact (h.push _ x hlt).frame rfl rfl rfl rfl
        · rw [if_neg hlt] at hs; cases hs
      | finished => simp [hst] at hs

theorem cinv_reach {c0 c : Chain} (h0 : CInv c0) (hr : Chain.Reach c0 c) : CInv c := by
  induction hr with
  | init => exact h0
  | step _ hs ih => exact cinv_step ih hs

end KV.Chain
