import Proofs.Interp
import Mathlib.Data.List.Nodup
/-!
Union vocabulary and renumbering (`merge_vocab.cc`, `universal_vocab.hh`, `Renumber`): words are
identified by their strings; every local id of every component is mapped to the universal id of
its string, injectively, and mapping back through the union vocabulary returns the string.
-/
namespace KV.Interp

theorem mem_unionVocab {ms : List LocalLM} {s : String} :
    s ∈ unionVocab ms ↔ s = "<unk>" ∨ ∃ m ∈ ms, s ∈ m.vocab := by
  unfold unionVocab
  rw [mem_dedup, List.mem_cons, List.mem_flatMap]

theorem nodup_unionVocab (ms : List LocalLM) : (unionVocab ms).Nodup := nodup_dedup _

/-- the universal id of a local id points at the same string -/
theorem unionVocab_toUniv {ms : List LocalLM} {m : LocalLM} (hm : m ∈ ms) {i : Nat}
    (hi : i < m.vocab.length) :
    (unionVocab ms)[toUniv (unionVocab ms) m.vocab i]? = some m.vocab[i] := by
  unfold toUniv
  have hget : m.vocab.getD i "<unk>" = m.vocab[i] := by
    rw [List.getD_eq_getElem?_getD, List.getElem?_eq_getElem hi]; rfl
  rw [hget]
  have hmem : m.vocab[i] ∈ unionVocab ms :=
    mem_unionVocab.2 (Or.inr ⟨m, hm, List.getElem_mem hi⟩)
  have hlt := List.idxOf_lt_length_iff.2 hmem
  rw [List.getElem?_eq_getElem hlt, List.getElem_idxOf hlt]

/-- renumbering is injective on a duplicate-free component vocabulary -/
theorem toUniv_inj {ms : List LocalLM} {m : LocalLM} (hm : m ∈ ms) (hnd : m.vocab.Nodup)
    {i j : Nat} (hi : i < m.vocab.length) (hj : j < m.vocab.length)
    (h : toUniv (unionVocab ms) m.vocab i = toUniv (unionVocab ms) m.vocab j) : i = j := by
  have h1 := unionVocab_toUniv hm hi
  have h2 := unionVocab_toUniv hm hj
  rw [h, h2] at h1
  have := Option.some.inj h1
  exact (List.Nodup.getElem_inj_iff hnd).1 this.symm

/-- all components' `<unk>` (local id 0) get the same universal id -/
theorem toUniv_unk (uv : List String) {m : LocalLM} (h0 : m.vocab[0]? = some "<unk>") :
    toUniv uv m.vocab 0 = uv.idxOf "<unk>" := by
  unfold toUniv
  rw [List.getD_eq_getElem?_getD, h0]; rfl

/-- every universal id below the size of the union vocabulary comes from some component
(or is `<unk>`): the union vocabulary has no other words -/
theorem unionVocab_onto {ms : List LocalLM} {u : Nat} (hu : u < (unionVocab ms).length) :
    (unionVocab ms)[u] = "<unk>" ∨
      ∃ m ∈ ms, ∃ i, i < m.vocab.length ∧ toUniv (unionVocab ms) m.vocab i = u := by
  have hmem := List.getElem_mem hu
  rcases mem_unionVocab.1 hmem with h | ⟨m, hm, hs⟩
  · exact Or.inl h
  · right
    obtain ⟨i, hi, hget⟩ := List.getElem_of_mem hs
    refine ⟨m, hm, i, hi, ?_⟩
    have h1 := unionVocab_toUniv hm hi
    rw [hget] at h1
    have h2 : (unionVocab ms)[u]? = some (unionVocab ms)[u] := List.getElem?_eq_getElem hu
    have hlt : toUniv (unionVocab ms) m.vocab i < (unionVocab ms).length := by
      by_contra hcon
      rw [List.getElem?_eq_none (by omega)] at h1
      exact absurd h1 (by simp)
    rw [List.getElem?_eq_getElem hlt] at h1
    have := Option.some.inj h1
    exact (List.Nodup.getElem_inj_iff (nodup_unionVocab ms)).1 this

theorem exists_mem_zip_of_mem_right {α β : Type} : ∀ (l₁ : List α) (l₂ : List β) (b : β),
    l₁.length = l₂.length → b ∈ l₂ → ∃ a, (a, b) ∈ l₁.zip l₂
  | _, [], _, _, h => by simp at h
  | [], _ :: _, _, hl, _ => by simp at hl
  | a :: as, x :: xs, b, hl, h => by
    rcases List.mem_cons.1 h with rfl | h
    · exact ⟨a, by simp⟩
    · obtain ⟨a', ha'⟩ := exists_mem_zip_of_mem_right as xs b (by simpa using hl) h
      exact ⟨a', by simp [ha']⟩

/-- the n-grams of the globalised components are exactly the renumbered local n-grams -/
theorem mem_globalizeAll_entries (ms : List LocalLM) (ls : List ℚ) (hl : ls.length = ms.length)
    (c : List Nat) (w : Nat) :
    (∃ p ∈ globalizeAll ms ls, ∃ e ∈ p.2.entries, e.ctx = c ∧ e.word = w) ↔
      ∃ m ∈ ms, ∃ e ∈ m.entries, e.ctx.map (toUniv (unionVocab ms) m.vocab) = c ∧
        toUniv (unionVocab ms) m.vocab e.word = w := by
  unfold globalizeAll
  constructor
  · rintro ⟨p, hp, e, he, h1, h2⟩
    have hp2 := (List.of_mem_zip (show (p.1, p.2) ∈ _ from hp)).2
    rw [List.mem_map] at hp2
    obtain ⟨m, hm, hg⟩ := hp2
    rw [← hg] at he
    simp only [LocalLM.globalize, List.mem_map] at he
    obtain ⟨e0, he0, rfl⟩ := he
    exact ⟨m, hm, e0, he0, h1, h2⟩
  · rintro ⟨m, hm, e0, he0, h1, h2⟩
    obtain ⟨a, ha⟩ := exists_mem_zip_of_mem_right ls (ms.map (LocalLM.globalize (unionVocab ms)))
      (m.globalize (unionVocab ms)) (by simpa using hl) (List.mem_map.2 ⟨m, hm, rfl⟩)
    refine ⟨_, ha, ?_⟩
    simp only [LocalLM.globalize, List.mem_map]
    exact ⟨_, ⟨e0, he0, rfl⟩, h1, h2⟩

end KV.Interp
