import Proofs.FilePieceBasic
/-! The window invariant and the effect of `Shift` (both backends). -/
namespace KV.FilePiece

/-- The window invariant of the repaired code. -/
structure Inv (env : Env) (st : St) : Prop where
  page_pos : 0 < env.cfg.page
  pos_le : st.pos ≤ st.win.length
  in_range : st.mappedOffset + st.win.length ≤ env.bytes.length
  win_eq : st.win = (env.bytes.drop st.mappedOffset).take st.win.length
  atEnd_end : st.atEnd = true → st.mappedOffset + st.win.length = env.bytes.length
  map_big : env.cfg.page < st.mapSize
  read_off : st.mode = .read → st.readOff = st.mappedOffset + st.win.length ∧ st.win.length ≤ st.mapSize
  mmap_al : st.mode = .mmap → env.cfg.page ∣ st.mappedOffset ∧
      (st.started = true → st.atEnd = false →
        st.win.length = st.mapSize ∧ st.mappedOffset + st.win.length < env.bytes.length) ∧
      (st.started = false → st.win = [] ∧ st.pos = 0 ∧ st.mappedOffset = 0)
  ls : LS st.win st.pos st.ls1

/-- bytes of the input that have not been consumed -/
def St.rest (env : Env) (st : St) : List Byte := env.bytes.drop st.offset

/-- termination measure of every loop that calls `Shift`: bytes of the input beyond the window, +1 until the
end has been seen, + (length + 2) while still in mmap mode (the fall back to read() happens at most once and
may throw the window away) -/
def mu (env : Env) (st : St) : Nat :=
  (if st.mode = .mmap then env.bytes.length + 2 else 0) +
  (env.bytes.length - (st.mappedOffset + st.win.length)) + (if st.atEnd then 0 else 1)

theorem take_drop_window (l : List Byte) (mo len pos : Nat) :
    ((l.drop mo).take len).drop pos = (l.drop (pos + mo)).take (len - pos) := by
  rw [List.drop_take, List.drop_drop]
  congr 2; omega

theorem Inv.visible_eq {env : Env} {st : St} (h : Inv env st) :
    st.visible = (st.rest env).take (st.win.length - st.pos) := by
  unfold St.visible St.rest St.offset
  conv => lhs; rw [h.win_eq]
  exact take_drop_window _ _ _ _

theorem Inv.rest_length {env : Env} {st : St} (h : Inv env st) :
    (st.rest env).length = env.bytes.length - st.offset := by
  simp [St.rest]

theorem Inv.visible_length {env : Env} {st : St} (h : Inv env st) :
    st.visible.length = st.win.length - st.pos := by simp [St.visible]

theorem Inv.visible_atEnd {env : Env} {st : St} (h : Inv env st) (he : st.atEnd = true) :
    st.visible = st.rest env := by
  rw [h.visible_eq]
  apply List.take_of_length_le
  have := h.atEnd_end he
  have := h.pos_le
  rw [h.rest_length]; unfold St.offset; omega

/-- moving `position_` forward inside the window keeps the invariant -/
theorem Inv.advance {env : Env} {st : St} (h : Inv env st) (n : Nat) (hn : n ≤ st.visible.length) :
    Inv env { st with pos := st.pos + n } := by
  have hv := h.visible_length
  have hp := h.pos_le
  exact { h with
    pos_le := by show st.pos + n ≤ st.win.length; omega
    mmap_al := by
      intro hm
      obtain ⟨a, b, c⟩ := h.mmap_al hm
      refine ⟨a, b, ?_⟩
      intro hs
      obtain ⟨c1, c2, c3⟩ := c hs
      refine ⟨c1, ?_, c3⟩
      show st.pos + n = 0
      have : st.win.length = 0 := by simp [c1]
      omega
    ls := LS_mono h.ls (by show st.pos ≤ st.pos + n; omega) }

theorem offset_advance (st : St) (n : Nat) : ({ st with pos := st.pos + n } : St).offset = st.offset + n := by
  simp [St.offset]; omega

theorem take_append_take_drop (l : List Byte) (a n : Nat) :
    l.take a ++ (l.drop a).take n = l.take (a + n) := by
  rw [List.take_add]

theorem chunk_le (orc : Nat → Nat) (i req avail : Nat) : chunk orc i req avail ≤ min req avail := by
  unfold chunk
  split
  · omega
  · rename_i h
    have : 0 < req ∧ 0 < avail := by omega
    omega

theorem chunk_pos (orc : Nat → Nat) (i req avail : Nat) (hr : 0 < req) (ha : 0 < avail) :
    0 < chunk orc i req avail := by
  unfold chunk
  split
  · omega
  · omega

theorem chunk_zero (orc : Nat → Nat) (i req : Nat) : chunk orc i req 0 = 0 := by simp [chunk]

/-- what one successful `Shift` guarantees -/
structure ShiftPost (env : Env) (st st' : St) : Prop where
  inv : Inv env st'
  offset_eq : st'.offset = st.offset
  mu_lt : mu env st' < mu env st
  nonempty_or_end : st'.visible ≠ [] ∨ st'.atEnd = true

theorem readShift_post {env : Env} {st : St} (hfix : env.cfg.fixH = true) (h : Inv env st)
    (hm : st.mode = .read) (he : st.atEnd = false) :
    ShiftPost env st { readShift env st with ls1 := computeLs1 (readShift env st).win (readShift env st).pos } := by
  obtain ⟨hro, hlm⟩ := h.read_off hm
  have hpos := h.pos_le
  have hir := h.in_range
  have hmb := h.map_big
  have hpp := h.page_pos
  -- name the three stages
  generalize hs1 : (if st.pos = st.win.length then
      { st with mappedOffset := st.mappedOffset + st.win.length, win := [], pos := 0 } else st) = st1
  have h1 : st1.mode = .read ∧ st1.atEnd = false ∧ st1.mapSize = st.mapSize ∧ st1.readOff = st.readOff ∧
      st1.pos ≤ st1.win.length ∧ st1.readOff = st1.mappedOffset + st1.win.length ∧
      st1.win = (env.bytes.drop st1.mappedOffset).take st1.win.length ∧
      st1.offset = st.offset ∧ st1.win.length - st1.pos = st.win.length - st.pos ∧ st1.win.length ≤ st1.mapSize := by
    subst hs1
    split
    · rename_i hc
      refine ⟨hm, he, rfl, rfl, by simp, by simp [hro], by simp, ?_, by simp [hc], by simp⟩
      simp [St.offset]; omega
    · exact ⟨hm, he, rfl, rfl, hpos, hro, h.win_eq, rfl, rfl, hlm⟩
  obtain ⟨m1, e1, ms1, ro1, p1, r1, w1, o1, k1, l1⟩ := h1
  generalize hs2 : (if st1.win.length = st1.mapSize then
      if st1.pos = 0 then { st1 with mapSize := 2 * st1.mapSize }
      else { st1 with win := st1.win.drop st1.pos, pos := 0,
                      mappedOffset := if env.cfg.fixH then st1.mappedOffset + st1.pos else st1.mappedOffset }
    else st1) = st2
  have h2 : st2.mode = .read ∧ st2.atEnd = false ∧ st.mapSize ≤ st2.mapSize ∧ st2.readOff = st.readOff ∧
      st2.pos ≤ st2.win.length ∧ st2.readOff = st2.mappedOffset + st2.win.length ∧
      st2.win = (env.bytes.drop st2.mappedOffset).take st2.win.length ∧
      st2.offset = st.offset ∧ st2.win.length - st2.pos = st.win.length - st.pos ∧ st2.win.length < st2.mapSize := by
    subst hs2
    split
    · rename_i hfull
      split
      · rename_i hz
        refine ⟨m1, e1, by show st.mapSize ≤ 2 * st1.mapSize; omega, ro1, p1, r1, w1, o1, k1, ?_⟩
        show st1.win.length < 2 * st1.mapSize
        omega
      · rename_i hz
        simp only [hfix, ↓reduceIte]
        refine ⟨m1, e1, by show st.mapSize ≤ st1.mapSize; omega, ro1, by simp, ?_, ?_, ?_, ?_, ?_⟩
        · show st1.readOff = st1.mappedOffset + st1.pos + (st1.win.drop st1.pos).length
          simp; omega
        · show st1.win.drop st1.pos = (env.bytes.drop (st1.mappedOffset + st1.pos)).take (st1.win.drop st1.pos).length
          conv => lhs; rw [w1]
          rw [take_drop_window]
          simp; congr 2; omega
        · show 0 + (st1.mappedOffset + st1.pos) = st.offset
          rw [← o1]; simp [St.offset]; omega
        · show (st1.win.drop st1.pos).length - 0 = st.win.length - st.pos
          simp; omega
        · show (st1.win.drop st1.pos).length < st1.mapSize
          simp; omega
    · rename_i hfull
      exact ⟨m1, e1, by omega, ro1, p1, r1, w1, o1, k1, by omega⟩
  obtain ⟨m2, e2, ms2, ro2, p2, r2, w2, o2, k2, l2⟩ := h2
  generalize hwant : (if st2.hdrLeft > 0 then st2.hdrLeft else env.orc st2.readOff) = want
  have hrs : readShift env st =
      { st2 with win := st2.win ++ (env.bytes.drop st2.readOff).take
                    (chunk (fun _ => want) st2.readOff (st2.mapSize - st2.win.length) (env.bytes.length - st2.readOff)),
                 readOff := st2.readOff + chunk (fun _ => want) st2.readOff (st2.mapSize - st2.win.length) (env.bytes.length - st2.readOff),
                 hdrLeft := st2.hdrLeft - chunk (fun _ => want) st2.readOff (st2.mapSize - st2.win.length) (env.bytes.length - st2.readOff),
                 atEnd := st2.atEnd || chunk (fun _ => want) st2.readOff (st2.mapSize - st2.win.length) (env.bytes.length - st2.readOff) == 0 } := by
    unfold readShift
    simp only [hs1, hs2, hwant]
  rw [hrs]
  generalize hn : chunk (fun _ => want) st2.readOff (st2.mapSize - st2.win.length) (env.bytes.length - st2.readOff) = n
  have hnle := chunk_le (fun _ => want) st2.readOff (st2.mapSize - st2.win.length) (env.bytes.length - st2.readOff)
  rw [hn] at hnle
  have hro_le : st2.readOff ≤ env.bytes.length := by rw [ro2, hro]; exact hir
  have hnpos : 0 < env.bytes.length - st2.readOff → 0 < n := by
    intro ha
    rw [← hn]; exact chunk_pos _ _ _ _ (by omega) ha
  -- the new window
  have hwin : st2.win ++ (env.bytes.drop st2.readOff).take n = (env.bytes.drop st2.mappedOffset).take (st2.win.length + n) := by
    conv => lhs; rw [w2, r2]
    rw [← List.drop_drop, take_append_take_drop]
  have hlen : (st2.win ++ (env.bytes.drop st2.readOff).take n).length = st2.win.length + n := by
    simp [List.length_take]; omega
  have hinv : Inv env { st2 with win := st2.win ++ (env.bytes.drop st2.readOff).take n, readOff := st2.readOff + n,
                                 hdrLeft := st2.hdrLeft - n, atEnd := st2.atEnd || n == 0,
                                 ls1 := computeLs1 (st2.win ++ (env.bytes.drop st2.readOff).take n) st2.pos } := by
    refine { page_pos := hpp, pos_le := ?_, in_range := ?_, win_eq := ?_, atEnd_end := ?_, map_big := ?_,
             read_off := ?_, mmap_al := ?_, ls := ?_ }
    · show st2.pos ≤ _; rw [hlen]; omega
    · show st2.mappedOffset + _ ≤ _; rw [hlen]; omega
    · show _ = (env.bytes.drop st2.mappedOffset).take _; rw [hlen]; exact hwin
    · intro ha
      show st2.mappedOffset + _ = _
      rw [hlen]
      simp [e2] at ha
      subst ha
      have : ¬ 0 < env.bytes.length - st2.readOff := fun hc => by have := hnpos hc; omega
      omega
    · show env.cfg.page < st2.mapSize; omega
    · intro _
      show st2.readOff + n = st2.mappedOffset + _ ∧ _ ≤ st2.mapSize
      rw [hlen]; omega
    · intro hmm; exact absurd (show st2.mode = .mmap from hmm) (by rw [m2]; decide)
    · apply LS_compute
      show st2.pos ≤ _; rw [hlen]; omega
  refine { inv := hinv, offset_eq := ?_, mu_lt := ?_, nonempty_or_end := ?_ }
  · show st2.pos + st2.mappedOffset = st.offset; exact o2
  · unfold mu
    show (if st2.mode = .mmap then env.bytes.length + 2 else 0) + (env.bytes.length - (st2.mappedOffset + _)) +
        (if (st2.atEnd || n == 0) = true then 0 else 1) <
      (if st.mode = .mmap then env.bytes.length + 2 else 0) + (env.bytes.length - (st.mappedOffset + st.win.length)) +
        (if st.atEnd = true then 0 else 1)
    rw [hlen, he, e2, m2, hm]
    simp only [reduceCtorEq, ↓reduceIte]
    by_cases hz : n = 0
    · subst hz; simp; omega
    · have : (n == 0) = false := by simp [hz]
      simp [this]; omega
  · by_cases hz : n = 0
    · right; show (st2.atEnd || n == 0) = true; simp [hz]
    · left
      show (st2.win ++ (env.bytes.drop st2.readOff).take n).drop st2.pos ≠ []
      intro hc
      have := congrArg List.length hc
      rw [List.length_drop, hlen] at this
      simp at this; omega


/-- both repairs that concern `Shift` -/
def ShiftFixed (env : Env) : Prop := env.cfg.fixH = true ∧ env.cfg.fixF = true

/-- `ReadShift` neither reads nor writes `last_space_` -/
theorem readShift_ls1 (env : Env) (st : St) (a : Nat) :
    readShift env { st with ls1 := a } = { readShift env st with ls1 := a } := by
  unfold readShift
  dsimp only
  split <;> split <;> (try split) <;> rfl

/-- two windows at the same `Offset()` agree on the bytes they both show -/
theorem visible_common {env : Env} {st st' : St} (h : Inv env st) (h' : Inv env st') (ho : st'.offset = st.offset) :
    st'.visible.take st.visible.length = st.visible.take st'.visible.length := by
  have e : st'.rest env = st.rest env := by simp [St.rest, ho]
  rw [h'.visible_eq, h.visible_eq, e, List.take_take, List.take_take, List.length_take, List.length_take]
  congr 1
  omega

theorem mmapShift_eq (env : Env) (st : St) (g M' : Nat) (hg : g = st.offset % env.cfg.page)
    (hM : M' = if st.pos = g ∧ st.started then 2 * st.mapSize else st.mapSize) :
    mmapShift env st =
      if env.bytes.length - (st.offset - g) = 0 ∨ env.mmapFail (st.offset - g) = true then
        readShift env (transitionToRead
          { st with mapSize := M', atEnd := false,
                    mappedOffset := (if env.cfg.fixF then st.offset else st.mappedOffset) } st.offset)
      else if M' ≥ env.bytes.length - (st.offset - g) then
        { st with mapSize := M', mappedOffset := st.offset - g,
                  win := (env.bytes.drop (st.offset - g)).take (env.bytes.length - (st.offset - g)),
                  pos := g, atEnd := true, started := true }
      else
        { st with mapSize := M', mappedOffset := st.offset - g, win := (env.bytes.drop (st.offset - g)).take M',
                  pos := g, atEnd := false, started := true } := by
  subst hg hM; rfl

theorem mmapShift_post {env : Env} {st : St} (hfix : ShiftFixed env) (h : Inv env st)
    (hm : st.mode = .mmap) (he : st.atEnd = false) :
    ShiftPost env st { mmapShift env st with ls1 := computeLs1 (mmapShift env st).win (mmapShift env st).pos } := by
  obtain ⟨hfixH, hfixF⟩ := hfix
  obtain ⟨hdvd, hst, hns⟩ := h.mmap_al hm
  have hpp := h.page_pos
  have hmb := h.map_big
  have hpos := h.pos_le
  have hir := h.in_range
  have hg_lt : st.offset % env.cfg.page < env.cfg.page := Nat.mod_lt _ hpp
  have hg_le_pos : st.offset % env.cfg.page ≤ st.pos := by
    obtain ⟨q, hq⟩ := hdvd
    have : st.offset % env.cfg.page = st.pos % env.cfg.page := by
      unfold St.offset; rw [hq, Nat.add_mul_mod_self_left]
    rw [this]; exact Nat.mod_le _ _
  have hmo_dvd : env.cfg.page ∣ st.offset - st.offset % env.cfg.page := by
    refine ⟨st.offset / env.cfg.page, ?_⟩
    have := Nat.div_add_mod st.offset env.cfg.page
    omega
  have hoff : st.offset = st.pos + st.mappedOffset := rfl
  generalize hg : st.offset % env.cfg.page = g at hg_lt hg_le_pos hmo_dvd
  generalize hM : (if st.pos = g ∧ st.started then 2 * st.mapSize else st.mapSize) = M'
  have hMge : st.mapSize ≤ M' := by subst hM; split <;> omega
  rw [mmapShift_eq env st g M' hg.symm hM.symm]
  generalize hD : st.offset = D at *
  by_cases hA : env.bytes.length - (D - g) = 0 ∨ env.mmapFail (D - g) = true
  · -- fall back to read(): the window is thrown away, the reader continues at `desired_begin`
    rw [if_pos hA]
    simp only [hfixF, ↓reduceIte]
    generalize hX : transitionToRead { st with mapSize := M', atEnd := false, mappedOffset := D } D = X
    have hXf : X.mode = .read ∧ X.atEnd = false ∧ X.win = [] ∧ X.pos = 0 ∧ X.mappedOffset = D ∧ X.readOff = D ∧
        X.mapSize = M' := by subst hX; simp [transitionToRead]
    obtain ⟨xm, xe, xw, xp, xo, xr, xs⟩ := hXf
    have hinv0 : Inv env { X with ls1 := 0 } := by
      refine { page_pos := hpp, pos_le := ?_, in_range := ?_, win_eq := ?_, atEnd_end := ?_, map_big := ?_,
               read_off := ?_, mmap_al := ?_, ls := ?_ }
      · show X.pos ≤ X.win.length; rw [xp]; exact Nat.zero_le _
      · show X.mappedOffset + X.win.length ≤ _; rw [xo, xw]; simp; omega
      · show X.win = _; rw [xw]; simp
      · intro hc; exact absurd (show X.atEnd = true from hc) (by rw [xe]; decide)
      · show env.cfg.page < X.mapSize; omega
      · intro _; show X.readOff = X.mappedOffset + X.win.length ∧ X.win.length ≤ X.mapSize
        rw [xr, xo, xw]; simp
      · intro hc; exact absurd (show X.mode = .mmap from hc) (by rw [xm]; decide)
      · left; exact ⟨by show 0 ≤ X.pos; omega, by show ∀ b ∈ X.win.drop X.pos, _; rw [xw]; simp⟩
    have hp := readShift_post hfixH hinv0 (by show X.mode = .read; exact xm) (by show X.atEnd = false; exact xe)
    rw [readShift_ls1] at hp
    have hp : ShiftPost env { X with ls1 := 0 }
        { readShift env X with ls1 := computeLs1 (readShift env X).win (readShift env X).pos } := hp
    refine { inv := hp.inv, offset_eq := ?_, mu_lt := ?_, nonempty_or_end := hp.nonempty_or_end }
    · have := hp.offset_eq
      have e : ({ X with ls1 := 0 } : St).offset = X.pos + X.mappedOffset := rfl
      rw [e, xp, xo] at this
      first
        | (rw [this]; done)
        | (rw [this]; omega)
    · refine Nat.lt_of_lt_of_le hp.mu_lt ?_
      have hmuX : mu env { X with ls1 := 0 } ≤ env.bytes.length + 1 := by
        simp only [mu]
        show (if X.mode = .mmap then _ else 0) + _ + (if X.atEnd = true then 0 else 1) ≤ _
        rw [xm, xe]; simp
        first | omega | done
      have hmust : env.bytes.length + 2 ≤ mu env st := by
        simp only [mu, hm, ↓reduceIte]; omega
      exact Nat.le_trans hmuX (by omega)
  · rw [if_neg hA]
    have hA1 : ¬ env.bytes.length - (D - g) = 0 := fun hc => hA (Or.inl hc)
    by_cases hB : M' ≥ env.bytes.length - (D - g)
    · rw [if_pos hB]
      have hDlt : D < env.bytes.length := by
        cases hs : st.started with
        | false => obtain ⟨hw, hp0, hmo0⟩ := hns hs; omega
        | true => have := hst hs he; omega
      have hlen : ((env.bytes.drop (D - g)).take (env.bytes.length - (D - g))).length = env.bytes.length - (D - g) := by
        simp [List.length_take]
      refine { inv := ?_, offset_eq := ?_, mu_lt := ?_, nonempty_or_end := ?_ }
      · refine { page_pos := hpp, pos_le := ?_, in_range := ?_, win_eq := ?_, atEnd_end := ?_, map_big := ?_,
                 read_off := ?_, mmap_al := ?_, ls := ?_ }
        · show g ≤ _; rw [hlen]; omega
        · show (D - g) + _ ≤ _; rw [hlen]; omega
        · show _ = (env.bytes.drop (D - g)).take _; rw [hlen]
        · intro _; show (D - g) + _ = _; rw [hlen]; omega
        · show env.cfg.page < M'; omega
        · intro hc; exact absurd (show st.mode = .read from hc) (by rw [hm]; decide)
        · intro _
          refine ⟨hmo_dvd, ?_, ?_⟩
          · intro _ hc; exact absurd (show true = false from hc) (by decide)
          · intro hc; exact absurd (show true = false from hc) (by decide)
        · apply LS_compute; show g ≤ _; rw [hlen]; omega
      · show g + (D - g) = st.offset; omega
      · simp only [mu]
        show (if st.mode = .mmap then _ else 0) + (env.bytes.length - ((D - g) + _)) + (if true = true then 0 else 1) < _
        rw [hlen, he, hm]; simp; omega
      · left
        show List.drop g _ ≠ []
        intro hc
        have := congrArg List.length hc
        rw [List.length_drop, hlen] at this
        simp at this; omega
    · rw [if_neg hB]
      have hlen : ((env.bytes.drop (D - g)).take M').length = M' := by
        simp [List.length_take]; omega
      have hgrow : st.mappedOffset + st.win.length < (D - g) + M' := by
        cases hs : st.started with
        | false => obtain ⟨hw, hp0, hmo0⟩ := hns hs; have : st.win.length = 0 := by simp [hw]
                   omega
        | true =>
          have := hst hs he
          subst hM
          by_cases hc : st.pos = g
          · simp [hc, hs]; omega
          · simp [hc]; omega
      refine { inv := ?_, offset_eq := ?_, mu_lt := ?_, nonempty_or_end := ?_ }
      · refine { page_pos := hpp, pos_le := ?_, in_range := ?_, win_eq := ?_, atEnd_end := ?_, map_big := ?_,
                 read_off := ?_, mmap_al := ?_, ls := ?_ }
        · show g ≤ _; rw [hlen]; omega
        · show (D - g) + _ ≤ _; rw [hlen]; omega
        · show _ = (env.bytes.drop (D - g)).take _; rw [hlen]
        · intro hc; exact absurd (show false = true from hc) (by decide)
        · show env.cfg.page < M'; omega
        · intro hc; exact absurd (show st.mode = .read from hc) (by rw [hm]; decide)
        · intro _
          refine ⟨hmo_dvd, ?_, ?_⟩
          · intro _ _; show _ = M' ∧ (D - g) + _ < _; rw [hlen]; omega
          · intro hc; exact absurd (show true = false from hc) (by decide)
        · apply LS_compute; show g ≤ _; rw [hlen]; omega
      · show g + (D - g) = st.offset; omega
      · simp only [mu]
        show (if st.mode = .mmap then _ else 0) + (env.bytes.length - ((D - g) + _)) + (if false = true then 0 else 1) < _
        rw [hlen, he, hm]; simp; omega
      · left
        show List.drop g _ ≠ []
        intro hc
        have := congrArg List.length hc
        rw [List.length_drop, hlen] at this
        simp at this; omega

/-- `Shift()` on a state that has not seen the end succeeds and makes progress. -/
theorem shift_post {env : Env} {st : St} (hfix : ShiftFixed env) (h : Inv env st) (he : st.atEnd = false) :
    ∃ st', shift env st = .ok st' ∧ ShiftPost env st st' := by
  unfold shift
  simp only [he, Bool.false_eq_true, ↓reduceIte]
  cases hm : st.mode with
  | mmap => exact ⟨_, rfl, mmapShift_post hfix h hm he⟩
  | read => exact ⟨_, rfl, readShift_post hfix.1 h hm he⟩

theorem shift_atEnd {env : Env} {st : St} (he : st.atEnd = true) : shift env st = .error .eof := by
  simp [shift, he]

end KV.FilePiece
