import Proofs.ProbingRestFold
import Proofs.ProbingRestRefines
/-! From the payload-level invariant `InvT` to `RepresentsR` with `R := restOf a Sf`. -/
namespace KV.ProbingBuild
open KV.Arpa KV.Table KV.Score KV.ProbingLM KV.Left

theorem ordG_of_T {combine : Nat → Word → Nat} {a : Arpa} {u0 : List W} {S : List Key} {m cap : Nat} {o : Ord} {M : Nat → Option Nat}
    (hP : OrdP combine (keysOf S m) cap o M (wantT a u0 S)) :
    OrdG combine a S m cap (withPay o ((keysOf S m).map (wantW a S))) M := by
  refine ⟨⟨hP.inv.inv, hP.inv.abs, fun k i hk => ?_⟩, hP.ent, hP.cap, by simp [withPay], hP.key, ?_, hP.only⟩
  · have := hP.inv.idx k i hk
    rw [hP.plen] at this
    simpa [withPay] using this
  · intro j hj
    simp [withPay, List.getD_eq_getElem?_getD, hj]

theorem wFound_true_rest (w : W) (r : Rat) : wFound true { w with rest := r } = { (wFound false w) with rest := r } := by
  simp [wFound]

/-- a stored n-gram of order ≥ 2 is found with the payload `Table.build` prescribes and `rest = restOf` -/
theorem stored_of_T {combine : Nat → Word → Nat} {a : Arpa} {nWords : Nat} {um : Rat} (ok : ArpaOK' a nWords um)
    {Sf : List Key} (f : Final a Sf) {m cap : Nat} {o : Ord} {M : Nat → Option Nat}
    (hP : OrdP combine (keysOf Sf m) cap o M (wantT a (initUni a nWords) Sf))
    (g : List Word) (t : TEntry) (hl : g.length = m) (h2 : 2 ≤ m) (ht : (KV.Table.build a).lookup g = some t) :
    ∃ j, M (hashOf combine g) = some j ∧
      wFound true (o.pay.getD j default) = { toFound t with rest := restOf a Sf g } ∧ -(o.pay.getD j default).mag = t.prob := by
  obtain ⟨j, hj, hw⟩ := stored_of_G ok f (ordG_of_T hP) g t hl h2 ht
  have hne : (KV.Table.build a).lookup g ≠ none := by rw [ht]; simp
  have hkey : IsKey a g := (build_lookup_ne_none a _ g).mp hne
  obtain ⟨j', hj', hje, hk⟩ := hP.find_mem g ((mem_keysOf Sf m g).mpr ⟨f.key_mem g hkey (by omega), hl⟩)
  have hjj : j = j' := by rw [hk] at hj; injection hj with hj; exact hj.symm
  subst hjj
  have hpf : (withPay o ((keysOf Sf m).map (wantW a Sf))).pay.getD j default = wantW a Sf g := by
    simp [withPay, List.getD_eq_getElem?_getD, hj', hje]
  rw [hpf] at hw
  have hpt := hP.pay j hj'
  rw [hje] at hpt
  have hn1 : ¬ g.length = 1 := by omega
  have hT : wantT a (initUni a nWords) Sf g = { (wantW a Sf g) with rest := restOf a Sf g } := by
    simp [wantT, wantAll, hn1]
  refine ⟨j, hk, ?_, ?_⟩
  · rw [hpt, hT, wFound_true_rest, hw]
  · rw [hpt, hT]
    have := congrArg Found.prob hw
    simpa [wFound, toFound] using this

theorem restOf_unknown {a : Arpa} {Sf : List Key} (f : Final a Sf) (w : Word) (hg : a.gram [w] = none)
    (hx : extendsLeft a [w] = false) : restOf a Sf [w] = 0 := by
  have hv : val a [w] = 0 := by rw [val_uni]; simp [Arpa.uniProb, hg]
  apply Rat.le_antisymm
  · apply restOf_le
    · rw [hv]; exact Rat.le_refl
    · intro k' hk' hp
      exfalso
      have hkey := f.si.keys k' hk'
      have h2 := f.si.len2 k' hk'
      have : extendsLeft a [w] = true := by
        rw [extendsLeft_iff]
        rcases hkey.2 with hr | he
        · exact ⟨k', hr, by simp; omega, hp⟩
        · obtain ⟨p, hpr, hl, hpp⟩ := (extendsLeft_iff a k').mp he
          exact ⟨p, hpr, by simp; omega, hp.trans hpp⟩
      rw [hx] at this; cases this
  · rw [← hv]; exact restOf_ge_self a Sf [w]

theorem uni_of_T {combine : Nat → Word → Nat} {a : Arpa} {nWords : Nat} {um : Rat} (ok : ArpaOK' a nWords um)
    (hu : a.unkHallucinated = false) {caps : Nat → Nat} {Sf : List Key} (f : Final a Sf) (s : St)
    (inv : InvT combine a nWords caps Sf s) (w : Word) :
    wFound true (s.uni.getD w default) = ((restSearch (KV.Table.build a) (restOf a Sf)).lookupUnigram w).1 := by
  have hval : ∀ w', s.uni.getD w' default =
      { (expU Sf w' ((initUni a nWords).getD w' default)) with rest := restOf a Sf [w'] } := by
    intro w'; rw [inv.uni w']; simp [wantT, wantAll]
  have sem : UniG (initUni a nWords) Sf
      ({ s with uni := (List.range s.uni.length).map (fun w => expU Sf w ((initUni a nWords).getD w default)) } : St).uni := by
    refine ⟨by simp [inv.ulen], fun w' => ?_⟩
    by_cases hw : w' < s.uni.length
    · simp [List.getD_eq_getElem?_getD, hw]
    · have hd : s.uni.getD w' default = default := by
        rw [List.getD_eq_getElem?_getD, List.getElem?_eq_none (by omega)]; rfl
      have hd0 : (initUni a nWords).getD w' default = default := by
        rw [List.getD_eq_getElem?_getD, List.getElem?_eq_none (by rw [← inv.ulen]; omega)]; rfl
      have h := hval w'
      rw [hd, hd0] at h
      have hl : ((List.range s.uni.length).map (fun w => expU Sf w ((initUni a nWords).getD w default))).getD w' default = default := by
        rw [List.getD_eq_getElem?_getD, List.getElem?_eq_none (by simp; omega)]; rfl
      show ((List.range s.uni.length).map (fun w => expU Sf w ((initUni a nWords).getD w default))).getD w' default = _
      rw [hl, hd0]
      apply W.ext'
      · have := congrArg W.mag h; exact this
      · have := congrArg W.neg h; exact this
      · have := congrArg W.backoff h; exact this
      · have := congrArg W.xr h; exact this
      · rfl
  have hf := uni_of_G ok f _ sem w
  have hfix : ∀ s' : St, fixUnk a um s' = s' := by intro s'; unfold fixUnk; simp [hu]
  rw [hfix, sem.val w] at hf
  rw [hval w, wFound_true_rest, hf]
  simp only [restSearch, tableSearch, foundOf]
  cases hl : (KV.Table.build a).lookup [w] with
  | some t => simp
  | none =>
    have hnn : ¬ ((KV.Table.build a).lookup [w] ≠ none) := by rw [hl]; simp
    rw [build_lookup_ne_none] at hnn
    have hg : a.gram [w] = none := by
      cases h : a.gram [w] with
      | none => rfl
      | some e => exact absurd ⟨by simp, Or.inl (by rw [h]; simp)⟩ hnn
    have hx : extendsLeft a [w] = false := by
      cases h : extendsLeft a [w] with
      | false => rfl
      | true => exact absurd ⟨by simp, Or.inr h⟩ hnn
    simp [notFound, restOf_unknown f w hg hx]

/-- **`InvT` at the end of the file implies `RepresentsR`** with `R := restOf a Sf` -/
theorem representsR_of_invT (combine : Nat → Word → Nat) (a : Arpa) (nWords : Nat) (um : Rat) (ok : ArpaOK' a nWords um)
    (hu : a.unkHallucinated = false) (caps : Nat → Nat) (Sf : List Key) (f : Final a Sf) (s : St)
    (inv : InvT combine a nWords caps Sf s) :
    ∃ Mmid Mlong, RepresentsR combine (toPLM true a.order s) (KV.Table.build a) (restOf a Sf) Mmid Mlong := by
  have hN := ok.wf.order_ge
  have hmid : ∀ om2, om2 + 2 < a.order → tbl a.order s (om2 + 2) = s.mid.getD om2 default := by
    intro om2 h
    unfold tbl
    have : ¬ om2 + 2 = a.order := by omega
    simp [this]
  have hlong : tbl a.order s a.order = s.longest := by unfold tbl; simp
  have hex : ∀ om2, om2 + 2 < a.order →
      ∃ M, OrdP combine (keysOf Sf (om2 + 2)) (caps (om2 + 2)) (s.mid.getD om2 default) M (wantT a (initUni a nWords) Sf) := by
    intro om2 h
    obtain ⟨M, sem⟩ := inv.tabs (om2 + 2) (by omega) (by omega)
    rw [hmid om2 h] at sem
    exact ⟨M, sem⟩
  let Mmid : Nat → Nat → Option Nat := fun om2 =>
    if h : om2 + 2 < a.order then Classical.choose (hex om2 h) else fun _ => none
  have hMmid : ∀ om2 (h : om2 + 2 < a.order),
      OrdP combine (keysOf Sf (om2 + 2)) (caps (om2 + 2)) (s.mid.getD om2 default) (Mmid om2) (wantT a (initUni a nWords) Sf) := by
    intro om2 h
    have := Classical.choose_spec (hex om2 h)
    simp only [Mmid, h, dif_pos]
    exact this
  obtain ⟨Mlong, semL⟩ := inv.tabs a.order hN (Nat.le_refl _)
  rw [hlong] at semL
  refine ⟨Mmid, Mlong, ⟨rfl, ?_, ?_, ?_, ?_, ?_, ?_, ?_⟩⟩
  · intro w
    exact uni_of_T ok hu f s inv w
  · intro om2
    show KV.Probing.Inv id (s.mid.getD om2 default).t ∧ KV.Probing.Abs (s.mid.getD om2 default).t (Mmid om2)
    by_cases h : om2 + 2 < a.order
    · exact ⟨(hMmid om2 h).inv.inv, (hMmid om2 h).inv.abs⟩
    · have hge : s.mid.length ≤ om2 := by rw [inv.midlen]; omega
      have hd : s.mid.getD om2 default = default := by
        rw [List.getD_eq_getElem?_getD, List.getElem?_eq_none hge]; rfl
      rw [hd]
      simp only [Mmid, h, dif_neg, not_false_eq_true]
      exact ⟨KV.Probing.Inv_empty id 1 (by decide), KV.Probing.Abs_empty 1⟩
  · exact ⟨semL.inv.inv, semL.inv.abs⟩
  · intro om2 g t hl hlt ht
    have hlt' : om2 + 2 < a.order := hlt
    obtain ⟨j, hj, hw, _⟩ := stored_of_T ok f (hMmid om2 hlt') g t hl (by omega) ht
    exact ⟨j, hj, hw⟩
  · intro om2 k v h
    by_cases hlt : om2 + 2 < a.order
    · exact only_of_G f (ordG_of_T (hMmid om2 hlt)) k v h
    · simp only [Mmid, hlt, dif_neg, not_false_eq_true] at h
      cases h
  · intro g t hl ht
    have hl' : g.length = a.order := hl
    obtain ⟨j, hj, _, hp⟩ := stored_of_T ok f semL g t hl' hN ht
    exact ⟨j, hj, hp⟩
  · intro k v h
    exact only_of_G f (ordG_of_T semL) k v h

end KV.ProbingBuild
