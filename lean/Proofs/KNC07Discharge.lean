import Proofs.KNC07Base
import Proofs.VocabTop
import Properties.C16
import Properties.C17
/-!
Discharging the hypotheses of `KV.C07.lmplz_indep` with the theorems of C20 (vocabulary), C16
(external sort) and C17 (chains).  Core Lean only.

* §1 vocabulary: `h_vocab` and `h_ids` follow from C20's `vocab_ids_indep'` and the definition of the
  first-occurrence specification (`lmplz_indep_vocab_pf`).
* §2 external sort: KN records `(reversed gram, count)` ↔ `KV.Sort.Rec` (`toRec`); `SuffixOrder` on the
  translated records is the order `gramLe` sorts by (`suffixLt_toRec`); for duplicate-free blocks — and the
  blocks of CorpusCount are duplicate-free (`blocks_nodup_pf`) — **every** run of C16's `extSort` with
  `CombineCounts` (any tie-break policy `pick`, any merge plan, any number of blocks incl. 0 and 1) returns
  the translation of `combineSorted (mergeSort gramLe all-records)` (`sort_hyp_discharged_pf`), hence also
  the plan the code computes (`sort_hyp_discharged_code_pf`).
* §3 chains: what C17's `chain_ring` gives for a finished chain (`chain_stream_deterministic_pf`): for every
  schedule and every number of blocks, stage `k+1` has received exactly the source's blocks, in order, each
  transformed by the stages before it, then the poison.  This is about C17's generic chain (opaque blocks,
  one per-block function per stage); it does not by itself yield `h_chain`, see `lmplz_indep_discharged_pf`.
* §4 `lmplz_eq_spec_discharged_pf`, `lmplz_indep_discharged_pf`.
-/
namespace KV.C07
open KV.KN KV.KN.Count

theorem isSpecial_of_gt {w : Nat} (h : 2 < w) : isSpecial w = false := by
  obtain ⟨k, rfl⟩ : ∃ k, w = k + 3 := ⟨w - 3, by omega⟩
  rfl

theorem two_le_of_not_special {w : Nat} (h : isSpecial w = false) : 2 ≤ w := by
  simp only [isSpecial, unk, bos, eos, Bool.or_eq_false_iff, beq_eq_false_iff_ne] at h
  have h0 : w ≠ 0 := h.1.1
  have h1 : w ≠ 1 := h.1.2
  exact Nat.lt_of_le_of_ne (Nat.pos_of_ne_zero h0) (Ne.symm h1)

/-! ## 1. Vocabulary (C20) -/
section vocab
open KV.Vocab
variable {W : Type} [DecidableEq W]

theorem specLine_ids_gt (l : List W) : ∀ (seen : List W), ∀ w ∈ (specLine seen l).1, 2 < w := by
  induction l with
  | nil => intro seen w hw; simp [specLine] at hw
  | cons k ks ih =>
    intro seen w hw
    simp only [specLine] at hw
    split at hw
    · exact ih _ w hw
    · rcases List.mem_cons.1 hw with rfl | hw
      · omega
      · exact ih _ w hw

theorem specLines_ids_gt (text : List (List W)) : ∀ (seen : List W), ∀ s ∈ (specLines seen text).1, ∀ w ∈ s, 2 < w := by
  induction text with
  | nil => intro seen s hs; simp [specLines] at hs
  | cons l ls ih =>
    intro seen s hs
    simp only [specLines] at hs
    rcases List.mem_cons.1 hs with rfl | hs
    · exact specLine_ids_gt l seen
    · exact ih _ s hs

/-- `h_ids` is a property of the specification: the three special words are dropped, every other word
has an id ≥ 3 -/
theorem firstOccurrenceIds_not_special (unk bos eos : W) (text : List (List W)) :
    ∀ s ∈ firstOccurrenceIds unk bos eos text, ∀ w ∈ s, isSpecial w = false := by
  intro s hs w hw
  exact isSpecial_of_gt (specLines_ids_gt text [unk, bos, eos] s hs w hw)

/-- **`h_vocab` and `h_ids` discharged by C20 `vocab_ids_indep'`** (the content of
`Proofs/VocabC07Bridge.lean`'s `lmplz_indep_growable`, here without `h_ids`).  Remaining vocabulary
hypotheses: `h_enc` (the encoder *is* `GrowableVocab` over the tokenised text, initial size `xOf m`),
`hx`, `hsp`, `hinj`/`hnz` (the 64-bit hash is injective and non-zero on the words that occur), `hmax`
(fewer than 2^32-1 types). -/
theorem lmplz_indep_vocab_pf {Mem Sched Out : Type}
    (I : Impl Mem Sched (List (List W)) Out) (render : Except Err Model → Out) (opts : Opts)
    (hN : 1 ≤ opts.cfg.order) (text : List (List W))
    (hash : W → Nat) (unk bos eos : W) (unkCapHash : Nat) (xOf : Mem → Nat)
    (hx : ∀ m, 1 ≤ xOf m ∧ xOf m ≤ 2^63)
    (h_enc : ∀ m t, I.encode m t = growableIds hash unk bos eos unkCapHash (xOf m) t)
    (hsp : unk ≠ bos ∧ unk ≠ eos ∧ bos ≠ eos)
    (hinj : InjOn hash ([unk, bos, eos] ++ text.flatten))
    (hnz : ∀ w, w ∈ [unk, bos, eos] ++ text.flatten → hash w ≠ 0)
    (hmax : (specEncode unk bos eos text).2 < kWordIndexMax)
    (h_sort : ∀ m s blocks, I.sortCombine m s blocks = combineSorted (blocks.flatten.mergeSort gramLe))
    (h_chain : ∀ m s full, I.post m s opts full = render (estimateFrom opts.cfg opts.pruneVocab opts.fallback full))
    (m₁ m₂ : Mem) (s₁ s₂ : Sched) :
    lmplzOut I m₁ s₁ opts text = lmplzOut I m₂ s₂ opts text :=
  lmplz_indep_base I render (firstOccurrenceIds unk bos eos) opts hN text
    (fun m => by rw [h_enc]; exact vocab_ids_indep' hash unk bos eos unkCapHash xOf hx text hsp hinj hnz hmax m)
    (firstOccurrenceIds_not_special unk bos eos text) h_sort h_chain m₁ m₂ s₁ s₂

end vocab

/-! ## 2. External sort (C16) -/

/-- a KN record (reversed n-gram, count) as a record of C16's model (key in natural word order) -/
def toRec (e : Count.Rec) : KV.Sort.Rec := ⟨e.1.reverse, e.2⟩
def ofRec (r : KV.Sort.Rec) : Count.Rec := (r.key.reverse, r.payload)
def toBlocks (blocks : List (List Count.Rec)) : List (List KV.Sort.Rec) := blocks.map (·.map toRec)

@[simp] theorem ofRec_toRec (e : Count.Rec) : ofRec (toRec e) = e := by
  simp [ofRec, toRec]

theorem map_ofRec_toRec (l : List Count.Rec) : (l.map toRec).map ofRec = l := by
  simp [List.map_map, Function.comp_def]

theorem toBlocks_flatten (blocks : List (List Count.Rec)) : (toBlocks blocks).flatten = blocks.flatten.map toRec := by
  simp [toBlocks, List.map_flatten]

/-- C16's lexicographic `<` on word lists is the order of `List Nat` -/
theorem lexLt_iff : ∀ (a b : List Nat), KV.Sort.lexLt a b = true ↔ a < b
  | [], [] => by simp [KV.Sort.lexLt]
  | [], _ :: _ => by simp [KV.Sort.lexLt]
  | _ :: _, [] => by simp [KV.Sort.lexLt]
  | x :: xs, y :: ys => by
    have ih := lexLt_iff xs ys
    by_cases h : x = y
    · subst h; simp [KV.Sort.lexLt, ih]
    · simp [KV.Sort.lexLt, h, List.cons_lt_cons_iff]

/-- `SuffixOrder` on translated records = `<` on the reversed n-grams (what `gramLe` sorts by) -/
theorem suffixLt_toRec (a b : Count.Rec) : KV.Sort.suffixLt (toRec a) (toRec b) = true ↔ a.1 < b.1 := by
  simp [KV.Sort.suffixLt, toRec, lexLt_iff]

theorem tot_toRec (k : List Nat) (l : List Count.Rec) :
    KV.Sort.tot KV.Sort.Rec.key KV.Sort.Rec.payload k (l.map toRec) = total k.reverse l := by
  unfold KV.Sort.tot total
  rw [List.map_map]
  congr 1
  apply List.map_congr_left
  intro e _
  have : ((toRec e).key = k) ↔ (e.1 = k.reverse) := by
    show e.1.reverse = k ↔ _
    constructor
    · intro h; rw [← h, List.reverse_reverse]
    · intro h; rw [h, List.reverse_reverse]
  simp only [Function.comp_apply]
  by_cases h : e.1 = k.reverse
  · rw [if_pos h, if_pos (this.2 h)]; rfl
  · rw [if_neg h, if_neg (fun h' => h (this.1 h'))]

/-- the translated `combineSorted ∘ mergeSort` table is the canonical form (C16 `Canon`) of the
translated records -/
theorem canon_combineSorted (recs : List Count.Rec) :
    KV.Sort.Canon KV.Sort.suffixLt KV.Sort.Rec.key KV.Sort.Rec.payload (recs.map toRec)
      ((combineSorted (recs.mergeSort gramLe)).map toRec) := by
  obtain ⟨hs, hk, ht⟩ := combine_sort_spec recs
  refine ⟨?_, ⟨?_, ?_⟩, ?_⟩
  · rw [List.pairwise_map]
    exact hs.imp (fun h => (suffixLt_toRec _ _).2 h)
  · intro x hx
    obtain ⟨e, he, rfl⟩ := List.mem_map.1 hx
    have : e.1 ∈ (combineSorted (recs.mergeSort gramLe)).map (·.1) := (hk e.1).2 (List.mem_map_of_mem he)
    obtain ⟨f, hf, hfe⟩ := List.mem_map.1 this
    exact ⟨toRec f, List.mem_map_of_mem hf, by simp [toRec, hfe]⟩
  · intro z hz
    obtain ⟨f, hf, rfl⟩ := List.mem_map.1 hz
    have : f.1 ∈ recs.map (·.1) := (hk f.1).1 (List.mem_map_of_mem hf)
    obtain ⟨e, he, hef⟩ := List.mem_map.1 this
    exact ⟨toRec e, List.mem_map_of_mem he, by simp [toRec, hef]⟩
  · intro k
    rw [tot_toRec, tot_toRec, ht]

theorem toBlocks_nodup {blocks : List (List Count.Rec)} (hnd : ∀ b ∈ blocks, (b.map (·.1)).Nodup) :
    ∀ b ∈ toBlocks blocks, (b.map KV.Sort.Rec.key).Nodup := by
  intro b hb
  obtain ⟨b0, hb0, rfl⟩ := List.mem_map.1 hb
  have : (b0.map toRec).map KV.Sort.Rec.key = (b0.map (·.1)).map List.reverse := by
    simp [List.map_map, Function.comp_def, toRec]
  rw [this]
  exact List.Pairwise.map List.reverse (fun a b hne h => hne (List.reverse_inj.1 h)) (hnd b0 hb0)

/-- **`h_sort` as a theorem of C16** (`extSort_canon` + `Canon.unique` with `counting_suffix`): for
duplicate-free chain blocks, every external sort with `CombineCounts` under `SuffixOrder` — every
tie-break policy, every merge plan (any number of passes, any grouping, lazy or not), any number of
blocks including none and one (`ReadSingle`) — returns the sorted, combined table of all records. -/
theorem sort_hyp_discharged_pf (blocks : List (List Count.Rec)) (hnd : ∀ b ∈ blocks, (b.map (·.1)).Nodup)
    (pick : KV.Sort.Pick KV.Sort.Rec) (plan : List (List Nat)) :
    KV.Sort.extSort KV.Sort.suffixLt KV.Sort.combineCounts pick (toBlocks blocks) plan =
      some ((combineSorted (blocks.flatten.mergeSort gramLe)).map toRec) := by
  obtain ⟨out, ho⟩ := KV.C16.extSort_isSome KV.Sort.suffixLt KV.Sort.combineCounts pick (toBlocks blocks) plan
  rw [ho]
  congr 1
  have c1 := KV.C16.extSort_canon KV.C16.counting_suffix pick (toBlocks blocks) (Or.inl (toBlocks_nodup hnd)) plan ho
  rw [toBlocks_flatten] at c1
  exact KV.Sort.Canon.unique KV.C16.counting_suffix c1 (canon_combineSorted blocks.flatten) (List.Perm.refl _)

/-- … in particular the plan the code computes (`Sort::Merge`, `MergingReader::Run`,
`OwningMergingReader`) for every accepted `(entry_size, buffer_size, total_memory)` and every lazy
memory: it completes (C16 `codeSort_ok`) and returns that table (C16 `codeSort_refines`). -/
theorem sort_hyp_discharged_code_pf {entrySize bufferSize totalMemory : Nat} {cfg : KV.Sort.Cfg}
    (hcfg : KV.Sort.mkCfg entrySize bufferSize totalMemory = .ok cfg)
    (blocks : List (List Count.Rec)) (hnd : ∀ b ∈ blocks, (b.map (·.1)).Nodup)
    (pick : KV.Sort.Pick KV.Sort.Rec) (lazyMem : Nat) :
    ∃ p ret, KV.Sort.codeSort KV.Sort.suffixLt KV.Sort.combineCounts pick cfg lazyMem (toBlocks blocks) =
      .ok ((combineSorted (blocks.flatten.mergeSort gramLe)).map toRec, p, ret) := by
  obtain ⟨out, p, ret, ho⟩ := KV.C16.codeSort_ok hcfg KV.Sort.suffixLt KV.Sort.combineCounts pick lazyMem (toBlocks blocks)
  obtain ⟨plan, _, hp⟩ := KV.C16.codeSort_refines _ _ pick cfg lazyMem (toBlocks blocks) out p ret ho
  rw [sort_hyp_discharged_pf blocks hnd pick plan] at hp
  exact ⟨p, ret, by rw [ho, ← Option.some.inj hp]⟩

/-! ### the blocks of CorpusCount are duplicate-free (all orders) -/

/-- no n-gram twice in a block, `AddUnigramWord` slots included -/
def NodupB (K : List Gram) (b : Blk) : Prop :=
  ((b.pre ++ b.cur).map (·.1)).Nodup ∧ (∀ d ∈ b.done, (d.map (·.1)).Nodup) ∧ ∀ k ∈ b.pre.map (·.1), k ∈ K

theorem nodupB_writeB (K : List Gram) (cap : Nat) (b : Blk) (g : Gram) (hb : NodupB K b) (hg : g ∉ K) :
    NodupB K (writeB cap b g) := by
  obtain ⟨h1, h2, h3⟩ := hb
  unfold writeB
  cases h : incr g b.cur with
  | some c =>
    refine ⟨?_, h2, h3⟩
    simp only [List.map_append, (incr_some h).1] at h1 ⊢
    exact h1
  | none =>
    have hn := incr_eq_none.1 h
    have hnew : ((b.pre ++ (b.cur ++ [(g, 1)])).map (fun e : Count.Rec => e.1)).Nodup := by
      rw [← List.append_assoc, List.map_append, List.nodup_append]
      refine ⟨h1, by simp, ?_⟩
      intro a ha c hc
      simp only [List.map_cons, List.map_nil, List.mem_singleton] at hc
      subst hc
      intro hac; subst hac
      rw [List.map_append, List.mem_append] at ha
      rcases ha with ha | ha
      · exact hg (h3 _ ha)
      · exact hn ha
    simp only
    split
    · refine ⟨List.nodup_nil, ?_, fun k hk => by simp at hk⟩
      intro d hd
      rcases List.mem_cons.1 hd with rfl | hd
      · exact hnew
      · exact h2 d hd
    · exact ⟨hnew, h2, h3⟩

theorem nodupB_foldl (K : List Gram) (cap : Nat) (gs : List Gram) (b : Blk) (hb : NodupB K b)
    (hg : ∀ g ∈ gs, g ∉ K) : NodupB K (gs.foldl (writeB cap) b) := by
  induction gs generalizing b with
  | nil => exact hb
  | cons g gs ih =>
    exact ih _ (nodupB_writeB K cap b g hb (hg g (List.mem_cons_self ..)))
      (fun g' hg' => hg g' (List.mem_cons_of_mem _ hg'))

theorem nodupB_init_one (cap : Nat) : NodupB [[unk], [bos]] (blk (init 1 cap)) := by
  unfold init addUnigramWord
  simp only [if_true]
  split <;> split <;> simp_all [NodupB, blk, unk, bos]

/-- every block that leaves CorpusCount is duplicate-free (order 1: for a corpus without the ids of
`<unk>`, `<s>`, which `RunWithVocab` skips) -/
theorem blocks_nodup_pf {N : Nat} (hN : 1 ≤ N) (cap : Nat) (corpus : List (List Word))
    (hw : ∀ s ∈ corpus, ∀ w ∈ s, 2 ≤ w) : ∀ d ∈ corpusCount N cap corpus, (d.map (·.1)).Nodup := by
  by_cases h2 : 2 ≤ N
  · intro d hd; exact (blocks_good h2 cap corpus d hd).1
  · have e : N = 1 := by omega
    subst e
    rw [corpusCount_eq_fold (Nat.le_refl _)]
    have hK : ∀ g ∈ occurrences 1 corpus, g ∉ [[unk], [bos]] := by
      intro g hg hgK
      obtain ⟨w, rfl, hw'⟩ := mem_occurrences_one hg
      have h2w : 2 ≤ w := by
        rcases hw' with rfl | ⟨s, hs, hws⟩
        · exact Nat.le_refl _
        · exact hw s hs w hws
      simp only [List.mem_cons, List.cons.injEq, and_true, List.not_mem_nil, or_false, unk, bos] at hgK
      rcases hgK with h | h <;> (subst h; exact absurd h2w (by decide))
    obtain ⟨h1, h2', _⟩ := nodupB_foldl [[unk], [bos]] cap (occurrences 1 corpus) _ (nodupB_init_one cap) hK
    intro d hd
    simp only [finishB, List.mem_reverse, List.mem_cons] at hd
    rcases hd with rfl | hd
    · exact h1
    · exact h2' d hd

/-! ## 3. Chains (C17) -/
section chain
open KV.Chain

/-- content of a block when it reaches stage `k+1`: the source's value passed through the workers
`1 … k` (`xform j` is what worker thread `j` does to a block in C17's model) -/
def seenAt : Nat → Nat → Nat
  | 0, v => v
  | k + 1, v => xform (k + 2) (seenAt k v)

/-- **C17 `chain_ring`, read at the end of a run** (`chain_deterministic`): for every number of blocks
`b ≥ 1`, every chain length, every data and every schedule (`Reach` = any finite interleaving of the
threads), once `Chain::Wait` has returned, stage `k+1` has received exactly the source's blocks, in
order, each exactly once, each transformed by the composition of the stage functions before it, followed
by one poison.  Block boundaries and interleavings are not observable by a stage. -/
theorem chain_stream_deterministic_pf {b m : Nat} {data : List Nat} {c : Chain} (hb : 0 < b) (hm : 1 ≤ m)
    (hr : Chain.Reach (Chain.init b m data) c) (hfin : c.main = .finished) :
    ∀ k, k + 1 ≤ m → (c.st (k + 1)).inp = (data.map (seenAt k)).map Item.val ++ [Item.poison] := by
  obtain ⟨_, hcontent, _, _, _, _, _, hend⟩ := KV.C17.chain_ring hb hm hr
  obtain ⟨hfinished, _, hsrc, hhand⟩ := hend hfin
  intro k
  induction k with
  | zero =>
    intro hk
    rw [(hhand 0 (by omega)).2, hsrc]
    simp [seenAt]
  | succ k ih =>
    intro hk
    have hprev := ih (by omega)
    have hp : pend (c.st (k + 1)) = [] := by
      have := hfinished (k + 1) (by omega)
      simp [pend, this]
    have hout := (hcontent (k + 1) (by omega)).2 (by omega)
    rw [hp, List.append_nil] at hout
    rw [(hhand (k + 1) (by omega)).2, hout, hprev]
    have hne : ¬ (k + 1 = m) := by omega
    simp [passOf, hne, seenAt, List.map_map, Function.comp_def]

end chain

/-! ## 4. The composition with the hypotheses discharged -/
section final
open KV.Vocab
variable {W : Type} [DecidableEq W]

/-- **`lmplz_eq_spec` with `h_vocab`, `h_ids`, `h_sort` discharged.**

Discharged:
* `h_vocab` by C20 `KV.Vocab.vocab_ids_indep'` (ids = first-occurrence order for every initial table
  size / doubling history) — remaining: `h_enc` (the encoder IS `GrowableVocab`: `growableIds`), `hx`
  (admissible size argument), `hsp`, `hinj`, `hnz` (64-bit MurmurHash injective and non-zero on the words
  of the text and the three specials), `hmax` (fewer than 2^32-1 word types);
* `h_ids` by the definition of the specification (`firstOccurrenceIds_not_special`);
* `h_sort` by C16 `extSort_canon`, `Canon.unique`, `counting_suffix`, `extSort_isSome`
  (`sort_hyp_discharged_pf`) and this property's `blocks_nodup_pf` — remaining: `h_sortImpl`, "the table that
  leaves the first sort, translated record by record, IS the result of C16's external-sort model on the
  translated chain blocks for *some* tie-break policy and *some* merge plan" (both may depend on the
  memory configuration, the schedule and the data in any way).  By `sort_hyp_discharged_code_pf` the plan
  computed by `Sort::Merge` for any accepted configuration is one of them.

Not discharged — `h_chainImpl`: "everything after the first sort (AdjustCounts, InitialProbabilities,
Interpolate, the context/suffix sorts between them, the printer), run as threads over chains whose block
sizes and counts come from the memory configuration, computes `render (estimateFrom …)`", where
`estimateFrom` is C05's stream model and `render` an *arbitrary* function of the exact model (float32
arithmetic, `log10`, number printing and the ARPA / intermediate writers live in it).  What the other
properties provide towards it: C17 `chain_ring` (here `chain_stream_deterministic_pf`): in a chain every
stage sees its predecessor's blocks exactly once, in order, for every schedule and block count; this
property's `collapse_partition_indep` / `prune_partition_indep`: the two stages that work block by block
(`CollapseStream`, `PruneNGramStream`) do not depend on the block boundaries; C16 `extSort_eq_spec` for
the later sorts (total orders, no combiner).  What is missing to *derive* `h_chainImpl` from them: C17's
chain has one stateless per-block function per stage and a single chain, whereas the KN stages are
stateful stream transformers over several chains at once (AdjustCounts reads one and writes `N`), and
`Model/KN.lean` has the later sorts as `List.mergeSort` inside `estimateFrom` rather than as a parameter. -/
theorem lmplz_eq_spec_discharged_pf {Mem Sched Out : Type}
    (I : Impl Mem Sched (List (List W)) Out) (render : Except Err Model → Out) (opts : Opts)
    (hN : 1 ≤ opts.cfg.order) (text : List (List W))
    (hash : W → Nat) (unk bos eos : W) (unkCapHash : Nat) (xOf : Mem → Nat)
    (hx : ∀ m, 1 ≤ xOf m ∧ xOf m ≤ 2^63)
    (h_enc : ∀ m t, I.encode m t = growableIds hash unk bos eos unkCapHash (xOf m) t)
    (hsp : unk ≠ bos ∧ unk ≠ eos ∧ bos ≠ eos)
    (hinj : InjOn hash ([unk, bos, eos] ++ text.flatten))
    (hnz : ∀ w, w ∈ [unk, bos, eos] ++ text.flatten → hash w ≠ 0)
    (hmax : (specEncode unk bos eos text).2 < kWordIndexMax)
    (h_sortImpl : ∀ m s blocks, ∃ pick plan,
      KV.Sort.extSort KV.Sort.suffixLt KV.Sort.combineCounts pick (toBlocks blocks) plan =
        some ((I.sortCombine m s blocks).map toRec))
    (h_chainImpl : ∀ m s full, I.post m s opts full = render (estimateFrom opts.cfg opts.pruneVocab opts.fallback full))
    (m : Mem) (s : Sched) :
    lmplzOut I m s opts text = lmplzSpec render (firstOccurrenceIds unk bos eos) opts text := by
  have hids := firstOccurrenceIds_not_special unk bos eos text
  apply lmplz_eq_spec_core I render (firstOccurrenceIds unk bos eos) opts hN text
    (fun m => by rw [h_enc]; exact vocab_ids_indep' hash unk bos eos unkCapHash xOf hx text hsp hinj hnz hmax m)
    hids ?_ h_chainImpl m s
  intro m s
  obtain ⟨pick, plan, hp⟩ := h_sortImpl m s (corpusCount opts.cfg.order (I.cap m) (firstOccurrenceIds unk bos eos text))
  have hnd := blocks_nodup_pf hN (I.cap m) (firstOccurrenceIds unk bos eos text)
    (fun l hl w hw => two_le_of_not_special (hids l hl w hw))
  rw [sort_hyp_discharged_pf _ hnd pick plan] at hp
  have := congrArg (List.map ofRec) (Option.some.inj hp)
  rw [map_ofRec_toRec, map_ofRec_toRec] at this
  exact this.symm

/-- **C07 with the hypotheses discharged**: any two memory configurations and any two schedules give
the same output.  Remaining hypotheses: `h_enc`, `hx`, `hsp`, `hinj`, `hnz`, `hmax` (C20's contract),
`h_sortImpl` (the first sort is an instance of C16's model), `h_chainImpl` (see `lmplz_eq_spec_discharged_pf`). -/
theorem lmplz_indep_discharged_pf {Mem Sched Out : Type}
    (I : Impl Mem Sched (List (List W)) Out) (render : Except Err Model → Out) (opts : Opts)
    (hN : 1 ≤ opts.cfg.order) (text : List (List W))
    (hash : W → Nat) (unk bos eos : W) (unkCapHash : Nat) (xOf : Mem → Nat)
    (hx : ∀ m, 1 ≤ xOf m ∧ xOf m ≤ 2^63)
    (h_enc : ∀ m t, I.encode m t = growableIds hash unk bos eos unkCapHash (xOf m) t)
    (hsp : unk ≠ bos ∧ unk ≠ eos ∧ bos ≠ eos)
    (hinj : InjOn hash ([unk, bos, eos] ++ text.flatten))
    (hnz : ∀ w, w ∈ [unk, bos, eos] ++ text.flatten → hash w ≠ 0)
    (hmax : (specEncode unk bos eos text).2 < kWordIndexMax)
    (h_sortImpl : ∀ m s blocks, ∃ pick plan,
      KV.Sort.extSort KV.Sort.suffixLt KV.Sort.combineCounts pick (toBlocks blocks) plan =
        some ((I.sortCombine m s blocks).map toRec))
    (h_chainImpl : ∀ m s full, I.post m s opts full = render (estimateFrom opts.cfg opts.pruneVocab opts.fallback full))
    (m₁ m₂ : Mem) (s₁ s₂ : Sched) :
    lmplzOut I m₁ s₁ opts text = lmplzOut I m₂ s₂ opts text := by
  rw [lmplz_eq_spec_discharged_pf I render opts hN text hash unk bos eos unkCapHash xOf hx h_enc hsp hinj hnz hmax
        h_sortImpl h_chainImpl m₁ s₁,
      lmplz_eq_spec_discharged_pf I render opts hN text hash unk bos eos unkCapHash xOf hx h_enc hsp hinj hnz hmax
        h_sortImpl h_chainImpl m₂ s₂]

/-! ### non-vacuity: an implementation built from C16's `extSort` and C20's `GrowableVocab` -/

theorem toRec_ofRec (r : KV.Sort.Rec) : toRec (ofRec r) = r := by
  cases r; simp [toRec, ofRec]

/-- any `sortCombine` that *is* a run of C16's external sort satisfies `h_sortImpl` -/
theorem sortImpl_of_extSort (pick : KV.Sort.Pick KV.Sort.Rec) (plan : List (List Nat)) (blocks : List (List Count.Rec)) :
    KV.Sort.extSort KV.Sort.suffixLt KV.Sort.combineCounts pick (toBlocks blocks) plan =
      some ((((KV.Sort.extSort KV.Sort.suffixLt KV.Sort.combineCounts pick (toBlocks blocks) plan).getD []).map ofRec).map toRec) := by
  obtain ⟨out, ho⟩ := KV.C16.extSort_isSome KV.Sort.suffixLt KV.Sort.combineCounts pick (toBlocks blocks) plan
  rw [ho]
  simp [List.map_map, Function.comp_def, toRec_ofRec]

/-- memory configuration = (block capacity and vocabulary size argument, merge plan, tie-break index);
words = numbers, hash = `· + 1`; the first sort is C16's `extSort`, the later stages C05's `estimateFrom` -/
def exImplD : Impl (Nat × List (List Nat) × Nat) Unit (List (List Nat)) (Except Err Model) where
  cap := fun m => m.1
  encode := fun m t => KV.Vocab.growableIds (· + 1) 0 1 2 999 (m.1 % 1000 + 1) t
  sortCombine := fun m _ blocks =>
    ((KV.Sort.extSort KV.Sort.suffixLt KV.Sort.combineCounts (fun _ _ _ => m.2.2) (toBlocks blocks) m.2.1).getD []).map ofRec
  post := fun _ _ o full => estimateFrom o.cfg o.pruneVocab o.fallback full

/-- capacity 1 with a two-pass plan and capacity 100 (one block, `ReadSingle`) agree -/
example (opts : Opts) (hN : 1 ≤ opts.cfg.order) :
    lmplzOut exImplD (1, [[2, 2, 1], [2, 1]], 1) () opts [[5, 9, 5, 9], [5, 9]] =
      lmplzOut exImplD (100, [], 0) () opts [[5, 9, 5, 9], [5, 9]] :=
  lmplz_indep_discharged_pf exImplD id opts hN [[5, 9, 5, 9], [5, 9]] (· + 1) 0 1 2 999 (fun m => m.1 % 1000 + 1)
    (fun m => by omega) (fun _ _ => rfl) (by decide) (fun a _ b _ e => by simpa using e) (fun w _ => by simp)
    (by decide) (fun m _ blocks => ⟨_, _, sortImpl_of_extSort (fun _ _ _ => m.2.2) m.2.1 blocks⟩)
    (fun _ _ _ => rfl) _ _ () ()

end final

end KV.C07
