import Model.PCQueue
/-!
The inductive invariant of the PCQueue model and its preservation by every step of every thread.
Core Lean only.
-/
namespace KV.PCQueue

/-! ### sums over the thread list -/

theorem sumBy_nil (f : Thread → Nat) : sumBy f [] = 0 := rfl

theorem sumBy_cons (f : Thread → Nat) (x : Thread) (l : List Thread) :
    sumBy f (x :: l) = f x + sumBy f l := by simp [sumBy]

theorem sumBy_append (f : Thread → Nat) (l₁ l₂ : List Thread) :
    sumBy f (l₁ ++ l₂) = sumBy f l₁ + sumBy f l₂ := by simp [sumBy]

theorem sumBy_set {f : Thread → Nat} {l : List Thread} {i : Nat} {x : Thread}
    (h : l[i]? = some x) (y : Thread) : sumBy f (l.set i y) + f x = sumBy f l + f y := by
  induction l generalizing i with
  | nil => simp at h
  | cons a l ih =>
    cases i with
    | zero =>
      simp at h; subst h
      simp [sumBy_cons]; omega
    | succ i =>
      simp at h
      have := ih h
      simp [sumBy_cons]; omega

theorem sumBy_le {f : Thread → Nat} {l : List Thread} {i : Nat} {x : Thread}
    (h : l[i]? = some x) : f x ≤ sumBy f l := by
  induction l generalizing i with
  | nil => simp at h
  | cons a l ih =>
    cases i with
    | zero => simp at h; subst h; simp [sumBy_cons]
    | succ i => simp at h; have := ih h; simp [sumBy_cons]; omega

theorem sumBy_eq_zero {f : Thread → Nat} {l : List Thread}
    (h : ∀ (i : Nat) x, l[i]? = some x → f x = 0) : sumBy f l = 0 := by
  induction l with
  | nil => rfl
  | cons a l ih =>
    have h0 := h 0 a (by simp)
    have := ih (fun i x hx => h (i + 1) x (by simpa using hx))
    simp [sumBy_cons, h0, this]

/-! ### arithmetic of the ring cursor -/

theorem wrap_mod {cap W : Nat} (hc : 0 < cap) : wrap cap (W % cap) = (W + 1) % cap := by
  unfold wrap
  have hlt : W % cap < cap := Nat.mod_lt _ hc
  have hW : W = cap * (W / cap) + W % cap := (Nat.div_add_mod W cap).symm
  by_cases h : W % cap + 1 = cap
  · rw [if_pos h]
    have : W + 1 = cap * (W / cap + 1) := by rw [Nat.mul_add, Nat.mul_one]; omega
    rw [this, Nat.mul_mod_right]
  · rw [if_neg h]
    have : W + 1 = cap * (W / cap) + (W % cap + 1) := by omega
    rw [this, Nat.mul_add_mod]
    exact (Nat.mod_eq_of_lt (by omega)).symm

theorem mod_ne_of_lt {cap i W : Nat} (h1 : i < W) (h2 : W - i < cap) : i % cap ≠ W % cap := by
  intro h
  have h3 := Nat.sub_mod_eq_zero_of_mod_eq h.symm
  rw [Nat.mod_eq_of_lt h2] at h3
  omega

/-! ### ghost projections -/

def writesOf (w : List (Nat × Nat)) (t : Nat) : List Nat := (w.filter (fun x => x.1 == t)).map (·.2)

theorem writesOf_append_self (w : List (Nat × Nat)) (t v : Nat) :
    writesOf (w ++ [(t, v)]) t = writesOf w t ++ [v] := by simp [writesOf, List.filter_append]

theorem writesOf_append_other (w : List (Nat × Nat)) {t u : Nat} (v : Nat) (h : u ≠ t) :
    writesOf (w ++ [(u, v)]) t = writesOf w t := by
  simp [writesOf, List.filter_append, h]

/-! ### the invariant -/

structure ThreadOK (s : State) (t : Nat) (th : Thread) : Prop where
  p_nonempty : th.role = .prod → (th.pc = .wait ∨ th.pc = .lock ∨ th.pc = .body) → th.items ≠ []
  p_done : th.role = .prod → th.pc = .done → th.items = []
  p_orig : th.role = .prod → th.orig = writesOf s.writes t ++ th.items
  c_pos : th.role = .cons → (th.pc = .wait ∨ th.pc = .lock ∨ th.pc = .body) → 0 < th.quota
  c_done : th.role = .cons → th.pc = .done → th.quota = 0
  c_got : th.role = .cons → th.got = writesOf s.reads t

/-- thread is inside the producer critical section -/
def holdsP (th : Thread) : Prop := th.role = .prod ∧ (th.pc = .body ∨ th.pc = .unlock)
/-- thread is inside the consumer critical section -/
def holdsC (th : Thread) : Prop := th.role = .cons ∧ (th.pc = .body ∨ th.pc = .unlock)

/-- the mutex owner is exactly the (unique) thread inside the critical section -/
def MutexOK (m : Option Nat) (l : List Thread) (H : Thread → Prop) : Prop :=
  (∀ t, m = some t → ∃ th, l[t]? = some th ∧ H th) ∧ (∀ (t : Nat) th, l[t]? = some th → H th → m = some t)

structure Inv (dP dC : Nat) (s : State) : Prop where
  cap_pos : 0 < s.cap
  /-- every one of the `cap` tokens is in exactly one place -/
  acct : s.empty + sumBy isA s.threads + sumBy isB s.threads + s.used
          + sumBy isC s.threads + sumBy isD s.threads = s.cap
  /-- written and not yet read = posted or about to be posted or about to be read -/
  occ : s.writes.length = s.reads.length + sumBy isB s.threads + s.used + sumBy isC s.threads
  pat : s.produceAt = s.writes.length % s.cap
  cat : s.consumeAt = s.reads.length % s.cap
  ringv : ∀ i, s.reads.length ≤ i → i < s.writes.length →
            (s.writes[i]?).map (·.2) = some (s.ring (i % s.cap))
  fifo : s.reads.map (·.2) = (s.writes.map (·.2)).take s.reads.length
  pm : MutexOK s.pmutex s.threads holdsP
  cm : MutexOK s.cmutex s.threads holdsC
  /-- `dP`, `dC`: constants of the configuration (total values given to producers / total `Consume` calls) -/
  balance : sumBy remP s.threads + s.writes.length + dC = sumBy remC s.threads + s.reads.length + dP
  thr : ∀ t th, s.threads[t]? = some th → ThreadOK s t th

end KV.PCQueue
