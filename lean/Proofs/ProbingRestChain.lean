import Proofs.ProbingRestScore
/-! `MaxRestBuild` on blank chains: `rest`-parametrised copies of the loop lemmas (`fillBlanks`, `markChain`, `AdjustLower`). -/
namespace KV.ProbingBuild
open KV.Arpa KV.Table KV.Score KV.ProbingLM

/-- the updates of the blank-probability loop under `MaxRestBuild`: the blank's `rest` is its probability -/
def fillUsT (want : Key → W) (p : Key) : Nat → Nat → Rat → List (Key × (W → W))
  | 0, _, _ => []
  | c+1, β, prob =>
    (((p.drop 1).take β, setExtension) : Key × (W → W)) ::
      ((p.take (β + 1), fun w => setRest true (setProb w (prob + (setExtension (want ((p.drop 1).take β))).backoff))) : Key × (W → W)) ::
      fillUsT want p c (β + 1) (prob + (setExtension (want ((p.drop 1).take β))).backoff)

theorem fillUsT_congr (want want' : Key → W) (p : Key) : ∀ (c β : Nat) (prob : Rat),
    (∀ i, i < c → want' ((p.drop 1).take (β + i)) = want ((p.drop 1).take (β + i))) →
    fillUsT want' p c β prob = fillUsT want p c β prob := by
  intro c
  induction c with
  | zero => intro β prob _; rfl
  | succ c ih =>
    intro β prob h
    have h0 := h 0 (by omega)
    simp only [Nat.add_zero] at h0
    unfold fillUsT
    rw [h0, ih (β + 1) _ (fun i hi => by have := h (i + 1) (by omega); rw [show β + 1 + i = β + (i + 1) by omega]; exact this)]

theorem fillBlanks_chainT (combine : Nat → Word → Nat) (N : Nat) (caps : Nat → Nat) (U : Nat) (p : Key) (Ks : Nat → List Key) :
    ∀ (changes : List Ref) (β : Nat) (prob : Rat) (s : St) (want : Key → W),
      StP combine N caps U s Ks want → 2 ≤ β → β + changes.length < N →
      (∀ i (hi : i < changes.length), Den N U Ks changes[i] (p.take (β + 1 + i))) →
      (∀ i, i < changes.length → (p.drop 1).take (β + i) ∈ Ks (β + i)) →
      (∀ i i', i < changes.length → i' < changes.length → (p.drop 1).take (β + i) ≠ p.take (β + 1 + i')) →
      ∃ s', fillBlanks combine true p changes β prob s = .ok s' ∧
        StP combine N caps U s' Ks (applyUpd want (fillUsT want p changes.length β prob)) := by
  intro changes
  induction changes with
  | nil => intro β prob s want h _ _ _ _ _; exact ⟨s, rfl, h⟩
  | cons ch more ih =>
    intro β prob s want h hβ hN hden hctx hne
    have hc0 := hctx 0 (by simp)
    simp only [Nat.add_zero] at hc0
    obtain ⟨ic, hdc, _, hfind⟩ := stP_lookup h β hβ (by simp at hN; omega) _ hc0 blankW
    have h1 := stP_modify h _ _ hdc setExtension
    have hget := stP_get h1 _ _ hdc
    have hd0 := hden 0 (by simp)
    simp only [Nat.add_zero, List.getElem_cons_zero] at hd0
    have h2 := stP_modify h1 ch _ hd0 (fun w => setRest true (setProb w (prob + (setExtension (want ((p.drop 1).take β))).backoff)))
    have hpr : ((s.modify (.mid (β - 2) ic) setExtension).get (.mid (β - 2) ic)).backoff =
        (setExtension (want ((p.drop 1).take β))).backoff := by
      rw [hget]; simp [updW]
    obtain ⟨s', hfb, h'⟩ := ih (β + 1) (prob + (setExtension (want ((p.drop 1).take β))).backoff) _ _ h2 (by omega)
      (by simp at hN ⊢; omega)
      (by intro i hi
          have := hden (i + 1) (by simp; omega)
          simp only [List.getElem_cons_succ] at this
          rw [show β + 1 + 1 + i = β + 1 + (i + 1) by omega]; exact this)
      (by intro i hi
          have := hctx (i + 1) (by simp; omega)
          rw [show β + 1 + i = β + (i + 1) by omega]; exact this)
      (by intro i i' hi hi'
          have := hne (i + 1) (i' + 1) (by simp; omega) (by simp; omega)
          rw [show β + 1 + i = β + (i + 1) by omega, show β + 1 + 1 + i' = β + 1 + (i' + 1) by omega]; exact this)
    refine ⟨s', ?_, ?_⟩
    · simp only [fillBlanks, hfind, bind, Except.bind, hpr]
      exact hfb
    · have hcg : fillUsT (updW (updW want ((p.drop 1).take β) (setExtension (want ((p.drop 1).take β)))) (p.take (β + 1))
            ((fun w => setRest true (setProb w (prob + (setExtension (want ((p.drop 1).take β))).backoff)))
              (updW want ((p.drop 1).take β) (setExtension (want ((p.drop 1).take β))) (p.take (β + 1))))) p more.length (β + 1)
            (prob + (setExtension (want ((p.drop 1).take β))).backoff) =
          fillUsT want p more.length (β + 1) (prob + (setExtension (want ((p.drop 1).take β))).backoff) := by
        apply fillUsT_congr
        intro i hi
        have hm := hctx (i + 1) (by simp; omega)
        have hl1 := h.klen _ _ hm
        have hl0 := h.klen _ _ hc0
        have hne1 : (p.drop 1).take (β + 1 + i) ≠ p.take (β + 1) := by
          have := hne (i + 1) 0 (by simp; omega) (by simp)
          rw [show β + 1 + i = β + (i + 1) by omega]; exact this
        have hne2 : (p.drop 1).take (β + 1 + i) ≠ (p.drop 1).take β := by
          intro he
          rw [show β + 1 + i = β + (i + 1) by omega] at he
          rw [he] at hl1; omega
        simp only [updW, hne1, hne2, if_false]
      rw [hcg] at h'
      exact h'


/-- the updates of the marking loop under `MaxRestBuild`: `MarkExtends(·, longerRest)` with the chained `longerRest` -/
def markUsT (want : Key → W) : List Key → Rat → List (Key × (W → W))
  | [], _ => []
  | k :: ks, lr => (k, fun w => (markExtends true w lr).1) :: markUsT want ks (markExtends true (want k) lr).1.rest

theorem markUsT_congr (want want' : Key → W) : ∀ (keys : List Key) (lr : Rat), (∀ k ∈ keys, want' k = want k) →
    markUsT want' keys lr = markUsT want keys lr := by
  intro keys
  induction keys with
  | nil => intro lr _; rfl
  | cons k ks ih =>
    intro lr h
    simp only [markUsT]
    rw [h k (by simp), ih _ (fun k' hk' => h k' (List.mem_cons_of_mem _ hk'))]

theorem markChain_chainT (combine : Nat → Word → Nat) (N : Nat) (caps : Nat → Nat) (U : Nat) (Ks : Nat → List Key) :
    ∀ (refs : List Ref) (keys : List Key) (lr : Rat) (s : St) (want : Key → W),
      StP combine N caps U s Ks want → refs.length = keys.length →
      (∀ i (hi : i < refs.length) (hi' : i < keys.length), Den N U Ks refs[i] keys[i]) → keys.Nodup →
      StP combine N caps U (markChain true refs lr s) Ks (applyUpd want (markUsT want keys lr)) := by
  intro refs
  induction refs with
  | nil =>
    intro keys lr s want h hl _ _
    cases keys with
    | nil => exact h
    | cons k ks => simp at hl
  | cons r more ih =>
    intro keys lr s want h hl hden hnd
    cases keys with
    | nil => simp at hl
    | cons k ks =>
      have hd0 := hden 0 (by simp) (by simp)
      simp only [List.getElem_cons_zero] at hd0
      have h1 := stP_modify h r k hd0 (fun w => (markExtends true w lr).1)
      have hget := stP_get h1 r k hd0
      have hk : updW want k ((fun w => (markExtends true w lr).1) (want k)) k = (markExtends true (want k) lr).1 := by
        simp [updW]
      rw [hk] at hget
      have hnd' := List.nodup_cons.mp hnd
      have := ih ks ((s.modify r (fun w => (markExtends true w lr).1)).get r).rest _ _ h1 (by simpa using hl)
        (fun i hi hi' => by
          have := hden (i + 1) (by simp; omega) (by simp; omega)
          simpa using this) hnd'.2
      have e : markUsT (updW want k ((fun w => (markExtends true w lr).1) (want k))) ks
          ((s.modify r (fun w => (markExtends true w lr).1)).get r).rest =
          markUsT want ks (markExtends true (want k) lr).1.rest := by
        rw [hget]
        exact markUsT_congr want _ ks _ (fun k' hk' => by
          have hne : k' ≠ k := fun he => hnd'.1 (he ▸ hk')
          simp [updW, hne])
      rw [e] at this
      exact this

/-- the general branch of `AdjustLower` (at least one blank between the line and its basis), `NoRestBuild` -/
def adjustGenT (combine : Nat → Word → Nat) (ar : Rat) (g : List Word) (n : Nat) (between : List Ref) (s : St) : Except BErr St := do
  let basisRef := between.getLastD (.uni 0)
  let prob : Rat := -(s.get basisRef).mag
  let basis := n - between.length
  let changes := (between.dropLast).reverse
  let (s1, prob1, changes1, basis1) ←
    if basis == 1 then
      match changes with
      | [] => .ok (s, prob, changes, basis)
      | ch :: more =>
        let s1 := s.modify (.uni (g.getD 1 0)) setExtension
        let p1 := prob + (s1.get (.uni (g.getD 1 0))).backoff
        let s2 := s1.modify ch (fun w => setRest true (setProb w p1))
        (.ok (s2, p1, more, 2) : Except BErr (St × Rat × List Ref × Nat))
    else .ok (s, prob, changes, basis)
  let s2 ← fillBlanks combine true g changes1 basis1 prob1 s1
  .ok (markChain true between ar s2)

theorem adjustLowerT_ge2 (combine : Nat → Word → Nat) (ar : Rat) (g : List Word) (n : Nat) (between : List Ref) (s : St)
    (h : 2 ≤ between.length) : adjustLower combine true ar g n between s = adjustGenT combine ar g n between s := by
  match between, h with
  | [], h => simp at h
  | [_], h => simp at h
  | _ :: _ :: _, _ => rfl

theorem adjustGenT_ge2 (combine : Nat → Word → Nat) (ar : Rat) (g : List Word) (n : Nat) (between : List Ref) (s : St)
    (hb : n - between.length ≠ 1) :
    adjustGenT combine ar g n between s =
      (fillBlanks combine true g (between.dropLast).reverse (n - between.length) (-(s.get (between.getLastD (.uni 0))).mag) s >>=
        fun s2 => .ok (markChain true between ar s2)) := by
  have : (n - between.length == 1) = false := by simpa using hb
  simp only [adjustGenT, this, Bool.false_eq_true, if_false, bind, Except.bind]

theorem adjustGenT_one (combine : Nat → Word → Nat) (ar : Rat) (g : List Word) (n : Nat) (between : List Ref) (s : St)
    (ch : Ref) (more : List Ref) (hb : n - between.length = 1) (hch : (between.dropLast).reverse = ch :: more) :
    adjustGenT combine ar g n between s =
      (fillBlanks combine true g more 2
          (-(s.get (between.getLastD (.uni 0))).mag + ((s.modify (.uni (g.getD 1 0)) setExtension).get (.uni (g.getD 1 0))).backoff)
          (((s.modify (.uni (g.getD 1 0)) setExtension).modify ch (fun w => setRest true (setProb w
            (-(s.get (between.getLastD (.uni 0))).mag + ((s.modify (.uni (g.getD 1 0)) setExtension).get (.uni (g.getD 1 0))).backoff))))) >>=
        fun s2 => .ok (markChain true between ar s2)) := by
  simp only [adjustGenT, hb, hch, BEq.rfl, if_true, bind, Except.bind]


/-- `AdjustLower` on a chain of `L ≥ 1` blanks over a basis of order `b`: the fill updates, then the marks -/
theorem adjustLower_chainT (combine : Nat → Word → Nat) (N : Nat) (caps : Nat → Nat) (U : Nat) (p : Key) (Ks : Nat → List Key)
    (b L : Nat) (hb : 1 ≤ b) (hL : 1 ≤ L) (hnN : b + L + 1 ≤ N) (hplen : b + L ≤ p.length)
    (s : St) (want : Key → W) (h : StP combine N caps U s Ks want)
    (refs : List Ref) (hrl : refs.length = L + 1)
    (hden : ∀ i (hi : i < refs.length), Den N U Ks refs[i] (p.take (b + L - i)))
    (hctx : ∀ j, 2 ≤ j → b ≤ j → j < b + L → (p.drop 1).take j ∈ Ks j)
    (hctx1 : b = 1 → (p.drop 1).take 1 = [p.getD 1 0] ∧ p.getD 1 0 < U)
    (hne : ∀ j j', b ≤ j → j < b + L → b < j' → j' ≤ b + L → (p.drop 1).take j ≠ p.take j')
    (ar : Rat) :
    ∃ s', adjustLower combine true ar p (b + L + 1) refs s = .ok s' ∧
      StP combine N caps U s' Ks (applyUpd (applyUpd want (fillUsT want p L b (-(want (p.take b)).mag)))
        (markUsT (applyUpd want (fillUsT want p L b (-(want (p.take b)).mag))) (chainKeys p b L) ar)) := by
  rw [adjustLowerT_ge2 combine ar p _ refs s (by omega)]
  have hlast : refs.getLastD (.uni 0) = refs[L]'(by omega) := by
    rw [getLastD_eq refs _ (by omega)]; simp [hrl]
  have hprob : (s.get (refs.getLastD (.uni 0))).mag = (want (p.take b)).mag := by
    rw [hlast, stP_get h _ _ (hden L (by omega))]
    rw [show b + L - L = b by omega]
  have hchl : (refs.dropLast).reverse.length = L := by simp [hrl]
  have hchd : ∀ i (hi : i < (refs.dropLast).reverse.length), Den N U Ks (refs.dropLast).reverse[i] (p.take (b + 1 + i)) := by
    intro i hi
    rw [hchl] at hi
    have := hden (L - 1 - i) (by omega)
    rw [show b + L - (L - 1 - i) = b + 1 + i by omega] at this
    simp only [List.getElem_reverse, List.getElem_dropLast, List.length_dropLast, hrl, Nat.add_sub_cancel]
    exact this
  have hnd : (chainKeys p b L).Nodup := by
    unfold chainKeys
    rw [List.Nodup, List.pairwise_map]
    refine List.Pairwise.imp_of_mem ?_ (List.nodup_range (n := L + 1))
    intro i j hi hj hne he
    simp only [List.mem_range] at hi hj
    have := congrArg List.length he
    rw [List.length_take, List.length_take] at this
    omega
  have hmark : ∀ (s2 : St) (want2 : Key → W), StP combine N caps U s2 Ks want2 →
      StP combine N caps U (markChain true refs ar s2) Ks (applyUpd want2 (markUsT want2 (chainKeys p b L) ar)) := by
    intro s2 want2 h2
    refine markChain_chainT combine N caps U Ks refs (chainKeys p b L) ar s2 want2 h2 (by simp [chainKeys, hrl]) ?_ hnd
    intro i hi hi'
    simp only [chainKeys, List.getElem_map, List.getElem_range]
    exact hden i hi
  have hbl : b + L + 1 - refs.length = b := by omega
  by_cases hb1 : b = 1
  · subst hb1
    obtain ⟨hc1, hwU⟩ := hctx1 rfl
    cases hch : (refs.dropLast).reverse with
    | nil => rw [hch] at hchl; simp at hchl; omega
    | cons ch more =>
      rw [adjustGenT_one combine ar p _ refs s ch more hbl hch]
      have hdu : Den N U Ks (.uni (p.getD 1 0)) ((p.drop 1).take 1) := by rw [hc1]; exact ⟨rfl, hwU⟩
      have h1 := stP_modify h _ _ hdu setExtension
      have hget := stP_get h1 _ _ hdu
      have hml : more.length = L - 1 := by rw [hch] at hchl; simp at hchl; omega
      have hd0 : Den N U Ks ch (p.take (1 + 1)) := by
        have := hchd 0 (by rw [hchl]; omega)
        simp only [hch, List.getElem_cons_zero] at this
        exact this
      have hpr : -(s.get (refs.getLastD (.uni 0))).mag + ((s.modify (.uni (p.getD 1 0)) setExtension).get (.uni (p.getD 1 0))).backoff =
          -(want (p.take 1)).mag + (setExtension (want ((p.drop 1).take 1))).backoff := by
        rw [hget, hprob]; simp [updW]
      rw [hpr]
      have h2 := stP_modify h1 ch _ hd0 (fun w => setRest true (setProb w (-(want (p.take 1)).mag + (setExtension (want ((p.drop 1).take 1))).backoff)))
      obtain ⟨s3, hfb, h3⟩ := fillBlanks_chainT combine N caps U p Ks more 2
        (-(want (p.take 1)).mag + (setExtension (want ((p.drop 1).take 1))).backoff) _ _ h2 (by omega) (by omega)
        (by intro i hi
            have := hchd (i + 1) (by rw [hchl]; omega)
            simp only [hch, List.getElem_cons_succ] at this
            rw [show 2 + 1 + i = 1 + 1 + (i + 1) by omega]; exact this)
        (by intro i hi; exact hctx (2 + i) (by omega) (by omega) (by omega))
        (by intro i i' hi hi'; exact hne (2 + i) (2 + 1 + i') (by omega) (by omega) (by omega) (by omega))
      refine ⟨markChain true refs ar s3, by rw [hfb]; rfl, ?_⟩
      apply hmark
      have hLe : L = more.length + 1 := by omega
      rw [hLe]
      have hcg : fillUsT (updW (updW want ((p.drop 1).take 1) (setExtension (want ((p.drop 1).take 1)))) (p.take (1 + 1))
            ((fun w => setRest true (setProb w (-(want (p.take 1)).mag + (setExtension (want ((p.drop 1).take 1))).backoff)))
              (updW want ((p.drop 1).take 1) (setExtension (want ((p.drop 1).take 1))) (p.take (1 + 1))))) p more.length 2
            (-(want (p.take 1)).mag + (setExtension (want ((p.drop 1).take 1))).backoff) =
          fillUsT want p more.length 2 (-(want (p.take 1)).mag + (setExtension (want ((p.drop 1).take 1))).backoff) := by
        apply fillUsT_congr
        intro i hi
        have hm := hctx (2 + i) (by omega) (by omega) (by omega)
        have hl1 := h.klen _ _ hm
        have hne1 : (p.drop 1).take (2 + i) ≠ p.take (1 + 1) := hne (2 + i) 2 (by omega) (by omega) (by omega) (by omega)
        have hne2 : (p.drop 1).take (2 + i) ≠ (p.drop 1).take 1 := by
          intro he
          rw [he, hc1] at hl1; simp at hl1; omega
        simp only [updW, hne1, hne2, if_false]
      rw [hcg] at h3
      exact h3
  · rw [adjustGenT_ge2 combine ar p _ refs s (by omega), hbl, hprob]
    obtain ⟨s3, hfb, h3⟩ := fillBlanks_chainT combine N caps U p Ks (refs.dropLast).reverse b (-(want (p.take b)).mag) s want h
      (by omega) (by omega) hchd
      (by intro i hi; rw [hchl] at hi; exact hctx (b + i) (by omega) (by omega) (by omega))
      (by intro i i' hi hi'; rw [hchl] at hi hi'; exact hne (b + i) (b + 1 + i') (by omega) (by omega) (by omega) (by omega))
    rw [hchl] at h3
    exact ⟨markChain true refs ar s3, by rw [hfb]; rfl, hmark _ _ h3⟩

/-- a line with a blank chain under `MaxRestBuild`, up to and including `AdjustLower`: insertion, `FindLower` (blanks
appended), the blank probabilities with `rest = prob`, the marks with the chained `longerRest` — as key-level updates.
`MarkLower` below the basis (`markLower_chain`) and `activate` follow on the resulting `StP`. -/
theorem addLine_chainT_adjust (combine : Nat → Word → Nat) (a : Arpa) (u0 : List W) (N : Nat) (caps : Nat → Nat)
    (S : List Key) (s : St) (want0 : Key → W) (h : StP combine N caps u0.length s (keysOf S) want0) (si : SInv a S)
    (p : Key) (e : Entry) (lc : LC combine a u0 N caps S p e) (b L : Nat) (hb : 1 ≤ b) (hL : 1 ≤ L) (hpl : p.length = b + L + 1)
    (hbasis : b = 1 ∨ p.take b ∈ S) (hmiss : ∀ j, b < j → j ≤ b + L → p.take j ∉ S)
    (hcapn : (keysOf S (b + L + 1)).length + 1 < caps (b + L + 1))
    (hcapj : ∀ j, b < j → j ≤ b + L → (keysOf S j).length + 1 < caps j) :
    ∃ s3 Ks' want1,
      (insPhase combine N s p e >>= fun s1 => findLower combine p (p.length - 2) s1 [] >>= fun r =>
        adjustLower combine true (lineW e).rest p p.length r.2 r.1) = .ok s3 ∧
      (∀ m, Ks' m = if b < m ∧ m ≤ b + L then keysOf (S ++ [p]) m ++ [p.take m] else keysOf (S ++ [p]) m) ∧
      (∀ k, want1 k = if b < k.length ∧ k.length ≤ b + L ∧ k = p.take k.length then blankW else updW want0 p (lineW e) k) ∧
      StP combine N caps u0.length s3 Ks'
        (applyUpd (applyUpd want1 (fillUsT want1 p L b (-(want1 (p.take b)).mag)))
          (markUsT (applyUpd want1 (fillUsT want1 p L b (-(want1 (p.take b)).mag))) (chainKeys p b L) (lineW e).rest)) := by
  have hnN : b + L + 1 ≤ N := by rw [← hpl]; exact lc.nN
  have hfreshp := lc.fresh p (Or.inr rfl)
  have hpS : p ∉ S := fun hp => hfreshp p ((mem_keysOf S _ p).mpr ⟨hp, rfl⟩) rfl
  obtain ⟨s1, hins, h1a⟩ := stP_insert h p e lc.n2 lc.nN (fun hm => hpS (keysOf_mem S _ p hm)) hfreshp (by rw [hpl]; exact hcapn)
  have h1 : StP combine N caps u0.length s1 (keysOf (S ++ [p])) (updW want0 p (lineW e)) := by
    refine stP_congr h1a (fun m => ?_) (fun _ => rfl)
    by_cases hm : m = p.length
    · rw [if_pos hm, hm, keysOf_append_same S p _ rfl]
    · rw [if_neg hm, keysOf_append_other S p m (fun he => hm he.symm)]
  have hK0 : ∀ j, j ≤ b + L → keysOf (S ++ [p]) j = keysOf S j := fun j hj => keysOf_append_other S p j (by omega)
  have hx : p.headD 0 < u0.length := by
    cases p with
    | nil => simp at hpl
    | cons x xs => exact lc.words x (by simp)
  obtain ⟨s2, refs, Ks1, want1, hfl, h2, hKs1, hw1, hrl, hden⟩ := findLower_chain combine N caps u0.length p b hb (b + L - 1) s1 _ _ [] h1
    (by omega) (by omega) (by omega)
    (by rcases hbasis with hb1 | hb1
        · exact Or.inl hb1
        · right
          have hbl : b ≤ p.length := by omega
          rw [hK0 b (by omega)]; exact (mem_keysOf S b _).mpr ⟨hb1, by simp [hbl]⟩)
    hx
    (by intro j hj1 hj2
        have hjl : (p.take j).length = j := by simp; omega
        rw [hK0 j (by omega)]
        refine ⟨fun hm => hmiss j hj1 (by omega) (keysOf_mem S j _ hm), ?_, hcapj j hj1 (by omega)⟩
        have := lc.fresh (p.take j) (Or.inl (mem_missing_of_not_mem si p (p.length - 1) (by omega) j (by omega) (by omega)
          (hmiss j hj1 (by omega))))
        rw [hjl] at this; exact this)
  have hf1 : b + L - 1 + 1 = b + L := by omega
  simp only [hf1] at hKs1 hw1
  have hc1 : p.drop 1 ∈ S := lc.ctx (by omega)
  have hctxS : ∀ j, 2 ≤ j → j ≤ b + L → (p.drop 1).take j ∈ S := fun j hj2 hjl =>
    si.take_mem _ hc1 (b + L - j) j (by rw [List.length_drop]; omega) hj2
  obtain ⟨s3, hadj, h3⟩ := adjustLower_chainT combine N caps u0.length p Ks1 b L hb hL hnN (by omega) s2 want1 h2 refs (by omega)
    (by intro i hi
        have := hden i hi
        rw [show b + L - 1 + 1 - i = b + L - i by omega] at this; exact this)
    (by intro j hj2 hbj hjl
        rw [hKs1 j]
        apply mem_ite_append
        rw [hK0 j (by omega)]
        exact (mem_keysOf S j _).mpr ⟨hctxS j hj2 (by omega), by rw [List.length_take, List.length_drop]; omega⟩)
    (by intro hb1
        match p, hpl, lc.words with
        | x :: y :: rest, _, hw => exact ⟨by simp, hw y (by simp)⟩
        | [_], hpl, _ => simp at hpl; omega
        | [], hpl, _ => simp at hpl)
    (by intro j j' hbj hjl hbj' hjl' he
        have hl := congrArg List.length he
        rw [List.length_take, List.length_take, List.length_drop] at hl
        have hjj : j = j' := by omega
        subst hjj
        exact hmiss j hbj' hjl' (he ▸ hctxS j (by omega) (by omega)))
    (lineW e).rest
  refine ⟨s3, Ks1, want1, ?_, hKs1, hw1, h3⟩
  rw [hins, hpl]
  have he2 : b + L + 1 - 2 = b + L - 1 := by omega
  simp only [bind, Except.bind, he2, hfl, List.nil_append, hadj]

end KV.ProbingBuild
