import Model.Left

/-!
# A reused `RuleScore` is a fresh one (C08, API histories)

`Reset` re-initialises `prob_`, `left_done_` and the two lengths but not `out_->left.full`.  No operation reads
`left.full` of the running object and `Finish` overwrites it, so the stale flag is carried along unchanged and
unobserved: every operation commutes with `setFull`, and a derivation scored on a reset object finishes with
exactly the result of a fresh object.
-/

namespace KV.Left
open KV.Arpa KV.Table KV.State KV.Score

/-- overwrite the (unread) `out_->left.full` of a running object -/
def setFull (b : Bool) (rs : RS) : RS := { rs with out := { rs.out with left := { rs.out.left with full := b } } }

theorem reset_eq_setFull (b : Bool) (rs : RS) : reset b rs = setFull b RS.init := rfl

theorem setFull_setFull (b c : Bool) (rs : RS) : setFull b (setFull c rs) = setFull b rs := rfl

theorem beginSentence_setFull (T : Table) (R : Ptr → Rat) (bos : Word) (b : Bool) (rs : RS) :
    beginSentence T R bos (setFull b rs) = setFull b (beginSentence T R bos rs) := rfl

theorem terminal_setFull (T : Table) (R : Ptr → Rat) (b : Bool) (rs : RS) (w : Word) :
    terminal T R (setFull b rs) w = setFull b (terminal T R rs w) := by
  unfold terminal
  simp only [setFull]
  by_cases h1 : rs.leftDone = true <;>
    by_cases h2 : (fullScore (restSearch T R) rs.out.right w).1.independentLeft = true <;> simp [h1, h2]

theorem processRet_setFull (b : Bool) (rs : RS) (ret : ExtRet) :
    processRet (setFull b rs) ret = setFull b (processRet rs ret) := by
  unfold processRet
  simp only [setFull]
  by_cases h1 : rs.leftDone = true <;> by_cases h2 : ret.independentLeft = true <;> simp [h1, h2]

/-- `StepOut` with the flag overwritten -/
def StepOut.setFull (b : Bool) (st : StepOut) : StepOut := { st with rs := KV.Left.setFull b st.rs }

theorem rsExtendLeft_setFull (T : Table) (R : Ptr → Rat) (b : Bool) (rs : RS) (inC : Chart) (n e : Nat) (back : List Rat) :
    rsExtendLeft T R (setFull b rs) inC n e back = (rsExtendLeft T R rs inC n e back).setFull b := by
  unfold rsExtendLeft
  have hr : (setFull b rs).out.right = rs.out.right := rfl
  simp only [hr, processRet_setFull]
  generalize extendLeft T R (List.take n rs.out.right.words) back (inC.left.pointers.getD (e - 1) []) e = ret
  by_cases h1 : (ret.nextUse != rs.out.right.length) = true <;> by_cases h2 : (ret.nextUse == 0) = true <;>
    simp [h1, h2, setFull, StepOut.setFull]

theorem extendAll_setFull (T : Table) (R : Ptr → Rat) (b : Bool) (inC : Chart) :
    ∀ (fuel e : Nat) (st : StepOut), extendAll T R inC fuel e (st.setFull b) = (extendAll T R inC fuel e st).setFull b
  | 0, _, _ => by simp [extendAll]
  | fuel+1, e, st => by
    unfold extendAll
    by_cases hx : st.exit = true
    · simp [StepOut.setFull, hx]
    · have hx' : (st.setFull b).exit = st.exit := rfl
      simp only [hx', hx, Bool.false_eq_true, if_false]
      have : rsExtendLeft T R (st.setFull b).rs inC (st.setFull b).nextUse e (st.setFull b).back =
          (rsExtendLeft T R st.rs inC st.nextUse e st.back).setFull b := rsExtendLeft_setFull T R b st.rs inC _ _ _
      rw [this]
      exact extendAll_setFull T R b inC fuel (e + 1) _

theorem nonTerminal_setFull (T : Table) (R : Ptr → Rat) (b c : Bool) (rs : RS) (inC : Chart) (p : Rat) :
    setFull c (nonTerminal T R (setFull b rs) inC p) = setFull c (nonTerminal T R rs inC p) := by
  unfold nonTerminal
  by_cases h1 : (inC.left.length == 0) = true
  · by_cases h2 : inC.left.full = true <;> simp [h1, h2, setFull]
  · by_cases h3 : (rs.out.right.length == 0) = true
    · have h3' : ((setFull b rs).out.right.length == 0) = true := h3
      by_cases h4 : rs.leftDone = true <;> by_cases h5 : (rs.out.left.length != 0) = true <;>
        simp [h1, h3, h4, h5, setFull, LeftSt.length] <;> simp_all [LeftSt.length]
    · have h3'' : (rs.out.right.length == 0) = false := by simpa using h3
      have h3' : ((setFull b rs).out.right.length == 0) = false := h3''
      have h1' : (inC.left.length == 0) = false := by simpa using h1
      have h : extendAll T R inC inC.left.length 1
          { rs := { (setFull b rs) with prob := (setFull b rs).prob + p }, nextUse := (setFull b rs).out.right.length,
            back := (setFull b rs).out.right.backoff.take (setFull b rs).out.right.length, exit := false } =
          (extendAll T R inC inC.left.length 1
            { rs := { rs with prob := rs.prob + p }, nextUse := rs.out.right.length,
              back := rs.out.right.backoff.take rs.out.right.length, exit := false }).setFull b :=
        extendAll_setFull T R b inC inC.left.length 1
          { rs := { rs with prob := rs.prob + p }, nextUse := rs.out.right.length,
            back := rs.out.right.backoff.take rs.out.right.length, exit := false }
      simp only [h1', h3', h3'', Bool.false_eq_true, if_false, h]
      generalize extendAll T R inC inC.left.length 1
        { rs := { rs with prob := rs.prob + p }, nextUse := rs.out.right.length,
          back := rs.out.right.backoff.take rs.out.right.length, exit := false } = st
      by_cases h6 : st.exit = true <;> by_cases h7 : inC.left.full = true <;>
        by_cases h8 : inC.right.length < inC.left.length <;> simp [h6, h7, h8, StepOut.setFull, setFull]

/-- equal up to the unread flag -/
def EqF (rs rs' : RS) : Prop := setFull false rs = setFull false rs'

theorem EqF.of_b {op : RS → RS} (hb : ∀ b rs, setFull false (op (setFull b rs)) = setFull false (op rs))
    {rs rs' : RS} (h : EqF rs rs') : EqF (op rs) (op rs') :=
  calc setFull false (op rs) = setFull false (op (setFull rs.out.left.full (setFull false rs))) := rfl
    _ = setFull false (op (setFull false rs)) := hb _ _
    _ = setFull false (op (setFull false rs')) := by rw [show setFull false rs = setFull false rs' from h]
    _ = setFull false (op (setFull rs'.out.left.full (setFull false rs'))) := (hb _ _).symm
    _ = setFull false (op rs') := rfl

theorem applyItem_eqF (T : Table) (R : Ptr → Rat) (i : Item) {rs rs' : RS} (h : EqF rs rs') :
    EqF (applyItem T R rs i) (applyItem T R rs' i) := by
  cases i with
  | term w =>
    simp only [applyItem]
    exact EqF.of_b (op := fun x => terminal T R x w) (fun b x => by simp only [terminal_setFull]; rfl) h
  | nt r =>
    simp only [applyItem]
    exact EqF.of_b (op := fun x => nonTerminal T R x _ _) (fun b x => nonTerminal_setFull T R b false x _ _) h

theorem applyRule_eqF (T : Table) (R : Ptr → Rat) : ∀ (r : Rule) {rs rs' : RS}, EqF rs rs' →
    EqF (applyRule T R rs r) (applyRule T R rs' r)
  | .nil, _, _, h => by simpa [applyRule] using h
  | .cons i r, _, _, h => by
    simp only [applyRule]
    exact applyRule_eqF T R r (applyItem_eqF T R i h)

theorem finish_eqF (order : Nat) {rs rs' : RS} (h : EqF rs rs') : finish order rs = finish order rs' := by
  have e1 : finish order rs = finish order (setFull false rs) := rfl
  have e2 : finish order rs' = finish order (setFull false rs') := rfl
  rw [e1, e2, show setFull false rs = setFull false rs' from h]

theorem reset_eqF (stale : Bool) (rs : RS) : EqF (reset stale rs) RS.init := rfl

theorem beginSentence_eqF (T : Table) (R : Ptr → Rat) (bos : Word) {rs rs' : RS} (h : EqF rs rs') :
    EqF (beginSentence T R bos rs) (beginSentence T R bos rs') := by
  have h' : setFull false rs = setFull false rs' := h
  show setFull false (beginSentence T R bos rs) = setFull false (beginSentence T R bos rs')
  rw [← beginSentence_setFull, ← beginSentence_setFull, h']

end KV.Left
