import Proofs.ScoreSpec
/-! The step lemma: `FullScore` from a state satisfying `StateFor` returns the textbook probability and
a state satisfying `StateFor` for the extended history. -/
namespace KV.Score
open KV.Arpa KV.Table KV.State

/-- "`s` is a correct minimised state for the reversed history `h`" — the invariant produced by
left-to-right scoring (and by `GetState`). -/
structure StateFor (a : Arpa) (h : List Word) (s : State) : Prop where
  len_le_h : s.length ≤ h.length
  len_le_N : s.length ≤ a.order - 1
  words : s.words.take s.length = h.take s.length
  backoff : s.backoff.take s.length = (List.range s.length).map (fun j => a.boW (h.take (j+1)))
  /-- dropped context words cannot matter: the longer contexts are not live -/
  dead : ∀ k, s.length < k → k ≤ h.length → ¬ live a (h.take k)

theorem lookup_none_extend {T : Table} (ok : TableOK T) :
    ∀ (ys g : List Word), g ≠ [] → T.lookup g = none → T.lookup (g ++ ys) = none := by
  intro ys
  induction ys with
  | nil => intro g _ h; simpa using h
  | cons y ys ih =>
    intro g hg hn
    have h1 : T.lookup (g ++ [y]) = none := by
      apply Classical.byContradiction; intro hc
      exact ok.prefix_closed g y hg hc hn
    have := ih (g ++ [y]) (by simp) h1
    simpa using this

theorem lookup_none_take {T : Table} (ok : TableOK T) (w : Word) (l : List Word) (j c : Nat) (hjc : j ≤ c)
    (hn : T.lookup (w :: l.take j) = none) : T.lookup (w :: l.take c) = none := by
  have : l.take c = l.take j ++ (l.drop j).take (c - j) := by
    have : c = j + (c - j) := by omega
    rw [this, List.take_add]; simp
  rw [this]
  exact lookup_none_extend ok _ (w :: l.take j) (by simp) hn

theorem sxb_post {T : Table} (ok : TableOK T) (ctx : List Word) (w : Word) (u : TEntry) (hu : T.lookup [w] = some u) :
    ∃ c0, AccPost T ctx w
      (resumeScore (tableSearch T) ctx 0 [w]
        { ret := { prob := u.prob, rest := u.prob, ngramLength := 1, independentLeft := !u.extendsLeft, extendLeft := [w] },
          backoffOut := [u.backoff], nextUse := if u.extendsRight then 1 else 0 }) c0 := by
  have h2 := ok.order_ge
  have := resume_post T ok ctx w (ctx.length - 0) 0 [w]
    { ret := { prob := u.prob, rest := u.prob, ngramLength := 1, independentLeft := !u.extendsLeft, extendLeft := [w] },
              backoffOut := [u.backoff], nextUse := if u.extendsRight then 1 else 0 } rfl
    ⟨by simp, by omega, by omega, rfl, ⟨u, by simpa using hu, rfl, rfl⟩, by simp [Table.bo, hu],
     by show (if u.extendsRight = true then 1 else 0) ≤ 0 + 1
        split <;> omega,
     by intro j h1 h2'
        have : j = 0 := by omega
        subst this
        by_cases hx : u.extendsRight = true
        · simp [hx] at h1
        · simp [Table.xr, hu]; simpa using hx,
     by intro hpos
        by_cases hx : u.extendsRight = true
        · simp [hx, Table.xr, hu]
        · simp [hx] at hpos⟩
  simpa using this

theorem scoreExceptBackoff_table {T : Table} (ctx : List Word) (w : Word) (u : TEntry) (hu : T.lookup [w] = some u) :
    scoreExceptBackoff (tableSearch T) ctx w =
      (let acc := resumeScore (tableSearch T) ctx 0 [w]
        { ret := { prob := u.prob, rest := u.prob, ngramLength := 1, independentLeft := !u.extendsLeft, extendLeft := [w] },
          backoffOut := [u.backoff], nextUse := if u.extendsRight then 1 else 0 }
       (acc.ret, { length := acc.nextUse, words := w :: ctx.take (acc.nextUse - 1), backoff := acc.backoffOut })) := by
  simp [scoreExceptBackoff, tableSearch, hu, toFound]

/-- probability of the entry reached after matching `c0` context words = the recursion restricted to `c0` words -/
theorem entry_prob_eq {a : Arpa} {T : Table} (tf : TableFor a T) (h : List Word) (w : Word) (c0 : Nat)
    (hc : c0 ≤ h.length) (hN : c0 ≤ a.order - 1) (t : TEntry) (ht : T.lookup (w :: h.take c0) = some t) :
    t.prob = scoreAt a h w c0 := by
  cases hg : a.gram (w :: h.take c0) with
  | some e =>
    obtain ⟨t', ht', hp, _⟩ := tf.real _ e hg
    rw [ht] at ht'; cases ht'
    cases c0 with
    | zero => simp at hg; simp [scoreAt, Arpa.uniProb, hg, hp]
    | succ c => simp [scoreAt, hg, hp]
  | none =>
    have := (tf.blank w (h.take c0) t ht hg).1
    rw [this]; unfold score
    have hl : (h.take c0).length = c0 := by rw [List.length_take]; omega
    rw [hl, Nat.min_eq_left hN]
    exact scoreAt_take a h w c0 c0 (Nat.le_refl _)

theorem step {a : Arpa} {T : Table} (wf : WellFormed a) (tf : TableFor a T) {h : List Word} {s : State}
    (sf : StateFor a h s) {w : Word} (hw : a.gram [w] ≠ none) :
    (fullScore (tableSearch T) s w).1.prob = score a h w ∧ StateFor a (w :: h) (fullScore (tableSearch T) s w).2 := by
  obtain ⟨e, he⟩ := Option.ne_none_iff_exists'.mp hw
  obtain ⟨u, hu, _, _⟩ := tf.real [w] e he
  have ok : TableOK T := tf.toTableOK
  have hN := wf.order_ge
  have hlen : (s.words.take s.length).length = s.length := by
    rw [sf.words, List.length_take]; have := sf.len_le_h; omega
  obtain ⟨c0, post⟩ := sxb_post ok (s.words.take s.length) w u hu
  have hsxb := scoreExceptBackoff_table (s.words.take s.length) w u hu
  generalize hacc : resumeScore (tableSearch T) (s.words.take s.length) 0 [w] _ = acc at post hsxb
  have hfs : fullScore (tableSearch T) s w =
      ({ acc.ret with prob := acc.ret.prob + ((s.backoff.take s.length).drop (acc.ret.ngramLength - 1)).sum },
       { length := acc.nextUse, words := w :: (s.words.take s.length).take (acc.nextUse - 1), backoff := acc.backoffOut }) := by
    simp [fullScore, hsxb]
  rw [hfs]
  have hc0s : c0 ≤ s.length := by have := post.c0_le; omega
  have hsh := sf.len_le_h
  have hsN := sf.len_le_N
  have hc0N : c0 ≤ a.order - 1 := by have := post.c0_lt; rw [tf.order_eq] at this; exact this
  have F1 : ∀ c, c ≤ s.length → (s.words.take s.length).take c = h.take c := by
    intro c hc; rw [sf.words, List.take_take, Nat.min_eq_left hc]
  -- no n-gram of the model matches more than c0 context words
  have F3 : ∀ c, c0 < c → c ≤ h.length → a.gram (w :: h.take c) = none := by
    intro c hc1 hc2
    apply Classical.byContradiction; intro hreal
    obtain ⟨e', he'⟩ := Option.ne_none_iff_exists'.mp hreal
    by_cases hcs : c ≤ s.length
    · by_cases hcN : c0 = T.order - 1
      · have := wf.len_le _ hreal
        simp [List.length_take] at this
        rw [tf.order_eq] at hcN; omega
      · have hstop := post.stop (by rw [hlen]; omega) (by have := post.c0_lt; omega)
        have := lookup_none_take ok w _ (c0+1) c (by omega) hstop
        rw [F1 c hcs] at this
        obtain ⟨t', ht', _⟩ := tf.real _ e' he'
        rw [this] at ht'; cases ht'
    · have hne : h.take c ≠ [] := by
        intro hnil; have := congrArg List.length hnil; simp only [List.length_take, List.length_nil] at this; omega
      have hctx := wf.ctx_present w (h.take c) hne hreal
      obtain ⟨ec, hec⟩ := Option.ne_none_iff_exists'.mp hctx
      exact sf.dead c (by omega) hc2 ⟨ec, hec, Or.inr ⟨w, hreal⟩⟩
  refine ⟨?_, ?_⟩
  · -- probability
    obtain ⟨t, ht, hp⟩ := post.found
    rw [F1 c0 hc0s] at ht
    have hA := entry_prob_eq tf h w c0 (by omega) hc0N t ht
    show acc.ret.prob + ((s.backoff.take s.length).drop (acc.ret.ngramLength - 1)).sum = score a h w
    rw [post.len, hp, hA, sf.backoff]
    have : c0 + 1 - 1 = c0 := by omega
    rw [this, sum_drop_range_map _ _ _ hc0s]
    unfold score
    let n := min h.length (a.order - 1)
    have hn : n = c0 + ((s.length - c0) + (n - s.length)) := by omega
    show _ = scoreAt a h w n
    rw [hn, scoreAt_skip a h w c0 _ (fun c h1 h2 => F3 c h1 (by omega))]
    congr 1
    have hz := rsum_zero_tail (f := fun c => a.boW (h.take (c+1))) (lo := c0) (d := s.length - c0) (e := n - s.length)
      (by intro i h1 h2
          show a.boW (h.take (i+1)) = 0
          unfold Arpa.boW
          cases hg : a.gram (h.take (i+1)) with
          | none => rfl
          | some e' =>
            apply Classical.byContradiction; intro hb
            exact sf.dead (i+1) (by omega) (by omega) ⟨e', hg, Or.inl hb⟩)
    exact hz.symm
  · -- invariant for the new history
    have holen := post.olen_le
    constructor
    · show acc.nextUse ≤ (w :: h).length
      simp; omega
    · show acc.nextUse ≤ a.order - 1
      rw [← tf.order_eq]; omega
    · show (w :: (s.words.take s.length).take (acc.nextUse - 1)).take acc.nextUse = (w :: h).take acc.nextUse
      cases hL : acc.nextUse with
      | zero => rfl
      | succ l =>
        simp only [List.take_succ_cons, Nat.add_sub_cancel]
        rw [List.take_take, Nat.min_self, F1 l (by omega)]
    · show acc.backoffOut.take acc.nextUse = (List.range acc.nextUse).map (fun j => a.boW ((w :: h).take (j+1)))
      rw [post.bo, ← List.map_take, List.take_range, Nat.min_eq_left holen]
      apply List.map_congr_left
      intro j hj
      have hj' : j < acc.nextUse := by simpa using hj
      rw [tf.bo_eq wf, F1 j (by omega)]
      rfl
    · intro k hk1 hk2 hlive
      have hk1 : acc.nextUse < k := hk1
      obtain ⟨e', he', hor⟩ := hlive
      cases k with
      | zero => omega
      | succ k' =>
        have hk2' : k' ≤ h.length := by simpa using hk2
        have hkey : (w :: h).take (k'+1) = w :: h.take k' := rfl
        rw [hkey] at he' hor
        by_cases hkc : k' ≤ c0
        · by_cases hkN : k' + 1 ≤ T.order - 1
          · have hun := post.unmarked k' (by show acc.nextUse ≤ k'; omega) (by omega)
            rw [F1 k' (by omega)] at hun
            obtain ⟨t', ht', _⟩ := tf.real _ e' he'
            have := tf.xr_live _ t' ht' ⟨e', he', hor⟩
            simp [Table.xr, ht', this] at hun
          · -- the highest order: no back-off, no extension
            have hlen : (w :: h.take k').length = a.order := by
              simp [List.length_take]; rw [tf.order_eq] at hkN; omega
            rcases hor with hb | ⟨x, hx⟩
            · exact hb (wf.top_bo _ e' he' hlen)
            · have := wf.len_le _ hx
              simp [List.length_take] at this hlen; omega
        · have := F3 k' (by omega) hk2'
          rw [this] at he'; cases he'

end KV.Score
