import Proofs.FilePieceRC
/-! `util::stream::LineInput::Run`: the blocks are the input cut after newlines. -/
namespace KV.FilePiece

theorem liFill_spec (orc : Nat → Nat) : ∀ (f : Nat) (ch : Chain) (i need : Nat), need < f →
    (liFill orc f ch i need).1 = ch.flatten.take need ∧
    (liFill orc f ch i need).2.1.flatten = ch.flatten.drop need ∧
    ((liFill orc f ch i need).2.2 = true ↔ ch.flatten.length < need) := by
  intro f
  induction f with
  | zero => intro ch i need h; omega
  | succ f ih =>
    intro ch i need hf
    simp only [liFill]
    by_cases hn : need = 0
    · subst hn; simp
    · rw [if_neg hn]
      obtain ⟨h1, h2, h3⟩ := rcRead_contract orc ch i need
      cases hr : rcRead orc ch i need with
      | mk out ch' =>
        rw [hr] at h1 h2 h3
        cases out with
        | nil =>
          dsimp only at h1 ⊢
          have hfl : ch.flatten = [] := by
            rcases h3.mp rfl with h | h
            · exact absurd h hn
            · exact h
          simp only [List.nil_append] at h1
          rw [h1, hfl]
          simp; omega
        | cons b bs =>
          dsimp only at h1 h2 ⊢
          simp only [List.length_cons] at h2
          obtain ⟨a1, a2, a3⟩ := ih ch' (i + (bs.length + 1)) (need - (bs.length + 1)) (by omega)
          rw [a1, a2, a3, ← h1]
          have hl : (b :: bs).length = bs.length + 1 := rfl
          refine ⟨?_, ?_, ?_⟩
          · rw [List.take_append, hl]
            have : (b :: bs).take need = b :: bs := List.take_of_length_le (by rw [hl]; omega)
            rw [this]
          · rw [List.drop_append, hl]
            have : (b :: bs).drop need = [] := List.drop_of_length_le (by rw [hl]; omega)
            rw [this]; simp
          · simp only [List.length_append, hl]; omega


/-- every block but the last is a whole number of lines (ends with a newline), none exceeds the block size -/
def LiGood (B : Nat) : List (List Byte) → Prop
  | [] => False
  | [b] => b.length ≤ B
  | b :: c :: rest => (∃ pre, b = pre ++ [10]) ∧ b.length ≤ B ∧ LiGood B (c :: rest)

theorem take_succ_of_getD {l : List Byte} {k : Nat} {x : Byte} (hk : k < l.length) (hx : l.getD k 0 = x) :
    l.take (k + 1) = l.take k ++ [x] := by
  rw [List.take_add_one]
  have : l[k]? = some x := by
    rw [List.getD_eq_getElem?_getD] at hx
    rw [List.getElem?_eq_getElem hk] at hx ⊢
    simpa using hx
  rw [this]; rfl

theorem liRun_spec (orc : Nat → Nat) (B : Nat) : ∀ (f : Nat) (ch : Chain) (i : Nat) (carry : List Byte),
    carry.length < B → ch.flatten.length < f →
    match liRun orc B f ch i carry with
    | .ok blocks => blocks.flatten = carry ++ ch.flatten ∧ LiGood B blocks
    | .error .noNewline => ∃ buf, buf.length = B ∧ (∀ x ∈ buf, (x == 10) = false) ∧ buf <:+: carry ++ ch.flatten
    | .error .fuel => False := by
  intro f
  induction f with
  | zero => intro ch i carry _ h; omega
  | succ f ih =>
    intro ch i carry hc hf
    simp only [liRun]
    obtain ⟨h1, h2, h3⟩ := liFill_spec orc (B + 1) ch i (B - carry.length) (by omega)
    generalize liFill orc (B + 1) ch i (B - carry.length) = r at h1 h2 h3
    obtain ⟨got, ch', eof⟩ := r
    simp only at h1 h2 h3
    subst h1
    cases eof with
    | true =>
      have hl := h3.mp rfl
      simp only [↓reduceIte]
      have : ch.flatten.take (B - carry.length) = ch.flatten := List.take_of_length_le (by omega)
      rw [this]
      refine ⟨by simp, ?_⟩
      show (carry ++ ch.flatten).length ≤ B
      simp only [List.length_append]; omega
    | false =>
      have hl : ¬ ch.flatten.length < B - carry.length := fun hx => by have := h3.mpr hx; cases this
      simp only [Bool.false_eq_true, ↓reduceIte]
      have hbl : (carry ++ ch.flatten.take (B - carry.length)).length = B := by
        simp only [List.length_append, List.length_take]; omega
      have hsplit : carry ++ ch.flatten = (carry ++ ch.flatten.take (B - carry.length)) ++ ch.flatten.drop (B - carry.length) := by
        rw [List.append_assoc, List.take_append_drop]
      generalize hbuf : carry ++ ch.flatten.take (B - carry.length) = buf at hbl hsplit
      cases hk : lastNl1 buf with
      | zero =>
        dsimp only
        refine ⟨buf, hbl, lastIdx1_zero hk, ?_⟩
        rw [hsplit]
        exact ⟨[], ch.flatten.drop (B - carry.length), by simp⟩
      | succ k =>
        dsimp only
        obtain ⟨hk1, hk2⟩ := lastIdx1_pos hk
        have hx : buf.getD k 0 = 10 := by simpa using hk2
        have hih := ih ch' (i + (ch.flatten.take (B - carry.length)).length) (buf.drop (k + 1))
          (by simp only [List.length_drop]; omega)
          (by rw [h2]; simp only [List.length_drop]; omega)
        rw [h2] at hih
        have hall : carry ++ ch.flatten = buf.take (k + 1) ++ (buf.drop (k + 1) ++ ch.flatten.drop (B - carry.length)) := by
          rw [← List.append_assoc, List.take_append_drop]; exact hsplit
        cases hres : liRun orc B f ch' (i + (ch.flatten.take (B - carry.length)).length) (buf.drop (k + 1)) with
        | ok bl =>
          rw [hres] at hih
          dsimp only at hih ⊢
          obtain ⟨e1, e2⟩ := hih
          refine ⟨by rw [List.flatten_cons, e1, hall], ?_⟩
          cases bl with
          | nil => exact absurd e2 (by simp [LiGood])
          | cons c rest =>
            refine ⟨⟨buf.take k, take_succ_of_getD hk1 hx⟩, ?_, e2⟩
            simp only [List.length_take]; omega
        | error e =>
          rw [hres] at hih
          cases e with
          | fuel => exact hih
          | noNewline =>
            dsimp only at hih ⊢
            obtain ⟨b, hb1, hb2, hb3⟩ := hih
            refine ⟨b, hb1, hb2, ?_⟩
            rw [hall]
            exact List.IsInfix.trans hb3 ⟨buf.take (k + 1), [], by simp⟩

end KV.FilePiece
