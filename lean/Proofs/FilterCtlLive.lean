import Proofs.FilterCtlInv
/-!
Liveness of the threaded filter (fixed code): the bookkeeping of poisons and exited threads
(`Live`), "some thread is enabled in every unfinished reachable state", and a measure that
every step of every thread decreases.
-/
namespace KV.FilterCtl
open KV.Filter (Verdict)
variable {α : Type}

/-- poisons / exits by reader state: `nf`, `nd` poisons in the two queues, `ex` exited workers -/
def LiveClause (w : Nat) (rpc : RPc) (nf nd ex : Nat) (oe : Bool) : Prop :=
  match rpc with
  | .run => nf = 0 ∧ nd = 0 ∧ ex = 0 ∧ oe = false
  | .waitOne => nf = 0 ∧ nd = 0 ∧ ex = 0 ∧ oe = false
  | .waitAll => nf = 0 ∧ nd = 0 ∧ ex = 0 ∧ oe = false
  | .poisonW k => k ≤ w ∧ nf + ex + k = w ∧ nd = 0 ∧ oe = false
  | .poisonO => ex = w ∧ nf = 0 ∧ nd = 0 ∧ oe = false
  | .joinO => ex = w ∧ nf = 0 ∧ ((nd = 1 ∧ oe = false) ∨ (nd = 0 ∧ oe = true))
  | .done => True

structure Live (cfg : Cfg α) (s : State α) : Prop where
  hws : s.workers.length = cfg.workers
  hcl : LiveClause cfg.workers s.rpc (nones s.filterQ) (nones s.doneQ) (exitedCount s.workers) s.oExited

theorem exitedCount_le (ws : List (WSt α)) : exitedCount ws ≤ ws.length := by
  induction ws with
  | nil => simp [exitedCount]
  | cons w ws ih => cases w <;> simp [exitedCount] <;> omega

theorem live_reader {cfg : Cfg α} {s s' : State α} (h : Live cfg s) (hst : readerStep cfg s = some s') :
    Live cfg s' := by
  have hcl := h.hcl
  unfold readerStep at hst
  split at hst
  · -- run
    rename_i hrpc
    rw [hrpc] at hcl; simp only [LiveClause] at hcl
    split at hst
    · simp only [Option.some.injEq] at hst; subst hst
      exact ⟨h.hws, by simp only [LiveClause]; exact ⟨Nat.le_refl _, by omega, hcl.2.1, hcl.2.2.2⟩⟩
    · simp only [Option.some.injEq] at hst; subst hst
      exact ⟨h.hws, by rw [hrpc]; simp only [LiveClause]; exact hcl⟩
    · split at hst
      · simp at hst
      simp only at hst
      split at hst
      · split at hst
        · split at hst
          · simp only [Option.some.injEq] at hst; subst hst
            exact ⟨h.hws, by simpa [LiveClause, send] using hcl⟩
          · simp only [Option.some.injEq] at hst; subst hst
            refine ⟨by simp only [newInput, send]; split <;> exact h.hws, ?_⟩
            simp only [newInput, send]
            split <;> simpa [hrpc, LiveClause] using hcl
        · simp at hst
      · simp only [Option.some.injEq] at hst; subst hst
        exact ⟨h.hws, by rw [hrpc]; simp only [LiveClause]; exact hcl⟩
    · split at hst
      · simp at hst
      simp only at hst
      split at hst
      · simp only [Option.some.injEq] at hst; subst hst
        exact ⟨h.hws, by simp only [LiveClause]; exact hcl⟩
      · split at hst
        · simp only [Option.some.injEq] at hst; subst hst
          exact ⟨h.hws, by simpa [LiveClause, send] using hcl⟩
        · simp at hst
  · -- waitOne
    rename_i hrpc
    rw [hrpc] at hcl; simp only [LiveClause] at hcl
    split at hst
    · simp at hst
    · simp only [Option.some.injEq] at hst; subst hst
      refine ⟨by simp only [newInput]; exact h.hws, ?_⟩
      simp only [newInput, LiveClause]; exact hcl
  · -- waitAll
    rename_i hrpc
    rw [hrpc] at hcl; simp only [LiveClause] at hcl
    split at hst
    · split at hst
      · simp at hst
      · simp only [Option.some.injEq] at hst; subst hst
        exact ⟨h.hws, by rw [hrpc]; simp only [LiveClause]; exact hcl⟩
    · simp only [Option.some.injEq] at hst; subst hst
      refine ⟨by simp only [newInput]; split <;> exact h.hws, ?_⟩
      simp only [newInput]
      split <;> (simp only [LiveClause]; exact hcl)
  · -- poisonW 0: join
    rename_i hrpc
    rw [hrpc] at hcl; simp only [LiveClause] at hcl
    split at hst
    · rename_i hall
      simp only [Option.some.injEq] at hst; subst hst
      have := (all_exited_iff s.workers).mp hall
      have hw := h.hws
      exact ⟨h.hws, by simp only [LiveClause]; exact ⟨by omega, by omega, hcl.2.2.1, hcl.2.2.2⟩⟩
    · simp at hst
  · -- poisonW (k+1)
    rename_i k hrpc
    rw [hrpc] at hcl; simp only [LiveClause] at hcl
    split at hst
    · simp only [Option.some.injEq] at hst; subst hst
      exact ⟨h.hws, by simp only [LiveClause, nones_append, nones_cons_none, nones_nil]; exact ⟨by omega, by omega, hcl.2.2.1, hcl.2.2.2⟩⟩
    · simp at hst
  · -- poisonO
    rename_i hrpc
    rw [hrpc] at hcl; simp only [LiveClause] at hcl
    split at hst
    · simp only [Option.some.injEq] at hst; subst hst
      exact ⟨h.hws, by simp only [LiveClause, nones_append, nones_cons_none, nones_nil]; exact ⟨hcl.1, hcl.2.1, Or.inl ⟨by omega, hcl.2.2.2⟩⟩⟩
    · simp at hst
  · -- joinO
    split at hst
    · simp only [Option.some.injEq] at hst; subst hst
      exact ⟨h.hws, by simp only [LiveClause]⟩
    · simp at hst
  · simp at hst

theorem liveClause_same {w : Nat} {rpc : RPc} {nf nd ex : Nat} {oe : Bool} {nf' nd' ex' : Nat}
    (h : LiveClause w rpc nf nd ex oe) (h1 : nf' = nf) (h2 : nd' = nd) (h3 : ex' = ex) :
    LiveClause w rpc nf' nd' ex' oe := by subst h1; subst h2; subst h3; exact h

theorem live_worker {cfg : Cfg α} {s s' : State α} (i : Nat) (h : Live cfg s) (hst : workerStep cfg s i = some s') :
    Live cfg s' := by
  have hcl := h.hcl
  unfold workerStep at hst
  split at hst
  · rename_i hw
    split at hst
    · simp at hst
    · rename_i b q hq
      simp only [Option.some.injEq] at hst; subst hst
      obtain ⟨_, _, _, h4⟩ := held_set_take b hw
      exact ⟨by simp [h.hws], liveClause_same hcl (by simp [hq]) rfl h4⟩
    · rename_i q hq
      simp only [Option.some.injEq] at hst; subst hst
      obtain ⟨_, h2⟩ := held_set_exit hw
      refine ⟨by simp [h.hws], ?_⟩
      simp only [h2]
      rw [hq] at hcl
      simp only [nones_cons_none] at hcl
      cases hr : s.rpc with
      | poisonW k =>
        rw [hr] at hcl; simp only [LiveClause] at hcl ⊢
        exact ⟨hcl.1, by omega, hcl.2.2.1, hcl.2.2.2⟩
      | done => simp only [LiveClause]
      | run => rw [hr] at hcl; simp only [LiveClause] at hcl; exfalso; omega
      | waitOne => rw [hr] at hcl; simp only [LiveClause] at hcl; exfalso; omega
      | waitAll => rw [hr] at hcl; simp only [LiveClause] at hcl; exfalso; omega
      | poisonO => rw [hr] at hcl; simp only [LiveClause] at hcl; exfalso; omega
      | joinO => rw [hr] at hcl; simp only [LiveClause] at hcl; exfalso; omega
  · rename_i b hw
    split at hst
    · simp only [Option.some.injEq] at hst; subst hst
      obtain ⟨_, _, _, _, h5⟩ := held_set_put hw
      exact ⟨by simp [h.hws], liveClause_same hcl rfl (by simp) h5⟩
    · simp at hst
  · simp at hst

theorem live_out {cfg : Cfg α} {s s' : State α} (h : Live cfg s) (hst : outStep cfg s = some s') :
    Live cfg s' := by
  have hcl := h.hcl
  unfold outStep at hst
  split at hst
  · simp at hst
  rename_i hoe
  split at hst
  · split at hst
    · simp only [Option.some.injEq] at hst; subst hst
      exact ⟨h.hws, hcl⟩
    · simp at hst
  · split at hst
    · simp at hst
    · rename_i q hq
      simp only [Option.some.injEq] at hst; subst hst
      refine ⟨h.hws, ?_⟩
      rw [hq] at hcl
      simp only [nones_cons_none] at hcl
      have hoe' : s.oExited = false := by simpa using hoe
      rw [hoe'] at hcl
      cases hr : s.rpc with
      | joinO =>
        rw [hr] at hcl; simp only [LiveClause] at hcl ⊢
        obtain ⟨h1, h2, h3⟩ := hcl
        refine ⟨h1, h2, Or.inr ⟨?_, trivial⟩⟩
        rcases h3 with ⟨h3, _⟩ | ⟨_, h3⟩
        · omega
        · cases h3
      | done => simp only [LiveClause]
      | run => rw [hr] at hcl; simp only [LiveClause] at hcl; exfalso; omega
      | waitOne => rw [hr] at hcl; simp only [LiveClause] at hcl; exfalso; omega
      | waitAll => rw [hr] at hcl; simp only [LiveClause] at hcl; exfalso; omega
      | poisonO => rw [hr] at hcl; simp only [LiveClause] at hcl; exfalso; omega
      | poisonW k => rw [hr] at hcl; simp only [LiveClause] at hcl; exfalso; omega
    · rename_i b q hq
      simp only [Option.some.injEq] at hst; subst hst
      exact ⟨h.hws, liveClause_same hcl rfl (by simp [hq]) rfl⟩

theorem live_init (cfg : Cfg α) (p : List (ROp α)) : Live cfg (init cfg p) := by
  unfold init newInput
  split
  · exact ⟨by simp, by simp [LiveClause]⟩
  · exact ⟨by simp, by simp [LiveClause]⟩

theorem reach_live {cfg : Cfg α} (hv : cfg.variant = Variant.fixed) (hq : 1 ≤ cfg.queue) (_hw : 1 ≤ cfg.workers)
    {p : List (ROp α)} (hp : wf false p = true) {s : State α} (hr : Reach cfg p s) :
    ∃ c, Inv cfg p c s ∧ Live cfg s := by
  induction hr with
  | init => exact ⟨[], inv_init hv hq p hp, live_init cfg p⟩
  | step t _ hst ih =>
    obtain ⟨c, hc, hl⟩ := ih
    obtain ⟨c', hc'⟩ := inv_step hv hq t hc hst
    refine ⟨c', hc', ?_⟩
    cases t with
    | reader => exact live_reader hl hst
    | outw => exact live_out hl hst
    | worker i => exact live_worker i hl hst

/-! ### some thread is enabled -/

theorem enabled_ne_nil {cfg : Cfg α} {s : State α} {t : Tid} (ht : t ∈ allTids cfg)
    (hs : (step cfg s t).isSome = true) : enabled cfg s ≠ [] := by
  intro h
  have : t ∈ enabled cfg s := by
    simp only [enabled, List.mem_filter]; exact ⟨ht, hs⟩
  rw [h] at this; cases this

theorem reader_mem (cfg : Cfg α) : Tid.reader ∈ allTids cfg := by simp [allTids]
theorem outw_mem (cfg : Cfg α) : Tid.outw ∈ allTids cfg := by simp [allTids]
theorem worker_mem (cfg : Cfg α) {i : Nat} (h : i < cfg.workers) : Tid.worker i ∈ allTids cfg := by
  simp only [allTids, List.mem_cons, List.mem_map, List.mem_range]
  exact Or.inr (Or.inr ⟨i, h, rfl⟩)

theorem idx_lt_of_getElem? {β : Type} {l : List β} {i : Nat} {v : β} (h : l[i]? = some v) : i < l.length := by
  rcases Nat.lt_or_ge i l.length with hlt | hge
  · exact hlt
  · rw [List.getElem?_eq_none hge] at h; cases h

/-- a worker that holds a batch can always deliver it -/
theorem worker_put_enabled {cfg : Cfg α} {p : List (ROp α)} {c : List (List α)} {s : State α}
    (hi : Inv cfg p c s) (hl : Live cfg s) (hnd : nones s.doneQ = 0) {b : Batch α} (hb : b ∈ held s.workers) :
    enabled cfg s ≠ [] := by
  obtain ⟨i, hw⟩ := exists_holding hb
  have hlt := idx_lt_of_getElem? hw
  apply enabled_ne_nil (worker_mem cfg (by rw [← hl.hws]; exact hlt))
  have hroom : s.doneQ.length < cfg.queue := by
    have h1 := length_eq_somes_add_nones s.doneQ
    have h2 := hi.htotal
    have h3 : 0 < (held s.workers).length := List.length_pos_of_mem hb
    simp only [inflight, List.length_append] at h2
    omega
  simp [step, workerStep, hw, hroom]

/-- an idle worker can take whatever heads the queue -/
theorem worker_take_enabled {cfg : Cfg α} {s : State α} (hl : Live cfg s) (hh : held s.workers = [])
    (hex : exitedCount s.workers < s.workers.length) (hq : s.filterQ ≠ []) : enabled cfg s ≠ [] := by
  obtain ⟨i, hw⟩ := exists_idle hh hex
  have hlt := idx_lt_of_getElem? hw
  apply enabled_ne_nil (worker_mem cfg (by rw [← hl.hws]; exact hlt))
  cases hf : s.filterQ with
  | nil => exact absurd hf hq
  | cons x q => cases x <;> simp [step, workerStep, hw, hf]

theorem mem_somes_idx {β : Type} {l : List (Option β)} {b : β} (h : b ∈ somes l) : ∃ i : Nat, l[i]? = some (some b) := by
  simp only [somes, List.mem_filterMap, id] at h
  obtain ⟨x, hx, rfl⟩ := h
  obtain ⟨i, hi⟩ := List.getElem?_of_mem hx
  exact ⟨i, hi⟩

/-- while batches are on their way and the reader waits, a worker or the output worker can move -/
theorem pipeline_enabled {cfg : Cfg α} (hq : 1 ≤ cfg.queue) (hw : 1 ≤ cfg.workers) {p : List (ROp α)}
    {c : List (List α)} {s : State α} (hi : Inv cfg p c s) (hl : Live cfg s)
    (hnf : nones s.filterQ = 0) (hnd : nones s.doneQ = 0) (hex : exitedCount s.workers = 0) (hoe : s.oExited = false)
    (htr : s.toRead = []) (hin : inflight s ≠ []) : enabled cfg s ≠ [] := by
  cases hh : held s.workers with
  | cons b r => exact worker_put_enabled hi hl hnd (by rw [hh]; exact List.mem_cons_self)
  | nil =>
    by_cases hf : s.filterQ = []
    · -- everything on its way is with the output worker
      cases hord : s.ordering with
      | cons x rest =>
        cases x with
        | some b =>
          apply enabled_ne_nil (outw_mem cfg)
          simp [step, outStep, hoe, hord, htr]; omega
        | none =>
          cases hd : s.doneQ with
          | cons y q =>
            apply enabled_ne_nil (outw_mem cfg)
            cases y <;> simp [step, outStep, hoe, hord, hd]
          | nil =>
            exfalso
            have hinf : inflight s = somes s.ordering := by simp [inflight, hf, hh, hd]
            obtain ⟨b0, hb0⟩ := List.exists_mem_of_ne_nil _ hin
            have hr0 : s.baseSeq ≤ b0.seq ∧ b0.seq < s.seqNo := by
              have h1 := hi.hcnt b0.seq
              have h2 := cntL_mem_pos hb0 rfl
              by_cases hx : s.baseSeq ≤ b0.seq ∧ b0.seq < s.seqNo
              · exact hx
              · simp [hx] at h1; omega
            have h1 := hi.hcnt s.baseSeq
            have hlt : s.baseSeq < s.seqNo := by omega
            simp only [hlt, Nat.le_refl, and_self, if_true] at h1
            obtain ⟨b, hb, hbs⟩ := cntL_pos_mem (k := s.baseSeq) (l := inflight s) (by omega)
            rw [hinf] at hb
            obtain ⟨i, hidx⟩ := mem_somes_idx hb
            have := hi.hord i b hidx
            have hi0 : i = 0 := by omega
            subst hi0
            rw [hord] at hidx
            simp at hidx
      | nil =>
        cases hd : s.doneQ with
        | cons y q =>
          apply enabled_ne_nil (outw_mem cfg)
          cases y <;> simp [step, outStep, hoe, hord, hd]
        | nil =>
          exfalso
          apply hin
          simp [inflight, hf, hh, hd, hord]
    · exact worker_take_enabled hl hh (by rw [hex, hl.hws]; omega) hf

theorem live_not_deadlocked {cfg : Cfg α} (hq : 1 ≤ cfg.queue) (hw : 1 ≤ cfg.workers) {p : List (ROp α)}
    {c : List (List α)} {s : State α} (hi : Inv cfg p c s) (hl : Live cfg s) : ¬ Deadlocked cfg s := by
  rintro ⟨hnd, hen⟩
  apply (fun (h : enabled cfg s ≠ []) => h hen)
  have hcl := hl.hcl
  have hwf := hi.hwf
  have ht := hi.htotal
  cases hr : s.rpc with
  | done => exact absurd hr hnd
  | run =>
    rw [hr] at hcl; simp only [LiveClause] at hcl
    obtain ⟨top, lr, hlr, _⟩ := hi.hrun hr
    apply enabled_ne_nil (reader_mem cfg)
    have hroom : s.filterQ.length < cfg.queue := by
      have h1 := length_eq_somes_add_nones s.filterQ
      rw [hlr] at ht
      simp only [inflight, List.length_append, List.length_cons] at ht
      omega
    simp only [step, readerStep, hr]
    cases hp : s.prog with
    | nil => simp
    | cons o rest =>
      cases o with
      | emit m => simp
      | add x =>
        simp only [hlr, hroom, if_true]
        split
        · split <;> simp
        · simp
      | flush =>
        simp only [hlr, hroom, if_true]
        split <;> simp
  | waitOne =>
    rw [hr] at hcl hwf; simp only [LiveClause, WfClause] at hcl hwf
    cases htr : s.toRead with
    | cons b tr =>
      apply enabled_ne_nil (reader_mem cfg)
      simp [step, readerStep, hr, htr]
    | nil =>
      apply pipeline_enabled hq hw hi hl hcl.1 hcl.2.1 hcl.2.2.1 hcl.2.2.2 htr
      intro hin
      rw [hwf.2, htr, hin] at ht
      simp at ht; omega
  | waitAll =>
    rw [hr] at hcl; simp only [LiveClause] at hcl
    by_cases hlen : s.localRead.length < cfg.queue
    · cases htr : s.toRead with
      | cons b tr =>
        apply enabled_ne_nil (reader_mem cfg)
        simp [step, readerStep, hr, htr, hlen]
      | nil =>
        apply pipeline_enabled hq hw hi hl hcl.1 hcl.2.1 hcl.2.2.1 hcl.2.2.2 htr
        intro hin
        rw [htr, hin] at ht
        simp at ht; omega
    · apply enabled_ne_nil (reader_mem cfg)
      simp [step, readerStep, hr, hlen]
  | poisonW k =>
    rw [hr] at hcl hwf; simp only [LiveClause, WfClause] at hcl hwf
    obtain ⟨hinf, _, _⟩ := hi.home hwf.2
    have hh : held s.workers = [] := by
      have : (held s.workers).length = 0 := by
        have := congrArg List.length hinf
        simp only [inflight, List.length_append, List.length_nil] at this; omega
      exact List.eq_nil_of_length_eq_zero this
    cases k with
    | zero =>
      by_cases hall : s.workers.all WSt.isExited = true
      · apply enabled_ne_nil (reader_mem cfg)
        simp [step, readerStep, hr, hall]
      · have hne : exitedCount s.workers ≠ s.workers.length := fun h => hall ((all_exited_iff _).mpr h)
        have hle := exitedCount_le s.workers
        apply worker_take_enabled hl hh (by omega)
        intro hf
        rw [hf] at hcl; simp at hcl
        have := hl.hws; omega
    | succ k =>
      by_cases hroom : s.filterQ.length < cfg.queue
      · apply enabled_ne_nil (reader_mem cfg)
        simp [step, readerStep, hr, hroom]
      · apply worker_take_enabled hl hh (by have := hl.hws; omega)
        intro hf
        rw [hf] at hroom; simp at hroom; omega
  | poisonO =>
    rw [hr] at hcl hwf; simp only [LiveClause, WfClause] at hcl hwf
    obtain ⟨hinf, _, _⟩ := hi.home hwf.2
    apply enabled_ne_nil (reader_mem cfg)
    have hroom : s.doneQ.length < cfg.queue := by
      have h1 := length_eq_somes_add_nones s.doneQ
      have := congrArg List.length hinf
      simp only [inflight, List.length_append, List.length_nil] at this
      omega
    simp [step, readerStep, hr, hroom]
  | joinO =>
    rw [hr] at hcl hwf; simp only [LiveClause, WfClause] at hcl hwf
    obtain ⟨hinf, _, _⟩ := hi.home hwf.2
    by_cases hoe : s.oExited = true
    · apply enabled_ne_nil (reader_mem cfg)
      simp [step, readerStep, hr, hoe]
    · have hoe' : s.oExited = false := by simpa using hoe
      rw [hoe'] at hcl
      have hnd1 : nones s.doneQ = 1 := by
        rcases hcl.2.2 with ⟨h, _⟩ | ⟨_, h⟩
        · exact h
        · cases h
      have hso : somes s.ordering = [] := by
        have := congrArg List.length hinf
        simp only [inflight, List.length_append, List.length_nil] at this
        exact List.eq_nil_of_length_eq_zero (by omega)
      apply enabled_ne_nil (outw_mem cfg)
      cases hd : s.doneQ with
      | nil => rw [hd] at hnd1; simp at hnd1
      | cons y q =>
        cases hord : s.ordering with
        | nil => cases y <;> simp [step, outStep, hoe', hord, hd]
        | cons x rest =>
          cases x with
          | some b => rw [hord] at hso; simp at hso
          | none => cases y <;> simp [step, outStep, hoe', hord, hd]

/-! ### termination: a measure every step decreases -/

def rpcWeight (w : Nat) : RPc → Nat
  | .run => 2 * w + 6
  | .waitOne => 2 * w + 7
  | .waitAll => 2 * w + 7
  | .poisonW k => 2 * k + 5
  | .poisonO => 4
  | .joinO => 2
  | .done => 0

/-- remaining work: every reader operation, every stage a batch or poison still has to pass -/
def measure (cfg : Cfg α) (s : State α) : Nat :=
  8 * s.prog.length + rpcWeight cfg.workers s.rpc
  + 5 * (somes s.filterQ).length + nones s.filterQ + 4 * (held s.workers).length
  + 3 * (somes s.doneQ).length + nones s.doneQ + 2 * (somes s.ordering).length + s.toRead.length

theorem somes_set_length_le {β : Type} (L : List (Option β)) (pos : Nat) (b : β) :
    (somes (L.set pos (some b))).length ≤ (somes L).length + 1 := by
  induction L generalizing pos with
  | nil => simp
  | cons x L ih =>
    cases pos with
    | zero => cases x <;> simp
    | succ p =>
      have := ih p
      cases x <;> simp <;> omega

theorem measure_newInput (cfg : Cfg α) (s : State α) : measure cfg (newInput cfg s) = measure cfg s := by
  unfold newInput
  split <;> rfl

theorem measure_reader (cfg : Cfg α) {s s' : State α} (hst : readerStep cfg s = some s') :
    measure cfg s' < measure cfg s := by
  unfold readerStep at hst
  split at hst
  · rename_i hrpc
    split at hst
    · simp only [Option.some.injEq] at hst; subst hst
      simp only [measure, hrpc, rpcWeight]; omega
    · rename_i hp
      simp only [Option.some.injEq] at hst; subst hst
      simp only [measure, hp, List.length_cons]; omega
    · rename_i hp
      split at hst
      · simp at hst
      simp only at hst
      split at hst
      · split at hst
        · split at hst
          · simp only [Option.some.injEq] at hst; subst hst
            simp only [measure, send, hrpc, hp, rpcWeight, List.length_cons, somes_append, somes_cons_some, somes_nil,
              nones_append, nones_cons_some, nones_nil, List.length_append, List.length_nil]
            omega
          · simp only [Option.some.injEq] at hst; subst hst
            rw [measure_newInput]
            simp only [measure, send, hrpc, hp, rpcWeight, List.length_cons, somes_append, somes_cons_some, somes_nil,
              nones_append, nones_cons_some, nones_nil, List.length_append, List.length_nil]
            omega
        · simp at hst
      · simp only [Option.some.injEq] at hst; subst hst
        simp only [measure, hp, List.length_cons]; omega
    · rename_i hp
      split at hst
      · simp at hst
      simp only at hst
      split at hst
      · simp only [Option.some.injEq] at hst; subst hst
        simp only [measure, hrpc, hp, rpcWeight, List.length_cons]; omega
      · split at hst
        · simp only [Option.some.injEq] at hst; subst hst
          simp only [measure, send, hrpc, hp, rpcWeight, List.length_cons, somes_append, somes_cons_some, somes_nil,
            nones_append, nones_cons_some, nones_nil, List.length_append, List.length_nil]
          omega
        · simp at hst
  · rename_i hrpc
    split at hst
    · simp at hst
    · rename_i b tr htr
      simp only [Option.some.injEq] at hst; subst hst
      rw [measure_newInput]
      simp only [measure, hrpc, htr, rpcWeight, List.length_cons]; omega
  · rename_i hrpc
    split at hst
    · split at hst
      · simp at hst
      · rename_i b tr htr
        simp only [Option.some.injEq] at hst; subst hst
        simp only [measure, htr, List.length_cons]; omega
    · simp only [Option.some.injEq] at hst; subst hst
      rw [measure_newInput]
      simp only [measure, hrpc, rpcWeight]; omega
  · rename_i hrpc
    split at hst
    · simp only [Option.some.injEq] at hst; subst hst
      simp only [measure, hrpc, rpcWeight]; omega
    · simp at hst
  · rename_i k hrpc
    split at hst
    · simp only [Option.some.injEq] at hst; subst hst
      simp only [measure, hrpc, rpcWeight, somes_append, somes_cons_none, somes_nil, nones_append, nones_cons_none,
        nones_nil, List.append_nil]
      omega
    · simp at hst
  · rename_i hrpc
    split at hst
    · simp only [Option.some.injEq] at hst; subst hst
      simp only [measure, hrpc, rpcWeight, somes_append, somes_cons_none, somes_nil, nones_append, nones_cons_none,
        nones_nil, List.append_nil]
      omega
    · simp at hst
  · rename_i hrpc
    split at hst
    · simp only [Option.some.injEq] at hst; subst hst
      simp only [measure, hrpc, rpcWeight]; omega
    · simp at hst
  · simp at hst

theorem measure_worker (cfg : Cfg α) {s s' : State α} (i : Nat) (hst : workerStep cfg s i = some s') :
    measure cfg s' < measure cfg s := by
  unfold workerStep at hst
  split at hst
  · rename_i hw
    split at hst
    · simp at hst
    · rename_i b q hq
      simp only [Option.some.injEq] at hst; subst hst
      obtain ⟨_, h2, _, _⟩ := held_set_take b hw
      simp only [measure, hq, somes_cons_some, nones_cons_some, List.length_cons, h2]; omega
    · rename_i q hq
      simp only [Option.some.injEq] at hst; subst hst
      obtain ⟨h1, _⟩ := held_set_exit hw
      simp only [measure, hq, somes_cons_none, nones_cons_none, h1]; omega
  · rename_i b hw
    split at hst
    · simp only [Option.some.injEq] at hst; subst hst
      obtain ⟨_, h2, _, _, _⟩ := held_set_put hw
      simp only [measure, somes_append, somes_cons_some, somes_nil, nones_append, nones_cons_some, nones_nil,
        List.length_append, List.length_cons, List.length_nil, h2]
      omega
    · simp at hst
  · simp at hst

theorem measure_out (cfg : Cfg α) {s s' : State α} (hst : outStep cfg s = some s') :
    measure cfg s' < measure cfg s := by
  unfold outStep at hst
  split at hst
  · simp at hst
  split at hst
  · rename_i b rest hord
    split at hst
    · simp only [Option.some.injEq] at hst; subst hst
      simp only [measure, hord, somes_cons_some, List.length_cons, List.length_append, List.length_nil]; omega
    · simp at hst
  · split at hst
    · simp at hst
    · rename_i q hq
      simp only [Option.some.injEq] at hst; subst hst
      simp only [measure, hq, somes_cons_none, nones_cons_none]; omega
    · rename_i b q hq
      simp only [Option.some.injEq] at hst; subst hst
      have h1 := somes_set_length_le (s.ordering ++ List.replicate (b.seq - s.baseSeq + 1 - s.ordering.length) none)
        (b.seq - s.baseSeq) b
      simp only [somes_append, somes_replicate_none, List.append_nil] at h1
      simp only [measure, hq, somes_cons_some, nones_cons_some, List.length_cons]; omega

/-- **every step of every thread decreases the measure** (this needs no invariant and holds
for the old code as well: runs are finite; what the old code lacks is progress) -/
theorem measure_decreases (cfg : Cfg α) {s s' : State α} (t : Tid) (hst : step cfg s t = some s') :
    measure cfg s' < measure cfg s := by
  cases t with
  | reader => exact measure_reader cfg hst
  | outw => exact measure_out cfg hst
  | worker i => exact measure_worker cfg i hst

end KV.FilterCtl
