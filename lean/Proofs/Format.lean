import Model.Format
/-! Helper lemmas for C19 (core only): text length of `fmtShortest`, digit-count bounds. -/
namespace KV.Format

@[simp] theorem length_digitChars (ds : List Nat) : (digitChars ds).length = ds.length := by
  simp [digitChars]

@[simp] theorem length_pad (c : Char) (k : Int) : (pad c k).length = k.toNat := by
  simp [pad]

def decLen (n : Nat) (point : Int) : Nat :=
  if point ≤ 0 then (if (n : Int) - point > 0 then 2 + (-point).toNat + n else 1)
  else if point ≥ n then point.toNat
  else n + 1

theorem decRep_length (c : Conv) (digits : List Nat) (point : Int)
    (h1 : c.emitTrailingDecimalPoint = false) (h2 : c.emitTrailingZeroAfterPoint = false) :
    (decRep c digits point (max 0 ((digits.length : Int) - point))).length = decLen digits.length point := by
  unfold decRep decLen
  simp only [h1, h2]
  by_cases hp : point ≤ 0
  · by_cases ha : (digits.length : Int) - point > 0
    · have : max 0 ((digits.length : Int) - point) > 0 := by omega
      have hlt : point < (digits.length : Int) := by omega
      simp [hp, hlt, this]; omega
    · have : ¬ max 0 ((digits.length : Int) - point) > 0 := by omega
      have h0 : max 0 ((digits.length : Int) - point) = 0 := by omega
      have hnlt : ¬ point < (digits.length : Int) := by omega
      simp [hp, hnlt, this, h0]
  · by_cases hq : point ≥ (digits.length : Int)
    · have h0 : max 0 ((digits.length : Int) - point) = 0 := by omega
      simp [hp, hq, h0]; omega
    · have hne : ¬ max 0 ((digits.length : Int) - point) = 0 := by omega
      simp [hp, hq, hne]; omega

def expLen (c : Conv) (n : Nat) (exponent : Int) : Nat :=
  (min 1 n) + (if n ≠ 1 then 1 + (n - 1) else 0) + 1
    + (if exponent < 0 then 1 else if c.emitPositiveExponentSign then 1 else 0)
    + (min c.minExpWidth 5 - (fmtNat exponent.natAbs).length) + (fmtNat exponent.natAbs).length

theorem expRep_length (c : Conv) (digits : List Nat) (exponent : Int) :
    (expRep c digits exponent).length = expLen c digits.length exponent := by
  unfold expRep expLen
  by_cases hn : digits.length ≠ 1 <;> by_cases he : exponent < 0 <;> by_cases hs : c.emitPositiveExponentSign
    <;> simp [hn, he, hs] <;> omega

theorem shortestLen_eq (c : Conv) (neg z : Bool) (n : Nat) (point : Int) :
    shortestLen c neg z n point
      = (if neg && (!z || !c.uniqueZero) then 1 else 0)
        + (if c.low ≤ point - 1 ∧ point - 1 < c.high then decLen n point else expLen c n (point - 1)) := by
  unfold shortestLen decLen expLen
  rfl

/-- the text length of `fmtShortest` depends only on (sign, zero?, digit count, point). -/
theorem fmtShortest_length (c : Conv) (neg : Bool) (digits : List Nat) (point : Int)
    (h1 : c.emitTrailingDecimalPoint = false) (h2 : c.emitTrailingZeroAfterPoint = false) :
    (fmtShortest c neg digits point).length
      = shortestLen c neg (digits.all (· == 0)) digits.length point := by
  rw [shortestLen_eq]
  unfold fmtShortest
  simp only [List.length_append]
  congr 1
  · split <;> simp
  · split
    · exact decRep_length c digits point h1 h2
    · exact expRep_length c digits (point - 1)

/-! ### bounds -/

theorem length_fmtNat_le {n k : Nat} (hk : 0 < k) (h : n < 10 ^ k) : (fmtNat n).length ≤ k :=
  (Nat.length_toDigits_le_iff (by decide) hk).mpr h

theorem length_fmtNat_pos (n : Nat) : 0 < (fmtNat n).length := Nat.length_toDigits_pos

theorem decLen_le (n D : Nat) (point low high : Int) (hn : n ≤ D) (hl : low ≤ point - 1) (hh : point - 1 < high) :
    decLen n point ≤ max (max (2 + (-low - 1).toNat + D) high.toNat) (D + 1) := by
  unfold decLen
  split
  · split <;> omega
  · split <;> omega

theorem expLen_le (c : Conv) (n D k : Nat) (e : Int) (hn : n ≤ D) (hk : 0 < k) (he : e.natAbs < 10 ^ k)
    (hw : min c.minExpWidth 5 ≤ k) : expLen c n e ≤ D + 3 + k := by
  have h1 := length_fmtNat_le hk he
  unfold expLen
  generalize (fmtNat e.natAbs).length = L at *
  split <;> split <;> (try split) <;> omega

theorem length_fmtInt_le {i : Int} {k : Nat} (hk : 0 < k) (_hk' : True) (h : i.natAbs < 10 ^ k) :
    (fmtInt i).length ≤ k + 1 := by
  have := length_fmtNat_le hk h
  unfold fmtInt
  split <;> simp <;> omega

theorem length_fmtPtr_le {v k : Nat} (hk : 0 < k) (_hk' : True) (h : v < 16 ^ k) : (fmtPtr v).length ≤ k + 2 := by
  have := (Nat.length_toDigits_le_iff (b := 16) (by decide) hk).mpr h
  unfold fmtPtr
  simp; omega

/-- the longest text `fmtShortest` can produce for at most `D` digits and a decimal exponent of at most `k` digits. -/
def maxShortestLen (c : Conv) (D k : Nat) : Nat :=
  1 + max (max (max (2 + (-c.low - 1).toNat + D) c.high.toNat) (D + 1)) (D + 3 + k)

theorem shortestLen_le (c : Conv) (neg z : Bool) (n D k : Nat) (point : Int) (hn : n ≤ D) (hk : 0 < k)
    (he : (point - 1).natAbs < 10 ^ k) (hw : min c.minExpWidth 5 ≤ k) :
    shortestLen c neg z n point ≤ maxShortestLen c D k := by
  rw [shortestLen_eq]
  unfold maxShortestLen
  have hs : (if neg && (!z || !c.uniqueZero) then 1 else 0) ≤ 1 := by split <;> omega
  by_cases h : c.low ≤ point - 1 ∧ point - 1 < c.high
  · have := decLen_le n D point c.low c.high hn h.1 h.2
    rw [if_pos h]
    omega
  · have := expLen_le c n D k (point - 1) hn hk he hw
    rw [if_neg h]
    omega

end KV.Format
